#!/bin/bash
# MANIFEST.setup_cmd — offline build of the whole framework from files on disk.
set -e
cd "$(dirname "$0")"
export GOFLAGS=-mod=mod GOPROXY=off GOSUMDB=off GOTOOLCHAIN=local
mkdir -p build evidence replays
exec ./check ALL --setup
