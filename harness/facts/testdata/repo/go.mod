module example.com/mini

go 1.18
