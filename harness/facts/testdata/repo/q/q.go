package q

const (
	Limit uint64 = 1 << 10
	Big          = 1<<64 - 1
)
