package q

const (
	Limit uint64 = 1 << 10
	Big          = 1<<64 - 1
)

const DigestLen = 4

type Step uint8

const (
	StepNew  = Step(0x01)
	StepWait = Step(0x02)
	StepDone = Step(0x03)
)
