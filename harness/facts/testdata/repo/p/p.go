// Package p exercises every construct of the facts translator (test data, not part of any check).
package p

import (
	"errors"
	"math"
	"math/big"
	"math/bits"
	"time"

	"example.com/mini/q"
)

type Op byte

const (
	A Op = iota
	B
	C
	_
	E
)

const (
	K0 = iota * 10
	K1
	K2
	Shifted   = 1 << (K1 / 5)
	Hex       = 0x_ff
	Neg       = -(3 + 4) % 5
	Typed     = int64(math.MaxInt64) / 8
	Timeout   = 2 * time.Second
	Name      = "ab" + "c"
	FromOther = q.Limit + 1
	Wide      = q.Big/32 + 1
	Rune      = 'a'
	Sci       = 1e3
)

var Cap = uint64(7)

var Config = struct{ Bump uint64 }{Bump: 10}

type T struct {
	n    int64
	xs   []elem
	cost uint64
}

type elem struct{ w int64 }

// sumTo uses a three-clause loop and a compound assignment.
func sumTo(n int64) int64 {
	s := int64(0)
	for i := int64(0); i < n; i++ {
		s += i
	}
	return s
}

func countUp(lo, hi uint64) (cnt uint64) {
	for i := lo; i <= hi; i++ {
		if i%2 == 0 {
			cnt++
		}
	}
	return cnt
}

func clamp(x int32, lo, hi int32) int32 {
	if x < lo {
		return lo
	} else if x > hi {
		return hi
	}
	return x + 0
}

func narrow(x int64, y uint8) (int8, uint16, uint64, int) {
	var z uint8 = y + 200
	return int8(x), uint16(x) * 3, uint64(z) << 2, int(y) - 300
}

func bitsOf(x uint64, s uint) (int, uint64, uint64) {
	m := x&0xff | 1<<s ^ 3
	return bits.Len64(x), m, ^x >> 60
}

func signedBits(a, b int64) int64 {
	return a&b | (a ^ b) + ^a
}

func (t *T) weight() (int64, bool) {
	if t.n == 0 {
		panic("empty")
	}
	var total int64
	ok := true
	for _, e := range t.xs {
		total += e.w
		if e.w < 0 {
			ok = false
		}
	}
	t.cost = uint64(total)
	return total / t.n, ok && total != 0
}

func avg(a, b *big.Int) (*big.Int, bool) {
	s := new(big.Int).Add(a, b)
	s.Quo(s, big.NewInt(2))
	t := s.Mul(s, big.NewInt(1))
	return t, s.Cmp(a) >= 0 && t.Sign() > 0 && s.IsInt64()
}

func check(n int) error {
	if n > K2 {
		return errTooBig
	}
	return nil
}

func swap(a, b int64) (int64, int64) {
	a, b = b, a
	if x := a - b; x > 0 {
		a = x
	}
	return a, b
}

func useOthers(n int64) int64 {
	a, b := swap(n, sumTo(n))
	return clamp32(a) + b
}

func clamp32(x int64) int64 { return int64(clamp(int32(x), -5, 5)) }

func (t *T) update(d int64) {
	limit := t.n * 2
	if d > limit {
		d = limit
	}
	t.n += d
	t.cost++
}

var errTooBig = errors.New("too big")

// --- constructs added for the guard / boundary anchors (switch, case conditions, call arguments,
// composite-literal fields, arbitrary expressions, narrow unsigned bit operations, enum types of
// another package, len of an array type, big.Int package values, byte-string prefixes)

type Digest [q.DigestLen]byte

const digestLen = len(Digest{})

var (
	order, _  = new(big.Int).SetString("ff", 16)
	halfOrder = new(big.Int).Div(order, big.NewInt(2))
	prefix    = []byte("pre")
)

type S struct {
	round uint32
	step  q.Step
}

type pair struct{ lo, hi int64 }

func (s *S) enter(round uint32) {
	if round < s.round || (s.round == round && q.StepWait <= s.step) {
		return
	}
	s.skip(int64(round - s.round))
}

func (s *S) skip(n int64) {}

func classify(b byte) (int, uint64) {
	switch {
	case b < 0x80:
		return 0, 0
	case b < 0xB8:
		return 1, uint64(b - 0x80)
	default:
		return 2, uint64(b-0xB7) + 1
	}
}

func dispatch(st q.Step, n int) int {
	switch st {
	case q.StepNew, q.StepWait:
		n++
	case q.StepDone:
		n = n * 2
	}
	return n
}

func flagByte(t byte, odd bool, first byte) byte {
	f := t << 5
	if odd {
		f |= 1 << 4
		f |= first
	}
	return f ^ 0 | f&0xff>>0
}

func inOrder(s *big.Int) bool {
	return s.Cmp(halfOrder) <= 0 && s.Cmp(order) < 0
}

func mk(a int64) pair {
	return pair{lo: a - 1, hi: a*2 + 1}
}
