package main

// Declarative tables: [256]*struct jump tables built by a composite literal and then mutated
// entry by entry (`t[OP] = &operation{..}`, `t[OP].field = v`, `enableX(&t)`).

import (
	"fmt"
	"go/ast"
	"go/token"
	"strings"
)

type entry struct {
	name   string // key as written (an opcode constant)
	node   ast.Node
	fields map[string]ast.Expr
}

type table [256]*entry

type tabler struct {
	p     *Pkg
	depth int
}

func (t *tabler) index(fn *ast.FuncDecl, k ast.Expr) (int, error) {
	v, err := ceval{p: t.p, f: fileOf(t.p, k)}.eval(k)
	if err != nil || v.K != 'i' || v.I.Sign() < 0 || v.I.BitLen() > 8 {
		return 0, fmt.Errorf("%s: table index %s is not a constant in 0..255", where(k), render(k))
	}
	return int(v.I.Int64()), nil
}

func (t *tabler) entryOf(e ast.Expr, key ast.Expr) (*entry, error) {
	if u, ok := e.(*ast.UnaryExpr); ok && u.Op == token.AND {
		e = u.X
	}
	if id, ok := e.(*ast.Ident); ok && id.Name == "nil" {
		return nil, nil
	}
	cl, ok := e.(*ast.CompositeLit)
	if !ok {
		return nil, fmt.Errorf("%s: unsupported table entry %s", where(e), render(e))
	}
	en := &entry{node: cl, fields: map[string]ast.Expr{}}
	if id, ok := key.(*ast.Ident); ok {
		en.name = id.Name
	}
	for _, el := range cl.Elts {
		kv, ok := el.(*ast.KeyValueExpr)
		if !ok {
			return nil, fmt.Errorf("%s: unkeyed field in table entry", where(el))
		}
		en.fields[render(kv.Key)] = kv.Value
	}
	return en, nil
}

// value evaluates an expression denoting a whole table.
func (t *tabler) value(fn *ast.FuncDecl, e ast.Expr, env map[string]*table) (*table, error) {
	switch e := e.(type) {
	case *ast.Ident:
		if tb, ok := env[e.Name]; ok {
			cp := *tb
			return &cp, nil
		}
	case *ast.CallExpr:
		if id, ok := e.Fun.(*ast.Ident); ok && len(e.Args) == 0 {
			return t.ctor(id.Name)
		}
	case *ast.CompositeLit:
		tb := &table{}
		for _, el := range e.Elts {
			kv, ok := el.(*ast.KeyValueExpr)
			if !ok {
				return nil, fmt.Errorf("%s: unkeyed table element", where(el))
			}
			i, err := t.index(fn, kv.Key)
			if err != nil {
				return nil, err
			}
			if tb[i], err = t.entryOf(kv.Value, kv.Key); err != nil {
				return nil, err
			}
		}
		return tb, nil
	}
	return nil, fmt.Errorf("%s: unsupported table expression %s", where(e), strings.SplitN(render(e), "{", 2)[0])
}

func (t *tabler) ctor(name string) (*table, error) {
	fn, err := t.p.findFunc(name, "")
	if err != nil {
		return nil, err
	}
	if t.depth++; t.depth > 16 {
		return nil, fmt.Errorf("table constructors nest too deeply at %s", name)
	}
	defer func() { t.depth-- }()
	tb, err := t.run(fn, map[string]*table{})
	if err == nil && tb == nil {
		err = fmt.Errorf("%s does not return a table", name)
	}
	return tb, err
}

// slot resolves t[K] (or (*t)[K]) to the table and index.
func (t *tabler) slot(fn *ast.FuncDecl, e ast.Expr, env map[string]*table) (*table, int, ast.Expr, bool) {
	ix, ok := e.(*ast.IndexExpr)
	if !ok {
		return nil, 0, nil, false
	}
	x := ix.X
	if p, ok := x.(*ast.ParenExpr); ok {
		x = p.X
	}
	if s, ok := x.(*ast.StarExpr); ok {
		x = s.X
	}
	id, ok := x.(*ast.Ident)
	if !ok || env[id.Name] == nil {
		return nil, 0, nil, false
	}
	i, err := t.index(fn, ix.Index)
	return env[id.Name], i, ix.Index, err == nil
}

func (t *tabler) run(fn *ast.FuncDecl, env map[string]*table) (*table, error) {
	for _, s := range fn.Body.List {
		bad := fmt.Errorf("%s: unsupported statement in table constructor %s: %s", where(s), fn.Name.Name, strings.SplitN(render(s), "{", 2)[0])
		switch s := s.(type) {
		case *ast.ReturnStmt:
			if len(s.Results) == 0 {
				return nil, nil
			}
			if len(s.Results) != 1 {
				return nil, bad
			}
			return t.value(fn, s.Results[0], env)
		case *ast.AssignStmt:
			if len(s.Lhs) != 1 || len(s.Rhs) != 1 || (s.Tok != token.DEFINE && s.Tok != token.ASSIGN) {
				return nil, bad
			}
			if id, ok := s.Lhs[0].(*ast.Ident); ok {
				tb, err := t.value(fn, s.Rhs[0], env)
				if err != nil {
					return nil, err
				}
				env[id.Name] = tb
			} else if tb, i, key, ok := t.slot(fn, s.Lhs[0], env); ok {
				en, err := t.entryOf(s.Rhs[0], key)
				if err != nil {
					return nil, err
				}
				tb[i] = en
			} else if sel, ok := s.Lhs[0].(*ast.SelectorExpr); ok {
				tb, i, _, ok := t.slot(fn, sel.X, env)
				if !ok || tb[i] == nil {
					return nil, bad
				}
				cp := &entry{name: tb[i].name, node: s, fields: map[string]ast.Expr{}}
				for k, v := range tb[i].fields {
					cp.fields[k] = v
				}
				cp.fields[sel.Sel.Name] = s.Rhs[0]
				tb[i] = cp
			} else {
				return nil, bad
			}
		case *ast.ExprStmt: // enableX(&t): run the callee on the same table
			call, ok := s.X.(*ast.CallExpr)
			if !ok {
				return nil, bad
			}
			id, ok := call.Fun.(*ast.Ident)
			if !ok {
				return nil, bad
			}
			callee, err := t.p.findFunc(id.Name, "")
			if err != nil {
				return nil, err
			}
			var names []string
			for _, f := range callee.Type.Params.List {
				for _, n := range f.Names {
					names = append(names, n.Name)
				}
			}
			if len(names) != len(call.Args) {
				return nil, bad
			}
			env2 := map[string]*table{}
			for i, a := range call.Args {
				if u, ok := a.(*ast.UnaryExpr); ok && u.Op == token.AND {
					a = u.X
				}
				aid, ok := a.(*ast.Ident)
				if !ok || env[aid.Name] == nil {
					return nil, bad
				}
				env2[names[i]] = env[aid.Name]
			}
			if t.depth++; t.depth > 16 {
				return nil, bad
			}
			_, err = t.run(callee, env2)
			t.depth--
			if err != nil {
				return nil, err
			}
		default:
			return nil, bad
		}
	}
	return nil, nil
}

func (g *gen) tableItem(p *Pkg, it *Item) error {
	ctor := it.Ctor
	if it.Var != "" { // the package-level variable the interpreter uses, initialised by a constructor call
		cd, ok := p.consts[it.Var]
		call, isCall := (ast.Expr)(nil), false
		if ok && cd.isVar && cd.val != nil {
			call = cd.val
		}
		if ce, ok2 := call.(*ast.CallExpr); ok2 && len(ce.Args) == 0 {
			if id, ok3 := ce.Fun.(*ast.Ident); ok3 {
				ctor, isCall = id.Name, true
			}
		}
		if !isCall {
			return fmt.Errorf("anchor not found: variable %s initialised by a constructor call", it.Var)
		}
	}
	st, ok := p.types[it.Struct].(*ast.StructType)
	if !ok {
		return fmt.Errorf("anchor not found: struct type %q", it.Struct)
	}
	sname := it.SLean
	if sname == "" {
		sname = "OpInfo"
	}
	c, err := g.newCtx(p, nil, nil)
	if err != nil {
		return err
	}
	type field struct{ goName, lean, ty string }
	var fields []field
	for _, f := range st.Fields.List {
		for _, n := range f.Names {
			ty := c.norm(typeName(f.Type))
			if k := c.kind(ty); k == 's' || k == 'u' || k == 'b' {
				fields = append(fields, field{n.Name, leanName(n.Name), ty})
			} else {
				fields = append(fields, field{n.Name, "has" + strings.ToUpper(n.Name[:1]) + n.Name[1:], ""})
			}
		}
	}
	if !g.structs[sname] {
		g.structs[sname] = true
		g.doc(st, "type "+it.Struct+" struct: function-valued fields become presence flags")
		g.out = append(g.out, "structure "+sname+" where", "  op : Nat", "  name : String", "  defined : Bool")
		undef := "{ op := op, name := \"\", defined := false"
		for _, f := range fields {
			lt, zero := "Bool", "false"
			if f.ty != "" && f.ty != "bool" {
				lt, zero = c.leanTy(f.ty), "0"
			}
			g.out = append(g.out, "  "+f.lean+" : "+lt)
			undef += ", " + f.lean + " := " + zero
		}
		g.out = append(g.out, "  deriving Repr, DecidableEq", "", "/-- a nil entry of the table (invalid opcode) -/",
			"def "+sname+".undefined (op : Nat) : "+sname+" :=", "  "+undef+" }", "")
	}
	tb, err := (&tabler{p: p}).ctor(ctor)
	if err != nil {
		return err
	}
	var rows []string
	defined := 0
	sep := func(i int) string { return map[bool]string{true: ",", false: ""}[i < len(tb)-1] }
	for i, en := range tb {
		if en == nil {
			rows = append(rows, fmt.Sprintf("  %s.undefined %d%s", sname, i, sep(i)))
			continue
		}
		defined++
		c.f = fileOf(p, en.node)
		row := fmt.Sprintf("  { op := %d, name := %q, defined := true", i, en.name)
		for _, f := range fields {
			e, present := en.fields[f.goName]
			val := "false"
			switch {
			case f.ty == "":
				val = fmt.Sprint(present && render(e) != "nil")
			case present:
				x, err := c.tr(e)
				if err != nil {
					return err
				}
				if val, err = c.conv(e, x, f.ty); err != nil {
					return err
				}
				val = unparen(val)
			case f.ty != "bool":
				val = "0"
			}
			row += ", " + f.lean + " := " + val
		}
		for k, e := range en.fields {
			found := false
			for _, f := range fields {
				found = found || f.goName == k
			}
			if !found {
				return fmt.Errorf("%s: field %s is not a field of %s", where(e), k, it.Struct)
			}
		}
		rows = append(rows, row+" }"+sep(i)+"  -- "+where(en.node))
	}
	fn, _ := p.findFunc(ctor, "")
	g.doc(fn, fmt.Sprintf("%s(): %d of 256 opcodes defined", ctor, defined))
	g.out = append(g.out, "def "+it.Lean+" : List "+sname+" := [")
	g.out = append(g.out, rows...)
	g.out = append(g.out, "]", "")
	return nil
}
