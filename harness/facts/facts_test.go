package main

import (
	"flag"
	"os"
	"path/filepath"
	"strings"
	"testing"
)

var update = flag.Bool("update", false, "rewrite testdata/golden.lean")

// TestGolden translates the mini repository under testdata (it uses every supported construct)
// and compares with the committed output; the golden file is itself compiled and evaluated by
// Lean in notes/T1.md.
func TestGolden(t *testing.T) {
	out := filepath.Join(t.TempDir(), "Mini.lean")
	if err := run("testdata/repo", "testdata/spec.json", "KV.Gen.Mini", out); err != nil {
		t.Fatal(err)
	}
	got, _ := os.ReadFile(out)
	if *update {
		os.WriteFile("testdata/golden.lean", got, 0o644)
	}
	want, _ := os.ReadFile("testdata/golden.lean")
	if string(got) != string(want) {
		t.Fatalf("output differs from testdata/golden.lean (run go test -update and review the diff)")
	}
	again := filepath.Join(t.TempDir(), "Mini2.lean")
	if err := run("testdata/repo", "testdata/spec.json", "KV.Gen.Mini", again); err != nil {
		t.Fatal(err)
	}
	if b, _ := os.ReadFile(again); string(b) != string(got) {
		t.Fatal("output is not deterministic")
	}
}

// TestRejects: anchors that are missing or outside the subset must fail with a one-line reason
// (the pipeline then falls back to the committed copy).
func TestRejects(t *testing.T) {
	cases := map[string]string{
		`[{"kind":"assign","file":"p/p.go","func":"update","recv":"T","lhs":"nothere","lean":"x"}]`:                                   "anchor not found",
		`[{"kind":"const","file":"p/p.go","name":"Missing","lean":"x"}]`:                                                              "not found",
		`[{"kind":"func","file":"p/p.go","name":"weight","recv":"T","lean":"x"}]`:                                                     "unmapped",
		`[{"kind":"cond","file":"p/p.go","func":"update","recv":"T","nth":1,"lean":"x"}]`:                                             "unmapped free identifier limit",
		`[{"kind":"func","file":"p/p.go","name":"update","recv":"T","lean":"x","params":[{"expr":"t.n","name":"n","type":"int64"}]}]`: "unmapped",
		`[{"kind":"func","file":"p/p.go","name":"nope","lean":"x"}]`:                                                                  "not found",
		`[{"kind":"block","file":"p/p.go","func":"clamp","from":"if x < lo","out":["x"],"lean":"x"}]`:                                 "return inside an extracted block",
		`[{"kind":"const","file":"p/p.go","name":"K1","lean":"x","typo":1}]`:                                                          "unknown field",
		`[{"kind":"table","file":"p/p.go","ctor":"sumTo","struct":"T","lean":"x"}]`:                                                   "unsupported table expression",
		`[{"kind":"return","file":"p/p.go","func":"avg","index":0,"lean":"x","params":[{"expr":"t","name":"t","type":"int64"}]}]`:     "",
	}
	for spec, wantErr := range cases {
		sp := filepath.Join(t.TempDir(), "s.json")
		os.WriteFile(sp, []byte(spec), 0o644)
		out := filepath.Join(t.TempDir(), "o.lean")
		err := run("testdata/repo", sp, "KV.Gen.X", out)
		if wantErr == "" {
			if err != nil {
				t.Errorf("%s: unexpected error %v", spec, err)
			}
			continue
		}
		if err == nil || !strings.Contains(err.Error(), wantErr) {
			t.Errorf("%s: got %v, want error containing %q", spec, err, wantErr)
		}
		if _, statErr := os.Stat(out); statErr == nil {
			t.Errorf("%s: output written despite the error", spec)
		}
	}
}
