package main

// Statement lists in continuation style: every statement is translated together with
// "what happens afterwards" (k), so an early return inside an if becomes
// `if c then <ret> else <rest>`.

import (
	"go/ast"
	"go/token"
	"strings"
)

type cont func() ([]string, error)

func indent(ls []string) []string {
	out := make([]string, len(ls))
	for i, l := range ls {
		out[i] = "  " + l
	}
	return out
}

func cloneVars(m map[string]*vinfo) map[string]*vinfo {
	n := make(map[string]*vinfo, len(m))
	for k, v := range m {
		n[k] = v
	}
	return n
}

func (c *Ctx) isPanic(s ast.Stmt) bool {
	if es, ok := s.(*ast.ExprStmt); ok {
		if call, ok := es.X.(*ast.CallExpr); ok {
			id, ok := call.Fun.(*ast.Ident)
			return ok && id.Name == "panic" && !c.isVar("panic")
		}
	}
	return false
}

// hasExit reports whether the statements contain a return, panic or branch statement.
func (c *Ctx) hasExit(list []ast.Stmt) bool {
	found := false
	for _, s := range list {
		ast.Inspect(s, func(n ast.Node) bool {
			switch n := n.(type) {
			case *ast.FuncLit:
				return false
			case *ast.ReturnStmt, *ast.BranchStmt:
				found = true
			case ast.Stmt:
				if c.isPanic(n) {
					found = true
				}
			}
			return !found
		})
	}
	return found
}

// lhsName resolves an assignable expression to (Go key, Lean name, type): a variable in scope
// or a Go expression mapped to a named parameter (e.g. a struct field).
func (c *Ctx) lhsName(e ast.Expr) (string, *vinfo) {
	if id, ok := e.(*ast.Ident); ok {
		if v, ok := c.vars[id.Name]; ok {
			return id.Name, v
		}
		if ty, ok := c.autoParam(id.Name); ok {
			return id.Name, &vinfo{lean: leanName(id.Name), ty: ty}
		}
	}
	if p := c.lookupParam(render(e)); p != nil && p.As == "" {
		return "\x00" + p.Name, &vinfo{lean: leanName(p.Name), ty: c.norm(p.Type)}
	}
	return "", nil
}

// assigned lists (in order of first occurrence) the outer variables assigned in the statements.
func (c *Ctx) assigned(list []ast.Stmt) []*vinfo {
	var out []*vinfo
	seen := map[string]bool{}
	add := func(e ast.Expr) {
		if key, v := c.lhsName(e); v != nil && !seen[key] {
			seen[key] = true
			out = append(out, v)
		}
	}
	for _, s := range list {
		ast.Inspect(s, func(n ast.Node) bool {
			switch n := n.(type) {
			case *ast.AssignStmt:
				if n.Tok != token.DEFINE {
					for _, l := range n.Lhs {
						add(l)
					}
				}
				if call, ok := n.Rhs[0].(*ast.CallExpr); ok && len(n.Rhs) == 1 {
					c.mutRecv(call, add)
				}
			case *ast.IncDecStmt:
				add(n.X)
			case *ast.ExprStmt:
				if call, ok := n.X.(*ast.CallExpr); ok {
					c.mutRecv(call, add)
				}
			}
			return true
		})
	}
	return out
}

// mutRecv calls f on the receiver of a top-level big.Int method call x.Op(..) when x is a variable.
func (c *Ctx) mutRecv(call *ast.CallExpr, f func(ast.Expr)) {
	if sel, ok := call.Fun.(*ast.SelectorExpr); ok {
		if id, ok := sel.X.(*ast.Ident); ok {
			if _, v := c.lhsName(id); v != nil && v.ty == "big" { // a variable, or an expression mapped to a parameter
				f(id)
			}
		}
	}
}

func tuple(names []string) string {
	if len(names) == 1 {
		return names[0]
	}
	return "(" + strings.Join(names, ", ") + ")"
}

func (c *Ctx) accPattern(vs []*vinfo) (pat, typ string) {
	var ns, ts []string
	for _, v := range vs {
		ns = append(ns, v.lean)
		ts = append(ts, c.leanTy(v.ty))
	}
	return tuple(ns), strings.Join(ts, " × ")
}

func (c *Ctx) define(n ast.Node, name, ty string) (string, error) {
	if name == "_" {
		return "_", nil
	}
	if c.kind(ty) == 0 || c.kind(ty) == 'n' {
		return "", c.errf(n, "variable %s has unsupported type %s", name, ty)
	}
	if v, ok := c.vars[name]; ok && v.depth < c.depth {
		return "", c.errf(n, "declaration of %s shadows an outer variable (not supported)", name)
	}
	c.vars[name] = &vinfo{lean: leanName(name), ty: ty, depth: c.depth}
	return leanName(name), nil
}

func (c *Ctx) stmts(list []ast.Stmt, k cont) ([]string, error) {
	if len(list) == 0 {
		return k()
	}
	s := list[0]
	rest := func() ([]string, error) { return c.stmts(list[1:], k) }
	then := func(ls []string, err error) ([]string, error) {
		if err != nil {
			return nil, err
		}
		r, err := rest()
		return append(ls, r...), err
	}
	switch s := s.(type) {
	case *ast.EmptyStmt:
		return rest()
	case *ast.BlockStmt:
		return c.stmts(append(append([]ast.Stmt{}, s.List...), list[1:]...), k)
	case *ast.ReturnStmt:
		return c.ret(s)
	case *ast.DeclStmt:
		return then(c.declStmt(s))
	case *ast.AssignStmt:
		return then(c.assign(s))
	case *ast.IncDecStmt:
		op := token.ADD_ASSIGN
		if s.Tok == token.DEC {
			op = token.SUB_ASSIGN
		}
		return then(c.assign(&ast.AssignStmt{Lhs: []ast.Expr{s.X}, TokPos: s.TokPos, Tok: op, Rhs: []ast.Expr{&ast.BasicLit{ValuePos: s.TokPos, Kind: token.INT, Value: "1"}}}))
	case *ast.ExprStmt:
		if c.isPanic(s) {
			if !c.option {
				return nil, c.errf(s, "panic outside a function translated to Option")
			}
			return []string{"none"}, nil
		}
		if call, ok := s.X.(*ast.CallExpr); ok {
			var recv ast.Expr
			c.mutRecv(call, func(e ast.Expr) { recv = e })
			if recv != nil {
				return then(c.assign(&ast.AssignStmt{Lhs: []ast.Expr{&ast.Ident{NamePos: s.Pos(), Name: "_"}}, TokPos: s.Pos(), Tok: token.DEFINE, Rhs: []ast.Expr{call}}))
			}
		}
		return nil, c.errf(s, "unsupported statement %s", render(s))
	case *ast.IfStmt:
		return c.ifStmt(s, rest)
	case *ast.SwitchStmt:
		chain, err := c.switchChain(s)
		if err != nil {
			return nil, err
		}
		return c.stmts(append(chain, list[1:]...), k)
	case *ast.RangeStmt:
		return then(c.rangeStmt(s))
	case *ast.ForStmt:
		return then(c.forStmt(s))
	}
	return nil, c.errf(s, "unsupported statement %s", strings.SplitN(render(s), "{", 2)[0])
}

func (c *Ctx) ret(s *ast.ReturnStmt) ([]string, error) {
	if c.noReturn {
		return nil, c.errf(s, "return inside an extracted block")
	}
	if len(s.Results) != len(c.results) {
		return nil, c.errf(s, "return with %d values, function has %d results (bare returns are not supported)", len(s.Results), len(c.results))
	}
	var parts []string
	for i, r := range s.Results {
		if c.results[i] == "error" {
			parts = append(parts, map[bool]string{true: "false", false: "true"}[render(r) == "nil"])
			continue
		}
		x, err := c.tr(r)
		if err != nil {
			return nil, err
		}
		v, err := c.conv(r, x, c.results[i])
		if err != nil {
			return nil, err
		}
		parts = append(parts, v)
	}
	out := tuple(parts)
	if len(parts) == 0 {
		out = "()"
	}
	if c.option {
		out = "some " + paren(out)
	}
	return []string{out}, nil
}

func paren(s string) string {
	if strings.HasPrefix(s, "(") || !strings.ContainsAny(s, " ") {
		return s
	}
	return "(" + s + ")"
}

func (c *Ctx) declStmt(s *ast.DeclStmt) ([]string, error) {
	gd, ok := s.Decl.(*ast.GenDecl)
	if !ok || gd.Tok != token.VAR {
		return nil, c.errf(s, "unsupported declaration")
	}
	var out []string
	for _, sp := range gd.Specs {
		vs := sp.(*ast.ValueSpec)
		for i, n := range vs.Names {
			var val string
			ty := c.norm(typeName(vs.Type))
			switch {
			case len(vs.Values) == len(vs.Names):
				x, err := c.tr(vs.Values[i])
				if err != nil {
					return nil, err
				}
				if vs.Type == nil {
					if ty = x.ty; ty == "untyped" {
						ty = "int"
					}
				}
				if val, err = c.conv(vs.Values[i], x, ty); err != nil {
					return nil, err
				}
			case len(vs.Values) == 0 && (c.kind(ty) == 's' || c.kind(ty) == 'u'):
				val = "0"
			case len(vs.Values) == 0 && c.kind(ty) == 'b':
				val = "false"
			default:
				return nil, c.errf(s, "unsupported declaration %s", render(s))
			}
			ln, err := c.define(n, n.Name, ty)
			if err != nil {
				return nil, err
			}
			out = append(out, "let "+ln+" : "+c.leanTy(ty)+" := "+val)
		}
	}
	return out, nil
}

var assignOps = map[token.Token]token.Token{token.ADD_ASSIGN: token.ADD, token.SUB_ASSIGN: token.SUB, token.MUL_ASSIGN: token.MUL,
	token.QUO_ASSIGN: token.QUO, token.REM_ASSIGN: token.REM, token.AND_ASSIGN: token.AND, token.OR_ASSIGN: token.OR,
	token.XOR_ASSIGN: token.XOR, token.SHL_ASSIGN: token.SHL, token.SHR_ASSIGN: token.SHR}

func (c *Ctx) assign(s *ast.AssignStmt) ([]string, error) {
	if op, ok := assignOps[s.Tok]; ok {
		if len(s.Lhs) != 1 || len(s.Rhs) != 1 {
			return nil, c.errf(s, "unsupported assignment %s", render(s))
		}
		return c.assign(&ast.AssignStmt{Lhs: s.Lhs, TokPos: s.TokPos, Tok: token.ASSIGN,
			Rhs: []ast.Expr{&ast.BinaryExpr{X: s.Lhs[0], OpPos: s.TokPos, Op: op, Y: &ast.ParenExpr{Lparen: s.Rhs[0].Pos(), X: s.Rhs[0]}}}})
	}
	if s.Tok != token.ASSIGN && s.Tok != token.DEFINE {
		return nil, c.errf(s, "unsupported assignment %s", render(s))
	}
	// evaluate all right-hand sides in the old environment
	var vals []X
	var pre []string
	for _, r := range s.Rhs {
		c.allowMut = r
		x, err := c.tr(r)
		c.allowMut = nil
		if err != nil {
			return nil, err
		}
		if call, ok := r.(*ast.CallExpr); ok && len(s.Rhs) == 1 && x.ty == "big" { // x.Op(..) also updates x
			c.mutRecv(call, func(e ast.Expr) {
				_, v := c.lhsName(e)
				pre = append(pre, "let "+v.lean+" : Int := "+x.s)
				x.s = v.lean
			})
		}
		vals = append(vals, x)
	}
	if len(vals) == 1 && vals[0].ty == "tuple" {
		if len(vals[0].tys) != len(s.Lhs) {
			return nil, c.errf(s, "assignment count mismatch in %s", render(s))
		}
	} else if len(vals) != len(s.Lhs) {
		return nil, c.errf(s, "assignment count mismatch in %s", render(s))
	}
	var names, texts, ltys []string
	for i, l := range s.Lhs {
		var ty string
		if vals[0].ty == "tuple" {
			ty = vals[0].tys[i]
		} else if ty = vals[i].ty; ty == "untyped" {
			ty = "int"
		}
		vty := ty
		id, isIdent := l.(*ast.Ident)
		_, existing := c.lhsName(l)
		switch {
		case isIdent && id.Name == "_":
			names = append(names, "_")
		case s.Tok == token.DEFINE && isIdent && (existing == nil || c.vars[id.Name] == nil || c.vars[id.Name].depth < c.depth):
			ln, err := c.define(l, id.Name, ty)
			if err != nil {
				return nil, err
			}
			names = append(names, ln)
		case existing != nil:
			ty = existing.ty
			names = append(names, existing.lean)
		default:
			return nil, c.errf(l, "assignment to unmapped expression %s", render(l))
		}
		ltys = append(ltys, c.leanTy(ty))
		if vals[0].ty != "tuple" {
			t, err := c.conv(s.Rhs[i], vals[i], ty)
			if err != nil {
				return nil, err
			}
			texts = append(texts, t)
		} else if names[i] != "_" && ty != vty {
			return nil, c.errf(l, "type mismatch assigning %s", render(l))
		}
	}
	if vals[0].ty == "tuple" {
		return append(pre, "let "+tuple(names)+" := "+vals[0].s), nil
	}
	if len(names) == 1 && names[0] == "_" {
		return pre, nil
	}
	if tuple(names) == tuple(texts) { // x = x.Op(..): the receiver update already bound x
		return pre, nil
	}
	return append(pre, "let "+tuple(names)+" : "+strings.Join(ltys, " × ")+" := "+tuple(texts)), nil
}

func (c *Ctx) ifStmt(s *ast.IfStmt, rest cont) ([]string, error) {
	env0, depth0 := c.vars, c.depth
	restore := func() { c.vars, c.depth = env0, depth0 }
	defer restore()
	var elseList []ast.Stmt
	switch e := s.Else.(type) {
	case *ast.BlockStmt:
		elseList = e.List
	case *ast.IfStmt:
		elseList = []ast.Stmt{e}
	}
	branches := append(append([]ast.Stmt{}, s.Body.List...), elseList...)
	c.vars, c.depth = cloneVars(env0), depth0+1
	var pre []string
	if s.Init != nil {
		var err error
		if pre, err = c.stmts([]ast.Stmt{s.Init}, func() ([]string, error) { return nil, nil }); err != nil {
			return nil, err
		}
	}
	cx, err := c.tr(s.Cond)
	if err != nil {
		return nil, err
	}
	if cx.ty != "bool" {
		return nil, c.errf(s.Cond, "condition is not boolean")
	}
	cond := strings.TrimSuffix(strings.TrimPrefix(cx.s, "(decide "), ")")
	if cond == cx.s || !balanced(cond) {
		cond = cx.s
	}
	envIf := c.vars
	branch := func(list []ast.Stmt, k cont) ([]string, error) {
		c.vars, c.depth = cloneVars(envIf), depth0+2
		return c.stmts(list, k)
	}
	if !c.hasExit(branches) { // join: the if only updates variables
		c.vars = env0
		acc := c.assigned(branches)
		c.vars = envIf
		if len(acc) == 0 {
			restore()
			return rest()
		}
		pat, ptyp := c.accPattern(acc)
		fin := func() ([]string, error) { return []string{pat}, nil }
		a, err := branch(s.Body.List, fin)
		if err != nil {
			return nil, err
		}
		b, err := branch(elseList, fin)
		if err != nil {
			return nil, err
		}
		out := append(pre, "let "+pat+" : "+ptyp+" :=")
		out = append(out, "  if "+cond+" then")
		out = append(out, indent(indent(a))...)
		out = append(out, "  else")
		out = append(out, indent(indent(b))...)
		if len(pre) > 0 { // keep the init statement's variables local
			out = append([]string{"let " + pat + " : " + ptyp + " :="}, append(indent(out), "  "+pat)...)
		}
		restore()
		r, err := rest()
		return append(out, r...), err
	}
	after := func() ([]string, error) { // the continuation sees the environment before the if
		c.vars, c.depth = cloneVars(env0), depth0
		return rest()
	}
	a, err := branch(s.Body.List, after)
	if err != nil {
		return nil, err
	}
	b, err := branch(elseList, after)
	if err != nil {
		return nil, err
	}
	out := append(pre, "if "+cond+" then")
	out = append(out, indent(a)...)
	if _, chain := s.Else.(*ast.IfStmt); chain && strings.HasPrefix(b[0], "if ") {
		return append(append(out, "else "+b[0]), b[1:]...), nil
	}
	out = append(out, "else")
	return append(out, indent(b)...), nil
}

// switchChain rewrites a switch (no init statement, no break/fallthrough) into the equivalent
// if / else-if chain; the default clause becomes the final else wherever it is written.
func (c *Ctx) switchChain(s *ast.SwitchStmt) ([]ast.Stmt, error) {
	if s.Init != nil {
		return nil, c.errf(s, "switch with an init statement is not supported")
	}
	var dflt []ast.Stmt
	var clauses []*ast.CaseClause
	for _, cl := range s.Body.List {
		cc := cl.(*ast.CaseClause)
		bad := false
		for _, b := range cc.Body {
			ast.Inspect(b, func(n ast.Node) bool {
				if _, ok := n.(*ast.BranchStmt); ok {
					bad = true
				}
				return !bad
			})
		}
		if bad {
			return nil, c.errf(cc, "break/fallthrough/continue/goto inside a switch clause is not supported")
		}
		if cc.List == nil {
			dflt = cc.Body
			if dflt == nil {
				dflt = []ast.Stmt{}
			}
		} else {
			clauses = append(clauses, cc)
		}
	}
	var tail ast.Stmt
	if dflt != nil {
		tail = &ast.BlockStmt{Lbrace: s.Body.Lbrace, List: dflt}
	}
	for i := len(clauses) - 1; i >= 0; i-- {
		cc := clauses[i]
		cond, err := c.caseCond(s, cc)
		if err != nil {
			return nil, err
		}
		tail = &ast.IfStmt{If: cc.Pos(), Cond: cond, Body: &ast.BlockStmt{Lbrace: cc.Colon, List: cc.Body}, Else: tail}
	}
	switch t := tail.(type) {
	case nil:
		return nil, nil
	case *ast.BlockStmt:
		return t.List, nil
	}
	return []ast.Stmt{tail}, nil
}

func balanced(s string) bool {
	d := 0
	for _, r := range s {
		if r == '(' {
			d++
		} else if r == ')' {
			if d--; d < 0 {
				return false
			}
		}
	}
	return d == 0
}

// loop emits `let acc := List.foldl (fun acc x => body; acc) acc xs`.
func (c *Ctx) loop(s ast.Stmt, body []ast.Stmt, elem, elemTy, list string, bind []string, setup func()) ([]string, error) {
	if c.hasExit(body) {
		return nil, c.errf(s, "return/panic/break/continue inside a loop is not supported")
	}
	acc := c.assigned(body)
	if len(acc) == 0 {
		return nil, nil
	}
	env0, depth0, np := c.vars, c.depth, len(c.params)
	defer func() { c.vars, c.depth, c.params = env0, depth0, c.params[:np] }()
	c.vars, c.depth = cloneVars(env0), depth0+1
	setup()
	pat, typ := c.accPattern(acc)
	b, err := c.stmts(body, func() ([]string, error) { return []string{pat}, nil })
	if err != nil {
		return nil, err
	}
	out := []string{"let " + pat + " := List.foldl (fun (" + pat + " : " + typ + ") (" + elem + " : " + elemTy + ") =>"}
	out = append(out, indent(indent(bind))...)
	out = append(out, indent(indent(b))...)
	out[len(out)-1] += ") " + pat + " " + list
	return out, nil
}

func (c *Ctx) rangeStmt(s *ast.RangeStmt) ([]string, error) {
	if s.Tok != token.DEFINE || s.Value == nil || (s.Key != nil && render(s.Key) != "_") {
		return nil, c.errf(s, "only `for _, v := range xs` is supported")
	}
	v, ok := s.Value.(*ast.Ident)
	if !ok {
		return nil, c.errf(s, "unsupported range value")
	}
	xs, err := c.tr(s.X)
	if err != nil {
		return nil, err
	}
	if c.kind(xs.ty) != 'l' {
		return nil, c.errf(s.X, "range over %s (type %s) is not supported", render(s.X), xs.ty)
	}
	ety := xs.ty[2:]
	p := c.lookupParam(render(s.X))
	setup := func() {
		if p != nil && p.Elem != "" { // the list stands for a projection of the ranged elements
			c.params = append(c.params, &pinfo{Param: Param{Expr: v.Name + p.Elem, As: leanName(v.Name), Type: ety}, temp: true})
		} else {
			c.vars[v.Name] = &vinfo{lean: leanName(v.Name), ty: ety, depth: c.depth}
		}
	}
	return c.loop(s, s.Body.List, leanName(v.Name), c.leanTy(ety), xs.s, nil, setup)
}

// forStmt handles `for i := a; i < b; i++ { .. }` (also `<=`) as a fold over List.range.
func (c *Ctx) forStmt(s *ast.ForStmt) ([]string, error) {
	bad := func() ([]string, error) {
		return nil, c.errf(s, "only `for i := a; i < b; i++` loops are supported")
	}
	init, ok := s.Init.(*ast.AssignStmt)
	cond, ok2 := s.Cond.(*ast.BinaryExpr)
	post, ok3 := s.Post.(*ast.IncDecStmt)
	if !ok || !ok2 || !ok3 || init.Tok != token.DEFINE || len(init.Lhs) != 1 || len(init.Rhs) != 1 || post.Tok != token.INC ||
		(cond.Op != token.LSS && cond.Op != token.LEQ) || render(cond.X) != render(init.Lhs[0]) || render(post.X) != render(init.Lhs[0]) {
		return bad()
	}
	i := render(init.Lhs[0])
	a, err := c.tr(init.Rhs[0])
	if err != nil {
		return nil, err
	}
	b, err := c.tr(cond.Y)
	if err != nil {
		return nil, err
	}
	ty := a.ty
	if ty == "untyped" {
		if ty = b.ty; ty == "untyped" {
			ty = "int"
		}
	}
	as, err := c.conv(init.Rhs[0], a, ty)
	if err != nil {
		return nil, err
	}
	bs, err := c.conv(cond.Y, b, ty)
	if err != nil {
		return nil, err
	}
	k := c.kind(ty)
	if k != 's' && k != 'u' {
		return bad()
	}
	for _, v := range c.assigned(s.Body.List) { // neither the counter nor the bound may change in the body
		bound := false
		ast.Inspect(cond.Y, func(n ast.Node) bool {
			if id, ok := n.(*ast.Ident); ok && leanName(id.Name) == v.lean {
				bound = true
			}
			return true
		})
		if v.lean == leanName(i) || bound {
			return bad()
		}
	}
	if cond.Op == token.LEQ {
		bs = "(" + bs + " + 1)"
	}
	cnt, bind := "("+bs+" - "+as+")", "let "+leanName(i)+" : Nat := "+as+" + j_"
	if k == 's' {
		cnt, bind = "(Int.toNat ("+bs+" - "+as+"))", "let "+leanName(i)+" : Int := "+as+" + Int.ofNat j_"
	}
	setup := func() { c.vars[i] = &vinfo{lean: leanName(i), ty: ty, depth: c.depth} }
	return c.loop(s, s.Body.List, "j_", "Nat", "(List.range "+cnt+")", []string{bind}, setup)
}
