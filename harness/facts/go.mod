module verif/facts

go 1.23
