package main

// Package loading: parse every non-test .go file of a directory and index package-level
// constants, variables, functions and type declarations. No type checking.

import (
	"bytes"
	"fmt"
	"go/ast"
	"go/parser"
	"go/printer"
	"go/token"
	"os"
	"path/filepath"
	"regexp"
	"sort"
	"strconv"
	"strings"
)

type cdecl struct {
	typ   ast.Expr // declared type or nil
	val   ast.Expr // initialiser or nil
	iota  int
	file  *ast.File
	isVar bool
}

type Pkg struct {
	dir, rel string
	files    []*ast.File
	consts   map[string]*cdecl
	funcs    map[string]*ast.FuncDecl // "Name" or "Recv.Name"
	ffile    map[*ast.FuncDecl]*ast.File
	types    map[string]ast.Expr
	cache    map[string]*Val
	busy     map[string]bool
}

var (
	fset     = token.NewFileSet()
	repoRoot string
	modPath  string                // module path of the repository
	requires = map[string]string{} // module -> version (from go.mod)
	pkgs     = map[string]*Pkg{}
)

func loadRepo(root string) error {
	repoRoot = root
	b, err := os.ReadFile(filepath.Join(root, "go.mod"))
	if err != nil {
		return err
	}
	re := regexp.MustCompile(`^\s*(?:require\s+)?([^\s()]+)\s+(v[^\s]+)`)
	for _, ln := range strings.Split(string(b), "\n") {
		if f := strings.Fields(ln); len(f) == 2 && f[0] == "module" {
			modPath = f[1]
		} else if m := re.FindStringSubmatch(ln); m != nil {
			requires[m[1]] = m[2]
		}
	}
	if modPath == "" {
		return fmt.Errorf("no module line in go.mod")
	}
	return nil
}

func loadPkg(dir string) (*Pkg, error) {
	if p, ok := pkgs[dir]; ok {
		return p, nil
	}
	ents, err := os.ReadDir(dir)
	if err != nil {
		return nil, err
	}
	rel, _ := filepath.Rel(repoRoot, dir)
	p := &Pkg{dir: dir, rel: rel, consts: map[string]*cdecl{}, funcs: map[string]*ast.FuncDecl{},
		ffile: map[*ast.FuncDecl]*ast.File{}, types: map[string]ast.Expr{}, cache: map[string]*Val{}, busy: map[string]bool{}}
	var names []string
	for _, e := range ents {
		if n := e.Name(); !e.IsDir() && strings.HasSuffix(n, ".go") && !strings.HasSuffix(n, "_test.go") {
			names = append(names, n)
		}
	}
	sort.Strings(names)
	for _, n := range names {
		f, err := parser.ParseFile(fset, filepath.Join(dir, n), nil, parser.SkipObjectResolution)
		if err != nil {
			return nil, err
		}
		p.files = append(p.files, f)
		for _, d := range f.Decls {
			switch d := d.(type) {
			case *ast.FuncDecl:
				key := d.Name.Name
				if d.Recv != nil && len(d.Recv.List) == 1 {
					key = strings.TrimPrefix(typeName(d.Recv.List[0].Type), "*") + "." + key
				}
				if _, dup := p.funcs[key]; !dup {
					p.funcs[key] = d
					p.ffile[d] = f
				}
			case *ast.GenDecl:
				p.indexGen(f, d)
			}
		}
	}
	pkgs[dir] = p
	return p, nil
}

func (p *Pkg) indexGen(f *ast.File, d *ast.GenDecl) {
	var lastT ast.Expr
	var lastV []ast.Expr
	for i, s := range d.Specs {
		switch s := s.(type) {
		case *ast.TypeSpec:
			p.types[s.Name.Name] = s.Type
		case *ast.ValueSpec:
			typ, vals := s.Type, s.Values
			if d.Tok == token.CONST {
				if len(vals) == 0 { // implicit repetition inside a const block
					typ, vals = lastT, lastV
				} else {
					lastT, lastV = typ, vals
				}
			}
			for j, n := range s.Names {
				cd := &cdecl{typ: typ, iota: i, file: f, isVar: d.Tok == token.VAR}
				if j < len(vals) {
					cd.val = vals[j]
				}
				if _, dup := p.consts[n.Name]; !dup && n.Name != "_" {
					p.consts[n.Name] = cd
				}
			}
		}
	}
}

// importOf resolves a package qualifier used in file f: either a builtin table name
// ("math", "time", "bits", "big") or the directory of the imported package.
func importOf(f *ast.File, name string) (builtin string, dir string, err error) {
	for _, im := range f.Imports {
		path, _ := strconv.Unquote(im.Path.Value)
		local := path[strings.LastIndex(path, "/")+1:]
		if im.Name != nil {
			local = im.Name.Name
		}
		if local != name {
			continue
		}
		switch path {
		case "math", "time", "math/bits", "math/big":
			return path[strings.LastIndex(path, "/")+1:], "", nil
		}
		if path == modPath || strings.HasPrefix(path, modPath+"/") {
			return "", filepath.Join(repoRoot, strings.TrimPrefix(strings.TrimPrefix(path, modPath), "/")), nil
		}
		best := ""
		for m := range requires {
			if (path == m || strings.HasPrefix(path, m+"/")) && len(m) > len(best) {
				best = m
			}
		}
		if best == "" {
			return "", "", fmt.Errorf("import %q: not in the repository module nor in go.mod", path)
		}
		esc := regexp.MustCompile(`[A-Z]`).ReplaceAllStringFunc(best, func(s string) string { return "!" + strings.ToLower(s) })
		return "", filepath.Join(modCache(), esc+"@"+requires[best], strings.TrimPrefix(path, best)), nil
	}
	return "", "", fmt.Errorf("%s is not an imported package", name)
}

func modCache() string {
	if v := os.Getenv("GOMODCACHE"); v != "" {
		return v
	}
	if v := os.Getenv("GOPATH"); v != "" {
		return filepath.Join(strings.Split(v, string(os.PathListSeparator))[0], "pkg", "mod")
	}
	h, _ := os.UserHomeDir()
	return filepath.Join(h, "go", "pkg", "mod")
}

// findFunc looks a function up by name and optional receiver type name.
func (p *Pkg) findFunc(name, recv string) (*ast.FuncDecl, error) {
	key := name
	if recv != "" {
		key = strings.TrimPrefix(recv, "*") + "." + name
	}
	if fn, ok := p.funcs[key]; ok && fn.Body != nil {
		return fn, nil
	}
	return nil, fmt.Errorf("function %s not found in %s", key, p.rel)
}

// render prints a node the way gofmt does, collapsed to one line.
func render(n ast.Node) string {
	var b bytes.Buffer
	printer.Fprint(&b, fset, n)
	return strings.Join(strings.Fields(b.String()), " ")
}

func typeName(e ast.Expr) string {
	switch t := e.(type) {
	case *ast.Ident:
		return t.Name
	case *ast.SelectorExpr:
		return typeName(t.X) + "." + t.Sel.Name
	case *ast.StarExpr:
		return "*" + typeName(t.X)
	case *ast.ArrayType:
		if t.Len == nil {
			return "[]" + typeName(t.Elt)
		}
	case nil:
		return ""
	}
	return "?" + render(e)
}

func where(n ast.Node) string {
	pos := fset.Position(n.Pos())
	rel, err := filepath.Rel(repoRoot, pos.Filename)
	if err != nil || strings.HasPrefix(rel, "..") {
		rel = filepath.Base(pos.Filename)
	}
	return fmt.Sprintf("%s:%d", rel, pos.Line)
}
