package main

// Typed translation of Go expressions into Lean terms over KV.Base.I64.

import (
	"fmt"
	"go/ast"
	"go/token"
	"math/big"
	"regexp"
	"strings"
)

// X is a translated expression: Lean text, Go type ("untyped" for untyped integer constants,
// "tuple" for multi-value calls) and, for constants, the value.
type X struct {
	s     string
	ty    string
	c     *Val
	tys   []string // component types of a tuple
	fresh bool     // big.Int value with no aliasing (new(big.Int), big.NewInt(..))
	// lazy: a non-constant shift of an untyped constant (`1 << n`); it takes its type from the context
	lazy func(ty string) (string, error)
}

type pinfo struct {
	Param
	temp bool // loop-scoped element mapping
}

type vinfo struct {
	lean  string
	ty    string
	depth int
}

type fnInfo struct {
	lean    string
	params  []string // Go types of the Lean parameters taken from the Go signature (in order)
	keep    []int    // indices of the Go parameters kept
	results []string
	option  bool
	extra   int // number of spec parameters appended
}

type Ctx struct {
	p        *Pkg
	f        *ast.File
	fn       *ast.FuncDecl
	params   []*pinfo
	auto     []string // function parameters used as Lean parameters (Go names), signature order
	autoTy   map[string]string
	vars     map[string]*vinfo
	depth    int
	funcs    map[string]*fnInfo
	option   bool
	results  []string
	allowMut ast.Expr
	noReturn bool
}

func (c *Ctx) errf(n ast.Node, format string, a ...interface{}) error {
	return fmt.Errorf("%s: %s", where(n), fmt.Sprintf(format, a...))
}

// norm canonicalises a Go type name; named integer types are replaced by their underlying type.
func (c *Ctx) norm(t string) string {
	switch t {
	case "byte":
		return "uint8"
	case "rune":
		return "int32"
	case "uintptr":
		return "uint64"
	case "*big.Int", "big.Int", "big":
		return "big"
	case "time.Duration":
		return "int64"
	}
	if strings.HasPrefix(t, "[]") {
		return "[]" + c.norm(t[2:])
	}
	if u, ok := c.p.types[t]; ok {
		if _, isStruct := u.(*ast.StructType); !isStruct {
			return c.norm(typeName(u))
		}
	}
	// pkg.Named: a named integer type of an imported package (enum types such as
	// cstypes.RoundStepType), resolved through the imports of the current file
	if i := strings.Index(t, "."); i > 0 && c.f != nil && chainRe.MatchString(t) && strings.Count(t, ".") == 1 {
		if builtin, dir, err := importOf(c.f, t[:i]); err == nil && builtin == "" {
			if q, err := loadPkg(dir); err == nil {
				if u, ok := q.types[t[i+1:]]; ok {
					if _, isStruct := u.(*ast.StructType); !isStruct && len(q.files) > 0 {
						return (&Ctx{p: q, f: q.files[0]}).norm(typeName(u))
					}
				}
			}
		}
	}
	return t
}

// kind: 's' signed, 'u' unsigned, 'b' bool, 'B' big, 'e' error, 'l' list, 'n' untyped int, 't' string, 0 unsupported.
func (c *Ctx) kind(t string) byte {
	switch {
	case t == "untyped":
		return 'n'
	case t == "bool":
		return 'b'
	case t == "big":
		return 'B'
	case t == "error":
		return 'e'
	case t == "string":
		return 't'
	case strings.HasPrefix(t, "[]"):
		if k := c.kind(t[2:]); k == 's' || k == 'u' || k == 'b' {
			return 'l'
		}
		return 0
	}
	if signed, _, ok := c.p.intInfo(t); ok {
		if signed {
			return 's'
		}
		return 'u'
	}
	return 0
}

func (c *Ctx) leanTy(t string) string {
	switch c.kind(t) {
	case 's', 'B', 'n':
		return "Int"
	case 'u':
		return "Nat"
	case 'b', 'e':
		return "Bool"
	case 't':
		return "String"
	case 'l':
		return "List " + c.leanTy(t[2:])
	}
	return "?" + t
}

func lit(v *big.Int) string {
	if v.Sign() < 0 {
		return "(" + v.String() + ")"
	}
	return v.String()
}

var leanKeywords = map[string]bool{"at": true, "end": true, "from": true, "open": true, "in": true, "fun": true, "then": true,
	"have": true, "show": true, "with": true, "do": true, "let": true, "def": true, "where": true, "by": true, "Type": true,
	"Prop": true, "Sort": true, "instance": true, "structure": true, "namespace": true, "section": true, "match": true,
	"mut": true, "deriving": true, "class": true, "example": true, "theorem": true, "local": true, "some": true, "none": true,
	"true": true, "false": true, "calc": true, "using": true, "suffices": true, "obtain": true, "variable": true, "universe": true,
	"abbrev": true, "inductive": true, "private": true, "protected": true, "macro": true, "syntax": true, "notation": true,
	"infix": true, "prefix": true, "postfix": true, "attribute": true, "set_option": true, "export": true, "mutual": true, "λ": true}

func leanName(n string) string {
	if leanKeywords[n] || forbidden.MatchString(n) {
		return n + "_"
	}
	return n
}

var chainRe = regexp.MustCompile(`^[A-Za-z_][A-Za-z0-9_]*(\.[A-Za-z_][A-Za-z0-9_]*)*$`)

// lookupParam matches a printed Go expression against the spec's params. A pattern starting
// with "*" matches any selector chain followed by the rest of the pattern.
func (c *Ctx) lookupParam(printed string) *pinfo {
	for i := len(c.params) - 1; i >= 0; i-- {
		p := c.params[i]
		if p.Expr == printed {
			return p
		}
		if strings.HasPrefix(p.Expr, "*") && len(p.Expr) > 1 && strings.HasSuffix(printed, p.Expr[1:]) &&
			chainRe.MatchString(printed[:len(printed)-len(p.Expr)+1]) {
			return p
		}
	}
	return nil
}

func (c *Ctx) isVar(name string) bool {
	if _, ok := c.vars[name]; ok {
		return true
	}
	if c.fn != nil {
		for _, fl := range []*ast.FieldList{c.fn.Recv, c.fn.Type.Params, c.fn.Type.Results} {
			if fl == nil {
				continue
			}
			for _, f := range fl.List {
				for _, n := range f.Names {
					if n.Name == name {
						return true
					}
				}
			}
		}
	}
	return false
}

// conv coerces x to Go type want (only untyped constants change representation).
func (c *Ctx) conv(n ast.Node, x X, want string) (string, error) {
	want = c.norm(want)
	if x.ty == "untyped" && x.lazy != nil {
		if k := c.kind(want); k != 's' && k != 'u' {
			return "", c.errf(n, "%s cannot take type %s", render(n), want)
		}
		return x.lazy(want)
	}
	if x.ty == "untyped" {
		k := c.kind(want)
		if k == 'n' {
			return x.s, nil
		}
		if (k != 's' && k != 'u') || !c.p.fits(x.c.I, want) {
			return "", c.errf(n, "constant %s is not representable as %s", x.c.I, want)
		}
		return lit(x.c.I), nil
	}
	if x.ty != want {
		return "", c.errf(n, "type mismatch: %s has type %s, want %s", render(n), x.ty, want)
	}
	return x.s, nil
}

func (c *Ctx) tr(e ast.Expr) (X, error) {
	if p := c.lookupParam(render(e)); p != nil {
		if p.As != "" {
			return X{s: p.As, ty: c.norm(p.Type)}, nil
		}
		return X{s: leanName(p.Name), ty: c.norm(p.Type)}, nil
	}
	if v, err := (ceval{p: c.p, f: c.f, shadow: c.isVar}).eval(e); err == nil {
		switch v.K {
		case 'i':
			if v.Typ == "" {
				return X{s: lit(v.I), ty: "untyped", c: v}, nil
			}
			if t := c.norm(v.Typ); c.kind(t) == 's' || c.kind(t) == 'u' {
				return X{s: lit(v.I), ty: t, c: v}, nil
			}
			if _, isCall := e.(*ast.CallExpr); v.Typ == "big" && !isCall { // a package-level *big.Int value
				return X{s: lit(v.I), ty: "big", c: v}, nil
			}
		case 'b':
			return X{s: fmt.Sprint(v.B), ty: "bool", c: v}, nil
		case 's':
			return X{s: fmt.Sprintf("%q", v.S), ty: "string", c: v}, nil
		}
	}
	switch e := e.(type) {
	case *ast.ParenExpr:
		return c.tr(e.X)
	case *ast.Ident:
		if v, ok := c.vars[e.Name]; ok {
			return X{s: v.lean, ty: v.ty}, nil
		}
		if ty, ok := c.autoParam(e.Name); ok {
			return X{s: leanName(e.Name), ty: ty}, nil
		}
		return X{}, c.errf(e, "unmapped free identifier %s", e.Name)
	case *ast.UnaryExpr:
		return c.unary(e)
	case *ast.BinaryExpr:
		return c.binary(e)
	case *ast.CallExpr:
		return c.call(e)
	}
	return X{}, c.errf(e, "unmapped or unsupported expression %s", render(e))
}

// autoParam turns a scalar parameter of the enclosing function into a Lean parameter.
func (c *Ctx) autoParam(name string) (string, bool) {
	if ty, ok := c.autoTy[name]; ok {
		return ty, true
	}
	if c.fn == nil || c.fn.Type.Params == nil {
		return "", false
	}
	for _, f := range c.fn.Type.Params.List {
		for _, n := range f.Names {
			if n.Name == name {
				ty := c.norm(typeName(f.Type))
				if k := c.kind(ty); k == 0 || k == 'e' {
					return "", false
				}
				c.autoTy[name] = ty
				return ty, true
			}
		}
	}
	return "", false
}

func (c *Ctx) unary(e *ast.UnaryExpr) (X, error) {
	x, err := c.tr(e.X)
	if err != nil {
		return X{}, err
	}
	_, bits, _ := c.p.intInfo(x.ty)
	switch k := c.kind(x.ty); {
	case e.Op == token.NOT && k == 'b':
		return X{s: "(!" + x.s + ")", ty: "bool"}, nil
	case e.Op == token.ADD && (k == 's' || k == 'u' || k == 'B'):
		return x, nil
	case e.Op == token.SUB && k == 's' && bits == 64:
		return X{s: "(I64.neg " + x.s + ")", ty: x.ty}, nil
	case e.Op == token.SUB && k == 's':
		return X{s: fmt.Sprintf("(I64.wrapN %d (-%s))", bits, x.s), ty: x.ty}, nil
	case e.Op == token.SUB && k == 'u':
		return X{s: fmt.Sprintf("(U64.wrapN %d (-(Int.ofNat %s)))", bits, x.s), ty: x.ty}, nil
	case e.Op == token.SUB && k == 'B':
		return X{s: "(-" + x.s + ")", ty: "big"}, nil
	case e.Op == token.XOR && k == 's':
		return X{s: "(I64.not " + x.s + ")", ty: x.ty}, nil
	case e.Op == token.XOR && k == 'u' && bits == 64:
		return X{s: "(U64.not " + x.s + ")", ty: x.ty}, nil
	}
	return X{}, c.errf(e, "unsupported unary operation %s on %s", render(e), x.ty)
}

var opNames = map[token.Token]string{token.ADD: "add", token.SUB: "sub", token.MUL: "mul", token.QUO: "div", token.REM: "mod",
	token.AND: "and", token.OR: "or", token.XOR: "xor", token.SHL: "shl", token.SHR: "shr"}
var cmpOps = map[token.Token]string{token.EQL: "=", token.NEQ: "≠", token.LSS: "<", token.LEQ: "≤", token.GTR: ">", token.GEQ: "≥"}
var exactOps = map[token.Token]string{token.ADD: "+", token.SUB: "-", token.MUL: "*"}

func (c *Ctx) binary(e *ast.BinaryExpr) (X, error) {
	x, err := c.tr(e.X)
	if err != nil {
		return X{}, err
	}
	y, err := c.tr(e.Y)
	if err != nil {
		return X{}, err
	}
	if e.Op == token.LAND || e.Op == token.LOR {
		if x.ty != "bool" || y.ty != "bool" {
			return X{}, c.errf(e, "non-boolean operand in %s", render(e))
		}
		return X{s: fmt.Sprintf("(%s %s %s)", x.s, map[token.Token]string{token.LAND: "&&", token.LOR: "||"}[e.Op], y.s), ty: "bool"}, nil
	}
	if e.Op == token.SHL || e.Op == token.SHR {
		return c.shift(e, x, y)
	}
	// unify operand types: an untyped constant takes the type of the other operand
	ty := x.ty
	if ty == "untyped" {
		ty = y.ty
	}
	_, isCmp := cmpOps[e.Op]
	if ty == "untyped" && isCmp {
		ty = "int"
	}
	if ty == "untyped" { // both untyped, one of them a non-constant shift: typed by the context
		return X{ty: "untyped", lazy: func(t string) (string, error) {
			r, err := c.binop(e, x, y, t)
			return r.s, err
		}}, nil
	}
	return c.binop(e, x, y, ty)
}

func (c *Ctx) binop(e *ast.BinaryExpr, x, y X, ty string) (X, error) {
	xs, err := c.conv(e.X, x, ty)
	if err != nil {
		return X{}, err
	}
	ys, err := c.conv(e.Y, y, ty)
	if err != nil {
		return X{}, err
	}
	k := c.kind(ty)
	if op, ok := cmpOps[e.Op]; ok {
		if k == 's' || k == 'u' || ((k == 'b' || k == 't') && (e.Op == token.EQL || e.Op == token.NEQ)) {
			return X{s: fmt.Sprintf("(decide (%s %s %s))", xs, op, ys), ty: "bool"}, nil
		}
		return X{}, c.errf(e, "unsupported comparison %s on %s", render(e), ty)
	}
	name, ok := opNames[e.Op]
	if !ok || (k != 's' && k != 'u') {
		return X{}, c.errf(e, "unsupported operation %s on %s", render(e), ty)
	}
	_, bits, _ := c.p.intInfo(ty)
	pre := map[byte]string{'s': "I64", 'u': "U64"}[k]
	if bits == 64 {
		return X{s: fmt.Sprintf("(%s.%s %s %s)", pre, name, xs, ys), ty: ty}, nil
	}
	if k == 'u' {
		xs, ys = "(Int.ofNat "+xs+")", "(Int.ofNat "+ys+")"
	}
	switch {
	case exactOps[e.Op] != "":
		return X{s: fmt.Sprintf("(%s.wrapN %d (%s %s %s))", pre, bits, xs, exactOps[e.Op], ys), ty: ty}, nil
	case e.Op == token.QUO:
		return X{s: fmt.Sprintf("(%s.wrapN %d (Int.tdiv %s %s))", pre, bits, xs, ys), ty: ty}, nil
	case e.Op == token.REM:
		return X{s: fmt.Sprintf("(%s.wrapN %d (Int.tmod %s %s))", pre, bits, xs, ys), ty: ty}, nil
	case k == 'u' && (e.Op == token.AND || e.Op == token.OR || e.Op == token.XOR):
		// bitwise operations on uint8/16/32 stay within the width: no wrap needed
		xs0, _ := c.conv(e.X, x, ty)
		ys0, _ := c.conv(e.Y, y, ty)
		return X{s: fmt.Sprintf("(U64.%s %s %s)", name, xs0, ys0), ty: ty}, nil
	}
	return X{}, c.errf(e, "unsupported operation %s on %s", render(e), ty)
}

func (c *Ctx) shift(e *ast.BinaryExpr, x, y X) (X, error) {
	if x.ty == "untyped" { // non-constant shift of an untyped constant: typed by the context (int by default)
		return X{ty: "untyped", lazy: func(t string) (string, error) {
			x1 := x
			if x.lazy == nil {
				s, err := c.conv(e.X, x, t)
				if err != nil {
					return "", err
				}
				x1 = X{s: s, ty: c.norm(t)}
			} else if s, err := x.lazy(t); err != nil {
				return "", err
			} else {
				x1 = X{s: s, ty: c.norm(t)}
			}
			r, err := c.shift(e, x1, y)
			return r.s, err
		}}, nil
	}
	ty := x.ty
	xs, err := c.conv(e.X, x, ty)
	if err != nil {
		return X{}, err
	}
	var cnt string
	switch c.kind(y.ty) {
	case 'n':
		if y.c == nil || y.c.I.Sign() < 0 {
			return X{}, c.errf(e, "negative shift count")
		}
		cnt = y.s
	case 'u':
		cnt = y.s
	case 's':
		cnt = "(Int.toNat " + y.s + ")"
	default:
		return X{}, c.errf(e, "unsupported shift count type %s", y.ty)
	}
	k := c.kind(ty)
	_, bits, _ := c.p.intInfo(ty)
	if k == 'u' && bits < 64 {
		// uint8/16/32: x << n is (x * 2^n) mod 2^bits (0 for n >= bits), x >> n is x / 2^n
		if e.Op == token.SHL {
			return X{s: fmt.Sprintf("(U64.wrapN %d (Int.ofNat (U64.shl %s %s)))", bits, xs, cnt), ty: ty}, nil
		}
		return X{s: fmt.Sprintf("(U64.shr %s %s)", xs, cnt), ty: ty}, nil
	}
	if (k != 's' && k != 'u') || bits != 64 {
		return X{}, c.errf(e, "shift on %s is not supported (signed types narrower than 64 bits)", ty)
	}
	return X{s: fmt.Sprintf("(%s.%s %s %s)", map[byte]string{'s': "I64", 'u': "U64"}[k], opNames[e.Op], xs, cnt), ty: ty}, nil
}

// convert emits the conversion T(x) between integer types (the wrap of the target type,
// omitted when every value of the source type is a value of the target type).
func (c *Ctx) convert(e ast.Node, x X, to string) (X, error) {
	to = c.norm(to)
	tk, fk := c.kind(to), c.kind(x.ty)
	if x.ty == "untyped" {
		s, err := c.conv(e, x, to)
		return X{s: s, ty: to, c: x.c}, err
	}
	if (tk != 's' && tk != 'u') || (fk != 's' && fk != 'u') {
		return X{}, c.errf(e, "unsupported conversion from %s to %s", x.ty, to)
	}
	_, tb, _ := c.p.intInfo(to)
	_, fb, _ := c.p.intInfo(x.ty)
	src := x.s
	if fk == 'u' {
		src = "(Int.ofNat " + x.s + ")"
	}
	switch {
	case fk == tk && fb <= tb:
		return X{s: x.s, ty: to}, nil
	case fk == 'u' && tk == 's' && fb < tb:
		return X{s: src, ty: to}, nil
	case tk == 's' && tb == 64:
		return X{s: "(I64.wrap " + src + ")", ty: to}, nil
	case tk == 'u' && tb == 64:
		return X{s: "(U64.wrap " + src + ")", ty: to}, nil
	case tk == 's':
		return X{s: fmt.Sprintf("(I64.wrapN %d %s)", tb, src), ty: to}, nil
	}
	return X{s: fmt.Sprintf("(U64.wrapN %d %s)", tb, src), ty: to}, nil
}

var bigBinary = map[string]string{"Add": "(%s + %s)", "Sub": "(%s - %s)", "Mul": "(%s * %s)", "Div": "(Int.ediv %s %s)",
	"Mod": "(Int.emod %s %s)", "Quo": "(Int.tdiv %s %s)", "Rem": "(Int.tmod %s %s)"}

func (c *Ctx) call(e *ast.CallExpr) (X, error) {
	fun := render(e.Fun)
	args := func(types ...string) ([]string, error) {
		if len(e.Args) != len(types) {
			return nil, c.errf(e, "%s: expected %d arguments", fun, len(types))
		}
		var out []string
		for i, a := range e.Args {
			x, err := c.tr(a)
			if err != nil {
				return nil, err
			}
			if types[i] == "unsigned" {
				if c.kind(x.ty) != 'u' {
					return nil, c.errf(a, "%s: unsigned argument expected, got %s", fun, x.ty)
				}
				out = append(out, x.s)
				continue
			}
			s, err := c.conv(a, x, types[i])
			if err != nil {
				return nil, err
			}
			out = append(out, s)
		}
		return out, nil
	}
	// conversion T(x)
	if k := c.kind(c.norm(fun)); (k == 's' || k == 'u') && len(e.Args) == 1 && !c.isVar(fun) {
		x, err := c.tr(e.Args[0])
		if err != nil {
			return X{}, err
		}
		return c.convert(e, x, fun)
	}
	switch fun {
	case "len":
		if len(e.Args) == 1 {
			x, err := c.tr(e.Args[0])
			if err != nil {
				return X{}, err
			}
			if k := c.kind(x.ty); k == 'l' || k == 't' {
				return X{s: "(Int.ofNat " + x.s + ".length)", ty: "int"}, nil
			}
		}
		return X{}, c.errf(e, "unsupported len argument in %s", render(e))
	case "bits.Len", "bits.Len64":
		a, err := args("unsigned")
		if err != nil {
			return X{}, err
		}
		return X{s: "(Bits.len " + a[0] + ")", ty: "int"}, nil
	case "new":
		if len(e.Args) == 1 && render(e.Args[0]) == "big.Int" {
			return X{s: "0", ty: "big", fresh: true}, nil
		}
	case "big.NewInt":
		a, err := args("int64")
		if err != nil {
			return X{}, err
		}
		return X{s: a[0], ty: "big", fresh: true}, nil
	}
	if id, ok := e.Fun.(*ast.Ident); ok && !c.isVar(id.Name) {
		if fi, ok := c.funcs[id.Name]; ok {
			return c.callSpec(e, fi)
		}
	}
	if sel, ok := e.Fun.(*ast.SelectorExpr); ok {
		if recv, err := c.tr(sel.X); err == nil && recv.ty == "big" {
			return c.bigCall(e, sel, recv, args)
		}
	}
	return X{}, c.errf(e, "unmapped or unsupported call %s", render(e))
}

func (c *Ctx) callSpec(e *ast.CallExpr, fi *fnInfo) (X, error) {
	if fi.option || fi.extra > 0 || len(fi.keep) != len(e.Args) {
		return X{}, c.errf(e, "call to %s is not supported (callee may panic, has mapped parameters or non-scalar arguments)", render(e.Fun))
	}
	s := "(" + fi.lean
	for i, a := range e.Args {
		x, err := c.tr(a)
		if err != nil {
			return X{}, err
		}
		as, err := c.conv(a, x, fi.params[i])
		if err != nil {
			return X{}, err
		}
		s += " " + as
	}
	s += ")"
	if len(fi.results) == 1 {
		return X{s: s, ty: fi.results[0]}, nil
	}
	return X{s: s, ty: "tuple", tys: fi.results}, nil
}

// bigCall translates x.Op(...) on *big.Int receivers to exact integer arithmetic.
func (c *Ctx) bigCall(e *ast.CallExpr, sel *ast.SelectorExpr, recv X, args func(...string) ([]string, error)) (X, error) {
	m := sel.Sel.Name
	pure := map[string]bool{"Cmp": true, "Sign": true, "Int64": true, "Uint64": true, "IsInt64": true, "IsUint64": true}
	if !pure[m] && !recv.fresh && c.allowMut != ast.Expr(e) {
		return X{}, c.errf(e, "big.Int method %s mutates its receiver %s in a nested position", m, render(sel.X))
	}
	saved := c.allowMut
	c.allowMut = nil
	defer func() { c.allowMut = saved }()
	if f, ok := bigBinary[m]; ok {
		a, err := args("big", "big")
		if err != nil {
			return X{}, err
		}
		return X{s: fmt.Sprintf(f, a[0], a[1]), ty: "big"}, nil
	}
	one := func(ty, f, rty string) (X, error) {
		a, err := args(ty)
		if err != nil {
			return X{}, err
		}
		return X{s: fmt.Sprintf(f, a[0]), ty: rty}, nil
	}
	switch m {
	case "Set":
		return one("big", "%s", "big")
	case "Neg":
		return one("big", "(-%s)", "big")
	case "Abs":
		return one("big", "(Int.ofNat (Int.natAbs %s))", "big")
	case "SetInt64":
		return one("int64", "%s", "big")
	case "SetUint64":
		return one("uint64", "(Int.ofNat %s)", "big")
	case "Cmp":
		return one("big", "(Big.cmp "+recv.s+" %s)", "int")
	}
	if len(e.Args) == 0 {
		switch m {
		case "Sign":
			return X{s: "(Big.sign " + recv.s + ")", ty: "int"}, nil
		case "Int64":
			return X{s: "(I64.wrap " + recv.s + ")", ty: "int64"}, nil
		case "Uint64":
			return X{s: "(U64.wrap " + recv.s + ")", ty: "uint64"}, nil
		case "IsInt64":
			return X{s: "(decide (I64.InRange " + recv.s + "))", ty: "bool"}, nil
		case "IsUint64":
			return X{s: "(decide (0 ≤ " + recv.s + " ∧ " + recv.s + " < 18446744073709551616))", ty: "bool"}, nil
		}
	}
	return X{}, c.errf(e, "unsupported big.Int method %s", m)
}
