package main

// Constant-expression evaluation (arbitrary precision, like the Go compiler).

import (
	"fmt"
	"go/ast"
	"go/token"
	"math/big"
	"strconv"
	"strings"
)

// Val is a constant: integer (I), string (K=='s') or bool (K=='b'). Typ=="" means untyped.
type Val struct {
	I   *big.Int
	S   string
	B   bool
	K   byte
	Typ string
}

func pow2(n int) *big.Int { return new(big.Int).Lsh(big.NewInt(1), uint(n)) }

var builtinConsts = map[string]*big.Int{
	"bits.UintSize": big.NewInt(64), "time.Nanosecond": big.NewInt(1), "time.Microsecond": big.NewInt(1e3),
	"time.Millisecond": big.NewInt(1e6), "time.Second": big.NewInt(1e9), "time.Minute": big.NewInt(6e10),
	"time.Hour": big.NewInt(36e11),
}

func init() {
	for _, b := range []int{8, 16, 32, 64} {
		s := strconv.Itoa(b)
		builtinConsts["math.MaxInt"+s] = new(big.Int).Sub(pow2(b-1), big.NewInt(1))
		builtinConsts["math.MinInt"+s] = new(big.Int).Neg(pow2(b - 1))
		builtinConsts["math.MaxUint"+s] = new(big.Int).Sub(pow2(b), big.NewInt(1))
	}
	builtinConsts["math.MaxInt"] = builtinConsts["math.MaxInt64"]
	builtinConsts["math.MinInt"] = builtinConsts["math.MinInt64"]
	builtinConsts["math.MaxUint"] = builtinConsts["math.MaxUint64"]
}

// intInfo gives signedness and width of an integer type name (named types are resolved
// through the package's type declarations).
func (p *Pkg) intInfo(typ string) (signed bool, bits int, ok bool) {
	switch typ {
	case "int", "int64", "time.Duration":
		return true, 64, true
	case "int32", "rune":
		return true, 32, true
	case "int16":
		return true, 16, true
	case "int8":
		return true, 8, true
	case "uint", "uint64", "uintptr":
		return false, 64, true
	case "uint32":
		return false, 32, true
	case "uint16":
		return false, 16, true
	case "uint8", "byte":
		return false, 8, true
	}
	if p != nil {
		if u, found := p.types[typ]; found {
			if _, isStruct := u.(*ast.StructType); !isStruct {
				return p.intInfo(typeName(u))
			}
		}
	}
	return false, 0, false
}

func (p *Pkg) fits(v *big.Int, typ string) bool {
	signed, bits, ok := p.intInfo(typ)
	if !ok {
		return true
	}
	if signed {
		return v.Cmp(new(big.Int).Neg(pow2(bits-1))) >= 0 && v.Cmp(pow2(bits-1)) < 0
	}
	return v.Sign() >= 0 && v.Cmp(pow2(bits)) < 0
}

// constOf evaluates the package-level constant (or constant-initialised variable) name.
func (p *Pkg) constOf(name string) (*Val, error) {
	if v, ok := p.cache[name]; ok {
		return v, nil
	}
	cd, ok := p.consts[name]
	if !ok || cd.val == nil {
		return nil, fmt.Errorf("constant %s not found in %s", name, p.rel)
	}
	if p.busy[name] {
		return nil, fmt.Errorf("constant %s: cyclic definition", name)
	}
	p.busy[name] = true
	defer delete(p.busy, name)
	v, err := ceval{p: p, f: cd.file, iota: cd.iota}.eval(cd.val)
	if err != nil {
		return nil, fmt.Errorf("constant %s: %v", name, err)
	}
	if cd.typ != nil {
		v = &Val{I: v.I, S: v.S, B: v.B, K: v.K, Typ: typeName(cd.typ)}
		if v.K == 'i' && !p.fits(v.I, v.Typ) {
			return nil, fmt.Errorf("constant %s overflows %s", name, v.Typ)
		}
	}
	p.cache[name] = v
	return v, nil
}

type ceval struct {
	p      *Pkg
	f      *ast.File
	iota   int
	shadow func(string) bool // identifiers that are local variables, hence not constants
}

func (c ceval) eval(e ast.Expr) (*Val, error) {
	switch e := e.(type) {
	case *ast.ParenExpr:
		return c.eval(e.X)
	case *ast.BasicLit:
		switch e.Kind {
		case token.INT:
			if n, ok := new(big.Int).SetString(strings.ReplaceAll(e.Value, "_", ""), 0); ok {
				return &Val{I: n, K: 'i'}, nil
			}
		case token.FLOAT:
			if f, ok := new(big.Float).SetPrec(512).SetString(strings.ReplaceAll(e.Value, "_", "")); ok && f.IsInt() {
				n, _ := f.Int(nil)
				return &Val{I: n, K: 'i'}, nil
			}
		case token.CHAR:
			if r, _, _, err := strconv.UnquoteChar(e.Value[1:len(e.Value)-1], '\''); err == nil {
				return &Val{I: big.NewInt(int64(r)), K: 'i'}, nil
			}
		case token.STRING:
			if s, err := strconv.Unquote(e.Value); err == nil {
				return &Val{S: s, K: 's'}, nil
			}
		}
		return nil, fmt.Errorf("unsupported literal %s", e.Value)
	case *ast.Ident:
		if c.shadow != nil && c.shadow(e.Name) {
			return nil, fmt.Errorf("%s is a variable", e.Name)
		}
		switch e.Name {
		case "iota":
			return &Val{I: big.NewInt(int64(c.iota)), K: 'i'}, nil
		case "true", "false":
			return &Val{B: e.Name == "true", K: 'b'}, nil
		}
		return c.p.constOf(e.Name)
	case *ast.SelectorExpr:
		x, ok := e.X.(*ast.Ident)
		if !ok || (c.shadow != nil && c.shadow(x.Name)) {
			return nil, fmt.Errorf("%s is not a constant", render(e))
		}
		builtin, dir, err := importOf(c.f, x.Name)
		if err != nil {
			return nil, err
		}
		if builtin != "" {
			if v, ok := builtinConsts[builtin+"."+e.Sel.Name]; ok {
				typ := ""
				if builtin == "time" {
					typ = "time.Duration"
				}
				return &Val{I: v, K: 'i', Typ: typ}, nil
			}
			return nil, fmt.Errorf("unknown constant %s", render(e))
		}
		q, err := loadPkg(dir)
		if err != nil {
			return nil, err
		}
		v, err := q.constOf(e.Sel.Name)
		if err == nil && v.Typ != "" && !strings.Contains(v.Typ, ".") {
			if _, _, basic := (*Pkg)(nil).intInfo(v.Typ); !basic && v.Typ != "string" && v.Typ != "bool" && v.Typ != "big" {
				v = &Val{I: v.I, S: v.S, B: v.B, K: v.K, Typ: x.Name + "." + v.Typ}
			}
		}
		return v, err
	case *ast.UnaryExpr:
		x, err := c.eval(e.X)
		if err != nil {
			return nil, err
		}
		switch {
		case e.Op == token.NOT && x.K == 'b':
			return &Val{B: !x.B, K: 'b', Typ: x.Typ}, nil
		case x.K != 'i':
		case e.Op == token.ADD:
			return x, nil
		case e.Op == token.SUB:
			return c.typed(new(big.Int).Neg(x.I), x.Typ)
		case e.Op == token.XOR:
			if signed, bits, ok := c.p.intInfo(x.Typ); ok && !signed {
				return c.typed(new(big.Int).Sub(new(big.Int).Sub(pow2(bits), big.NewInt(1)), x.I), x.Typ)
			}
			return c.typed(new(big.Int).Not(x.I), x.Typ)
		}
		return nil, fmt.Errorf("unsupported constant operation %s", render(e))
	case *ast.BinaryExpr:
		return c.binary(e)
	case *ast.CallExpr:
		if v, ok := c.bigConst(e); ok {
			return v, nil
		}
		if at, ok := e.Fun.(*ast.ArrayType); ok && at.Len == nil && render(at.Elt) == "byte" && len(e.Args) == 1 {
			// []byte("text"): a byte-string value (key prefixes), kept as the string
			if x, err := c.eval(e.Args[0]); err == nil && x.K == 's' {
				return &Val{S: x.S, K: 's'}, nil
			}
		}
		if len(e.Args) != 1 || e.Ellipsis.IsValid() {
			break
		}
		tn := typeName(e.Fun)
		if id, ok := e.Fun.(*ast.Ident); ok && id.Name == "len" {
			if x, err := c.eval(e.Args[0]); err == nil && x.K == 's' {
				return &Val{I: big.NewInt(int64(len(x.S))), K: 'i', Typ: "int"}, nil
			}
			if n, ok := c.arrayLen(e.Args[0]); ok { // len(T{}) for an array type T with a constant length
				return &Val{I: n, K: 'i', Typ: "int"}, nil
			}
			break
		}
		_, _, isInt := c.p.intInfo(tn)
		if !isInt && tn != "string" && tn != "bool" {
			break
		}
		if c.shadow != nil && c.shadow(tn) {
			break
		}
		x, err := c.eval(e.Args[0])
		if err != nil {
			return nil, err
		}
		if (isInt && x.K != 'i') || (tn == "string" && x.K != 's') || (tn == "bool" && x.K != 'b') {
			break
		}
		if isInt && !c.p.fits(x.I, tn) {
			return nil, fmt.Errorf("constant %s overflows %s", x.I, tn)
		}
		return &Val{I: x.I, S: x.S, B: x.B, K: x.K, Typ: tn}, nil
	}
	return nil, fmt.Errorf("%s is not a constant expression", render(e))
}

// bigConst evaluates the *big.Int initialisers used for package-level values:
// new(big.Int), big.NewInt(c), x.SetString("..", base), x.SetInt64/SetUint64(c),
// x.Add/Sub/Mul/Div/Mod/Quo/Rem/Exp?(a, b) — no Exp — and x.Lsh/Rsh(a, n), where every operand is
// again such an expression or a package-level value of that form. Typ is "big".
func (c ceval) bigConst(e *ast.CallExpr) (*Val, bool) {
	big0 := func(v *big.Int) (*Val, bool) { return &Val{I: v, K: 'i', Typ: "big"}, true }
	fun := render(e.Fun)
	if fun == "new" && len(e.Args) == 1 && render(e.Args[0]) == "big.Int" {
		return big0(new(big.Int))
	}
	if fun == "big.NewInt" && len(e.Args) == 1 {
		if x, err := c.eval(e.Args[0]); err == nil && x.K == 'i' {
			return big0(x.I)
		}
		return nil, false
	}
	sel, ok := e.Fun.(*ast.SelectorExpr)
	if !ok {
		return nil, false
	}
	recv, ok := sel.X.(*ast.CallExpr)
	if !ok {
		return nil, false
	}
	if r, ok := c.bigConst(recv); !ok || r.Typ != "big" {
		return nil, false
	}
	arg := func(i int) *big.Int {
		if i >= len(e.Args) {
			return nil
		}
		if x, err := c.eval(e.Args[i]); err == nil && x.K == 'i' {
			return x.I
		}
		return nil
	}
	switch m := sel.Sel.Name; m {
	case "SetString":
		if len(e.Args) == 2 {
			str, err := c.eval(e.Args[0])
			base := arg(1)
			if err == nil && str.K == 's' && base != nil && base.IsInt64() {
				if v, ok := new(big.Int).SetString(str.S, int(base.Int64())); ok {
					return big0(v)
				}
			}
		}
	case "SetInt64", "SetUint64", "Set":
		if a := arg(0); a != nil && len(e.Args) == 1 {
			return big0(a)
		}
	case "Add", "Sub", "Mul", "Div", "Mod", "Quo", "Rem":
		a, b := arg(0), arg(1)
		if a == nil || b == nil || len(e.Args) != 2 {
			return nil, false
		}
		if b.Sign() == 0 && m != "Add" && m != "Sub" && m != "Mul" {
			return nil, false
		}
		r := new(big.Int)
		switch m {
		case "Add":
			r.Add(a, b)
		case "Sub":
			r.Sub(a, b)
		case "Mul":
			r.Mul(a, b)
		case "Div":
			r.Div(a, b)
		case "Mod":
			r.Mod(a, b)
		case "Quo":
			r.Quo(a, b)
		case "Rem":
			r.Rem(a, b)
		}
		return big0(r)
	case "Lsh", "Rsh":
		a, n := arg(0), arg(1)
		if a == nil || n == nil || n.Sign() < 0 || n.BitLen() > 16 || len(e.Args) != 2 {
			return nil, false
		}
		if m == "Lsh" {
			return big0(new(big.Int).Lsh(a, uint(n.Int64())))
		}
		return big0(new(big.Int).Rsh(a, uint(n.Int64())))
	}
	return nil, false
}

// arrayLen evaluates len(T{}) where T (possibly pkg.T) is declared as [N]elem with constant N.
func (c ceval) arrayLen(e ast.Expr) (*big.Int, bool) {
	cl, ok := e.(*ast.CompositeLit)
	if !ok || len(cl.Elts) != 0 || cl.Type == nil {
		return nil, false
	}
	p, f, name := c.p, c.f, ""
	switch t := cl.Type.(type) {
	case *ast.Ident:
		name = t.Name
	case *ast.SelectorExpr:
		x, ok := t.X.(*ast.Ident)
		if !ok || f == nil {
			return nil, false
		}
		builtin, dir, err := importOf(f, x.Name)
		if err != nil || builtin != "" {
			return nil, false
		}
		q, err := loadPkg(dir)
		if err != nil || len(q.files) == 0 {
			return nil, false
		}
		p, name = q, t.Sel.Name
	default:
		return nil, false
	}
	at, ok := p.types[name].(*ast.ArrayType)
	if !ok || at.Len == nil {
		return nil, false
	}
	var file *ast.File
	for _, pf := range p.files {
		if pf.Pos() <= at.Pos() && at.Pos() <= pf.End() {
			file = pf
		}
	}
	v, err := ceval{p: p, f: file}.eval(at.Len)
	if err != nil || v.K != 'i' {
		return nil, false
	}
	return v.I, true
}

func (c ceval) typed(v *big.Int, typ string) (*Val, error) {
	if typ != "" && !c.p.fits(v, typ) {
		return nil, fmt.Errorf("constant %s overflows %s", v, typ)
	}
	return &Val{I: v, K: 'i', Typ: typ}, nil
}

func (c ceval) binary(e *ast.BinaryExpr) (*Val, error) {
	x, err := c.eval(e.X)
	if err != nil {
		return nil, err
	}
	y, err := c.eval(e.Y)
	if err != nil {
		return nil, err
	}
	if x.K == 's' && y.K == 's' && e.Op == token.ADD {
		return &Val{S: x.S + y.S, K: 's', Typ: x.Typ}, nil
	}
	if x.K == 'b' && y.K == 'b' {
		switch e.Op {
		case token.LAND:
			return &Val{B: x.B && y.B, K: 'b'}, nil
		case token.LOR:
			return &Val{B: x.B || y.B, K: 'b'}, nil
		}
	}
	if x.K != 'i' || y.K != 'i' {
		return nil, fmt.Errorf("unsupported constant operation %s", render(e))
	}
	if e.Op == token.SHL || e.Op == token.SHR {
		if y.I.Sign() < 0 || y.I.BitLen() > 16 {
			return nil, fmt.Errorf("bad shift count in %s", render(e))
		}
		if e.Op == token.SHL {
			return c.typed(new(big.Int).Lsh(x.I, uint(y.I.Int64())), x.Typ)
		}
		return c.typed(new(big.Int).Rsh(x.I, uint(y.I.Int64())), x.Typ)
	}
	typ := x.Typ
	if typ == "" {
		typ = y.Typ
	} else if y.Typ != "" && y.Typ != typ {
		return nil, fmt.Errorf("mismatched constant types %s and %s in %s", x.Typ, y.Typ, render(e))
	}
	r := new(big.Int)
	switch e.Op {
	case token.ADD:
		r.Add(x.I, y.I)
	case token.SUB:
		r.Sub(x.I, y.I)
	case token.MUL:
		r.Mul(x.I, y.I)
	case token.QUO, token.REM:
		if y.I.Sign() == 0 {
			return nil, fmt.Errorf("constant division by zero in %s", render(e))
		}
		if e.Op == token.QUO {
			r.Quo(x.I, y.I)
		} else {
			r.Rem(x.I, y.I)
		}
	case token.AND:
		r.And(x.I, y.I)
	case token.OR:
		r.Or(x.I, y.I)
	case token.XOR:
		r.Xor(x.I, y.I)
	case token.AND_NOT:
		r.AndNot(x.I, y.I)
	case token.EQL, token.NEQ, token.LSS, token.LEQ, token.GTR, token.GEQ:
		k := x.I.Cmp(y.I)
		b := map[token.Token]bool{token.EQL: k == 0, token.NEQ: k != 0, token.LSS: k < 0, token.LEQ: k <= 0, token.GTR: k > 0, token.GEQ: k >= 0}[e.Op]
		return &Val{B: b, K: 'b'}, nil
	default:
		return nil, fmt.Errorf("unsupported constant operator in %s", render(e))
	}
	return c.typed(r, typ)
}
