package state

// Property C08 — state changes are atomic: revert restores exactly; root depends on content only.
//
// One case = one random history of ~100 StateDB operations over 4 addresses x 4 slots, spread over up
// to 3 StateDB instances (the original and copies), with nested Snapshot/RevertToSnapshot,
// Finalise/IntermediateRoot/Commit, reopening at the committed root with and without a snapshot tree.
// Correspondence: after every (observed) op the full observation is compared with the Lean model
// `world` (KV/Model/World.lean via KV/Drv/C08.lean).
// Oracle (independent of the model):
//   (i)   observation before Snapshot == observation after the matching RevertToSnapshot (stack);
//         a rejected RevertToSnapshot (stale id) changes nothing;
//   (ii)  committed root == root of a fresh StateDB to which only the effective (non-reverted) ops
//         are applied; == root of a fresh StateDB built from the observed content alone;
//   (iii) a StateDB reopened at the committed root (trie only / through the snapshot tree) returns
//         what the committing instance held;
//   (iv)  an instance is unchanged by operations on its copies/original.

import (
	"bytes"
	"fmt"
	"math/big"
	"strings"
	"testing"

	"github.com/kardiachain/go-kardia/kai/kaidb/memorydb"
	"github.com/kardiachain/go-kardia/kai/state/snapshot"
	"github.com/kardiachain/go-kardia/lib/common"
	"github.com/kardiachain/go-kardia/lib/crypto"
	"github.com/kardiachain/go-kardia/types"
)

const c08U = 4

func c08Addr(i int) common.Address { return common.BytesToAddress([]byte{0xc0, 0x08, byte(0xa0 + i)}) }
func c08Key(i int) common.Hash     { return common.BytesToHash([]byte{byte(i)}) }
func c08Word(v int64) common.Hash  { return common.BigToHash(big.NewInt(v)) }
func c08HashIdx(h common.Hash) string {
	for i := 0; i < 3; i++ {
		if h == c08Key(i) {
			return fmt.Sprint(i)
		}
	}
	return "?"
}
func c08AddrIdx(a common.Address) string {
	for i := 0; i < c08U; i++ {
		if a == c08Addr(i) {
			return fmt.Sprint(i)
		}
	}
	return "?"
}
func c08b(b bool) string {
	if b {
		return "1"
	}
	return "0"
}
func c08w(h common.Hash) string { return new(big.Int).SetBytes(h[:]).String() }

var c08Codes = [][]byte{nil, {}, {0x60}, {0x60, 0x01, 0x00}, {0xfe}}

// c08Op is one replayable operation.
type c08Op struct {
	kind string
	a, k int
	v    int64
	b    []byte
}

func (op c08Op) line() string {
	switch op.kind {
	case "addbal", "subbal", "setbal", "nonce", "log":
		return fmt.Sprintf("%s %d %d", op.kind, op.a, op.v)
	case "code":
		return fmt.Sprintf("code %d %s", op.a, vfHex(op.b))
	case "sstore", "tstore":
		return fmt.Sprintf("%s %d %d %d", op.kind, op.a, op.k, op.v)
	case "create", "suicide", "aladdr":
		return fmt.Sprintf("%s %d", op.kind, op.a)
	case "addref", "subref", "finalise", "iroot", "commit":
		return fmt.Sprintf("%s %d", op.kind, op.v)
	case "preimg":
		return fmt.Sprintf("preimg %d %s", op.k, vfHex(op.b))
	case "alslot":
		return fmt.Sprintf("alslot %d %d", op.a, op.k)
	case "prepare":
		return fmt.Sprintf("prepare %d %d", op.k, op.v)
	}
	return op.kind
}

// apply runs a journalled / boundary op (not snapshot, revert, commit, copy, reopen) on s.
func (op c08Op) apply(s *StateDB) (status string) {
	status = "ok"
	defer func() {
		if r := recover(); r != nil {
			status = "panic"
		}
	}()
	a := c08Addr(op.a)
	switch op.kind {
	case "addbal":
		s.AddBalance(a, big.NewInt(op.v))
	case "subbal":
		s.SubBalance(a, big.NewInt(op.v))
	case "setbal":
		s.SetBalance(a, big.NewInt(op.v))
	case "nonce":
		s.SetNonce(a, uint64(op.v))
	case "code":
		s.SetCode(a, op.b)
	case "sstore":
		s.SetState(a, c08Key(op.k), c08Word(op.v))
	case "tstore":
		s.SetTransientState(a, c08Key(op.k), c08Word(op.v))
	case "create":
		s.CreateAccount(a)
	case "suicide":
		if s.Suicide(a) {
			status = "true"
		} else {
			status = "false"
		}
	case "addref":
		s.AddRefund(uint64(op.v))
	case "subref":
		s.SubRefund(uint64(op.v))
	case "log":
		s.AddLog(&types.Log{Address: a, Data: []byte{byte(op.v)}})
	case "preimg":
		s.AddPreimage(c08Key(op.k), op.b)
	case "aladdr":
		s.AddAddressToAccessList(a)
	case "alslot":
		s.AddSlotToAccessList(a, c08Key(op.k))
	case "prepare":
		s.Prepare(c08Key(op.k), common.Hash{}, int(op.v))
	case "finalise":
		s.Finalise(op.v == 1)
	case "iroot":
		s.IntermediateRoot(op.v == 1)
	default:
		status = "bad"
	}
	return
}

// c08Accounts renders the account-level getters (the persistent part of the observation).
func c08Accounts(o *vfOut, s *StateDB, flags bool) []string {
	out := make([]string, c08U)
	for i := 0; i < c08U; i++ {
		a := c08Addr(i)
		fl := ""
		if flags {
			_, d := s.stateObjectsDirty[a]
			_, p := s.stateObjectsPending[a]
			fl = "d" + c08b(d) + "p" + c08b(p)
		}
		code := s.GetCode(a)
		// derived getters are checked here, not through the model
		if s.GetCodeSize(a) != len(code) {
			o.Viol("c08-getter-inconsistent", fmt.Sprintf("GetCodeSize(%d)=%d len(GetCode)=%d", i, s.GetCodeSize(a), len(code)))
		}
		if !s.Exist(a) {
			bad := !s.Empty(a) || s.HasSuicided(a) || s.GetBalance(a).Sign() != 0 || s.GetNonce(a) != 0 || len(code) != 0 ||
				s.GetCodeHash(a) != (common.Hash{})
			for k := 0; k < c08U; k++ {
				bad = bad || s.GetState(a, c08Key(k)) != (common.Hash{}) || s.GetCommittedState(a, c08Key(k)) != (common.Hash{})
			}
			if bad {
				o.Viol("c08-getter-inconsistent", fmt.Sprintf("non-existent account %d has non-default getters", i))
			}
			out[i] = fmt.Sprintf("A%d[-%s]", i, fl)
			continue
		}
		if s.GetCodeHash(a) != crypto.Keccak256Hash(code) {
			o.Viol("c08-getter-inconsistent", fmt.Sprintf("GetCodeHash(%d) is not the hash of GetCode", i))
		}
		st := make([]string, c08U)
		cm := make([]string, c08U)
		for k := 0; k < c08U; k++ {
			st[k] = c08w(s.GetState(a, c08Key(k)))
			cm[k] = c08w(s.GetCommittedState(a, c08Key(k)))
		}
		out[i] = fmt.Sprintf("A%d[e%ss%sb%sn%dc%sS%sC%s%s]", i, c08b(s.Empty(a)), c08b(s.HasSuicided(a)), s.GetBalance(a).String(),
			s.GetNonce(a), vfHex(code), strings.Join(st, "."), strings.Join(cm, "."), fl)
	}
	return out
}

// c08Obs returns the observation in the model's text format and its API-only part (oracle).
func c08Obs(o *vfOut, s *StateDB) (full, api string) {
	withFlags := c08Accounts(o, s, true)
	plain := make([]string, len(withFlags))
	for i, x := range withFlags {
		// strip the d?p? flags (4 chars before the closing bracket)
		plain[i] = x[:len(x)-5] + "]"
	}
	logs := make([]string, 3)
	nlogs := 0
	for h := 0; h < 3; h++ {
		ls := s.GetLogs(c08Key(h), 0, common.Hash{})
		items := make([]string, len(ls))
		for i, l := range ls {
			tag := 255
			if len(l.Data) == 1 {
				tag = int(l.Data[0])
			}
			items[i] = fmt.Sprintf("%s:%d:%s:%d:%d", c08AddrIdx(l.Address), tag, c08HashIdx(l.TxHash), l.TxIndex, l.Index)
		}
		nlogs += len(ls)
		if len(items) == 0 {
			logs[h] = fmt.Sprintf("G%d[-]", h)
		} else {
			logs[h] = fmt.Sprintf("G%d[%s]", h, strings.Join(items, ","))
		}
	}
	if len(s.Logs()) != nlogs {
		o.Viol("c08-getter-inconsistent", fmt.Sprintf("Logs() has %d entries, GetLogs over all tx hashes %d", len(s.Logs()), nlogs))
	}
	pre := make([]string, 3)
	for h := 0; h < 3; h++ {
		if b, ok := s.Preimages()[c08Key(h)]; ok {
			pre[h] = vfHex(b)
		} else {
			pre[h] = "."
		}
	}
	al := make([]string, c08U)
	tr := make([]string, c08U)
	for i := 0; i < c08U; i++ {
		a := c08Addr(i)
		in := s.AddressInAccessList(a)
		bits := ""
		for k := 0; k < c08U; k++ {
			ao, so := s.SlotInAccessList(a, c08Key(k))
			if ao != in || (so && !ao) {
				o.Viol("c08-getter-inconsistent", fmt.Sprintf("SlotInAccessList(%d,%d)=(%v,%v) AddressInAccessList=%v", i, k, ao, so, in))
			}
			bits += c08b(so)
		}
		if in {
			al[i] = "+" + bits
		} else {
			al[i] = "."
		}
		ts := make([]string, c08U)
		for k := 0; k < c08U; k++ {
			ts[k] = c08w(s.GetTransientState(a, c08Key(k)))
		}
		tr[i] = strings.Join(ts, ",")
	}
	tail := fmt.Sprintf("R%d L%d %s P[%s] AL[%s] T[%s]", s.GetRefund(), s.logSize, strings.Join(logs, " "),
		strings.Join(pre, ","), strings.Join(al, ","), strings.Join(tr, "."))
	dirties, des := "", ""
	for i := 0; i < c08U; i++ {
		_, d := s.journal.dirties[c08Addr(i)]
		dirties += c08b(d)
		_, x := s.stateObjectsDestruct[c08Addr(i)]
		des += c08b(x)
	}
	revs := make([]string, len(s.validRevisions))
	for i, r := range s.validRevisions {
		revs[i] = fmt.Sprintf("%d:%d", r.id, r.journalIndex)
	}
	rv := "-"
	if len(revs) > 0 {
		rv = strings.Join(revs, ",")
	}
	book := fmt.Sprintf("X%s:%d J%d:%s V%s N%d D%s", c08HashIdx(s.thash), s.txIndex, len(s.journal.entries), dirties, rv, s.nextRevisionId, des)
	full = strings.Join(withFlags, " ") + " " + tail + " " + book
	api = strings.Join(plain, " ") + " " + tail
	return
}

type c08Mark struct {
	id      int
	histLen int
	api     string // "" when not observed
}

type c08Inst struct {
	id         int
	s          *StateDB
	hist       []c08Op // effective (non-reverted) history since genesis
	marks      []c08Mark
	replayable bool        // false for instances copied in the middle of a transaction
	jops       int         // journalled ops since the last boundary
	lastAPI    string      // API observation after this instance's last observed op ("" = unknown)
	existed    [c08U]bool  // Exist(a) at the last transaction boundary
	flushed    [c08U]int64 // hot address: slot values written to the storage trie by the last IntermediateRoot/Commit (= originStorage)
	taint      [c08U]bool  // shadow oracle switched off for this account (self-destructed / re-created / empty at a boundary)
}

// c08Forced is one scripted step of a motif (see startMotif); it runs through the same code path,
// records and oracles as a random step.
type c08Forced struct {
	kind string // "op", "snap", "revert-last", "finalise", "iroot"
	op   c08Op
}

type c08Case struct {
	o     *vfOut
	r     *vfRand
	db    Database
	mdb   *memorydb.Database
	snaps *snapshot.Tree
	insts []*c08Inst
	next  int
	trace []string
	bad   bool
	// storage-tier generator state
	hotA, hotK int         // the slot most storage writes go to
	blockMode  bool        // transaction boundaries are mostly Finalise (several txs per IntermediateRoot/Commit)
	queue      []c08Forced // pending scripted steps
	qInst      *c08Inst    // the instance they run on
}

func (c *c08Case) detail() string {
	t := c.trace
	if len(t) > 160 {
		t = t[len(t)-160:]
	}
	return strings.Join(t, "; ")
}

func (c *c08Case) viol(sig, msg string) {
	c.bad = true
	c.o.Viol(sig, msg+" :: ops: "+c.detail())
}

// emit records op+answer for the model and keeps the trace.
func (c *c08Case) emit(in *c08Inst, observe bool, line, status string) {
	fl := "N"
	real := status
	if observe {
		fl = "F"
		full, api := c08Obs(c.o, in.s)
		real = status + " | " + full
		in.lastAPI = api
	} else {
		in.lastAPI = ""
	}
	c.trace = append(c.trace, fmt.Sprintf("%d:%s", in.id, line))
	c.o.Op("world", fmt.Sprintf("%d %s %s", in.id, fl, line), real)
	if err := in.s.Error(); err != nil {
		c.viol("c08-dberr", fmt.Sprintf("StateDB.Error() = %v", err))
	}
}

// replayRoot applies the effective history to a fresh database and returns the last committed root.
func c08ReplayRoot(hist []c08Op) (root common.Hash, err error) {
	defer func() {
		if r := recover(); r != nil {
			err = fmt.Errorf("panic in replay: %v", r)
		}
	}()
	db := NewDatabase(memorydb.New())
	s, err := New(types.EmptyRootHash, db, nil)
	if err != nil {
		return root, err
	}
	for _, op := range hist {
		switch op.kind {
		case "commit":
			root, err = s.Commit(op.v == 1)
			if err != nil {
				return root, err
			}
		case "reopen":
			s, err = New(root, db, nil)
			if err != nil {
				return root, err
			}
		default:
			op.apply(s)
		}
	}
	return root, s.Error()
}

// c08ContentRoot builds a fresh state from the observed content of s and commits it.
func c08ContentRoot(s *StateDB) (root common.Hash, err error) {
	defer func() {
		if r := recover(); r != nil {
			err = fmt.Errorf("panic in content build: %v", r)
		}
	}()
	f, err := New(types.EmptyRootHash, NewDatabase(memorydb.New()), nil)
	if err != nil {
		return root, err
	}
	for i := c08U - 1; i >= 0; i-- { // another insertion order than the history's
		a := c08Addr(i)
		if !s.Exist(a) {
			continue
		}
		f.CreateAccount(a)
		f.SetBalance(a, new(big.Int).Set(s.GetBalance(a)))
		f.SetNonce(a, s.GetNonce(a))
		if code := s.GetCode(a); len(code) > 0 {
			f.SetCode(a, common.CopyBytes(code))
		}
		for k := c08U - 1; k >= 0; k-- {
			if v := s.GetState(a, c08Key(k)); v != (common.Hash{}) {
				f.SetState(a, c08Key(k), v)
			}
		}
	}
	return f.Commit(false)
}

// emptyCreated lists the accounts that did not exist at the last boundary, exist now and are empty:
// they were created by this transaction, so a deleting Finalise must remove them (EIP-161 clearing).
func (c *c08Case) emptyCreated(in *c08Inst) (out []int) {
	for i := 0; i < c08U; i++ {
		a := c08Addr(i)
		if !in.existed[i] && in.s.Exist(a) && in.s.Empty(a) {
			out = append(out, i)
		}
	}
	return
}

// afterBoundary checks the clearing rule and records which accounts exist now.
func (c *c08Case) afterBoundary(in *c08Inst, del bool, created []int, root bool) {
	if root {
		// what the storage trie of the hot account now holds (the tier below pendingStorage)
		for k := 0; k < c08U; k++ {
			in.flushed[k] = new(big.Int).SetBytes(in.s.GetState(c08Addr(c.hotA), c08Key(k)).Bytes()).Int64()
		}
	}
	if del && in.replayable {
		for _, i := range created {
			if in.s.Exist(c08Addr(i)) {
				c.viol("c08-empty-account-survives", fmt.Sprintf("account %d was created empty in this transaction and still exists after a deleting Finalise", i))
			}
		}
		c.o.Stat("oracle:empty-cleared")
	}
	for i := 0; i < c08U; i++ {
		in.existed[i] = in.s.Exist(c08Addr(i))
	}
}

// shadow oracle (independent of the model and of the code under test): on an account that was never
// self-destructed, re-created or empty at a transaction boundary, a storage slot reads as the LAST
// effective (non-reverted) write to it — whatever Snapshot/Revert/Finalise/IntermediateRoot/Commit/
// reopen/Copy happened in between. `hist` is the effective history (truncated on every revert).
func (c *c08Case) taintBeforeBoundary(in *c08Inst) {
	for i := 0; i < c08U; i++ {
		if in.s.Empty(c08Addr(i)) || in.s.HasSuicided(c08Addr(i)) {
			in.taint[i] = true
		}
	}
}

func (c *c08Case) shadowCheck(in *c08Inst, where string) {
	if c.bad {
		return
	}
	var want [c08U][c08U]int64
	for _, op := range in.hist {
		if op.kind == "sstore" {
			want[op.a][op.k] = op.v
		}
	}
	for a := 0; a < c08U; a++ {
		if in.taint[a] {
			continue
		}
		for k := 0; k < c08U; k++ {
			got := in.s.GetState(c08Addr(a), c08Key(k))
			if got != c08Word(want[a][k]) {
				c.viol("c08-read-not-last-effective-write", fmt.Sprintf("%s: instance %d account %d slot %d reads %x, the last non-reverted write was %d", where, in.id, a, k, got.Bytes()[28:], want[a][k]))
				return
			}
			// theorem C08_committed_eq_state_untouched: an account the current transaction has not
			// touched (not in journal.dirties) reads the same through GetCommittedState — unless the
			// instance descends from a mid-transaction copy
			if _, dirty := in.s.journal.dirties[c08Addr(a)]; !dirty && in.replayable {
				if cm := in.s.GetCommittedState(c08Addr(a), c08Key(k)); cm != got {
					c.viol("c08-committed-differs-untouched", fmt.Sprintf("%s: instance %d account %d slot %d: GetState %x GetCommittedState %x, account not touched by the open transaction", where, in.id, a, k, got.Bytes()[28:], cm.Bytes()[28:]))
					return
				}
				c.o.Stat("oracle:committed-eq-state")
			}
		}
		c.o.Stat("oracle:shadow-storage")
	}
}

func (c *c08Case) pick() *c08Inst { return c.insts[c.r.Intn(len(c.insts))] }

func (c *c08Case) boundary(in *c08Inst) {
	in.marks = in.marks[:0]
	in.jops = 0
}

func (c *c08Case) genOp(in *c08Inst) c08Op {
	r := c.r
	a := r.Intn(c08U)
	if r.Chance(50) {
		a = r.Intn(2) // concentrate on two addresses
	}
	k := r.Intn(c08U)
	if r.Chance(40) {
		// storage tiers: hammer one slot with a tiny value universe in which "back to the origin value"
		// (what the trie holds: zero on a fresh account, the last flushed value otherwise) is frequent
		a, k = c.hotA, c.hotK
		switch y := r.Intn(100); {
		case y < 62:
			return c08Op{kind: "sstore", a: a, k: k, v: int64(r.Pick(int(in.flushed[k]), int(in.flushed[k]), 0, 1, 2, 3))}
		case y < 74:
			k = r.Intn(c08U)
			return c08Op{kind: "sstore", a: a, k: k, v: int64(r.Pick(int(in.flushed[k]), 0, 1, 2))}
		case y < 82:
			if r.Bool() {
				return c08Op{kind: "setbal", a: a, v: 5} // keep it non-empty so that Finalise(true) keeps its pending storage
			}
			return c08Op{kind: "nonce", a: a, v: 1}
		case y < 88:
			return c08Op{kind: "suicide", a: a}
		case y < 94:
			return c08Op{kind: "create", a: a}
		default:
			return c08Op{kind: "addbal", a: a, v: 0}
		}
	}
	switch r.Intn(22) {
	case 0, 1:
		return c08Op{kind: "addbal", a: a, v: int64(r.Pick(0, 0, 1, 2, 3))}
	case 2:
		bal := in.s.GetBalance(c08Addr(a))
		v := int64(r.Intn(3))
		if bal.Cmp(big.NewInt(v)) < 0 {
			v = bal.Int64()
		}
		return c08Op{kind: "subbal", a: a, v: v}
	case 3:
		return c08Op{kind: "setbal", a: a, v: int64(r.Pick(0, 0, 1, 5))}
	case 4:
		return c08Op{kind: "nonce", a: a, v: int64(r.Pick(0, 0, 1, 2))}
	case 5:
		return c08Op{kind: "code", a: a, b: c08Codes[r.Intn(len(c08Codes))]}
	case 6, 7, 8, 9:
		return c08Op{kind: "sstore", a: a, k: k, v: int64(r.Pick(0, 0, 1, 2, 3))}
	case 10, 11:
		return c08Op{kind: "tstore", a: a, k: k, v: int64(r.Pick(0, 1, 2))}
	case 12, 13:
		return c08Op{kind: "create", a: a}
	case 14, 15:
		return c08Op{kind: "suicide", a: a}
	case 16:
		return c08Op{kind: "addref", v: int64(r.Intn(4))}
	case 17:
		// mostly within the guard, sometimes beyond it (the code panics after journalling)
		ref := int64(in.s.GetRefund())
		v := int64(r.Intn(3))
		if v > ref && !r.Chance(25) {
			v = ref
		}
		return c08Op{kind: "subref", v: v}
	case 18:
		return c08Op{kind: "log", a: a, v: int64(r.Intn(4))}
	case 19:
		return c08Op{kind: "preimg", k: r.Intn(3), b: []byte{byte(1 + r.Intn(3))}}
	case 20:
		return c08Op{kind: "aladdr", a: a}
	default:
		return c08Op{kind: "alslot", a: a, k: k}
	}
}

// startMotif queues a scripted sequence on the hot slot of `in`.  The shapes are the combinations of the
// three storage tiers (dirtyStorage / pendingStorage / originStorage+trie) that random generation
// rarely lines up: a write flushed only to pending (Finalise without root), the slot set back to its
// origin value, a snapshot taken right then, another write and the revert; the same across a root,
// across self-destruct + recreate, nested, and random walks over {origin value, 0..3} x
// {Snapshot, Revert, Finalise, IntermediateRoot}.
func (c *c08Case) startMotif(in *c08Inst) {
	r := c.r
	a, k := c.hotA, c.hotK
	A := in.flushed[k]
	other := func() int64 {
		v := int64(r.Intn(4))
		if v == A {
			v = (v + 1 + int64(r.Intn(3))) % 4
		}
		return v
	}
	B, C := other(), other()
	w := func(v int64) c08Forced { return c08Forced{kind: "op", op: c08Op{kind: "sstore", a: a, k: k, v: v}} }
	j := func(kind string) c08Forced { return c08Forced{kind: "op", op: c08Op{kind: kind, a: a}} }
	fin := c08Forced{kind: "finalise", op: c08Op{kind: "finalise", v: 1}}
	root := c08Forced{kind: "iroot", op: c08Op{kind: "iroot", v: 1}}
	snap, rev := c08Forced{kind: "snap"}, c08Forced{kind: "revert-last"}
	var q []c08Forced
	if in.s.Empty(c08Addr(a)) {
		q = append(q, c08Forced{kind: "op", op: c08Op{kind: "setbal", a: a, v: 5}})
	}
	name := ""
	switch y := r.Intn(100); {
	case y < 30: // pending != origin == prevalue at revert time
		name = "pending-origin-revert"
		q = append(q, w(B), fin, w(A), snap, w(C), rev)
	case y < 42: // the same, nested: both reverts must land on their own value
		name = "pending-origin-nested"
		q = append(q, w(B), fin, snap, w(A), snap, w(C), rev, rev)
	case y < 52: // two transactions deep: pending overwritten before the root
		name = "pending-twice"
		q = append(q, w(B), fin, w(C), fin, w(A), snap, w(B), rev, root)
	case y < 62: // self-destruct + recreate over pending storage, creation reverted
		name = "pending-suicide-recreate"
		q = append(q, w(B), fin, j("suicide"), snap, j("create"), w(C), rev)
	case y < 72: // across a root: origin moves to B, the old value A is now an ordinary value
		name = "root-then-origin"
		q = append(q, w(B), root, w(A), snap, w(B), w(C), rev, fin, w(B), snap, w(A), rev)
	case y < 80: // delete (zero) over a flushed non-zero value and back
		name = "zero-over-flushed"
		q = append(q, w(B), root, w(0), fin, w(B), snap, w(0), rev, root)
	default:
		name = "walk"
		for n := 5 + r.Intn(5); n > 0; n-- {
			switch z := r.Intn(100); {
			case z < 25:
				q = append(q, w(A))
			case z < 55:
				q = append(q, w(int64(r.Intn(4))))
			case z < 70:
				q = append(q, snap)
			case z < 85:
				q = append(q, rev)
			case z < 97:
				q = append(q, fin)
			default:
				q = append(q, root)
			}
		}
	}
	c.queue, c.qInst = q, in
	c.o.Stat("motif:" + name)
}

func c08AccountsOnly(o *vfOut, s *StateDB) string {
	return strings.Join(c08Accounts(o, s, false), " ")
}

// commit runs Commit on `in` with oracles (ii) and (iii), then optionally continues on a reopened state.
func (c *c08Case) commit(in *c08Inst, del bool, observe bool) {
	o := c.o
	v := int64(0)
	if del {
		v = 1
	}
	hadSnap := in.s.snap != nil
	created := c.emptyCreated(in)
	c.taintBeforeBoundary(in)
	var root common.Hash
	var err error
	if vfGuard(o, "c08-commit-panic", c.detail, func() { root, err = in.s.Commit(del) }) {
		c.bad = true
		return
	}
	if err != nil {
		c.viol("c08-commit-error", err.Error())
		return
	}
	op := c08Op{kind: "commit", v: v}
	in.hist = append(in.hist, op)
	c.boundary(in)
	c.emit(in, observe, op.line(), "ok")
	c.afterBoundary(in, del, created, true)
	c.shadowCheck(in, "after commit")
	o.Stat("op:commit")
	// (ii) root of the effective history on a fresh state
	if in.replayable {
		rr, err := c08ReplayRoot(in.hist)
		if err != nil {
			c.viol("c08-replay-error", err.Error())
		} else if rr != root {
			c.viol("c08-root-effective-ops", fmt.Sprintf("committed root %x, root of non-reverted ops on a fresh state %x", root[:6], rr[:6]))
		}
		o.Stat("oracle:root-effective")
	}
	// (ii') root is a function of the content
	if cr, err := c08ContentRoot(in.s); err != nil {
		c.viol("c08-replay-error", "content build: "+err.Error())
	} else if cr != root {
		c.viol("c08-root-content", fmt.Sprintf("committed root %x, root of a fresh state with the same content %x", root[:6], cr[:6]))
	}
	o.Stat("oracle:root-content")
	// (iii) read back through the trie and through the snapshot tree
	want := c08AccountsOnly(o, in.s)
	// the refund counter is committed state in the sense of C08_readback: zero after Commit, as in a
	// reopened state, unless the instance descends from a mid-transaction copy
	if in.replayable && in.s.GetRefund() != 0 {
		c.viol("c08-readback", fmt.Sprintf("refund counter %d after Commit, a state reopened at the root has 0", in.s.GetRefund()))
	}
	trees := []*snapshot.Tree{nil}
	if c.snaps != nil {
		trees = append(trees, c.snaps)
	}
	for _, sn := range trees {
		re, err := New(root, c.db, sn)
		if err != nil {
			c.viol("c08-readback", fmt.Sprintf("cannot reopen at committed root: %v", err))
			continue
		}
		via := "trie"
		if sn != nil {
			if re.snap == nil {
				if hadSnap {
					c.viol("c08-readback", "no snapshot layer for the committed root although the committing state had one")
				}
				continue
			}
			via = "snapshot"
		}
		// read in a different order than it was written: committed first, one slot only, then all
		probe := c.r.Intn(c08U)
		re.GetCommittedState(c08Addr(probe), c08Key(c.r.Intn(c08U)))
		got := c08AccountsOnly(o, re)
		// a reopened state has no suicide marks; the committing instance keeps none either (theorem
		// C08_readback) unless it descends from a mid-transaction copy (C08_readback_midtx_counterexample)
		exp := want
		if !in.replayable {
			exp = strings.ReplaceAll(want, "s1b", "s0b")
		}
		if got != exp {
			c.viol("c08-readback", fmt.Sprintf("via %s: reopened state differs: committed %s reopened %s", via, want, got))
		}
		o.Stat("oracle:readback-" + via)
	}
	// now and then the snapshot tree is flattened into its disk layer (what the pruner and the
	// 128-block cap do): later layers sit on a disk layer with a warm clean cache, and a slot deleted
	// afterwards must not be served from that cache (seeded change C06_d)
	if c.snaps != nil && len(c.insts) == 1 && hadSnap && c.r.Chance(30) {
		// (only while a single instance exists: flattening drops the layers other instances stand on)
		if err := c.snaps.Cap(root, 0); err != nil {
			o.Stat("snapshot.cap-error")
		} else {
			o.Stat("snapshot.flattened-to-disk")
			if re, err := New(root, c.db, c.snaps); err == nil && re.snap != nil {
				got := c08AccountsOnly(o, re) // also warms the disk layer's clean cache
				if got != strings.ReplaceAll(want, "s1b", "s0b") {
					c.viol("c08-readback", fmt.Sprintf("via snapshot disk layer after flattening: committed %s reopened %s", want, got))
				}
			}
		}
	}
	// continue on a reopened state (always when a snapshot tree is in use and the layer exists)
	if c.r.Chance(65) {
		sn := c.snaps
		if sn != nil && c.r.Chance(25) {
			sn = nil
		}
		re, err := New(root, c.db, sn)
		if err != nil {
			c.viol("c08-readback", fmt.Sprintf("cannot reopen at committed root: %v", err))
			return
		}
		in.s = re
		in.hist = append(in.hist, c08Op{kind: "reopen"})
		c.emit(in, observe, "reopen", "ok")
		c.shadowCheck(in, "after reopen")
		if re.snap != nil {
			o.Stat("op:reopen-snap")
		} else {
			o.Stat("op:reopen-trie")
		}
	}
}

func c08RunCase(o *vfOut, r *vfRand, idx int) {
	c := &c08Case{o: o, r: r}
	c.mdb = memorydb.New()
	c.db = NewDatabase(c.mdb)
	withSnaps := r.Chance(50)
	sparse := r.Chance(30)
	if withSnaps {
		sn, err := snapshot.New(snapshot.Config{CacheSize: 1, AsyncBuild: false}, c.mdb, c.db.TrieDB(), types.EmptyRootHash)
		if err != nil || sn == nil {
			o.Viol("c08-harness", fmt.Sprintf("snapshot.New: %v", err))
			return
		}
		c.snaps = sn
	}
	s, err := New(types.EmptyRootHash, c.db, c.snaps)
	if err != nil {
		o.Viol("c08-harness", fmt.Sprintf("New: %v", err))
		return
	}
	if withSnaps && s.snap == nil {
		o.Viol("c08-harness", "no snapshot layer for the empty root")
		return
	}
	c.insts = []*c08Inst{{id: 0, s: s, replayable: true}}
	c.next = 1
	c.hotA, c.hotK = r.Intn(2), r.Intn(c08U)
	c.blockMode = r.Chance(50)
	if r.Chance(70) {
		// a funded hot account survives Finalise(true) with its pending storage
		c.queue = []c08Forced{{kind: "op", op: c08Op{kind: "setbal", a: c.hotA, v: 5}}}
		c.qInst = c.insts[0]
	}
	o.Op("world", fmt.Sprintf("case %d", idx), "ok")
	nops := 60 + r.Intn(90)
	reverts, commits, copies := 0, 0, 0
	for step := 0; step < nops && !c.bad; step++ {
		in := c.pick()
		var f *c08Forced
		if len(c.queue) == 0 && r.Chance(4) {
			c.startMotif(in)
		}
		if len(c.queue) > 0 {
			f, in = &c.queue[0], c.qInst
			c.queue = c.queue[1:]
		}
		observe := !sparse || r.Chance(20) || step == nops-1
		// (iv) nobody else changed this instance since its last own observation
		if len(c.insts) > 1 && in.lastAPI != "" && r.Chance(50) {
			if _, api := c08Obs(o, in.s); api != in.lastAPI {
				c.viol("c08-copy-not-independent", fmt.Sprintf("instance %d changed by operations on another instance: had %s now %s", in.id, in.lastAPI, api))
				break
			}
			o.Stat("oracle:copy-independent")
		}
		x := r.Intn(100)
		if c.blockMode && x >= 17 && x < 26 {
			// a block of several transactions: Finalise between them, a root only now and then
			x = r.Pick(17, 17, 17, 17, 17, 17, 17, 17, 20, 23)
		}
		if f != nil {
			x = map[string]int{"snap": 0, "revert-last": 10, "finalise": 17, "iroot": 20, "op": 99}[f.kind]
		}
		switch {
		case x < 9: // Snapshot
			mark := c08Mark{histLen: len(in.hist)}
			if observe {
				_, mark.api = c08Obs(o, in.s)
			}
			mark.id = in.s.Snapshot()
			in.marks = append(in.marks, mark)
			c.emit(in, observe, "snap", fmt.Sprintf("id=%d", mark.id))
			o.Stat("op:snap")
		case x < 17: // RevertToSnapshot
			if f != nil && len(in.marks) == 0 {
				continue // scripted revert without an open snapshot
			}
			if f == nil && (len(in.marks) == 0 || r.Chance(8)) {
				// stale / unknown id: must panic and change nothing
				id := r.Intn(in.s.nextRevisionId + 2)
				valid := false
				for _, m := range in.marks {
					valid = valid || m.id == id
				}
				if valid {
					continue
				}
				before := ""
				if observe {
					_, before = c08Obs(o, in.s)
				}
				panicked := false
				func() {
					defer func() {
						if recover() != nil {
							panicked = true
						}
					}()
					in.s.RevertToSnapshot(id)
				}()
				if !panicked {
					c.viol("c08-stale-revert-accepted", fmt.Sprintf("RevertToSnapshot(%d) accepted although the revision is not valid", id))
					break
				}
				c.emit(in, observe, fmt.Sprintf("revert %d", id), "panic")
				if observe && in.lastAPI != before {
					c.viol("c08-stale-revert-changed-state", fmt.Sprintf("before %s after %s", before, in.lastAPI))
				}
				o.Stat("op:revert-stale")
				continue
			}
			mi := r.Intn(len(in.marks))
			if r.Chance(60) || f != nil {
				mi = len(in.marks) - 1
			}
			m := in.marks[mi]
			if vfGuard(o, "c08-revert-panic", c.detail, func() { in.s.RevertToSnapshot(m.id) }) {
				c.bad = true
				break
			}
			if len(in.hist) > m.histLen {
				reverts++
			}
			in.hist = in.hist[:m.histLen]
			if mi < len(in.marks)-1 {
				o.Stat("op:revert-nested-outer")
			}
			in.marks = in.marks[:mi]
			c.emit(in, observe, fmt.Sprintf("revert %d", m.id), "ok")
			c.shadowCheck(in, fmt.Sprintf("after revert %d", m.id))
			o.Stat("op:revert")
			// (i)
			if observe && m.api != "" {
				if in.lastAPI != m.api {
					c.viol("c08-revert-not-exact", fmt.Sprintf("at Snapshot %s after RevertToSnapshot %s", m.api, in.lastAPI))
				}
				o.Stat("oracle:revert-exact")
			}
		case x < 20: // Finalise
			op := c08Op{kind: "finalise", v: int64(r.Pick(1, 1, 1, 0))}
			if c.blockMode {
				op.v = int64(r.Pick(1, 1, 1, 1, 1, 1, 1, 1, 1, 0))
			}
			if f != nil {
				op = f.op
			}
			created := c.emptyCreated(in)
			c.taintBeforeBoundary(in)
			st := op.apply(in.s)
			in.hist = append(in.hist, op)
			c.boundary(in)
			c.emit(in, observe, op.line(), st)
			c.afterBoundary(in, op.v == 1, created, false)
			c.shadowCheck(in, "after "+op.line())
			o.Stat("op:finalise")
		case x < 23: // IntermediateRoot
			op := c08Op{kind: "iroot", v: int64(r.Pick(1, 1, 1, 0))}
			if f != nil {
				op = f.op
			}
			created := c.emptyCreated(in)
			c.taintBeforeBoundary(in)
			st := op.apply(in.s)
			in.hist = append(in.hist, op)
			c.boundary(in)
			c.emit(in, observe, op.line(), st)
			c.afterBoundary(in, op.v == 1, created, true)
			c.shadowCheck(in, "after "+op.line())
			o.Stat("op:iroot")
		case x < 26: // Commit (+ reopen)
			c.commit(in, !r.Chance(25), observe)
			commits++
		case x < 28: // Prepare
			op := c08Op{kind: "prepare", k: r.Intn(3), v: int64(r.Intn(3))}
			st := op.apply(in.s)
			in.hist = append(in.hist, op)
			c.emit(in, observe, op.line(), st)
		case x < 31: // Copy
			if len(c.insts) >= 3 {
				// retire one instance instead
				if in.id != 0 || r.Chance(30) {
					for i, y := range c.insts {
						if y == in {
							c.insts = append(c.insts[:i], c.insts[i+1:]...)
						}
					}
					o.Op("world", fmt.Sprintf("%d N drop", in.id), "ok")
				}
				continue
			}
			var cp *StateDB
			if vfGuard(o, "c08-copy-panic", c.detail, func() { cp = in.s.Copy() }) {
				c.bad = true
				break
			}
			ni := &c08Inst{id: c.next, s: cp, hist: append([]c08Op(nil), in.hist...), replayable: in.replayable && in.jops == 0, existed: in.existed, flushed: in.flushed, taint: in.taint}
			if in.jops > 0 {
				o.Stat("op:copy-midtx")
			}
			c.next++
			c.insts = append(c.insts, ni)
			c.trace = append(c.trace, fmt.Sprintf("%d:copy->%d", in.id, ni.id))
			o.Op("world", fmt.Sprintf("%d N copy %d", in.id, ni.id), "ok")
			// both sides observed against their models; the copy starts with the original's API state
			c.emit(in, true, "obs", "ok")
			c.emit(ni, true, "obs", "ok")
			if in.lastAPI != ni.lastAPI {
				if in.replayable {
					c.viol("c08-copy-differs", fmt.Sprintf("original %s copy %s", in.lastAPI, ni.lastAPI))
				} else if strings.ReplaceAll(in.lastAPI, "s1b", "s0b") != strings.ReplaceAll(ni.lastAPI, "s1b", "s0b") {
					// theorem C08_copy_obs_reachAny: even then every getter but HasSuicided agrees
					c.viol("c08-copy-differs", fmt.Sprintf("beyond suicide marks: original %s copy %s", in.lastAPI, ni.lastAPI))
				} else {
					// descendants of a mid-transaction copy may keep a suicide mark that a further copy
					// (re-read from the trie) does not have; outside the contract of Copy (see notes,
					// theorem C08_copy_obs_midtx_counterexample)
					o.Stat("note:copy-of-midtx-copy-differs")
				}
			}
			copies++
			o.Stat("op:copy")
		default:
			op := c.genOp(in)
			if f != nil {
				op = f.op
			}
			if op.kind == "suicide" || op.kind == "create" {
				in.taint[op.a] = true
			}
			st := op.apply(in.s)
			in.hist = append(in.hist, op)
			in.jops++
			c.emit(in, observe, op.line(), st)
			if observe {
				c.shadowCheck(in, "after "+op.line())
			}
			o.Stat("op:" + op.kind)
			if st == "panic" {
				o.Stat("op:" + op.kind + "-panic")
			}
		}
	}
	// final commit of every instance: roots and read-back
	for _, in := range c.insts {
		if c.bad {
			break
		}
		c.commit(in, true, true)
	}
	mode := "trie"
	if withSnaps {
		mode = "snaps"
	}
	if sparse {
		mode += "-sparse"
	}
	o.Stat("mode:" + mode)
	o.Case(fmt.Sprintf("%d|%s", idx, strings.Join(c.trace, ";")), reverts > 0)
	if idx < 3 {
		o.Sample(c.detail())
	}
}

func TestVerifC08(t *testing.T) {
	o := vfOpen()
	defer o.Close()
	n := vfN(50)
	for i := 0; i < n; i++ {
		r := vfFork(vfSeed(), uint64(i))
		c08RunCase(o, r, i)
	}
}

var _ = bytes.Equal
