package cstate

// C12 harness, second part: the block-level use of the proposer rotation. `updateState`
// (kai/state/cstate/execution.go, an anchor of C12) produces the NextValidators of every height as
// "copy, apply the block's change set, advance ONE round". Chains of blocks with and without
// validator changes are run through the real updateState and, line by line, through the Lean model
// (`blk <changes>` = updateWithChangeSet then increment 1 of KV.ValSet); the oracle states the same
// with the real ValidatorSet methods (which c12_test.go ties to the model) and checks that the
// designated proposer is a member.

import (
	"fmt"
	"math/big"
	"strings"
	"testing"
	"time"

	"github.com/kardiachain/go-kardia/lib/common"
	"github.com/kardiachain/go-kardia/lib/log"
	"github.com/kardiachain/go-kardia/types"
)

const c12uModel = "valset"

func c12uAddr(i int) common.Address {
	var a common.Address
	a[19] = byte(i)
	a[18] = byte(i >> 8)
	return a
}
func c12uAddrText(a common.Address) string { return new(big.Int).SetBytes(a[:]).String() }
func c12uShowVals(vals []*types.Validator) string {
	if len(vals) == 0 {
		return "-"
	}
	parts := make([]string, len(vals))
	for i, v := range vals {
		parts[i] = fmt.Sprintf("%s:%d:%d", c12uAddrText(v.Address), v.VotingPower, v.ProposerPriority)
	}
	return strings.Join(parts, ",")
}
func c12uShowSet(vs *types.ValidatorSet) string {
	p := "nil"
	if vs.Proposer != nil {
		p = c12uAddrText(vs.Proposer.Address)
	}
	return fmt.Sprintf("T=%d P=%s V=%s", vs.TotalVotingPower(), p, c12uShowVals(vs.Validators))
}
func c12uErrClass(err error) string {
	s := err.Error()
	if i := strings.Index(s, "error changing validator set: "); i >= 0 {
		s = s[i+len("error changing validator set: "):]
	}
	switch {
	case strings.HasPrefix(s, types.ErrTotalVotingPowerOverflow.Error()):
		return "overflow"
	case strings.HasPrefix(s, "duplicate entry"):
		return "dup"
	case strings.HasPrefix(s, "voting power can't be negative"):
		return "neg"
	case strings.HasPrefix(s, "to prevent clipping/overflow"):
		return "cap"
	case strings.HasPrefix(s, "cannot process validators with voting power 0"):
		return "zero"
	case strings.HasPrefix(s, "failed to find validator"):
		return "unknown"
	case strings.HasPrefix(s, "applying the validator changes would result in empty set"):
		return "empty"
	}
	return "other"
}
func c12uCopy(cs []*types.Validator) []*types.Validator {
	out := make([]*types.Validator, len(cs))
	for i, v := range cs {
		c := *v
		out[i] = &c
	}
	return out
}

func c12uPower(r *vfRand, regime int) int64 {
	switch regime {
	case 0:
		return int64(1 + r.Intn(3))
	case 1:
		return int64(10 * (1 + r.Intn(5)))
	case 2:
		return int64(1 + r.Intn(1000))
	default:
		return int64(r.U64()>>uint(14+r.Intn(40))) + 1
	}
}

// change set of a block relative to the members; `next` = address of the member that is next in
// line (highest priority), which staking epochs remove as readily as any other
func c12uChanges(r *vfRand, vs *types.ValidatorSet, regime int, fresh *int) []*types.Validator {
	var cs []*types.Validator
	used := map[common.Address]bool{}
	n := len(vs.Validators)
	next := vs.Validators[0]
	for _, v := range vs.Validators {
		if v.ProposerPriority > next.ProposerPriority {
			next = v
		}
	}
	k := 1 + r.Intn(3)
	removed := 0
	for i := 0; i < k; i++ {
		switch r.Intn(10) {
		case 0, 1, 2: // power change
			v := vs.Validators[r.Intn(n)]
			if !used[v.Address] {
				used[v.Address] = true
				cs = append(cs, &types.Validator{Address: v.Address, VotingPower: c12uPower(r, regime)})
			}
		case 3, 4, 5: // newcomer
			*fresh++
			a := c12uAddr(100 + *fresh)
			cs = append(cs, &types.Validator{Address: a, VotingPower: c12uPower(r, regime)})
		case 6, 7: // remove the next in line
			if !used[next.Address] && removed < n-1 {
				used[next.Address] = true
				removed++
				cs = append(cs, &types.Validator{Address: next.Address, VotingPower: 0})
			}
		case 8: // remove any member
			v := vs.Validators[r.Intn(n)]
			if !used[v.Address] && removed < n-1 {
				used[v.Address] = true
				removed++
				cs = append(cs, &types.Validator{Address: v.Address, VotingPower: 0})
			}
		default: // defects: unknown removal, duplicate, negative, emptying
			switch r.Intn(4) {
			case 0:
				cs = append(cs, &types.Validator{Address: c12uAddr(9000 + r.Intn(5)), VotingPower: 0})
			case 1:
				v := vs.Validators[r.Intn(n)]
				cs = append(cs, &types.Validator{Address: v.Address, VotingPower: 5}, &types.Validator{Address: v.Address, VotingPower: 6})
			case 2:
				cs = append(cs, &types.Validator{Address: vs.Validators[r.Intn(n)].Address, VotingPower: -int64(1 + r.Intn(4))})
			default:
				cs = nil
				for _, v := range vs.Validators {
					cs = append(cs, &types.Validator{Address: v.Address, VotingPower: 0})
				}
				return cs
			}
		}
	}
	// shuffle: the order of a change set is not specified
	for i := len(cs) - 1; i > 0; i-- {
		j := r.Intn(i + 1)
		cs[i], cs[j] = cs[j], cs[i]
	}
	return cs
}

func TestVerifC12U(t *testing.T) {
	o := vfOpen()
	defer o.Close()
	seed := vfSeed()
	n := vfN(300)
	logger := log.New()
	for i := 0; i < n; i++ {
		r := vfFork(seed, uint64(i))
		regime := r.Intn(4)
		nv := 1 + r.Intn(7)
		init := make([]*types.Validator, nv)
		for j := range init {
			init[j] = &types.Validator{Address: c12uAddr(1 + j), VotingPower: c12uPower(r, regime)}
		}
		var hist []string
		op := func(line, real string) {
			hist = append(hist, line)
			o.Op(c12uModel, line, real)
		}
		ctx := func() string {
			h := hist
			if len(h) > 10 {
				h = h[len(h)-10:]
			}
			return fmt.Sprintf("seed=%d case=%d history: %s", seed, i, strings.Join(h, " ; "))
		}
		op("case", "ok")
		vset := types.NewValidatorSet(c12uCopy(init))
		op("new "+c12uShowVals(init), "ok "+c12uShowSet(vset))
		// genesis: Validators = set, NextValidators = one round further (MakeGenesisState)
		state := LatestBlockState{
			ChainID: "c12u", InitialHeight: 1, LastBlockHeight: 0,
			NextValidators: vset.CopyIncrementProposerPriority(1), Validators: vset, LastValidators: nil,
			LastHeightValidatorsChanged: 1,
		}
		op("inc 1", c12uShowSet(state.NextValidators))
		fresh := 0
		blocks := 4 + r.Intn(14)
		changes := 0
		for h := uint64(1); h <= uint64(blocks); h++ {
			var ups []*types.Validator
			if r.Chance(35) {
				ups = c12uChanges(r, state.NextValidators, regime, &fresh)
			}
			line := "blk " + c12uShowVals(ups)
			pre := state.NextValidators.Copy()
			preShow := c12uShowSet(pre)
			hdr := &types.Header{Height: h, Time: time.Unix(1700000000+int64(h), 0)}
			var ns LatestBlockState
			var err error
			hist = append(hist, line)
			if vfGuard(o, "updatestate-panics", ctx, func() {
				ns, err = updateState(logger, state, types.BlockID{}, hdr, c12uCopy(ups))
			}) {
				break
			}
			hist = hist[:len(hist)-1]
			// the same with the set's own methods: apply the changes, then one round
			exp := pre.Copy()
			var expErr error
			if len(ups) > 0 {
				expErr = exp.UpdateWithChangeSet(c12uCopy(ups))
			}
			if expErr == nil {
				exp.IncrementProposerPriority(1)
			}
			if err != nil {
				op(line, "err "+c12uErrClass(err)+" "+c12uShowSet(ns.NextValidators))
				o.Stat("blk.rejected." + c12uErrClass(err))
				if expErr == nil {
					o.Viol("block-changes-rejected", fmt.Sprintf("updateState: %v, UpdateWithChangeSet accepts; %s", err, ctx()))
				}
				if c12uShowSet(ns.NextValidators) != preShow || c12uShowSet(state.NextValidators) != preShow {
					o.Viol("rejected-change-set-not-all-or-nothing", fmt.Sprintf("before=%s after=%s %s", preShow, c12uShowSet(ns.NextValidators), ctx()))
				}
				continue
			}
			got := c12uShowSet(ns.NextValidators)
			op(line, "ok "+got)
			if expErr != nil {
				o.Viol("invalid-block-changes-accepted", fmt.Sprintf("UpdateWithChangeSet: %v; %s", expErr, ctx()))
			} else if got != c12uShowSet(exp) {
				o.Viol("next-validators-not-changes-then-one-round", fmt.Sprintf("height %d: NextValidators=%s, applying the changes and then advancing one round gives %s; %s", h, got, c12uShowSet(exp), ctx()))
			}
			if p := ns.NextValidators.Proposer; p == nil || !ns.NextValidators.HasAddress(p.Address) {
				o.Viol("designated-proposer-not-a-member", fmt.Sprintf("height %d: %s; %s", h, got, ctx()))
			}
			if c12uShowSet(state.NextValidators) != preShow {
				o.Viol("updatestate-mutates-old-state", ctx())
			}
			if c12uShowSet(ns.Validators) != preShow {
				o.Viol("validators-not-previous-next", fmt.Sprintf("height %d: Validators=%s previous NextValidators=%s; %s", h, c12uShowSet(ns.Validators), preShow, ctx()))
			}
			if len(ups) > 0 {
				changes++
				o.Stat("blk.changed")
			} else {
				o.Stat("blk.static")
			}
			state = ns
		}
		o.Stat(fmt.Sprintf("u.regime.%d", regime))
		o.Case(strings.Join(hist, ";"), changes > 0)
	}
}
