package cstate

// C13 harness (block level): "blocks are tamper-evident".
//
// Every case builds a chain state by hand (1-4 validators with real keys, a real last commit
// signed by the last validators, 0-5 transactions, 0-2 pieces of duplicate-vote evidence) and a
// block that the real `validateBlock` accepts (non-vacuity).  The oracle then
//   (2) applies ONE mutation to the protobuf form of the block, sends it through the wire
//       (Marshal -> Unmarshal -> BlockFromProto) and requires: decode rejected, or block hash
//       changed, or validation against the chain state fails (cold, no cache);
//   (3) replays every same-hash mutant against a BlockExecutor whose validation cache was warmed
//       with the genuine block (finding F8: the cache is keyed by the header hash only);
//   (4) round-trips Block, Header, Commit, Vote, Proposal, Part, BlockID, PartSetHeader and
//       evidence through their wire encodings and reassembles the block from its parts;
//   (5) round-trips the block, its parts, its meta and its commits through the database.
//
// The harness lives in package cstate (not types) because package trie imports types and the
// unexported validateBlock is needed.

import (
	"bytes"
	"crypto/ecdsa"
	"fmt"
	"io"
	"math/big"
	"testing"
	"time"

	"github.com/kardiachain/go-kardia/configs"
	"github.com/kardiachain/go-kardia/kai/kaidb/memorydb"
	"github.com/kardiachain/go-kardia/kai/rawdb"
	"github.com/kardiachain/go-kardia/lib/common"
	"github.com/kardiachain/go-kardia/lib/crypto"
	"github.com/kardiachain/go-kardia/lib/log"
	kproto "github.com/kardiachain/go-kardia/proto/kardiachain/types"
	"github.com/kardiachain/go-kardia/trie"
	"github.com/kardiachain/go-kardia/types"
)

// ---------------------------------------------------------------------------------------------
// generators

type vfbKey struct {
	priv *ecdsa.PrivateKey
	addr common.Address
}

func vfbGenKey(r *vfRand) vfbKey {
	for {
		k, err := crypto.ToECDSA(r.Bytes(32))
		if err == nil {
			return vfbKey{priv: k, addr: crypto.PubkeyToAddress(k.PublicKey)}
		}
	}
}

type vfbKeyMap map[common.Address]*ecdsa.PrivateKey

func vfbValSet(r *vfRand, keys []vfbKey, equalPower bool) *types.ValidatorSet {
	vals := make([]*types.Validator, len(keys))
	for i, k := range keys {
		p := int64(10)
		if !equalPower {
			p = int64(1 + r.Intn(20))
		}
		vals[i] = types.NewValidator(k.addr, p)
	}
	return types.NewValidatorSet(vals)
}

func vfbTime(r *vfRand) time.Time {
	// 2021-01-01 .. ~2031, with or without a nanosecond part
	sec := int64(1609459200) + int64(r.Intn(315360000))
	nsec := int64(0)
	if r.Chance(70) {
		nsec = int64(r.Intn(1000000000))
	}
	return time.Unix(sec, nsec).UTC()
}

func vfbRandHash(r *vfRand) common.Hash { return common.BytesToHash(r.Bytes(32)) }

func vfbRandBlockID(r *vfRand) types.BlockID {
	return types.BlockID{
		Hash:        vfbRandHash(r),
		PartsHeader: types.PartSetHeader{Total: uint32(1 + r.Intn(5)), Hash: vfbRandHash(r)},
	}
}

func vfbSignVote(chainID string, v *types.Vote, k *ecdsa.PrivateKey) {
	sb := types.VoteSignBytes(chainID, v.ToProto())
	sig, err := crypto.Sign(crypto.Keccak256(sb), k)
	if err != nil {
		panic(err)
	}
	v.Signature = sig
}

// vfbMakeCommit builds a commit for blockID at (height, round) signed by the validators of vs in
// set order; some signatures are absent or for nil, but more than 2/3 of the power commits.
func vfbMakeCommit(r *vfRand, chainID string, height uint64, round uint32, blockID types.BlockID,
	vs *types.ValidatorSet, keys vfbKeyMap, after time.Time) (*types.Commit, string) {
	n := vs.Size()
	flags := make([]types.BlockIDFlag, n)
	tallied := int64(0)
	for i, val := range vs.Validators {
		switch r.Intn(8) {
		case 0:
			flags[i] = types.BlockIDFlagAbsent
		case 1:
			flags[i] = types.BlockIDFlagNil
		default:
			flags[i] = types.BlockIDFlagCommit
			tallied += val.VotingPower
		}
	}
	if tallied <= vs.TotalVotingPower()*2/3 {
		for i := range flags {
			flags[i] = types.BlockIDFlagCommit
		}
	}
	shape := ""
	sameTime := r.Chance(20)
	common0 := after.Add(time.Duration(1+r.Intn(5000)) * time.Millisecond)
	sigs := make([]types.CommitSig, n)
	for i, val := range vs.Validators {
		if flags[i] == types.BlockIDFlagAbsent {
			sigs[i] = types.NewCommitSigAbsent()
			shape += "a"
			continue
		}
		ts := common0
		if !sameTime {
			ts = after.Add(time.Duration(1+r.Intn(5000))*time.Millisecond + time.Duration(r.Intn(1000000)))
		}
		bid := blockID
		if flags[i] == types.BlockIDFlagNil {
			bid = types.BlockID{}
			shape += "n"
		} else {
			shape += "c"
		}
		v := &types.Vote{
			ValidatorAddress: val.Address,
			ValidatorIndex:   uint32(i),
			Height:           height,
			Round:            round,
			Timestamp:        ts,
			Type:             kproto.PrecommitType,
			BlockID:          bid,
		}
		vfbSignVote(chainID, v, keys[val.Address])
		sigs[i] = v.CommitSig()
	}
	return types.NewCommit(height, round, blockID, sigs), shape
}

func vfbGenTx(r *vfRand, keys []vfbKey) *types.Transaction {
	amount := new(big.Int).SetBytes(r.Bytes(r.Intn(12)))
	price := big.NewInt(int64(r.Intn(1000)))
	data := r.Bytes(r.Pick(0, 0, 4, 36, 100))
	nonce := uint64(r.Intn(5))
	gas := uint64(21000 + r.Intn(100000))
	var tx *types.Transaction
	if r.Chance(15) {
		tx = types.NewContractCreation(nonce, amount, gas, price, data)
	} else {
		tx = types.NewTransaction(nonce, common.BytesToAddress(r.Bytes(20)), amount, gas, price, data)
	}
	if r.Chance(30) {
		if signed, err := types.SignTx(types.HomesteadSigner{}, tx, keys[r.Intn(len(keys))].priv); err == nil {
			tx = signed
		}
	}
	return tx
}

func vfbGenEvidence(r *vfRand, chainID string, height uint64, vs *types.ValidatorSet, keys vfbKeyMap, evTime time.Time) *types.DuplicateVoteEvidence {
	idx := r.Intn(vs.Size())
	val := vs.Validators[idx]
	typ := kproto.PrevoteType
	if r.Bool() {
		typ = kproto.PrecommitType
	}
	round := uint32(r.Intn(4))
	ts := vfbTime(r)
	mk := func() *types.Vote {
		v := &types.Vote{
			ValidatorAddress: val.Address,
			ValidatorIndex:   uint32(idx),
			Height:           height,
			Round:            round,
			Timestamp:        ts,
			Type:             typ,
			BlockID:          vfbRandBlockID(r),
		}
		vfbSignVote(chainID, v, keys[val.Address])
		return v
	}
	return types.NewDuplicateVoteEvidence(mk(), mk(), evTime, vs)
}

// no-op evidence pool: evidence is bound to the block through Header.EvidenceHash only.
type vfbEvPool struct{}

func (vfbEvPool) Update(LatestBlockState, types.EvidenceList)   {}
func (vfbEvPool) CheckEvidence(evList types.EvidenceList) error { return nil }

// ---------------------------------------------------------------------------------------------
// field-wise comparison helpers ("" = equal, otherwise the first differing field)

func vfbDiffBlockID(a, b types.BlockID) string {
	if a.Hash != b.Hash {
		return "hash"
	}
	if a.PartsHeader.Total != b.PartsHeader.Total {
		return "parts.total"
	}
	if a.PartsHeader.Hash != b.PartsHeader.Hash {
		return "parts.hash"
	}
	return ""
}

func vfbDiffHeader(a, b *types.Header) string {
	switch {
	case a == nil || b == nil:
		if a == b {
			return ""
		}
		return "nil"
	case a.Height != b.Height:
		return "height"
	case !a.Time.Equal(b.Time):
		return "time"
	case a.NumTxs != b.NumTxs:
		return "num_txs"
	case a.GasLimit != b.GasLimit:
		return "gas_limit"
	case vfbDiffBlockID(a.LastBlockID, b.LastBlockID) != "":
		return "last_block_id." + vfbDiffBlockID(a.LastBlockID, b.LastBlockID)
	case a.ProposerAddress != b.ProposerAddress:
		return "proposer_address"
	case a.LastCommitHash != b.LastCommitHash:
		return "last_commit_hash"
	case a.TxHash != b.TxHash:
		return "data_hash"
	case a.ValidatorsHash != b.ValidatorsHash:
		return "validators_hash"
	case a.NextValidatorsHash != b.NextValidatorsHash:
		return "next_validators_hash"
	case a.ConsensusHash != b.ConsensusHash:
		return "consensus_hash"
	case a.AppHash != b.AppHash:
		return "app_hash"
	case a.EvidenceHash != b.EvidenceHash:
		return "evidence_hash"
	}
	return ""
}

func vfbDiffCommit(a, b *types.Commit) string {
	if a == nil || b == nil {
		if a == b {
			return ""
		}
		return "nil"
	}
	if a.Height != b.Height {
		return "height"
	}
	if a.Round != b.Round {
		return "round"
	}
	if d := vfbDiffBlockID(a.BlockID, b.BlockID); d != "" {
		return "block_id." + d
	}
	if len(a.Signatures) != len(b.Signatures) {
		return "signatures.len"
	}
	for i := range a.Signatures {
		x, y := a.Signatures[i], b.Signatures[i]
		switch {
		case x.BlockIDFlag != y.BlockIDFlag:
			return fmt.Sprintf("sig%d.flag", i)
		case x.ValidatorAddress != y.ValidatorAddress:
			return fmt.Sprintf("sig%d.validator_address", i)
		case !x.Timestamp.Equal(y.Timestamp):
			return fmt.Sprintf("sig%d.timestamp", i)
		case !bytes.Equal(x.Signature, y.Signature):
			return fmt.Sprintf("sig%d.signature", i)
		}
	}
	return ""
}

func vfbDiffVote(a, b *types.Vote) string {
	switch {
	case a == nil || b == nil:
		if a == b {
			return ""
		}
		return "nil"
	case a.ValidatorAddress != b.ValidatorAddress:
		return "validator_address"
	case a.ValidatorIndex != b.ValidatorIndex:
		return "validator_index"
	case a.Height != b.Height:
		return "height"
	case a.Round != b.Round:
		return "round"
	case !a.Timestamp.Equal(b.Timestamp):
		return "timestamp"
	case a.Type != b.Type:
		return "type"
	case vfbDiffBlockID(a.BlockID, b.BlockID) != "":
		return "block_id." + vfbDiffBlockID(a.BlockID, b.BlockID)
	case !bytes.Equal(a.Signature, b.Signature):
		return "signature"
	}
	return ""
}

func vfbDiffProposal(a, b *types.Proposal) string {
	switch {
	case a.Height != b.Height:
		return "height"
	case a.Round != b.Round:
		return "round"
	case a.POLRound != b.POLRound:
		return "pol_round"
	case !a.Timestamp.Equal(b.Timestamp):
		return "timestamp"
	case vfbDiffBlockID(a.POLBlockID, b.POLBlockID) != "":
		return "block_id." + vfbDiffBlockID(a.POLBlockID, b.POLBlockID)
	case !bytes.Equal(a.Signature, b.Signature):
		return "signature"
	}
	return ""
}

func vfbDiffEvidence(a, b types.Evidence) string {
	x, ok1 := a.(*types.DuplicateVoteEvidence)
	y, ok2 := b.(*types.DuplicateVoteEvidence)
	if !ok1 || !ok2 {
		return "type"
	}
	switch {
	case vfbDiffVote(x.VoteA, y.VoteA) != "":
		return "vote_a." + vfbDiffVote(x.VoteA, y.VoteA)
	case vfbDiffVote(x.VoteB, y.VoteB) != "":
		return "vote_b." + vfbDiffVote(x.VoteB, y.VoteB)
	case x.TotalVotingPower != y.TotalVotingPower:
		return "total_voting_power"
	case x.ValidatorPower != y.ValidatorPower:
		return "validator_power"
	case !x.Timestamp.Equal(y.Timestamp):
		return "timestamp"
	}
	return ""
}

func vfbTxBytes(tx *types.Transaction) []byte {
	bz, err := tx.MarshalBinary()
	if err != nil {
		return nil
	}
	return bz
}

func vfbDiffBlock(a, b *types.Block) string {
	if d := vfbDiffHeader(a.Header(), b.Header()); d != "" {
		return "header." + d
	}
	ta, tb := a.Transactions(), b.Transactions()
	if len(ta) != len(tb) {
		return "txs.len"
	}
	for i := range ta {
		if ta[i].Hash() != tb[i].Hash() || !bytes.Equal(vfbTxBytes(ta[i]), vfbTxBytes(tb[i])) {
			return fmt.Sprintf("tx%d", i)
		}
	}
	if d := vfbDiffCommit(a.LastCommit(), b.LastCommit()); d != "" {
		return "last_commit." + d
	}
	var ea, eb types.EvidenceList
	if a.Evidence() != nil {
		ea = a.Evidence().Evidence
	}
	if b.Evidence() != nil {
		eb = b.Evidence().Evidence
	}
	if len(ea) != len(eb) {
		return "evidence.len"
	}
	for i := range ea {
		if d := vfbDiffEvidence(ea[i], eb[i]); d != "" {
			return fmt.Sprintf("evidence%d.%s", i, d)
		}
	}
	return ""
}

func vfbDiffPart(a, b *types.Part) string {
	switch {
	case a == nil || b == nil:
		if a == b {
			return ""
		}
		return "nil"
	case a.Index != b.Index:
		return "index"
	case !bytes.Equal(a.Bytes, b.Bytes):
		return "bytes"
	case a.Proof.Total != b.Proof.Total:
		return "proof.total"
	case a.Proof.Index != b.Proof.Index:
		return "proof.index"
	case !bytes.Equal(a.Proof.LeafHash, b.Proof.LeafHash):
		return "proof.leaf_hash"
	case len(a.Proof.Aunts) != len(b.Proof.Aunts):
		return "proof.aunts.len"
	}
	for i := range a.Proof.Aunts {
		if !bytes.Equal(a.Proof.Aunts[i], b.Proof.Aunts[i]) {
			return "proof.aunts"
		}
	}
	return ""
}

func vfbBlockBytes(b *types.Block) []byte {
	pb, err := b.ToProto()
	if err != nil {
		return nil
	}
	bz, err := pb.Marshal()
	if err != nil {
		return nil
	}
	return bz
}

// ---------------------------------------------------------------------------------------------
// mutations of the protobuf form

type vfbMutCtx struct {
	r         *vfRand
	extraTx   []byte           // a fresh valid transaction
	extraEv   *kproto.Evidence // a fresh valid piece of evidence (nil when the case has no keys for it)
	otherAddr []byte           // address of another validator of the current set (nil if there is only one)
}

type vfbMutation struct {
	field string
	apply func(pb *kproto.Block, c *vfbMutCtx) bool // false: not applicable / no-op for this block
}

func vfbFlip(b []byte, r *vfRand, size int) []byte {
	if len(b) == 0 {
		b = make([]byte, size)
	}
	c := append([]byte{}, b...)
	c[r.Intn(len(c))] ^= byte(1 << uint(r.Intn(8)))
	return c
}

func vfbHasSigs(pb *kproto.Block) bool { return pb.LastCommit != nil && len(pb.LastCommit.Signatures) > 0 }

// vfbPickSig returns the index of a random signature with one of the wanted flags, or -1.
func vfbPickSig(pb *kproto.Block, r *vfRand, want ...kproto.BlockIDFlag) int {
	if !vfbHasSigs(pb) {
		return -1
	}
	var idx []int
	for i, s := range pb.LastCommit.Signatures {
		for _, w := range want {
			if s.BlockIdFlag == w {
				idx = append(idx, i)
			}
		}
	}
	if len(idx) == 0 {
		return -1
	}
	return idx[r.Intn(len(idx))]
}

func vfbEvOf(pb *kproto.Block, i int) *kproto.DuplicateVoteEvidence {
	if s, ok := pb.Evidence.Evidence[i].Sum.(*kproto.Evidence_DuplicateVoteEvidence); ok {
		return s.DuplicateVoteEvidence
	}
	return nil
}

func vfbCloneEv(e *kproto.Evidence) kproto.Evidence {
	bz, _ := e.Marshal()
	var out kproto.Evidence
	_ = out.Unmarshal(bz)
	return out
}

func vfbHashMut(field string, get func(h *kproto.Header) *[]byte) vfbMutation {
	return vfbMutation{field, func(pb *kproto.Block, c *vfbMutCtx) bool {
		p := get(&pb.Header)
		*p = vfbFlip(*p, c.r, 32)
		return true
	}}
}

func vfbMutations() []vfbMutation {
	signed := []kproto.BlockIDFlag{kproto.BlockIDFlagCommit, kproto.BlockIDFlagNil}
	return []vfbMutation{
		// ---- header
		{"height", func(pb *kproto.Block, c *vfbMutCtx) bool {
			switch c.r.Intn(3) {
			case 0:
				pb.Header.Height++
			case 1:
				pb.Header.Height--
			default:
				pb.Header.Height ^= 1 << uint(c.r.Intn(64))
			}
			return true
		}},
		{"time.nsec", func(pb *kproto.Block, c *vfbMutCtx) bool { pb.Header.Time = pb.Header.Time.Add(1); return true }},
		{"time.sec", func(pb *kproto.Block, c *vfbMutCtx) bool {
			pb.Header.Time = pb.Header.Time.Add(time.Second)
			return true
		}},
		{"num_txs", func(pb *kproto.Block, c *vfbMutCtx) bool {
			if c.r.Bool() || pb.Header.NumTxs == 0 {
				pb.Header.NumTxs++
			} else {
				pb.Header.NumTxs--
			}
			return true
		}},
		{"gas_limit", func(pb *kproto.Block, c *vfbMutCtx) bool {
			pb.Header.GasLimit ^= 1 << uint(c.r.Intn(64))
			return true
		}},
		{"last_block_id.hash", func(pb *kproto.Block, c *vfbMutCtx) bool {
			pb.Header.LastBlockId.Hash = vfbFlip(pb.Header.LastBlockId.Hash, c.r, 32)
			return true
		}},
		{"last_block_id.parts.total", func(pb *kproto.Block, c *vfbMutCtx) bool {
			pb.Header.LastBlockId.PartSetHeader.Total++
			return true
		}},
		{"last_block_id.parts.hash", func(pb *kproto.Block, c *vfbMutCtx) bool {
			pb.Header.LastBlockId.PartSetHeader.Hash = vfbFlip(pb.Header.LastBlockId.PartSetHeader.Hash, c.r, 32)
			return true
		}},
		{"proposer_address", func(pb *kproto.Block, c *vfbMutCtx) bool {
			if c.otherAddr != nil && c.r.Bool() {
				pb.Header.ProposerAddress = append([]byte{}, c.otherAddr...) // another genuine validator
			} else {
				pb.Header.ProposerAddress = vfbFlip(pb.Header.ProposerAddress, c.r, 20)
			}
			return true
		}},
		vfbHashMut("last_commit_hash", func(h *kproto.Header) *[]byte { return &h.LastCommitHash }),
		vfbHashMut("data_hash", func(h *kproto.Header) *[]byte { return &h.DataHash }),
		vfbHashMut("validators_hash", func(h *kproto.Header) *[]byte { return &h.ValidatorsHash }),
		vfbHashMut("next_validators_hash", func(h *kproto.Header) *[]byte { return &h.NextValidatorsHash }),
		vfbHashMut("consensus_hash", func(h *kproto.Header) *[]byte { return &h.ConsensusHash }),
		vfbHashMut("app_hash", func(h *kproto.Header) *[]byte { return &h.AppHash }),
		vfbHashMut("evidence_hash", func(h *kproto.Header) *[]byte { return &h.EvidenceHash }),
		// a wire field that types.Header does not have: must not produce a different block
		{"wire.chain_id", func(pb *kproto.Block, c *vfbMutCtx) bool { pb.Header.ChainID = "x"; return true }},

		// ---- transactions
		{"tx.drop", func(pb *kproto.Block, c *vfbMutCtx) bool {
			n := len(pb.Data.Txs)
			if n == 0 {
				return false
			}
			i := c.r.Intn(n)
			pb.Data.Txs = append(append([][]byte{}, pb.Data.Txs[:i]...), pb.Data.Txs[i+1:]...)
			return true
		}},
		{"tx.dup", func(pb *kproto.Block, c *vfbMutCtx) bool {
			n := len(pb.Data.Txs)
			if n == 0 {
				return false
			}
			i := c.r.Intn(n)
			out := append([][]byte{}, pb.Data.Txs[:i+1]...)
			out = append(out, pb.Data.Txs[i])
			pb.Data.Txs = append(out, pb.Data.Txs[i+1:]...)
			return true
		}},
		{"tx.swap", func(pb *kproto.Block, c *vfbMutCtx) bool {
			n := len(pb.Data.Txs)
			if n < 2 {
				return false
			}
			i := c.r.Intn(n)
			for d := 1; d < n; d++ {
				j := (i + d) % n
				if !bytes.Equal(pb.Data.Txs[i], pb.Data.Txs[j]) {
					pb.Data.Txs[i], pb.Data.Txs[j] = pb.Data.Txs[j], pb.Data.Txs[i]
					return true
				}
			}
			return false
		}},
		{"tx.flip", func(pb *kproto.Block, c *vfbMutCtx) bool {
			n := len(pb.Data.Txs)
			if n == 0 {
				return false
			}
			i := c.r.Intn(n)
			pb.Data.Txs[i] = vfbFlip(pb.Data.Txs[i], c.r, 1)
			return true
		}},
		{"tx.append", func(pb *kproto.Block, c *vfbMutCtx) bool {
			pb.Data.Txs = append(pb.Data.Txs, c.extraTx)
			return true
		}},

		// ---- last commit: one signature
		{"sig.flag.nil", func(pb *kproto.Block, c *vfbMutCtx) bool {
			i := vfbPickSig(pb, c.r, kproto.BlockIDFlagCommit)
			if i < 0 {
				return false
			}
			pb.LastCommit.Signatures[i].BlockIdFlag = kproto.BlockIDFlagNil
			return true
		}},
		{"sig.flag.absent", func(pb *kproto.Block, c *vfbMutCtx) bool {
			i := vfbPickSig(pb, c.r, kproto.BlockIDFlagCommit)
			if i < 0 {
				return false
			}
			if c.r.Bool() {
				pb.LastCommit.Signatures[i].BlockIdFlag = kproto.BlockIDFlagAbsent // fields kept
			} else {
				pb.LastCommit.Signatures[i] = kproto.CommitSig{BlockIdFlag: kproto.BlockIDFlagAbsent}
			}
			return true
		}},
		{"sig.validator_address", func(pb *kproto.Block, c *vfbMutCtx) bool {
			i := vfbPickSig(pb, c.r, signed...)
			if i < 0 {
				return false
			}
			s := &pb.LastCommit.Signatures[i]
			s.ValidatorAddress = vfbFlip(s.ValidatorAddress, c.r, 20)
			return true
		}},
		{"sig.timestamp", func(pb *kproto.Block, c *vfbMutCtx) bool {
			i := vfbPickSig(pb, c.r, signed...)
			if i < 0 {
				return false
			}
			s := &pb.LastCommit.Signatures[i]
			if c.r.Bool() {
				s.Timestamp = s.Timestamp.Add(1)
			} else {
				s.Timestamp = s.Timestamp.Add(-time.Second)
			}
			return true
		}},
		{"sig.signature.flip", func(pb *kproto.Block, c *vfbMutCtx) bool {
			i := vfbPickSig(pb, c.r, signed...)
			if i < 0 {
				return false
			}
			s := &pb.LastCommit.Signatures[i]
			s.Signature = vfbFlip(s.Signature, c.r, 65)
			return true
		}},
		{"sig.signature.trunc", func(pb *kproto.Block, c *vfbMutCtx) bool {
			i := vfbPickSig(pb, c.r, signed...)
			if i < 0 {
				return false
			}
			s := &pb.LastCommit.Signatures[i]
			if len(s.Signature) == 0 {
				return false
			}
			s.Signature = append([]byte{}, s.Signature[:c.r.Intn(len(s.Signature))]...)
			return true
		}},
		// ---- last commit: the list
		{"sig.drop", func(pb *kproto.Block, c *vfbMutCtx) bool {
			if !vfbHasSigs(pb) {
				return false
			}
			s := pb.LastCommit.Signatures
			i := c.r.Intn(len(s))
			pb.LastCommit.Signatures = append(append([]kproto.CommitSig{}, s[:i]...), s[i+1:]...)
			return true
		}},
		{"sig.swap", func(pb *kproto.Block, c *vfbMutCtx) bool {
			if !vfbHasSigs(pb) || len(pb.LastCommit.Signatures) < 2 {
				return false
			}
			s := pb.LastCommit.Signatures
			n := len(s)
			i := c.r.Intn(n)
			for d := 1; d < n; d++ {
				j := (i + d) % n
				a, _ := s[i].Marshal()
				b, _ := s[j].Marshal()
				if !bytes.Equal(a, b) {
					s[i], s[j] = s[j], s[i]
					return true
				}
			}
			return false
		}},
		{"sig.append", func(pb *kproto.Block, c *vfbMutCtx) bool {
			if pb.LastCommit == nil {
				return false
			}
			if vfbHasSigs(pb) && c.r.Bool() {
				s := pb.LastCommit.Signatures
				pb.LastCommit.Signatures = append(s, s[c.r.Intn(len(s))])
			} else {
				pb.LastCommit.Signatures = append(pb.LastCommit.Signatures, kproto.CommitSig{BlockIdFlag: kproto.BlockIDFlagAbsent})
			}
			return true
		}},
		// ---- last commit: the fields Commit.Hash does not cover
		{"commit.height", func(pb *kproto.Block, c *vfbMutCtx) bool {
			if pb.LastCommit == nil {
				return false
			}
			if c.r.Bool() || pb.LastCommit.Height == 0 {
				pb.LastCommit.Height++
			} else {
				pb.LastCommit.Height--
			}
			return true
		}},
		{"commit.round", func(pb *kproto.Block, c *vfbMutCtx) bool {
			if pb.LastCommit == nil {
				return false
			}
			pb.LastCommit.Round += uint32(c.r.Pick(1, 7))
			return true
		}},
		{"commit.block_id.hash", func(pb *kproto.Block, c *vfbMutCtx) bool {
			if pb.LastCommit == nil {
				return false
			}
			pb.LastCommit.BlockID.Hash = vfbFlip(pb.LastCommit.BlockID.Hash, c.r, 32)
			return true
		}},
		{"commit.block_id.parts.total", func(pb *kproto.Block, c *vfbMutCtx) bool {
			if pb.LastCommit == nil {
				return false
			}
			pb.LastCommit.BlockID.PartSetHeader.Total++
			return true
		}},
		{"commit.block_id.parts.hash", func(pb *kproto.Block, c *vfbMutCtx) bool {
			if pb.LastCommit == nil {
				return false
			}
			pb.LastCommit.BlockID.PartSetHeader.Hash = vfbFlip(pb.LastCommit.BlockID.PartSetHeader.Hash, c.r, 32)
			return true
		}},
		{"last_commit.nil", func(pb *kproto.Block, c *vfbMutCtx) bool {
			if pb.LastCommit == nil {
				return false
			}
			pb.LastCommit = nil
			return true
		}},

		// ---- evidence
		{"ev.drop", func(pb *kproto.Block, c *vfbMutCtx) bool {
			e := pb.Evidence.Evidence
			if len(e) == 0 {
				return false
			}
			i := c.r.Intn(len(e))
			pb.Evidence.Evidence = append(append([]kproto.Evidence{}, e[:i]...), e[i+1:]...)
			return true
		}},
		{"ev.dup", func(pb *kproto.Block, c *vfbMutCtx) bool {
			e := pb.Evidence.Evidence
			if len(e) == 0 {
				return false
			}
			pb.Evidence.Evidence = append(e, vfbCloneEv(&e[c.r.Intn(len(e))]))
			return true
		}},
		{"ev.swap", func(pb *kproto.Block, c *vfbMutCtx) bool {
			e := pb.Evidence.Evidence
			if len(e) < 2 {
				return false
			}
			a, _ := e[0].Marshal()
			b, _ := e[1].Marshal()
			if bytes.Equal(a, b) {
				return false
			}
			e[0], e[1] = e[1], e[0]
			return true
		}},
		{"ev.vote", func(pb *kproto.Block, c *vfbMutCtx) bool {
			e := pb.Evidence.Evidence
			if len(e) == 0 {
				return false
			}
			d := vfbEvOf(pb, c.r.Intn(len(e)))
			if d == nil || d.VoteA == nil || d.VoteB == nil {
				return false
			}
			v := d.VoteA
			if c.r.Bool() {
				v = d.VoteB
			}
			switch c.r.Intn(8) {
			case 0:
				v.Height++
			case 1:
				v.Round++
			case 2:
				v.Timestamp = v.Timestamp.Add(1)
			case 3:
				v.Signature = vfbFlip(v.Signature, c.r, 65)
			case 4:
				v.ValidatorIndex++
			case 5:
				v.ValidatorAddress = vfbFlip(v.ValidatorAddress, c.r, 20)
			case 6:
				v.BlockID.PartSetHeader.Total++
			default:
				if v.Type == kproto.PrevoteType {
					v.Type = kproto.PrecommitType
				} else {
					v.Type = kproto.PrevoteType
				}
			}
			return true
		}},
		{"ev.field", func(pb *kproto.Block, c *vfbMutCtx) bool {
			e := pb.Evidence.Evidence
			if len(e) == 0 {
				return false
			}
			d := vfbEvOf(pb, c.r.Intn(len(e)))
			if d == nil {
				return false
			}
			switch c.r.Intn(3) {
			case 0:
				d.TotalVotingPower++
			case 1:
				d.ValidatorPower++
			default:
				d.Timestamp = d.Timestamp.Add(1)
			}
			return true
		}},
		{"ev.append", func(pb *kproto.Block, c *vfbMutCtx) bool {
			if c.extraEv == nil {
				return false
			}
			pb.Evidence.Evidence = append(pb.Evidence.Evidence, vfbCloneEv(c.extraEv))
			return true
		}},
	}
}

// fields of the commit that Commit.Hash (and therefore the block hash) does not cover
var vfbCommitUnhashed = map[string]bool{
	"commit.height": true, "commit.round": true, "commit.block_id.hash": true,
	"commit.block_id.parts.total": true, "commit.block_id.parts.hash": true,
}

// ---------------------------------------------------------------------------------------------

// vfbReporter limits the number of records per signature so that a frequent (known) signature
// cannot exhaust the per-run budget of violation records and hide a different one.
type vfbReporter struct {
	o    *vfOut
	seen map[string]int
}

func (p *vfbReporter) viol(max int, sig, detail string) {
	p.o.Stat("viol:" + sig)
	if p.seen[sig] >= max {
		return
	}
	p.seen[sig]++
	p.o.Viol(sig, detail)
}

// guard is vfGuard with the per-signature limit of the reporter.
func (p *vfbReporter) guard(sig string, detail func() string, f func()) (panicked bool) {
	defer func() {
		if r := recover(); r != nil {
			panicked = true
			p.viol(2, sig, fmt.Sprintf("panic: %v; %s", r, detail()))
		}
	}()
	f()
	return false
}

func vfbShort(h common.Hash) string { return vfHex(h[:6]) }

func vfbErrText(err error) string {
	if err == nil {
		return "nil"
	}
	s := err.Error()
	if len(s) > 160 {
		s = s[:160] + "..."
	}
	return s
}

func TestVerifC13Block(t *testing.T) {
	log.Root().SetHandler(log.DiscardHandler())
	o := vfOpen()
	defer o.Close()
	rep := &vfbReporter{o: o, seen: map[string]int{}}
	seed := vfSeed()
	n := vfN(200)
	muts := vfbMutations()
	evpool := vfbEvPool{}
	hasher := func() types.TrieHasher { return trie.NewStackTrie(nil) }

	for i := 0; i < n; i++ {
		r := vfFork(seed, uint64(i))

		// ================================================================ (1) state and a valid block
		chainID := fmt.Sprintf("kai-verif-%d", r.Intn(3))
		nv := r.Pick(1, 2, 3, 4, 4)
		if vfThorough() && r.Chance(15) {
			nv = 5 + r.Intn(3)
		}
		keys := make([]vfbKey, nv)
		keyMap := vfbKeyMap{}
		for k := range keys {
			keys[k] = vfbGenKey(r)
			keyMap[keys[k].addr] = keys[k].priv
		}
		lastVals := vfbValSet(r, keys, r.Chance(50))
		vals := lastVals.Copy()
		nextVals := lastVals.Copy()
		valsShape := "same"
		switch r.Intn(4) {
		case 0: // the current set differs from the last one (one more validator)
			extra := vfbGenKey(r)
			keys2 := append(append([]vfbKey{}, keys...), extra)
			keyMap[extra.addr] = extra.priv
			vals = vfbValSet(r, keys2, false)
			nextVals = vals.Copy()
			valsShape = "grown"
		case 1: // the next set differs (powers)
			nextVals = vfbValSet(r, keys, false)
			valsShape = "next-differs"
		}

		var height uint64
		heightClass := ""
		switch r.Intn(10) {
		case 0, 1:
			height, heightClass = 1, "1"
		case 2, 3:
			height, heightClass = 2, "2"
		case 4:
			height, heightClass = 2+(r.U64()>>uint(1+r.Intn(50))), "large"
		default:
			height, heightClass = uint64(3+r.Intn(300)), "small"
		}

		state := LatestBlockState{
			ChainID:         chainID,
			InitialHeight:   1,
			LastBlockHeight: height - 1,
			NextValidators:  nextVals,
			Validators:      vals,
			LastValidators:  lastVals,
			AppHash:         vfbRandHash(r),
			ConsensusParams: *configs.DefaultConsensusParams(),
		}
		if r.Chance(10) {
			state.AppHash = common.Hash{}
		}
		var commit *types.Commit
		var blockTime time.Time
		commitShape := "empty"
		commitRound := uint32(0)
		if height == 1 {
			state.LastBlockID = types.BlockID{}
			state.LastBlockTime = vfbTime(r) // genesis time
			state.LastValidators = types.NewValidatorSet(nil)
			commit = types.NewCommit(0, 0, types.BlockID{}, nil)
			blockTime = state.LastBlockTime
		} else {
			state.LastBlockID = vfbRandBlockID(r)
			state.LastBlockTime = vfbTime(r)
			commitRound = uint32(r.Pick(0, 0, 1, 2, 3))
			commit, commitShape = vfbMakeCommit(r, chainID, height-1, commitRound, state.LastBlockID, lastVals, keyMap, state.LastBlockTime)
			blockTime = MedianTime(commit, lastVals)
		}

		ntx := r.Pick(0, 0, 1, 2, 3, 5)
		var txs []*types.Transaction
		for k := 0; k < ntx; k++ {
			if k > 0 && r.Chance(25) {
				txs = append(txs, txs[r.Intn(k)]) // equal transactions (tiny universe)
			} else {
				txs = append(txs, vfbGenTx(r, keys))
			}
		}
		nev := 0
		if height >= 2 {
			nev = r.Pick(0, 0, 0, 1, 1, 2)
		}
		var evidence []types.Evidence
		for k := 0; k < nev; k++ {
			evh := uint64(1)
			if height > 2 {
				evh = 1 + uint64(r.Intn(int((height-2)%1000)+1))
			}
			ev := vfbGenEvidence(r, chainID, evh, lastVals, keyMap, blockTime)
			if ev == nil || ev.ValidateBasic() != nil {
				o.Stat("gen:evidence-invalid")
				continue
			}
			evidence = append(evidence, ev)
		}
		proposer := vals.Validators[r.Intn(vals.Size())].Address
		var otherAddr []byte
		for _, v := range vals.Validators {
			if v.Address != proposer {
				otherAddr = append([]byte{}, v.Address.Bytes()...)
				break
			}
		}
		header := &types.Header{
			Height:             height,
			Time:               blockTime,
			GasLimit:           configs.BlockGasLimit,
			LastBlockID:        state.LastBlockID,
			ProposerAddress:    proposer,
			ValidatorsHash:     vals.Hash(),
			NextValidatorsHash: nextVals.Hash(),
			AppHash:            state.AppHash,
		}
		if r.Chance(40) {
			header.GasLimit = r.U64() >> uint(r.Intn(64))
		}
		if r.Chance(50) {
			header.ConsensusHash = vfbRandHash(r)
		}
		var block *types.Block
		if vfGuard(o, "panic:NewBlock", func() string { return fmt.Sprintf("case=%d height=%d", i, height) }, func() {
			block = types.NewBlock(header, txs, commit, evidence, hasher())
		}) {
			continue
		}
		desc := fmt.Sprintf("case=%d height=%d vals=%d/%s commit=%s round=%d txs=%d ev=%d", i, height, nv, valsShape, commitShape, commitRound, len(txs), len(evidence))

		store := NewStore(memorydb.New())
		var genErr error
		if vfGuard(o, "panic:validateBlock:genuine", func() string { return desc }, func() {
			genErr = validateBlock(evpool, store, state, block)
		}) {
			continue
		}
		if genErr != nil {
			rep.viol(5, "harness-valid-block-rejected", desc+" err="+vfbErrText(genErr))
			o.Case(fmt.Sprintf("rejected-%d", i), false)
			continue
		}
		o.Stat("gen:height:" + heightClass)
		o.Stat(fmt.Sprintf("gen:txs:%d", len(txs)))
		o.Stat(fmt.Sprintf("gen:evidence:%d", len(evidence)))
		o.Stat(fmt.Sprintf("gen:validators:%d", nv))
		o.Stat("gen:valsets:" + valsShape)
		o.Stat(fmt.Sprintf("gen:commit-round:%d", commitRound))
		for _, ch := range commitShape {
			if commitShape != "empty" {
				o.Stat("gen:commit-sig:" + string(ch))
			}
		}

		origHash := block.Hash()
		pbOrig, err := block.ToProto()
		if err != nil {
			rep.viol(3, "roundtrip:block:toproto-error", desc+" err="+vfbErrText(err))
			continue
		}
		bzOrig, _ := pbOrig.Marshal()
		var origPS *types.PartSet
		if vfGuard(o, "panic:MakePartSet", func() string { return desc }, func() {
			origPS = block.MakePartSet(types.BlockPartSizeBytes)
		}) {
			continue
		}
		origPSH := origPS.Header()
		if !bytes.Equal(bzOrig, vfbBlockBytes(block)) {
			rep.viol(3, "roundtrip:block:marshal-not-deterministic", desc)
		}

		// warm executor for (3)
		be := NewBlockExecutor(store, log.New(), evpool, nil)
		var warmErr0 error
		vfGuard(o, "panic:ValidateBlock:genuine", func() string { return desc }, func() {
			warmErr0 = be.ValidateBlock(state, block)
		})
		if warmErr0 != nil {
			rep.viol(5, "harness-valid-block-rejected-by-executor", desc+" err="+vfbErrText(warmErr0))
		}

		// ================================================================ (2)+(3) mutations
		ctx := &vfbMutCtx{otherAddr: otherAddr}
		{
			er := vfFork(r.U64(), 7)
			ctx.extraTx = vfbTxBytes(vfbGenTx(er, keys))
			if height >= 2 {
				if ev := vfbGenEvidence(er, chainID, 1, lastVals, keyMap, blockTime); ev != nil {
					if pe, err := types.EvidenceToProto(ev); err == nil {
						ctx.extraEv = pe
					}
				}
			}
		}
		mutCount := 0
		classes := ""
		mseed := r.U64()
		for mi, m := range muts {
			field := m.field
			ctx.r = vfFork(mseed, uint64(mi))
			pb2 := new(kproto.Block)
			if err := pb2.Unmarshal(bzOrig); err != nil {
				rep.viol(3, "roundtrip:block:unmarshal-error", desc+" err="+vfbErrText(err))
				break
			}
			applied := false
			if rep.guard("panic:harness-mutation:"+field, func() string { return desc }, func() { applied = m.apply(pb2, ctx) }) {
				continue
			}
			if !applied {
				o.Stat("skip:" + field)
				continue
			}
			bz2, err := pb2.Marshal()
			if err != nil || bytes.Equal(bz2, bzOrig) {
				o.Stat("skip:" + field)
				continue
			}
			wire := new(kproto.Block)
			if err := wire.Unmarshal(bz2); err != nil {
				o.Stat("mut:" + field + ":wire-unmarshal-error")
				continue
			}
			mutCount++
			atInit := ""
			if height == state.InitialHeight {
				atInit = "@initial-height"
			}
			mdesc := fmt.Sprintf("field=%s %s hash=%s", field, desc, vfbShort(origHash))

			var b2 *types.Block
			var decErr error
			if rep.guard("panic:BlockFromProto:"+field+atInit, func() string { return mdesc }, func() {
				b2, decErr = types.BlockFromProto(wire, hasher())
			}) {
				continue
			}
			class := ""
			var cand *types.Block // a same-hash block that differs from the genuine one
			var coldErr error
			switch {
			case decErr != nil:
				class = "decode-rejected"
				// what a caller that skips ValidateBasic (database path) would get
				wire2 := new(kproto.Block)
				_ = wire2.Unmarshal(bz2)
				var bu *types.Block
				var uerr error
				rep.guard("panic:BlockFromProtoUnsafe:"+field+atInit, func() string { return mdesc }, func() {
					bu, uerr = types.BlockFromProtoUnsafe(wire2)
				})
				if uerr == nil && bu != nil && bu.Hash() == origHash && vfbDiffBlock(block, bu) != "" {
					cand = bu
					if rep.guard("panic:validateBlock:"+field+atInit, func() string { return mdesc }, func() {
						coldErr = validateBlock(evpool, store, state, cand)
					}) {
						cand = nil
					} else if coldErr == nil {
						// BlockFromProto rejected it but validateBlock (which starts with the same
						// ValidateBasic) accepts the unsafe decoding
						rep.viol(3, "block-mutation-undetected-unsafe:"+field, mdesc)
						cand = nil
					}
				}
			case b2.Hash() != origHash:
				class = "hash-changed"
				// informational: is the different block acceptable too (then the two ids differ by the hash)
				var altErr error
				if !rep.guard("panic:validateBlock:"+field+atInit, func() string { return mdesc }, func() {
					altErr = validateBlock(evpool, store, state, b2)
				}) {
					if altErr == nil {
						o.Stat("alt:" + field + ":state-accepts-different-hash")
					} else {
						o.Stat("alt:" + field + ":state-rejects")
					}
				}
			default:
				// same hash and ValidateBasic passed: validation against the chain state must fail
				diff := vfbDiffBlock(block, b2)
				panicked := rep.guard("panic:validateBlock:"+field+atInit, func() string { return mdesc }, func() {
					coldErr = validateBlock(evpool, store, state, b2)
				})
				switch {
				case panicked:
					class = "state-panic"
				case diff == "":
					class = "wire-ignored" // decodes to the very same block
					if bz := vfbBlockBytes(b2); !bytes.Equal(bz, bzOrig) {
						rep.viol(3, "distinct-encodings-of-equal-block:"+field, mdesc)
					}
				case coldErr != nil:
					class = "state-rejected"
					cand = b2
				default:
					class = "undetected"
					sig := "block-mutation-undetected:" + field + atInit
					ps2 := b2.MakePartSet(types.BlockPartSizeBytes).Header()
					rep.viol(2, sig, fmt.Sprintf("%s differs_in=%s same_hash=true accepted_by_validateBlock=true parts_hash_differs=%v", mdesc, diff, !ps2.Equals(origPSH)))
					// distinct ids clause
					if bz := vfbBlockBytes(b2); !bytes.Equal(bz, bzOrig) && ps2.Equals(origPSH) {
						rep.viol(3, "distinct-blocks-share-id:"+field, mdesc+" differs_in="+diff)
					}
				}
			}
			o.Stat("mut:" + field + ":" + class)
			if len(classes) < 300 {
				classes += field + "=" + class + " "
			}
			if vfbCommitUnhashed[field] && class == "state-rejected" {
				o.Stat("commit-field-bound-by-verifycommit:" + field)
			}
			if cand == nil {
				continue
			}

			// the part-set header must tell the same-hash mutant from the genuine block
			partsDiffer := true
			rep.guard("panic:MakePartSet:"+field+atInit, func() string { return mdesc }, func() {
				bzc := vfbBlockBytes(cand)
				psc := cand.MakePartSet(types.BlockPartSizeBytes).Header()
				partsDiffer = !psc.Equals(origPSH)
				if bytes.Equal(bzc, bzOrig) {
					o.Stat("same-hash-mutant:same-bytes:" + field)
				} else if !partsDiffer {
					rep.viol(3, "partset-hash-not-binding:"+field, mdesc)
				}
			})

			// (3) F8: the warm executor answers from its cache keyed by the block hash
			var warmErr error
			if rep.guard("panic:ValidateBlock:"+field+atInit, func() string { return mdesc }, func() {
				warmErr = be.ValidateBlock(state, cand)
			}) {
				continue
			}
			if warmErr == nil {
				o.Stat("f8:" + field + ":warm-accepts")
				rep.viol(1, "validate-cache-warm-accepts:"+field,
					fmt.Sprintf("height=%d field=%s cold_err=%q warm=nil same_hash=true parts_hash_differs=%v class=%s %s", height, field, vfbErrText(coldErr), partsDiffer, class, desc))
			} else {
				o.Stat("f8:" + field + ":warm-rejects")
			}
		}

		// ================================================================ (4) wire round trips
		vfGuard(o, "panic:roundtrip", func() string { return desc }, func() {
			vfbRoundTrips(rep, r, desc, chainID, block, bzOrig, keys)
		})

		// ================================================================ (5) database round trip
		vfGuard(o, "panic:db-roundtrip", func() string { return desc }, func() {
			vfbDBRoundTrip(rep, r, desc, chainID, block, bzOrig, vals, keyMap)
		})

		o.Case(fmt.Sprintf("%s/%d", vfHex(origHash[:]), mutCount), len(block.LastCommit().Signatures) > 0)
		if i < 3 {
			o.Sample(fmt.Sprintf("%s hash=%s parts=%d:%s mutants=%d :: %s", desc, vfbShort(origHash), origPSH.Total, vfbShort(origPSH.Hash), mutCount, classes))
		}
	}
}

// vfbRoundTrips: (4) x.ToProto -> Marshal -> Unmarshal -> XFromProto is the identity.
func vfbRoundTrips(rep *vfbReporter, r *vfRand, desc, chainID string, block *types.Block, bzOrig []byte, keys []vfbKey) {
	o := rep.o
	// ---- Block
	{
		pb := new(kproto.Block)
		if err := pb.Unmarshal(bzOrig); err != nil {
			rep.viol(3, "roundtrip:block:unmarshal-error", desc+" err="+vfbErrText(err))
		} else if b2, err := types.BlockFromProto(pb, trie.NewStackTrie(nil)); err != nil {
			rep.viol(3, "roundtrip:block:fromproto-error", desc+" err="+vfbErrText(err))
		} else {
			if b2.Hash() != block.Hash() {
				rep.viol(3, "roundtrip:block:hash", desc)
			}
			if d := vfbDiffBlock(block, b2); d != "" {
				rep.viol(3, "roundtrip:block:field", desc+" field="+d)
			}
			if !bytes.Equal(vfbBlockBytes(b2), bzOrig) {
				rep.viol(3, "roundtrip:block:bytes", desc)
			}
			o.Stat("rt:block")
		}
	}
	// ---- Header
	{
		h := block.Header()
		bz, _ := h.ToProto().Marshal()
		pb := new(kproto.Header)
		if err := pb.Unmarshal(bz); err != nil {
			rep.viol(3, "roundtrip:header:unmarshal-error", desc)
		} else if h2, err := types.HeaderFromProto(pb); err != nil {
			rep.viol(3, "roundtrip:header:fromproto-error", desc+" err="+vfbErrText(err))
		} else {
			if h2.Hash() != h.Hash() || h.Hash() != block.Hash() {
				rep.viol(3, "roundtrip:header:hash", desc)
			}
			if d := vfbDiffHeader(h, &h2); d != "" {
				rep.viol(3, "roundtrip:header:field", desc+" field="+d)
			}
			o.Stat("rt:header")
		}
	}
	// ---- BlockID / PartSetHeader
	for k, bid := range []types.BlockID{block.Header().LastBlockID, vfbRandBlockID(r), {}} {
		pbid := bid.ToProto()
		bz, _ := pbid.Marshal()
		pb := new(kproto.BlockID)
		if err := pb.Unmarshal(bz); err != nil {
			rep.viol(3, "roundtrip:blockid:unmarshal-error", desc)
		} else if b2, err := types.BlockIDFromProto(pb); err != nil {
			rep.viol(3, "roundtrip:blockid:fromproto-error", desc+" err="+vfbErrText(err))
		} else if d := vfbDiffBlockID(bid, *b2); d != "" {
			rep.viol(3, "roundtrip:blockid:field", fmt.Sprintf("%s k=%d field=%s", desc, k, d))
		} else {
			o.Stat("rt:blockid")
		}
		ppsh := bid.PartsHeader.ToProto()
		bz, _ = ppsh.Marshal()
		pp := new(kproto.PartSetHeader)
		if err := pp.Unmarshal(bz); err != nil {
			rep.viol(3, "roundtrip:partsetheader:unmarshal-error", desc)
		} else if p2, err := types.PartSetHeaderFromProto(pp); err != nil {
			rep.viol(3, "roundtrip:partsetheader:fromproto-error", desc+" err="+vfbErrText(err))
		} else if !p2.Equals(bid.PartsHeader) {
			rep.viol(3, "roundtrip:partsetheader:field", fmt.Sprintf("%s k=%d", desc, k))
		} else {
			o.Stat("rt:partsetheader")
		}
	}
	// ---- Commit (fresh structs: Commit.Hash is cached in the struct)
	var votes []*types.Vote
	if c := block.LastCommit(); c != nil {
		fresh := types.NewCommit(c.Height, c.Round, c.BlockID, c.Signatures)
		bz, _ := c.ToProto().Marshal()
		pb := new(kproto.Commit)
		if err := pb.Unmarshal(bz); err != nil {
			rep.viol(3, "roundtrip:commit:unmarshal-error", desc)
		} else if c2, err := types.CommitFromProto(pb); err != nil {
			rep.viol(3, "roundtrip:commit:fromproto-error", desc+" err="+vfbErrText(err))
		} else {
			if c2.Hash() != fresh.Hash() || c2.Hash() != block.Header().LastCommitHash {
				rep.viol(3, "roundtrip:commit:hash", desc)
			}
			if d := vfbDiffCommit(c, c2); d != "" {
				rep.viol(3, "roundtrip:commit:field", desc+" field="+d)
			}
			o.Stat("rt:commit")
		}
		for k := range c.Signatures {
			if !c.Signatures[k].Absent() {
				votes = append(votes, c.GetVote(uint32(k)))
			}
		}
	}
	// ---- evidence
	if evd := block.Evidence(); evd != nil {
		for k, ev := range evd.Evidence {
			if d, ok := ev.(*types.DuplicateVoteEvidence); ok {
				votes = append(votes, d.VoteA, d.VoteB)
			}
			pe, err := types.EvidenceToProto(ev)
			if err != nil {
				rep.viol(3, "roundtrip:evidence:toproto-error", desc)
				continue
			}
			bz, _ := pe.Marshal()
			pb := new(kproto.Evidence)
			if err := pb.Unmarshal(bz); err != nil {
				rep.viol(3, "roundtrip:evidence:unmarshal-error", desc)
			} else if e2, err := types.EvidenceFromProto(pb); err != nil {
				rep.viol(3, "roundtrip:evidence:fromproto-error", desc+" err="+vfbErrText(err))
			} else {
				if e2.Hash() != ev.Hash() {
					rep.viol(3, "roundtrip:evidence:hash", desc)
				}
				if d := vfbDiffEvidence(ev, e2); d != "" {
					rep.viol(3, "roundtrip:evidence:field", fmt.Sprintf("%s k=%d field=%s", desc, k, d))
				}
				o.Stat("rt:evidence")
			}
		}
		pd, err := evd.ToProto()
		if err != nil {
			rep.viol(3, "roundtrip:evidencedata:toproto-error", desc)
		} else {
			bz, _ := pd.Marshal()
			pb := new(kproto.EvidenceData)
			d2 := new(types.EvidenceData)
			if err := pb.Unmarshal(bz); err != nil {
				rep.viol(3, "roundtrip:evidencedata:unmarshal-error", desc)
			} else if err := d2.FromProto(pb); err != nil {
				rep.viol(3, "roundtrip:evidencedata:fromproto-error", desc+" err="+vfbErrText(err))
			} else {
				if d2.Hash() != evd.Evidence.Hash() || d2.Hash() != block.Header().EvidenceHash {
					rep.viol(3, "roundtrip:evidencedata:hash", desc)
				}
				if len(d2.Evidence) != len(evd.Evidence) {
					rep.viol(3, "roundtrip:evidencedata:len", desc)
				}
				o.Stat("rt:evidencedata")
			}
		}
	}
	// ---- Vote (precommits of the last commit, votes inside evidence, one fresh prevote)
	{
		v := &types.Vote{
			ValidatorAddress: keys[0].addr,
			ValidatorIndex:   uint32(r.Intn(4)),
			Height:           block.Height(),
			Round:            uint32(r.Pick(0, 1, 1<<31, 1<<32-1)),
			Timestamp:        vfbTime(r),
			Type:             kproto.PrevoteType,
			Signature:        r.Bytes(65),
		}
		if r.Bool() {
			v.BlockID = vfbRandBlockID(r)
		}
		votes = append(votes, v)
	}
	for k, v := range votes {
		bz, _ := v.ToProto().Marshal()
		pb := new(kproto.Vote)
		if err := pb.Unmarshal(bz); err != nil {
			rep.viol(3, "roundtrip:vote:unmarshal-error", desc)
		} else if v2, err := types.VoteFromProto(pb); err != nil {
			rep.viol(3, "roundtrip:vote:fromproto-error", fmt.Sprintf("%s k=%d err=%s", desc, k, vfbErrText(err)))
		} else {
			if d := vfbDiffVote(v, v2); d != "" {
				rep.viol(3, "roundtrip:vote:field", fmt.Sprintf("%s k=%d field=%s", desc, k, d))
			}
			if !bytes.Equal(types.VoteSignBytes(chainID, v.ToProto()), types.VoteSignBytes(chainID, v2.ToProto())) {
				rep.viol(3, "roundtrip:vote:signbytes", fmt.Sprintf("%s k=%d", desc, k))
			}
			o.Stat("rt:vote")
		}
	}
	// ---- Proposal
	{
		ps := block.MakePartSet(types.BlockPartSizeBytes)
		p := &types.Proposal{
			Height:     block.Height(),
			Round:      uint32(r.Pick(0, 1, 2, 1<<31)),
			POLRound:   uint32(r.Pick(0, 1, 1<<32-1)),
			Timestamp:  vfbTime(r),
			POLBlockID: types.BlockID{Hash: block.Hash(), PartsHeader: ps.Header()},
		}
		pp := p.ToProto()
		if r.Chance(25) {
			sig, err := crypto.Sign(crypto.Keccak256(types.ProposalSignBytes(chainID, pp)), keys[0].priv)
			if err == nil {
				p.Signature = sig
			}
		}
		if len(p.Signature) == 0 {
			p.Signature = r.Bytes(65)
		}
		bz, _ := p.ToProto().Marshal()
		pb := new(kproto.Proposal)
		if err := pb.Unmarshal(bz); err != nil {
			rep.viol(3, "roundtrip:proposal:unmarshal-error", desc)
		} else if p2, err := types.ProposalFromProto(pb); err != nil {
			rep.viol(3, "roundtrip:proposal:fromproto-error", desc+" err="+vfbErrText(err))
		} else {
			if d := vfbDiffProposal(p, p2); d != "" {
				rep.viol(3, "roundtrip:proposal:field", desc+" field="+d)
			}
			if !bytes.Equal(types.ProposalSignBytes(chainID, p.ToProto()), types.ProposalSignBytes(chainID, p2.ToProto())) {
				rep.viol(3, "roundtrip:proposal:signbytes", desc)
			}
			o.Stat("rt:proposal")
		}
	}
	// ---- Parts and reassembly (parts go through the wire, arrive in random order)
	for _, size := range []uint32{types.BlockPartSizeBytes, uint32(r.Pick(64, 100, 257))} {
		ps := block.MakePartSet(size)
		hdr := ps.Header()
		total := int(ps.Total())
		if total > 1 {
			o.Stat("rt:partset:multi")
		} else {
			o.Stat("rt:partset:single")
		}
		ps2 := types.NewPartSetFromHeader(hdr)
		order := make([]int, total)
		for k := range order {
			order[k] = k
		}
		for k := total - 1; k > 0; k-- {
			j := r.Intn(k + 1)
			order[k], order[j] = order[j], order[k]
		}
		ok := true
		for _, idx := range order {
			part := ps.GetPart(idx)
			pp, err := part.ToProto()
			if err != nil {
				rep.viol(3, "roundtrip:part:toproto-error", desc)
				ok = false
				break
			}
			bz, _ := pp.Marshal()
			pb := new(kproto.Part)
			if err := pb.Unmarshal(bz); err != nil {
				rep.viol(3, "roundtrip:part:unmarshal-error", desc)
				ok = false
				break
			}
			part2, err := types.PartFromProto(pb)
			if err != nil {
				rep.viol(3, "roundtrip:part:fromproto-error", fmt.Sprintf("%s size=%d idx=%d err=%s", desc, size, idx, vfbErrText(err)))
				ok = false
				break
			}
			if d := vfbDiffPart(part, part2); d != "" {
				rep.viol(3, "roundtrip:part:field", fmt.Sprintf("%s size=%d idx=%d field=%s", desc, size, idx, d))
			}
			added, err := ps2.AddPart(part2)
			if !added || err != nil {
				rep.viol(3, "roundtrip:part:not-accepted-by-partset", fmt.Sprintf("%s size=%d idx=%d added=%v err=%s", desc, size, idx, added, vfbErrText(err)))
				ok = false
				break
			}
			o.Stat("rt:part")
		}
		if !ok {
			continue
		}
		if !ps2.IsComplete() {
			rep.viol(3, "reassembled-block-differs", fmt.Sprintf("%s size=%d incomplete", desc, size))
			continue
		}
		bz, err := io.ReadAll(ps2.GetReader())
		if err != nil {
			rep.viol(3, "reassembled-block-differs", fmt.Sprintf("%s size=%d read err=%s", desc, size, vfbErrText(err)))
			continue
		}
		pb := new(kproto.Block)
		if err := pb.Unmarshal(bz); err != nil {
			rep.viol(3, "reassembled-block-differs", fmt.Sprintf("%s size=%d unmarshal err=%s", desc, size, vfbErrText(err)))
			continue
		}
		b2, err := types.BlockFromProto(pb, trie.NewStackTrie(nil))
		if err != nil {
			rep.viol(3, "reassembled-block-differs", fmt.Sprintf("%s size=%d fromproto err=%s", desc, size, vfbErrText(err)))
			continue
		}
		if b2.Hash() != block.Hash() || !bytes.Equal(bz, bzOrig) || !bytes.Equal(vfbBlockBytes(b2), bzOrig) {
			rep.viol(3, "reassembled-block-differs", fmt.Sprintf("%s size=%d", desc, size))
		}
		if h2 := b2.MakePartSet(size).Header(); !h2.Equals(hdr) {
			rep.viol(3, "reassembled-block-differs", fmt.Sprintf("%s size=%d part-set header differs", desc, size))
		}
		o.Stat("rt:reassembled")
	}
}

// vfbDBRoundTrip: (5) WriteBlock followed by the Read* accessors gives back the same data.
func vfbDBRoundTrip(rep *vfbReporter, r *vfRand, desc, chainID string, block *types.Block, bzOrig []byte, vals *types.ValidatorSet, keys vfbKeyMap) {
	o := rep.o
	db := memorydb.New()
	size := uint32(r.Pick(types.BlockPartSizeBytes, types.BlockPartSizeBytes, 100, 1000))
	ps := block.MakePartSet(size)
	height := block.Height()
	bid := types.BlockID{Hash: block.Hash(), PartsHeader: ps.Header()}
	seen, _ := vfbMakeCommit(r, chainID, height, uint32(r.Intn(3)), bid, vals, keys, block.Time())
	rawdb.WriteBlock(db, block, ps, seen)

	b2 := rawdb.ReadBlock(db, height)
	if b2 == nil {
		rep.viol(3, "db-roundtrip:block-missing", desc)
	} else {
		if b2.Hash() != block.Hash() {
			rep.viol(3, "db-roundtrip:block-hash", desc)
		}
		if !bytes.Equal(vfbBlockBytes(b2), bzOrig) {
			rep.viol(3, "db-roundtrip:block-bytes", desc)
		}
		if d := vfbDiffBlock(block, b2); d != "" {
			rep.viol(3, "db-roundtrip:block-field", desc+" field="+d)
		}
	}
	meta := rawdb.ReadBlockMeta(db, height)
	if meta == nil {
		rep.viol(3, "db-roundtrip:meta-missing", desc)
	} else {
		if !meta.BlockID.Equal(bid) {
			rep.viol(3, "db-roundtrip:meta-blockid", desc)
		}
		if meta.Header == nil || meta.Header.Hash() != block.Hash() || vfbDiffHeader(meta.Header, block.Header()) != "" {
			rep.viol(3, "db-roundtrip:meta-header", desc)
		}
	}
	if h := rawdb.ReadHeader(db, height); h == nil || h.Hash() != block.Hash() {
		rep.viol(3, "db-roundtrip:header", desc)
	}
	for k := 0; k < int(ps.Total()); k++ {
		p2 := rawdb.ReadBlockPart(db, height, k)
		if d := vfbDiffPart(ps.GetPart(k), p2); d != "" {
			rep.viol(3, "db-roundtrip:part", fmt.Sprintf("%s size=%d idx=%d field=%s", desc, size, k, d))
		}
	}
	if ps.Total() > 1 {
		o.Stat("db:parts:multi")
	} else {
		o.Stat("db:parts:single")
	}
	if c2 := rawdb.ReadSeenCommit(db, height); c2 == nil {
		rep.viol(3, "db-roundtrip:seen-commit-missing", desc)
	} else if d := vfbDiffCommit(seen, c2); d != "" {
		rep.viol(3, "db-roundtrip:seen-commit", desc+" field="+d)
	}
	c3 := rawdb.ReadCommit(db, height-1)
	lc := block.LastCommit()
	if c3 == nil {
		rep.viol(3, "db-roundtrip:last-commit-missing", desc)
	} else {
		if d := vfbDiffCommit(lc, c3); d != "" {
			rep.viol(3, "db-roundtrip:last-commit", desc+" field="+d)
		}
		if c3.Hash() != block.Header().LastCommitHash {
			rep.viol(3, "db-roundtrip:last-commit-hash", desc)
		}
	}
	o.Stat("db:roundtrip")
}
