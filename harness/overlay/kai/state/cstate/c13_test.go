package cstate

// C13 harness (block level): "blocks are tamper-evident".
//
// Every case builds a chain state by hand (1-4 validators with real keys, a real last commit
// signed by the last validators, 0-5 transactions, 0-2 pieces of duplicate-vote evidence) and a
// block that the real `validateBlock` accepts (non-vacuity).  The oracle then
//   (2) applies ONE mutation to the protobuf form of the block, sends it through the wire
//       (Marshal -> Unmarshal -> BlockFromProto) and requires: decode rejected, or block hash
//       changed, or validation against the chain state fails (cold, no cache);
//   (3) replays every same-hash mutant against a BlockExecutor whose validation cache was warmed
//       with the genuine block (finding F8: the cache is keyed by the header hash only);
//   (4) round-trips Block, Header, Commit, Vote, Proposal, Part, BlockID, PartSetHeader and
//       evidence through their wire encodings and reassembles the block from its parts;
//   (5) round-trips the block, its parts, its meta and its commits through the database.
//
//   (6) recomputes every commitment the header carries with an INDEPENDENT reference (tx root: a
//       go-ethereum trie filled in random order from the wire bytes; last-commit hash, evidence
//       hash, validator-set hashes: an own RFC-6962/SHA-256 Merkle tree over the wire records;
//       block hash: x/crypto Keccak over a hand-built protobuf header; block time: an own weighted
//       median) — proposer and validator call the same helpers, so a helper that silently ignores
//       an item is self-consistent and invisible to (2) unless exactly that item is mutated;
//   (7) mutates the tx / commit-signature / evidence lists at every boundary index (first, second,
//       last, last-1, 126..129, 254..257, two random): replace / drop / swap / duplicate; lists of
//       0..257 transactions, 1..33 signatures, 0..17 pieces of evidence are generated regularly.
//
// The harness lives in package cstate (not types) because package trie imports types and the
// unexported validateBlock is needed.

import (
	"bytes"
	"crypto/ecdsa"
	"crypto/sha256"
	"fmt"
	"io"
	"math/big"
	"sort"
	"testing"
	"time"

	gethrlp "github.com/ethereum/go-ethereum/rlp"
	gethtrie "github.com/ethereum/go-ethereum/trie"
	"golang.org/x/crypto/sha3"

	"github.com/kardiachain/go-kardia/configs"
	"github.com/kardiachain/go-kardia/kai/kaidb/memorydb"
	"github.com/kardiachain/go-kardia/kai/rawdb"
	"github.com/kardiachain/go-kardia/lib/common"
	"github.com/kardiachain/go-kardia/lib/crypto"
	"github.com/kardiachain/go-kardia/lib/log"
	kproto "github.com/kardiachain/go-kardia/proto/kardiachain/types"
	"github.com/kardiachain/go-kardia/trie"
	"github.com/kardiachain/go-kardia/types"
)

// ---------------------------------------------------------------------------------------------
// generators

type vfbKey struct {
	priv *ecdsa.PrivateKey
	addr common.Address
}

func vfbGenKey(r *vfRand) vfbKey {
	for {
		k, err := crypto.ToECDSA(r.Bytes(32))
		if err == nil {
			return vfbKey{priv: k, addr: crypto.PubkeyToAddress(k.PublicKey)}
		}
	}
}

type vfbKeyMap map[common.Address]*ecdsa.PrivateKey

func vfbValSet(r *vfRand, keys []vfbKey, equalPower bool) *types.ValidatorSet {
	vals := make([]*types.Validator, len(keys))
	for i, k := range keys {
		p := int64(10)
		if !equalPower {
			p = int64(1 + r.Intn(20))
		}
		vals[i] = types.NewValidator(k.addr, p)
	}
	return types.NewValidatorSet(vals)
}

func vfbTime(r *vfRand) time.Time {
	// 2021-01-01 .. ~2031, with or without a nanosecond part
	sec := int64(1609459200) + int64(r.Intn(315360000))
	nsec := int64(0)
	if r.Chance(70) {
		nsec = int64(r.Intn(1000000000))
	}
	return time.Unix(sec, nsec).UTC()
}

func vfbRandHash(r *vfRand) common.Hash { return common.BytesToHash(r.Bytes(32)) }

func vfbRandBlockID(r *vfRand) types.BlockID {
	return types.BlockID{
		Hash:        vfbRandHash(r),
		PartsHeader: types.PartSetHeader{Total: uint32(1 + r.Intn(5)), Hash: vfbRandHash(r)},
	}
}

func vfbSignVote(chainID string, v *types.Vote, k *ecdsa.PrivateKey) {
	sb := types.VoteSignBytes(chainID, v.ToProto())
	sig, err := crypto.Sign(crypto.Keccak256(sb), k)
	if err != nil {
		panic(err)
	}
	v.Signature = sig
}

// vfbMakeCommit builds a commit for blockID at (height, round) signed by the validators of vs in
// set order; some signatures are absent or for nil, but more than 2/3 of the power commits.
func vfbMakeCommit(r *vfRand, chainID string, height uint64, round uint32, blockID types.BlockID,
	vs *types.ValidatorSet, keys vfbKeyMap, after time.Time) (*types.Commit, string) {
	n := vs.Size()
	flags := make([]types.BlockIDFlag, n)
	tallied := int64(0)
	for i, val := range vs.Validators {
		switch r.Intn(8) {
		case 0:
			flags[i] = types.BlockIDFlagAbsent
		case 1:
			flags[i] = types.BlockIDFlagNil
		default:
			flags[i] = types.BlockIDFlagCommit
			tallied += val.VotingPower
		}
	}
	if tallied <= vs.TotalVotingPower()*2/3 {
		for i := range flags {
			flags[i] = types.BlockIDFlagCommit
		}
	}
	shape := ""
	sameTime := r.Chance(20)
	common0 := after.Add(time.Duration(1+r.Intn(5000)) * time.Millisecond)
	sigs := make([]types.CommitSig, n)
	for i, val := range vs.Validators {
		if flags[i] == types.BlockIDFlagAbsent {
			sigs[i] = types.NewCommitSigAbsent()
			shape += "a"
			continue
		}
		ts := common0
		if !sameTime {
			ts = after.Add(time.Duration(1+r.Intn(5000))*time.Millisecond + time.Duration(r.Intn(1000000)))
		}
		bid := blockID
		if flags[i] == types.BlockIDFlagNil {
			bid = types.BlockID{}
			shape += "n"
		} else {
			shape += "c"
		}
		v := &types.Vote{
			ValidatorAddress: val.Address,
			ValidatorIndex:   uint32(i),
			Height:           height,
			Round:            round,
			Timestamp:        ts,
			Type:             kproto.PrecommitType,
			BlockID:          bid,
		}
		vfbSignVote(chainID, v, keys[val.Address])
		sigs[i] = v.CommitSig()
	}
	return types.NewCommit(height, round, blockID, sigs), shape
}

func vfbGenTx(r *vfRand, keys []vfbKey) *types.Transaction {
	amount := new(big.Int).SetBytes(r.Bytes(r.Intn(12)))
	price := big.NewInt(int64(r.Intn(1000)))
	data := r.Bytes(r.Pick(0, 0, 4, 36, 100))
	nonce := uint64(r.Intn(5))
	gas := uint64(21000 + r.Intn(100000))
	var tx *types.Transaction
	if r.Chance(15) {
		tx = types.NewContractCreation(nonce, amount, gas, price, data)
	} else {
		tx = types.NewTransaction(nonce, common.BytesToAddress(r.Bytes(20)), amount, gas, price, data)
	}
	if r.Chance(30) {
		if signed, err := types.SignTx(types.HomesteadSigner{}, tx, keys[r.Intn(len(keys))].priv); err == nil {
			tx = signed
		}
	}
	return tx
}

func vfbGenEvidence(r *vfRand, chainID string, height uint64, vs *types.ValidatorSet, keys vfbKeyMap, evTime time.Time) *types.DuplicateVoteEvidence {
	idx := r.Intn(vs.Size())
	val := vs.Validators[idx]
	typ := kproto.PrevoteType
	if r.Bool() {
		typ = kproto.PrecommitType
	}
	round := uint32(r.Intn(4))
	ts := vfbTime(r)
	mk := func() *types.Vote {
		v := &types.Vote{
			ValidatorAddress: val.Address,
			ValidatorIndex:   uint32(idx),
			Height:           height,
			Round:            round,
			Timestamp:        ts,
			Type:             typ,
			BlockID:          vfbRandBlockID(r),
		}
		vfbSignVote(chainID, v, keys[val.Address])
		return v
	}
	return types.NewDuplicateVoteEvidence(mk(), mk(), evTime, vs)
}

// no-op evidence pool: evidence is bound to the block through Header.EvidenceHash only.
type vfbEvPool struct{}

func (vfbEvPool) Update(LatestBlockState, types.EvidenceList)   {}
func (vfbEvPool) CheckEvidence(evList types.EvidenceList) error { return nil }

// ---------------------------------------------------------------------------------------------
// field-wise comparison helpers ("" = equal, otherwise the first differing field)

func vfbDiffBlockID(a, b types.BlockID) string {
	if a.Hash != b.Hash {
		return "hash"
	}
	if a.PartsHeader.Total != b.PartsHeader.Total {
		return "parts.total"
	}
	if a.PartsHeader.Hash != b.PartsHeader.Hash {
		return "parts.hash"
	}
	return ""
}

func vfbDiffHeader(a, b *types.Header) string {
	switch {
	case a == nil || b == nil:
		if a == b {
			return ""
		}
		return "nil"
	case a.Height != b.Height:
		return "height"
	case !a.Time.Equal(b.Time):
		return "time"
	case a.NumTxs != b.NumTxs:
		return "num_txs"
	case a.GasLimit != b.GasLimit:
		return "gas_limit"
	case vfbDiffBlockID(a.LastBlockID, b.LastBlockID) != "":
		return "last_block_id." + vfbDiffBlockID(a.LastBlockID, b.LastBlockID)
	case a.ProposerAddress != b.ProposerAddress:
		return "proposer_address"
	case a.LastCommitHash != b.LastCommitHash:
		return "last_commit_hash"
	case a.TxHash != b.TxHash:
		return "data_hash"
	case a.ValidatorsHash != b.ValidatorsHash:
		return "validators_hash"
	case a.NextValidatorsHash != b.NextValidatorsHash:
		return "next_validators_hash"
	case a.ConsensusHash != b.ConsensusHash:
		return "consensus_hash"
	case a.AppHash != b.AppHash:
		return "app_hash"
	case a.EvidenceHash != b.EvidenceHash:
		return "evidence_hash"
	}
	return ""
}

func vfbDiffCommit(a, b *types.Commit) string {
	if a == nil || b == nil {
		if a == b {
			return ""
		}
		return "nil"
	}
	if a.Height != b.Height {
		return "height"
	}
	if a.Round != b.Round {
		return "round"
	}
	if d := vfbDiffBlockID(a.BlockID, b.BlockID); d != "" {
		return "block_id." + d
	}
	if len(a.Signatures) != len(b.Signatures) {
		return "signatures.len"
	}
	for i := range a.Signatures {
		x, y := a.Signatures[i], b.Signatures[i]
		switch {
		case x.BlockIDFlag != y.BlockIDFlag:
			return fmt.Sprintf("sig%d.flag", i)
		case x.ValidatorAddress != y.ValidatorAddress:
			return fmt.Sprintf("sig%d.validator_address", i)
		case !x.Timestamp.Equal(y.Timestamp):
			return fmt.Sprintf("sig%d.timestamp", i)
		case !bytes.Equal(x.Signature, y.Signature):
			return fmt.Sprintf("sig%d.signature", i)
		}
	}
	return ""
}

func vfbDiffVote(a, b *types.Vote) string {
	switch {
	case a == nil || b == nil:
		if a == b {
			return ""
		}
		return "nil"
	case a.ValidatorAddress != b.ValidatorAddress:
		return "validator_address"
	case a.ValidatorIndex != b.ValidatorIndex:
		return "validator_index"
	case a.Height != b.Height:
		return "height"
	case a.Round != b.Round:
		return "round"
	case !a.Timestamp.Equal(b.Timestamp):
		return "timestamp"
	case a.Type != b.Type:
		return "type"
	case vfbDiffBlockID(a.BlockID, b.BlockID) != "":
		return "block_id." + vfbDiffBlockID(a.BlockID, b.BlockID)
	case !bytes.Equal(a.Signature, b.Signature):
		return "signature"
	}
	return ""
}

func vfbDiffProposal(a, b *types.Proposal) string {
	switch {
	case a.Height != b.Height:
		return "height"
	case a.Round != b.Round:
		return "round"
	case a.POLRound != b.POLRound:
		return "pol_round"
	case !a.Timestamp.Equal(b.Timestamp):
		return "timestamp"
	case vfbDiffBlockID(a.POLBlockID, b.POLBlockID) != "":
		return "block_id." + vfbDiffBlockID(a.POLBlockID, b.POLBlockID)
	case !bytes.Equal(a.Signature, b.Signature):
		return "signature"
	}
	return ""
}

func vfbDiffEvidence(a, b types.Evidence) string {
	x, ok1 := a.(*types.DuplicateVoteEvidence)
	y, ok2 := b.(*types.DuplicateVoteEvidence)
	if !ok1 || !ok2 {
		return "type"
	}
	switch {
	case vfbDiffVote(x.VoteA, y.VoteA) != "":
		return "vote_a." + vfbDiffVote(x.VoteA, y.VoteA)
	case vfbDiffVote(x.VoteB, y.VoteB) != "":
		return "vote_b." + vfbDiffVote(x.VoteB, y.VoteB)
	case x.TotalVotingPower != y.TotalVotingPower:
		return "total_voting_power"
	case x.ValidatorPower != y.ValidatorPower:
		return "validator_power"
	case !x.Timestamp.Equal(y.Timestamp):
		return "timestamp"
	}
	return ""
}

func vfbTxBytes(tx *types.Transaction) []byte {
	bz, err := tx.MarshalBinary()
	if err != nil {
		return nil
	}
	return bz
}

func vfbDiffBlock(a, b *types.Block) string {
	if d := vfbDiffHeader(a.Header(), b.Header()); d != "" {
		return "header." + d
	}
	ta, tb := a.Transactions(), b.Transactions()
	if len(ta) != len(tb) {
		return "txs.len"
	}
	for i := range ta {
		if ta[i].Hash() != tb[i].Hash() || !bytes.Equal(vfbTxBytes(ta[i]), vfbTxBytes(tb[i])) {
			return fmt.Sprintf("tx%d", i)
		}
	}
	if d := vfbDiffCommit(a.LastCommit(), b.LastCommit()); d != "" {
		return "last_commit." + d
	}
	var ea, eb types.EvidenceList
	if a.Evidence() != nil {
		ea = a.Evidence().Evidence
	}
	if b.Evidence() != nil {
		eb = b.Evidence().Evidence
	}
	if len(ea) != len(eb) {
		return "evidence.len"
	}
	for i := range ea {
		if d := vfbDiffEvidence(ea[i], eb[i]); d != "" {
			return fmt.Sprintf("evidence%d.%s", i, d)
		}
	}
	return ""
}

func vfbDiffPart(a, b *types.Part) string {
	switch {
	case a == nil || b == nil:
		if a == b {
			return ""
		}
		return "nil"
	case a.Index != b.Index:
		return "index"
	case !bytes.Equal(a.Bytes, b.Bytes):
		return "bytes"
	case a.Proof.Total != b.Proof.Total:
		return "proof.total"
	case a.Proof.Index != b.Proof.Index:
		return "proof.index"
	case !bytes.Equal(a.Proof.LeafHash, b.Proof.LeafHash):
		return "proof.leaf_hash"
	case len(a.Proof.Aunts) != len(b.Proof.Aunts):
		return "proof.aunts.len"
	}
	for i := range a.Proof.Aunts {
		if !bytes.Equal(a.Proof.Aunts[i], b.Proof.Aunts[i]) {
			return "proof.aunts"
		}
	}
	return ""
}

func vfbBlockBytes(b *types.Block) []byte {
	pb, err := b.ToProto()
	if err != nil {
		return nil
	}
	bz, err := pb.Marshal()
	if err != nil {
		return nil
	}
	return bz
}

// ---------------------------------------------------------------------------------------------
// mutations of the protobuf form

type vfbMutCtx struct {
	r         *vfRand
	extraTx   []byte           // a fresh valid transaction
	extraEv   *kproto.Evidence // a fresh valid piece of evidence (nil when the case has no keys for it)
	otherAddr []byte           // address of another validator of the current set (nil if there is only one)
}

type vfbMutation struct {
	field string
	apply func(pb *kproto.Block, c *vfbMutCtx) bool // false: not applicable / no-op for this block
}

func vfbFlip(b []byte, r *vfRand, size int) []byte {
	if len(b) == 0 {
		b = make([]byte, size)
	}
	c := append([]byte{}, b...)
	c[r.Intn(len(c))] ^= byte(1 << uint(r.Intn(8)))
	return c
}

func vfbHasSigs(pb *kproto.Block) bool { return pb.LastCommit != nil && len(pb.LastCommit.Signatures) > 0 }

// vfbPickSig returns the index of a random signature with one of the wanted flags, or -1.
func vfbPickSig(pb *kproto.Block, r *vfRand, want ...kproto.BlockIDFlag) int {
	if !vfbHasSigs(pb) {
		return -1
	}
	var idx []int
	for i, s := range pb.LastCommit.Signatures {
		for _, w := range want {
			if s.BlockIdFlag == w {
				idx = append(idx, i)
			}
		}
	}
	if len(idx) == 0 {
		return -1
	}
	return idx[r.Intn(len(idx))]
}

func vfbEvOf(pb *kproto.Block, i int) *kproto.DuplicateVoteEvidence {
	if s, ok := pb.Evidence.Evidence[i].Sum.(*kproto.Evidence_DuplicateVoteEvidence); ok {
		return s.DuplicateVoteEvidence
	}
	return nil
}

func vfbCloneEv(e *kproto.Evidence) kproto.Evidence {
	bz, _ := e.Marshal()
	var out kproto.Evidence
	_ = out.Unmarshal(bz)
	return out
}

func vfbHashMut(field string, get func(h *kproto.Header) *[]byte) vfbMutation {
	return vfbMutation{field, func(pb *kproto.Block, c *vfbMutCtx) bool {
		p := get(&pb.Header)
		*p = vfbFlip(*p, c.r, 32)
		return true
	}}
}

func vfbMutations() []vfbMutation {
	signed := []kproto.BlockIDFlag{kproto.BlockIDFlagCommit, kproto.BlockIDFlagNil}
	return []vfbMutation{
		// ---- header
		{"height", func(pb *kproto.Block, c *vfbMutCtx) bool {
			switch c.r.Intn(3) {
			case 0:
				pb.Header.Height++
			case 1:
				pb.Header.Height--
			default:
				pb.Header.Height ^= 1 << uint(c.r.Intn(64))
			}
			return true
		}},
		{"time.nsec", func(pb *kproto.Block, c *vfbMutCtx) bool { pb.Header.Time = pb.Header.Time.Add(1); return true }},
		{"time.sec", func(pb *kproto.Block, c *vfbMutCtx) bool {
			pb.Header.Time = pb.Header.Time.Add(time.Second)
			return true
		}},
		{"num_txs", func(pb *kproto.Block, c *vfbMutCtx) bool {
			if c.r.Bool() || pb.Header.NumTxs == 0 {
				pb.Header.NumTxs++
			} else {
				pb.Header.NumTxs--
			}
			return true
		}},
		{"gas_limit", func(pb *kproto.Block, c *vfbMutCtx) bool {
			pb.Header.GasLimit ^= 1 << uint(c.r.Intn(64))
			return true
		}},
		{"last_block_id.hash", func(pb *kproto.Block, c *vfbMutCtx) bool {
			pb.Header.LastBlockId.Hash = vfbFlip(pb.Header.LastBlockId.Hash, c.r, 32)
			return true
		}},
		{"last_block_id.parts.total", func(pb *kproto.Block, c *vfbMutCtx) bool {
			pb.Header.LastBlockId.PartSetHeader.Total++
			return true
		}},
		{"last_block_id.parts.hash", func(pb *kproto.Block, c *vfbMutCtx) bool {
			pb.Header.LastBlockId.PartSetHeader.Hash = vfbFlip(pb.Header.LastBlockId.PartSetHeader.Hash, c.r, 32)
			return true
		}},
		{"proposer_address", func(pb *kproto.Block, c *vfbMutCtx) bool {
			if c.otherAddr != nil && c.r.Bool() {
				pb.Header.ProposerAddress = append([]byte{}, c.otherAddr...) // another genuine validator
			} else {
				pb.Header.ProposerAddress = vfbFlip(pb.Header.ProposerAddress, c.r, 20)
			}
			return true
		}},
		vfbHashMut("last_commit_hash", func(h *kproto.Header) *[]byte { return &h.LastCommitHash }),
		vfbHashMut("data_hash", func(h *kproto.Header) *[]byte { return &h.DataHash }),
		vfbHashMut("validators_hash", func(h *kproto.Header) *[]byte { return &h.ValidatorsHash }),
		vfbHashMut("next_validators_hash", func(h *kproto.Header) *[]byte { return &h.NextValidatorsHash }),
		vfbHashMut("consensus_hash", func(h *kproto.Header) *[]byte { return &h.ConsensusHash }),
		vfbHashMut("app_hash", func(h *kproto.Header) *[]byte { return &h.AppHash }),
		vfbHashMut("evidence_hash", func(h *kproto.Header) *[]byte { return &h.EvidenceHash }),
		// a wire field that types.Header does not have: must not produce a different block
		{"wire.chain_id", func(pb *kproto.Block, c *vfbMutCtx) bool { pb.Header.ChainID = "x"; return true }},

		// ---- transactions
		{"tx.drop", func(pb *kproto.Block, c *vfbMutCtx) bool {
			n := len(pb.Data.Txs)
			if n == 0 {
				return false
			}
			i := c.r.Intn(n)
			pb.Data.Txs = append(append([][]byte{}, pb.Data.Txs[:i]...), pb.Data.Txs[i+1:]...)
			return true
		}},
		{"tx.dup", func(pb *kproto.Block, c *vfbMutCtx) bool {
			n := len(pb.Data.Txs)
			if n == 0 {
				return false
			}
			i := c.r.Intn(n)
			out := append([][]byte{}, pb.Data.Txs[:i+1]...)
			out = append(out, pb.Data.Txs[i])
			pb.Data.Txs = append(out, pb.Data.Txs[i+1:]...)
			return true
		}},
		{"tx.swap", func(pb *kproto.Block, c *vfbMutCtx) bool {
			n := len(pb.Data.Txs)
			if n < 2 {
				return false
			}
			i := c.r.Intn(n)
			for d := 1; d < n; d++ {
				j := (i + d) % n
				if !bytes.Equal(pb.Data.Txs[i], pb.Data.Txs[j]) {
					pb.Data.Txs[i], pb.Data.Txs[j] = pb.Data.Txs[j], pb.Data.Txs[i]
					return true
				}
			}
			return false
		}},
		{"tx.flip", func(pb *kproto.Block, c *vfbMutCtx) bool {
			n := len(pb.Data.Txs)
			if n == 0 {
				return false
			}
			i := c.r.Intn(n)
			pb.Data.Txs[i] = vfbFlip(pb.Data.Txs[i], c.r, 1)
			return true
		}},
		{"tx.append", func(pb *kproto.Block, c *vfbMutCtx) bool {
			pb.Data.Txs = append(pb.Data.Txs, c.extraTx)
			return true
		}},

		// ---- last commit: one signature
		{"sig.flag.nil", func(pb *kproto.Block, c *vfbMutCtx) bool {
			i := vfbPickSig(pb, c.r, kproto.BlockIDFlagCommit)
			if i < 0 {
				return false
			}
			pb.LastCommit.Signatures[i].BlockIdFlag = kproto.BlockIDFlagNil
			return true
		}},
		{"sig.flag.absent", func(pb *kproto.Block, c *vfbMutCtx) bool {
			i := vfbPickSig(pb, c.r, kproto.BlockIDFlagCommit)
			if i < 0 {
				return false
			}
			if c.r.Bool() {
				pb.LastCommit.Signatures[i].BlockIdFlag = kproto.BlockIDFlagAbsent // fields kept
			} else {
				pb.LastCommit.Signatures[i] = kproto.CommitSig{BlockIdFlag: kproto.BlockIDFlagAbsent}
			}
			return true
		}},
		{"sig.validator_address", func(pb *kproto.Block, c *vfbMutCtx) bool {
			i := vfbPickSig(pb, c.r, signed...)
			if i < 0 {
				return false
			}
			s := &pb.LastCommit.Signatures[i]
			s.ValidatorAddress = vfbFlip(s.ValidatorAddress, c.r, 20)
			return true
		}},
		{"sig.timestamp", func(pb *kproto.Block, c *vfbMutCtx) bool {
			i := vfbPickSig(pb, c.r, signed...)
			if i < 0 {
				return false
			}
			s := &pb.LastCommit.Signatures[i]
			if c.r.Bool() {
				s.Timestamp = s.Timestamp.Add(1)
			} else {
				s.Timestamp = s.Timestamp.Add(-time.Second)
			}
			return true
		}},
		{"sig.signature.flip", func(pb *kproto.Block, c *vfbMutCtx) bool {
			i := vfbPickSig(pb, c.r, signed...)
			if i < 0 {
				return false
			}
			s := &pb.LastCommit.Signatures[i]
			s.Signature = vfbFlip(s.Signature, c.r, 65)
			return true
		}},
		{"sig.signature.trunc", func(pb *kproto.Block, c *vfbMutCtx) bool {
			i := vfbPickSig(pb, c.r, signed...)
			if i < 0 {
				return false
			}
			s := &pb.LastCommit.Signatures[i]
			if len(s.Signature) == 0 {
				return false
			}
			s.Signature = append([]byte{}, s.Signature[:c.r.Intn(len(s.Signature))]...)
			return true
		}},
		// ---- last commit: the list
		{"sig.drop", func(pb *kproto.Block, c *vfbMutCtx) bool {
			if !vfbHasSigs(pb) {
				return false
			}
			s := pb.LastCommit.Signatures
			i := c.r.Intn(len(s))
			pb.LastCommit.Signatures = append(append([]kproto.CommitSig{}, s[:i]...), s[i+1:]...)
			return true
		}},
		{"sig.swap", func(pb *kproto.Block, c *vfbMutCtx) bool {
			if !vfbHasSigs(pb) || len(pb.LastCommit.Signatures) < 2 {
				return false
			}
			s := pb.LastCommit.Signatures
			n := len(s)
			i := c.r.Intn(n)
			for d := 1; d < n; d++ {
				j := (i + d) % n
				a, _ := s[i].Marshal()
				b, _ := s[j].Marshal()
				if !bytes.Equal(a, b) {
					s[i], s[j] = s[j], s[i]
					return true
				}
			}
			return false
		}},
		{"sig.append", func(pb *kproto.Block, c *vfbMutCtx) bool {
			if pb.LastCommit == nil {
				return false
			}
			if vfbHasSigs(pb) && c.r.Bool() {
				s := pb.LastCommit.Signatures
				pb.LastCommit.Signatures = append(s, s[c.r.Intn(len(s))])
			} else {
				pb.LastCommit.Signatures = append(pb.LastCommit.Signatures, kproto.CommitSig{BlockIdFlag: kproto.BlockIDFlagAbsent})
			}
			return true
		}},
		// ---- last commit: the fields Commit.Hash does not cover
		{"commit.height", func(pb *kproto.Block, c *vfbMutCtx) bool {
			if pb.LastCommit == nil {
				return false
			}
			if c.r.Bool() || pb.LastCommit.Height == 0 {
				pb.LastCommit.Height++
			} else {
				pb.LastCommit.Height--
			}
			return true
		}},
		{"commit.round", func(pb *kproto.Block, c *vfbMutCtx) bool {
			if pb.LastCommit == nil {
				return false
			}
			pb.LastCommit.Round += uint32(c.r.Pick(1, 7))
			return true
		}},
		{"commit.block_id.hash", func(pb *kproto.Block, c *vfbMutCtx) bool {
			if pb.LastCommit == nil {
				return false
			}
			pb.LastCommit.BlockID.Hash = vfbFlip(pb.LastCommit.BlockID.Hash, c.r, 32)
			return true
		}},
		{"commit.block_id.parts.total", func(pb *kproto.Block, c *vfbMutCtx) bool {
			if pb.LastCommit == nil {
				return false
			}
			pb.LastCommit.BlockID.PartSetHeader.Total++
			return true
		}},
		{"commit.block_id.parts.hash", func(pb *kproto.Block, c *vfbMutCtx) bool {
			if pb.LastCommit == nil {
				return false
			}
			pb.LastCommit.BlockID.PartSetHeader.Hash = vfbFlip(pb.LastCommit.BlockID.PartSetHeader.Hash, c.r, 32)
			return true
		}},
		{"last_commit.nil", func(pb *kproto.Block, c *vfbMutCtx) bool {
			if pb.LastCommit == nil {
				return false
			}
			pb.LastCommit = nil
			return true
		}},

		// ---- evidence
		{"ev.drop", func(pb *kproto.Block, c *vfbMutCtx) bool {
			e := pb.Evidence.Evidence
			if len(e) == 0 {
				return false
			}
			i := c.r.Intn(len(e))
			pb.Evidence.Evidence = append(append([]kproto.Evidence{}, e[:i]...), e[i+1:]...)
			return true
		}},
		{"ev.dup", func(pb *kproto.Block, c *vfbMutCtx) bool {
			e := pb.Evidence.Evidence
			if len(e) == 0 {
				return false
			}
			pb.Evidence.Evidence = append(e, vfbCloneEv(&e[c.r.Intn(len(e))]))
			return true
		}},
		{"ev.swap", func(pb *kproto.Block, c *vfbMutCtx) bool {
			e := pb.Evidence.Evidence
			if len(e) < 2 {
				return false
			}
			a, _ := e[0].Marshal()
			b, _ := e[1].Marshal()
			if bytes.Equal(a, b) {
				return false
			}
			e[0], e[1] = e[1], e[0]
			return true
		}},
		{"ev.vote", func(pb *kproto.Block, c *vfbMutCtx) bool {
			e := pb.Evidence.Evidence
			if len(e) == 0 {
				return false
			}
			d := vfbEvOf(pb, c.r.Intn(len(e)))
			if d == nil || d.VoteA == nil || d.VoteB == nil {
				return false
			}
			v := d.VoteA
			if c.r.Bool() {
				v = d.VoteB
			}
			switch c.r.Intn(8) {
			case 0:
				v.Height++
			case 1:
				v.Round++
			case 2:
				v.Timestamp = v.Timestamp.Add(1)
			case 3:
				v.Signature = vfbFlip(v.Signature, c.r, 65)
			case 4:
				v.ValidatorIndex++
			case 5:
				v.ValidatorAddress = vfbFlip(v.ValidatorAddress, c.r, 20)
			case 6:
				v.BlockID.PartSetHeader.Total++
			default:
				if v.Type == kproto.PrevoteType {
					v.Type = kproto.PrecommitType
				} else {
					v.Type = kproto.PrevoteType
				}
			}
			return true
		}},
		{"ev.field", func(pb *kproto.Block, c *vfbMutCtx) bool {
			e := pb.Evidence.Evidence
			if len(e) == 0 {
				return false
			}
			d := vfbEvOf(pb, c.r.Intn(len(e)))
			if d == nil {
				return false
			}
			switch c.r.Intn(3) {
			case 0:
				d.TotalVotingPower++
			case 1:
				d.ValidatorPower++
			default:
				d.Timestamp = d.Timestamp.Add(1)
			}
			return true
		}},
		{"ev.append", func(pb *kproto.Block, c *vfbMutCtx) bool {
			if c.extraEv == nil {
				return false
			}
			pb.Evidence.Evidence = append(pb.Evidence.Evidence, vfbCloneEv(c.extraEv))
			return true
		}},
	}
}

// fields of the commit that Commit.Hash (and therefore the block hash) does not cover
var vfbCommitUnhashed = map[string]bool{
	"commit.height": true, "commit.round": true, "commit.block_id.hash": true,
	"commit.block_id.parts.total": true, "commit.block_id.parts.hash": true,
}


// ---------------------------------------------------------------------------------------------
// independent references (6)

func vfbRefKeccak(b []byte) common.Hash {
	h := sha3.NewLegacyKeccak256()
	h.Write(b)
	return common.BytesToHash(h.Sum(nil))
}

// vfbRefMerkle: RFC-6962 style tree of lib/merkle written from its specification: leaf =
// SHA256(0x00||x), inner = SHA256(0x01||l||r), left subtree = largest power of two < n leaves.
func vfbRefMerkle(items [][]byte) []byte {
	switch len(items) {
	case 0:
		return nil
	case 1:
		h := sha256.Sum256(append([]byte{0}, items[0]...))
		return h[:]
	}
	k := 1
	for k*2 < len(items) {
		k *= 2
	}
	l, r := vfbRefMerkle(items[:k]), vfbRefMerkle(items[k:])
	buf := append([]byte{1}, l...)
	buf = append(buf, r...)
	h := sha256.Sum256(buf)
	return h[:]
}

// vfbRefTxRoot: the Merkle-Patricia root over rlp(index) -> wire bytes of the transaction, from a
// go-ethereum trie filled in a random order (the root does not depend on the insertion order).
func vfbRefTxRoot(r *vfRand, txs [][]byte) common.Hash {
	tr := new(gethtrie.Trie)
	order := make([]int, len(txs))
	for i := range order {
		order[i] = i
	}
	for i := len(order) - 1; i > 0; i-- {
		j := r.Intn(i + 1)
		order[i], order[j] = order[j], order[i]
	}
	for _, i := range order {
		k, _ := gethrlp.EncodeToBytes(uint(i))
		tr.Update(k, txs[i])
	}
	return common.BytesToHash(tr.Hash().Bytes())
}

func vfbRefCommitHash(pc *kproto.Commit) common.Hash {
	if pc == nil {
		return common.Hash{}
	}
	bs := make([][]byte, len(pc.Signatures))
	for i := range pc.Signatures {
		bs[i], _ = pc.Signatures[i].Marshal()
	}
	return common.BytesToHash(vfbRefMerkle(bs))
}

func vfbRefEvidenceHash(pb *kproto.Block) (common.Hash, bool) {
	n := len(pb.Evidence.Evidence)
	if n == 0 {
		return common.Hash{}, true
	}
	bs := make([][]byte, n)
	for i := 0; i < n; i++ {
		d := vfbEvOf(pb, i)
		if d == nil {
			return common.Hash{}, false
		}
		bz, _ := d.Marshal()
		bs[i] = vfbRefKeccak(bz).Bytes()
	}
	return common.BytesToHash(vfbRefMerkle(bs)), true
}

func vfbRefValsHash(vs *types.ValidatorSet) common.Hash {
	if vs == nil || len(vs.Validators) == 0 {
		return common.Hash{}
	}
	bs := make([][]byte, len(vs.Validators))
	for i, v := range vs.Validators {
		sv := kproto.SimpleValidator{Address: append([]byte{}, v.Address[:]...), VotingPower: v.VotingPower}
		bs[i], _ = sv.Marshal()
	}
	return common.BytesToHash(vfbRefMerkle(bs))
}

// vfbRefHeaderHash: Keccak-256 of the protobuf header built field by field here (not by ToProto).
func vfbRefHeaderHash(h *types.Header) common.Hash {
	ph := kproto.Header{
		Height: h.Height,
		Time:   h.Time,
		LastBlockId: kproto.BlockID{
			Hash:          append([]byte{}, h.LastBlockID.Hash[:]...),
			PartSetHeader: kproto.PartSetHeader{Total: h.LastBlockID.PartsHeader.Total, Hash: append([]byte{}, h.LastBlockID.PartsHeader.Hash[:]...)},
		},
		LastCommitHash:     append([]byte{}, h.LastCommitHash[:]...),
		DataHash:           append([]byte{}, h.TxHash[:]...),
		ValidatorsHash:     append([]byte{}, h.ValidatorsHash[:]...),
		NextValidatorsHash: append([]byte{}, h.NextValidatorsHash[:]...),
		ConsensusHash:      append([]byte{}, h.ConsensusHash[:]...),
		AppHash:            append([]byte{}, h.AppHash[:]...),
		EvidenceHash:       append([]byte{}, h.EvidenceHash[:]...),
		ProposerAddress:    append([]byte{}, h.ProposerAddress[:]...),
		GasLimit:           h.GasLimit,
		NumTxs:             h.NumTxs,
	}
	bz, _ := ph.Marshal()
	return vfbRefKeccak(bz)
}

// vfbRefMedianTime: voting-power weighted median of the non-absent signatures' timestamps.
func vfbRefMedianTime(c *types.Commit, vs *types.ValidatorSet) time.Time {
	type wt struct {
		t time.Time
		w int64
	}
	var l []wt
	total := int64(0)
	for _, s := range c.Signatures {
		if s.BlockIDFlag == types.BlockIDFlagAbsent {
			continue
		}
		for _, v := range vs.Validators {
			if v.Address == s.ValidatorAddress {
				l = append(l, wt{s.Timestamp, v.VotingPower})
				total += v.VotingPower
				break
			}
		}
	}
	sort.SliceStable(l, func(i, j int) bool { return l[i].t.Before(l[j].t) })
	m := total / 2
	for _, x := range l {
		if m <= x.w {
			return x.t
		}
		m -= x.w
	}
	return time.Time{}
}

// vfbTinyTx: a small transaction that differs from every generated one (huge nonce).
func vfbTinyTx(k uint64) *types.Transaction {
	return types.NewTransaction(k, common.BytesToAddress([]byte{0xaa}), big.NewInt(int64(1000+k%1000)), 21000, big.NewInt(1), nil)
}

// vfbReferenceChecks compares what the real code put into the header with the references, and
// checks with the real hash functions that replacing ANY single item of a committed list changes
// the commitment.
func vfbReferenceChecks(rep *vfbReporter, r *vfRand, desc string, block *types.Block, pb *kproto.Block,
	state LatestBlockState, txs []*types.Transaction, commit *types.Commit, evidence []types.Evidence) {
	o := rep.o
	h := block.Header()
	if w := vfbRefTxRoot(r, pb.Data.Txs); w != h.TxHash {
		rep.viol(3, "reference-differs:tx-root", fmt.Sprintf("%s txs=%d header=%x reference(geth trie)=%x", desc, len(pb.Data.Txs), h.TxHash[:8], w[:8]))
	}
	if g := types.DeriveSha(types.Transactions(txs), trie.NewStackTrie(nil)); len(txs) > 0 && g != h.TxHash {
		rep.viol(3, "reference-differs:tx-root-recomputed", fmt.Sprintf("%s txs=%d", desc, len(txs)))
	}
	if pb.LastCommit != nil {
		if w := vfbRefCommitHash(pb.LastCommit); w != h.LastCommitHash {
			rep.viol(3, "reference-differs:last-commit-hash", fmt.Sprintf("%s sigs=%d header=%x reference=%x", desc, len(pb.LastCommit.Signatures), h.LastCommitHash[:8], w[:8]))
		}
	}
	if w, ok := vfbRefEvidenceHash(pb); ok && w != h.EvidenceHash {
		rep.viol(3, "reference-differs:evidence-hash", fmt.Sprintf("%s ev=%d header=%x reference=%x", desc, len(pb.Evidence.Evidence), h.EvidenceHash[:8], w[:8]))
	}
	if w := vfbRefHeaderHash(h); w != block.Hash() {
		rep.viol(3, "reference-differs:block-hash", fmt.Sprintf("%s hash=%x reference=%x", desc, block.Hash().Bytes()[:8], w[:8]))
	}
	for name, vs := range map[string]*types.ValidatorSet{"validators": state.Validators, "next-validators": state.NextValidators, "last-validators": state.LastValidators} {
		if vs == nil {
			continue
		}
		if w, g := vfbRefValsHash(vs), vs.Hash(); w != g {
			rep.viol(3, "reference-differs:"+name+"-hash", fmt.Sprintf("%s n=%d real=%x reference=%x", desc, vs.Size(), g[:8], w[:8]))
		}
	}
	if commit != nil && len(commit.Signatures) > 0 {
		if w, g := vfbRefMedianTime(commit, state.LastValidators), MedianTime(commit, state.LastValidators); !w.Equal(g) {
			rep.viol(3, "reference-differs:median-time", fmt.Sprintf("%s sigs=%d real=%v reference=%v", desc, len(commit.Signatures), g, w))
		}
	}
	o.Stat("ref:checked")

	// every index of every committed list, with the real hash functions
	if n := len(txs); n > 0 {
		alt := make([]*types.Transaction, n)
		for k := 0; k < n; k++ {
			copy(alt, txs)
			alt[k] = vfbTinyTx(uint64(1)<<40 + uint64(k))
			if types.DeriveSha(types.Transactions(alt), trie.NewStackTrie(nil)) == h.TxHash {
				rep.viol(3, "tx-root-not-binding:replace", fmt.Sprintf("%s txs=%d index=%d: root unchanged after replacing the transaction", desc, n, k))
			}
		}
		o.StatN("ref:tx-index-replaced", n)
	}
	if commit != nil {
		for k := range commit.Signatures {
			sigs := append([]types.CommitSig{}, commit.Signatures...)
			sigs[k].Timestamp = sigs[k].Timestamp.Add(time.Nanosecond)
			if types.NewCommit(commit.Height, commit.Round, commit.BlockID, sigs).Hash() == h.LastCommitHash {
				rep.viol(3, "commit-hash-not-binding:replace", fmt.Sprintf("%s sigs=%d index=%d", desc, len(sigs), k))
			}
		}
		o.StatN("ref:sig-index-replaced", len(commit.Signatures))
	}
	if n := len(evidence); n > 0 {
		for k := 0; k < n; k++ {
			alt := append(types.EvidenceList{}, evidence...)
			d, ok := evidence[k].(*types.DuplicateVoteEvidence)
			if !ok {
				continue
			}
			c := *d
			c.ValidatorPower++
			alt[k] = &c
			if alt.Hash() == h.EvidenceHash {
				rep.viol(3, "evidence-hash-not-binding:replace", fmt.Sprintf("%s ev=%d index=%d", desc, n, k))
			}
		}
		o.StatN("ref:ev-index-replaced", n)
	}
}

// ---------------------------------------------------------------------------------------------
// list mutations at the boundary indexes (7)

func vfbIdxLabel(i, n int) string {
	switch {
	case (i >= 126 && i <= 129) || (i >= 254 && i <= 257):
		return fmt.Sprint(i)
	case i == 0:
		return "first"
	case i == 1:
		return "second"
	case i == n-1:
		return "last"
	case i == n-2:
		return "last-1"
	}
	return "rnd"
}

func vfbBoundaryIdx(r *vfRand, n int) []int {
	if n == 0 {
		return nil
	}
	seen := map[int]bool{}
	var out []int
	for _, i := range []int{0, 1, n - 2, n - 1, 126, 127, 128, 129, 254, 255, 256, 257, r.Intn(n), r.Intn(n)} {
		if i >= 0 && i < n && !seen[i] {
			seen[i] = true
			out = append(out, i)
		}
	}
	sort.Ints(out)
	return out
}

// vfbListOps builds replace/drop/swap/dup mutations of item i for a list accessed through the
// given functions (items are compared by their marshalled bytes).
func vfbListOps(prefix string, i, n int, length func(pb *kproto.Block) int, bytesOf func(pb *kproto.Block, i int) []byte,
	replace func(pb *kproto.Block, i int, c *vfbMutCtx) bool, remove func(pb *kproto.Block, i int),
	swap func(pb *kproto.Block, i, j int), dup func(pb *kproto.Block, i int)) []vfbMutation {
	lab := vfbIdxLabel(i, n)
	ok := func(pb *kproto.Block) bool { return length(pb) == n }
	return []vfbMutation{
		{prefix + ".replace#" + lab, func(pb *kproto.Block, c *vfbMutCtx) bool { return ok(pb) && replace(pb, i, c) }},
		{prefix + ".drop#" + lab, func(pb *kproto.Block, c *vfbMutCtx) bool {
			if !ok(pb) {
				return false
			}
			remove(pb, i)
			return true
		}},
		{prefix + ".swap#" + lab, func(pb *kproto.Block, c *vfbMutCtx) bool {
			if !ok(pb) || n < 2 {
				return false
			}
			for _, j := range []int{i + 1, i - 1, (i + n/2) % n, 0, n - 1} {
				if j >= 0 && j < n && j != i && !bytes.Equal(bytesOf(pb, i), bytesOf(pb, j)) {
					swap(pb, i, j)
					return true
				}
			}
			return false
		}},
		{prefix + ".dup#" + lab, func(pb *kproto.Block, c *vfbMutCtx) bool {
			if !ok(pb) {
				return false
			}
			dup(pb, i)
			return true
		}},
	}
}

func vfbBoundaryMutations(r *vfRand, pb *kproto.Block) []vfbMutation {
	var out []vfbMutation
	// transactions
	ntx := len(pb.Data.Txs)
	for _, i := range vfbBoundaryIdx(r, ntx) {
		out = append(out, vfbListOps("tx", i, ntx,
			func(pb *kproto.Block) int { return len(pb.Data.Txs) },
			func(pb *kproto.Block, i int) []byte { return pb.Data.Txs[i] },
			func(pb *kproto.Block, i int, c *vfbMutCtx) bool {
				nb := vfbTxBytes(vfbTinyTx(uint64(1)<<41 + uint64(i)))
				if bytes.Equal(nb, pb.Data.Txs[i]) {
					return false
				}
				pb.Data.Txs[i] = nb
				return true
			},
			func(pb *kproto.Block, i int) {
				pb.Data.Txs = append(append([][]byte{}, pb.Data.Txs[:i]...), pb.Data.Txs[i+1:]...)
			},
			func(pb *kproto.Block, i, j int) { pb.Data.Txs[i], pb.Data.Txs[j] = pb.Data.Txs[j], pb.Data.Txs[i] },
			func(pb *kproto.Block, i int) {
				o := append([][]byte{}, pb.Data.Txs[:i+1]...)
				o = append(o, pb.Data.Txs[i])
				pb.Data.Txs = append(o, pb.Data.Txs[i+1:]...)
			})...)
	}
	// commit signatures
	if pb.LastCommit != nil {
		ns := len(pb.LastCommit.Signatures)
		for _, i := range vfbBoundaryIdx(r, ns) {
			out = append(out, vfbListOps("sig", i, ns,
				func(pb *kproto.Block) int {
					if pb.LastCommit == nil {
						return -1
					}
					return len(pb.LastCommit.Signatures)
				},
				func(pb *kproto.Block, i int) []byte { b, _ := pb.LastCommit.Signatures[i].Marshal(); return b },
				func(pb *kproto.Block, i int, c *vfbMutCtx) bool {
					s := pb.LastCommit.Signatures
					// another validator's entry if there is a different one, else an altered signature
					for d := 1; d < len(s); d++ {
						j := (i + d) % len(s)
						a, _ := s[i].Marshal()
						b, _ := s[j].Marshal()
						if !bytes.Equal(a, b) {
							s[i] = s[j]
							return true
						}
					}
					if s[i].BlockIdFlag == kproto.BlockIDFlagAbsent {
						return false
					}
					s[i].Signature = vfbFlip(s[i].Signature, c.r, 65)
					return true
				},
				func(pb *kproto.Block, i int) {
					s := pb.LastCommit.Signatures
					pb.LastCommit.Signatures = append(append([]kproto.CommitSig{}, s[:i]...), s[i+1:]...)
				},
				func(pb *kproto.Block, i, j int) {
					s := pb.LastCommit.Signatures
					s[i], s[j] = s[j], s[i]
				},
				func(pb *kproto.Block, i int) {
					s := pb.LastCommit.Signatures
					o := append([]kproto.CommitSig{}, s[:i+1]...)
					o = append(o, s[i])
					pb.LastCommit.Signatures = append(o, s[i+1:]...)
				})...)
		}
	}
	// evidence
	ne := len(pb.Evidence.Evidence)
	for _, i := range vfbBoundaryIdx(r, ne) {
		out = append(out, vfbListOps("ev", i, ne,
			func(pb *kproto.Block) int { return len(pb.Evidence.Evidence) },
			func(pb *kproto.Block, i int) []byte { b, _ := pb.Evidence.Evidence[i].Marshal(); return b },
			func(pb *kproto.Block, i int, c *vfbMutCtx) bool {
				if c.extraEv == nil {
					return false
				}
				a, _ := pb.Evidence.Evidence[i].Marshal()
				b, _ := c.extraEv.Marshal()
				if bytes.Equal(a, b) {
					return false
				}
				pb.Evidence.Evidence[i] = vfbCloneEv(c.extraEv)
				return true
			},
			func(pb *kproto.Block, i int) {
				e := pb.Evidence.Evidence
				pb.Evidence.Evidence = append(append([]kproto.Evidence{}, e[:i]...), e[i+1:]...)
			},
			func(pb *kproto.Block, i, j int) {
				e := pb.Evidence.Evidence
				e[i], e[j] = e[j], e[i]
			},
			func(pb *kproto.Block, i int) {
				e := pb.Evidence.Evidence
				o := append([]kproto.Evidence{}, e[:i+1]...)
				o = append(o, vfbCloneEv(&e[i]))
				pb.Evidence.Evidence = append(o, e[i+1:]...)
			})...)
	}
	return out
}


// ---------------------------------------------------------------------------------------------
// (8) differential with the Lean model of the header / commit-signature wire encoding
// (KV/Model/HeaderWire.lean, driver model `partset`): the bytes Header.Hash() and Commit.Hash()
// hash, bit-exact, and the hashes themselves (Keccak-256 / SHA-256 Merkle computed in Lean).

const vfbWireModel = "partset"

func vfbHeaderOp(height uint64, t time.Time, numTxs, gas uint64, lbh []byte, lbt uint32, lbp, prop, lch, tx, vh, nvh, ch, app, ev []byte) string {
	return fmt.Sprintf("headerbytes height=%d secs=%d nanos=%d numtxs=%d gas=%d lbh=%s lbt=%d lbp=%s prop=%s lch=%s tx=%s vh=%s nvh=%s ch=%s app=%s ev=%s",
		height, t.Unix(), t.Nanosecond(), numTxs, gas, vfHex(lbh), lbt, vfHex(lbp), vfHex(prop), vfHex(lch), vfHex(tx), vfHex(vh), vfHex(nvh), vfHex(ch), vfHex(app), vfHex(ev))
}

func vfbTypesHeaderOp(h *types.Header) string {
	return vfbHeaderOp(h.Height, h.Time, h.NumTxs, h.GasLimit, h.LastBlockID.Hash.Bytes(), h.LastBlockID.PartsHeader.Total,
		h.LastBlockID.PartsHeader.Hash.Bytes(), h.ProposerAddress.Bytes(), h.LastCommitHash.Bytes(), h.TxHash.Bytes(),
		h.ValidatorsHash.Bytes(), h.NextValidatorsHash.Bytes(), h.ConsensusHash.Bytes(), h.AppHash.Bytes(), h.EvidenceHash.Bytes())
}

// vfbHeaderReal: what Header.Hash() hashes and returns ("panic" when Marshal fails).
func vfbHeaderReal(h *types.Header) (res string) {
	defer func() {
		if e := recover(); e != nil {
			res = "panic"
		}
	}()
	hash := h.Hash()
	bz, err := h.ToProto().Marshal()
	if err != nil {
		return "marshal-error-but-hash-ok"
	}
	return vfHex(bz) + " " + vfHex(hash.Bytes())
}

func vfbExtremeU64(r *vfRand) uint64 {
	switch r.Intn(8) {
	case 0:
		return 0
	case 1:
		return uint64(r.Pick(1, 127, 128, 255, 256, 16383, 16384))
	case 2:
		return ^uint64(0)
	case 3:
		return uint64(1) << uint(r.Intn(64))
	case 4:
		return (uint64(1) << uint(r.Intn(64))) - 1
	default:
		return r.U64() >> uint(r.Intn(64))
	}
}

func vfbExtremeTime(r *vfRand) time.Time {
	switch r.Intn(12) {
	case 0:
		return time.Time{} // year 1: the smallest valid protobuf timestamp
	case 1:
		return time.Unix(0, 0).UTC()
	case 2:
		return time.Unix(-1, 999999999).UTC()
	case 3:
		return time.Unix(253402300799, 999999999).UTC() // the largest valid one
	case 4:
		return time.Unix(253402300800, 0).UTC() // year 10000: Marshal fails
	case 5:
		return time.Unix(-62135596801, 0).UTC() // year 0: Marshal fails
	case 6:
		return time.Unix(int64(r.U64()>>uint(1+r.Intn(40))), int64(r.Intn(1000000000))).In(time.FixedZone("x", 3600*(r.Intn(24)-12)))
	case 7:
		return time.Unix(-int64(r.U64()>>uint(30+r.Intn(30))), int64(r.Intn(1000000000))).UTC()
	case 8:
		return time.Unix(int64(1600000000+r.Intn(100000000)), int64(r.Intn(1000000000))).Local() // the local zone
	default:
		return vfbTime(r)
	}
}

func vfbMaybeHash(r *vfRand) common.Hash {
	switch r.Intn(5) {
	case 0:
		return common.Hash{}
	case 1:
		var h common.Hash
		h[31] = byte(1 + r.Intn(255))
		return h
	case 2:
		var h common.Hash
		h[0] = byte(1 + r.Intn(255))
		return h
	default:
		return vfbRandHash(r)
	}
}

func vfbRawBytes(r *vfRand, n int) []byte {
	switch r.Intn(6) {
	case 0:
		return nil
	case 1:
		return []byte{}
	case 2:
		return r.Bytes(r.Pick(1, 2, 31, 33, 127, 128, 200))
	default:
		return r.Bytes(n)
	}
}

func vfbSigOpTok(flag uint64, addr []byte, t time.Time, sig []byte) string {
	return fmt.Sprintf("%d:%s:%d:%d:%s", flag, vfHex(addr), t.Unix(), t.Nanosecond(), vfHex(sig))
}

func vfbWireModelOps(o *vfOut, r *vfRand, block *types.Block, commit *types.Commit) {
	// the block's own header
	h := block.Header()
	o.Op(vfbWireModel, vfbTypesHeaderOp(h), vfbHeaderReal(h))
	o.Stat("wire:header:block")
	// headers with zero / extreme / random fields
	for k := 0; k < 3; k++ {
		x := &types.Header{
			Height: vfbExtremeU64(r), Time: vfbExtremeTime(r), NumTxs: vfbExtremeU64(r), GasLimit: vfbExtremeU64(r),
			LastBlockID:        types.BlockID{Hash: vfbMaybeHash(r), PartsHeader: types.PartSetHeader{Total: uint32(vfbExtremeU64(r)), Hash: vfbMaybeHash(r)}},
			LastCommitHash:     vfbMaybeHash(r),
			TxHash:             vfbMaybeHash(r),
			ValidatorsHash:     vfbMaybeHash(r),
			NextValidatorsHash: vfbMaybeHash(r),
			ConsensusHash:      vfbMaybeHash(r),
			AppHash:            vfbMaybeHash(r),
			EvidenceHash:       vfbMaybeHash(r),
		}
		if r.Chance(70) {
			x.ProposerAddress = common.BytesToAddress(r.Bytes(20))
		}
		if r.Chance(10) {
			x = &types.Header{} // the zero header
		}
		real := vfbHeaderReal(x)
		o.Op(vfbWireModel, vfbTypesHeaderOp(x), real)
		if real == "panic" {
			o.Stat("wire:header:random:panic")
		} else {
			o.Stat("wire:header:random")
		}
	}
	// the protobuf struct directly, with byte fields of any length (nil, empty, short, long)
	for k := 0; k < 2; k++ {
		ph := kproto.Header{
			Height: vfbExtremeU64(r), Time: vfbExtremeTime(r), NumTxs: vfbExtremeU64(r), GasLimit: vfbExtremeU64(r),
			LastBlockId: kproto.BlockID{Hash: vfbRawBytes(r, 32), PartSetHeader: kproto.PartSetHeader{Total: uint32(vfbExtremeU64(r)), Hash: vfbRawBytes(r, 32)}},
			LastCommitHash: vfbRawBytes(r, 32), DataHash: vfbRawBytes(r, 32), ValidatorsHash: vfbRawBytes(r, 32),
			NextValidatorsHash: vfbRawBytes(r, 32), ConsensusHash: vfbRawBytes(r, 32), AppHash: vfbRawBytes(r, 32),
			EvidenceHash: vfbRawBytes(r, 32), ProposerAddress: vfbRawBytes(r, 20),
		}
		real := "panic"
		if bz, err := ph.Marshal(); err == nil {
			real = vfHex(bz) + " " + vfHex(crypto.Keccak256(bz))
			o.Stat("wire:header:raw")
		} else {
			o.Stat("wire:header:raw:panic")
		}
		o.Op(vfbWireModel, vfbHeaderOp(ph.Height, ph.Time, ph.NumTxs, ph.GasLimit, ph.LastBlockId.Hash, ph.LastBlockId.PartSetHeader.Total,
			ph.LastBlockId.PartSetHeader.Hash, ph.ProposerAddress, ph.LastCommitHash, ph.DataHash, ph.ValidatorsHash, ph.NextValidatorsHash,
			ph.ConsensusHash, ph.AppHash, ph.EvidenceHash), real)
	}
	// the commit: every signature's wire bytes and Commit.Hash (a fresh object: the hash is cached)
	if commit != nil {
		toks := ""
		for i := range commit.Signatures {
			cs := commit.Signatures[i]
			toks += " " + vfbSigOpTok(uint64(cs.BlockIDFlag), cs.ValidatorAddress.Bytes(), cs.Timestamp, cs.Signature)
			if i < 3 {
				real := "panic"
				if bz, err := cs.ToProto().Marshal(); err == nil {
					real = vfHex(bz)
				}
				o.Op(vfbWireModel, fmt.Sprintf("sigbytes flag=%d addr=%s secs=%d nanos=%d sig=%s", uint64(cs.BlockIDFlag), vfHex(cs.ValidatorAddress.Bytes()),
					cs.Timestamp.Unix(), cs.Timestamp.Nanosecond(), vfHex(cs.Signature)), real)
			}
		}
		fresh := types.NewCommit(commit.Height, commit.Round, commit.BlockID, append([]types.CommitSig{}, commit.Signatures...))
		o.Op(vfbWireModel, "commithash"+toks, vfHex(fresh.Hash().Bytes()))
		o.Stat("wire:commithash")
	}
	// random signature lists (absent entries, zero/extreme times, odd signature lengths)
	{
		n := r.Pick(0, 1, 2, 3, 4, 5, 9)
		sigs := make([]types.CommitSig, n)
		toks := ""
		for i := range sigs {
			switch r.Intn(4) {
			case 0:
				sigs[i] = types.NewCommitSigAbsent()
			default:
				sigs[i] = types.CommitSig{BlockIDFlag: types.BlockIDFlag(r.Pick(0, 1, 2, 3, 3, 200)), Timestamp: vfbExtremeTime(r), Signature: vfbRawBytes(r, 65)}
				if r.Chance(80) {
					sigs[i].ValidatorAddress = common.BytesToAddress(r.Bytes(20))
				}
			}
			cs := sigs[i]
			toks += " " + vfbSigOpTok(uint64(cs.BlockIDFlag), cs.ValidatorAddress.Bytes(), cs.Timestamp, cs.Signature)
		}
		real := "panic"
		func() {
			defer func() { _ = recover() }()
			real = vfHex(types.NewCommit(1, 0, types.BlockID{}, sigs).Hash().Bytes())
		}()
		o.Op(vfbWireModel, "commithash"+toks, real)
		if real == "panic" {
			o.Stat("wire:commithash:random:panic")
		} else {
			o.Stat("wire:commithash:random")
		}
	}
}


// ---------------------------------------------------------------------------------------------
// (9) "two different blocks acceptable at a height never share an id" read the other way round:
// the id (block hash, part-set header) must be a function of the block. The part-set header is
// computed by the proposer over the bytes IT chose; a receiver decodes them (unknown fields and
// the header's unused chain_id field are dropped silently) and consensus votes for
// (block.Hash(), header of the RECEIVED parts), while block sync (blockchain/processor.go)
// recomputes the parts from its own canonical re-encoding and verifies the next block's LastCommit
// against (hash, recomputed header). For a non-canonical encoding of a valid block the two ids
// differ: the committed block can never be block-synced.
func vfbEncodingMalleability(rep *vfbReporter, r *vfRand, desc, chainID string, block *types.Block, bzOrig []byte,
	state LatestBlockState, vals *types.ValidatorSet, keys vfbKeyMap, evpool EvidencePool, store Store) {
	o := rep.o
	variant := r.Pick(0, 1, 2)
	name := ""
	var bz2 []byte
	switch variant {
	case 0: // the header's chain_id wire field (types.Header has no such field)
		pb := new(kproto.Block)
		if pb.Unmarshal(bzOrig) != nil {
			return
		}
		pb.Header.ChainID = "x"
		bz2, _ = pb.Marshal()
		name = "header.chain_id"
	case 1: // an unknown field appended to the Block message (field 15, varint 1)
		bz2 = append(append([]byte{}, bzOrig...), 0x78, 0x01)
		name = "block.unknown-field"
	default: // a non-minimal varint: trailing unknown field 15 written as 0x81 0x00 (= 1)
		bz2 = append(append([]byte{}, bzOrig...), 0x78, 0x81, 0x00)
		name = "block.non-minimal-varint"
	}
	wire := new(kproto.Block)
	if err := wire.Unmarshal(bz2); err != nil {
		o.Stat("malleable:" + name + ":wire-rejected")
		return
	}
	b2, err := types.BlockFromProto(wire, trie.NewStackTrie(nil))
	if err != nil {
		o.Stat("malleable:" + name + ":decode-rejected")
		return
	}
	if b2.Hash() != block.Hash() || vfbDiffBlock(block, b2) != "" {
		o.Stat("malleable:" + name + ":different-block")
		return
	}
	if validateBlock(evpool, store, state, b2) != nil {
		o.Stat("malleable:" + name + ":state-rejected")
		return
	}
	// what consensus votes for vs. what block sync recomputes
	idWire := types.BlockID{Hash: b2.Hash(), PartsHeader: types.NewPartSetFromData(bz2, types.BlockPartSizeBytes).Header()}
	idRe := types.BlockID{Hash: b2.Hash(), PartsHeader: b2.MakePartSet(types.BlockPartSizeBytes).Header()}
	if idWire.Equal(idRe) {
		o.Stat("malleable:" + name + ":same-id")
		return
	}
	o.Stat("malleable:" + name + ":id-differs")
	// the commit the validators would produce for the proposal, checked the way block sync does
	keyMap := vfbKeyMap{}
	for a, k := range keys {
		keyMap[a] = k
	}
	commit, _ := vfbMakeCommit(r, chainID, block.Height(), 0, idWire, vals, keyMap, block.Time())
	errWire := vals.VerifyCommit(chainID, idWire, block.Height(), commit)
	errSync := vals.VerifyCommit(chainID, idRe, block.Height(), commit)
	if errWire == nil && errSync != nil {
		// The decoder is lenient (this is what the statistics record); whether a node ACCEPTS such an
		// encoding as a proposal is decided where the bytes arrive, and is checked there
		// (harness/overlay/consensus/c13e1_test.go: noncanonical-proposal-block-accepted).
		o.Stat("malleable:" + name + ":decoder-lenient-id-would-differ")
		_ = desc
	} else {
		o.Stat(fmt.Sprintf("malleable:%s:verify wire=%v sync=%v", name, errWire == nil, errSync == nil))
	}
}

// ---------------------------------------------------------------------------------------------

// vfbReporter limits the number of records per signature so that a frequent (known) signature
// cannot exhaust the per-run budget of violation records and hide a different one.
type vfbReporter struct {
	o    *vfOut
	seen map[string]int
}

func (p *vfbReporter) viol(max int, sig, detail string) {
	p.o.Stat("viol:" + sig)
	if p.seen[sig] >= max {
		return
	}
	p.seen[sig]++
	p.o.Viol(sig, detail)
}

// guard is vfGuard with the per-signature limit of the reporter.
func (p *vfbReporter) guard(sig string, detail func() string, f func()) (panicked bool) {
	defer func() {
		if r := recover(); r != nil {
			panicked = true
			p.viol(2, sig, fmt.Sprintf("panic: %v; %s", r, detail()))
		}
	}()
	f()
	return false
}

func vfbShort(h common.Hash) string { return vfHex(h[:6]) }

func vfbErrText(err error) string {
	if err == nil {
		return "nil"
	}
	s := err.Error()
	if len(s) > 160 {
		s = s[:160] + "..."
	}
	return s
}

func TestVerifC13Block(t *testing.T) {
	log.Root().SetHandler(log.DiscardHandler())
	o := vfOpen()
	defer o.Close()
	rep := &vfbReporter{o: o, seen: map[string]int{}}
	seed := vfSeed()
	n := vfN(200)
	muts := vfbMutations()
	evpool := vfbEvPool{}
	hasher := func() types.TrieHasher { return trie.NewStackTrie(nil) }

	for i := 0; i < n; i++ {
		r := vfFork(seed, uint64(i))

		// ================================================================ (1) state and a valid block
		chainID := fmt.Sprintf("kai-verif-%d", r.Intn(3))
		nv := r.Pick(1, 2, 3, 4, 4)
		if r.Chance(15) {
			nv = r.Pick(5, 7, 8, 9, 16, 17, 33) // longer commit signature lists
		}
		if vfThorough() && r.Chance(15) {
			nv = 5 + r.Intn(3)
		}
		keys := make([]vfbKey, nv)
		keyMap := vfbKeyMap{}
		for k := range keys {
			keys[k] = vfbGenKey(r)
			keyMap[keys[k].addr] = keys[k].priv
		}
		lastVals := vfbValSet(r, keys, r.Chance(50))
		vals := lastVals.Copy()
		nextVals := lastVals.Copy()
		valsShape := "same"
		switch r.Intn(4) {
		case 0: // the current set differs from the last one (one more validator)
			extra := vfbGenKey(r)
			keys2 := append(append([]vfbKey{}, keys...), extra)
			keyMap[extra.addr] = extra.priv
			vals = vfbValSet(r, keys2, false)
			nextVals = vals.Copy()
			valsShape = "grown"
		case 1: // the next set differs (powers)
			nextVals = vfbValSet(r, keys, false)
			valsShape = "next-differs"
		}

		var height uint64
		heightClass := ""
		switch r.Intn(10) {
		case 0, 1:
			height, heightClass = 1, "1"
		case 2, 3:
			height, heightClass = 2, "2"
		case 4:
			height, heightClass = 2+(r.U64()>>uint(1+r.Intn(50))), "large"
		default:
			height, heightClass = uint64(3+r.Intn(300)), "small"
		}

		state := LatestBlockState{
			ChainID:         chainID,
			InitialHeight:   1,
			LastBlockHeight: height - 1,
			NextValidators:  nextVals,
			Validators:      vals,
			LastValidators:  lastVals,
			AppHash:         vfbRandHash(r),
			ConsensusParams: *configs.DefaultConsensusParams(),
		}
		if r.Chance(10) {
			state.AppHash = common.Hash{}
		}
		var commit *types.Commit
		var blockTime time.Time
		commitShape := "empty"
		commitRound := uint32(0)
		if height == 1 {
			state.LastBlockID = types.BlockID{}
			state.LastBlockTime = vfbTime(r) // genesis time
			state.LastValidators = types.NewValidatorSet(nil)
			commit = types.NewCommit(0, 0, types.BlockID{}, nil)
			blockTime = state.LastBlockTime
		} else {
			state.LastBlockID = vfbRandBlockID(r)
			state.LastBlockTime = vfbTime(r)
			commitRound = uint32(r.Pick(0, 0, 1, 2, 3))
			commit, commitShape = vfbMakeCommit(r, chainID, height-1, commitRound, state.LastBlockID, lastVals, keyMap, state.LastBlockTime)
			blockTime = MedianTime(commit, lastVals)
		}

		ntx := r.Pick(0, 0, 1, 2, 3, 5, 8, 17)
		manyTxs := r.Chance(30)
		if manyTxs {
			// around the one-byte/two-byte RLP index boundary of DeriveSha (0x7f/0x80) and 0xff/0x100
			ntx = r.Pick(126, 127, 128, 129, 130, 200, 255, 256, 257)
		}
		var txs []*types.Transaction
		for k := 0; k < ntx; k++ {
			if manyTxs {
				if r.Chance(3) && k > 0 {
					txs = append(txs, txs[r.Intn(k)])
				} else {
					txs = append(txs, vfbTinyTx(uint64(k)+uint64(r.Intn(3))<<20)) // tiny, fast
				}
			} else if k > 0 && r.Chance(25) {
				txs = append(txs, txs[r.Intn(k)]) // equal transactions (tiny universe)
			} else {
				txs = append(txs, vfbGenTx(r, keys))
			}
		}
		nev := 0
		if height >= 2 {
			nev = r.Pick(0, 0, 0, 1, 1, 2)
			if r.Chance(15) {
				nev = r.Pick(3, 4, 5, 8, 9, 16, 17) // longer evidence lists
			}
		}
		var evidence []types.Evidence
		for k := 0; k < nev; k++ {
			evh := uint64(1)
			if height > 2 {
				evh = 1 + uint64(r.Intn(int((height-2)%1000)+1))
			}
			ev := vfbGenEvidence(r, chainID, evh, lastVals, keyMap, blockTime)
			if ev == nil || ev.ValidateBasic() != nil {
				o.Stat("gen:evidence-invalid")
				continue
			}
			evidence = append(evidence, ev)
		}
		proposer := vals.Validators[r.Intn(vals.Size())].Address
		var otherAddr []byte
		for _, v := range vals.Validators {
			if v.Address != proposer {
				otherAddr = append([]byte{}, v.Address.Bytes()...)
				break
			}
		}
		header := &types.Header{
			Height:             height,
			Time:               blockTime,
			GasLimit:           configs.BlockGasLimit,
			LastBlockID:        state.LastBlockID,
			ProposerAddress:    proposer,
			ValidatorsHash:     vals.Hash(),
			NextValidatorsHash: nextVals.Hash(),
			AppHash:            state.AppHash,
		}
		if r.Chance(40) {
			header.GasLimit = r.U64() >> uint(r.Intn(64))
		}
		if r.Chance(50) {
			header.ConsensusHash = vfbRandHash(r)
		}
		var block *types.Block
		if vfGuard(o, "panic:NewBlock", func() string { return fmt.Sprintf("case=%d height=%d", i, height) }, func() {
			block = types.NewBlock(header, txs, commit, evidence, hasher())
		}) {
			continue
		}
		desc := fmt.Sprintf("case=%d height=%d vals=%d/%s commit=%s round=%d txs=%d ev=%d", i, height, nv, valsShape, commitShape, commitRound, len(txs), len(evidence))

		store := NewStore(memorydb.New())
		var genErr error
		if vfGuard(o, "panic:validateBlock:genuine", func() string { return desc }, func() {
			genErr = validateBlock(evpool, store, state, block)
		}) {
			continue
		}
		if genErr != nil {
			rep.viol(5, "harness-valid-block-rejected", desc+" err="+vfbErrText(genErr))
			o.Case(fmt.Sprintf("rejected-%d", i), false)
			continue
		}
		o.Stat("gen:height:" + heightClass)
		o.Stat(fmt.Sprintf("gen:txs:%03d", len(txs)))
		o.Stat(fmt.Sprintf("gen:evidence:%02d", len(evidence)))
		o.Stat(fmt.Sprintf("gen:validators:%02d", nv))
		o.Stat("gen:valsets:" + valsShape)
		o.Stat(fmt.Sprintf("gen:commit-round:%d", commitRound))
		for _, ch := range commitShape {
			if commitShape != "empty" {
				o.Stat("gen:commit-sig:" + string(ch))
			}
		}

		origHash := block.Hash()
		pbOrig, err := block.ToProto()
		if err != nil {
			rep.viol(3, "roundtrip:block:toproto-error", desc+" err="+vfbErrText(err))
			continue
		}
		bzOrig, _ := pbOrig.Marshal()
		var origPS *types.PartSet
		if vfGuard(o, "panic:MakePartSet", func() string { return desc }, func() {
			origPS = block.MakePartSet(types.BlockPartSizeBytes)
		}) {
			continue
		}
		origPSH := origPS.Header()
		if !bytes.Equal(bzOrig, vfbBlockBytes(block)) {
			rep.viol(3, "roundtrip:block:marshal-not-deterministic", desc)
		}

		// ================================================================ (8) wire model differential
		vfGuard(o, "panic:wire-model-ops", func() string { return desc }, func() {
			vfbWireModelOps(o, vfFork(r.U64(), 8), block, commit)
		})

		// ================================================================ (6) independent references
		vfGuard(o, "panic:reference-checks", func() string { return desc }, func() {
			vfbReferenceChecks(rep, r, desc, block, pbOrig, state, txs, commit, evidence)
		})

		// warm executor for (3)
		be := NewBlockExecutor(store, log.New(), evpool, nil)
		var warmErr0 error
		vfGuard(o, "panic:ValidateBlock:genuine", func() string { return desc }, func() {
			warmErr0 = be.ValidateBlock(state, block)
		})
		if warmErr0 != nil {
			rep.viol(5, "harness-valid-block-rejected-by-executor", desc+" err="+vfbErrText(warmErr0))
		}

		// ================================================================ (2)+(3) mutations
		ctx := &vfbMutCtx{otherAddr: otherAddr}
		{
			er := vfFork(r.U64(), 7)
			ctx.extraTx = vfbTxBytes(vfbGenTx(er, keys))
			if height >= 2 {
				if ev := vfbGenEvidence(er, chainID, 1, lastVals, keyMap, blockTime); ev != nil {
					if pe, err := types.EvidenceToProto(ev); err == nil {
						ctx.extraEv = pe
					}
				}
			}
		}
		mutCount := 0
		classes := ""
		mseed := r.U64()
		allMuts := append(append([]vfbMutation{}, muts...), vfbBoundaryMutations(vfFork(mseed, 999), pbOrig)...)
		for mi, m := range allMuts {
			field := m.field
			ctx.r = vfFork(mseed, uint64(mi))
			pb2 := new(kproto.Block)
			if err := pb2.Unmarshal(bzOrig); err != nil {
				rep.viol(3, "roundtrip:block:unmarshal-error", desc+" err="+vfbErrText(err))
				break
			}
			applied := false
			if rep.guard("panic:harness-mutation:"+field, func() string { return desc }, func() { applied = m.apply(pb2, ctx) }) {
				continue
			}
			if !applied {
				o.Stat("skip:" + field)
				continue
			}
			bz2, err := pb2.Marshal()
			if err != nil || bytes.Equal(bz2, bzOrig) {
				o.Stat("skip:" + field)
				continue
			}
			wire := new(kproto.Block)
			if err := wire.Unmarshal(bz2); err != nil {
				o.Stat("mut:" + field + ":wire-unmarshal-error")
				continue
			}
			mutCount++
			atInit := ""
			if height == state.InitialHeight {
				atInit = "@initial-height"
			}
			mdesc := fmt.Sprintf("field=%s %s hash=%s", field, desc, vfbShort(origHash))

			var b2 *types.Block
			var decErr error
			if rep.guard("panic:BlockFromProto:"+field+atInit, func() string { return mdesc }, func() {
				b2, decErr = types.BlockFromProto(wire, hasher())
			}) {
				continue
			}
			class := ""
			var cand *types.Block // a same-hash block that differs from the genuine one
			var coldErr error
			switch {
			case decErr != nil:
				class = "decode-rejected"
				// what a caller that skips ValidateBasic (database path) would get
				wire2 := new(kproto.Block)
				_ = wire2.Unmarshal(bz2)
				var bu *types.Block
				var uerr error
				rep.guard("panic:BlockFromProtoUnsafe:"+field+atInit, func() string { return mdesc }, func() {
					bu, uerr = types.BlockFromProtoUnsafe(wire2)
				})
				if uerr == nil && bu != nil && bu.Hash() == origHash && vfbDiffBlock(block, bu) != "" {
					cand = bu
					if rep.guard("panic:validateBlock:"+field+atInit, func() string { return mdesc }, func() {
						coldErr = validateBlock(evpool, store, state, cand)
					}) {
						cand = nil
					} else if coldErr == nil {
						// BlockFromProto rejected it but validateBlock (which starts with the same
						// ValidateBasic) accepts the unsafe decoding
						rep.viol(3, "block-mutation-undetected-unsafe:"+field, mdesc)
						cand = nil
					}
				}
			case b2.Hash() != origHash:
				class = "hash-changed"
				// informational: is the different block acceptable too (then the two ids differ by the hash)
				var altErr error
				if !rep.guard("panic:validateBlock:"+field+atInit, func() string { return mdesc }, func() {
					altErr = validateBlock(evpool, store, state, b2)
				}) {
					if altErr == nil {
						o.Stat("alt:" + field + ":state-accepts-different-hash")
					} else {
						o.Stat("alt:" + field + ":state-rejects")
					}
				}
			default:
				// same hash and ValidateBasic passed: validation against the chain state must fail
				diff := vfbDiffBlock(block, b2)
				panicked := rep.guard("panic:validateBlock:"+field+atInit, func() string { return mdesc }, func() {
					coldErr = validateBlock(evpool, store, state, b2)
				})
				switch {
				case panicked:
					class = "state-panic"
				case diff == "":
					class = "wire-ignored" // decodes to the very same block
					if bz := vfbBlockBytes(b2); !bytes.Equal(bz, bzOrig) {
						rep.viol(3, "distinct-encodings-of-equal-block:"+field, mdesc)
					}
				case coldErr != nil:
					class = "state-rejected"
					cand = b2
				default:
					class = "undetected"
					sig := "block-mutation-undetected:" + field + atInit
					ps2 := b2.MakePartSet(types.BlockPartSizeBytes).Header()
					rep.viol(2, sig, fmt.Sprintf("%s differs_in=%s same_hash=true accepted_by_validateBlock=true parts_hash_differs=%v", mdesc, diff, !ps2.Equals(origPSH)))
					// distinct ids clause
					if bz := vfbBlockBytes(b2); !bytes.Equal(bz, bzOrig) && ps2.Equals(origPSH) {
						rep.viol(3, "distinct-blocks-share-id:"+field, mdesc+" differs_in="+diff)
					}
				}
			}
			o.Stat("mut:" + field + ":" + class)
			if len(classes) < 300 {
				classes += field + "=" + class + " "
			}
			if vfbCommitUnhashed[field] && class == "state-rejected" {
				o.Stat("commit-field-bound-by-verifycommit:" + field)
			}
			if cand == nil {
				continue
			}

			// the part-set header must tell the same-hash mutant from the genuine block
			partsDiffer := true
			rep.guard("panic:MakePartSet:"+field+atInit, func() string { return mdesc }, func() {
				bzc := vfbBlockBytes(cand)
				psc := cand.MakePartSet(types.BlockPartSizeBytes).Header()
				partsDiffer = !psc.Equals(origPSH)
				if bytes.Equal(bzc, bzOrig) {
					o.Stat("same-hash-mutant:same-bytes:" + field)
				} else if !partsDiffer {
					rep.viol(3, "partset-hash-not-binding:"+field, mdesc)
				}
			})

			// (3) F8: the warm executor answers from its cache keyed by the block hash
			var warmErr error
			if rep.guard("panic:ValidateBlock:"+field+atInit, func() string { return mdesc }, func() {
				warmErr = be.ValidateBlock(state, cand)
			}) {
				continue
			}
			if warmErr == nil {
				o.Stat("f8:" + field + ":warm-accepts")
				rep.viol(1, "validate-cache-warm-accepts:"+field,
					fmt.Sprintf("height=%d field=%s cold_err=%q warm=nil same_hash=true parts_hash_differs=%v class=%s %s", height, field, vfbErrText(coldErr), partsDiffer, class, desc))
			} else {
				o.Stat("f8:" + field + ":warm-rejects")
			}
		}

		// ================================================================ (9) encoding malleability
		vfGuard(o, "panic:encoding-malleability", func() string { return desc }, func() {
			vfbEncodingMalleability(rep, vfFork(mseed, 9), desc, chainID, block, bzOrig, state, vals, keyMap, evpool, store)
		})

		// ================================================================ (4) wire round trips
		vfGuard(o, "panic:roundtrip", func() string { return desc }, func() {
			vfbRoundTrips(rep, r, desc, chainID, block, bzOrig, keys)
		})

		// ================================================================ (5) database round trip
		vfGuard(o, "panic:db-roundtrip", func() string { return desc }, func() {
			vfbDBRoundTrip(rep, r, desc, chainID, block, bzOrig, vals, keyMap)
		})

		o.Case(fmt.Sprintf("%s/%d", vfHex(origHash[:]), mutCount), len(block.LastCommit().Signatures) > 0)
		if i < 3 {
			o.Sample(fmt.Sprintf("%s hash=%s parts=%d:%s mutants=%d :: %s", desc, vfbShort(origHash), origPSH.Total, vfbShort(origPSH.Hash), mutCount, classes))
		}
	}
}

// vfbRoundTrips: (4) x.ToProto -> Marshal -> Unmarshal -> XFromProto is the identity.
func vfbRoundTrips(rep *vfbReporter, r *vfRand, desc, chainID string, block *types.Block, bzOrig []byte, keys []vfbKey) {
	o := rep.o
	// ---- Block
	{
		pb := new(kproto.Block)
		if err := pb.Unmarshal(bzOrig); err != nil {
			rep.viol(3, "roundtrip:block:unmarshal-error", desc+" err="+vfbErrText(err))
		} else if b2, err := types.BlockFromProto(pb, trie.NewStackTrie(nil)); err != nil {
			rep.viol(3, "roundtrip:block:fromproto-error", desc+" err="+vfbErrText(err))
		} else {
			if b2.Hash() != block.Hash() {
				rep.viol(3, "roundtrip:block:hash", desc)
			}
			if d := vfbDiffBlock(block, b2); d != "" {
				rep.viol(3, "roundtrip:block:field", desc+" field="+d)
			}
			if !bytes.Equal(vfbBlockBytes(b2), bzOrig) {
				rep.viol(3, "roundtrip:block:bytes", desc)
			}
			o.Stat("rt:block")
		}
	}
	// ---- Header
	{
		h := block.Header()
		bz, _ := h.ToProto().Marshal()
		pb := new(kproto.Header)
		if err := pb.Unmarshal(bz); err != nil {
			rep.viol(3, "roundtrip:header:unmarshal-error", desc)
		} else if h2, err := types.HeaderFromProto(pb); err != nil {
			rep.viol(3, "roundtrip:header:fromproto-error", desc+" err="+vfbErrText(err))
		} else {
			if h2.Hash() != h.Hash() || h.Hash() != block.Hash() {
				rep.viol(3, "roundtrip:header:hash", desc)
			}
			if d := vfbDiffHeader(h, &h2); d != "" {
				rep.viol(3, "roundtrip:header:field", desc+" field="+d)
			}
			o.Stat("rt:header")
		}
	}
	// ---- BlockID / PartSetHeader
	for k, bid := range []types.BlockID{block.Header().LastBlockID, vfbRandBlockID(r), {}} {
		pbid := bid.ToProto()
		bz, _ := pbid.Marshal()
		pb := new(kproto.BlockID)
		if err := pb.Unmarshal(bz); err != nil {
			rep.viol(3, "roundtrip:blockid:unmarshal-error", desc)
		} else if b2, err := types.BlockIDFromProto(pb); err != nil {
			rep.viol(3, "roundtrip:blockid:fromproto-error", desc+" err="+vfbErrText(err))
		} else if d := vfbDiffBlockID(bid, *b2); d != "" {
			rep.viol(3, "roundtrip:blockid:field", fmt.Sprintf("%s k=%d field=%s", desc, k, d))
		} else {
			o.Stat("rt:blockid")
		}
		ppsh := bid.PartsHeader.ToProto()
		bz, _ = ppsh.Marshal()
		pp := new(kproto.PartSetHeader)
		if err := pp.Unmarshal(bz); err != nil {
			rep.viol(3, "roundtrip:partsetheader:unmarshal-error", desc)
		} else if p2, err := types.PartSetHeaderFromProto(pp); err != nil {
			rep.viol(3, "roundtrip:partsetheader:fromproto-error", desc+" err="+vfbErrText(err))
		} else if !p2.Equals(bid.PartsHeader) {
			rep.viol(3, "roundtrip:partsetheader:field", fmt.Sprintf("%s k=%d", desc, k))
		} else {
			o.Stat("rt:partsetheader")
		}
	}
	// ---- Commit (fresh structs: Commit.Hash is cached in the struct)
	var votes []*types.Vote
	if c := block.LastCommit(); c != nil {
		fresh := types.NewCommit(c.Height, c.Round, c.BlockID, c.Signatures)
		bz, _ := c.ToProto().Marshal()
		pb := new(kproto.Commit)
		if err := pb.Unmarshal(bz); err != nil {
			rep.viol(3, "roundtrip:commit:unmarshal-error", desc)
		} else if c2, err := types.CommitFromProto(pb); err != nil {
			rep.viol(3, "roundtrip:commit:fromproto-error", desc+" err="+vfbErrText(err))
		} else {
			if c2.Hash() != fresh.Hash() || c2.Hash() != block.Header().LastCommitHash {
				rep.viol(3, "roundtrip:commit:hash", desc)
			}
			if d := vfbDiffCommit(c, c2); d != "" {
				rep.viol(3, "roundtrip:commit:field", desc+" field="+d)
			}
			o.Stat("rt:commit")
		}
		for k := range c.Signatures {
			if !c.Signatures[k].Absent() {
				votes = append(votes, c.GetVote(uint32(k)))
			}
		}
	}
	// ---- evidence
	if evd := block.Evidence(); evd != nil {
		for k, ev := range evd.Evidence {
			if d, ok := ev.(*types.DuplicateVoteEvidence); ok {
				votes = append(votes, d.VoteA, d.VoteB)
			}
			pe, err := types.EvidenceToProto(ev)
			if err != nil {
				rep.viol(3, "roundtrip:evidence:toproto-error", desc)
				continue
			}
			bz, _ := pe.Marshal()
			pb := new(kproto.Evidence)
			if err := pb.Unmarshal(bz); err != nil {
				rep.viol(3, "roundtrip:evidence:unmarshal-error", desc)
			} else if e2, err := types.EvidenceFromProto(pb); err != nil {
				rep.viol(3, "roundtrip:evidence:fromproto-error", desc+" err="+vfbErrText(err))
			} else {
				if e2.Hash() != ev.Hash() {
					rep.viol(3, "roundtrip:evidence:hash", desc)
				}
				if d := vfbDiffEvidence(ev, e2); d != "" {
					rep.viol(3, "roundtrip:evidence:field", fmt.Sprintf("%s k=%d field=%s", desc, k, d))
				}
				o.Stat("rt:evidence")
			}
		}
		pd, err := evd.ToProto()
		if err != nil {
			rep.viol(3, "roundtrip:evidencedata:toproto-error", desc)
		} else {
			bz, _ := pd.Marshal()
			pb := new(kproto.EvidenceData)
			d2 := new(types.EvidenceData)
			if err := pb.Unmarshal(bz); err != nil {
				rep.viol(3, "roundtrip:evidencedata:unmarshal-error", desc)
			} else if err := d2.FromProto(pb); err != nil {
				rep.viol(3, "roundtrip:evidencedata:fromproto-error", desc+" err="+vfbErrText(err))
			} else {
				if d2.Hash() != evd.Evidence.Hash() || d2.Hash() != block.Header().EvidenceHash {
					rep.viol(3, "roundtrip:evidencedata:hash", desc)
				}
				if len(d2.Evidence) != len(evd.Evidence) {
					rep.viol(3, "roundtrip:evidencedata:len", desc)
				}
				o.Stat("rt:evidencedata")
			}
		}
	}
	// ---- Vote (precommits of the last commit, votes inside evidence, one fresh prevote)
	{
		v := &types.Vote{
			ValidatorAddress: keys[0].addr,
			ValidatorIndex:   uint32(r.Intn(4)),
			Height:           block.Height(),
			Round:            uint32(r.Pick(0, 1, 1<<31, 1<<32-1)),
			Timestamp:        vfbTime(r),
			Type:             kproto.PrevoteType,
			Signature:        r.Bytes(65),
		}
		if r.Bool() {
			v.BlockID = vfbRandBlockID(r)
		}
		votes = append(votes, v)
	}
	for k, v := range votes {
		bz, _ := v.ToProto().Marshal()
		pb := new(kproto.Vote)
		if err := pb.Unmarshal(bz); err != nil {
			rep.viol(3, "roundtrip:vote:unmarshal-error", desc)
		} else if v2, err := types.VoteFromProto(pb); err != nil {
			rep.viol(3, "roundtrip:vote:fromproto-error", fmt.Sprintf("%s k=%d err=%s", desc, k, vfbErrText(err)))
		} else {
			if d := vfbDiffVote(v, v2); d != "" {
				rep.viol(3, "roundtrip:vote:field", fmt.Sprintf("%s k=%d field=%s", desc, k, d))
			}
			if !bytes.Equal(types.VoteSignBytes(chainID, v.ToProto()), types.VoteSignBytes(chainID, v2.ToProto())) {
				rep.viol(3, "roundtrip:vote:signbytes", fmt.Sprintf("%s k=%d", desc, k))
			}
			o.Stat("rt:vote")
		}
	}
	// ---- Proposal
	{
		ps := block.MakePartSet(types.BlockPartSizeBytes)
		p := &types.Proposal{
			Height:     block.Height(),
			Round:      uint32(r.Pick(0, 1, 2, 1<<31)),
			POLRound:   uint32(r.Pick(0, 1, 1<<32-1)),
			Timestamp:  vfbTime(r),
			POLBlockID: types.BlockID{Hash: block.Hash(), PartsHeader: ps.Header()},
		}
		pp := p.ToProto()
		if r.Chance(25) {
			sig, err := crypto.Sign(crypto.Keccak256(types.ProposalSignBytes(chainID, pp)), keys[0].priv)
			if err == nil {
				p.Signature = sig
			}
		}
		if len(p.Signature) == 0 {
			p.Signature = r.Bytes(65)
		}
		bz, _ := p.ToProto().Marshal()
		pb := new(kproto.Proposal)
		if err := pb.Unmarshal(bz); err != nil {
			rep.viol(3, "roundtrip:proposal:unmarshal-error", desc)
		} else if p2, err := types.ProposalFromProto(pb); err != nil {
			rep.viol(3, "roundtrip:proposal:fromproto-error", desc+" err="+vfbErrText(err))
		} else {
			if d := vfbDiffProposal(p, p2); d != "" {
				rep.viol(3, "roundtrip:proposal:field", desc+" field="+d)
			}
			if !bytes.Equal(types.ProposalSignBytes(chainID, p.ToProto()), types.ProposalSignBytes(chainID, p2.ToProto())) {
				rep.viol(3, "roundtrip:proposal:signbytes", desc)
			}
			o.Stat("rt:proposal")
		}
	}
	// ---- Parts and reassembly (parts go through the wire, arrive in random order)
	for _, size := range []uint32{types.BlockPartSizeBytes, uint32(r.Pick(64, 100, 257))} {
		ps := block.MakePartSet(size)
		hdr := ps.Header()
		total := int(ps.Total())
		if total > 1 {
			o.Stat("rt:partset:multi")
		} else {
			o.Stat("rt:partset:single")
		}
		ps2 := types.NewPartSetFromHeader(hdr)
		order := make([]int, total)
		for k := range order {
			order[k] = k
		}
		for k := total - 1; k > 0; k-- {
			j := r.Intn(k + 1)
			order[k], order[j] = order[j], order[k]
		}
		ok := true
		for _, idx := range order {
			part := ps.GetPart(idx)
			pp, err := part.ToProto()
			if err != nil {
				rep.viol(3, "roundtrip:part:toproto-error", desc)
				ok = false
				break
			}
			bz, _ := pp.Marshal()
			pb := new(kproto.Part)
			if err := pb.Unmarshal(bz); err != nil {
				rep.viol(3, "roundtrip:part:unmarshal-error", desc)
				ok = false
				break
			}
			part2, err := types.PartFromProto(pb)
			if err != nil {
				rep.viol(3, "roundtrip:part:fromproto-error", fmt.Sprintf("%s size=%d idx=%d err=%s", desc, size, idx, vfbErrText(err)))
				ok = false
				break
			}
			if d := vfbDiffPart(part, part2); d != "" {
				rep.viol(3, "roundtrip:part:field", fmt.Sprintf("%s size=%d idx=%d field=%s", desc, size, idx, d))
			}
			added, err := ps2.AddPart(part2)
			if !added || err != nil {
				rep.viol(3, "roundtrip:part:not-accepted-by-partset", fmt.Sprintf("%s size=%d idx=%d added=%v err=%s", desc, size, idx, added, vfbErrText(err)))
				ok = false
				break
			}
			o.Stat("rt:part")
		}
		if !ok {
			continue
		}
		if !ps2.IsComplete() {
			rep.viol(3, "reassembled-block-differs", fmt.Sprintf("%s size=%d incomplete", desc, size))
			continue
		}
		bz, err := io.ReadAll(ps2.GetReader())
		if err != nil {
			rep.viol(3, "reassembled-block-differs", fmt.Sprintf("%s size=%d read err=%s", desc, size, vfbErrText(err)))
			continue
		}
		pb := new(kproto.Block)
		if err := pb.Unmarshal(bz); err != nil {
			rep.viol(3, "reassembled-block-differs", fmt.Sprintf("%s size=%d unmarshal err=%s", desc, size, vfbErrText(err)))
			continue
		}
		b2, err := types.BlockFromProto(pb, trie.NewStackTrie(nil))
		if err != nil {
			rep.viol(3, "reassembled-block-differs", fmt.Sprintf("%s size=%d fromproto err=%s", desc, size, vfbErrText(err)))
			continue
		}
		if b2.Hash() != block.Hash() || !bytes.Equal(bz, bzOrig) || !bytes.Equal(vfbBlockBytes(b2), bzOrig) {
			rep.viol(3, "reassembled-block-differs", fmt.Sprintf("%s size=%d", desc, size))
		}
		if h2 := b2.MakePartSet(size).Header(); !h2.Equals(hdr) {
			rep.viol(3, "reassembled-block-differs", fmt.Sprintf("%s size=%d part-set header differs", desc, size))
		}
		o.Stat("rt:reassembled")
	}
}

// vfbDBRoundTrip: (5) WriteBlock followed by the Read* accessors gives back the same data.
func vfbDBRoundTrip(rep *vfbReporter, r *vfRand, desc, chainID string, block *types.Block, bzOrig []byte, vals *types.ValidatorSet, keys vfbKeyMap) {
	o := rep.o
	db := memorydb.New()
	size := uint32(r.Pick(types.BlockPartSizeBytes, types.BlockPartSizeBytes, 100, 1000))
	ps := block.MakePartSet(size)
	height := block.Height()
	bid := types.BlockID{Hash: block.Hash(), PartsHeader: ps.Header()}
	seen, _ := vfbMakeCommit(r, chainID, height, uint32(r.Intn(3)), bid, vals, keys, block.Time())
	rawdb.WriteBlock(db, block, ps, seen)

	b2 := rawdb.ReadBlock(db, height)
	if b2 == nil {
		rep.viol(3, "db-roundtrip:block-missing", desc)
	} else {
		if b2.Hash() != block.Hash() {
			rep.viol(3, "db-roundtrip:block-hash", desc)
		}
		if !bytes.Equal(vfbBlockBytes(b2), bzOrig) {
			rep.viol(3, "db-roundtrip:block-bytes", desc)
		}
		if d := vfbDiffBlock(block, b2); d != "" {
			rep.viol(3, "db-roundtrip:block-field", desc+" field="+d)
		}
	}
	meta := rawdb.ReadBlockMeta(db, height)
	if meta == nil {
		rep.viol(3, "db-roundtrip:meta-missing", desc)
	} else {
		if !meta.BlockID.Equal(bid) {
			rep.viol(3, "db-roundtrip:meta-blockid", desc)
		}
		if meta.Header == nil || meta.Header.Hash() != block.Hash() || vfbDiffHeader(meta.Header, block.Header()) != "" {
			rep.viol(3, "db-roundtrip:meta-header", desc)
		}
	}
	if h := rawdb.ReadHeader(db, height); h == nil || h.Hash() != block.Hash() {
		rep.viol(3, "db-roundtrip:header", desc)
	}
	for k := 0; k < int(ps.Total()); k++ {
		p2 := rawdb.ReadBlockPart(db, height, k)
		if d := vfbDiffPart(ps.GetPart(k), p2); d != "" {
			rep.viol(3, "db-roundtrip:part", fmt.Sprintf("%s size=%d idx=%d field=%s", desc, size, k, d))
		}
	}
	if ps.Total() > 1 {
		o.Stat("db:parts:multi")
	} else {
		o.Stat("db:parts:single")
	}
	if c2 := rawdb.ReadSeenCommit(db, height); c2 == nil {
		rep.viol(3, "db-roundtrip:seen-commit-missing", desc)
	} else if d := vfbDiffCommit(seen, c2); d != "" {
		rep.viol(3, "db-roundtrip:seen-commit", desc+" field="+d)
	}
	c3 := rawdb.ReadCommit(db, height-1)
	lc := block.LastCommit()
	if c3 == nil {
		rep.viol(3, "db-roundtrip:last-commit-missing", desc)
	} else {
		if d := vfbDiffCommit(lc, c3); d != "" {
			rep.viol(3, "db-roundtrip:last-commit", desc+" field="+d)
		}
		if c3.Hash() != block.Header().LastCommitHash {
			rep.viol(3, "db-roundtrip:last-commit-hash", desc)
		}
	}
	// transactions by hash: the lookup entries point at this block and index (a hash that occurs
	// twice is entered twice; the later entry wins), and the body read back carries the same list
	rawdb.WriteTxLookupEntries(db, block)
	last := map[common.Hash]int{}
	for i, tx := range block.Transactions() {
		last[tx.Hash()] = i
	}
	for i, tx := range block.Transactions() {
		t2, bh, bhgt, idx := rawdb.ReadTransaction(db, tx.Hash())
		if t2 == nil || t2.Hash() != tx.Hash() || bh != block.Hash() || bhgt != height || idx != uint64(last[tx.Hash()]) {
			rep.viol(3, "db-roundtrip:tx-lookup", fmt.Sprintf("%s tx %d of %d: found=%v block=%x height=%d index=%d", desc, i, len(block.Transactions()), t2 != nil, bh[:4], bhgt, idx))
			break
		}
	}
	if body := rawdb.ReadBody(db, height); body == nil || len(body.Transactions) != len(block.Transactions()) {
		rep.viol(3, "db-roundtrip:body", desc)
	}
	if len(block.Transactions()) > 0 {
		o.Stat("db:tx-lookup")
	}
	o.Stat("db:roundtrip")
}
