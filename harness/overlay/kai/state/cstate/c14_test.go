package cstate

// C14 harness: consensus-state save / load / prune.
//
// Histories of LatestBlockStates are produced by the real `updateState` from a genesis-like state
// (static sets, changes at consecutive heights, sets returning to an earlier membership, params
// changes), every block is written the way the node writes it (`rawdb.WriteBlock`,
// `rawdb.WriteHeadBlockHash`, `rawdb.WriteAppHash`) and every state is saved with the real store.
// After every save the state is loaded at the head (`Store.Load`, a restart), ranges are pruned,
// and `loadStateAtHeight`, `LoadValidators`, `LoadConsensusParams` are called at every height.
//
//   * correspondence: every call is also an op of the Lean model `cstore` (KV.Model.CStore), which
//     must give the same canonical text — including the aliased priorities (F4) and the records
//     deleted by PruneState (F5), which the model predicts;
//   * oracle (from the property text, independent of the model): loaded == saved field by field;
//     LoadValidators(h) == the set entitled to sign h; pruning keeps every kept state loadable and
//     unchanged.  Differences are classified by root cause; only the two known root causes get the
//     known-finding signatures, every other difference has its own signature.

import (
	"bytes"
	"fmt"
	"math/big"
	"sort"
	"strings"
	"testing"
	"time"

	"github.com/kardiachain/go-kardia/kai/kaidb/memorydb"
	"github.com/kardiachain/go-kardia/kai/rawdb"
	"github.com/kardiachain/go-kardia/lib/common"
	"github.com/kardiachain/go-kardia/lib/log"
	kproto "github.com/kardiachain/go-kardia/proto/kardiachain/types"
	"github.com/kardiachain/go-kardia/trie"
	"github.com/kardiachain/go-kardia/types"
)

const c14Model = "cstore"

func c14Addr(i int) common.Address {
	return common.BytesToAddress([]byte{0xC1, 0x4A, 0x00, byte(i + 1)})
}
func c14Idx(a common.Address) int { b := a.Bytes(); return int(b[len(b)-1]) - 1 }

func c14ValText(v *types.Validator) string {
	if v == nil {
		return "-"
	}
	return fmt.Sprintf("%d:%d:%d", c14Idx(v.Address), v.VotingPower, v.ProposerPriority)
}

// canonical text of a validator set: validators in the set's order, then the proposer
func c14SetText(vs *types.ValidatorSet) string {
	if vs == nil {
		return "nil"
	}
	parts := make([]string, len(vs.Validators))
	for i, v := range vs.Validators {
		parts[i] = c14ValText(v)
	}
	l := strings.Join(parts, ",")
	if len(parts) == 0 {
		l = "-"
	}
	return l + ";" + c14ValText(vs.Proposer)
}

// membership text: what ValidatorSet.Hash() depends on
func c14MembText(vs *types.ValidatorSet) string {
	if vs == nil {
		return "nil"
	}
	parts := make([]string, len(vs.Validators))
	for i, v := range vs.Validators {
		parts[i] = fmt.Sprintf("%d:%d", c14Idx(v.Address), v.VotingPower)
	}
	return strings.Join(parts, ",")
}

func c14BidText(b types.BlockID) string {
	if b.Equal(types.BlockID{}) {
		return "-" // the empty block id (no block precedes the first one)
	}
	return fmt.Sprintf("%s/%d/%s", vfHex(b.Hash.Bytes()), b.PartsHeader.Total, vfHex(b.PartsHeader.Hash.Bytes()))
}

func c14ParamsBytes(p kproto.ConsensusParams) []byte {
	bz, err := p.Marshal()
	if err != nil {
		panic(err)
	}
	return bz
}

func c14StateText(s LatestBlockState) string {
	return fmt.Sprintf("h=%d cid=%s ih=%d bid=%s t=%d ntx=%d app=%s p=%s lhp=%d lhv=%d L=%s V=%s N=%s",
		s.LastBlockHeight, vfHex([]byte(s.ChainID)), s.InitialHeight, c14BidText(s.LastBlockID),
		s.LastBlockTime.UnixNano(), s.LastBlockTotalTx, vfHex(s.AppHash.Bytes()),
		vfHex(c14ParamsBytes(s.ConsensusParams)), s.LastHeightConsensusParamsChanged, s.LastHeightValidatorsChanged,
		c14SetText(s.LastValidators), c14SetText(s.Validators), c14SetText(s.NextValidators))
}

func c14CopyState(s LatestBlockState) LatestBlockState {
	c := s
	if s.LastValidators != nil {
		c.LastValidators = s.LastValidators.Copy()
	}
	if s.Validators != nil {
		c.Validators = s.Validators.Copy()
	}
	if s.NextValidators != nil {
		c.NextValidators = s.NextValidators.Copy()
	}
	return c
}

// c14Try runs f; a panic is returned as text instead of killing the run
func c14Try(f func()) (panicked bool, msg string) {
	defer func() {
		if r := recover(); r != nil {
			panicked = true
			msg = fmt.Sprint(r)
			if len(msg) > 120 {
				msg = msg[:120]
			}
		}
	}()
	f()
	return
}

// ---- plan of a case ------------------------------------------------------------------------

type c14Memb map[int]int64 // validator index -> power

type c14Step struct {
	target     c14Memb // nil: no validator update in this block
	paramsBump bool    // consensus params change with this block
	malformed  int     // 0 none, 1 nil LastValidators, 2 nil NextValidators, 3 proposer nil
}

type c14Plan struct {
	name     string
	ih       uint64
	genesis  c14Memb
	steps    []c14Step
	prunes   [][2]uint64 // executed after all steps
	midPrune int         // if >0: the first prune is executed after this many steps instead
}

func c14MembKey(m c14Memb) string {
	ks := make([]int, 0, len(m))
	for k := range m {
		ks = append(ks, k)
	}
	sort.Ints(ks)
	var sb strings.Builder
	for _, k := range ks {
		fmt.Fprintf(&sb, "%d:%d,", k, m[k])
	}
	return sb.String()
}

func c14RandMemb(r *vfRand, universe int) c14Memb {
	n := 1 + r.Intn(4)
	if n > universe {
		n = universe
	}
	m := c14Memb{}
	for len(m) < n {
		m[r.Intn(universe)] = int64(1 + r.Intn(40))
	}
	return m
}

func c14RandPlan(r *vfRand) c14Plan {
	p := c14Plan{ih: 1}
	if r.Chance(12) {
		p.ih = uint64(2 + r.Intn(3))
	}
	universe := 3 + r.Intn(3)
	pool := make([]c14Memb, 2+r.Intn(2))
	for i := range pool {
		pool[i] = c14RandMemb(r, universe)
	}
	if r.Chance(30) { // a pool entry with the same addresses but another power
		q := c14Memb{}
		for k, v := range pool[0] {
			q[k] = v
		}
		for k := range q {
			q[k] = q[k] + int64(1+r.Intn(3))
			break
		}
		pool[len(pool)-1] = q
	}
	p.genesis = pool[0]
	n := 4 + r.Intn(11)
	if vfThorough() && r.Chance(20) {
		n += r.Intn(20)
	}
	fam := r.Intn(5)
	p.steps = make([]c14Step, n)
	switch fam {
	case 0:
		p.name = "static"
	case 1:
		p.name = "consecutive"
		at := r.Intn(n)
		for i := at; i < n && i < at+2+r.Intn(4); i++ {
			p.steps[i].target = pool[r.Intn(len(pool))]
		}
	case 2:
		p.name = "return"
		// A .. B .. C .. B
		i := r.Intn(3)
		seq := []int{1 % len(pool), (len(pool) - 1), 1 % len(pool), 0}
		for j, t := range seq {
			if i >= n {
				break
			}
			p.steps[i].target = pool[t]
			if j == 1 && r.Chance(60) {
				// a range ending inside the C phase: the shape that exposes unprotected records
				p.prunes = append(p.prunes, [2]uint64{uint64(r.Intn(3)), p.ih + uint64(i) + uint64(1+r.Intn(3))})
			}
			i += 1 + r.Intn(5)
		}
	default:
		p.name = "mixed"
		for i := range p.steps {
			if r.Chance(30) {
				p.steps[i].target = pool[r.Intn(len(pool))]
			}
		}
	}
	if fam >= 3 || r.Chance(25) {
		for i := range p.steps {
			if r.Chance(20) {
				p.steps[i].paramsBump = true
			}
		}
		p.name += "+params"
	}
	if r.Chance(4) {
		p.steps[r.Intn(n)].malformed = 1 + r.Intn(3)
		p.name += "+malformed"
	}
	top := p.ih + uint64(n) + 1
	np := r.Intn(4)
	if len(p.prunes) > 0 {
		np = r.Intn(2)
	}
	for i := 0; i < np; i++ {
		a := uint64(r.Intn(int(top)))
		b := uint64(r.Intn(int(top) + 1))
		if r.Chance(70) && a > b {
			a, b = b, a
		}
		if r.Chance(40) {
			a = uint64(r.Intn(2))
		}
		p.prunes = append(p.prunes, [2]uint64{a, b})
	}
	if len(p.prunes) > 0 && r.Chance(30) {
		p.midPrune = 1 + r.Intn(n)
	}
	return p
}

// the two reproducers of the known findings (cases 0 and 1 of every shard)
func c14PlanF4() c14Plan {
	return c14Plan{name: "repro-F4-static-10-20-30", ih: 1, genesis: c14Memb{0: 10, 1: 20, 2: 30}, steps: make([]c14Step, 4)}
}
func c14PlanF5() c14Plan {
	A := c14Memb{0: 10, 1: 20}
	B := c14Memb{0: 10, 1: 20, 2: 30}
	C := c14Memb{0: 10, 2: 30}
	_ = A
	st := make([]c14Step, 13)
	st[1].target = B // block 2: B becomes NextValidators of state 2
	st[3].target = C // block 4
	st[8].target = B // block 9: back to B; state 8 (the first kept one) references only C
	return c14Plan{name: "repro-F5-A-B-C-B-prune-1-8", ih: 1, genesis: A, steps: st, prunes: [][2]uint64{{1, 8}}}
}

// ---- running a case ------------------------------------------------------------------------

type c14Run struct {
	o       *vfOut
	r       *vfRand
	db      *memorydb.Database
	store   Store
	saved   map[uint64]LatestBlockState // what was passed to Save (deep copies)
	order   []uint64                    // heights in save order
	kept    map[uint64]bool             // state records that must exist (by the statement of PruneState)
	allSets []c14SavedSet               // every set of every saved state
	head    uint64
	broken  map[uint64]bool // kept states already reported as unloadable because of a prune
	tag     string
}

type c14SavedSet struct {
	h     uint64
	field string
	hash  common.Hash
	text  string
}

// known-finding signatures are reported a bounded number of times per shard so that they can never
// exhaust the per-shard violation budget of vfOut.Viol
var c14KnownBudget = map[string]int{}

func (c *c14Run) viol(sig, detail string) {
	c.o.Stat("viol:" + sig)
	if sig == "load-priorities-aliased" || sig == "loadvals-priorities-aliased" || sig == "prune-deletes-referenced-valset" {
		c14KnownBudget[sig]++
		if c14KnownBudget[sig] > 12 {
			return
		}
	}
	c.o.Viol(sig, "case="+c.tag+" "+detail)
}

func (c *c14Run) writeBlock(h uint64, ntx int) (types.BlockID, *types.Header) {
	hdr := &types.Header{
		Height:   h,
		Time:     time.Unix(1600000000+int64(h)*5+int64(c.r.Intn(3)), int64(c.r.Intn(1000))*1000000).UTC(),
		GasLimit: 1000000 + uint64(c.r.Intn(1000)),
	}
	var txs []*types.Transaction
	for i := 0; i < ntx; i++ {
		txs = append(txs, types.NewTransaction(uint64(c.r.Intn(1000)), c14Addr(i), big.NewInt(int64(1+c.r.Intn(1000))), 21000, big.NewInt(1), nil))
	}
	block := types.NewBlock(hdr, txs, &types.Commit{}, nil, trie.NewStackTrie(nil))
	ps := block.MakePartSet(types.BlockPartSizeBytes)
	rawdb.WriteBlock(c.db, block, ps, &types.Commit{})
	rawdb.WriteHeadBlockHash(c.db, block.Hash())
	return types.BlockID{Hash: block.Hash(), PartsHeader: ps.Header()}, block.Header()
}

func (c *c14Run) record(s LatestBlockState) {
	h := s.LastBlockHeight
	c.saved[h] = c14CopyState(s)
	c.order = append(c.order, h)
	c.kept[h] = true
	for _, fs := range []struct {
		f string
		v *types.ValidatorSet
	}{{"LastValidators", s.LastValidators}, {"Validators", s.Validators}, {"NextValidators", s.NextValidators}} {
		if fs.v != nil {
			c.allSets = append(c.allSets, c14SavedSet{h, fs.f, fs.v.Hash(), c14SetText(fs.v)})
		}
	}
}

// save: block + app hash + head, then Store.Save
func (c *c14Run) save(s LatestBlockState) bool {
	if s.LastBlockHeight > 0 { // at height 0 the record is the genesis block's app hash (written by the caller)
		rawdb.WriteAppHash(c.db, s.LastBlockHeight, s.AppHash)
	}
	c.head = s.LastBlockHeight
	p, msg := c14Try(func() { c.store.Save(s) })
	real := "ok"
	if p {
		real = "panic"
	}
	c.o.Op(c14Model, "save "+c14StateText(s), real)
	if p {
		c.o.Stat("save-panic")
		_ = msg
		return false
	}
	c.o.Stat("save")
	c.record(s)
	return true
}

func c14LoadText(p bool, st *LatestBlockState) string {
	if p {
		return "panic"
	}
	if st == nil || st.IsEmpty() {
		return "empty"
	}
	return c14StateText(*st)
}

// aliasWitness: another saved set with the same membership hash whose full text equals `loaded`
func (c *c14Run) aliasWitness(h uint64, field string, saved *types.ValidatorSet, loadedText string) string {
	hash := saved.Hash()
	for _, x := range c.allSets {
		if x.hash == hash && x.text == loadedText && !(x.h == h && x.field == field) {
			return fmt.Sprintf("%s@%d", x.field, x.h)
		}
	}
	return ""
}

// compareSets: oracle for one validator-set field. exact=true: no aliasing excuse exists (NextValidators at the head)
func (c *c14Run) compareSet(prefix string, h uint64, field string, saved, loaded *types.ValidatorSet, exact bool) {
	if (saved == nil) != (loaded == nil) {
		c.viol(prefix+"-set-nil", fmt.Sprintf("height=%d field=%s saved=%s loaded=%s", h, field, c14SetText(saved), c14SetText(loaded)))
		return
	}
	if saved == nil {
		return
	}
	if c14MembText(saved) != c14MembText(loaded) {
		c.viol(prefix+"-membership-differs", fmt.Sprintf("height=%d field=%s saved=%s loaded=%s", h, field, c14SetText(saved), c14SetText(loaded)))
		return
	}
	st, lt := c14SetText(saved), c14SetText(loaded)
	if st == lt {
		c.o.Stat(prefix + "-set-exact")
		return
	}
	if exact {
		c.viol(prefix+"-next-priorities-differ", fmt.Sprintf("height=%d field=%s saved=%s loaded=%s", h, field, st, lt))
		return
	}
	if w := c.aliasWitness(h, field, saved, lt); w != "" {
		c.viol(prefix+"-priorities-aliased", fmt.Sprintf("height=%d field=%s saved=%s loaded=%s: differs only in priorities/proposer; loaded equals %s exactly, which shares the membership hash %s (addresses and powers %s)",
			h, field, st, lt, w, saved.Hash().Hex()[:14], c14MembText(saved)))
		return
	}
	c.viol(prefix+"-priorities-differ", fmt.Sprintf("height=%d field=%s saved=%s loaded=%s (no saved set with this membership has these priorities)", h, field, st, lt))
}

// oracle: the state loaded at the head equals the saved one
func (c *c14Run) oracleHead(loaded LatestBlockState) {
	h := c.head
	s := c.saved[h]
	d := func(sig, what string, a, b interface{}) {
		c.viol(sig, fmt.Sprintf("height=%d %s saved=%v loaded=%v", h, what, a, b))
	}
	if loaded.LastBlockHeight != s.LastBlockHeight {
		d("load-wrong-height", "LastBlockHeight", s.LastBlockHeight, loaded.LastBlockHeight)
	}
	if loaded.ChainID != s.ChainID {
		d("load-chainid-differs", "ChainID", s.ChainID, loaded.ChainID)
	}
	if loaded.InitialHeight != s.InitialHeight {
		d("load-initialheight-differs", "InitialHeight", s.InitialHeight, loaded.InitialHeight)
	}
	if !loaded.LastBlockID.Equal(s.LastBlockID) {
		d("load-blockid-differs", "LastBlockID", c14BidText(s.LastBlockID), c14BidText(loaded.LastBlockID))
	}
	if !loaded.LastBlockTime.Equal(s.LastBlockTime) {
		d("load-time-differs", "LastBlockTime", s.LastBlockTime.UnixNano(), loaded.LastBlockTime.UnixNano())
	}
	if loaded.LastBlockTotalTx != s.LastBlockTotalTx {
		d("load-numtxs-differs", "LastBlockTotalTx", s.LastBlockTotalTx, loaded.LastBlockTotalTx)
	}
	if loaded.AppHash != s.AppHash {
		d("load-apphash-differs", "AppHash", s.AppHash.Hex(), loaded.AppHash.Hex())
	}
	if !bytes.Equal(c14ParamsBytes(loaded.ConsensusParams), c14ParamsBytes(s.ConsensusParams)) {
		d("load-params-differ", "ConsensusParams", s.ConsensusParams.String(), loaded.ConsensusParams.String())
	}
	if loaded.LastHeightConsensusParamsChanged != s.LastHeightConsensusParamsChanged {
		d("load-lhpc-differs", "LastHeightConsensusParamsChanged", s.LastHeightConsensusParamsChanged, loaded.LastHeightConsensusParamsChanged)
	}
	if loaded.LastHeightValidatorsChanged != s.LastHeightValidatorsChanged {
		d("load-lhvc-differs", "LastHeightValidatorsChanged", s.LastHeightValidatorsChanged, loaded.LastHeightValidatorsChanged)
	}
	c.compareSet("load", h, "NextValidators", s.NextValidators, loaded.NextValidators, true)
	c.compareSet("load", h, "Validators", s.Validators, loaded.Validators, false)
	c.compareSet("load", h, "LastValidators", s.LastValidators, loaded.LastValidators, false)
}

func (c *c14Run) loadHead() {
	var st LatestBlockState
	p, msg := c14Try(func() { st = c.store.Load() })
	c.o.Op(c14Model, "load", c14LoadText(p, &st))
	if _, ok := c.saved[c.head]; !ok || !c.kept[c.head] {
		return // nothing was saved for the head (malformed save / pruned): the property is silent
	}
	if p {
		if !c.blamePrune(c.head, "Load") {
			c.viol("load-panics", fmt.Sprintf("height=%d Load panicked: %s", c.head, msg))
		}
		return
	}
	if st.IsEmpty() {
		c.viol("load-empty", fmt.Sprintf("height=%d a state was saved for the head but Load returns the empty state", c.head))
		return
	}
	c.o.Stat("load-head-compared")
	c.oracleHead(st)
}

// prevHeight: the height saved just before h in the history
func (c *c14Run) prevSaved(h uint64) (LatestBlockState, bool) {
	for i, x := range c.order {
		if x == h && i > 0 {
			s, ok := c.saved[c.order[i-1]]
			return s, ok
		}
	}
	return LatestBlockState{}, false
}

// lastPrune: the most recent PruneState(a,b) and what existed just before it
type c14PruneInfo struct {
	a, b      uint64
	present   map[common.Hash]bool   // validator-info records present before the prune
	pruned    []uint64               // heights whose state the prune had to delete
	lastKeys  map[common.Hash]uint64 // LastValidators key of a pruned state -> that height
	protected map[common.Hash]string // keys referenced by genesis / state b
	loadable  map[uint64]string      // loadStateAtHeight text before the prune, kept heights
	bExisted  bool                   // state b existed (and was kept) when the prune ran
}

var c14LastPrune *c14PruneInfo

func c14SetHash(vs *types.ValidatorSet) common.Hash {
	if vs == nil {
		return common.NewZeroHash()
	}
	return vs.Hash()
}

// blamePrune: state k (kept) cannot be loaded. If the cause is a validator-info record that the
// last PruneState deleted, classify by root cause and report; returns false when the prune is not
// the cause.
func (c *c14Run) blamePrune(k uint64, what string) bool {
	pi := c14LastPrune
	if pi == nil {
		return false
	}
	if c.broken[k] {
		c.o.Stat("kept-state-still-broken")
		return true
	}
	s := c.saved[k]
	reported := false
	best := 0 // 3 protected, 2 unrelated, 1 referenced (the known root cause)
	bestSig, bestDetail := "", ""
	for _, fs := range []struct {
		f string
		v *types.ValidatorSet
	}{{"LastValidators", s.LastValidators}, {"Validators", s.Validators}, {"NextValidators", s.NextValidators}} {
		if fs.v == nil {
			continue
		}
		hash := fs.v.Hash()
		if !pi.present[hash] || rawdb.ReadConsensusValidatorsInfo(c.db, hash) != nil {
			continue
		}
		// the record existed before the prune and is gone now
		detail := fmt.Sprintf("PruneState(%d,%d) deleted the validator-set record %s (addresses and powers %s) referenced by kept state %d as %s; %s(%d) fails",
			pi.a, pi.b, hash.Hex()[:14], c14MembText(fs.v), k, fs.f, what, k)
		reported = true
		rank, sig := 0, ""
		if why, ok := pi.protected[hash]; ok {
			rank, sig = 3, "prune-deletes-protected-valset"
			detail += "; the record is referenced by " + why + ", which PruneState promises to protect"
		} else if k == 0 || (k == pi.b && pi.bExisted) {
			rank, sig = 3, "prune-deletes-protected-valset"
			detail += "; genesis and the first kept state must stay loadable"
		} else if ph, ok := pi.lastKeys[hash]; !ok {
			rank, sig = 2, "prune-deletes-unrelated-valset"
			detail += "; no pruned state used it as LastValidators"
		} else {
			rank, sig = 1, "prune-deletes-referenced-valset"
			detail += fmt.Sprintf("; it was the LastValidators key of pruned state %d and only genesis and state %d protect records", ph, pi.b)
		}
		if rank > best {
			best, bestSig, bestDetail = rank, sig, detail
		}
	}
	if reported {
		c.viol(bestSig, bestDetail)
	}
	if reported {
		c.broken[k] = true
	}
	return reported
}

// scan: loadat / loadvals / loadparams at every height 0..top, model comparison + oracle
func (c *c14Run) scan(afterPrune bool) {
	top := c.head + 1
	for h := uint64(0); h <= top; h++ {
		s, have := c.saved[h]
		kept := have && c.kept[h]
		// loadStateAtHeight
		var st *LatestBlockState
		p, msg := c14Try(func() { st = loadStateAtHeight(c.db, h) })
		text := c14LoadText(p, st)
		c.o.Op(c14Model, fmt.Sprintf("loadat %d", h), text)
		if kept {
			if p {
				if !c.blamePrune(h, "loadStateAtHeight") {
					c.viol("loadat-panics", fmt.Sprintf("height=%d loadStateAtHeight of a kept state panicked: %s", h, msg))
				}
			} else if st == nil {
				if afterPrune {
					c.viol("prune-deleted-kept-state", fmt.Sprintf("height=%d state record missing after PruneState(%d,%d)", h, c14LastPrune.a, c14LastPrune.b))
				} else {
					c.viol("loadat-missing-state", fmt.Sprintf("height=%d state was saved but no record is found", h))
				}
			} else {
				c.o.Stat("loadat-kept-ok")
				if st.LastBlockHeight != h {
					c.viol("load-wrong-height", fmt.Sprintf("height=%d loadStateAtHeight returned LastBlockHeight=%d", h, st.LastBlockHeight))
				}
				if afterPrune && c14LastPrune != nil {
					if before, ok := c14LastPrune.loadable[h]; ok && before != text {
						c.viol("prune-changes-loaded-state", fmt.Sprintf("height=%d before=%s after=%s", h, before, text))
					}
				}
			}
		}
		// LoadValidators
		var vs *types.ValidatorSet
		var err error
		p, msg = c14Try(func() { vs, err = c.store.LoadValidators(h) })
		vt := "panic"
		if !p {
			switch err.(type) {
			case nil:
				vt = "ok " + c14SetText(vs)
			case ErrNoConsensusStateForHeight:
				vt = "nostate"
			case ErrNoValSetForHeight:
				vt = "novalset"
			default:
				vt = "err"
			}
		}
		c.o.Op(c14Model, fmt.Sprintf("loadvals %d", h), vt)
		if kept && h > 0 {
			if p || err != nil {
				if !c.blamePrune(h, "LoadValidators") {
					c.viol("loadvals-error", fmt.Sprintf("height=%d LoadValidators of a kept state fails: %v %s", h, err, msg))
				}
			} else {
				// the set entitled to sign h is the Validators of the state before block h
				ent := s.LastValidators
				src := "LastValidators"
				if prev, ok := c.prevSaved(h); ok && prev.Validators != nil {
					ent = prev.Validators
					src = fmt.Sprintf("Validators@%d", prev.LastBlockHeight)
				}
				if c14MembText(ent) != c14MembText(vs) {
					c.viol("loadvals-wrong-set", fmt.Sprintf("height=%d entitled(%s)=%s loaded=%s", h, src, c14SetText(ent), c14SetText(vs)))
				} else {
					c.o.Stat("loadvals-entitled-ok")
					c.compareSet("loadvals", h, "LastValidators", ent, vs, false)
				}
			}
		}
		// LoadConsensusParams
		var cp kproto.ConsensusParams
		p, msg = c14Try(func() { cp, err = c.store.LoadConsensusParams(h) })
		pt := "panic"
		if !p {
			if err != nil {
				pt = "err"
			} else {
				pt = "ok " + vfHex(c14ParamsBytes(cp))
			}
		}
		c.o.Op(c14Model, fmt.Sprintf("loadparams %d", h), pt)
		if kept {
			if p {
				c.viol("loadparams-panics", fmt.Sprintf("height=%d %s", h, msg))
			} else if err != nil {
				if afterPrune {
					c.viol("prune-deletes-params", fmt.Sprintf("height=%d LoadConsensusParams fails after PruneState: %v", h, err))
				} else {
					c.viol("loadparams-error", fmt.Sprintf("height=%d %v", h, err))
				}
			} else if !bytes.Equal(c14ParamsBytes(cp), c14ParamsBytes(s.ConsensusParams)) {
				c.viol("loadparams-differ", fmt.Sprintf("height=%d saved=%s loaded=%s", h, s.ConsensusParams.String(), cp.String()))
			} else {
				c.o.Stat("loadparams-ok")
			}
		}
	}
}

func (c *c14Run) prune(a, b uint64) {
	pi := &c14PruneInfo{a: a, b: b, present: map[common.Hash]bool{}, lastKeys: map[common.Hash]uint64{},
		protected: map[common.Hash]string{}, loadable: map[uint64]string{}}
	from := a
	if from == 0 {
		from = 1
	}
	for _, x := range c.allSets {
		if rawdb.ReadConsensusValidatorsInfo(c.db, x.hash) != nil {
			pi.present[x.hash] = true
		}
	}
	for h := range c.saved {
		if !c.kept[h] {
			continue
		}
		if h >= from && h < b {
			pi.pruned = append(pi.pruned, h)
			pi.lastKeys[c14SetHash(c.saved[h].LastValidators)] = h
		}
	}
	for _, ph := range []uint64{0, b} {
		if s, ok := c.saved[ph]; ok && c.kept[ph] && !(ph >= from && ph < b) {
			why := "the genesis state"
			if ph == b {
				pi.bExisted = true
			}
			if ph != 0 {
				why = fmt.Sprintf("state %d (the first kept state)", ph)
			}
			for _, v := range []*types.ValidatorSet{s.LastValidators, s.Validators, s.NextValidators} {
				if v != nil {
					if _, dup := pi.protected[v.Hash()]; !dup {
						pi.protected[v.Hash()] = why
					}
				}
			}
		}
	}
	for h := range c.saved {
		if c.kept[h] && !(h >= from && h < b) {
			var st *LatestBlockState
			if p, _ := c14Try(func() { st = loadStateAtHeight(c.db, h) }); !p && st != nil {
				pi.loadable[h] = c14StateText(*st)
			}
		}
	}
	var n1, n2 uint64
	p := vfGuard(c.o, "prune-panics", func() string { return fmt.Sprintf("case=%s PruneState(%d,%d)", c.tag, a, b) }, func() {
		n1, n2, _ = c.store.PruneState(a, b)
	})
	real := fmt.Sprintf("%d %d", n1, n2)
	if p {
		real = "panic"
	}
	c.o.Op(c14Model, fmt.Sprintf("prune %d %d", a, b), real)
	c.o.Stat("prune")
	if n2 > 0 {
		c.o.Stat("prune-deleted-valinfos")
	}
	for _, h := range pi.pruned {
		c.kept[h] = false
	}
	c14LastPrune = pi
	c.loadHead()
	c.scan(true)
}

func c14Params(r *vfRand) kproto.ConsensusParams {
	return kproto.ConsensusParams{
		Block:    kproto.BlockParams{MaxBytes: int64(1000 + r.Intn(100000)), MaxGas: uint64(r.Intn(3000000)), TimeIotaMs: int64(r.Pick(0, 1, 1000))},
		Evidence: kproto.EvidenceParams{MaxAgeNumBlocks: int64(r.Intn(200000)), MaxAgeDuration: time.Duration(r.Intn(100)) * time.Hour, MaxBytes: int64(r.Intn(2000000))},
	}
}

func c14Updates(cur *types.ValidatorSet, target c14Memb) []*types.Validator {
	var ups []*types.Validator
	have := map[int]int64{}
	for _, v := range cur.Validators {
		have[c14Idx(v.Address)] = v.VotingPower
	}
	idxs := make([]int, 0, 8)
	for i := range have {
		idxs = append(idxs, i)
	}
	for i := range target {
		if _, ok := have[i]; !ok {
			idxs = append(idxs, i)
		}
	}
	sort.Ints(idxs)
	for _, i := range idxs {
		hp, inCur := have[i]
		tp, inT := target[i]
		switch {
		case inCur && !inT:
			ups = append(ups, types.NewValidator(c14Addr(i), 0))
		case inT && (!inCur || hp != tp):
			ups = append(ups, types.NewValidator(c14Addr(i), tp))
		}
	}
	return ups
}

func c14RunPlan(o *vfOut, r *vfRand, tag string, plan c14Plan) {
	db := memorydb.New()
	c := &c14Run{o: o, r: r, db: db, store: NewStore(db), saved: map[uint64]LatestBlockState{}, kept: map[uint64]bool{}, broken: map[uint64]bool{}, tag: tag}
	c14LastPrune = nil
	o.Op(c14Model, "case "+tag, "ok")
	o.Stat("family:" + plan.name)

	// genesis-like state, as MakeGenesisState builds it
	var gv []*types.Validator
	gk := make([]int, 0)
	for i := range plan.genesis {
		gk = append(gk, i)
	}
	sort.Ints(gk)
	for _, i := range gk {
		gv = append(gv, types.NewValidator(c14Addr(i), plan.genesis[i]))
	}
	vset := types.NewValidatorSet(gv)
	params := c14Params(r)
	_, hdr := c.writeBlock(0, 0)
	bid := types.BlockID{} // as MakeGenesisState: no last block, no app hash
	state := LatestBlockState{
		ChainID: fmt.Sprintf("c14-%d", r.Intn(100)), InitialHeight: plan.ih,
		LastBlockHeight: 0, LastBlockID: bid, LastBlockTime: hdr.Time, LastBlockTotalTx: hdr.NumTxs,
		NextValidators: vset.CopyIncrementProposerPriority(1), Validators: vset, LastValidators: nil,
		LastHeightValidatorsChanged: plan.ih, ConsensusParams: params, LastHeightConsensusParamsChanged: plan.ih,
		AppHash: common.Hash{},
	}
	rawdb.WriteAppHash(c.db, 0, common.BytesToHash(r.Bytes(32))) // genesis.Commit writes the genesis block's app hash
	if !c.save(state) {
		o.Viol("save-panics", "case="+tag+" genesis state")
		return
	}
	c.loadHead()
	logger := log.New()
	changes := 0
	returned := false
	seenMemb := map[string]int{c14MembText(state.NextValidators): 0}
	lastMemb := c14MembText(state.NextValidators)
	prunesDone := 0
	for i, stp := range plan.steps {
		h := plan.ih + uint64(i)
		ntx := 0
		if r.Chance(40) {
			ntx = 1 + r.Intn(3)
		}
		bid, hdr := c.writeBlock(h, ntx)
		var ups []*types.Validator
		if stp.target != nil {
			ups = c14Updates(state.NextValidators, stp.target)
		}
		var ns LatestBlockState
		var err error
		if vfGuard(o, "updatestate-panics", func() string { return "case=" + tag }, func() {
			ns, err = updateState(logger, state, bid, hdr, ups)
		}) || err != nil {
			o.Stat("updatestate-error")
			return
		}
		ns.AppHash = common.BytesToHash(r.Bytes(32))
		ns.LastBlockTotalTx = hdr.NumTxs
		// updateState drops LastHeightConsensusParamsChanged; the history carries it
		ns.LastHeightConsensusParamsChanged = state.LastHeightConsensusParamsChanged
		if stp.paramsBump {
			ns.ConsensusParams = c14Params(r)
			ns.LastHeightConsensusParamsChanged = h + 1
			o.Stat("params-change")
		}
		if len(ups) > 0 {
			changes++
			o.Stat("valset-change")
		}
		m := c14MembText(ns.NextValidators)
		if m != lastMemb {
			if _, ok := seenMemb[m]; ok {
				returned = true
				o.Stat("membership-returns")
			}
			seenMemb[m] = i
			lastMemb = m
		}
		if stp.malformed != 0 {
			bad := c14CopyState(ns)
			switch stp.malformed {
			case 1:
				bad.LastValidators = nil
			case 2:
				bad.NextValidators = nil
			case 3:
				bad.NextValidators.Proposer = nil
			}
			o.Stat("malformed-save")
			c.save(bad)
			c.loadHead()
			c.scan(false)
			o.Case(tag+plan.name, true)
			return
		}
		if !c.save(ns) {
			o.Viol("save-panics", fmt.Sprintf("case=%s height=%d Save panicked on a state produced by updateState", tag, h))
			return
		}
		state = ns
		c.loadHead()
		if plan.midPrune == i+1 && prunesDone < len(plan.prunes) {
			pr := plan.prunes[prunesDone]
			prunesDone++
			if pr[1] > c.head { // old states only: the head state is never pruned while the chain goes on
				pr[1] = c.head
			}
			c.prune(pr[0], pr[1])
		}
	}
	c.scan(false)
	for ; prunesDone < len(plan.prunes); prunesDone++ {
		pr := plan.prunes[prunesDone]
		c.prune(pr[0], pr[1])
	}
	if changes > 0 {
		o.Stat("case-with-changes")
	}
	if returned {
		o.Stat("case-with-return")
	}
	key := fmt.Sprintf("%s|%v|%d|%v|%v", plan.name, plan.genesis, plan.ih, plan.steps, plan.prunes)
	o.Case(key, len(plan.steps) >= 2)
	o.Sample(fmt.Sprintf("%s ih=%d genesis=%s steps=%d changes=%d prunes=%v head=%d", plan.name, plan.ih, c14MembKey(plan.genesis), len(plan.steps), changes, plan.prunes, c.head))
}

func TestVerifC14(t *testing.T) {
	o := vfOpen()
	defer o.Close()
	n := vfN(200)
	for i := 0; i < n; i++ {
		r := vfFork(vfSeed(), uint64(i))
		tag := fmt.Sprintf("%d.%d", vfSeed(), i)
		switch i {
		case 0:
			c14RunPlan(o, r, tag, c14PlanF4())
		case 1:
			c14RunPlan(o, r, tag, c14PlanF5())
		default:
			c14RunPlan(o, r, tag, c14RandPlan(r))
		}
	}
}
