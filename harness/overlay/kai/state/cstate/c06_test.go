package cstate

// C06 harness (a): the validator-set update applied to consensus does not depend on the order in
// which the application reports validators, nor on Go's map iteration order.
//
// Real code driven: calculateValidatorSetUpdates (ranges over a Go map for the removals),
// updateState (Copy + ValidatorSet.UpdateWithChangeSet + IncrementProposerPriority(1)).
//
//   * correspondence: every (last set, reported list in the order given) is an op of the Lean model
//     `valupdates` (KV.Model.ValUpdates + C12's KV.Model.ValSet); canonical output = the change
//     list sorted by address + the resulting set (addresses, powers, priorities, proposer, cached
//     total, "validators changed" flag) or the error class;
//   * oracle (from the property text, independent of the model): the same reported validators in
//     several orders, each order run >= 5 times (Go randomises the iteration of every `range` over
//     a map), must give the same canonical change list and the same resulting state
//     (`valupdates-order-dependent`, `valupdates-run-dependent`, `valset-update-order-dependent`);
//     the change list is exactly {reported validators whose power is new or different} plus one
//     removal per last validator that is not reported (`valupdates-wrong-changes`).

import (
	"bytes"
	"fmt"
	"math/big"
	"sort"
	"strings"
	"testing"
	"time"

	"github.com/kardiachain/go-kardia/lib/common"
	"github.com/kardiachain/go-kardia/lib/log"
	"github.com/kardiachain/go-kardia/types"
)

const c06Model = "valupdates"

var c06Addrs = func() []common.Address {
	mk := func(first byte, mid byte, last byte) common.Address {
		var a common.Address
		a[0] = first
		a[10] = mid
		a[19] = last
		return a
	}
	return []common.Address{
		mk(0, 0, 0), mk(0, 0, 1), mk(0, 0, 2), mk(0, 0, 0xff), mk(0, 1, 0), mk(1, 0, 0),
		mk(2, 0, 0), mk(0xff, 0xff, 0xff), mk(0, 0, 0x80), mk(0x80, 0, 0), mk(0, 1, 1), mk(0x7f, 0, 3),
		mk(0x10, 0x20, 0x30), mk(0, 0xff, 0),
	}
}()

func c06AddrText(a common.Address) string { return new(big.Int).SetBytes(a[:]).String() }

func c06ShowVals(vals []*types.Validator) string {
	if len(vals) == 0 {
		return "-"
	}
	parts := make([]string, len(vals))
	for i, v := range vals {
		parts[i] = fmt.Sprintf("%s:%d:%d", c06AddrText(v.Address), v.VotingPower, v.ProposerPriority)
	}
	return strings.Join(parts, ",")
}

func c06ShowSet(vs *types.ValidatorSet) string {
	p := "nil"
	if vs.Proposer != nil {
		p = c06AddrText(vs.Proposer.Address)
	}
	return fmt.Sprintf("T=%d P=%s V=%s", vs.TotalVotingPower(), p, c06ShowVals(vs.Validators))
}

// canonical form of a change list: stable sort by address
func c06Canon(cs []*types.Validator) string {
	s := append([]*types.Validator{}, cs...)
	sort.SliceStable(s, func(i, j int) bool { return bytes.Compare(s[i].Address[:], s[j].Address[:]) < 0 })
	return "C=" + c06ShowVals(s)
}

func c06CopyVals(vals []*types.Validator) []*types.Validator {
	out := make([]*types.Validator, len(vals))
	for i, v := range vals {
		out[i] = &types.Validator{Address: v.Address, VotingPower: v.VotingPower, ProposerPriority: v.ProposerPriority}
	}
	return out
}

func c06ErrClass(err error) string {
	s := err.Error()
	switch {
	case strings.Contains(s, types.ErrTotalVotingPowerOverflow.Error()):
		return "overflow"
	case strings.Contains(s, "duplicate entry"):
		return "dup"
	case strings.Contains(s, "voting power can't be negative"):
		return "neg"
	case strings.Contains(s, "to prevent clipping/overflow"):
		return "cap"
	case strings.Contains(s, "cannot process validators with voting power 0"):
		return "zero"
	case strings.Contains(s, "failed to find validator"):
		return "unknown"
	case strings.Contains(s, "applying the validator changes would result in empty set"):
		return "empty"
	}
	return "other"
}

const c06Height = 5

// the real updateState on a state whose NextValidators is (a copy of) `set`
func c06Update(logger log.Logger, set *types.ValidatorSet, ups []*types.Validator) (out string) {
	defer func() {
		if r := recover(); r != nil {
			out = "err panic"
		}
	}()
	st := LatestBlockState{
		ChainID: "c06", InitialHeight: 1, LastBlockHeight: c06Height - 1,
		NextValidators: set.Copy(), Validators: set.Copy(), LastValidators: set.Copy(),
		LastHeightValidatorsChanged: 1,
	}
	before := c06ShowSet(st.NextValidators)
	hdr := &types.Header{Height: c06Height, Time: time.Unix(1700000000, 0)}
	ns, err := updateState(logger, st, types.BlockID{}, hdr, ups)
	if err != nil {
		// the old state is returned untouched
		if c06ShowSet(ns.NextValidators) != before || ns.LastBlockHeight != c06Height-1 {
			return "err " + c06ErrClass(err) + " state-changed"
		}
		return "err " + c06ErrClass(err)
	}
	ch := 0
	if ns.LastHeightValidatorsChanged == c06Height+2 {
		ch = 1
	} else if ns.LastHeightValidatorsChanged != 1 {
		ch = 9
	}
	return fmt.Sprintf("ok %s ch=%d", c06ShowSet(ns.NextValidators), ch)
}

type c06Gen struct {
	r      *vfRand
	regime int
}

func (g *c06Gen) power(n int) int64 {
	r := g.r
	capv := int64(types.MaxTotalVotingPower)
	switch g.regime {
	case 0:
		return int64(1 + r.Intn(3))
	case 1:
		return int64(1 + r.Intn(1000))
	case 2:
		switch r.Intn(3) {
		case 0:
			return 1
		case 1:
			return int64(1) << 40
		default:
			return (int64(1) << 40) + int64(r.Intn(5)) - 2
		}
	case 3: // total near the cap
		return capv/int64(n+1) - int64(r.Intn(3))
	default:
		return 15000000 + int64(r.Intn(20))*1000000
	}
}

func c06Shuffle(r *vfRand, vs []*types.Validator) []*types.Validator {
	out := append([]*types.Validator{}, vs...)
	for i := len(out) - 1; i > 0; i-- {
		j := r.Intn(i + 1)
		out[i], out[j] = out[j], out[i]
	}
	return out
}

// specification of the change list, as a set: address -> power (0 = removal); "" when nothing to say
// (a validator reported twice: the code's output is order dependent by construction, see
// KV.C06.valupdates_dup_counterexample)
func c06SpecChanges(last, reported []*types.Validator) (map[common.Address]int64, bool) {
	if len(reported) == 0 {
		return map[common.Address]int64{}, true
	}
	old := map[common.Address]int64{}
	for _, v := range last {
		old[v.Address] = v.VotingPower
	}
	want := map[common.Address]int64{}
	seen := map[common.Address]bool{}
	for _, v := range reported {
		if seen[v.Address] {
			return nil, false
		}
		seen[v.Address] = true
		if p, ok := old[v.Address]; !ok || p != v.VotingPower {
			want[v.Address] = v.VotingPower
		}
	}
	for a := range old {
		if !seen[a] {
			want[a] = 0
		}
	}
	return want, true
}

func TestVerifC06(t *testing.T) {
	log.Root().SetHandler(log.DiscardHandler())
	logger := log.New()
	logger.SetHandler(log.DiscardHandler())
	o := vfOpen()
	defer o.Close()
	seed := vfSeed()
	n := vfN(300)
	for i := 0; i < n; i++ {
		c06Case(o, logger, vfFork(seed, uint64(i)), i)
	}
}

func c06Case(o *vfOut, logger log.Logger, r *vfRand, idx int) {
	g := &c06Gen{r: r, regime: r.Intn(5)}
	o.Op(c06Model, "case", "ok")
	desc := ""
	defer func() {
		if rec := recover(); rec != nil {
			o.Viol("panic-in-case", fmt.Sprintf("%v %s", rec, desc))
			o.Case(desc, true)
		}
	}()

	// ---- the last set: 1..8 validators, a few rounds of proposer rotation
	nv := 1 + r.Intn(8)
	perm := make([]int, len(c06Addrs)-1)
	for i := range perm {
		perm[i] = i + 1
	}
	for i := len(perm) - 1; i > 0; i-- {
		j := r.Intn(i + 1)
		perm[i], perm[j] = perm[j], perm[i]
	}
	init := make([]*types.Validator, nv)
	for i := 0; i < nv; i++ {
		init[i] = &types.Validator{Address: c06Addrs[perm[i]], VotingPower: g.power(nv)}
	}
	set := types.NewValidatorSet(init)
	if k := r.Pick(0, 0, 1, 2, 5, 17); k > 0 {
		set.IncrementProposerPriority(int64(k))
	}
	set.TotalVotingPower() // make sure the cache is filled: the text below reports it
	members := map[common.Address]bool{}
	for _, v := range set.Validators {
		members[v.Address] = true
	}
	nonMembers := []common.Address{}
	for _, p := range perm[nv:] {
		nonMembers = append(nonMembers, c06Addrs[p])
	}

	// ---- the reported list
	var rep []*types.Validator
	add := func(a common.Address, p int64) {
		rep = append(rep, &types.Validator{Address: a, VotingPower: p})
	}
	room := types.MaxTotalVotingPower - set.TotalVotingPower()
	family := r.Pick(0, 0, 0, 0, 0, 0, 1, 2, 3, 4, 5, 6, 7)
	fam := fmt.Sprintf("fam%d", family)
	mainFamily := func() {
		for _, v := range set.Validators {
			switch r.Intn(6) {
			case 0: // not reported: removed
			case 1, 2: // power changes
				p := g.power(nv)
				if p-v.VotingPower > room {
					p = v.VotingPower
				} else if p > v.VotingPower {
					room -= p - v.VotingPower
				}
				add(v.Address, p)
			default: // unchanged
				add(v.Address, v.VotingPower)
			}
		}
		for _, a := range nonMembers {
			if r.Intn(4) == 0 {
				p := g.power(nv)
				if p > room {
					p = 1 + int64(r.Intn(2))
					if p > room {
						continue
					}
				}
				room -= p
				add(a, p)
			}
		}
	}
	switch family {
	case 0:
		mainFamily()
	case 1: // the set itself: no change
		for _, v := range set.Validators {
			add(v.Address, v.VotingPower)
		}
	case 2: // empty report
	case 3: // nobody of the last set is reported: everybody removed, 0..2 newcomers
		for k := r.Intn(3); k > 0 && len(nonMembers) >= k; k-- {
			add(nonMembers[k-1], 1+int64(r.Intn(5)))
		}
		if len(rep) == 0 { // one member reported with power 0, nobody else: the set would become empty
			add(set.Validators[r.Intn(len(set.Validators))].Address, 0)
		}
	case 4: // a reported validator with power 0 (member: a removal; non member: unknown)
		mainFamily()
		if r.Bool() && len(nonMembers) > 0 {
			add(nonMembers[len(nonMembers)-1], 0)
		} else if len(rep) > 0 {
			rep[r.Intn(len(rep))].VotingPower = 0
		}
	case 5: // invalid powers / total above the cap
		mainFamily()
		if len(rep) > 0 {
			x := rep[r.Intn(len(rep))]
			switch r.Intn(3) {
			case 0:
				x.VotingPower = -int64(1 + r.Intn(9))
			case 1:
				x.VotingPower = types.MaxTotalVotingPower + 1 + int64(r.Intn(2))
			default:
				x.VotingPower = types.MaxTotalVotingPower - int64(r.Intn(3))
			}
		}
	case 6: // a validator reported twice (malformed application answer)
		mainFamily()
		if len(rep) > 0 {
			x := rep[r.Intn(len(rep))]
			add(x.Address, int64(r.Pick(int(x.VotingPower%1000), 1, 5, 7)))
		}
	case 7: // the zero address (quirk of processChanges: reported as a duplicate)
		mainFamily()
		add(c06Addrs[0], 1+int64(r.Intn(5)))
	}
	o.Stat(fam)
	desc = fmt.Sprintf("%s set=%s reported=%s", fam, c06ShowSet(set), c06ShowVals(rep))

	want, dupFree := c06SpecChanges(set.Validators, rep)

	// ---- several orders, each run several times
	orders := [][]*types.Validator{rep}
	if len(rep) > 1 {
		rev := make([]*types.Validator, len(rep))
		for i, v := range rep {
			rev[len(rep)-1-i] = v
		}
		orders = append(orders, rev)
		for k := 0; k < 2; k++ {
			orders = append(orders, c06Shuffle(r, rep))
		}
	}
	const repeats = 6
	firstCanon, firstRes := "", ""
	rawSeen := map[string]bool{}
	for oi, ord := range orders {
		inTxt := c06ShowVals(ord)
		orderCanon, orderRes := "", ""
		for k := 0; k < repeats; k++ {
			in := c06CopyVals(ord)
			lastIn := c06CopyVals(set.Validators)
			ups := calculateValidatorSetUpdates(lastIn, in)
			// inputs are not modified
			if c06ShowVals(in) != inTxt || c06ShowVals(lastIn) != c06ShowVals(set.Validators) {
				o.Viol("valupdates-modified-input", desc)
			}
			rawSeen[c06ShowVals(ups)] = true
			canon := c06Canon(ups)
			res := c06Update(logger, set, ups)
			if strings.HasSuffix(res, "state-changed") {
				o.Viol("updatestate-error-changed-state", fmt.Sprintf("%s order=%s result=%s", desc, inTxt, res))
			}
			if k == 0 {
				orderCanon, orderRes = canon, res
				// the specification of the change list, as a set
				if dupFree {
					got := map[common.Address]int64{}
					ok := len(ups) == len(want)
					for _, u := range ups {
						if _, dup := got[u.Address]; dup {
							ok = false
						}
						got[u.Address] = u.VotingPower
						if w, in := want[u.Address]; !in || w != u.VotingPower {
							ok = false
						}
					}
					if !ok {
						o.Viol("valupdates-wrong-changes", fmt.Sprintf("%s order=%s got=%s", desc, inTxt, canon))
					}
				}
			} else {
				if canon != orderCanon {
					o.Viol("valupdates-run-dependent", fmt.Sprintf("%s order=%s run0=%s run%d=%s", desc, inTxt, orderCanon, k, canon))
				}
				if res != orderRes {
					o.Viol("valset-update-run-dependent", fmt.Sprintf("%s order=%s changes=%s run0=%s run%d=%s", desc, inTxt, c06ShowVals(ups), orderRes, k, res))
				}
			}
		}
		if oi == 0 {
			firstCanon, firstRes = orderCanon, orderRes
		} else if dupFree {
			if orderCanon != firstCanon {
				o.Viol("valupdates-order-dependent", fmt.Sprintf("%s order0=%s order%d(%s)=%s", desc, firstCanon, oi, inTxt, orderCanon))
			}
			if orderRes != firstRes {
				o.Viol("valset-update-order-dependent", fmt.Sprintf("%s order0=%s order%d(%s)=%s", desc, firstRes, oi, inTxt, orderRes))
			}
		}
		o.Op(c06Model, fmt.Sprintf("vu %s R=%s", c06ShowSet(set), inTxt), orderCanon+" "+orderRes)
	}
	if len(rawSeen) > 1 {
		o.Stat("raw-order-varied") // the unsorted outputs really differ between runs / orders
	}
	switch {
	case strings.HasPrefix(firstRes, "ok") && strings.HasSuffix(firstRes, "ch=1"):
		o.Stat("res.changed")
	case strings.HasPrefix(firstRes, "ok"):
		o.Stat("res.unchanged")
	default:
		o.Stat("res." + strings.ReplaceAll(firstRes, " ", "-"))
	}
	if !dupFree {
		o.Stat("reported-with-duplicate")
	}

	// ---- calculateValidatorSetUpdates alone on arbitrary lists (a last list may name an
	// address twice: the later power wins in the map)
	if r.Chance(30) {
		last := c06CopyVals(set.Validators)
		if len(last) > 0 {
			x := last[r.Intn(len(last))]
			last = append(last, &types.Validator{Address: x.Address, VotingPower: x.VotingPower + int64(r.Intn(3))})
		}
		last = c06Shuffle(r, last)
		ord := c06Shuffle(r, rep)
		canon := ""
		for k := 0; k < repeats; k++ {
			ups := calculateValidatorSetUpdates(c06CopyVals(last), c06CopyVals(ord))
			c := c06Canon(ups)
			if k == 0 {
				canon = c
			} else if c != canon {
				o.Viol("valupdates-run-dependent", fmt.Sprintf("last=%s reported=%s run0=%s run%d=%s", c06ShowVals(last), c06ShowVals(ord), canon, k, c))
			}
		}
		o.Op(c06Model, fmt.Sprintf("calc L=%s R=%s", c06ShowVals(last), c06ShowVals(ord)), canon)
		o.Stat("calc.raw-lists")
	}
	o.Case(desc, len(rep) > 0)
	if idx < 3 {
		o.Sample(desc + " -> " + firstCanon + " " + firstRes)
	}
}
