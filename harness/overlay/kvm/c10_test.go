package kvm

// C10 harness: KVM (both instruction sets, plain and static call) against
//   (a) the Lean model `evm` (single frame; string-equal incl. gas left), and
//   (b) go-ethereum v1.9.15 core/vm as reference EVM (oracle: same status, return data, state and
//       logs whenever neither side ran out of gas),
// plus the monitors of the property statement on KVM itself: no panic, wall-clock bound, gas left <=
// gas given, determinism, no write inside a static call, failed frame leaves no change, stack <= 1024,
// call depth <= 1024, memory never larger than what the gas paid for.
//
// Reference rule set (documented in notes/C10.md): KVM's v1 table (pre-Galaxias) has the
// Constantinople opcodes (SHL/SHR/SAR, EXTCODEHASH, CREATE2) with the legacy (Petersburg) SSTORE
// rule plus SELFBALANCE; v2 (Galaxias) adds CHAINID.  So geth runs with Homestead..Petersburg = 0 and
// ExtraEips {1884} (v1) / {1884, 1344} (v2).  Gas schedules differ (KVM: SLOAD 50, CALL 40, constant
// gas charged twice before Galaxias for ops with dynamic gas), which is why gas is compared with the
// model only.  Documented divergences, excluded from the geth comparison: opcode 0x44 is GASLIMIT in
// KVM (DIFFICULTY in the EVM; the harness feeds geth Difficulty := GasLimit so that the values
// agree), 0x45 is undefined in KVM (GASLIMIT in the EVM), GAS (0x5a) observes the gas schedule,
// MaxCodeSize is 39231 instead of 24576.

import (
	"bytes"
	"encoding/hex"
	"fmt"
	"math/big"
	"sort"
	"strings"
	"testing"
	"time"

	"github.com/holiman/uint256"

	gcommon "github.com/ethereum/go-ethereum/common"
	grawdb "github.com/ethereum/go-ethereum/core/rawdb"
	gstate "github.com/ethereum/go-ethereum/core/state"
	gvm "github.com/ethereum/go-ethereum/core/vm"
	gparams "github.com/ethereum/go-ethereum/params"

	"github.com/kardiachain/go-kardia/configs"
	"github.com/kardiachain/go-kardia/kai/kaidb/memorydb"
	"github.com/kardiachain/go-kardia/kai/state"
	"github.com/kardiachain/go-kardia/lib/common"
	"github.com/kardiachain/go-kardia/lib/crypto"
)

// ---------------------------------------------------------------------------------------------
// programs

type vfProg struct {
	kind    string
	code    []byte            // code of account A (or init code when create)
	aux     map[byte][]byte   // code of helper accounts (address = 0x..00 <byte>)
	input   []byte
	storage map[uint64]uint64 // initial storage of A
	gas     uint64
	value   uint64
	create  bool
	multi   bool // a callee address may be entered more than once (per-callee monitors do not apply)
	noexec  bool // only build the pre-state and render it (used for the "nothing changed" monitors)
}

var (
	vfAddrA      = byte(0xa1)
	vfAddrB      = byte(0xb2)
	vfAddrC      = byte(0xc3)
	vfOriginByte = byte(0xee)
)

const (
	vfBlockHeight = 1000
	vfTime        = 1600000000
	vfGasLimit    = 8000000
	vfChainID     = 24
	vfGasPrice    = 7
	vfCoinbase    = byte(0xcb)
)

func vfMin(a, b int) int {
	if a < b {
		return a
	}
	return b
}

func vfA20(b byte) [20]byte { var a [20]byte; a[19] = b; return a }

func vfBlockHash(n uint64) [32]byte {
	var h [32]byte
	h[0] = 0xbb
	for i := 0; i < 8; i++ {
		h[31-i] = byte(n >> (8 * uint(i)))
	}
	return h
}

// ---------------------------------------------------------------------------------------------
// result of one run (either implementation)

type vfRes struct {
	status   string // ok | revert | err
	class    string // error class when status == err
	ret      []byte
	gasLeft  uint64
	storA    string // storage of A: sorted k:v (decimal), non-zero values
	world    string // all known accounts: balance, nonce, code, storage
	logs     string // logs of the model's format (topics/data) - address included in `logsFull`
	logsFull string
	mWorld   string // world in the model's format (decimal addresses)
	mLogs    string // logs in the model's format
	created  string // address returned by Create (decimal)
	precomp  bool   // a precompiled contract was entered (the model answers `unsupported`)
	ops      [256]bool // opcodes executed (any depth)
	reached  [256]bool // opcodes fetched (executed or failed in the checks before execution)
	oog      bool      // some frame ended out-of-gas-like, or an untraced child failure happened
	failed   []byte    // low address bytes of call frames that ended with an error (KVM only)
	staticW  string    // write opcode that got executed in a static context (KVM only)
	maxStack int
	maxDepth int
	maxMem   int
	panicked bool
	dur      time.Duration
}

func (r *vfRes) modelString() string {
	switch r.status {
	case "ok", "revert":
		return fmt.Sprintf("%s ret=%s storage=%s logs=%s gas=%d", r.status, vfHex(r.ret), r.storA, r.logs, r.gasLeft)
	}
	return fmt.Sprintf("err %s ret=- storage=%s logs=%s gas=%d", r.class, r.storA, r.logs, r.gasLeft)
}

// result in the format of the model ops `runw` / `create` (whole world, address-tagged logs)
func (r *vfRes) modelStringW() string {
	st := r.status
	if st == "err" {
		st = "err " + r.class
	}
	return fmt.Sprintf("%s ret=%s world=%s logs=%s gas=%d", st, vfHex(r.ret), r.mWorld, r.mLogs, r.gasLeft)
}

func (r *vfRes) key() string {
	return r.status + "/" + r.class + "/" + vfHex(r.ret) + "/" + fmt.Sprint(r.gasLeft) + "/" + r.world + "/" + r.logsFull
}

func vfIsOOGText(s string) bool {
	return strings.Contains(s, "out of gas") || strings.Contains(s, "gas uint64 overflow") ||
		strings.Contains(s, "not enough gas")
}

func vfKClass(err error) (string, string) {
	switch err {
	case nil:
		return "ok", ""
	case ErrExecutionReverted:
		return "revert", ""
	case ErrOutOfGas:
		return "err", "oog"
	case ErrGasUintOverflow:
		return "err", "gasovf"
	case ErrInvalidJump:
		return "err", "jump"
	case ErrWriteProtection:
		return "err", "wprot"
	case ErrReturnDataOutOfBounds:
		return "err", "retoob"
	case ErrDepth:
		return "err", "depth"
	case ErrInsufficientBalance:
		return "err", "balance"
	case ErrCodeStoreOutOfGas:
		return "err", "codestore"
	case ErrMaxCodeSizeExceeded:
		return "err", "maxcode"
	case ErrContractAddressCollision:
		return "err", "collision"
	}
	switch err.(type) {
	case *ErrStackUnderflow:
		return "err", "underflow"
	case *ErrStackOverflow:
		return "err", "overflow"
	case *ErrInvalidOpCode:
		return "err", "invalid"
	}
	return "err", "other:" + err.Error()
}

func vfIsWriteOp(op byte) bool {
	return op == 0x55 || (op >= 0xa0 && op <= 0xa4) || op == 0xf0 || op == 0xf5 || op == 0xff
}
func vfIsCallOp(op byte) bool {
	return op == 0xf1 || op == 0xf2 || op == 0xf4 || op == 0xfa || op == 0xf0 || op == 0xf5
}

// ---------------------------------------------------------------------------------------------
// KVM side

type vfKState struct {
	*state.StateDB
	touched map[common.Address]map[common.Hash]struct{}
	addrs   map[common.Address]struct{}
}

func (s *vfKState) SetState(a common.Address, k, v common.Hash) {
	m := s.touched[a]
	if m == nil {
		m = map[common.Hash]struct{}{}
		s.touched[a] = m
	}
	m[k] = struct{}{}
	s.addrs[a] = struct{}{}
	s.StateDB.SetState(a, k, v)
}
func (s *vfKState) CreateAccount(a common.Address) {
	s.addrs[a] = struct{}{}
	s.StateDB.CreateAccount(a)
}
func (s *vfKState) AddBalance(a common.Address, v *big.Int) {
	if v.Sign() != 0 {
		s.addrs[a] = struct{}{}
	}
	s.StateDB.AddBalance(a, v)
}

type vfKTracer struct {
	o         *vfOut
	r         *vfRes
	static    bool
	gasGiven  uint64
	errEvents int
	pending   map[int]int // depth -> errEvents when a call/create op was issued
	frames    []common.Address
	staticAt  int // depth from which execution is static (0 = never)
}

func (t *vfKTracer) CaptureStart(env *KVM, from common.Address, to common.Address, create bool, input []byte, gas uint64, value *big.Int) {
}
func (t *vfKTracer) noteErr(err error) {
	t.errEvents++
	if err == ErrOutOfGas || err == ErrGasUintOverflow || err == ErrCodeStoreOutOfGas {
		t.r.oog = true
	}
}
func (t *vfKTracer) CaptureState(pc uint64, op OpCode, gas, cost uint64, scope *ScopeContext, rData []byte, depth int, err error) {
	r := t.r
	sl := scope.Stack.len()
	if sl > r.maxStack {
		r.maxStack = sl
	}
	if depth > r.maxDepth {
		r.maxDepth = depth
	}
	if ml := scope.Memory.Len(); ml > r.maxMem {
		r.maxMem = ml
	}
	if p, ok := t.pending[depth]; ok {
		delete(t.pending, depth)
		if sl > 0 && scope.Stack.Back(0).IsZero() && p == t.errEvents {
			r.oog = true // child failed without a traced reason (precompile, depth, balance, code store)
		}
	}
	r.reached[byte(op)] = true
	if err != nil {
		t.noteErr(err)
		return
	}
	r.ops[byte(op)] = true
	if vfIsCallOp(byte(op)) {
		t.pending[depth] = t.errEvents
	}
	if t.staticAt != 0 && depth >= t.staticAt {
		if vfIsWriteOp(byte(op)) || (op == CALL && sl >= 3 && !scope.Stack.Back(2).IsZero()) {
			r.staticW = op.String()
		}
	}
	if op == STATICCALL && t.staticAt == 0 {
		t.staticAt = depth + 1
	}
}
func (t *vfKTracer) CaptureEnter(typ OpCode, from common.Address, to common.Address, input []byte, gas uint64, value *big.Int) {
	if _, ok := PrecompiledContractsV0[to]; ok {
		t.r.precomp = true
	}
	t.frames = append(t.frames, to)
}
func (t *vfKTracer) CaptureExit(output []byte, gasUsed uint64, err error) {
	if len(t.frames) == 0 {
		return
	}
	to := t.frames[len(t.frames)-1]
	t.frames = t.frames[:len(t.frames)-1]
	if err != nil {
		t.r.failed = append(t.r.failed, to[19])
	}
	// leaving the frame that made execution static
	if t.staticAt != 0 && len(t.frames)+2 < t.staticAt+1 && !t.static {
		if len(t.frames)+2 == t.staticAt {
			t.staticAt = 0
		}
	}
}
func (t *vfKTracer) CaptureFault(pc uint64, op OpCode, gas, cost uint64, scope *ScopeContext, depth int, err error) {
	if sl := scope.Stack.len(); sl > t.r.maxStack {
		t.r.maxStack = sl
	}
	t.noteErr(err)
}
func (t *vfKTracer) CaptureEnd(output []byte, gasUsed uint64, tm time.Duration, err error) {}

func vfKCanTransfer(db StateDB, a common.Address, v *big.Int) bool { return db.GetBalance(a).Cmp(v) >= 0 }
func vfKTransfer(db StateDB, from, to common.Address, v *big.Int) {
	db.SubBalance(from, v)
	db.AddBalance(to, v)
}

func vfDec32(h [32]byte) string { return new(big.Int).SetBytes(h[:]).String() }

type vfKV struct {
	k *big.Int
	s string
}

func vfSortKV(kvs []vfKV) string {
	if len(kvs) == 0 {
		return "-"
	}
	sort.Slice(kvs, func(i, j int) bool { return kvs[i].k.Cmp(kvs[j].k) < 0 })
	parts := make([]string, len(kvs))
	for i, e := range kvs {
		parts[i] = e.s
	}
	return strings.Join(parts, ",")
}

func vfLogText(topics [][32]byte, data []byte) string {
	ts := make([]string, len(topics))
	for i, t := range topics {
		ts[i] = vfDec32(t)
	}
	return strings.Join(ts, ".") + "/" + vfHex(data)
}

func vfRunKVM(o *vfOut, p *vfProg, post bool, static bool) *vfRes {
	r := &vfRes{}
	db, _ := state.New(common.Hash{}, state.NewDatabase(memorydb.New()), nil)
	st := &vfKState{StateDB: db, touched: map[common.Address]map[common.Hash]struct{}{}, addrs: map[common.Address]struct{}{}}
	origin := common.Address(vfA20(vfOriginByte))
	addrA := common.Address(vfA20(vfAddrA))
	db.CreateAccount(origin)
	db.SetBalance(origin, big.NewInt(1000000))
	st.addrs[origin] = struct{}{}
	if !p.create {
		db.CreateAccount(addrA)
		db.SetCode(addrA, p.code)
		db.SetBalance(addrA, big.NewInt(5000))
		st.addrs[addrA] = struct{}{}
		for k, v := range p.storage {
			kh := common.BigToHash(new(big.Int).SetUint64(k))
			db.SetState(addrA, kh, common.BigToHash(new(big.Int).SetUint64(v)))
			if st.touched[addrA] == nil {
				st.touched[addrA] = map[common.Hash]struct{}{}
			}
			st.touched[addrA][kh] = struct{}{}
		}
	}
	for b, c := range p.aux {
		a := common.Address(vfA20(b))
		db.CreateAccount(a)
		db.SetCode(a, c)
		db.SetBalance(a, big.NewInt(300))
		st.addrs[a] = struct{}{}
	}
	var gal *uint64
	if post {
		z := uint64(0)
		gal = &z
	}
	cc := &configs.ChainConfig{ChainID: big.NewInt(vfChainID), GalaxiasBlock: gal}
	ctx := BlockContext{
		CanTransfer: vfKCanTransfer, Transfer: vfKTransfer,
		GetHash:     func(n uint64) common.Hash { return common.Hash(vfBlockHash(n)) },
		Coinbase:    common.Address(vfA20(vfCoinbase)),
		GasLimit:    vfGasLimit,
		BlockHeight: big.NewInt(vfBlockHeight),
		Time:        big.NewInt(vfTime),
	}
	tr := &vfKTracer{o: o, r: r, static: static, gasGiven: p.gas, pending: map[int]int{}}
	if static {
		tr.staticAt = 1
	}
	vmenv := NewKVM(ctx, TxContext{Origin: origin, GasPrice: big.NewInt(vfGasPrice)}, st, cc, Config{Debug: true, Tracer: tr})
	var (
		ret  []byte
		left uint64
		err  error
	)
	t0 := time.Now()
	r.panicked = vfGuard(o, "panic-kvm", func() string { return vfProgText(p, post, static) }, func() {
		switch {
		case p.noexec:
		case p.create:
			var ca common.Address
			ret, ca, left, err = vmenv.Create(AccountRef(origin), p.code, p.gas, new(big.Int).SetUint64(p.value))
			r.created = new(big.Int).SetBytes(ca[:]).String()
		case static:
			ret, left, err = vmenv.StaticCall(AccountRef(origin), addrA, p.input, p.gas)
		default:
			ret, left, err = vmenv.Call(AccountRef(origin), addrA, p.input, p.gas, new(big.Int).SetUint64(p.value))
		}
	})
	r.dur = time.Since(t0)
	if r.panicked {
		r.status, r.class = "err", "panic"
		return r
	}
	r.status, r.class = vfKClass(err)
	if r.status == "err" && (r.class == "oog" || r.class == "gasovf" || r.class == "codestore") {
		r.oog = true
	}
	r.ret = append([]byte{}, ret...)
	if r.status == "err" {
		r.ret = nil
	}
	r.gasLeft = left
	// state
	var addrs []common.Address
	for a := range st.addrs {
		addrs = append(addrs, a)
	}
	sort.Slice(addrs, func(i, j int) bool { return bytes.Compare(addrs[i][:], addrs[j][:]) < 0 })
	var w, mw []string
	for _, a := range addrs {
		var kvs []vfKV
		for k := range st.touched[a] {
			v := db.GetState(a, k)
			if v != (common.Hash{}) {
				kb := new(big.Int).SetBytes(k[:])
				kvs = append(kvs, vfKV{kb, kb.String() + ":" + vfDec32(v)})
			}
		}
		s := vfSortKV(kvs)
		if a == addrA {
			r.storA = s
		}
		if db.Empty(a) && s == "-" {
			continue // never created, or creation reverted, or merely touched
		}
		code := db.GetCode(a)
		mw = append(mw, fmt.Sprintf("%s{b=%s n=%d c=%d s=%s}", new(big.Int).SetBytes(a[:]), db.GetBalance(a), db.GetNonce(a), len(code), s))
		w = append(w, fmt.Sprintf("%x{b=%s n=%d c=%d:%x s=%s x=%v}", a[:], db.GetBalance(a), db.GetNonce(a), len(code), vfSum(code), s, db.HasSuicided(a)))
	}
	if r.storA == "" {
		r.storA = "-"
	}
	r.world = strings.Join(w, " ")
	r.mWorld = strings.Join(mw, " ")
	var ls, lf, lm []string
	for _, l := range db.Logs() {
		ts := make([][32]byte, len(l.Topics))
		for i, t := range l.Topics {
			ts[i] = t
		}
		txt := vfLogText(ts, l.Data)
		ls = append(ls, txt)
		lf = append(lf, fmt.Sprintf("%x:%s", l.Address[19:], txt))
		lm = append(lm, fmt.Sprintf("%s:%s", new(big.Int).SetBytes(l.Address[:]), txt))
	}
	r.logs, r.logsFull, r.mLogs = "-", "-", "-"
	if len(ls) > 0 {
		r.logs, r.logsFull, r.mLogs = strings.Join(ls, ","), strings.Join(lf, ","), strings.Join(lm, ",")
	}
	return r
}

func vfSum(b []byte) uint32 {
	var h uint32 = 2166136261
	for _, c := range b {
		h = (h ^ uint32(c)) * 16777619
	}
	return h
}

// ---------------------------------------------------------------------------------------------
// reference side: go-ethereum v1.9.15

type vfGState struct {
	*gstate.StateDB
	touched map[gcommon.Address]map[gcommon.Hash]struct{}
	addrs   map[gcommon.Address]struct{}
}

func (s *vfGState) SetState(a gcommon.Address, k, v gcommon.Hash) {
	m := s.touched[a]
	if m == nil {
		m = map[gcommon.Hash]struct{}{}
		s.touched[a] = m
	}
	m[k] = struct{}{}
	s.addrs[a] = struct{}{}
	s.StateDB.SetState(a, k, v)
}
func (s *vfGState) CreateAccount(a gcommon.Address) {
	s.addrs[a] = struct{}{}
	s.StateDB.CreateAccount(a)
}
func (s *vfGState) AddBalance(a gcommon.Address, v *big.Int) {
	if v.Sign() != 0 {
		s.addrs[a] = struct{}{}
	}
	s.StateDB.AddBalance(a, v)
}

type vfGTracer struct {
	r         *vfRes
	errEvents int
	pending   map[int]int
}

func (t *vfGTracer) CaptureStart(from gcommon.Address, to gcommon.Address, create bool, input []byte, gas uint64, value *big.Int) error {
	return nil
}
func (t *vfGTracer) noteErr(err error) {
	t.errEvents++
	if vfIsOOGText(err.Error()) {
		t.r.oog = true
	}
}
func (t *vfGTracer) CaptureState(env *gvm.EVM, pc uint64, op gvm.OpCode, gas, cost uint64, memory *gvm.Memory, stack *gvm.Stack, rStack *gvm.ReturnStack, contract *gvm.Contract, depth int, err error) error {
	d := stack.Data()
	if p, ok := t.pending[depth]; ok {
		delete(t.pending, depth)
		if len(d) > 0 && d[len(d)-1].Sign() == 0 && p == t.errEvents {
			t.r.oog = true
		}
	}
	if err != nil {
		t.noteErr(err)
		return nil
	}
	t.r.ops[byte(op)] = true
	if vfIsCallOp(byte(op)) {
		t.pending[depth] = t.errEvents
	}
	return nil
}
func (t *vfGTracer) CaptureFault(env *gvm.EVM, pc uint64, op gvm.OpCode, gas, cost uint64, memory *gvm.Memory, stack *gvm.Stack, rStack *gvm.ReturnStack, contract *gvm.Contract, depth int, err error) error {
	t.noteErr(err)
	return nil
}
func (t *vfGTracer) CaptureEnd(output []byte, gasUsed uint64, tm time.Duration, err error) error {
	return nil
}

func vfGCanTransfer(db gvm.StateDB, a gcommon.Address, v *big.Int) bool {
	return db.GetBalance(a).Cmp(v) >= 0
}
func vfGTransfer(db gvm.StateDB, from, to gcommon.Address, v *big.Int) {
	db.SubBalance(from, v)
	db.AddBalance(to, v)
}

func vfRunGeth(o *vfOut, p *vfProg, post bool, static bool) *vfRes {
	r := &vfRes{}
	db, _ := gstate.New(gcommon.Hash{}, gstate.NewDatabase(grawdb.NewMemoryDatabase()), nil)
	st := &vfGState{StateDB: db, touched: map[gcommon.Address]map[gcommon.Hash]struct{}{}, addrs: map[gcommon.Address]struct{}{}}
	origin := gcommon.Address(vfA20(vfOriginByte))
	addrA := gcommon.Address(vfA20(vfAddrA))
	db.CreateAccount(origin)
	db.SetBalance(origin, big.NewInt(1000000))
	st.addrs[origin] = struct{}{}
	if !p.create {
		db.CreateAccount(addrA)
		db.SetCode(addrA, p.code)
		db.SetBalance(addrA, big.NewInt(5000))
		st.addrs[addrA] = struct{}{}
		for k, v := range p.storage {
			kh := gcommon.BigToHash(new(big.Int).SetUint64(k))
			db.SetState(addrA, kh, gcommon.BigToHash(new(big.Int).SetUint64(v)))
			if st.touched[addrA] == nil {
				st.touched[addrA] = map[gcommon.Hash]struct{}{}
			}
			st.touched[addrA][kh] = struct{}{}
		}
	}
	for b, c := range p.aux {
		a := gcommon.Address(vfA20(b))
		db.CreateAccount(a)
		db.SetCode(a, c)
		db.SetBalance(a, big.NewInt(300))
		st.addrs[a] = struct{}{}
	}
	z := new(big.Int)
	cc := &gparams.ChainConfig{ChainID: big.NewInt(vfChainID), HomesteadBlock: z, EIP150Block: z, EIP155Block: z,
		EIP158Block: z, ByzantiumBlock: z, ConstantinopleBlock: z, PetersburgBlock: z}
	eips := []int{1884}
	if post {
		eips = []int{1884, 1344}
	}
	tr := &vfGTracer{r: r, pending: map[int]int{}}
	ctx := gvm.Context{
		CanTransfer: vfGCanTransfer, Transfer: vfGTransfer,
		GetHash:     func(n uint64) gcommon.Hash { return gcommon.Hash(vfBlockHash(n)) },
		Origin:      origin, GasPrice: big.NewInt(vfGasPrice),
		Coinbase:    gcommon.Address(vfA20(vfCoinbase)),
		GasLimit:    vfGasLimit, // NB: KVM's opcode 0x44 is GASLIMIT; feed the same value as DIFFICULTY
		Difficulty:  big.NewInt(vfGasLimit),
		BlockNumber: big.NewInt(vfBlockHeight),
		Time:        big.NewInt(vfTime),
	}
	vmenv := gvm.NewEVM(ctx, st, cc, gvm.Config{Debug: true, Tracer: tr, ExtraEips: eips})
	var (
		ret  []byte
		left uint64
		err  error
	)
	r.panicked = vfGuardQuiet(func() {
		switch {
		case p.create:
			ret, _, left, err = vmenv.Create(gvm.AccountRef(origin), p.code, p.gas, new(big.Int).SetUint64(p.value))
		case static:
			ret, left, err = vmenv.StaticCall(gvm.AccountRef(origin), addrA, p.input, p.gas)
		default:
			ret, left, err = vmenv.Call(gvm.AccountRef(origin), addrA, p.input, p.gas, new(big.Int).SetUint64(p.value))
		}
	})
	if r.panicked {
		r.status = "panic"
		return r
	}
	switch {
	case err == nil:
		r.status = "ok"
	case err.Error() == "execution reverted" || strings.HasSuffix(err.Error(), "execution reverted"):
		r.status = "revert"
	default:
		r.status = "err"
		r.class = err.Error()
		if vfIsOOGText(err.Error()) {
			r.oog = true
		}
	}
	r.ret = append([]byte{}, ret...)
	if r.status == "err" {
		r.ret = nil
	}
	r.gasLeft = left
	var addrs []gcommon.Address
	for a := range st.addrs {
		addrs = append(addrs, a)
	}
	sort.Slice(addrs, func(i, j int) bool { return bytes.Compare(addrs[i][:], addrs[j][:]) < 0 })
	var w []string
	for _, a := range addrs {
		var kvs []vfKV
		for k := range st.touched[a] {
			v := db.GetState(a, k)
			if v != (gcommon.Hash{}) {
				kb := new(big.Int).SetBytes(k[:])
				kvs = append(kvs, vfKV{kb, kb.String() + ":" + vfDec32(v)})
			}
		}
		s := vfSortKV(kvs)
		if a == addrA {
			r.storA = s
		}
		if db.Empty(a) && s == "-" {
			continue // never created, or creation reverted, or merely touched
		}
		code := db.GetCode(a)
		w = append(w, fmt.Sprintf("%x{b=%s n=%d c=%d:%x s=%s x=%v}", a[:], db.GetBalance(a), db.GetNonce(a), len(code), vfSum(code), s, db.HasSuicided(a)))
	}
	r.world = strings.Join(w, " ")
	var lf []string
	for _, l := range db.Logs() {
		ts := make([][32]byte, len(l.Topics))
		for i, t := range l.Topics {
			ts[i] = t
		}
		lf = append(lf, fmt.Sprintf("%x:%s", l.Address[19:], vfLogText(ts, l.Data)))
	}
	r.logsFull = "-"
	if len(lf) > 0 {
		r.logsFull = strings.Join(lf, ",")
	}
	return r
}

func vfGuardQuiet(f func()) (panicked bool) {
	defer func() {
		if r := recover(); r != nil {
			panicked = true
		}
	}()
	f()
	return false
}

// ---------------------------------------------------------------------------------------------
// text forms

func vfStorText(m map[uint64]uint64) string {
	if len(m) == 0 {
		return "-"
	}
	ks := make([]uint64, 0, len(m))
	for k := range m {
		ks = append(ks, k)
	}
	sort.Slice(ks, func(i, j int) bool { return ks[i] < ks[j] })
	parts := make([]string, 0, len(ks))
	for _, k := range ks {
		parts = append(parts, fmt.Sprintf("%d:%d", k, m[k]))
	}
	return strings.Join(parts, ",")
}

func vfSetName(post bool) string {
	if post {
		return "post"
	}
	return "pre"
}
func vfB(b bool) int {
	if b {
		return 1
	}
	return 0
}

func vfProgText(p *vfProg, post, static bool) string {
	s := fmt.Sprintf("kind=%s set=%s ro=%d create=%d gas=%d value=%d code=%s input=%s storage=%s", p.kind, vfSetName(post), vfB(static),
		vfB(p.create), p.gas, p.value, vfHex(p.code), vfHex(p.input), vfStorText(p.storage))
	for b, c := range p.aux {
		s += fmt.Sprintf(" aux%x=%s", b, vfHex(c))
	}
	return s
}

func vfModelOp(p *vfProg, post, static bool) string {
	v := p.value
	if static {
		v = 0
	}
	return fmt.Sprintf("run set=%s ro=%d gas=%d value=%d code=%s input=%s storage=%s", vfSetName(post), vfB(static), p.gas, v,
		vfHex(p.code), vfHex(p.input), vfStorText(p.storage))
}

// opcodes the single-frame Lean model does not interpret (it answers `unsupported` when it reaches
// one of them after the stack / static / gas checks ... the harness simply does not ask).
func vfModelSupports(r *vfRes) bool {
	if r.precomp {
		return false
	}
	for _, op := range []byte{0x31, 0x3b, 0x3c, 0x3d, 0x3e, 0x3f, 0x40, 0x47, 0xf0, 0xf2, 0xf4, 0xf5, 0xff} {
		if r.reached[op] {
			return false
		}
	}
	return true
}

// ---------------------------------------------------------------------------------------------
// assembler for the grammar generators

type vfAsm struct {
	b      []byte
	labels map[int]int   // label id -> offset
	fix    map[int][]int // label id -> positions of the 2-byte operands
	nl     int
}

func vfNewAsm() *vfAsm { return &vfAsm{labels: map[int]int{}, fix: map[int][]int{}} }
func (a *vfAsm) op(ops ...byte) *vfAsm {
	a.b = append(a.b, ops...)
	return a
}
func (a *vfAsm) push(v *big.Int) *vfAsm {
	bs := v.Bytes()
	if len(bs) == 0 {
		bs = []byte{0}
	}
	if len(bs) > 32 {
		bs = bs[len(bs)-32:]
	}
	a.b = append(a.b, byte(0x5f+len(bs)))
	a.b = append(a.b, bs...)
	return a
}
func (a *vfAsm) pushU(v uint64) *vfAsm { return a.push(new(big.Int).SetUint64(v)) }
func (a *vfAsm) pushBytes(bs []byte) *vfAsm {
	a.b = append(a.b, byte(0x5f+len(bs)))
	a.b = append(a.b, bs...)
	return a
}
func (a *vfAsm) newLabel() int { a.nl++; return a.nl }
func (a *vfAsm) pushLabel(l int) *vfAsm {
	a.b = append(a.b, 0x61, 0, 0)
	a.fix[l] = append(a.fix[l], len(a.b)-2)
	return a
}
func (a *vfAsm) label(l int) *vfAsm {
	a.labels[l] = len(a.b)
	a.b = append(a.b, 0x5b)
	return a
}
func (a *vfAsm) bytes() []byte {
	for l, ps := range a.fix {
		off := a.labels[l]
		for _, p := range ps {
			a.b[p] = byte(off >> 8)
			a.b[p+1] = byte(off)
		}
	}
	return a.b
}

var vfTwo256 = new(big.Int).Lsh(big.NewInt(1), 256)

func vfPow2(n uint) *big.Int { return new(big.Int).Lsh(big.NewInt(1), n) }

// interesting 256-bit words
func vfWord(r *vfRand) *big.Int {
	switch r.Intn(14) {
	case 0:
		return big.NewInt(0)
	case 1:
		return big.NewInt(1)
	case 2:
		return big.NewInt(int64(r.Pick(2, 3, 7, 8, 15, 16, 30, 31, 32, 33, 63, 64, 127, 128, 254, 255, 256, 257)))
	case 3:
		return new(big.Int).Sub(vfTwo256, big.NewInt(int64(1+r.Intn(3)))) // -1, -2, -3
	case 4:
		return vfPow2(255) // min int
	case 5:
		return new(big.Int).Sub(vfPow2(255), big.NewInt(1)) // max int
	case 6:
		return vfPow2(uint(r.Intn(256)))
	case 7:
		return new(big.Int).Sub(vfPow2(uint(1+r.Intn(256))), big.NewInt(1))
	case 8:
		return new(big.Int).Sub(vfTwo256, vfPow2(uint(r.Intn(256)))) // negative power of two
	case 9:
		return new(big.Int).SetBytes(r.Bytes(1 + r.Intn(8)))
	case 10:
		b := r.Bytes(32)
		b[0] |= 0x80
		return new(big.Int).SetBytes(b)
	case 11:
		return new(big.Int).Add(vfPow2(uint(8*(1+r.Intn(31))-1)), big.NewInt(int64(r.Intn(3)-1)))
	default:
		return new(big.Int).SetBytes(r.Bytes(1 + r.Intn(32)))
	}
}

// ---------------------------------------------------------------------------------------------
// generators

func vfGenInput(r *vfRand) []byte {
	switch r.Intn(5) {
	case 0:
		return nil
	case 1:
		return r.Bytes(r.Pick(1, 4, 31, 32, 33))
	default:
		return r.Bytes(r.Intn(70))
	}
}
func vfGenStorage(r *vfRand) map[uint64]uint64 {
	m := map[uint64]uint64{}
	for i := r.Intn(4); i > 0; i-- {
		m[uint64(r.Intn(4))] = uint64(r.Intn(3)) * uint64(1+r.Intn(1000))
	}
	for k, v := range m {
		if v == 0 {
			delete(m, k)
		}
	}
	return m
}
func vfGenGas(r *vfRand) uint64 {
	switch r.Intn(8) {
	case 0:
		return uint64(r.Intn(60))
	case 1:
		return uint64(r.Intn(3000))
	case 2:
		return uint64(20000 + r.Intn(30000))
	default:
		return uint64(100000 + r.Intn(100000))
	}
}

var vfWeighted = func() []byte {
	var t []byte
	add := func(n int, ops ...byte) {
		for _, op := range ops {
			for i := 0; i < n; i++ {
				t = append(t, op)
			}
		}
	}
	for op := 0x01; op <= 0x0b; op++ {
		add(4, byte(op))
	}
	for op := 0x10; op <= 0x1d; op++ {
		add(4, byte(op))
	}
	add(4, 0x20, 0x35, 0x36, 0x37, 0x38, 0x39, 0x51, 0x52, 0x53, 0x54, 0x55, 0x59)
	add(2, 0x30, 0x32, 0x33, 0x34, 0x3a, 0x41, 0x42, 0x43, 0x44, 0x46, 0x58, 0x5a, 0x3d)
	add(1, 0x31, 0x3b, 0x3c, 0x3e, 0x3f, 0x40, 0x45, 0x47, 0x00, 0xf3, 0xfd, 0xfe, 0xff, 0xf0, 0xf1, 0xf2, 0xf4, 0xf5, 0xfa, 0x5c, 0x5d, 0x5e, 0x21, 0xb0)
	add(6, 0x50, 0x5b)
	add(3, 0x56, 0x57)
	for op := 0x60; op <= 0x7f; op++ {
		add(3, byte(op))
	}
	add(20, 0x60)
	for op := 0x80; op <= 0x9f; op++ {
		add(2, byte(op))
	}
	add(8, 0x80, 0x81, 0x90, 0x91)
	add(2, 0xa0, 0xa1, 0xa2, 0xa3, 0xa4)
	return t
}()

func vfGenRandom(r *vfRand) *vfProg {
	return &vfProg{kind: "random", code: r.Bytes(1 + r.Intn(64)), input: vfGenInput(r), storage: vfGenStorage(r), gas: vfGenGas(r), value: uint64(r.Intn(2) * r.Intn(100))}
}

func vfGenWeighted(r *vfRand) *vfProg {
	n := 1 + r.Intn(90)
	var c []byte
	for len(c) < n {
		op := vfWeighted[r.Intn(len(vfWeighted))]
		c = append(c, op)
		if op >= 0x60 && op <= 0x7f {
			k := int(op) - 0x5f
			if r.Chance(70) {
				// small operand (keeps memory offsets / jump targets plausible)
				d := make([]byte, k)
				d[k-1] = byte(r.Intn(n + 4))
				if r.Chance(15) {
					d[k-1] = byte(r.Intn(256))
				}
				c = append(c, d...)
			} else {
				c = append(c, r.Bytes(k)...)
			}
		}
	}
	if r.Chance(10) && len(c) > 3 {
		c = c[:len(c)-r.Intn(3)] // truncated push at the end
	}
	return &vfProg{kind: "weighted", code: c, input: vfGenInput(r), storage: vfGenStorage(r), gas: vfGenGas(r), value: uint64(r.Intn(2) * r.Intn(100))}
}

// ops by (pops, pushes) usable by the grammar generator without side conditions
var vfPure = map[int][]byte{
	1: {0x15, 0x19, 0x35, 0x54, 0x51},
	2: {0x01, 0x02, 0x03, 0x04, 0x05, 0x06, 0x07, 0x0a, 0x0b, 0x10, 0x11, 0x12, 0x13, 0x14, 0x16, 0x17, 0x18, 0x1a, 0x1b, 0x1c, 0x1d},
	3: {0x08, 0x09},
}
var vfNullary = []byte{0x30, 0x32, 0x33, 0x34, 0x36, 0x38, 0x3a, 0x41, 0x42, 0x43, 0x44, 0x58, 0x59, 0x46, 0x3d}

type vfGen struct {
	r     *vfRand
	a     *vfAsm
	depth int // abstract stack height
	budget int
}

func (g *vfGen) smallOff() uint64 { return uint64(g.r.Pick(0, 0, 1, 31, 32, 33, 64, 95, 96, 128, 200)) }
func (g *vfGen) smallLen() uint64 { return uint64(g.r.Pick(0, 0, 1, 2, 31, 32, 33, 64, 65)) }

// expr leaves exactly one more word on the stack
func (g *vfGen) expr(d int) {
	r := g.r
	g.budget--
	if d <= 0 || g.budget <= 0 || r.Chance(35) {
		switch r.Intn(10) {
		case 0, 1:
			g.a.op(vfNullary[r.Intn(len(vfNullary))])
		case 2:
			if g.depth > 0 {
				k := 1 + r.Intn(vfMin(g.depth, 16))
				g.a.op(byte(0x7f + k))
			} else {
				g.a.push(vfWord(r))
			}
		case 3:
			g.a.pushU(uint64(r.Intn(4)))
		default:
			g.a.push(vfWord(r))
		}
		g.depth++
		return
	}
	switch k := r.Intn(12); {
	case k < 2:
		ops := vfPure[1]
		op := ops[r.Intn(len(ops))]
		if op == 0x51 { // MLOAD small offset
			g.a.pushU(g.smallOff())
			g.depth++
		} else if op == 0x54 {
			g.a.pushU(uint64(r.Intn(4)))
			g.depth++
		} else if op == 0x35 {
			g.a.pushU(uint64(r.Pick(0, 1, 4, 31, 32, 60, 100)))
			g.depth++
		} else {
			g.expr(d - 1)
		}
		g.a.op(op)
	case k < 9:
		ops := vfPure[2]
		op := ops[r.Intn(len(ops))]
		g.expr(d - 1)
		if (op == 0x0b || op == 0x1a) && r.Chance(70) { // SIGNEXTEND / BYTE: small first operand
			g.a.pushU(uint64(r.Pick(0, 1, 15, 30, 31, 32, 33)))
			g.depth++
		} else if (op >= 0x1b && op <= 0x1d) && r.Chance(70) { // shifts
			g.a.pushU(uint64(r.Pick(0, 1, 7, 8, 128, 254, 255, 256, 257)))
			g.depth++
		} else if op == 0x0a && r.Chance(60) { // EXP small exponent on top? (base on top)
			g.a.push(vfWord(r))
			g.depth++
		} else {
			g.expr(d - 1)
		}
		g.a.op(op)
		g.depth--
	case k < 10:
		ops := vfPure[3]
		g.expr(d - 1)
		g.expr(d - 1)
		g.expr(d - 1)
		g.a.op(ops[r.Intn(len(ops))])
		g.depth -= 2
	case k < 11: // SHA3 over a small range
		g.a.pushU(g.smallLen()).pushU(g.smallOff()).op(0x20)
		g.depth++
	default: // MSIZE / GAS-free nullary
		g.a.op(0x59)
		g.depth++
	}
}

// stmt leaves the stack height unchanged
func (g *vfGen) stmt(d int) {
	r := g.r
	g.budget--
	switch k := r.Intn(20); {
	case k < 4: // MSTORE
		g.expr(2)
		g.a.pushU(g.smallOff()).op(0x52)
		g.depth--
	case k < 5: // MSTORE8
		g.expr(2)
		g.a.pushU(g.smallOff()).op(0x53)
		g.depth--
	case k < 8: // SSTORE
		if r.Chance(30) {
			g.a.pushU(0)
			g.depth++
		} else {
			g.expr(2)
		}
		g.a.pushU(uint64(r.Intn(4))).op(0x55)
		g.depth--
	case k < 9: // LOGn
		n := r.Intn(5)
		for i := 0; i < n; i++ {
			g.expr(1)
		}
		g.a.pushU(g.smallLen()).pushU(g.smallOff()).op(byte(0xa0 + n))
		g.depth -= n
	case k < 10: // CALLDATACOPY / CODECOPY
		g.a.pushU(g.smallLen()).pushU(uint64(r.Pick(0, 1, 30, 64, 1000))).pushU(g.smallOff()).op(byte(r.Pick(0x37, 0x39)))
	case k < 12: // if (expr) { stmts }
		if d > 0 {
			l := g.a.newLabel()
			g.expr(2)
			g.a.pushLabel(l).op(0x57)
			g.depth--
			for i := r.Intn(3); i >= 0; i-- {
				g.stmt(d - 1)
			}
			g.a.label(l)
		}
	case k < 13: // bounded loop: counter on the stack
		if d > 0 {
			n := uint64(1 + r.Intn(5))
			top, end := g.a.newLabel(), g.a.newLabel()
			g.a.pushU(n)
			g.depth++
			g.a.label(top)
			g.a.op(0x80, 0x15).pushLabel(end).op(0x57) // DUP1 ISZERO end JUMPI
			for i := r.Intn(2); i >= 0; i-- {
				g.stmt(d - 1)
			}
			g.a.pushU(1).op(0x90, 0x03) // 1 SWAP1 SUB
			g.a.pushLabel(top).op(0x56)
			g.a.label(end).op(0x50)
			g.depth--
		}
	case k < 15: // expression then POP
		g.expr(3)
		g.a.op(0x50)
		g.depth--
	case k < 17: // keep a value, swap things around
		g.expr(3)
		if g.depth >= 2 {
			k := 1 + r.Intn(vfMin(g.depth-1, 16))
			g.a.op(byte(0x8f + k))
		}
		g.a.op(0x50)
		g.depth--
	default:
		g.expr(2)
		g.a.pushU(uint64(r.Intn(4))).op(0x55)
		g.depth--
	}
}

func (g *vfGen) ending() {
	r := g.r
	switch r.Intn(8) {
	case 0:
		g.a.op(0x00)
	case 1:
		g.a.pushU(g.smallLen()).pushU(g.smallOff()).op(0xfd)
	case 2:
		g.a.op(0xfe)
	case 3: // fall off the end
	default:
		g.a.pushU(g.smallLen()).pushU(g.smallOff()).op(0xf3)
	}
}

func vfGenGrammar(r *vfRand) *vfProg {
	g := &vfGen{r: r, a: vfNewAsm(), budget: 60}
	// a few values kept on the stack to exercise DUP/SWAP
	for i := r.Intn(4); i > 0; i-- {
		g.expr(1)
	}
	for i := 1 + r.Intn(6); i > 0; i-- {
		g.stmt(2)
	}
	// store the top expression so that results are observable
	g.expr(3)
	g.a.pushU(0).op(0x52)
	g.depth--
	g.ending()
	gas := uint64(100000 + r.Intn(200000))
	if r.Chance(15) {
		gas = uint64(r.Intn(30000))
	}
	return &vfProg{kind: "grammar", code: g.a.bytes(), input: vfGenInput(r), storage: vfGenStorage(r), gas: gas, value: uint64(r.Intn(2) * r.Intn(100))}
}

// single ALU operation on boundary operands, result returned
func vfGenAlu(r *vfRand) *vfProg {
	a := vfNewAsm()
	ops := []byte{0x04, 0x05, 0x06, 0x07, 0x08, 0x09, 0x0a, 0x0b, 0x12, 0x13, 0x1a, 0x1b, 0x1c, 0x1d, 0x01, 0x02, 0x03, 0x10, 0x11, 0x14, 0x16, 0x17, 0x18}
	op := ops[r.Intn(len(ops))]
	c, b, x := vfWord(r), vfWord(r), vfWord(r)
	if (op == 0x0b || op == 0x1a) && r.Chance(75) {
		x = big.NewInt(int64(r.Intn(34)))
	}
	if op >= 0x1b && op <= 0x1d && r.Chance(75) {
		x = big.NewInt(int64(r.Pick(0, 1, 2, 7, 8, 9, 63, 64, 65, 127, 128, 129, 191, 192, 193, 254, 255, 256, 257, 300)))
	}
	if op == 0x0a && r.Chance(50) {
		b = big.NewInt(int64(r.Intn(300)))
	}
	if (op == 0x08 || op == 0x09) && r.Chance(20) {
		c = big.NewInt(int64(r.Intn(3)))
	}
	a.push(c).push(b).push(x).op(op)
	a.pushU(0).op(0x52).pushU(32).pushU(0).op(0xf3)
	return &vfProg{kind: "alu", code: a.bytes(), gas: 100000}
}

// boundary stacks: 1022..1026 items then an op at the boundary
func vfGenStack(r *vfRand) *vfProg {
	n := r.Pick(1021, 1022, 1023, 1023, 1024, 1024, 1025, 1026)
	var c []byte
	if r.Chance(50) {
		// straight line of one-byte pushers
		for i := 0; i < n; i++ {
			c = append(c, byte(r.Pick(0x58, 0x59, 0x36, 0x30, 0x33)))
		}
	} else {
		// loop: PUSH2 n ; top: JUMPDEST DUP1 ISZERO end JUMPI ; PC SWAP1 ; PUSH1 1 SWAP1 SUB ; top JUMP ; end: JUMPDEST POP
		a := vfNewAsm()
		top, end := a.newLabel(), a.newLabel()
		a.pushU(uint64(n))
		a.label(top).op(0x80, 0x15).pushLabel(end).op(0x57)
		a.op(0x58, 0x90).pushU(1).op(0x90, 0x03).pushLabel(top).op(0x56)
		a.label(end).op(0x50)
		c = a.bytes()
	}
	tails := [][]byte{{0x80}, {0x8f}, {0x90}, {0x9f}, {0x60, 0x01}, {0x7f}, {0x50}, {0x01}, {0x58}, {0x5b}, {0x59, 0x59}, {0x80, 0x80}, {0x15}, {0x3d}, {0x46}, {0x47}, {0x5a}}
	for i := 1 + r.Intn(2); i > 0; i-- {
		c = append(c, tails[r.Intn(len(tails))]...)
	}
	if r.Chance(50) {
		c = append(c, 0x00)
	}
	return &vfProg{kind: "stack", code: c, gas: uint64(r.Pick(60000, 80000, 200000)), input: vfGenInput(r)}
}

// memory offsets / sizes near 2^32, 2^64: must fail cleanly
func vfGenMem(r *vfRand) *vfProg {
	pick := func() *big.Int {
		b := []*big.Int{vfPow2(32), vfPow2(31), big.NewInt(0x1FFFFFFFE0), vfPow2(63), vfPow2(64), new(big.Int).Sub(vfPow2(64), big.NewInt(32)),
			vfPow2(128), new(big.Int).Sub(vfTwo256, big.NewInt(1)), big.NewInt(0), big.NewInt(32), big.NewInt(1 << 20), big.NewInt(1 << 24), vfPow2(40)}[r.Intn(13)]
		return new(big.Int).Add(b, big.NewInt(int64(r.Pick(0, 0, 1, 31, 32, 33)-r.Pick(0, 0, 1, 31, 32, 33))))
	}
	norm := func(x *big.Int) *big.Int {
		if x.Sign() < 0 {
			return big.NewInt(0)
		}
		return x
	}
	a := vfNewAsm()
	small := func() *big.Int { return big.NewInt(int64(r.Pick(0, 1, 32, 33, 64))) }
	off, sz := norm(pick()), norm(pick())
	switch r.Intn(3) {
	case 0:
		off = small()
	case 1:
		sz = small()
	}
	switch r.Intn(13) {
	case 0:
		a.push(off).op(0x51)
	case 1:
		a.pushU(1).push(off).op(0x52)
	case 2:
		a.pushU(1).push(off).op(0x53)
	case 3:
		a.push(sz).push(off).op(0x20)
	case 4:
		a.push(sz).push(norm(pick())).push(off).op(0x37)
	case 5:
		a.push(sz).push(norm(pick())).push(off).op(0x39)
	case 6:
		a.push(sz).push(off).op(0xf3)
	case 7:
		a.push(sz).push(off).op(0xfd)
	case 8:
		a.pushU(7).push(sz).push(off).op(0xa1)
	case 9:
		a.push(off).op(0x35)
	case 10:
		a.push(sz).push(norm(pick())).push(off).op(0x3e)
	case 11:
		a.push(sz).push(norm(pick())).push(off).pushU(uint64(vfAddrA)).op(0x3c)
	default:
		a.push(sz).push(off).pushU(0).op(0xf0)
	}
	a.pushU(0).op(0x52).pushU(32).pushU(0).op(0xf3)
	return &vfProg{kind: "mem", code: a.bytes(), input: vfGenInput(r), gas: uint64(r.Pick(100000, 2000000, 30000000))}
}

// SOURCE offsets of the copy/load instructions at and beyond the 64-bit boundary: the 256-bit data
// offset must saturate (zero padding), not wrap to its low 64 bits. Memory offset and length stay
// small so that the copied bytes are actually returned and compared with the reference.
func vfGenDataOff(r *vfRand) *vfProg {
	input := r.Bytes(r.Pick(33, 40, 64, 70))
	for i := range input {
		input[i] |= 1 // no zero bytes: zero padding and real data are told apart
	}
	low := int64(r.Pick(0, 0, 1, 2, 31, 32, len(input)-1, len(input), len(input)+1))
	base := []*big.Int{vfPow2(64), vfPow2(64), vfPow2(65), vfPow2(96), vfPow2(128), vfPow2(192), vfPow2(255),
		new(big.Int).Sub(vfTwo256, vfPow2(64)), vfPow2(63), vfPow2(32), big.NewInt(0)}[r.Intn(11)]
	off := new(big.Int).Add(base, big.NewInt(low))
	if r.Chance(10) {
		off = new(big.Int).Sub(vfTwo256, big.NewInt(1+int64(r.Intn(3))))
	}
	ln := uint64(r.Pick(1, 31, 32, 33, 64))
	mo := uint64(r.Pick(0, 0, 1, 32))
	a := vfNewAsm()
	switch r.Intn(6) {
	case 0, 1, 2: // CALLDATACOPY
		a.pushU(ln).push(off).pushU(mo).op(0x37)
	case 3: // CODECOPY
		a.pushU(ln).push(off).pushU(mo).op(0x39)
	case 4: // EXTCODECOPY of the executing contract's own address
		a.pushU(ln).push(off).pushU(mo).op(0x30, 0x3c)
	default: // CALLDATALOAD, stored to memory
		a.push(off).op(0x35).pushU(mo).op(0x52)
	}
	a.pushU(128).pushU(0).op(0xf3)
	return &vfProg{kind: "dataoff", code: a.bytes(), input: input, gas: 200000}
}

// jumps into push data, to valid / invalid destinations
func vfGenJump(r *vfRand) *vfProg {
	// layout: [PUSHn target] [cond] JUMP|JUMPI ; filler ; PUSHk <data containing 0x5b> ; JUMPDEST ; PUSH1 1 PUSH1 0 SSTORE ; STOP
	var body []byte
	k := 1 + r.Intn(32)
	data := r.Bytes(k)
	for i := range data {
		if r.Chance(40) {
			data[i] = 0x5b
		}
	}
	pre := 8 + r.Intn(4) // space reserved for the jump sequence
	body = append(body, make([]byte, pre)...)
	for i := range body {
		body[i] = 0x5b // harmless JUMPDEST filler
	}
	if r.Chance(30) {
		body[pre-1] = byte(0x60 + r.Intn(32)) // a PUSH whose data swallows following bytes
	}
	pushAt := len(body)
	body = append(body, byte(0x5f+k))
	body = append(body, data...)
	realDest := len(body)
	body = append(body, 0x5b, 0x60, 0x01, 0x60, 0x00, 0x55)
	if r.Chance(30) {
		body = append(body, byte(0x60+r.Intn(32))) // truncated push at the very end
	} else {
		body = append(body, 0x00)
	}
	var target *big.Int
	switch r.Intn(8) {
	case 0:
		target = big.NewInt(int64(realDest))
	case 1, 2, 3:
		target = big.NewInt(int64(pushAt + 1 + r.Intn(k)))
	case 4:
		target = big.NewInt(int64(len(body) + r.Intn(3) - 1))
	case 5:
		target = new(big.Int).Add(vfPow2(uint(r.Pick(32, 64, 128))), big.NewInt(int64(realDest)))
	case 6:
		target = big.NewInt(int64(r.Intn(len(body))))
	default:
		target = big.NewInt(int64(pushAt))
	}
	a := vfNewAsm()
	if r.Bool() {
		a.pushU(uint64(r.Intn(2)))
		a.push(target).op(0x57)
	} else {
		a.push(target).op(0x56)
	}
	seq := a.bytes()
	if len(seq) <= pre {
		copy(body, seq)
	} else { // long target: prepend instead (destinations shift; still a valid test of the analysis)
		body = append(seq, body...)
	}
	return &vfProg{kind: "jump", code: body, gas: 100000}
}

// nested frames: A calls B (which may call C); B writes/logs and then succeeds, reverts or fails
func vfGenCallee(r *vfRand, next byte, callOp byte) []byte {
	a := vfNewAsm()
	for i := 1 + r.Intn(3); i > 0; i-- {
		switch r.Intn(4) {
		case 0:
			a.pushU(uint64(1 + r.Intn(9))).pushU(uint64(r.Intn(3))).op(0x55)
		case 1:
			a.pushU(uint64(r.Intn(100))).pushU(uint64(r.Intn(33))).pushU(0).op(0xa1)
		case 2:
			a.op(0x33, 0x34, 0x01).pushU(0).op(0x52) // CALLER + CALLVALUE -> mem
		default:
			a.op(0x36).pushU(0).pushU(0).op(0x37) // calldatacopy all
		}
	}
	if next != 0 {
		vfEmitCall(r, a, next, callOp)
		a.pushU(5).op(0x55) // success flag -> slot 5
	}
	switch r.Intn(7) {
	case 0:
		a.op(0x00)
	case 1:
		a.pushU(32).pushU(0).op(0xfd)
	case 2:
		a.op(0xfe)
	case 3:
		a.op(0x50) // underflow
	case 4:
		a.pushU(uint64(3 + r.Intn(200))).op(0x56) // bad jump (most likely)
	default:
		a.pushU(uint64(r.Pick(0, 32, 64))).pushU(0).op(0xf3)
	}
	return a.bytes()
}

func vfEmitCall(r *vfRand, a *vfAsm, to byte, callOp byte) {
	gasArg := uint64(r.Pick(50000, 100000, 1000000))
	a.pushU(uint64(r.Pick(0, 32, 64))).pushU(uint64(r.Pick(0, 64))) // out size, out offset
	a.pushU(uint64(r.Pick(0, 4, 32))).pushU(0)                       // in size, in offset
	if callOp == 0xf1 || callOp == 0xf2 {
		a.pushU(uint64(r.Pick(0, 0, 0, 1, 17, 100000))) // value
	}
	a.pushU(uint64(to)).pushU(gasArg).op(callOp)
}

func vfGenNested(r *vfRand) *vfProg {
	ops := []byte{0xf1, 0xf1, 0xf1, 0xfa, 0xf4, 0xf2}
	modelOnly := r.Chance(60) // only what the Lean model interprets: CALL / STATICCALL, no RETURNDATA*
	if modelOnly {
		ops = []byte{0xf1, 0xf1, 0xfa}
	}
	opAB := ops[r.Intn(len(ops))]
	opBC := ops[r.Intn(len(ops))]
	aux := map[byte][]byte{}
	var nextB byte
	if r.Chance(50) {
		nextB = vfAddrC
		aux[vfAddrC] = vfGenCallee(r, 0, 0)
	}
	aux[vfAddrB] = vfGenCallee(r, nextB, opBC)
	a := vfNewAsm()
	a.pushU(uint64(r.Intn(1000))).pushU(0).op(0x52)
	if r.Chance(60) {
		a.pushU(uint64(1 + r.Intn(9))).pushU(1).op(0x55)
	}
	to := vfAddrB
	if r.Chance(8) {
		to = byte(1 + r.Intn(9)) // precompile (9 does not exist)
	}
	vfEmitCall(r, a, to, opAB)
	a.pushU(2).op(0x55) // success flag -> slot 2
	if modelOnly {
		a.pushU(64).op(0x51).pushU(3).op(0x55) // first word of the output area -> slot 3
		multi := false
		if r.Chance(30) { // a second call (re-entrancy / repeated callee)
			multi = true
			vfEmitCall(r, a, byte(r.Pick(int(vfAddrB), int(vfAddrA), int(vfAddrC), 0x77)), ops[r.Intn(len(ops))])
			a.pushU(4).op(0x55)
		}
		a.pushU(128).pushU(0).op(byte(r.Pick(0xf3, 0xf3, 0xfd)))
		return &vfProg{kind: "nested", multi: multi, code: a.bytes(), aux: aux, input: vfGenInput(r), storage: vfGenStorage(r), gas: uint64(r.Pick(3000000, 3000000, 150000, 60000)), value: uint64(r.Intn(2) * 50)}
	}
	a.op(0x3d).pushU(3).op(0x55) // RETURNDATASIZE -> slot 3
	if r.Chance(85) {
		a.op(0x3d).pushU(0).pushU(96).op(0x3e) // RETURNDATACOPY(96, 0, RETURNDATASIZE)
	} else {
		a.pushU(32).pushU(0).pushU(96).op(0x3e) // RETURNDATACOPY(96, 0, 32) (fails when less was returned)
	}
	a.pushU(128).pushU(0).op(byte(r.Pick(0xf3, 0xf3, 0xfd)))
	return &vfProg{kind: "nested", code: a.bytes(), aux: aux, input: vfGenInput(r), storage: vfGenStorage(r), gas: uint64(r.Pick(3000000, 3000000, 150000)), value: uint64(r.Intn(2) * 50)}
}

// Two DIFFERENT codes in one call tree that both jump: A jumps over its own push data, then runs
// B's code via DELEGATECALL / CALLCODE (or CALL / STATICCALL as controls); B jumps to a JUMPDEST
// whose offset lies inside A's push-data range, or far beyond A's length. The jump-destination
// analysis is cached per code hash and shared down the call tree: each code must be judged by its
// own bitmap (seeded change C10_d: the borrowed code labelled with the caller's code hash).
func vfGenJumpyDelegate(r *vfRand) *vfProg {
	n := r.Pick(7, 20, 32)
	data := r.Bytes(n)
	for i := range data {
		if r.Chance(30) {
			data[i] = 0x5b
		}
	}
	// A: PUSH1 L1 JUMP PUSHn <data> JUMPDEST ...
	l1 := 3 + 1 + n
	codeA := []byte{0x60, byte(l1), 0x56, byte(0x60 + n - 1)}
	codeA = append(codeA, data...)
	codeA = append(codeA, 0x5b)
	a := vfNewAsm()
	callOp := byte(r.Pick(0xf4, 0xf4, 0xf2, 0xf2, 0xf1, 0xfa))
	vfEmitCall(r, a, vfAddrB, callOp)
	a.pushU(2).op(0x55) // success flag -> slot 2
	if r.Chance(40) {
		// A jumps again afterwards, into the middle of its own push data (must fail) or to its JUMPDEST
		a.pushU(uint64(r.Pick(l1, 4+r.Intn(n), 4+r.Intn(n)))).op(0x56)
	}
	a.pushU(64).pushU(0).op(0xf3)
	codeA = append(codeA, a.bytes()...)
	// B: PUSH2 L2 JUMP <filler> JUMPDEST PUSH1 7 PUSH1 9 SSTORE PUSH1 42 PUSH1 0 MSTORE PUSH1 32 PUSH1 0 RETURN
	l2 := 4 + r.Intn(n+2)
	if r.Chance(20) {
		l2 = r.Pick(100, 300, 1000)
	}
	codeB := []byte{0x61, byte(l2 >> 8), byte(l2), 0x56}
	for len(codeB) < l2 {
		codeB = append(codeB, 0x00)
	}
	codeB = append(codeB, 0x5b, 0x60, 0x07, 0x60, 0x09, 0x55, 0x60, 0x2a, 0x60, 0x00, 0x52, 0x60, 0x20, 0x60, 0x00, 0xf3)
	return &vfProg{kind: "jumpy-delegate", code: codeA, aux: map[byte][]byte{vfAddrB: codeB}, input: vfGenInput(r), storage: vfGenStorage(r), gas: 3000000}
}

// CREATE / CREATE2 from memory and top-level creation
func vfGenCreate(r *vfRand) *vfProg {
	init := vfNewAsm()
	if r.Chance(70) {
		init.pushU(uint64(1 + r.Intn(5))).pushU(uint64(r.Intn(3))).op(0x55)
	}
	if r.Chance(30) {
		init.pushU(1).pushU(0).pushU(0).op(0xa1)
	}
	switch r.Intn(6) {
	case 0:
		init.op(0xfe)
	case 1:
		init.pushU(uint64(r.Pick(0, 4))).pushU(0).op(0xfd)
	case 2:
		init.op(0x00)
	default:
		// return a small runtime code: the init code's own bytes
		// return a runtime code of `size` bytes: the first bytes of the init code itself
		// (CODECOPY(mem 0, code 0, size); RETURN(0, size)) - the deployment SUCCEEDS with non-empty code
		size := uint64(r.Pick(1, 8, 32, 100))
		init.pushU(size).pushU(0).pushU(0).op(0x39).pushU(size).pushU(0).op(0xf3)
	}
	ic := init.bytes()
	if r.Chance(35) {
		return &vfProg{kind: "create-top", code: ic, create: true, gas: uint64(r.Pick(200000, 60000, 1000000)), value: uint64(r.Intn(2) * 10)}
	}
	a := vfNewAsm()
	// copy init code from call data into memory
	a.op(0x36).pushU(0).pushU(0).op(0x37)
	if r.Bool() {
		a.op(0x36).pushU(0).pushU(uint64(r.Pick(0, 0, 3, 100000))).op(0xf0)
	} else {
		a.pushU(uint64(r.Intn(3))).op(0x36).pushU(0).pushU(uint64(r.Pick(0, 0, 3))).op(0xf5)
	}
	a.op(0x80).pushU(1).op(0x55) // address -> slot 1
	a.op(0x3b).pushU(2).op(0x55) // EXTCODESIZE(address) -> slot 2
	a.op(0x3d).pushU(3).op(0x55) // RETURNDATASIZE right after the create (0 unless the init code reverted) -> slot 3
	switch r.Intn(4) {
	case 0:
		a.op(0x3d).pushU(0).pushU(96).op(0x3e).pushU(96).op(0x51).pushU(4).op(0x55) // RETURNDATACOPY(96, 0, RETURNDATASIZE); MLOAD(96) -> slot 4
	case 1:
		a.pushU(1).pushU(0).pushU(96).op(0x3e).pushU(5).pushU(5).op(0x55) // RETURNDATACOPY(96, 0, 1): aborts the frame when nothing was returned
	}
	a.op(byte(r.Pick(0x00, 0x00, 0xfd, 0xfe)))
	if a.b[len(a.b)-1] == 0xfd {
		a.b = a.b[:len(a.b)-1]
		a.pushU(0).pushU(0).op(0xfd)
	}
	return &vfProg{kind: "create", code: a.bytes(), input: ic, gas: uint64(r.Pick(3000000, 200000)), storage: vfGenStorage(r)}
}

// calls into the precompiled contracts 1..8 (and the unused address 9) with inputs that are valid,
// boundary or garbage, with gas below and above the contract's price, through every call opcode
func vfGenPrecompile(r *vfRand) *vfProg {
	pad := func(b []byte) []byte { return common.LeftPadBytes(b, 32) }
	addr := byte(1 + r.Intn(9))
	var in []byte
	switch addr {
	case 1:
		h := r.Bytes(32)
		key, _ := crypto.ToECDSA(common.LeftPadBytes([]byte{byte(1 + r.Intn(200))}, 32))
		sig, err := crypto.Sign(h, key)
		if err != nil || r.Chance(15) {
			in = r.Bytes(r.Pick(0, 64, 127, 128, 200))
			break
		}
		in = append(append(append(append([]byte{}, h...), pad([]byte{sig[64] + 27})...), sig[:32]...), sig[32:64]...)
		switch r.Intn(6) {
		case 0:
			in[63] = byte(r.Pick(0, 1, 26, 29, 255)) // bad v
		case 1:
			in[40] = 1 // non-zero padding of v
		case 2:
			in = in[:r.Pick(32, 100, 127)] // short: right-padded with zeros
		case 3:
			copy(in[96:], bytes.Repeat([]byte{0xff}, 32)) // s out of range
		}
	case 2, 3, 4:
		in = r.Bytes(r.Pick(0, 1, 31, 32, 33, 64, 200))
	case 5:
		bl, el, ml := r.Pick(0, 1, 2, 32), r.Pick(0, 1, 2, 32), r.Pick(0, 1, 2, 32)
		in = append(append(pad([]byte{byte(bl)}), pad([]byte{byte(el)})...), pad([]byte{byte(ml)})...)
		in = append(in, r.Bytes(bl+el+ml)...)
		if r.Chance(20) {
			in = in[:r.Intn(len(in)+1)]
		}
		if r.Chance(10) {
			in = r.Bytes(r.Pick(0, 50, 96))
		}
	case 6:
		g := append(pad([]byte{1}), pad([]byte{2})...)
		in = append(append([]byte{}, g...), g...)
		switch r.Intn(4) {
		case 0:
			in = append(append([]byte{}, g...), make([]byte, 64)...) // P + 0
		case 1:
			in = r.Bytes(128) // almost surely not on the curve
		case 2:
			in = in[:r.Pick(0, 64, 100)]
		}
	case 7:
		g := append(pad([]byte{1}), pad([]byte{2})...)
		in = append(append([]byte{}, g...), pad(r.Bytes(r.Pick(0, 1, 2, 32)))...)
		if r.Chance(25) {
			in = r.Bytes(r.Pick(0, 96, 64))
		}
	case 8:
		switch r.Intn(3) {
		case 0:
			in = nil // empty product = 1
		case 1:
			in = r.Bytes(192) // not on the curve
		default:
			in = r.Bytes(r.Pick(1, 191, 193)) // not a multiple of 192
		}
	default:
		in = r.Bytes(r.Intn(64))
	}
	callOp := byte(r.Pick(0xf1, 0xfa, 0xf4, 0xf2))
	a := vfNewAsm()
	a.op(0x36).pushU(0).pushU(0).op(0x37)  // CALLDATACOPY(0, 0, CALLDATASIZE)
	a.pushU(64).pushU(256).op(0x36).pushU(0) // out size 64, out offset 256, in size, in offset 0
	if callOp == 0xf1 || callOp == 0xf2 {
		a.pushU(0)
	}
	a.pushU(uint64(addr)).pushU(uint64(r.Pick(100, 700, 3000, 50000, 200000, 3000000))).op(callOp)
	a.pushU(1).op(0x55)                      // success flag -> slot 1
	a.op(0x3d).pushU(2).op(0x55)             // RETURNDATASIZE -> slot 2
	a.pushU(256).op(0x51).pushU(3).op(0x55)  // first output word -> slot 3
	a.op(0x3d).pushU(0).pushU(512).op(0x3e)  // RETURNDATACOPY(512, 0, RETURNDATASIZE)
	a.op(0x3d).pushU(512).op(0xf3)           // RETURN the whole return data
	return &vfProg{kind: "precompile", code: a.bytes(), input: in, gas: uint64(r.Pick(3000000, 250000)), storage: vfGenStorage(r)}
}

// a state-changing opcode, to be rejected in a static context
func vfGenWrite(r *vfRand) *vfProg {
	a := vfNewAsm()
	if r.Chance(50) {
		a.pushU(uint64(r.Intn(100))).pushU(0).op(0x52)
	}
	switch r.Intn(7) {
	case 0:
		a.pushU(uint64(r.Intn(3))).pushU(uint64(r.Intn(3))).op(0x55)
	case 1:
		n := r.Intn(5)
		for i := 0; i < n; i++ {
			a.pushU(uint64(i))
		}
		a.pushU(uint64(r.Pick(0, 32))).pushU(0).op(byte(0xa0 + n))
	case 2:
		a.pushU(0).pushU(0).pushU(0).op(0xf0)
	case 3:
		a.pushU(0).pushU(0).pushU(0).pushU(0).op(0xf5)
	case 4:
		a.pushU(uint64(vfAddrB)).op(0xff)
	case 5: // CALL with value
		a.pushU(0).pushU(0).pushU(0).pushU(0).pushU(uint64(1 + r.Intn(3))).pushU(uint64(vfAddrB)).pushU(30000).op(0xf1)
	default: // CALL without value (allowed), callee writes (not allowed)
		a.pushU(0).pushU(0).pushU(0).pushU(0).pushU(0).pushU(uint64(vfAddrB)).pushU(30000).op(0xf1)
	}
	a.pushU(9).pushU(0).op(0x52).pushU(32).pushU(0).op(0xf3)
	b := vfNewAsm()
	b.pushU(1).pushU(1).op(0x55).op(0x00)
	return &vfProg{kind: "write", code: a.bytes(), aux: map[byte][]byte{vfAddrB: b.bytes()}, gas: 200000, storage: vfGenStorage(r)}
}

// ---------------------------------------------------------------------------------------------
// the test

func vfCheckMonitors(o *vfOut, p *vfProg, post, static bool, r *vfRes, pre string) {
	txt := func() string { return vfProgText(p, post, static) }
	if r.dur > 5*time.Second {
		o.Viol("slow-run", fmt.Sprintf("%v %s", r.dur, txt()))
	}
	if r.gasLeft > p.gas {
		o.Viol("gas-left-exceeds-gas", fmt.Sprintf("left=%d %s", r.gasLeft, txt()))
	}
	if r.status == "err" && r.gasLeft != 0 && r.class != "depth" && r.class != "balance" {
		o.Viol("error-keeps-gas", fmt.Sprintf("left=%d class=%s %s", r.gasLeft, r.class, txt()))
	}
	if r.maxStack > 1024 {
		o.Viol("stack-limit-exceeded", fmt.Sprintf("stack=%d %s", r.maxStack, txt()))
	}
	if r.maxDepth > 1025 {
		o.Viol("depth-limit-exceeded", fmt.Sprintf("depth=%d %s", r.maxDepth, txt()))
	}
	// memory is paid for: 3 gas per word at least
	if uint64(r.maxMem) > p.gas/3*32+64 {
		o.Viol("memory-not-paid", fmt.Sprintf("mem=%d %s", r.maxMem, txt()))
	}
	if r.staticW != "" {
		o.Viol("static-write-executed", fmt.Sprintf("op=%s %s", r.staticW, txt()))
	}
	if static && (r.world != pre || r.logsFull != "-") {
		o.Viol("static-call-changed-state", fmt.Sprintf("pre=%s post=%s logs=%s %s", pre, r.world, r.logsFull, txt()))
	}
	if r.status != "ok" && !p.create && (r.world != pre || r.logsFull != "-") {
		o.Viol("failed-frame-changed-state", fmt.Sprintf("status=%s pre=%s post=%s logs=%s %s", r.status, pre, r.world, r.logsFull, txt()))
	}
}

// world string of the untouched pre-state (computed by running an empty-gas call would change nothing;
// simpler: run the program with code replaced by STOP)
func vfPreWorld(o *vfOut, p *vfProg, post bool) string {
	q := *p
	q.noexec = true
	if p.create {
		return ""
	}
	return vfRunKVM(o, &q, post, true).world
}

func vfOneProgram(o *vfOut, p *vfProg, withModel bool) {
	const model = "evm"
	nontrivial := false
	for _, post := range []bool{false, true} {
		for _, static := range []bool{false, true} {
			if p.create && static {
				continue
			}
			r1 := vfRunKVM(o, p, post, static)
			if r1.panicked {
				continue
			}
			pre := ""
			if !p.create {
				pre = vfPreWorld(o, p, post)
				if p.value != 0 && !static && r1.status == "ok" {
					pre = "" // value moved: world differs legitimately
				}
			}
			if pre != "" || static {
				vfCheckMonitors(o, p, post, static, r1, pre)
			} else {
				vfCheckMonitors(o, p, post, false, r1, r1.world)
				if r1.status != "ok" && !p.create && p.value != 0 {
					// failed frame with value: compare against the value-free pre-state
					if w := vfPreWorld(o, p, post); w != r1.world || r1.logsFull != "-" {
						o.Viol("failed-frame-changed-state", fmt.Sprintf("status=%s pre=%s post=%s %s", r1.status, w, r1.world, vfProgText(p, post, static)))
					}
				}
			}
			// determinism
			r2 := vfRunKVM(o, p, post, static)
			if r1.key() != r2.key() {
				o.Viol("non-deterministic", fmt.Sprintf("%s vs %s :: %s", r1.key(), r2.key(), vfProgText(p, post, static)))
			}
			o.Stat("kvm." + r1.status + "." + r1.class)
			if r1.status == "ok" || r1.status == "revert" {
				nontrivial = true
			}
			// nested failed frames leave no trace (callee addresses are called at most once)
			if p.kind == "nested" && !p.multi && len(r1.failed) > 0 && r1.status == "ok" {
				for _, b := range r1.failed {
					if b == vfAddrB || b == vfAddrC {
						for _, l := range strings.Split(r1.logsFull, ",") {
							if strings.HasPrefix(l, fmt.Sprintf("%x:", []byte{b})) {
								o.Viol("failed-callee-left-log", vfProgText(p, post, static)+" logs="+r1.logsFull)
							}
						}
						if b == vfAddrB && strings.Contains(r1.world, fmt.Sprintf("%x{", vfA20(vfAddrC))) {
							// C's storage must be untouched as well when its caller B failed
							if !strings.Contains(r1.world, fmt.Sprintf("%x{b=300 n=0 c=%d:%x s=- ", vfA20(vfAddrC), len(p.aux[vfAddrC]), vfSum(p.aux[vfAddrC]))) {
								o.Viol("failed-callee-left-state", vfProgText(p, post, static)+" world="+r1.world)
							}
						}
						if !strings.Contains(r1.world, fmt.Sprintf("%x{b=300 n=0 c=%d:%x s=- ", vfA20(b), len(p.aux[b]), vfSum(p.aux[b]))) {
							o.Viol("failed-callee-left-state", vfProgText(p, post, static)+" world="+r1.world)
						}
						o.Stat("nested.failed-callee-checked")
					}
				}
			}
			// model
			if withModel {
				switch {
				case !vfModelSupports(r1):
					o.Stat("model.unsupported-op")
				case p.create:
					o.Op(model, fmt.Sprintf("create set=%s gas=%d value=%d addr=%s code=%s", vfSetName(post), p.gas, p.value, r1.created, vfHex(p.code)), r1.modelStringW())
					o.Stat("model.compared-create")
				case len(p.aux) > 0 || r1.reached[0xf1] || r1.reached[0xfa]:
					op := "runw" + strings.TrimPrefix(vfModelOp(p, post, static), "run")
					for _, b := range []byte{vfAddrB, vfAddrC} {
						if c, ok := p.aux[b]; ok {
							op += fmt.Sprintf(" aux%x=%s", b, vfHex(c))
						}
					}
					o.Op(model, op, r1.modelStringW())
					o.Stat("model.compared-nested")
				default:
					o.Op(model, vfModelOp(p, post, static), r1.modelString())
					o.Stat("model.compared")
				}
			}
			// reference EVM
			g := vfRunGeth(o, p, post, static)
			switch {
			case g.panicked:
				o.Stat("geth.panic")
			case r1.oog || g.oog:
				o.Stat("geth.skip-oog")
			case r1.ops[0x5a] || g.ops[0x5a]:
				o.Stat("geth.skip-gas-opcode")
			case r1.ops[0x45] || g.ops[0x45] || (r1.class == "invalid" && vfEndsAt(p, 0x45)):
				o.Stat("geth.skip-0x45")
			case p.create && (len(r1.ret) > 24576 || len(g.ret) > 24576):
				o.Stat("geth.skip-maxcodesize")
			default:
				o.Stat("geth.compared")
				if r1.status != g.status {
					o.Viol("ref-status-differs", fmt.Sprintf("kvm=%s/%s geth=%s/%s %s", r1.status, r1.class, g.status, g.class, vfProgText(p, post, static)))
				} else if !bytes.Equal(r1.ret, g.ret) {
					o.Viol("ref-return-differs", fmt.Sprintf("kvm=%s geth=%s %s", vfHex(r1.ret), vfHex(g.ret), vfProgText(p, post, static)))
				} else if r1.world != g.world {
					o.Viol("ref-state-differs", fmt.Sprintf("kvm=%s geth=%s %s", r1.world, g.world, vfProgText(p, post, static)))
				} else if r1.logsFull != g.logsFull {
					o.Viol("ref-logs-differ", fmt.Sprintf("kvm=%s geth=%s %s", r1.logsFull, g.logsFull, vfProgText(p, post, static)))
				}
			}
			for op := 0; op < 256; op++ {
				if r1.ops[op] {
					o.StatN("ops.distinct-executed", 0)
				}
			}
		}
	}
	o.Case(p.kind+hex.EncodeToString(p.code)+hex.EncodeToString(p.input)+fmt.Sprint(p.gas), nontrivial)
	o.Stat("kind." + p.kind)
}

// the invalid-opcode error does not go through the tracer's "executed" set; find whether the run
// can have stopped at byte `op`: conservative textual test (op occurs in the code)
func vfEndsAt(p *vfProg, op byte) bool {
	if bytes.IndexByte(p.code, op) >= 0 {
		return true
	}
	for _, c := range p.aux {
		if bytes.IndexByte(c, op) >= 0 {
			return true
		}
	}
	return bytes.IndexByte(p.input, op) >= 0
}

// self-recursive program: counts the frames that ran in slot 0
func vfDepthProgram() *vfProg {
	a := vfNewAsm()
	a.pushU(0).op(0x54).pushU(1).op(0x01).pushU(0).op(0x55) // slot0++
	a.pushU(0).pushU(0).pushU(0).pushU(0).pushU(0).op(0x30).op(0x5a).op(0xf1) // CALL(gas, self, 0, 0,0,0,0)
	a.op(0x00)
	return &vfProg{kind: "depth", code: a.bytes(), gas: 1 << 62}
}

func vfDepthCheck(o *vfOut) {
	p := vfDepthProgram()
	for _, post := range []bool{false, true} {
		r := vfRunKVM(o, p, post, false)
		if r.panicked {
			continue
		}
		g := vfRunGeth(o, p, post, false)
		want := "0:1025"
		if r.storA != want {
			o.Viol("call-depth-limit", fmt.Sprintf("frames(slot0)=%s want %s (set=%s)", r.storA, want, vfSetName(post)))
		}
		if g.storA != r.storA {
			o.Viol("call-depth-differs-from-ref", fmt.Sprintf("kvm=%s geth=%s", r.storA, g.storA))
		}
		if r.maxDepth != 1025 {
			o.Viol("call-depth-limit", fmt.Sprintf("max depth seen %d want 1025", r.maxDepth))
		}
		o.Stat("depth.checked")
	}
	// stack: exactly 1024 pushes succeed, 1025 fail
	for _, n := range []int{1024, 1025} {
		c := bytes.Repeat([]byte{0x58}, n)
		c = append(c, 0x00)
		p := &vfProg{kind: "stack-limit", code: c, gas: 100000}
		for _, post := range []bool{false, true} {
			r := vfRunKVM(o, p, post, false)
			if (n == 1024) != (r.status == "ok") || (n == 1025 && r.class != "overflow") {
				o.Viol("stack-limit", fmt.Sprintf("n=%d status=%s/%s", n, r.status, r.class))
			}
		}
	}
}

// direct differential of the jump destination analysis (unexported) against the model
func vfJumpdestOps(o *vfOut, r *vfRand) {
	n := 1 + r.Intn(80)
	code := make([]byte, n)
	for i := range code {
		switch r.Intn(4) {
		case 0:
			code[i] = 0x5b
		case 1:
			code[i] = byte(0x60 + r.Intn(32))
		default:
			code[i] = byte(r.Intn(256))
		}
	}
	c := &Contract{Code: code}
	var dests []string
	var outs []string
	for d := 0; d <= n+1; d++ {
		dv := new(big.Int).SetUint64(uint64(d))
		if d == n+1 {
			dv = new(big.Int).Add(vfPow2(64), big.NewInt(int64(r.Intn(n))))
		}
		u, _ := uint256.FromBig(dv)
		ok := false
		vfGuard(o, "panic-validJumpdest", func() string { return vfHex(code) }, func() { ok = c.validJumpdest(u) })
		dests = append(dests, dv.String())
		outs = append(outs, fmt.Sprint(vfB(ok)))
		// oracle (independent): linear scan
		want := false
		if dv.IsUint64() && dv.Uint64() < uint64(n) && code[dv.Uint64()] == 0x5b {
			want = true
			for pc := 0; pc < n; {
				if code[pc] >= 0x60 && code[pc] <= 0x7f {
					k := int(code[pc]) - 0x5f
					if int(dv.Uint64()) > pc && int(dv.Uint64()) <= pc+k {
						want = false
					}
					pc += k + 1
				} else {
					pc++
				}
			}
		}
		if ok != want {
			o.Viol("jumpdest-analysis-wrong", fmt.Sprintf("code=%s dest=%s got=%v want=%v", vfHex(code), dv, ok, want))
		}
	}
	o.Op("evm", "jd code="+vfHex(code)+" dests="+strings.Join(dests, ","), strings.Join(outs, ""))
}

func TestVerifC10(t *testing.T) {
	o := vfOpen()
	defer o.Close()
	seed := vfSeed()
	n := vfN(400)
	vfDepthCheck(o)
	for i := 0; i < n; i++ {
		r := vfFork(seed, uint64(i))
		var p *vfProg
		switch k := r.Intn(100); {
		case k < 8:
			p = vfGenRandom(r)
		case k < 28:
			p = vfGenWeighted(r)
		case k < 58:
			p = vfGenGrammar(r)
		case k < 68:
			p = vfGenAlu(r)
		case k < 72:
			p = vfGenStack(r)
		case k < 75:
			p = vfGenMem(r)
		case k < 78:
			p = vfGenDataOff(r)
		case k < 84:
			p = vfGenJump(r)
		case k < 89:
			p = vfGenNested(r)
		case k < 91:
			p = vfGenJumpyDelegate(r)
		case k < 95:
			p = vfGenCreate(r)
		case k < 98:
			p = vfGenPrecompile(r)
		default:
			p = vfGenWrite(r)
		}
		vfOneProgram(o, p, true)
		if i < 3 || (i%97 == 0) {
			o.Sample(vfProgText(p, false, false))
		}
		if i%4 == 0 {
			vfJumpdestOps(o, r)
		}
	}
}
