package consensus

// C04 harness. (a) differential of the real timeoutTicker against the model `ticker`;
// (b) the liveness SEARCH (not a proof): an adversarial prefix on a network of real nodes
// (delays, drops, Byzantine messages, partitions, node restarts from their databases) followed by
// a synchronous suffix in which delivery reaches a fixpoint before any timeout fires; a violation
// is reported only when some correct node fails to commit a new block within 20 x N rounds, or
// on a panic (CONSENSUS FAILURE).

import (
	"fmt"
	"os"
	"strings"
	"testing"
	"time"

	cstypes "github.com/kardiachain/go-kardia/consensus/types"
	"github.com/kardiachain/go-kardia/lib/log"
	kproto "github.com/kardiachain/go-kardia/proto/kardiachain/types"
	"github.com/kardiachain/go-kardia/types"
)

// deliverToFixpoint: drain + deliver everything + the reactor's catch-up gossip until nothing moves.
func (net *vfNet) deliverToFixpoint() {
	for iter := 0; iter < 200; iter++ {
		moved := net.drain()
		for len(net.pool) > 0 {
			pm := net.pool[len(net.pool)-1]
			net.pool = net.pool[:len(net.pool)-1]
			net.nodes[pm.to].cs.handleMsg(pm.mi)
			moved = true
			net.drain()
		}
		sig := net.signature()
		for pos := range net.nodes {
			net.regossip(pos, true)
			net.drain()
		}
		if !moved && len(net.pool) == 0 && sig == net.signature() {
			return
		}
	}
}

// regossipNewestFirst hands node pos the votes of the HIGHEST round seen at its height before
// anything else (a legal reordering: a node that was cut off hears the newest votes first and has
// to skip several rounds in one step instead of walking through them).
func (net *vfNet) regossipNewestFirst(pos int) {
	n := net.nodes[pos]
	h := n.cs.Height
	msgs := net.allMsgs[h]
	var top uint32
	for _, mi := range msgs {
		if vm, ok := mi.Msg.(*VoteMessage); ok && vm.Vote.Round > top {
			top = vm.Vote.Round
		}
	}
	for rd := top; rd > n.cs.Round && n.cs.Height == h; rd-- {
		for _, mi := range msgs {
			if n.cs.Height != h {
				break
			}
			if vm, ok := mi.Msg.(*VoteMessage); ok && vm.Vote.Round == rd {
				n.cs.handleMsg(mi)
			}
		}
	}
	net.drain()
}

// lagScenario: one correct node is cut off while the others, with nil votes of the faulty
// validators, go through `rounds` failed rounds (no proposal reaches anybody but its author);
// then the partition heals and the lagging node hears the newest round first, so that it has to
// skip several rounds in ONE step. Returns how many rounds the lagging node jumped at once.
func (net *vfNet) lagScenario(o *vfOut, rounds int) int {
	r := net.r
	lag := r.Intn(len(net.nodes))
	lagIdx := net.nodes[lag].idx
	var rest, byz []int
	for i := range net.keys {
		if net.byz[i] {
			byz = append(byz, i)
		}
		if i != lagIdx {
			rest = append(rest, i)
		}
	}
	net.parts = [][]int{{lagIdx}, rest}
	h := net.nodes[lag].cs.Height
	chainID := net.nodes[lag].cs.state.ChainID
	target := net.nodes[lag].cs.Round + uint32(rounds) + 1
	for it := 0; it < 12*rounds+20; it++ {
		net.drain()
		// proposals and parts are lost; votes between the connected nodes arrive
		kept := net.pool[:0]
		for _, p := range net.pool {
			if c := vfClassify(p.mi.Msg); c.kind == "proposal" || c.kind == "part" {
				continue
			}
			kept = append(kept, p)
		}
		net.pool = kept
		net.deliverIf(func(p vfPending, c vfMsgClass) bool {
			return p.to != lag && (p.from < 0 || p.from != lagIdx)
		})
		var top uint32
		reached := true
		for pos, n := range net.nodes {
			if pos == lag || n.cs.Height != h {
				continue
			}
			if n.cs.Round > top {
				top = n.cs.Round
			}
			if n.cs.Round < target {
				reached = false
			}
		}
		if reached {
			break
		}
		// the faulty validators vote nil in the newest round, to the connected nodes
		for _, b := range byz {
			for _, typ := range []kproto.SignedMsgType{kproto.PrevoteType, kproto.PrecommitType} {
				for pos, n := range net.nodes {
					if pos == lag || n.cs.Height != h {
						continue
					}
					vi, ok := vfValIndex(n.cs, net.addrs[b])
					if !ok {
						continue
					}
					if v := net.signVote(b, h, top, typ, types.BlockID{}, chainID, vi); v != nil {
						net.record(v)
						m := msgInfo{&VoteMessage{v}, "byz"}
						net.remember(m)
						n.cs.handleMsg(m)
					}
				}
			}
		}
		net.drain()
		for pos, n := range net.nodes {
			if pos != lag && n.cs.Height == h {
				net.fireTimeout(n, true)
			}
		}
	}
	net.parts = nil
	before := net.nodes[lag].cs.Round
	if vfEnvInt("VERIF_DEBUG", 0) > 0 {
		fmt.Printf("LAG lag=%d target=%d h=%d: %s\n", lagIdx, target, h, net.signature())
	}
	if net.nodes[lag].cs.Height != h {
		return 0
	}
	net.regossipNewestFirst(lag)
	if vfEnvInt("VERIF_DEBUG", 0) > 0 {
		fmt.Printf("LAG after: %s\n", net.signature())
	}
	if net.nodes[lag].cs.Height != h {
		return 0
	}
	return int(net.nodes[lag].cs.Round) - int(before)
}

// vfForgottenCommits describes every correct node: height/round/step, CommitRound and whether it
// has the block; returns whether some node has CommitRound != 0 at its current height, is NOT in
// the commit step, and holds - in its own vote sets - a +2/3 precommit majority for a block at that
// round (it had decided and forgot). Read-only.
func vfForgottenCommits(net *vfNet) (bool, string) {
	any := false
	var sb strings.Builder
	for _, nd := range net.nodes {
		cs := nd.cs
		forgot := "-"
		if cs.CommitRound != 0 && cs.Step != cstypes.RoundStepCommit && cs.Step != cstypes.RoundStepNewHeight {
			if pc := cs.Votes.Precommits(cs.CommitRound); pc != nil {
				if id, ok := pc.TwoThirdsMajority(); ok && !id.IsZero() {
					forgot = fmt.Sprintf("holds-+2/3-precommits-for-%x-at-round-%d", id.Hash.Bytes()[:4], cs.CommitRound)
					any = true
				}
			}
		}
		fmt.Fprintf(&sb, " [node%d H=%d R=%d step=%d stored=%d commitRound=%d has-block=%v expects-parts=%v forgotten-commit=%s]", nd.idx, cs.Height, cs.Round, cs.Step, nd.bo.Height(), cs.CommitRound, cs.ProposalBlock != nil, cs.ProposalBlockParts != nil, forgot)
	}
	return any, sb.String()
}

// vfStaleLocks describes every correct node at height h: height/round/step, lock (round, block),
// valid round, and whether it HOLDS - in its own vote sets - a +2/3 prevote majority for nil or for a
// block other than its locked block at a round in (LockedRound, Round]. Returns whether some node
// is in that state (a stale lock). Read-only.
func vfStaleLocks(net *vfNet, h uint64) (bool, string) {
	any := false
	var sb strings.Builder
	for _, nd := range net.nodes {
		cs := nd.cs
		lb := "-"
		held := "-"
		if cs.Height == h && cs.LockedBlock != nil {
			lb = fmt.Sprintf("%x", cs.LockedBlock.Hash().Bytes()[:4])
			for q := cs.LockedRound + 1; q <= cs.Round; q++ {
				pv := cs.Votes.Prevotes(q)
				if pv == nil {
					continue
				}
				if id, ok := pv.TwoThirdsMajority(); ok && !cs.LockedBlock.HashesTo(id.Hash) {
					what := "nil"
					if !id.IsZero() {
						what = fmt.Sprintf("%x", id.Hash.Bytes()[:4])
					}
					held = fmt.Sprintf("round-%d-for-%s", q, what)
					any = true
					break
				}
			}
		}
		fmt.Fprintf(&sb, " [node%d H=%d R=%d step=%d stored=%d lockedRound=%d lockedBlock=%s validRound=%d holds-polka-above-lock=%s]", nd.idx, cs.Height, cs.Round, cs.Step, nd.bo.Height(), cs.LockedRound, lb, cs.ValidRound, held)
	}
	return any, sb.String()
}

func (net *vfNet) signature() string {
	var sb strings.Builder
	for _, n := range net.nodes {
		fmt.Fprintf(&sb, "%d/%d/%d/%d;", n.cs.Height, n.cs.Round, n.cs.Step, len(n.cs.internalMsgQueue))
	}
	return sb.String()
}

// restart rebuilds node pos from its database, as a process restart does (no WAL in this harness:
// the restarted node starts the height afresh).
func (net *vfNet) restart(pos int) error {
	old := net.nodes[pos]
	n, err := vfMkNodeOnDB(net.g, net.keys[old.idx], old.idx, old.db)
	if err != nil {
		return err
	}
	n.pv.log = append(n.pv.log, old.pv.log...)
	net.nodes[pos] = n
	net.nodeOf[old.idx] = n
	if net.offered != nil {
		delete(net.offered, pos)
	}
	n.cs.scheduleRound0(&n.cs.RoundState)
	return nil
}

func TestVerifC04(t *testing.T) {
	log.Root().SetHandler(log.DiscardHandler())
	o := vfOpen()
	defer o.Close()
	seed := vfSeed()
	cases := vfN(30)

	// ---- (a) ticker differential: only the LAST accepted tick fires
	nt := cases
	if nt > 12 {
		nt = 12
	}
	for c := 0; c < nt; c++ {
		r := vfFork(seed^0x7711, uint64(c))
		tk := NewTimeoutTicker()
		tk.Start()
		k := 1 + r.Intn(8)
		var parts []string
		t0 := time.Now()
		for i := 0; i < k; i++ {
			ti := timeoutInfo{Duration: 250 * time.Millisecond, Height: uint64(1 + r.Intn(2)), Round: uint32(1 + r.Intn(3)), Step: cstypes.RoundStepType(1 + r.Intn(8))}
			parts = append(parts, fmt.Sprintf("%d:%d:%d", ti.Height, ti.Round, int(ti.Step)))
			tk.ScheduleTimeout(ti)
		}
		if time.Since(t0) > 80*time.Millisecond {
			// the scheduling loop itself was descheduled for a long time (loaded machine): the
			// intermediate timers may have fired; not a usable sample
			o.Stat("ticker.discarded-slow-scheduling")
			tk.Stop()
			continue
		}
		got := "none"
		deadline := time.After(20 * time.Second)
	wait:
		for {
			select {
			case ti := <-tk.Chan():
				if ti.Height == 0 {
					// the construction-time zero timer may fire once with the empty tick; the
					// state machine ignores it (height 0 never matches)
					o.Stat("ticker.spurious-empty-tock")
					continue
				}
				got = fmt.Sprintf("%d:%d:%d", ti.Height, ti.Round, int(ti.Step))
				break wait
			case <-deadline:
				break wait
			}
		}
		// nothing else may fire afterwards
		select {
		case ti := <-tk.Chan():
			o.Viol("ticker-fired-twice", fmt.Sprintf("ticks=%s second=%d:%d:%d", strings.Join(parts, ";"), ti.Height, ti.Round, int(ti.Step)))
		case <-time.After(100 * time.Millisecond):
		}
		o.Op("ticker", "ticks "+strings.Join(parts, ";"), got)
		o.Stat("ticker.sequences")
		tk.Stop()
	}

	// ---- (b) liveness search
	for c := 0; c < cases; c++ {
		if only := vfEnvInt("VERIF_ONLY", -1); only >= 0 && c != only {
			continue
		}
		r := vfFork(seed, uint64(c))
		n, stake, byz := vfPickConfig(r)
		desc := fmt.Sprintf("seed=%d case=%d n=%d stake=%v byz=%v", seed, c, n, stake, vfSortedKeys(byz))
		// directed prefixes (c01dir_test.go): the first case of every shard and ~8% of the others play
		// the stale-lock scenario S6, the second case and ~6% of the others the forgotten-commit
		// scenario S7. VERIF_C04_DIR=S6|S7 forces one of them for every case, =none disables both.
		dirKind := ""
		if dr := vfFork(seed^0x57A1E10C, uint64(c)+1000003); c == 0 || (c > 1 && dr.Chance(8)) {
			dirKind = "S6"
		} else if c == 1 || dr.Chance(6) {
			dirKind = "S7"
		}
		if env := os.Getenv("VERIF_C04_DIR"); env == "none" || os.Getenv("VERIF_C04_S6") == "none" {
			dirKind = ""
		} else if env != "" {
			dirKind = env
		} else if os.Getenv("VERIF_C04_S6") == "all" {
			dirKind = "S6"
		}
		s6 := dirKind != "" // (a directed prefix replaces the random one)
		var dirD *vfDir
		vfGuard(o, "panic-in-consensus", func() string { return desc }, func() {
			var net *vfNet
			prefix, restarts := 0, 0
			if s6 {
				// directed prefix: stale lock after a double round skip (vfDirS6) or commit forgotten after
				// a round skip out of the commit step (vfDirS7); the synchronous suffix below then has
				// to decide
				dr := vfFork(seed^0x57A1E10C, uint64(c))
				d, dd, err := vfDirPlay(o, dr, dirKind, fmt.Sprintf("seed=%d case=%d", seed, c))
				if err != nil {
					t.Fatalf("network construction failed: %v", err)
				}
				if d == nil || d.preFailed {
					o.Viol("no-commit-in-synchronous-suffix", dd)
					return
				}
				net, desc, r, prefix = d.net, dd, dr, 1
				n, byz = len(net.keys), net.byz
				dirD = d
				name := map[string]string{"S6": "stale-lock", "S7": "forgotten-commit"}[d.kind]
				o.Stat("prefix." + name + "-scenario")
				if d.derail == "" {
					o.Stat("prefix." + name + "-scenario.situation-reached")
				}
			} else {
				var err error
				net, err = vfNewNet(r, vfKeys(r, n), stake, byz)
				if err != nil {
					t.Fatalf("network construction failed: %v", err)
				}
				var tot, bad int64
				for i, p := range net.powers {
					tot += p
					if byz[i] {
						bad += p
					}
				}
				if 3*bad >= tot {
					o.Stat("skipped.too-much-faulty-power")
					return
				}
				// adversarial prefix
				net.dropPct = r.Pick(0, 5, 20, 40)
				net.dupPct = r.Pick(0, 10, 30)
				prefix = r.Pick(0, 50, 300, 1000, 2000)
				if r.Chance(30) {
					// directed prefix: a node that falls several rounds behind and catches up in one step
					prefix = r.Pick(0, 50)
					net.dropPct, net.dupPct = 0, 0
					jumped := net.lagScenario(o, 2+r.Intn(3))
					o.Stat(fmt.Sprintf("prefix.lag-scenario.jump=%d", jumped))
					net.dropPct = r.Pick(0, 5)
				}
				for s := 0; s < prefix; s++ {
					net.drain()
					x := r.Intn(1000)
					switch {
					case x < 600:
						if !net.deliverOne() {
							net.fireTimeout(net.nodes[r.Intn(len(net.nodes))], true)
						}
					case x < 800:
						net.byzAct(o)
					case x < 930:
						net.fireTimeout(net.nodes[r.Intn(len(net.nodes))], r.Chance(60))
					case x < 940:
						if net.parts == nil {
							var a, b []int
							for i := range net.keys {
								if r.Bool() {
									a = append(a, i)
								} else {
									b = append(b, i)
								}
							}
							net.parts = [][]int{a, b}
						} else {
							net.parts = nil
						}
					case x < 950:
						// restart a node from its database. Without the WAL (C05's subject) a node that
						// has already signed at its height would forget its votes and double-sign, which
						// is a fault, not a restart: only nodes that signed nothing yet at their
						// current height are restarted here.
						pos := r.Intn(len(net.nodes))
						signed := false
						for _, sr := range net.nodes[pos].pv.log {
							if sr.h == net.nodes[pos].cs.Height {
								signed = true
							}
						}
						if signed {
							continue
						}
						if err := net.restart(pos); err != nil {
							o.Viol("restart-failed", desc+" "+err.Error())
							return
						}
						restarts++
						o.Stat("prefix.restart")
						if vfEnvInt("VERIF_DEBUG", 0) > 0 {
							nd := net.nodes[pos]
							fmt.Printf("RESTART step=%d node=%d stored=%d csHeight=%d lastBlockID=%v\n", s, nd.idx, nd.bo.Height(), nd.cs.Height, nd.cs.state.LastBlockID)
						}
					case x < 958:
						lagPos := r.Intn(len(net.nodes))
						before := net.nodes[lagPos].cs.Round
						net.regossipNewestFirst(lagPos)
						if net.nodes[lagPos].cs.Round > before+1 {
							o.Stat("prefix.multi-round-skip")
						}
					default:
						for k := 0; k < 30; k++ {
							net.drain()
							if !net.deliverOne() {
								break
							}
						}
						net.regossip(r.Intn(len(net.nodes)), r.Chance(15))
					}
				}
			}
			if !s6 && r.Bool() {
				// the nodes that fell behind hear the newest round first
				for pos := range net.nodes {
					before := net.nodes[pos].cs.Round
					net.regossipNewestFirst(pos)
					if net.nodes[pos].cs.Round > before+1 {
						o.Stat("heal.multi-round-skip")
					}
				}
			}
			// synchronous suffix: network healed, nothing dropped, faulty validators silent or noisy
			net.parts = nil
			net.dropPct, net.dupPct = 0, 0
			noisy := r.Bool()
			if s6 {
				noisy = false // the faulty validators stay silent: that is their best strategy here
			}
			start := map[int]uint64{}
			startRound := map[int]uint32{}
			for _, nd := range net.nodes {
				start[nd.idx] = nd.bo.Height()
				startRound[nd.idx] = nd.cs.Round
			}
			var topStart uint64
			for _, h := range start {
				if h > topStart {
					topStart = h
				}
			}
			goal := topStart + 1
			bound := 20 * n
			done := false
			rounds := 0
			for it := 0; it < bound*6+50 && !done; it++ {
				net.deliverToFixpoint()
				if noisy {
					for k := 0; k < 3; k++ {
						net.byzAct(o)
					}
					net.deliverToFixpoint()
				}
				done = true
				for _, nd := range net.nodes {
					if nd.bo.Height() < goal {
						done = false
					}
				}
				if done {
					break
				}
				// no message left: time passes, one timeout per node fires
				for _, nd := range net.nodes {
					if nd.bo.Height() < goal {
						net.fireTimeout(nd, true)
						net.drain()
					}
				}
				maxR := 0
				for _, nd := range net.nodes {
					if nd.cs.Height == goal && int(nd.cs.Round) > maxR {
						maxR = int(nd.cs.Round)
					}
				}
				rounds = maxR
				if maxR > bound {
					break
				}
			}
			o.Stat(fmt.Sprintf("suffix.rounds<=%d", (rounds/4+1)*4))
			if dirD != nil && dirD.kind == "S7" {
				if dirD.committedAll("A") {
					o.Stat("dir.S7.A-committed")
				} else {
					o.Stat("dir.S7.A-NOT-committed")
				}
				if twice := vfSignedTwice(net, dirD.h); twice != "" {
					// a node that signs two votes for one (height, round, type) is outside the protocol
					// whatever the values are (a guarded signer refuses the second request)
					o.Viol("signed-twice-in-a-round", desc+twice)
				}
			}
			if !done {
				detail := ""
				for _, nd := range net.nodes {
					prop := "-"
					if p := nd.cs.Validators.GetProposer(); p != nil {
						prop = fmt.Sprint(net.valIdx[p.Address])
					}
					detail += fmt.Sprintf(" [node%d H=%d R=%d step=%d stored=%d proposer=%s timeouts=%d locked=%v]", nd.idx, nd.cs.Height, nd.cs.Round, nd.cs.Step, nd.bo.Height(), prop, len(nd.ticker.pending), nd.cs.LockedBlock != nil)
				}
				if vfEnvInt("VERIF_DEBUG", 0) > 0 {
					for _, nd := range net.nodes {
						fmt.Printf("node%d H=%d R=%d step=%d commitRound=%d proposal=%v pb=%v parts=%v\n", nd.idx, nd.cs.Height, nd.cs.Round, nd.cs.Step, nd.cs.CommitRound, nd.cs.Proposal != nil, nd.cs.ProposalBlock != nil, nd.cs.ProposalBlockParts.StringShort())
						for rr := uint32(1); rr <= nd.cs.Round+1 && rr < 14; rr++ {
							if pv := nd.cs.Votes.Prevotes(rr); pv != nil {
								line := fmt.Sprintf("   r=%d", rr)
								for i := 0; i < nd.cs.Validators.Size(); i++ {
									a, b := "?", "?"
									if v := pv.GetByIndex(uint32(i)); v != nil {
										a = (vfBlockKey(v.BlockID) + "------")[:6]
									}
									if v := nd.cs.Votes.Precommits(rr).GetByIndex(uint32(i)); v != nil {
										b = (vfBlockKey(v.BlockID) + "------")[:6]
									}
									line += fmt.Sprintf(" [%d pv=%s pc=%s]", i, a, b)
								}
								fmt.Println(line)
							}
						}
						vs := nd.cs.state.Validators.Copy()
						line := "   proposers by round from state.Validators:"
						for rr := 1; rr < 14; rr++ {
							line += fmt.Sprintf(" %d", net.valIdx[vs.GetProposer().Address])
							vs.IncrementProposerPriority(1)
						}
						fmt.Println(line, " lockedRound", nd.cs.LockedRound, "validRound", nd.cs.ValidRound)
					}
					for h, ms := range net.allMsgs {
						cnt := map[string]int{}
						for _, m := range ms {
							if vm, ok := m.Msg.(*VoteMessage); ok {
								cnt[fmt.Sprintf("v%d/r%d/t%d/%s", net.valIdx[vm.Vote.ValidatorAddress], vm.Vote.Round, vm.Vote.Type, (vfBlockKey(vm.Vote.BlockID) + "------")[:6])]++
							}
						}
						fmt.Printf("height %d msgs=%d votes=%v\n", h, len(ms), cnt)
					}
				}
				sig := "no-commit-in-synchronous-suffix"
				seqsDisagree := false
				if restarts > 0 {
					// do the nodes still agree about whose turn it is? (F4: a restarted node loads
					// Validators with NextValidators' priorities)
					seqs := map[string]bool{}
					for _, nd := range net.nodes {
						if nd.cs.Height != goal {
							continue
						}
						vs := nd.cs.state.Validators.Copy()
						q := ""
						for rr := 0; rr < 6; rr++ {
							q += fmt.Sprint(net.valIdx[vs.GetProposer().Address], ",")
							vs.IncrementProposerPriority(1)
						}
						seqs[q] = true
					}
					sig = "no-commit-in-synchronous-suffix-after-restart"
					seqsDisagree = len(seqs) > 1
					detail += fmt.Sprintf(" proposer-sequences-in-disagreement=%v", len(seqs) > 1)
				}
				// F36: some correct node is locked on a block although its OWN vote sets hold +2/3
				// prevotes for nil or another block at a round in (LockedRound, Round] (it skipped over
				// that round, so addVote's unlock test never ran with vote.Round <= cs.Round and no
				// further prevote of that round can be added)
				if stale, sd := vfStaleLocks(net, goal); stale && !seqsDisagree {
					sig = "no-commit-after-stale-lock-double-skip"
					detail = sd
				}
				// F37: some correct node entered the commit step at its height (CommitRound != 0), its
				// own vote sets hold the +2/3 precommits for a block at that round, but it is no longer
				// in the commit step: a round skip reset the round state and nothing re-evaluates the
				// commit
				if forgot, fd := vfForgottenCommits(net); forgot && !seqsDisagree {
					sig = "no-commit-after-round-skip-out-of-commit-step"
					detail = fd
				}
				hh := goal
				if dirD != nil {
					hh = dirD.h
				}
				if twice := vfSignedTwice(net, hh); twice != "" {
					detail += " signed-twice:" + twice
				}
				o.Viol(sig, fmt.Sprintf("%s prefix=%d restarts=%d goal=%d bound=%d rounds:%s", desc, prefix, restarts, goal, bound, detail))
			}
			o.Stat(fmt.Sprintf("prefix.%d", prefix))
			if noisy {
				o.Stat("suffix.byzantine-noisy")
			}
			o.Case(desc, prefix > 0)
			if c < 2 {
				o.Sample(fmt.Sprintf("%s prefix=%d restarts=%d committed-goal=%d rounds=%d", desc, prefix, restarts, goal, rounds))
			}
		})
	}
}
