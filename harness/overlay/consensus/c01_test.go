package consensus

// C01 harness: random schedules of a network of 4..7 validators (real nodes for the correct
// ones, an adversary for the faulty ones, < 1/3 of the power) over several heights.
// Oracle (from the statement): no two correct nodes store different blocks at a height.
// Tie to the Lean model: the recorded vote history of every height is passed to the trace checker
// `agree` (KV/Model/AgreeCheck.lean), which must accept it as a `Good` trace whose decisions have
// commit quorums — i.e. the run is an instance of the hypotheses of theorem C01_agreement.

import (
	"crypto/ecdsa"
	"fmt"
	"os"
	"sort"
	"strings"
	"testing"

	"github.com/kardiachain/go-kardia/lib/crypto"
	"github.com/kardiachain/go-kardia/lib/log"
	kproto "github.com/kardiachain/go-kardia/proto/kardiachain/types"
)

// vfKeys derives n validator keys from the case PRNG, so that a (seed, case) pair replays exactly
// (addresses decide the validator order and hence the proposer rotation).
func vfKeys(r *vfRand, n int) []*ecdsa.PrivateKey {
	var ks []*ecdsa.PrivateKey
	for len(ks) < n {
		k, err := crypto.ToECDSA(crypto.Keccak256(r.Bytes(32)))
		if err != nil {
			continue
		}
		ks = append(ks, k)
	}
	return ks
}

// vfPickConfig draws validator count, stakes and a faulty set with < 1/3 of the stake.
func vfPickConfig(r *vfRand) (n int, stake []int64, byz map[int]bool) {
	n = r.Pick(4, 4, 4, 5, 6, 7)
	stake = make([]int64, n)
	switch r.Intn(4) {
	case 0: // equal
		for i := range stake {
			stake[i] = 15000000
		}
	case 1: // one heavy
		for i := range stake {
			stake[i] = 15000000
		}
		stake[r.Intn(n)] = 15000000 * int64(n-2)
	case 2: // multiples of 3M, skewed
		for i := range stake {
			stake[i] = 15000000 + 3000000*int64(r.Intn(4))
		}
	default:
		for i := range stake {
			stake[i] = 15000000 + int64(r.Intn(20))*1000000
		}
	}
	var total int64
	for _, s := range stake {
		total += s
	}
	byz = map[int]bool{}
	var bsum int64
	perm := make([]int, n)
	for i := range perm {
		perm[i] = i
	}
	for i := n - 1; i > 0; i-- {
		j := r.Intn(i + 1)
		perm[i], perm[j] = perm[j], perm[i]
	}
	want := r.Pick(0, 1, 1, 1, 2)
	for _, i := range perm {
		if len(byz) >= want {
			break
		}
		if 3*(bsum+stake[i]) < total {
			byz[i] = true
			bsum += stake[i]
		}
	}
	return
}

func vfTraceLine(net *vfNet, h uint64, decs []string) string {
	ids := map[string]int{}
	idOf := func(k string) string {
		if k == "" {
			return "-"
		}
		if _, ok := ids[k]; !ok {
			ids[k] = len(ids) + 1
		}
		return fmt.Sprint(ids[k])
	}
	var evs []string
	for _, e := range net.trace[h] {
		t := "v"
		if e.typ == kproto.PrecommitType {
			t = "c"
		}
		evs = append(evs, fmt.Sprintf("%d:%s:%d:%s", e.sender, t, e.round, idOf(e.block)))
	}
	pw := make([]string, len(net.powers))
	for i, p := range net.powers {
		pw[i] = fmt.Sprint(p)
	}
	var fs []string
	for i := range net.keys {
		if net.byz[i] {
			fs = append(fs, fmt.Sprint(i))
		}
	}
	var ds []string
	for _, d := range decs {
		ds = append(ds, idOf(d))
	}
	j := func(xs []string, sep string) string {
		if len(xs) == 0 {
			return "-"
		}
		return strings.Join(xs, sep)
	}
	return fmt.Sprintf("trace pw=%s F=%s ev=%s dec=%s", j(pw, ","), j(fs, ","), j(evs, ";"), j(ds, ","))
}

// vfCheckAgreement compares the stored blocks of all correct nodes; returns a violation text.
func vfCheckAgreement(net *vfNet, decided map[uint64]map[int]string) string {
	for _, n := range net.nodes {
		top := n.bo.Height()
		for h := uint64(1); h <= top; h++ {
			k := vfCommitted(n, h)
			if k == "" {
				continue
			}
			if decided[h] == nil {
				decided[h] = map[int]string{}
			}
			if prev, ok := decided[h][n.idx]; ok && prev != k {
				return fmt.Sprintf("node %d changed its block at height %d: %s -> %s", n.idx, h, prev[:16], k[:16])
			}
			decided[h][n.idx] = k
			for other, ok := range decided[h] {
				if ok != k {
					return fmt.Sprintf("height %d: node %d committed %s, node %d committed %s", h, n.idx, k[:16], other, ok[:16])
				}
			}
		}
	}
	return ""
}

func TestVerifC01(t *testing.T) {
	log.Root().SetHandler(log.DiscardHandler())
	o := vfOpen()
	defer o.Close()
	seed := vfSeed()
	cases := vfN(40)
	for c := 0; c < cases; c++ {
		if only := vfEnvInt("VERIF_ONLY", -1); only >= 0 && c != only {
			continue
		}
		// a fixed share of the cases are DIRECTED adversarial scenarios (c01dir_test.go): the first
		// five cases of every shard (one per scenario) and ~15% of the rest
		if kind, dr := vfDirectedKind(seed, c); kind != "" {
			vfDirectedCase(t, o, seed, c, kind, dr)
			continue
		}
		r := vfFork(seed, uint64(c))
		n, stake, byz := vfPickConfig(r)
		desc := fmt.Sprintf("seed=%d case=%d n=%d stake=%v byz=%v", seed, c, n, stake, vfSortedKeys(byz))
		var net *vfNet
		viol := ""
		panicked := vfGuard(o, "panic-in-consensus", func() string { return desc }, func() {
			var err error
			net, err = vfNewNet(r, vfKeys(r, n), stake, byz)
			if err != nil {
				t.Fatalf("network construction failed: %v", err)
			}
			// the real powers decide whether the fault assumption holds
			var tot, bad int64
			for i, p := range net.powers {
				tot += p
				if byz[i] {
					bad += p
				}
			}
			if 3*bad >= tot {
				o.Stat("skipped.too-much-faulty-power")
				net = nil
				return
			}
			net.dropPct = r.Pick(0, 0, 5, 20)
			net.dupPct = r.Pick(0, 10, 30)
			targetH := uint64(r.Pick(2, 3, 4))
			decided := map[uint64]map[int]string{}
			steps := 3000
			// chaos level: how often timeouts fire early, the adversary acts, the network splits
			level := r.Intn(3)
			pDeliver, pByz, pTimeout, pPart := 900, 60, 5, 0
			switch level {
			case 1:
				pDeliver, pByz, pTimeout, pPart = 780, 150, 30, 3
			case 2:
				pDeliver, pByz, pTimeout, pPart = 600, 200, 120, 8
			}
			o.Stat(fmt.Sprintf("chaos-level.%d", level))
			// 45% of the cases start with round-structured adversarial rounds (vfattack_test.go) at
			// the first one or two heights, then continue with the random scheduler below
			if r.Chance(45) {
				o.Stat("schedule.structured")
				for hh := 0; hh < r.Pick(1, 1, 2) && viol == ""; hh++ {
					net.structuredHeight(o, r.Pick(3, 4, 5, 6))
					viol = vfCheckAgreement(net, decided)
				}
				level = 0
				pDeliver, pByz, pTimeout, pPart = 900, 40, 5, 0
				steps = 1200
			}
			for s := 0; s < steps && viol == ""; s++ {
				net.drain()
				x := r.Intn(1000)
				switch {
				case x < pDeliver:
					if !net.deliverOne() {
						net.fireTimeout(net.nodes[r.Intn(len(net.nodes))], true)
					}
				case x < pDeliver+pByz:
					net.byzAct(o)
				case x < pDeliver+pByz+pTimeout:
					net.fireTimeout(net.nodes[r.Intn(len(net.nodes))], r.Chance(70))
				case x < pDeliver+pByz+pTimeout+pPart:
					// partition into two groups / heal
					if net.parts == nil {
						var a, b []int
						for i := range net.keys {
							if r.Bool() {
								a = append(a, i)
							} else {
								b = append(b, i)
							}
						}
						net.parts = [][]int{a, b}
						o.Stat("partition")
					} else {
						net.parts = nil
					}
				default:
					// a burst of synchronous delivery, then the reactor's catch-up gossip for one node
					for k := 0; k < 40; k++ {
						net.drain()
						if !net.deliverOne() {
							break
						}
					}
					net.regossip(r.Intn(len(net.nodes)), r.Chance(15))
					o.Stat("regossip")
				}
				net.drain()
				viol = vfCheckAgreement(net, decided)
				minH := uint64(1 << 62)
				for _, nd := range net.nodes {
					if nd.cs.Height < minH {
						minH = nd.cs.Height
					}
				}
				if minH > targetH {
					break
				}
			}
			vfEndOfCase(o, net, decided, desc, viol, c, n, len(byz))
		})
		_ = panicked
	}
}

// vfEndOfCase: the end-of-case checks shared by the random and the directed cases: a
// disagreement found by vfCheckAgreement is reported, every height's vote history goes to the
// model's trace checker, distribution counters.
func vfEndOfCase(o *vfOut, net *vfNet, decided map[uint64]map[int]string, desc, viol string, c, n, nbyz int) {
	if viol != "" {
		o.Viol("disagreement", desc+" "+viol)
	}
	// hand every height's vote history to the model's trace checker
	var hs []uint64
	for h := range net.trace {
		hs = append(hs, h)
	}
	sort.Slice(hs, func(a, b int) bool { return hs[a] < hs[b] })
	maxRound := uint32(0)
	nDecided := 0
	for _, h := range hs {
		var decs []string
		for _, k := range decided[h] {
			decs = append(decs, k)
		}
		sort.Strings(decs)
		if len(decs) > 0 {
			nDecided++
		}
		line := vfTraceLine(net, h, decs)
		o.Op("agree", line, "good")
		for _, e := range net.trace[h] {
			if e.round > maxRound {
				maxRound = e.round
			}
		}
		if c < 2 && h == hs[0] {
			o.Sample(desc + " :: " + line)
		}
	}
	o.Stat(fmt.Sprintf("validators.%d", n))
	o.Stat(fmt.Sprintf("byzantine.%d", nbyz))
	o.StatN("heights.decided", nDecided)
	if maxRound > 1 {
		o.Stat("schedules.with-round>1")
	}
	o.Case(desc, nDecided > 0)
}

// vfDirectedKind decides whether case c of this shard is a directed scenario and which one; the
// directed cases have their own PRNG stream, the random cases keep theirs.
func vfDirectedKind(seed uint64, c int) (string, *vfRand) {
	dr := vfFork(seed^0xD1EC7ED0, uint64(c))
	switch env := os.Getenv("VERIF_DIR"); env {
	case "":
	case "none":
		return "", nil
	case "all":
		return vfDirKinds[c%len(vfDirKinds)], dr
	default:
		return env, dr
	}
	if c < len(vfDirKinds) {
		return vfDirKinds[c], dr
	}
	if dr.Chance(15) {
		return vfDirKinds[dr.Intn(len(vfDirKinds))], dr
	}
	return "", nil
}

// vfDirectedCase runs one directed scenario and then the standard end-of-case checks.
func vfDirectedCase(t *testing.T, o *vfOut, seed uint64, c int, kind string, r *vfRand) {
	tag := fmt.Sprintf("seed=%d case=%d", seed, c)
	desc := tag + " directed=" + kind
	vfGuard(o, "panic-in-consensus", func() string { return desc }, func() {
		net, dd, healed, err := vfRunDirected(o, r, kind, tag)
		if err != nil {
			t.Fatalf("network construction failed: %v", err)
		}
		desc = dd
		decided := map[uint64]map[int]string{}
		viol := vfCheckAgreement(net, decided)
		if !healed && viol == "" {
			detail := ""
			for _, nd := range net.nodes {
				detail += fmt.Sprintf(" [node%d H=%d R=%d step=%d stored=%d locked=%v]", nd.idx, nd.cs.Height, nd.cs.Round, nd.cs.Step, nd.bo.Height(), nd.cs.LockedBlock != nil)
			}
			o.Viol("directed-no-decision-after-heal", desc+detail)
		}
		nbyz := 0
		for range net.byz {
			nbyz++
		}
		vfEndOfCase(o, net, decided, desc, viol, c, len(net.keys), nbyz)
	})
}

func vfSortedKeys(m map[int]bool) []int {
	var ks []int
	for k := range m {
		ks = append(ks, k)
	}
	sort.Ints(ks)
	return ks
}
