package consensus

// A round-structured adversarial schedule for the network simulator. Uniformly random delivery
// rarely builds the multi-round situations on which the locking rules are decided (a polka seen
// by one node only, a re-proposal with a POL round, a withheld prevote delivered two rounds
// later ...). Here the scheduler works round by round and decides, from the case PRNG, who sees
// the proposal, who sees the whole prevote set, who sees the precommits, what the faulty
// validators tell whom, and which withheld messages are released late.

import (
	"fmt"

	cstypes "github.com/kardiachain/go-kardia/consensus/types"
	kproto "github.com/kardiachain/go-kardia/proto/kardiachain/types"
	"github.com/kardiachain/go-kardia/types"
)

type vfMsgClass struct {
	kind   string // "proposal", "part", "prevote", "precommit"
	height uint64
	round  uint32
}

func vfClassify(m Message) vfMsgClass {
	switch x := m.(type) {
	case *ProposalMessage:
		return vfMsgClass{"proposal", x.Proposal.Height, x.Proposal.Round}
	case *BlockPartMessage:
		return vfMsgClass{"part", x.Height, x.Round}
	case *VoteMessage:
		k := "prevote"
		if x.Vote.Type == kproto.PrecommitType {
			k = "precommit"
		}
		return vfMsgClass{k, x.Vote.Height, x.Vote.Round}
	}
	return vfMsgClass{"other", 0, 0}
}

// deliverIf delivers (and removes from the pool) every pending message for which pred holds,
// including messages produced meanwhile; pool order is preserved so the run is reproducible.
func (net *vfNet) deliverIf(pred func(p vfPending, c vfMsgClass) bool) int {
	n := 0
	for progress := true; progress; {
		progress = false
		net.drain()
		for i := 0; i < len(net.pool); i++ {
			p := net.pool[i]
			if !pred(p, vfClassify(p.mi.Msg)) {
				continue
			}
			net.pool = append(net.pool[:i], net.pool[i+1:]...)
			net.nodes[p.to].cs.handleMsg(p.mi)
			n++
			progress = true
			net.drain()
			break
		}
	}
	return n
}

func (net *vfNet) subset(pct int) map[int]bool {
	s := map[int]bool{}
	for pos := range net.nodes {
		if net.r.Chance(pct) {
			s[pos] = true
		}
	}
	return s
}

// polkaRounds lists (round, block id) pairs for which the recorded trace of height h holds +2/3
// prevotes for a block (candidates for a re-proposal with a POL round).
func (net *vfNet) polkaRounds(h uint64) (out []struct {
	round uint32
	key   string
}) {
	var total int64
	for _, p := range net.powers {
		total += p
	}
	sum := map[string]int64{}
	for _, e := range net.trace[h] {
		if e.typ == kproto.PrevoteType && e.block != "" {
			sum[fmt.Sprintf("%d|%s", e.round, e.block)] += net.powers[e.sender]
		}
	}
	for _, e := range net.trace[h] {
		k := fmt.Sprintf("%d|%s", e.round, e.block)
		if s, ok := sum[k]; ok && 3*s > 2*total {
			out = append(out, struct {
				round uint32
				key   string
			}{e.round, e.block})
			delete(sum, k)
		}
	}
	return
}

// structuredHeight runs up to maxRounds structured rounds at the lowest height any node is at.
func (net *vfNet) structuredHeight(o *vfOut, maxRounds int) {
	r := net.r
	h := net.nodes[0].cs.Height
	for _, n := range net.nodes {
		if n.cs.Height < h {
			h = n.cs.Height
		}
	}
	var byz []int
	for i := range net.keys {
		if net.byz[i] {
			byz = append(byz, i)
		}
	}
	atHeight := func(n *vfNode) bool { return n.cs.Height == h }
	// style 1 ("witness"): in most rounds exactly one correct node sees the whole prevote set (and
	// locks), the faulty validators help that one node only, and nobody sees enough precommits:
	// after a few rounds different nodes hold locks from different rounds - the situations in which
	// re-proposals, relocks and late (older) polkas matter.
	style := r.Intn(2)
	if style == 1 {
		o.Stat("attack.style-witness")
	}
	for round := uint32(1); round <= uint32(maxRounds); round++ {
		witness := -1
		if style == 1 && r.Chance(75) {
			witness = r.Intn(len(net.nodes))
		}
		// 1. time passes for every node still behind this round
		for pos := range net.nodes {
			n := net.nodes[pos]
			for k := 0; k < 8 && atHeight(n) && n.cs.Round < round; k++ {
				if !net.fireTimeout(n, true) {
					break
				}
				net.drain()
			}
		}
		var ref *vfNode
		for _, n := range net.nodes {
			if atHeight(n) && n.cs.Round == round {
				ref = n
				break
			}
		}
		if ref == nil {
			break
		}
		chainID := ref.cs.state.ChainID
		// 2. the proposal
		if p := ref.cs.Validators.GetProposer(); p != nil && net.byz[net.valIdx[p.Address]] {
			b := net.valIdx[p.Address]
			switch r.Intn(4) {
			case 0: // silent proposer
			case 1: // re-propose an earlier block with its POL round
				prs := net.polkaRounds(h)
				if len(prs) > 0 {
					pr := prs[r.Intn(len(prs))]
					if blk, ok := net.blocks[h][pr.key]; ok && pr.round < round {
						for _, m := range net.byzProposalMsgs(b, h, round, pr.round, blk.block, blk.parts, chainID) {
							net.remember(m)
							for pos := range net.nodes {
								net.pool = append(net.pool, vfPending{pos, m, b})
							}
						}
						o.Stat("attack.byz-reproposal")
					}
				}
			default: // a fresh block (two variants to two halves with some probability)
				blk, ps := net.byzBlock(ref, b, r.Intn(3))
				if blk != nil {
					net.learnBlock(h, blk, ps)
					msgs := net.byzProposalMsgs(b, h, round, 0, blk, ps, chainID)
					var msgs2 []msgInfo
					if r.Chance(30) {
						if blk2, ps2 := net.byzBlock(ref, b, 3+r.Intn(3)); blk2 != nil {
							net.learnBlock(h, blk2, ps2)
							msgs2 = net.byzProposalMsgs(b, h, round, 0, blk2, ps2, chainID)
							o.Stat("attack.byz-equivocating-proposal")
						}
					}
					for pos := range net.nodes {
						use := msgs
						if msgs2 != nil && pos%2 == 1 {
							use = msgs2
						}
						for _, m := range use {
							net.remember(m)
							net.pool = append(net.pool, vfPending{pos, m, b})
						}
					}
				}
			}
		}
		net.drain()
		sProp := net.subset(r.Pick(100, 100, 75, 50, 25))
		net.deliverIf(func(p vfPending, c vfMsgClass) bool {
			return c.height == h && c.round == round && (c.kind == "proposal" || c.kind == "part") && sProp[p.to]
		})
		net.observeProposals()
		// whoever is still waiting for the proposal times out and prevotes nil / its lock
		for _, n := range net.nodes {
			if atHeight(n) && n.cs.Round == round && n.cs.Step <= cstypes.RoundStepPropose {
				net.fireTimeout(n, true)
				net.drain()
			}
		}
		// 3./4. prevotes: the faulty validators choose what to tell whom
		ids := net.knownIDs(h)
		net.byzVotesTo(o, byz, h, round, kproto.PrevoteType, ids, chainID, witness)
		sPv := net.subset(r.Pick(100, 75, 50, 25, 25))
		if witness >= 0 {
			sPv = map[int]bool{witness: true}
		}
		coin := map[string]bool{}
		flip := func(p vfPending, pct int) bool {
			k := fmt.Sprintf("%p/%d", p.mi.Msg, p.to)
			if v, ok := coin[k]; ok {
				return v
			}
			coin[k] = r.Chance(pct)
			return coin[k]
		}
		partial := r.Pick(0, 30, 60)
		if witness >= 0 {
			partial = r.Pick(0, 0, 30)
		}
		net.deliverIf(func(p vfPending, c vfMsgClass) bool {
			return c.height == h && c.round == round && c.kind == "prevote" && (sPv[p.to] || flip(p, partial))
		})
		for _, n := range net.nodes {
			if atHeight(n) && n.cs.Round == round && n.cs.Step == cstypes.RoundStepPrevoteWait {
				net.fireTimeout(n, true)
				net.drain()
			}
		}
		// 5./6. precommits
		net.byzVotes(o, byz, h, round, kproto.PrecommitType, net.knownIDs(h), chainID)
		sPc := net.subset(r.Pick(100, 50, 25, 25, 0))
		partialPc := r.Pick(0, 30, 60)
		if witness >= 0 && r.Chance(70) {
			sPc = map[int]bool{}
			if r.Chance(30) {
				sPc[r.Intn(len(net.nodes))] = true
			}
			partialPc = r.Pick(0, 0, 30)
		}
		net.deliverIf(func(p vfPending, c vfMsgClass) bool {
			return c.height == h && c.round == round && c.kind == "precommit" && (sPc[p.to] || flip(p, partialPc))
		})
		// blocks needed for a commit that a node learnt from the precommits alone
		net.deliverIf(func(p vfPending, c vfMsgClass) bool {
			n := net.nodes[p.to]
			return c.height == h && c.kind == "part" && atHeight(n) && n.cs.Step == cstypes.RoundStepCommit
		})
		for _, n := range net.nodes {
			if atHeight(n) && n.cs.Round == round && n.cs.Step == cstypes.RoundStepPrecommitWait {
				net.fireTimeout(n, true)
				net.drain()
			}
		}
		// 7. some withheld messages of earlier rounds are released late
		if len(net.withheld) > 0 && r.Chance(50) {
			// a withheld Byzantine vote of an earlier round reaches one more node
			i := r.Intn(len(net.withheld))
			p := net.withheld[i]
			net.withheld = append(net.withheld[:i], net.withheld[i+1:]...)
			if atHeight(net.nodes[p.to]) {
				net.nodes[p.to].cs.handleMsg(p.mi)
				net.drain()
				o.Stat("attack.late-byz-vote")
			}
		}
		if r.Chance(60) {
			k := 1 + r.Intn(6)
			for ; k > 0 && len(net.pool) > 0; k-- {
				var cand []int
				for i, p := range net.pool {
					c := vfClassify(p.mi.Msg)
					if c.height == h && c.round <= round && atHeight(net.nodes[p.to]) {
						cand = append(cand, i)
					}
				}
				if len(cand) == 0 {
					break
				}
				i := cand[r.Intn(len(cand))]
				p := net.pool[i]
				net.pool = append(net.pool[:i], net.pool[i+1:]...)
				net.nodes[p.to].cs.handleMsg(p.mi)
				net.drain()
				o.Stat("attack.late-delivery")
			}
		}
		done := true
		for _, n := range net.nodes {
			if atHeight(n) {
				done = false
			}
		}
		if done {
			break
		}
	}
}

// byzVotes lets every faulty validator vote in (h, round): per recipient it tells the block it
// wants that recipient to believe in (possibly different ones: equivocation), nil, or nothing.
func (net *vfNet) byzVotes(o *vfOut, byz []int, h uint64, round uint32, typ kproto.SignedMsgType, ids []types.BlockID, chainID string) {
	net.byzVotesTo(o, byz, h, round, typ, ids, chainID, -1)
}

// byzVotesTo: as byzVotes; with witness >= 0 the faulty validators mostly vote for the round's
// latest block and tell it to that one node only (the vote stays withheld from the others and
// may be released rounds later).
func (net *vfNet) byzVotesTo(o *vfOut, byz []int, h uint64, round uint32, typ kproto.SignedMsgType, ids []types.BlockID, chainID string, witness int) {
	r := net.r
	for _, b := range byz {
		mode := r.Intn(5) // 0 silent, 1 honest-looking (latest known block to all), 2 nil to all, 3 per-recipient, 4 one recipient only
		if witness >= 0 && r.Chance(80) {
			mode = 5
		}
		if mode == 0 {
			continue
		}
		pick := func() types.BlockID {
			if len(ids) == 0 || r.Chance(25) {
				return types.BlockID{}
			}
			if r.Chance(60) {
				return ids[len(ids)-1]
			}
			return ids[r.Intn(len(ids))]
		}
		all := pick()
		only := r.Intn(len(net.nodes))
		for pos, n := range net.nodes {
			if n.cs.Height != h {
				continue
			}
			vi, ok := vfValIndex(n.cs, net.addrs[b])
			if !ok {
				continue
			}
			var id types.BlockID
			switch mode {
			case 1:
				id = all
			case 2:
			case 3:
				if r.Chance(25) {
					continue
				}
				id = pick()
			case 4:
				if pos != only {
					continue
				}
				id = all
			case 5:
				// one vote for the latest block, addressed to everybody, but only the witness
				// gets it now (the others' copies stay in the pool as withheld messages)
				if len(ids) > 0 {
					id = ids[len(ids)-1]
				}
			}
			v := net.signVote(b, h, round, typ, id, chainID, vi)
			if v == nil {
				continue
			}
			net.record(v)
			m := msgInfo{&VoteMessage{v}, "byz"}
			net.remember(m)
			net.pool = append(net.pool, vfPending{pos, m, b})
			if mode == 5 && pos != witness {
				net.withheld = append(net.withheld, net.pool[len(net.pool)-1])
				net.pool = net.pool[:len(net.pool)-1]
			}
			o.Stat("attack.byz-vote")
		}
	}
}
