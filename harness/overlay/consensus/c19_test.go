package consensus

// C19 harness, part (b): accountability end to end on a network of REAL nodes (vfsim_test.go).
// A Byzantine validator equivocates (two conflicting prevotes or precommits for one height/round
// handed to a correct node) at random heights and rounds.  The evidence the correct node's
// consensus builds (tryAddVote -> AddEvidenceFromConsensus) is taken from its pool, sent through
// the wire encoding, and offered to every OTHER correct node's pool (AddEvidence) once that node
// has the block of the evidence height.  Oracle, from the statement:
//   * the evidence accuses a validator that really signed both votes (ground truth: the
//     adversary's own signing log), never a correct validator;
//   * every other correct node accepts it (or holds it already), unless it is expired by the rule;
//   * once every correct node holds it, correct proposers propose it and it is committed;
//   * no evidence is in the chain twice (all committed blocks of all nodes are scanned), and all
//     committed evidence is real;
//   * evidence stays pending across restarts of a node from its database until committed/expired.
// Known findings are reported with their own signatures (see notes/C19.md): F9 (time stamp of
// consensus-built evidence), C19-R3 (proposer passes a count as the byte cap of PendingEvidence).

import (
	"crypto/ecdsa"
	"fmt"
	"runtime/debug"
	"sort"
	"strings"
	"testing"
	"time"

	"github.com/kardiachain/go-kardia/lib/common"
	"github.com/kardiachain/go-kardia/lib/crypto"
	"github.com/kardiachain/go-kardia/lib/log"
	"github.com/kardiachain/go-kardia/mainchain/genesis"
	kproto "github.com/kardiachain/go-kardia/proto/kardiachain/types"
	"github.com/kardiachain/go-kardia/types"
	"github.com/kardiachain/go-kardia/types/evidence"
)

// vf19NewNet is vfNewNet with a hook on the genesis (evidence parameters).
func vf19NewNet(r *vfRand, keys []*ecdsa.PrivateKey, selfDelegate []int64, byz map[int]bool, tweak func(*genesis.Genesis)) (*vfNet, error) {
	net := &vfNet{r: r, keys: keys, byz: byz, valIdx: map[common.Address]int{}, nodeOf: map[int]*vfNode{},
		trace: map[uint64][]vfTraceEv{}, seenEv: map[uint64]map[string]bool{}, blocks: map[uint64]map[string]*vfBlk{},
		allMsgs: map[uint64][]msgInfo{}}
	net.g = vfMkGenesis(keys, selfDelegate)
	tweak(net.g)
	for i, k := range keys {
		a := crypto.PubkeyToAddress(k.PublicKey)
		net.addrs = append(net.addrs, a)
		net.valIdx[a] = i
	}
	for i, k := range keys {
		if byz[i] {
			continue
		}
		n, err := vfMkNode(net.g, k, i)
		if err != nil {
			return nil, err
		}
		net.nodes = append(net.nodes, n)
		net.nodeOf[i] = n
	}
	vs := net.nodes[0].cs.Validators
	net.powers = make([]int64, len(keys))
	for _, v := range vs.Validators {
		net.powers[net.valIdx[v.Address]] = v.VotingPower
	}
	for _, n := range net.nodes {
		n.cs.scheduleRound0(&n.cs.RoundState)
	}
	return net, nil
}

// vf19DbgPV: debugging aid (VERIF_DEBUG): prints the stack when a correct signer signs twice for one (h, r, type).
type vf19DbgPV struct {
	types.PrivValidator
	seen map[string]string
	idx  int
}

func (p *vf19DbgPV) SignVote(chainID string, v *kproto.Vote) error {
	k := fmt.Sprintf("%d/%d/%d", v.Height, v.Round, v.Type)
	id := fmt.Sprintf("%x", v.BlockID.Hash)
	if old, ok := p.seen[k]; ok && old != id {
		fmt.Printf("DOUBLE SIGN by correct node %d at %s: %s then %s\n%s\n", p.idx, k, old, id, debug.Stack())
	}
	p.seen[k] = id
	if vfEnvInt("VERIF_DEBUG", 0) > 1 {
		fmt.Printf("SIGN node=%d %s %s wrapper=%p\n", p.idx, k, id, p)
	}
	return p.PrivValidator.SignVote(chainID, v)
}

type vf19Known struct {
	ev        *types.DuplicateVoteEvidence
	origin    int               // validator index of the node whose consensus built it
	offered   map[int]string    // node idx -> verdict class of AddEvidence
	allSince  uint64            // lowest stored height when it was first pending at every correct node (0 = never)
	committed map[int][]uint64  // node idx -> heights of the blocks that contain it
	hrs       string
}

type vf19Sim struct {
	o       *vfOut
	r       *vfRand
	net     *vfNet
	desc    string
	known   map[common.Hash]*vf19Known
	order   []common.Hash
	scanned map[int]uint64 // node idx -> highest scanned height
	params  kproto.EvidenceParams
	pendBy  map[int]map[common.Hash]bool // what each node's pool offered at the previous clean point
	f9Seen  bool
}

func vf19PendingOf(n *vfNode) []types.Evidence {
	l, _ := n.evpool.PendingEvidence(-1)
	return l
}

// wire: what a peer / a block decoder hands to the pool (proto round trip + ValidateBasic).
func vf19Wire(ev types.Evidence) (types.Evidence, error) {
	pb, err := types.EvidenceToProto(ev)
	if err != nil {
		return nil, err
	}
	bz, err := pb.Marshal()
	if err != nil {
		return nil, err
	}
	var back kproto.Evidence
	if err := back.Unmarshal(bz); err != nil {
		return nil, err
	}
	out, err := types.EvidenceFromProto(&back)
	if err != nil {
		return nil, err
	}
	return out, out.ValidateBasic()
}

func (s *vf19Sim) signedBy(v *types.Vote) (int, bool) {
	idx, ok := s.net.valIdx[v.ValidatorAddress]
	if !ok {
		return -1, false
	}
	key := fmt.Sprintf("%d/%d/%d/%s", idx, v.Type, v.Round, vfBlockKey(v.BlockID))
	return idx, s.net.seenEv[v.Height][key]
}

// realWhy: ground truth for "real double-sign": both votes were really signed (by the adversary's
// key in signVote, or by a correct node's own signer) for this height/round/type and different
// blocks, and the accused validator is a faulty one.
func (s *vf19Sim) realWhy(ev *types.DuplicateVoteEvidence) string {
	a, b := ev.VoteA, ev.VoteB
	if a == nil || b == nil {
		return "nil vote"
	}
	ia, oka := s.signedBy(a)
	ib, okb := s.signedBy(b)
	if ia < 0 || ia != ib {
		return "votes of different / unknown validators"
	}
	if !s.net.byz[ia] {
		return fmt.Sprintf("accuses CORRECT validator %d", ia)
	}
	if !oka || !okb {
		return fmt.Sprintf("validator %d never signed such a vote (A known=%v, B known=%v)", ia, oka, okb)
	}
	if a.Height != b.Height || a.Round != b.Round || a.Type != b.Type {
		return "height/round/type differ"
	}
	if a.BlockID.Equal(b.BlockID) {
		return "same block id"
	}
	if why := s.powersWhy(ev, ev.Height()); why != "" {
		// root cause known? tryAddVote passes cs.Validators (the set of the height being decided)
		// also for a conflict found in LastCommit (the height before)
		if s.powersWhy(ev, ev.Height()+1) == "" {
			return why + " (they are those of the validator set of height+1)"
		}
		return why
	}
	return ""
}

// powersWhy compares the stated powers with the validator set entitled to sign height h (as the
// state store of a correct node has it).
func (s *vf19Sim) powersWhy(ev *types.DuplicateVoteEvidence, h uint64) string {
	var vals *types.ValidatorSet
	for _, n := range s.net.nodes {
		if v, err := n.store.LoadValidators(h); err == nil && v != nil {
			vals = v
			break
		}
		if n.cs.Height == h {
			vals = n.cs.Validators
			break
		}
	}
	if vals == nil {
		return "validator set of the height unknown"
	}
	_, val := vals.GetByAddress(ev.VoteA.ValidatorAddress)
	if val == nil {
		return "not a validator at that height"
	}
	if ev.ValidatorPower != val.VotingPower {
		return "stated power wrong"
	}
	if ev.TotalVotingPower != vals.TotalVotingPower() {
		return "stated total wrong"
	}
	return ""
}

func vf19ErrClass(err error) string {
	if err == nil {
		return "ok"
	}
	m := err.Error()
	for _, p := range [][2]string{{"don't have header", "noheader"}, {"different time to the block", "badtime"}, {"is too old", "expired"},
		{"was not a validator", "notvalidator"}, {"h/r/s does not match", "hrs"}, {"validator addresses do not match", "addr"},
		{"block IDs are the same", "sameblock"}, {"validator power from evidence", "power"}, {"total voting power from the evidence", "total"},
		{"verifying VoteA", "sigA"}, {"verifying VoteB", "sigB"}, {"already committed", "committed"}, {"duplicate evidence", "duplicate"}} {
		if strings.Contains(m, p[0]) {
			return p[1]
		}
	}
	if len(m) > 120 {
		m = m[:120]
	}
	return "other:" + m
}

// expiredAt: the statement's rule at node n's state.
func (s *vf19Sim) expiredAt(n *vfNode, ev *types.DuplicateVoteEvidence, evTime time.Time) bool {
	st := n.evpool.State()
	return int64(st.LastBlockHeight)-int64(ev.Height()) > s.params.MaxAgeNumBlocks && st.LastBlockTime.Sub(evTime) > s.params.MaxAgeDuration
}

// harvest: evidence newly built by some node's consensus.
func (s *vf19Sim) harvest() {
	for _, n := range s.net.nodes {
		for _, e := range vf19PendingOf(n) {
			dve, ok := e.(*types.DuplicateVoteEvidence)
			if !ok {
				continue
			}
			h := dve.Hash()
			if _, ok := s.known[h]; ok {
				continue
			}
			k := &vf19Known{ev: dve, origin: n.idx, offered: map[int]string{}, committed: map[int][]uint64{},
				hrs: fmt.Sprintf("h=%d r=%d type=%d val=%d", dve.VoteA.Height, dve.VoteA.Round, dve.VoteA.Type, s.net.valIdx[dve.VoteA.ValidatorAddress])}
			s.known[h] = k
			s.order = append(s.order, h)
			s.o.Stat("evidence.built-by-consensus")
			if why := s.realWhy(dve); strings.Contains(why, "(they are those of the validator set of height+1)") {
				s.o.Viol("consensus-built-evidence-with-next-height-validator-set", fmt.Sprintf("%s node %d built evidence (%s) about the height of its LastCommit with the powers of cs.Validators: %s", s.desc, n.idx, k.hrs, why))
			} else if why != "" {
				if vfEnvInt("VERIF_DEBUG", 0) > 0 {
					fmt.Printf("FORGED node=%d %s why=%s\n A=%v\n B=%v\n", n.idx, k.hrs, why, dve.VoteA, dve.VoteB)
					acc := s.net.valIdx[dve.VoteA.ValidatorAddress]
					if an := s.net.nodeOf[acc]; an != nil {
						for _, sr := range an.pv.log {
							if sr.h == dve.VoteA.Height {
								fmt.Printf("   signed by %d: %+v\n", acc, sr)
							}
						}
					}
				}
				s.o.Viol("consensus-built-forged-evidence", fmt.Sprintf("%s node %d holds evidence (%s) that is not a real double-sign: %s", s.desc, n.idx, k.hrs, why))
			}
			if err := dve.ValidateBasic(); err != nil {
				s.o.Viol("consensus-built-malformed-evidence", fmt.Sprintf("%s node %d (%s): %v", s.desc, n.idx, k.hrs, err))
			}
		}
	}
}

// crossOffer: every known evidence is offered once to every other correct node that has the block
// of the evidence height.
func (s *vf19Sim) crossOffer() {
	for _, h := range s.order {
		k := s.known[h]
		wired, err := vf19Wire(k.ev)
		if err != nil {
			continue
		}
		for _, n := range s.net.nodes {
			if n.idx == k.origin || k.offered[n.idx] != "" || n.bo.Height() < k.ev.Height() {
				continue
			}
			var aerr error
			if vfGuard(s.o, "panic-in-AddEvidence", func() string { return s.desc + " " + k.hrs }, func() { aerr = n.evpool.AddEvidence(wired) }) {
				k.offered[n.idx] = "panic"
				continue
			}
			cls := vf19ErrClass(aerr)
			k.offered[n.idx] = cls
			s.o.Stat("offer." + strings.SplitN(cls, ":", 2)[0])
			if aerr == nil {
				continue
			}
			meta := n.bo.LoadBlockMeta(k.ev.Height())
			switch {
			case cls == "expired" && meta != nil && s.expiredAt(n, k.ev, meta.Header.Time):
				s.o.Stat("offer.rejected-legitimately-expired")
			case cls == "badtime" && meta != nil && !meta.Header.Time.Equal(k.ev.Timestamp):
				// F9: is everything else in order? (pure predicate against the set of the evidence height)
				vals, verr := n.store.LoadValidators(k.ev.Height())
				var rest error
				if verr == nil {
					rest = evidence.VerifyDuplicateVote(k.ev, n.cs.state.ChainID, vals)
				}
				if verr == nil && rest == nil && s.realWhy(k.ev) == "" {
					s.f9Seen = true
					s.o.Viol("correct-node-evidence-rejected:time-differs-from-block-time",
						fmt.Sprintf("%s evidence (%s) built by node %d's consensus carries time %d (median of ITS LastCommit) but block %d has time %d; node %d's AddEvidence: evidence has a different time to the block it is associated with; every other clause of VerifyDuplicateVote holds",
							s.desc, k.hrs, k.origin, k.ev.Timestamp.UnixNano(), k.ev.Height(), meta.Header.Time.UnixNano(), n.idx))
				} else if strings.Contains(s.realWhy(k.ev), "(they are those of the validator set of height+1)") {
					s.o.Stat("offer.rejected-evidence-with-next-height-validator-set")
				} else {
					s.o.Viol("correct-node-evidence-rejected", fmt.Sprintf("%s evidence (%s) of node %d rejected by node %d: badtime and also %v / %v", s.desc, k.hrs, k.origin, n.idx, verr, rest))
				}
			case strings.Contains(s.realWhy(k.ev), "(they are those of the validator set of height+1)"):
				s.o.Stat("offer.rejected-evidence-with-next-height-validator-set")
			default:
				s.o.Viol("correct-node-evidence-rejected", fmt.Sprintf("%s evidence (%s) built by node %d rejected by node %d: %v", s.desc, k.hrs, k.origin, n.idx, aerr))
			}
		}
	}
}

// scan: new committed blocks of every node.
func (s *vf19Sim) scan() {
	for _, n := range s.net.nodes {
		top := n.bo.Height()
		for h := s.scanned[n.idx] + 1; h <= top; h++ {
			blk := n.bo.LoadBlock(h)
			if blk == nil {
				continue
			}
			inBlock := map[common.Hash]bool{}
			for _, e := range blk.Evidence().Evidence {
				dve, ok := e.(*types.DuplicateVoteEvidence)
				if !ok {
					continue
				}
				hh := dve.Hash()
				s.o.Stat("chain.evidence-in-block")
				if inBlock[hh] {
					s.o.Viol("evidence-in-chain-twice", fmt.Sprintf("%s node %d block %d contains evidence %x twice", s.desc, n.idx, h, hh.Bytes()[:6]))
				}
				inBlock[hh] = true
				k := s.known[hh]
				if k == nil {
					k = &vf19Known{ev: dve, origin: -1, offered: map[int]string{}, committed: map[int][]uint64{}, hrs: fmt.Sprintf("h=%d r=%d type=%d", dve.VoteA.Height, dve.VoteA.Round, dve.VoteA.Type)}
					s.known[hh] = k
					s.order = append(s.order, hh)
				}
				for _, prev := range k.committed[n.idx] {
					if prev != h {
						s.o.Viol("evidence-in-chain-twice", fmt.Sprintf("%s node %d: evidence %x (%s) is in block %d and again in block %d", s.desc, n.idx, hh.Bytes()[:6], k.hrs, prev, h))
					}
				}
				k.committed[n.idx] = append(k.committed[n.idx], h)
				if why := s.realWhy(dve); strings.Contains(why, "(they are those of the validator set of height+1)") {
					s.o.Viol("committed-evidence-with-next-height-validator-set", fmt.Sprintf("%s node %d block %d contains evidence (%s) accepted through the pending fast path: %s", s.desc, n.idx, h, k.hrs, why))
				} else if why != "" {
					s.o.Viol("forged-evidence-committed", fmt.Sprintf("%s node %d block %d contains evidence (%s) that is not a real double-sign: %s", s.desc, n.idx, h, k.hrs, why))
				}
				if meta := n.bo.LoadBlockMeta(dve.Height()); meta == nil || !meta.Header.Time.Equal(dve.Timestamp) {
					s.o.Stat("chain.committed-evidence-with-other-time")
				}
			}
		}
		if top > s.scanned[n.idx] {
			s.scanned[n.idx] = top
		}
	}
}

func (s *vf19Sim) minStored() uint64 {
	m := uint64(1 << 62)
	for _, n := range s.net.nodes {
		if n.bo.Height() < m {
			m = n.bo.Height()
		}
	}
	return m
}

// pendingClauses: "pending until committed or expired" per node (also across restarts), and
// "proposed until committed" once every correct node holds the evidence.
func (s *vf19Sim) pendingClauses() {
	now := map[int]map[common.Hash]bool{}
	for _, n := range s.net.nodes {
		now[n.idx] = map[common.Hash]bool{}
		for _, e := range vf19PendingOf(n) {
			now[n.idx][e.Hash()] = true
		}
		for hh := range s.pendBy[n.idx] {
			if now[n.idx][hh] {
				continue
			}
			k := s.known[hh]
			if k == nil {
				continue
			}
			if len(k.committed[n.idx]) > 0 {
				continue
			}
			if s.expiredAt(n, k.ev, k.ev.Timestamp) {
				s.o.Stat("pending.expired-and-dropped")
				continue
			}
			s.o.Viol("pending-evidence-lost", fmt.Sprintf("%s node %d no longer offers evidence (%s) although it is neither committed in its chain nor expired (stored=%d)", s.desc, n.idx, k.hrs, n.bo.Height()))
		}
	}
	s.pendBy = now
	ms := s.minStored()
	for _, hh := range s.order {
		k := s.known[hh]
		everywhere := true
		anyCommitted := false
		for _, n := range s.net.nodes {
			if !now[n.idx][hh] {
				everywhere = false
			}
			if len(k.committed[n.idx]) > 0 {
				anyCommitted = true
			}
		}
		if anyCommitted {
			k.allSince = 0
			continue
		}
		if !everywhere {
			k.allSince = 0
			continue
		}
		if k.allSince == 0 {
			k.allSince = ms + 1 // +1 so that 0 keeps meaning "never"
			continue
		}
		if ms+1 >= k.allSince+3 {
			// three more blocks were decided while every correct node held it
			n0 := s.net.nodes[0]
			maxNum, _ := types.MaxEvidencePerBlock(s.params.MaxBytes)
			capped, _ := n0.evpool.PendingEvidence(maxNum)
			all, allSize := n0.evpool.PendingEvidence(-1)
			if len(capped) == 0 && len(all) > 0 {
				s.o.Viol("pending-evidence-never-proposed:count-used-as-byte-cap",
					fmt.Sprintf("%s evidence (%s) is pending at every correct node since stored height %d, now %d, and in no block: CreateProposalBlock asks PendingEvidence(maxBytes = MaxEvidencePerBlock(%d).maxNum = %d) and gets 0 of %d pending evidence (%d bytes)",
						s.desc, k.hrs, k.allSince-1, ms, s.params.MaxBytes, maxNum, len(all), allSize))
			} else {
				s.o.Viol("pending-evidence-never-proposed", fmt.Sprintf("%s evidence (%s) is pending at every correct node since stored height %d, now %d, and in no block (cap %d admits %d of %d)", s.desc, k.hrs, k.allSince-1, ms, maxNum, len(capped), len(all)))
			}
			k.allSince = ms + 1 // report again only after three more blocks
		}
	}
}

// equivocate: faulty validator b signs two conflicting votes for the target's height; both go to
// the target (directly, in order), and through the network to the others.
func (s *vf19Sim) equivocate() {
	net, r := s.net, s.r
	var byzIdx []int
	for i := range net.keys {
		if net.byz[i] {
			byzIdx = append(byzIdx, i)
		}
	}
	if len(byzIdx) == 0 {
		return
	}
	b := byzIdx[r.Intn(len(byzIdx))]
	tpos := r.Intn(len(net.nodes))
	t := net.nodes[tpos]
	cs := t.cs
	h := cs.Height
	vi, ok := vfValIndex(cs, net.addrs[b])
	if !ok {
		return
	}
	net.observeProposals()
	ids := append([]types.BlockID{{}}, net.knownIDs(h)...)
	if len(ids) < 2 || r.Chance(25) {
		ids = append(ids, types.BlockID{Hash: common.BytesToHash(r.Bytes(32)), PartsHeader: types.PartSetHeader{Total: 1, Hash: common.BytesToHash(r.Bytes(32))}})
	}
	i1 := r.Intn(len(ids))
	i2 := (i1 + 1 + r.Intn(len(ids)-1)) % len(ids)
	typ := kproto.PrevoteType
	if r.Bool() {
		typ = kproto.PrecommitType
	}
	round := cs.Round
	if round == 0 {
		round = 1
	}
	switch r.Intn(6) {
	case 0:
		if round > 1 {
			round--
		}
	case 1:
		round++
	}
	v1 := net.signVote(b, h, round, typ, ids[i1], cs.state.ChainID, vi)
	v2 := net.signVote(b, h, round, typ, ids[i2], cs.state.ChainID, vi)
	if v1 == nil || v2 == nil {
		return
	}
	net.record(v1)
	net.record(v2)
	m1, m2 := msgInfo{&VoteMessage{v1}, "byz"}, msgInfo{&VoteMessage{v2}, "byz"}
	before := len(vf19PendingOf(t))
	t.cs.handleMsg(m1)
	t.cs.handleMsg(m2)
	if len(vf19PendingOf(t)) > before {
		s.o.Stat(fmt.Sprintf("equivocation.caught.type%d", typ))
	}
	s.o.Stat("equivocation.injected")
	if r.Chance(60) {
		net.remember(m1)
		net.remember(m2)
	} else if r.Bool() {
		net.remember(m1)
	}
	for pos := range net.nodes {
		if pos == tpos {
			continue
		}
		if r.Chance(50) {
			net.pool = append(net.pool, vfPending{pos, m1, b})
		}
		if r.Chance(50) {
			net.pool = append(net.pool, vfPending{pos, m2, b})
		}
	}
}

// vf19Guard: a panic inside the run is a violation; the consensus failure that F9 leads to (a
// block that +2/3 accepted through the pending fast path carries consensus-built evidence which
// this node cannot verify) has its own signature.
func vf19Guard(o *vfOut, desc string, f func()) {
	defer func() {
		if r := recover(); r != nil {
			msg := fmt.Sprint(r)
			if len(msg) > 700 {
				msg = msg[:700]
			}
			if strings.Contains(msg, "+2/3 committed an invalid block") && strings.Contains(msg, "Invalid evidence") &&
				(strings.Contains(msg, "evidence has a different time to the block it is associated with") || strings.Contains(msg, "don't have header at height")) {
				o.Viol("consensus-failure:committed-block-carries-consensus-evidence-this-node-cannot-verify", fmt.Sprintf("%s panic: %s", desc, msg))
				return
			}
			stack := string(debug.Stack())
			if vfEnvInt("VERIF_DEBUG", 0) > 0 {
				fmt.Printf("PANIC %s\n%s\n", msg, stack)
			}
			if strings.Contains(msg, "nil pointer dereference") && strings.Contains(stack, "(*DuplicateVoteEvidence).Height") &&
				strings.Contains(stack, "(*Pool).AddEvidenceFromConsensus") && strings.Contains(stack, "(*ConsensusState).tryAddVote") {
				o.Viol("consensus-failure:nil-evidence-from-tryAddVote", fmt.Sprintf("%s panic: %s in DuplicateVoteEvidence.Height <- Pool.isPending <- AddEvidenceFromConsensus <- tryAddVote: NewDuplicateVoteEvidence returned nil (the equivocating validator is not in cs.Validators)", desc, msg))
				return
			}
			o.Viol("panic-in-consensus", fmt.Sprintf("panic: %s; %s", msg, desc))
		}
	}()
	f()
}

// poisoned: does node a's next proposal carry evidence (built by its own consensus) that node b
// refuses because of its time stamp / because the block of its height does not exist yet?
func (s *vf19Sim) poisoned(a, b *vfNode) (bool, string) {
	maxNum, _ := types.MaxEvidencePerBlock(s.params.MaxBytes)
	l, _ := a.evpool.PendingEvidence(maxNum)
	for _, e := range l {
		w, err := vf19Wire(e)
		if err != nil {
			continue
		}
		var aerr error
		func() {
			defer func() { recover() }()
			aerr = b.evpool.AddEvidence(w)
		}()
		if c := vf19ErrClass(aerr); c == "badtime" || c == "noheader" {
			if dve, ok := e.(*types.DuplicateVoteEvidence); ok && s.realWhy(dve) == "" {
				return true, fmt.Sprintf("node %d proposes evidence h=%d which node %d refuses: %s", a.idx, e.Height(), b.idx, c)
			}
		}
	}
	return false, ""
}

func TestVerifC19Net(t *testing.T) {
	log.Root().SetHandler(log.DiscardHandler())
	o := vfOpen()
	defer o.Close()
	seed := vfSeed()
	cases := vfN(20)
	for c := 0; c < cases; c++ {
		if only := vfEnvInt("VERIF_ONLY", -1); only >= 0 && c != only {
			continue
		}
		r := vfFork(seed, uint64(c))
		n, stake, byz := vfPickConfig(r)
		if len(byz) == 0 {
			// accountability needs somebody to hold accountable: the lightest validator is faulty
			lo := 0
			for i := range stake {
				if stake[i] < stake[lo] {
					lo = i
				}
			}
			byz[lo] = true
		}
		// evidence parameters: the defaults; a large byte budget (so that the proposer's cap admits
		// evidence); a large budget with a short expiry window
		variant := r.Pick(0, 1, 1, 2, 2)
		params := kproto.EvidenceParams{}
		desc := fmt.Sprintf("seed=%d case=%d n=%d stake=%v byz=%v params=%d", seed, c, n, stake, vfSortedKeys(byz), variant)
		vf19Guard(o, desc, func() {
			net, err := vf19NewNet(r, vfKeys(r, n), stake, byz, func(g *genesis.Genesis) {
				cp := *g.ConsensusParams
				switch variant {
				case 1:
					cp.Evidence.MaxBytes = 50 << 20
				case 2:
					cp.Evidence.MaxBytes = 50 << 20
					cp.Evidence.MaxAgeNumBlocks = int64(r.Pick(1, 2, 3))
					cp.Evidence.MaxAgeDuration = time.Duration(r.Pick(1, 1000000, 50000000)) // 1 ns, 1 ms, 50 ms
				}
				g.ConsensusParams = &cp
				params = cp.Evidence
			})
			if err != nil {
				t.Fatalf("network construction failed: %v", err)
			}
			var tot, bad int64
			for i, p := range net.powers {
				tot += p
				if byz[i] {
					bad += p
				}
			}
			if 3*bad >= tot {
				o.Stat("skipped.too-much-faulty-power")
				return
			}
			if vfEnvInt("VERIF_DEBUG", 0) > 0 {
				for _, nd := range net.nodes {
					nd.cs.SetPrivValidator(&vf19DbgPV{PrivValidator: nd.pv, seen: map[string]string{}, idx: nd.idx})
				}
			}
			s := &vf19Sim{o: o, r: r, net: net, desc: desc, known: map[common.Hash]*vf19Known{}, scanned: map[int]uint64{}, params: params, pendBy: map[int]map[common.Hash]bool{}}
			targetH := uint64(r.Pick(5, 7, 9))
			if vfThorough() {
				targetH += uint64(r.Intn(6))
			}
			equivs := 0
			maxIter := int(targetH)*14 + 40
			stuck := 0
			lastMin := uint64(0)
			t0 := time.Now()
			for it := 0; it < maxIter; it++ {
				if time.Since(t0) > time.Duration(vfEnvInt("VERIF_C19_CASE_BUDGET_S", 12))*time.Second {
					o.Stat("run.wall-clock-budget-exhausted")
					break
				}
				// the adversary acts while the nodes are somewhere inside a round
				if r.Chance(45) && equivs < 12 {
					for k := r.Pick(1, 1, 2); k > 0; k-- {
						s.equivocate()
						equivs++
					}
				}
				if r.Chance(35) {
					for k := 0; k < 2; k++ {
						net.byzAct(o)
					}
				}
				net.deliverToFixpoint()
				// ---- clean point
				s.harvest()
				s.scan()
				s.crossOffer()
				s.pendingClauses()
				if r.Chance(12) {
					pos := r.Intn(len(net.nodes))
					signed := false
					for _, sr := range net.nodes[pos].pv.log {
						if sr.h == net.nodes[pos].cs.Height {
							signed = true
						}
					}
					if !signed {
						if vfEnvInt("VERIF_DEBUG", 0) > 0 {
							nd := net.nodes[pos]
							fmt.Printf("BEFORE RESTART node=%d csHeight=%d stored=%d bcHead=%d\n", nd.idx, nd.cs.Height, nd.bo.Height(), nd.bc.CurrentBlock().Height())
						}
						oldStored := net.nodes[pos].bo.Height()
						net.nodes[pos].bc.Stop() // clean shutdown: the state trie is flushed (a crash is C05's subject)
						if err := net.restart(pos); err != nil {
							o.Viol("restart-failed", desc+" "+err.Error())
							return
						}
						o.Stat("restart")
						if got := net.nodes[pos].bo.Height(); got != oldStored {
							o.Viol("restart-lost-blocks", fmt.Sprintf("%s node %d stored %d before a clean restart and %d after", desc, net.nodes[pos].idx, oldStored, got))
							return
						}
						if vfEnvInt("VERIF_DEBUG", 0) > 0 {
							nd := net.nodes[pos]
							nd.cs.SetPrivValidator(&vf19DbgPV{PrivValidator: nd.pv, seen: map[string]string{}, idx: nd.idx})
							fmt.Printf("RESTART node=%d csHeight=%d stored=%d\n", net.nodes[pos].idx, net.nodes[pos].cs.Height, net.nodes[pos].bo.Height())
						}
						s.pendingClauses()
					}
				}
				ms := s.minStored()
				if ms >= targetH {
					break
				}
				if ms == lastMin {
					stuck++
				} else {
					stuck, lastMin = 0, ms
				}
				if stuck > 4*n+12 {
					break
				}
				// nothing left to deliver: time passes
				for _, nd := range net.nodes {
					if nd.bo.Height() <= ms+1 {
						net.fireTimeout(nd, true)
						net.drain()
					}
				}
			}
			net.deliverToFixpoint()
			s.harvest()
			s.scan()
			s.crossOffer()
			s.pendingClauses()
			ms := s.minStored()
			if ms < targetH {
				o.Stat("run.target-height-not-reached")
				if stuck > 4*n+12 {
					detail := ""
					allPoisoned := true
					for i, nd := range net.nodes {
						other := net.nodes[(i+1)%len(net.nodes)]
						p, why := s.poisoned(nd, other)
						if !p {
							allPoisoned = false
						}
						detail += fmt.Sprintf(" [node%d H=%d R=%d step=%d stored=%d pending=%d poisoned=%v %s]", nd.idx, nd.cs.Height, nd.cs.Round, nd.cs.Step, nd.bo.Height(), len(vf19PendingOf(nd)), p, why)
					}
					if allPoisoned {
						o.Viol("no-progress:every-correct-proposal-carries-consensus-evidence-the-others-refuse", fmt.Sprintf("%s stored height %d did not move for %d scheduler rounds:%s", desc, ms, stuck, detail))
					} else {
						// liveness as such is C04's subject (e.g. F4: a restarted node disagrees about the proposer)
						o.Stat("run.no-progress-for-reasons-outside-evidence-handling")
					}
				}
			}
			nCommitted := 0
			var hs []string
			for _, hh := range s.order {
				k := s.known[hh]
				if len(k.committed) > 0 {
					nCommitted++
				}
				hs = append(hs, k.hrs)
			}
			sort.Strings(hs)
			o.StatN("evidence.committed", nCommitted)
			o.Stat(fmt.Sprintf("params.variant%d", variant))
			o.StatN("heights", int(ms))
			o.Case(fmt.Sprintf("%s equivs=%d known=%v", desc, equivs, hs), len(s.known) > 0)
			if c < 3 {
				o.Sample(fmt.Sprintf("%s equivocations=%d evidence=%d committed=%d stored=%d", desc, equivs, len(s.known), nCommitted, ms))
			}
		})
	}
}
