package consensus

// Property C18, part (b): the SEARCH (fuzzing, not proof). ConsensusManager.Receive is fed, on every
// consensus channel, random bytes, valid messages of every kind, typed adversarial messages (interesting
// heights/rounds/types/indices, consistent and inconsistent bit arrays, PartSetHeader.Total up to 2^32-1)
// and protobuf-wire-level mutations of all of them, against a REAL ConsensusState (4 validators, the node
// holds one key, the harness the other three) in different steps and with fresh / primed peer states.
// Oracle: no panic (recover), no hang (watchdog), no allocation > 64 MB attributable to one message
// (runtime.MemStats), messages queued for the state machine are pushed through handleMsg, the real gossip
// routines are run for a few iterations on the poisoned PeerState, and every well-formed message survives
// MsgToProto -> Marshal -> Unmarshal -> MsgFromProto unchanged.

import (
	"runtime/debug"
	"strings"
	"bytes"
	"encoding/binary"
	"fmt"
	"net"
	"runtime"
	"testing"
	"time"

	"github.com/gogo/protobuf/proto"
	"github.com/kardiachain/go-kardia/configs"
	cstypes "github.com/kardiachain/go-kardia/consensus/types"
	cmn "github.com/kardiachain/go-kardia/lib/common"
	"github.com/kardiachain/go-kardia/lib/log"
	"github.com/kardiachain/go-kardia/lib/p2p"
	kconn "github.com/kardiachain/go-kardia/lib/p2p/conn"
	"github.com/kardiachain/go-kardia/lib/service"
	kcons "github.com/kardiachain/go-kardia/proto/kardiachain/consensus"
	kbits "github.com/kardiachain/go-kardia/proto/kardiachain/libs/bits"
	kproto "github.com/kardiachain/go-kardia/proto/kardiachain/types"
	"github.com/kardiachain/go-kardia/types"
)

// ---- stub peer

type vf18Peer struct {
	*service.BaseService
	id        p2p.ID
	kv        map[string]interface{}
	stops     int // StopPeerForError asks IsRunning first; in receive mode we answer false and count
	gossipTTL int // > 0: gossip mode, IsRunning is true for that many more calls
	sent      [][]byte
	sentCh    []byte
}

func vf18NewPeer(id string) *vf18Peer {
	p := &vf18Peer{id: p2p.ID(id), kv: map[string]interface{}{}}
	p.BaseService = service.NewBaseService(nil, "vf18peer", p)
	return p
}
func (p *vf18Peer) IsRunning() bool {
	if p.gossipTTL > 0 {
		p.gossipTTL--
		return p.gossipTTL > 0
	}
	p.stops++
	return false
}
func (p *vf18Peer) FlushStop()         {}
func (p *vf18Peer) ID() p2p.ID         { return p.id }
func (p *vf18Peer) RemoteIP() net.IP   { return net.IPv4(10, 0, 0, 1) }
func (p *vf18Peer) RemoteAddr() net.Addr {
	return &net.TCPAddr{IP: net.IPv4(10, 0, 0, 1), Port: 1}
}
func (p *vf18Peer) IsOutbound() bool             { return false }
func (p *vf18Peer) IsPersistent() bool           { return false }
func (p *vf18Peer) CloseConn() error             { return nil }
func (p *vf18Peer) NodeInfo() p2p.NodeInfo       { return p2p.DefaultNodeInfo{} }
func (p *vf18Peer) Status() kconn.ConnectionStatus { return kconn.ConnectionStatus{} }
func (p *vf18Peer) SocketAddr() *p2p.NetAddress  { return nil }
func (p *vf18Peer) Send(ch byte, b []byte) bool {
	if len(p.sent) < 64 {
		p.sent = append(p.sent, b)
		p.sentCh = append(p.sentCh, ch)
	}
	return true
}
func (p *vf18Peer) TrySend(ch byte, b []byte) bool { return p.Send(ch, b) }
func (p *vf18Peer) Set(k string, v interface{})    { p.kv[k] = v }
func (p *vf18Peer) Get(k string) interface{}       { return p.kv[k] }
func (p *vf18Peer) String() string                 { return "vf18peer{" + string(p.id) + "}" }

// ---- protobuf wire-level mutator

type vf18Field struct {
	num  uint64
	wt   uint64
	v    uint64 // varint / fixed
	data []byte // length-delimited
}

func vf18Parse(b []byte) ([]vf18Field, bool) {
	var fs []vf18Field
	for len(b) > 0 {
		key, n := binary.Uvarint(b)
		if n <= 0 {
			return nil, false
		}
		b = b[n:]
		f := vf18Field{num: key >> 3, wt: key & 7}
		if f.num == 0 {
			return nil, false
		}
		switch f.wt {
		case 0:
			v, n := binary.Uvarint(b)
			if n <= 0 {
				return nil, false
			}
			f.v = v
			b = b[n:]
		case 1:
			if len(b) < 8 {
				return nil, false
			}
			f.v = binary.LittleEndian.Uint64(b)
			b = b[8:]
		case 5:
			if len(b) < 4 {
				return nil, false
			}
			f.v = uint64(binary.LittleEndian.Uint32(b))
			b = b[4:]
		case 2:
			l, n := binary.Uvarint(b)
			if n <= 0 || l > uint64(len(b)-n) {
				return nil, false
			}
			f.data = b[n : n+int(l)]
			b = b[n+int(l):]
		default:
			return nil, false
		}
		fs = append(fs, f)
	}
	return fs, true
}

func vf18Uvarint(v uint64) []byte {
	var buf [10]byte
	return append([]byte(nil), buf[:binary.PutUvarint(buf[:], v)]...)
}

func vf18Emit(fs []vf18Field) []byte {
	var out []byte
	for _, f := range fs {
		out = append(out, vf18Uvarint(f.num<<3|f.wt)...)
		switch f.wt {
		case 0:
			out = append(out, vf18Uvarint(f.v)...)
		case 1:
			var b [8]byte
			binary.LittleEndian.PutUint64(b[:], f.v)
			out = append(out, b[:]...)
		case 5:
			var b [4]byte
			binary.LittleEndian.PutUint32(b[:], uint32(f.v))
			out = append(out, b[:]...)
		case 2:
			out = append(out, vf18Uvarint(uint64(len(f.data)))...)
			out = append(out, f.data...)
		}
	}
	return out
}

var vf18Ints = []uint64{0, 1, 2, 3, 4, 5, 8, 9, 32, 63, 64, 65, 127, 128, 255, 256, 1600, 1601, 1602, 10000, 10001, 65535, 65536, 65537,
	1<<31 - 1, 1 << 31, 1<<32 - 1, 1 << 32, 1<<63 - 1, 1 << 63, 1<<64 - 1, 1<<64 - 64, 1<<64 - 65}

func vf18Int(r *vfRand) uint64 {
	switch r.Intn(4) {
	case 0:
		return uint64(r.Intn(10))
	case 1:
		return r.U64() >> uint(r.Intn(64))
	default:
		return vf18Ints[r.Intn(len(vf18Ints))]
	}
}

// vf18Mutate applies one structure-aware mutation; tag describes it.
func vf18Mutate(r *vfRand, b []byte, depth int) ([]byte, string) {
	fs, ok := vf18Parse(b)
	if !ok || len(fs) == 0 || r.Chance(8) {
		// byte level
		c := append([]byte(nil), b...)
		switch r.Intn(5) {
		case 0:
			if len(c) > 0 {
				return c[:r.Intn(len(c))], "truncate"
			}
		case 1:
			if len(c) > 0 {
				c[r.Intn(len(c))] ^= byte(1 << uint(r.Intn(8)))
				return c, "bitflip"
			}
		case 2:
			return append(c, r.Bytes(1+r.Intn(12))...), "append-bytes"
		case 3:
			if len(c) > 0 {
				c[r.Intn(len(c))] = byte(r.U64())
				return c, "byteset"
			}
		}
		return append(c, 0xff), "append-ff"
	}
	i := r.Intn(len(fs))
	f := &fs[i]
	switch k := r.Intn(12); {
	case k == 0:
		fs = append(fs[:i], fs[i+1:]...)
		return vf18Emit(fs), "drop-field"
	case k == 1:
		fs = append(fs, fs[i])
		return vf18Emit(fs), "dup-field"
	case k == 2:
		f.num = uint64(1 + r.Intn(12))
		return vf18Emit(fs), "renumber-field"
	case k == 3:
		f.wt = uint64(r.Pick(0, 1, 2, 5))
		if f.wt == 2 && f.data == nil {
			f.data = vf18Uvarint(f.v)
		}
		return vf18Emit(fs), "retype-field"
	case k == 4:
		fs = append(fs, vf18Field{num: uint64(1 + r.Intn(30)), wt: 0, v: vf18Int(r)})
		return vf18Emit(fs), "extra-field"
	case k == 5 && f.wt == 2:
		// a length prefix larger than what remains
		out := vf18Emit(fs[:i])
		out = append(out, vf18Uvarint(f.num<<3|2)...)
		out = append(out, vf18Uvarint(uint64(len(f.data))+vf18Int(r)+1)...)
		out = append(out, f.data...)
		return out, "length-lie"
	case f.wt != 2:
		f.v = vf18Int(r)
		return vf18Emit(fs), "varint-special"
	default:
		switch r.Intn(6) {
		case 0:
			f.data = nil
			return vf18Emit(fs), "empty-submsg"
		case 1:
			f.data = r.Bytes(r.Intn(40))
			return vf18Emit(fs), "random-submsg"
		case 2:
			f.data = append(append([]byte(nil), f.data...), f.data...)
			return vf18Emit(fs), "double-submsg"
		default:
			if depth < 5 {
				d, tag := vf18Mutate(r, f.data, depth+1)
				f.data = d
				return vf18Emit(fs), "sub/" + tag
			}
			f.data = nil
			return vf18Emit(fs), "empty-submsg"
		}
	}
}

// ---- the node under test

type vf18Env struct {
	o       *vfOut
	net     *vfNet
	node    *vfNode
	conR    *ConsensusManager
	dead    bool
	direct  bool // state-machine probe goes straight to the commit phase
	blk     *types.Block
	parts   *types.PartSet
	chainID string
	nVals   int
	blkH    uint64
	lastAdv []vf18Adv // the last accepted non-valid-stream messages (for the state-machine probe)
	clock   int64     // vote time stamps of the simulated validators: strictly increasing, like real clocks
}

// signVote signs a vote of simulated validator idx with a strictly increasing time stamp (vfNet.signVote
// derives the time from height*10+round, which runs backwards once a height needs more than 10 rounds; with
// 3/4 of the power that would make the median block time non-monotonic: a harness artefact).
func (e *vf18Env) signVote(idx int, h uint64, r uint32, typ kproto.SignedMsgType, id types.BlockID, valIndex uint32) *types.Vote {
	e.clock++
	v := &types.Vote{ValidatorAddress: e.net.addrs[idx], ValidatorIndex: valIndex, Height: h, Round: r,
		Timestamp: time.Unix(1700001000+e.clock, 0), Type: typ, BlockID: id}
	p := v.ToProto()
	if err := types.NewDefaultPrivValidator(e.net.keys[idx]).SignVote(e.chainID, p); err != nil {
		return nil
	}
	v.Signature = p.Signature
	return v
}

// vf18Adv is one adversarial message that passed decode+ValidateBasic and was handed to a handler.
type vf18Adv struct {
	ch     byte
	kind   string
	stream string
	hr     string // node height/round/step when it arrived
	hex    string
}

func vf18NewEnv(o *vfOut, r *vfRand) (*vf18Env, error) {
	keys := vfKeys(vfNewRand(4242), 4)
	net, err := vfNewNet(r, keys, []int64{15000000, 15000000, 15000000, 15000000}, map[int]bool{1: true, 2: true, 3: true})
	if err != nil {
		return nil, err
	}
	n := net.nodes[0]
	n.cs.config.PeerGossipSleepDuration = time.Millisecond
	n.cs.config.PeerQueryMaj23SleepDuration = time.Millisecond
	conR := NewConsensusManager(n.cs, &configs.FastSyncConfig{Enable: true}) // waitSync: Start() does not start the state's goroutines
	conR.SetLogger(log.New())
	sw := p2p.NewSwitch(configs.DefaultP2PConfig(), nil) // real switch, no transport, no peers: StopPeerForError first asks
	sw.SetLogger(log.New())                             // peer.IsRunning() of a stub that answers false (and counts); Broadcast has no peers
	conR.SetSwitch(sw)
	if err := conR.Start(); err != nil {
		return nil, err
	}
	e := &vf18Env{o: o, net: net, node: n, conR: conR, chainID: net.g.ChainID, nVals: n.cs.Validators.Size()}
	e.blk, e.parts = net.byzBlock(n, 1, 0)
	e.blkH = n.cs.Height
	return e, nil
}

// guard runs f under recover and a watchdog.
func (e *vf18Env) guard(what string, detail func() string, f func()) (ok bool) {
	done := make(chan interface{}, 1)
	var where string
	go func() {
		defer func() {
			pv := recover()
			if pv != nil {
				// the repository frames of the panicking goroutine (file:line), innermost first
				var fr []string
				for _, ln := range strings.Split(string(debug.Stack()), "\n") {
					ln = strings.TrimSpace(ln)
					if strings.Contains(ln, ".go:") && !strings.Contains(ln, "zz_verif") && !strings.Contains(ln, "/runtime/") && !strings.Contains(ln, "/testing/") {
						if j := strings.Index(ln, " +0x"); j > 0 {
							ln = ln[:j]
						}
						if k := strings.LastIndex(ln, "/"); k >= 0 {
							if k2 := strings.LastIndex(ln[:k], "/"); k2 >= 0 {
								ln = ln[k2+1:]
							}
						}
						fr = append(fr, ln)
					}
				}
				if len(fr) > 6 {
					fr = fr[:6]
				}
				where = strings.Join(fr, " < ")
			}
			done <- pv
		}()
		f()
	}()
	select {
	case pv := <-done:
		if pv != nil {
			e.o.Viol("panic-in-"+what, fmt.Sprintf("panic: %.300v; at %s; %s", pv, where, detail()))
			return false
		}
		return true
	case <-time.After(10 * time.Second):
		e.o.Viol("hang-in-"+what, detail())
		e.dead = true
		return false
	}
}

// drain pushes everything Receive queued for the state machine through the real handleMsg.
func (e *vf18Env) drain(kind string, detail func() string) {
	cs := e.node.cs
	for k := 0; k < 64; k++ {
		select {
		case mi := <-cs.peerMsgQueue:
			e.o.Stat("handleMsg/" + fmt.Sprintf("%T", mi.Msg))
			e.guard("handleMsg/"+kind, detail, func() { cs.handleMsg(mi) })
		case mi := <-cs.internalMsgQueue:
			e.guard("handleMsg/internal", detail, func() { cs.handleMsg(mi) })
		default:
			return
		}
		if e.dead {
			return
		}
	}
}

var vf18ChName = map[byte]string{StateChannel: "State", DataChannel: "Data", VoteChannel: "Vote", VoteSetBitsChannel: "VoteSetBits", 0x77: "Unknown"}

func vf18Kind(b []byte) string {
	pb := &kcons.Message{}
	if proto.Unmarshal(b, pb) != nil {
		return "undecodable"
	}
	switch pb.Sum.(type) {
	case *kcons.Message_NewRoundStep:
		return "NewRoundStep"
	case *kcons.Message_NewValidBlock:
		return "NewValidBlock"
	case *kcons.Message_Proposal:
		return "Proposal"
	case *kcons.Message_ProposalPol:
		return "ProposalPOL"
	case *kcons.Message_BlockPart:
		return "BlockPart"
	case *kcons.Message_Vote:
		return "Vote"
	case *kcons.Message_HasVote:
		return "HasVote"
	case *kcons.Message_VoteSetMaj23:
		return "VoteSetMaj23"
	case *kcons.Message_VoteSetBits:
		return "VoteSetBits"
	}
	return "empty"
}

// vf18Decode is decodeMsg+ValidateBasic under recover (a panic while decoding is itself a violation).
func (e *vf18Env) vf18Decode(b []byte) (m Message, ok bool) {
	defer func() {
		if r := recover(); r != nil {
			e.o.Viol("panic-in-decode/"+vf18Kind(b), fmt.Sprintf("panic: %.200v; bytes=%.600s", r, vfHex(b)))
			m, ok = nil, false
		}
	}()
	m, err := decodeMsg(b)
	if err != nil || m == nil || m.ValidateBasic() != nil {
		return nil, false
	}
	return m, true
}

// vf18Oversized: independent reading of the wire message: a CONSISTENT bit array larger than the cap
// (VoteSetBits > MaxVotesCount, NewValidBlock > MaxBlockPartsCount) must be rejected.
func vf18Oversized(b []byte) string {
	pb := &kcons.Message{}
	if proto.Unmarshal(b, pb) != nil {
		return ""
	}
	consistent := func(x *kbits.BitArray) int64 {
		if x != nil && x.Bits > 0 && (x.Bits+63)/64 == int64(len(x.Elems)) {
			return x.Bits
		}
		return 0
	}
	switch m := pb.Sum.(type) {
	case *kcons.Message_VoteSetBits:
		if m.VoteSetBits != nil && consistent(&m.VoteSetBits.Votes) > 10000 {
			return "VoteSetBits"
		}
	case *kcons.Message_NewValidBlock:
		if m.NewValidBlock != nil && consistent(m.NewValidBlock.BlockParts) > 1601 {
			return "NewValidBlock"
		}
	}
	return ""
}

// receive delivers one message and applies the oracle.
func (e *vf18Env) receive(ch byte, peer *vf18Peer, b []byte, stream string) {
	o := e.o
	kind := vf18Kind(b)
	detail := func() string {
		h := vfHex(b)
		if len(h) > 600 {
			h = h[:600] + "..."
		}
		return fmt.Sprintf("ch=%s kind=%s stream=%s step=%v len=%d bytes=%s", vf18ChName[ch], kind, stream, e.node.cs.Step, len(b), h)
	}
	_, decoded := e.vf18Decode(b)
	stops := peer.stops
	var m0, m1 runtime.MemStats
	runtime.ReadMemStats(&m0)
	ok := e.guard("receive/"+vf18ChName[ch]+"/"+kind, detail, func() { e.conR.Receive(ch, peer, b) })
	runtime.ReadMemStats(&m1)
	if d := m1.TotalAlloc - m0.TotalAlloc; d > 64<<20 {
		o.Viol("alloc-in-receive/"+vf18ChName[ch]+"/"+kind, fmt.Sprintf("%d MB allocated by one message; %s", d>>20, detail()))
	}
	o.Stat("recv/" + vf18ChName[ch] + "/" + stream)
	if decoded {
		o.Stat("accepted/" + stream + "/" + kind)
		if stream != "valid" && stream != "health" && stream != "prime" {
			h := vfHex(b)
			if len(h) > 500 {
				h = h[:500] + "..."
			}
			cs := e.node.cs
			e.lastAdv = append(e.lastAdv, vf18Adv{ch, kind, stream, fmt.Sprintf("%d/%d/%v", cs.Height, cs.Round, cs.Step), h})
			if len(e.lastAdv) > 8 {
				e.lastAdv = e.lastAdv[len(e.lastAdv)-8:]
			}
		}
	} else {
		o.Stat("rejected/" + stream)
		if ok && peer.stops == stops {
			o.Viol("invalid-message-not-rejected/"+vf18ChName[ch]+"/"+kind, detail())
		}
	}
	if over := vf18Oversized(b); over != "" {
		o.Stat("oversized-bitarray/" + over)
		if ok && peer.stops == stops {
			o.Viol("oversized-bitarray-accepted/"+over, detail())
		}
	}
	if peer.stops > stops {
		o.Stat("peer-stopped/" + stream)
		if decoded {
			o.Stat("peer-stopped-on-valid/" + kind)
		}
	}
	if ok && !e.dead {
		e.drain(kind, detail)
	}
}

// gossip runs the real gossip routines for a few iterations on the peer state (they have no recover).
func (e *vf18Env) gossip(peer *vf18Peer, why string) {
	ps, ok := peer.Get(types.PeerStateKey).(*PeerState)
	if !ok || e.dead {
		return
	}
	o := e.o
	// a peer state poisoned with a giant bit array (F18) makes String()/Not() run for minutes: measured by
	// the alloc oracle, not stepped here
	huge := ps.PRS.ProposalBlockParts.Size() > 1<<22 || ps.PRS.ProposalPOL.Size() > 1<<22
	if huge {
		o.Stat("gossip/skipped-huge-bitarray")
		return
	}
	detail := func() string {
		return fmt.Sprintf("after %s; prs H/R/S=%d/%d/%v parts=%d pol=%d", why, ps.PRS.Height, ps.PRS.Round, ps.PRS.Step,
			ps.PRS.ProposalBlockParts.Size(), ps.PRS.ProposalPOL.Size())
	}
	peer.sent = nil
	peer.sentCh = nil
	peer.gossipTTL = 4
	e.guard("gossip/data-routine", detail, func() { e.conR.gossipDataRoutine(peer, ps) })
	peer.gossipTTL = 4
	e.guard("gossip/votes-routine", detail, func() { e.conR.gossipVotesRoutine(peer, ps) })
	peer.gossipTTL = 2
	e.guard("gossip/maj23-routine", detail, func() { e.conR.queryMaj23Routine(peer, ps) })
	peer.gossipTTL = 0
	cs := e.node.cs
	e.guard("gossip/pick-vote", detail, func() {
		rs := cs.GetRoundState()
		prs := ps.GetRoundState()
		ps.PickVoteToSend(rs.Votes.Prevotes(rs.Round))
		ps.PickVoteToSend(rs.Votes.Precommits(rs.Round))
		if rs.LastCommit != nil {
			ps.PickVoteToSend(rs.LastCommit)
		}
		e.conR.gossipVotesForHeight(e.conR.Logger, rs, prs, ps)
		if prs.ProposalBlockParts != nil {
			e.conR.gossipDataForCatchup(rs, prs, ps, peer)
		}
		_ = ps.String()
		ps.SetHasProposalBlockPart(prs.Height, prs.Round, 0)
		ps.SetHasProposalBlockPart(prs.Height, prs.Round, int(^uint32(0)))
		ours := cmn.NewBitArray(e.nVals)
		ours.SetIndex(1, true)
		ps.ApplyVoteSetBitsMessage(&VoteSetBitsMessage{Height: prs.Height, Round: prs.Round, Type: kproto.PrevoteType, Votes: ours}, ours.Copy())
		ps.EnsureVoteBitArrays(prs.Height, e.nVals)
	})
	o.Stat("gossip-steps")
	// whatever we sent to the peer must itself be a decodable, valid message
	for i, b := range peer.sent {
		if _, okd := e.vf18Decode(b); !okd {
			o.Viol("own-message-invalid/"+vf18ChName[peer.sentCh[i]], vfHex(b))
		}
		o.Stat("gossip-sent/" + vf18Kind(b))
	}
}

// ---- message generators

func vf18Enc(m Message) []byte {
	pb, err := MsgToProto(m)
	if err != nil {
		return nil
	}
	b, err := proto.Marshal(pb)
	if err != nil {
		return nil
	}
	return b
}

func (e *vf18Env) blockID() types.BlockID {
	if e.blk != nil {
		return types.BlockID{Hash: e.blk.Hash(), PartsHeader: e.parts.Header()}
	}
	return types.BlockID{Hash: cmn.BytesToHash([]byte{1}), PartsHeader: types.PartSetHeader{Total: 1, Hash: cmn.BytesToHash([]byte{2})}}
}

func vf18Bits(r *vfRand, n int) *cmn.BitArray {
	b := cmn.NewBitArray(n)
	for i := 0; i < n; i++ {
		if r.Bool() {
			b.SetIndex(i, true)
		}
	}
	return b
}

// validMsgs returns well-formed messages of every kind for the node's current height/round.
func (e *vf18Env) validMsgs(r *vfRand) []struct {
	ch byte
	m  Message
} {
	cs := e.node.cs
	h, rd := cs.Height, cs.Round
	if e.blkH != h {
		// the harness holds 3 of the 4 keys; its *valid* traffic is honest in content (a valid block of the
		// current height), otherwise +2/3 of the power would legitimately drive the node into a consensus failure
		e.blk, e.parts = e.net.byzBlock(e.node, 1, 0)
		e.blkH = h
	}
	id := e.blockID()
	type cm = struct {
		ch byte
		m  Message
	}
	var out []cm
	lcr := uint32(0)
	if h > cs.state.InitialHeight {
		lcr = 1
	}
	out = append(out, cm{StateChannel, &NewRoundStepMessage{Height: h, Round: rd, Step: cstypes.RoundStepType(1 + r.Intn(8)), SecondsSinceStartTime: uint64(r.Intn(100)), LastCommitRound: lcr}})
	out = append(out, cm{StateChannel, &HasVoteMessage{Height: h, Round: rd, Type: kproto.SignedMsgType(1 + r.Intn(2)), Index: uint32(r.Intn(e.nVals))}})
	out = append(out, cm{StateChannel, &VoteSetMaj23Message{Height: h, Round: rd, Type: kproto.SignedMsgType(1 + r.Intn(2)), BlockID: id}})
	out = append(out, cm{VoteSetBitsChannel, &VoteSetBitsMessage{Height: h, Round: rd, Type: kproto.SignedMsgType(1 + r.Intn(2)), BlockID: id, Votes: vf18Bits(r, e.nVals)}})
	out = append(out, cm{DataChannel, &ProposalPOLMessage{Height: h, ProposalPOLRound: rd, ProposalPOL: vf18Bits(r, e.nVals)}})
	if e.blk != nil {
		out = append(out, cm{StateChannel, &NewValidBlockMessage{Height: h, Round: rd, BlockPartsHeader: e.parts.Header(), BlockParts: vf18Bits(r, int(e.parts.Total())), IsCommit: r.Bool()}})
		for _, mi := range e.net.byzProposalMsgs(1+r.Intn(3), h, rd, 0, e.blk, e.parts, e.chainID) {
			out = append(out, cm{DataChannel, mi.Msg})
		}
	}
	who := 1 + r.Intn(3)
	if vi, ok := vfValIndex(cs, e.net.addrs[who]); ok {
		vid := id
		if r.Bool() || e.blk == nil {
			vid = types.BlockID{}
		}
		if v := e.signVote(who, h, rd, kproto.SignedMsgType(1+r.Intn(2)), vid, vi); v != nil {
			out = append(out, cm{VoteChannel, &VoteMessage{v}})
		}
	}
	return out
}

func (e *vf18Env) advHeight(r *vfRand) uint64 {
	h := e.node.cs.Height
	return []uint64{0, 1, h - 1, h, h, h, h + 1, h + 2, 1<<63 - 1, 1 << 63, 1<<64 - 1, r.U64()}[r.Intn(12)]
}
func (e *vf18Env) advRound(r *vfRand) uint32 {
	rd := e.node.cs.Round
	return []uint32{0, 0, 1, rd, rd, rd + 1, 2, 1<<31 - 1, 1 << 31, 1<<32 - 1, uint32(r.U64())}[r.Intn(11)]
}
func vf18Max1(n int) int {
	if n < 1 {
		return 1
	}
	return n
}
func vf18AdvType(r *vfRand) kproto.SignedMsgType {
	return kproto.SignedMsgType([]int32{0, 1, 1, 2, 2, 3, 32, -1, 1<<31 - 1}[r.Intn(9)])
}
func vf18AdvTotal(r *vfRand) uint32 {
	// totals above 2^27 (16 MB of bit array) only rarely: each costs real memory (F18)
	if r.Chance(3) {
		return []uint32{1 << 30, 1<<31 - 1, 1<<32 - 1}[r.Intn(3)]
	}
	return []uint32{0, 1, 1, 2, 3, 64, 65, 1600, 1601, 1602, 65536, 1 << 20, 1 << 24, 1 << 27}[r.Intn(14)]
}
func vf18AdvBits(r *vfRand, like int) *kbits.BitArray {
	switch r.Intn(12) {
	case 0:
		return nil
	case 1:
		return &kbits.BitArray{}
	case 2: // consistent, interesting sizes
		n := []int{1, like, like, 64, 65, 128, 1601, 1602, 10000, 10001, 20000}[r.Intn(11)]
		b := &kbits.BitArray{Bits: int64(n), Elems: make([]uint64, (n+63)/64)}
		for i := range b.Elems {
			b.Elems[i] = r.U64()
		}
		return b
	case 3: // bits larger than the words
		return &kbits.BitArray{Bits: int64(vf18Int(r)), Elems: []uint64{r.U64()}}
	case 4: // negative
		return &kbits.BitArray{Bits: -int64(vf18Int(r) >> 1), Elems: []uint64{r.U64(), r.U64()}}
	case 5: // bits smaller than the words
		return &kbits.BitArray{Bits: int64(r.Intn(5)), Elems: make([]uint64, 1+r.Intn(40))}
	case 6: // no words at all
		return &kbits.BitArray{Bits: int64(1 + r.Intn(100000))}
	case 7: // all ones incl. stragglers
		n := 1 + r.Intn(like+3)
		b := &kbits.BitArray{Bits: int64(n), Elems: make([]uint64, (n+63)/64)}
		for i := range b.Elems {
			b.Elems[i] = ^uint64(0)
		}
		return b
	default:
		n := like
		if r.Chance(30) {
			n = 1 + r.Intn(2*like+2)
		}
		b := &kbits.BitArray{Bits: int64(n), Elems: make([]uint64, (n+63)/64)}
		for i := range b.Elems {
			b.Elems[i] = r.U64()
		}
		return b
	}
}
func (e *vf18Env) advBlockID(r *vfRand) kproto.BlockID {
	id := e.blockID()
	b := kproto.BlockID{Hash: id.Hash.Bytes(), PartSetHeader: kproto.PartSetHeader{Total: id.PartsHeader.Total, Hash: id.PartsHeader.Hash.Bytes()}}
	switch r.Intn(8) {
	case 0:
		b.Hash = nil
	case 1:
		b.Hash = r.Bytes(r.Intn(70))
	case 2:
		b.PartSetHeader.Hash = r.Bytes(r.Intn(70))
	case 3:
		b.PartSetHeader.Total = vf18AdvTotal(r)
	case 4:
		b = kproto.BlockID{}
	case 5:
		b.Hash = r.Bytes(32)
		b.PartSetHeader.Total = vf18AdvTotal(r)
	}
	return b
}

// advMsg builds a typed adversarial message (proto level, so that impossible values can be expressed).
func (e *vf18Env) advMsg(r *vfRand) (byte, []byte, string) {
	h, rd := e.advHeight(r), e.advRound(r)
	var pb kcons.Message
	ch := StateChannel
	tag := ""
	switch r.Intn(10) {
	case 0:
		pb.Sum = &kcons.Message_NewRoundStep{NewRoundStep: &kcons.NewRoundStep{Height: h, Round: rd, Step: uint32(vf18Int(r)), SecondsSinceStartTime: vf18Int(r), LastCommitRound: e.advRound(r)}}
		tag = "adv-nrs"
	case 1:
		total := vf18AdvTotal(r)
		pb.Sum = &kcons.Message_NewValidBlock{NewValidBlock: &kcons.NewValidBlock{Height: h, Round: rd,
			BlockPartSetHeader: kproto.PartSetHeader{Total: total, Hash: r.Bytes(r.Pick(0, 32, 32, 5))}, BlockParts: vf18AdvBits(r, vf18Max1(int(total%4096))), IsCommit: r.Bool()}}
		tag = "adv-nvb"
	case 2:
		p := kproto.Proposal{Height: h, Round: rd, PolRound: e.advRound(r), BlockID: e.advBlockID(r), Timestamp: time.Unix(int64(vf18Int(r)>>30), 0), Signature: r.Bytes(r.Pick(0, 1, 64, 65))}
		pb.Sum = &kcons.Message_Proposal{Proposal: &kcons.Proposal{Proposal: p}}
		ch, tag = DataChannel, "adv-proposal"
	case 3:
		bb := vf18AdvBits(r, e.nVals)
		if bb == nil {
			bb = &kbits.BitArray{}
		}
		pb.Sum = &kcons.Message_ProposalPol{ProposalPol: &kcons.ProposalPOL{Height: h, ProposalPolRound: rd, ProposalPol: *bb}}
		ch, tag = DataChannel, "adv-pol"
	case 4:
		part := kproto.Part{Index: uint32(vf18Int(r)), Bytes: r.Bytes(r.Pick(0, 1, 100, 65536, 65537))}
		if e.parts != nil && r.Bool() {
			if pp, err := e.parts.GetPart(0).ToProto(); err == nil {
				part = *pp
				switch r.Intn(4) {
				case 0:
					part.Index = uint32(vf18Int(r))
				case 1:
					part.Proof.Total = vf18Int(r)
				case 2:
					part.Proof.Index = vf18Int(r)
				}
			}
		}
		pb.Sum = &kcons.Message_BlockPart{BlockPart: &kcons.BlockPart{Height: h, Round: rd, Part: part}}
		ch, tag = DataChannel, "adv-part"
	case 5:
		var v *kproto.Vote
		if !r.Chance(10) {
			v = &kproto.Vote{Type: vf18AdvType(r), Height: h, Round: rd, BlockID: e.advBlockID(r), Timestamp: time.Unix(1700000000, 0),
				ValidatorAddress: r.Bytes(r.Pick(0, 20, 20, 33)), ValidatorIndex: uint32(vf18Int(r)), Signature: r.Bytes(r.Pick(0, 1, 65, 65, 200))}
			if r.Bool() {
				v.ValidatorAddress = e.net.addrs[r.Intn(4)].Bytes()
				v.ValidatorIndex = uint32(r.Intn(5))
			}
		}
		tag = "adv-vote"
		if v != nil && r.Chance(35) {
			// a Byzantine VALIDATOR: the vote is correctly signed with a validator's key, for the node's
			// own height and a round it is in or about to enter - only its content is adversarial
			cs := e.node.cs
			w := 1 + r.Intn(3)
			if vi, okv := vfValIndex(cs, e.net.addrs[w]); okv {
				sv := &kproto.Vote{Type: kproto.SignedMsgType(r.Pick(int(kproto.PrevoteType), int(kproto.PrecommitType), int(kproto.PrecommitType))),
					Height: cs.Height, Round: []uint32{cs.Round, cs.Round, cs.Round, cs.Round + 1, rd}[r.Intn(5)], BlockID: vf18NormBlockID(e.advBlockID(r)),
					Timestamp: time.Unix(1700000000+int64(r.Intn(1000)), 0), ValidatorAddress: e.net.addrs[w].Bytes(), ValidatorIndex: vi}
				signed := false
				func() {
					defer func() { _ = recover() }()
					signed = types.NewDefaultPrivValidator(e.net.keys[w]).SignVote(e.chainID, sv) == nil
				}()
				if signed {
					v, tag = sv, "adv-vote-signed"
				}
			}
		}
		pb.Sum = &kcons.Message_Vote{Vote: &kcons.Vote{Vote: v}}
		ch = VoteChannel
	case 6:
		pb.Sum = &kcons.Message_HasVote{HasVote: &kcons.HasVote{Height: h, Round: rd, Type: vf18AdvType(r), Index: uint32(vf18Int(r))}}
		tag = "adv-hasvote"
	case 7:
		pb.Sum = &kcons.Message_VoteSetMaj23{VoteSetMaj23: &kcons.VoteSetMaj23{Height: h, Round: rd, Type: vf18AdvType(r), BlockID: e.advBlockID(r)}}
		tag = "adv-maj23"
	default:
		bb := vf18AdvBits(r, e.nVals)
		if bb == nil {
			bb = &kbits.BitArray{}
		}
		pb.Sum = &kcons.Message_VoteSetBits{VoteSetBits: &kcons.VoteSetBits{Height: h, Round: rd, Type: vf18AdvType(r), BlockID: e.advBlockID(r), Votes: *bb}}
		ch, tag = VoteSetBitsChannel, "adv-bits"
	}
	if r.Chance(10) { // wrong channel
		ch = []byte{StateChannel, DataChannel, VoteChannel, VoteSetBitsChannel, 0x77}[r.Intn(5)]
		tag += "+wrongch"
	}
	b, err := proto.Marshal(&pb)
	if err != nil {
		return ch, nil, tag + "+marshal-error"
	}
	return ch, b, tag
}

// roundtrip: every well-formed message survives encode/decode unchanged.
func (e *vf18Env) roundtrip(m Message) {
	b := vf18Enc(m)
	kind := fmt.Sprintf("%T", m)
	if b == nil {
		e.o.Viol("roundtrip/encode/"+kind, fmt.Sprintf("%v", m))
		return
	}
	m2, err := decodeMsg(b)
	if err != nil {
		e.o.Viol("roundtrip/decode/"+kind, fmt.Sprintf("%v: %s", err, vfHex(b)))
		return
	}
	b2 := vf18Enc(m2)
	if !bytes.Equal(b, b2) || fmt.Sprintf("%T", m2) != kind {
		e.o.Viol("roundtrip/changed/"+kind, fmt.Sprintf("%s -> %s", vfHex(b), vfHex(b2)))
	}
	e.o.Stat("roundtrip/" + kind)
}

// futMsg builds a STRUCTURALLY VALID vote / proposal / block part for a future (or past) round or height:
// rounds R+1, R+2, R+3, R+5 and huge, heights H-1, H, H+1, 0; with a garbage signature, or with a valid
// signature of ONE simulated validator (validator 3 = 1/4 of the power, the Byzantine budget of the fault
// model), naming a real validator or a non-validator.
func (e *vf18Env) futMsg(r *vfRand) (byte, []byte, string) {
	cs := e.node.cs
	H, R := cs.Height, cs.Round
	h := []uint64{H, H, H, H, H, H - 1, H + 1, 0}[r.Intn(8)]
	rd := []uint32{R + 1, R + 2, R + 2, R + 3, R + 3, R + 5, R, 0, 1<<31 - 1, 1 << 31, 1<<32 - 2, 1<<32 - 1}[r.Intn(12)]
	id := e.blockID()
	switch r.Intn(4) {
	case 0:
		id = types.BlockID{}
	case 1:
		id = types.BlockID{Hash: cmn.BytesToHash(r.Bytes(32)), PartsHeader: types.PartSetHeader{Total: uint32(1 + r.Intn(3)), Hash: cmn.BytesToHash(r.Bytes(32))}}
	}
	validSig := r.Chance(40)
	tag := "badsig"
	if validSig {
		tag = "val3sig"
	}
	switch r.Intn(5) {
	case 0, 1, 2: // vote
		typ := kproto.SignedMsgType(1 + r.Intn(2))
		who := 1 + r.Intn(3)
		if validSig {
			who = 3
		}
		vi, _ := vfValIndex(cs, e.net.addrs[who])
		var v *types.Vote
		if validSig {
			v = e.signVote(who, h, rd, typ, id, vi)
		}
		if v == nil {
			v = &types.Vote{ValidatorAddress: e.net.addrs[who], ValidatorIndex: vi, Height: h, Round: rd, Timestamp: time.Unix(1700000000, 0),
				Type: typ, BlockID: id, Signature: r.Bytes(65)}
			switch r.Intn(6) {
			case 0: // not a validator at all
				v.ValidatorAddress = cmn.BytesToAddress(r.Bytes(20))
			case 1:
				v.ValidatorIndex = uint32(e.nVals + r.Intn(3))
			}
		}
		return VoteChannel, vf18Enc(&VoteMessage{v}), fmt.Sprintf("fut-vote-%s", tag)
	case 3: // proposal
		if id.IsZero() {
			id = e.blockID()
		}
		pol := []uint32{0, 0, rd - 1, rd, rd + 1, 1<<32 - 1}[r.Intn(6)]
		prop := types.NewProposal(h, rd, pol, id)
		prop.Timestamp = time.Unix(1700000000+int64(h), 0)
		prop.Signature = r.Bytes(65)
		if validSig {
			pp := prop.ToProto()
			if types.NewDefaultPrivValidator(e.net.keys[3]).SignProposal(e.chainID, pp) == nil {
				prop.Signature = pp.Signature
			}
		}
		return DataChannel, vf18Enc(&ProposalMessage{prop}), fmt.Sprintf("fut-proposal-%s", tag)
	default: // block part of the current valid block, for another height/round
		if e.parts == nil {
			return StateChannel, vf18Enc(&HasVoteMessage{Height: h, Round: rd, Type: kproto.PrevoteType, Index: uint32(r.Intn(e.nVals))}), "fut-hasvote"
		}
		return DataChannel, vf18Enc(&BlockPartMessage{Height: h, Round: rd, Part: e.parts.GetPart(r.Intn(int(e.parts.Total())))}), "fut-part"
	}
}

// smVotes delivers valid votes of the simulated validators `who` straight to the state machine.
func (e *vf18Env) smVotes(who []int, h uint64, rd uint32, typ kproto.SignedMsgType, id types.BlockID) {
	cs := e.node.cs
	for _, w := range who {
		vi, ok := vfValIndex(cs, e.net.addrs[w])
		if !ok {
			continue
		}
		if v := e.signVote(w, h, rd, typ, id, vi); v != nil {
			cs.handleMsg(msgInfo{&VoteMessage{v}, "smprobe"})
			e.net.drain()
		}
	}
}

// smProbe is the STATE-MACHINE HEALTH PROBE: some damage of a peer message shows only when the state machine
// moves on (e.g. a catch-up round opened by a forged future-round vote that a later SetRound trips over). After
// a batch of adversarial messages the node is driven, with valid traffic only, through timeouts
// (propose -> prevote -> prevote-wait -> precommit -> precommit-wait -> next round) for two rounds, a +2/3-any
// round skip, and (when commit is set) a proposal + polka + commit into the next height; all under recover.
func (e *vf18Env) smProbe(commit bool) {
	if e.dead {
		return
	}
	o := e.o
	cs := e.node.cs
	ch, kind := "none", "none"
	for i := len(e.lastAdv) - 1; i >= 0; i-- { // prefer the last one that went to the state machine
		a := e.lastAdv[i]
		if a.kind == "Vote" || a.kind == "Proposal" || a.kind == "BlockPart" {
			ch, kind = vf18ChName[a.ch], a.kind
			break
		}
	}
	if ch == "none" && len(e.lastAdv) > 0 {
		a := e.lastAdv[len(e.lastAdv)-1]
		ch, kind = vf18ChName[a.ch], a.kind
	}
	phase := "start"
	h0, r0 := cs.Height, cs.Round
	detail := func() string {
		d := fmt.Sprintf("probe phase=%s node was at %d/%d now %d/%d/%v; last accepted adversarial messages (oldest first):", phase, h0, r0, cs.Height, cs.Round, cs.Step)
		for _, a := range e.lastAdv {
			d += fmt.Sprintf(" [%s %s %s at %s %s]", vf18ChName[a.ch], a.kind, a.stream, a.hr, a.hex)
		}
		return d
	}
	fire := func() {
		e.net.fireTimeout(e.node, true)
		e.net.drain()
	}
	all, two := []int{1, 2, 3}, []int{1, 2}
	ok := e.guard("state-machine-after-peer-message/"+ch+"/"+kind, detail, func() {
		e.net.drain()
		H := cs.Height
		// A. two round changes by timeouts (skipped, with B, by a direct probe: the commit then happens in
		// the round the adversarial messages were aimed at)
		for rc := 0; rc < 2 && cs.Height == H && !e.direct; rc++ {
			r := cs.Round
			phase = fmt.Sprintf("timeouts-round-%d", r)
			for k := 0; k < 3 && cs.Step < cstypes.RoundStepPrevote; k++ {
				fire() // new height -> new round -> propose -> (timeout) prevote
			}
			e.smVotes(two, H, r, kproto.PrevoteType, types.BlockID{}) // +2/3 any -> prevote wait
			fire()                                                     // -> precommit
			e.smVotes(two, H, r, kproto.PrecommitType, types.BlockID{}) // +2/3 any -> precommit wait
			fire()                                                       // -> next round
			if cs.Height == H && cs.Round > r {
				o.Stat("sm-probe/round-change-by-timeout")
			}
		}
		// B. round skip on +2/3 any prevotes of a later round
		if cs.Height == H && !e.direct {
			r := cs.Round
			phase = fmt.Sprintf("round-skip-to-%d", r+2)
			e.smVotes(all, H, r+2, kproto.PrevoteType, types.BlockID{})
			if cs.Height == H && cs.Round == r+2 {
				o.Stat("sm-probe/round-skip")
			}
		}
		// C. a valid proposal, polka and commit: height change
		if commit && cs.Height == H {
			r := cs.Round
			phase = fmt.Sprintf("commit-in-round-%d", r)
			for k := 0; k < 2 && cs.Step < cstypes.RoundStepPropose; k++ {
				fire()
			}
			if cs.ProposalBlock == nil {
				pa := cs.Validators.GetProposer().Address
				if idx, okp := e.net.valIdx[pa]; okp && idx != 0 {
					if blk, parts := e.net.byzBlock(e.node, idx, 0); blk != nil {
						for _, mi := range e.net.byzProposalMsgs(idx, H, r, 0, blk, parts, e.chainID) {
							cs.handleMsg(msgInfo{mi.Msg, "smprobe"})
							e.net.drain()
						}
					}
				}
			}
			if cs.ProposalBlock != nil && cs.ProposalBlockParts != nil && cs.ProposalBlockParts.IsComplete() {
				id := types.BlockID{Hash: cs.ProposalBlock.Hash(), PartsHeader: cs.ProposalBlockParts.Header()}
				e.smVotes(all, H, r, kproto.PrevoteType, id)
				e.smVotes(all, H, r, kproto.PrecommitType, id)
			}
			if cs.Height > H {
				o.Stat("sm-probe/committed")
				phase = "new-height"
				fire() // leave NewHeight at the new height
			} else {
				o.Stat("sm-probe/commit-not-reached")
			}
		}
	})
	o.Stat("sm-probes")
	if !ok {
		e.dead = true // rebuild the node: its state is not trustworthy after a panic
	}
}

// lastCommitProbe: a precommit for height H-1 (height 0 on a fresh chain) while the node waits in step
// NewHeight goes to cs.LastCommit.AddVote; at the initial height LastCommit is a nil vote set.
func (e *vf18Env) lastCommitProbe(r *vfRand) {
	cs := e.node.cs
	if cs.Step != cstypes.RoundStepNewHeight {
		return
	}
	peer := vf18NewPeer("lc")
	e.conR.InitPeer(peer)
	vi, _ := vfValIndex(cs, e.net.addrs[1])
	v := &types.Vote{ValidatorAddress: e.net.addrs[1], ValidatorIndex: vi, Height: cs.Height - 1, Round: 0, Timestamp: time.Unix(1700000000, 0),
		Type: kproto.PrecommitType, BlockID: types.BlockID{}, Signature: r.Bytes(65)}
	e.o.Stat(fmt.Sprintf("last-commit-probe/lastCommitNil=%v", cs.LastCommit == nil))
	e.receive(VoteChannel, peer, vf18Enc(&VoteMessage{v}), "past-height")
}

// polProbe: the validator whose turn it is (one of the three keys the harness holds) signs a proposal
// for the node's current height/round with a POL round that cannot exist (>= the round); the node
// must refuse it. If it keeps it, the gossip routine for a peer that lacks the proposal builds a
// ProposalPOLMessage from a vote set that does not exist (found by the thorough tier: nil dereference
// in MsgToProto inside gossipDataRoutine, which has no recover).
func (e *vf18Env) polProbe(r *vfRand) {
	cs := e.node.cs
	if e.dead || cs.Proposal != nil || cs.Step > cstypes.RoundStepPropose {
		return
	}
	prop := cs.Validators.GetProposer()
	if prop == nil {
		return
	}
	idx, ok := e.net.valIdx[prop.Address]
	if !ok || idx == e.node.idx {
		e.o.Stat("pol-probe/skipped-own-turn")
		return
	}
	e.validMsgs(r) // makes sure e.blk / e.parts hold a valid block of this height
	if e.blk == nil {
		return
	}
	h, rd := cs.Height, cs.Round
	pol := []uint32{rd, rd + 1, rd + 7, 1<<32 - 1}[r.Intn(4)]
	msgs := e.net.byzProposalMsgs(idx, h, rd, pol, e.blk, e.parts, e.chainID)
	if len(msgs) == 0 {
		return
	}
	sender := vf18NewPeer("pol")
	e.conR.InitPeer(sender)
	e.receive(StateChannel, sender, vf18Enc(&NewRoundStepMessage{Height: h, Round: rd, Step: cstypes.RoundStepPropose, LastCommitRound: map[bool]uint32{false: 0, true: 1}[h > cs.state.InitialHeight]}), "pol-probe")
	e.receive(DataChannel, sender, vf18Enc(msgs[0].Msg), "pol-probe")
	if p := cs.Proposal; p != nil && p.POLRound != 0 && p.POLRound >= p.Round {
		e.o.Viol("proposal-with-impossible-pol-round-kept", fmt.Sprintf("height %d round %d: proposal with POLRound %d kept (the POL round must be 0 or below the round)", h, rd, p.POLRound))
	}
	e.o.Stat(fmt.Sprintf("pol-probe/kept=%v", cs.Proposal != nil))
	// a peer in the same height/round that has not seen the proposal: what the gossip routine does now
	lag := vf18NewPeer("pol-lag")
	e.conR.InitPeer(lag)
	e.receive(StateChannel, lag, vf18Enc(&NewRoundStepMessage{Height: h, Round: rd, Step: cstypes.RoundStepPropose, LastCommitRound: map[bool]uint32{false: 0, true: 1}[h > cs.state.InitialHeight]}), "pol-probe")
	e.gossip(lag, "pol-probe")
}

// step moves the node into another step by firing its pending timeouts.
func (e *vf18Env) step(r *vfRand) {
	for k := r.Intn(3); k > 0; k-- {
		e.guard("timeout", func() string { return "firing a timeout" }, func() {
			e.net.fireTimeout(e.node, false)
			e.net.drain()
		})
	}
	e.o.Stat(fmt.Sprintf("node-step/%v", e.node.cs.Step))
}

// f18Probe measures the allocation caused by ONE valid-looking proposal with PartSetHeader.Total = 2^32-1
// sent after a NewRoundStep for the same height/round (no signature check is reached before).
func (e *vf18Env) f18Probe() {
	cs := e.node.cs
	peer := vf18NewPeer("f18")
	e.conR.InitPeer(peer)
	e.receive(StateChannel, peer, vf18Enc(&NewRoundStepMessage{Height: cs.Height, Round: 0, Step: cstypes.RoundStepPropose}), "f18-probe")
	p := kproto.Proposal{Height: cs.Height, Round: 0, BlockID: kproto.BlockID{Hash: bytes.Repeat([]byte{1}, 32),
		PartSetHeader: kproto.PartSetHeader{Total: 1<<32 - 1, Hash: bytes.Repeat([]byte{2}, 32)}}, Timestamp: time.Unix(1700000000, 0), Signature: []byte{1}}
	b, _ := proto.Marshal(&kcons.Message{Sum: &kcons.Message_Proposal{Proposal: &kcons.Proposal{Proposal: p}}})
	e.o.Sample(fmt.Sprintf("F18 probe proposal (%d bytes): %s", len(b), vfHex(b)))
	e.receive(DataChannel, peer, b, "f18-probe")
	if ps, ok := peer.Get(types.PeerStateKey).(*PeerState); ok && ps.PRS.ProposalBlockParts != nil {
		e.o.Stat(fmt.Sprintf("f18-probe/peer-state-bitarray-words=%d", len(ps.PRS.ProposalBlockParts.Elems)))
	}
	peer.Set(types.PeerStateKey, nil)
	runtime.GC()
}

// vf18NormBlockID: the proto form types.BlockID.ToProto() produces for what the node decodes from b
// (32-byte hashes, zero-filled when absent): a signature the node can verify must be over this form.
func vf18NormBlockID(b kproto.BlockID) kproto.BlockID {
	if len(b.Hash) == 0 {
		b.Hash = make([]byte, 32)
	}
	if len(b.PartSetHeader.Hash) == 0 {
		b.PartSetHeader.Hash = make([]byte, 32)
	}
	return b
}

// byzFinale: a Byzantine VALIDATOR's last word before the node commits. One or two correctly signed
// votes for the node's current height and round whose block id is decodable but odd (hash without
// parts header, parts header without hash, zero total, another block, nil), sent through Receive;
// the direct probe then commits a block in exactly that round, so whatever the vote sets kept of
// them is folded into the commit (MakeCommit), the last-commit of the next height and its gossip.
func (e *vf18Env) byzFinale(r *vfRand, peer *vf18Peer) {
	cs := e.node.cs
	id := e.blockID()
	full := kproto.BlockID{Hash: id.Hash.Bytes(), PartSetHeader: kproto.PartSetHeader{Total: id.PartsHeader.Total, Hash: id.PartsHeader.Hash.Bytes()}}
	if r.Chance(50) {
		// two-step: claim +2/3 for a block id (the vote set starts a tally for it), then a vote for that
		// id "from" a validator index beyond the set - unsigned garbage that must die at the index check
		typ := kproto.SignedMsgType(r.Pick(int(kproto.PrevoteType), int(kproto.PrecommitType)))
		x := full
		if r.Chance(30) {
			x = kproto.BlockID{}
		}
		if bz, err := proto.Marshal(&kcons.Message{Sum: &kcons.Message_VoteSetMaj23{VoteSetMaj23: &kcons.VoteSetMaj23{Height: cs.Height, Round: cs.Round, Type: typ, BlockID: x}}}); err == nil {
			e.receive(StateChannel, peer, bz, "byz-validator")
		}
		ov := &kproto.Vote{Type: typ, Height: cs.Height, Round: cs.Round, BlockID: x, Timestamp: time.Unix(1700000000, 0),
			ValidatorAddress: e.net.addrs[1+r.Intn(3)].Bytes(), ValidatorIndex: uint32(r.Pick(e.nVals, e.nVals+1, 1000, 1<<31-1)), Signature: r.Bytes(65)}
		if bz, err := proto.Marshal(&kcons.Message{Sum: &kcons.Message_Vote{Vote: &kcons.Vote{Vote: ov}}}); err == nil && !e.dead {
			e.receive(VoteChannel, peer, bz, "byz-validator")
		}
		e.o.Stat("byz-finale/index-beyond-set")
		if e.dead {
			return
		}
	}
	for k := 1 + r.Intn(2); k > 0; k-- {
		b := full
		switch r.Intn(7) {
		case 0, 1:
			b.Hash = nil // parts header without a block hash
		case 2:
			b.PartSetHeader = kproto.PartSetHeader{} // block hash without a parts header
		case 3:
			b.PartSetHeader.Total = 0
		case 4:
			b.Hash = r.Bytes(32)
		case 5:
			b = kproto.BlockID{}
		default:
			b.PartSetHeader.Hash = r.Bytes(32)
		}
		w := 1 + r.Intn(3)
		vi, okv := vfValIndex(cs, e.net.addrs[w])
		if !okv {
			continue
		}
		sv := &kproto.Vote{Type: kproto.SignedMsgType(r.Pick(int(kproto.PrevoteType), int(kproto.PrecommitType), int(kproto.PrecommitType))),
			Height: cs.Height, Round: cs.Round, BlockID: vf18NormBlockID(b), Timestamp: time.Unix(1700000000+int64(r.Intn(1000)), 0),
			ValidatorAddress: e.net.addrs[w].Bytes(), ValidatorIndex: vi}
		signed := false
		func() {
			defer func() { _ = recover() }()
			signed = types.NewDefaultPrivValidator(e.net.keys[w]).SignVote(e.chainID, sv) == nil
		}()
		if !signed {
			continue
		}
		bz, err := proto.Marshal(&kcons.Message{Sum: &kcons.Message_Vote{Vote: &kcons.Vote{Vote: sv}}})
		if err != nil {
			continue
		}
		e.receive(VoteChannel, peer, bz, "byz-validator")
		e.o.Stat("byz-finale/vote")
	}
	if e.dead {
		return
	}
	e.direct = true
	e.smProbe(true)
	e.direct = false
	if !e.dead {
		e.gossip(peer, "byz-finale")
	}
	e.o.Stat("byz-finale/run")
}

func TestVerifC18Receive(t *testing.T) {
	o := vfOpen()
	defer o.Close()
	log.Root().SetHandler(log.DiscardHandler())
	n := vfN(200)
	seed := vfSeed()
	var e *vf18Env
	chans := []byte{StateChannel, DataChannel, VoteChannel, VoteSetBitsChannel}
	for i := 0; i < n; i++ {
		r := vfFork(seed, uint64(i))
		if e == nil || e.dead || i%24 == 0 {
			if e != nil {
				e.conR.Stop()
			}
			var err error
			if e, err = vf18NewEnv(o, r); err != nil {
				t.Fatalf("cannot build the node: %v", err)
			}
			if i == 0 && seed%1000 == 0 { // one shard only: the probe costs 512 MB
				e.f18Probe()
			}
			e.lastCommitProbe(r) // fresh node: height = initial height, step NewHeight, LastCommit nil
		} else if e.node.cs.Step == cstypes.RoundStepNewHeight && r.Chance(50) {
			e.lastCommitProbe(r) // after a commit: LastCommit is the previous height's precommits
		}
		if e.dead {
			continue
		}
		e.lastAdv = nil
		e.step(r)
		if i%24 < 6 || r.Chance(10) {
			e.polProbe(r)
		}
		peer := vf18NewPeer(fmt.Sprintf("p%d", i))
		withState := !r.Chance(15)
		if withState {
			e.conR.InitPeer(peer)
			if r.Chance(70) { // primed: the peer state follows our height/round, so that setters are reached
				cs := e.node.cs
				lcr := uint32(0)
				if cs.Height > cs.state.InitialHeight {
					lcr = 1
				}
				e.receive(StateChannel, peer, vf18Enc(&NewRoundStepMessage{Height: cs.Height, Round: cs.Round, Step: cstypes.RoundStepType(1 + r.Intn(8)), LastCommitRound: lcr}), "prime")
				o.Stat("peer/primed")
			} else {
				o.Stat("peer/fresh")
			}
		} else {
			o.Stat("peer/no-state") // Receive panics deliberately for a peer without state only AFTER validation
		}
		nontrivial := false
		valid := e.validMsgs(r)
		for k := 0; k < 30 && !e.dead; k++ {
			var ch byte
			var b []byte
			stream := ""
			switch s := r.Intn(13); {
			case s >= 10: // structurally valid traffic for future rounds / other heights
				ch, b, stream = e.futMsg(r)
				o.Stat("fut/" + stream)
				stream = "future"
			case s == 0: // random bytes
				ch = chans[r.Intn(4)]
				b = r.Bytes(r.Pick(0, 1, 2, 5, 20, 100, 300, r.Intn(2000)))
				stream = "random"
			case s <= 2: // a valid message
				v := valid[r.Intn(len(valid))]
				ch, b, stream = v.ch, vf18Enc(v.m), "valid"
				if k < 12 {
					e.roundtrip(v.m)
				}
			case s <= 5: // typed adversarial
				ch, b, stream = e.advMsg(r)
				stream = "adv"
			default: // wire mutation of a valid or adversarial message
				if r.Bool() {
					v := valid[r.Intn(len(valid))]
					ch, b = v.ch, vf18Enc(v.m)
				} else {
					ch, b, _ = e.advMsg(r)
				}
				tag := ""
				for m := 1 + r.Intn(3); m > 0; m-- {
					b, tag = vf18Mutate(r, b, 0)
					o.Stat("mutation/" + tag)
				}
				stream = "mutated"
			}
			if !withState {
				// without a peer state Receive panics by design once a message validates: only feed
				// messages that do not validate (the reactor never calls Receive before InitPeer)
				if _, okd := e.vf18Decode(b); okd {
					continue
				}
			}
			before := o.stats["accepted/"+stream+"/"+vf18Kind(b)]
			e.receive(ch, peer, b, stream)
			if stream != "valid" && o.stats["accepted/"+stream+"/"+vf18Kind(b)] > before {
				nontrivial = true
			}
			if k%10 == 9 && withState {
				e.gossip(peer, stream)
			}
			if k == 14 && withState && !e.dead {
				e.smProbe(false)
				valid = e.validMsgs(r)
			}
		}
		if withState && !e.dead && r.Chance(35) {
			e.byzFinale(r, peer)
		}
		if withState && !e.dead {
			e.direct = r.Chance(40)
			if e.direct {
				o.Stat("sm-probes/direct")
			}
			e.smProbe(e.direct || r.Chance(60))
			e.direct = false
		}
		if withState && !e.dead {
			e.gossip(peer, "end-of-case")
			// health probe: normal traffic still works after the adversarial batch
			cs := e.node.cs
			hp := vf18NewPeer(fmt.Sprintf("hp%d", i))
			e.conR.InitPeer(hp)
			for _, v := range e.validMsgs(r) {
				e.receive(v.ch, hp, vf18Enc(v.m), "health")
			}
			if hp.stops != 0 {
				o.Viol("health-probe-failed/consensus/valid-message-rejected", fmt.Sprintf("%d stops at height %d", hp.stops, cs.Height))
			}
			o.Stat("health-probes")
		}
		o.Case(fmt.Sprintf("%d/%d", seed, i), nontrivial)
	}
	if e != nil {
		e.conR.Stop()
	}
}
