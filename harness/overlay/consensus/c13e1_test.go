package consensus

// C13 (finding C13-E1): the block id a validator votes for carries the part-set header of the
// bytes it RECEIVED, while block sync and re-proposers re-encode the block. The protobuf decoder
// silently drops unknown fields, the unused Header.chain_id wire field and non-minimal varints, so
// one block would have several ids unless only the canonical encoding is accepted as a proposal.
// This probe offers a correct node a validly signed proposal whose block bytes are a non-canonical
// encoding of a valid block: the node must not take it as its proposal block.

import (
	"fmt"
	"testing"

	"github.com/gogo/protobuf/proto"
	"github.com/kardiachain/go-kardia/lib/log"
	"github.com/kardiachain/go-kardia/types"
)

func TestVerifC13Encoding(t *testing.T) {
	log.Root().SetHandler(log.DiscardHandler())
	o := vfOpen()
	defer o.Close()
	seed := vfSeed()
	cases := vfN(6)
	for c := 0; c < cases; c++ {
		r := vfFork(seed^0xe1e1, uint64(c))
		n := 4
		desc := fmt.Sprintf("seed=%d case=%d", seed, c)
		vfGuard(o, "panic-in-consensus", func() string { return desc }, func() {
			net, err := vfNewNet(r, vfKeys(r, n), []int64{15000000, 15000000, 15000000, 15000000}, map[int]bool{})
			if err != nil {
				t.Fatal(err)
			}
			// let a height or two pass normally in some cases, then look at the next proposal
			for k := r.Intn(2); k > 0; k-- {
				h := net.nodes[0].cs.Height
				for it := 0; it < 60 && net.nodes[0].cs.Height == h; it++ {
					net.deliverToFixpoint()
					for _, nd := range net.nodes {
						net.fireTimeout(nd, true)
					}
				}
			}
			// every node enters the round; the proposer publishes its block
			for _, nd := range net.nodes {
				net.fireTimeout(nd, true)
			}
			net.drain()
			var proposer *vfNode
			for _, nd := range net.nodes {
				if nd.cs.ProposalBlock != nil && nd.cs.isProposer() {
					proposer = nd
				}
			}
			if proposer == nil {
				o.Stat("e1.no-proposer-found")
				return
			}
			blk := proposer.cs.ProposalBlock
			h, round := proposer.cs.Height, proposer.cs.Round
			pb, err := blk.ToProto()
			if err != nil {
				t.Fatal(err)
			}
			canon, _ := proto.Marshal(pb)
			variant := r.Intn(3)
			var bz []byte
			name := ""
			switch variant {
			case 0:
				name = "block.unknown-field"
				bz = append(append([]byte{}, canon...), 0x78, 0x01)
			case 1:
				name = "block.non-minimal-varint"
				bz = append(append([]byte{}, canon...), 0x78, 0x81, 0x00)
			default:
				name = "header.chain_id"
				pb2, _ := blk.ToProto()
				pb2.Header.ChainID = "x"
				bz, _ = proto.Marshal(pb2)
			}
			ps := types.NewPartSetFromData(bz, types.BlockPartSizeBytes)
			// a victim that has not seen the genuine proposal
			var victim *vfNode
			for _, nd := range net.nodes {
				if nd != proposer && nd.cs.Height == h && nd.cs.Round == round && nd.cs.Proposal == nil {
					victim = nd
					break
				}
			}
			if victim == nil {
				o.Stat("e1.no-victim")
				return
			}
			for _, m := range net.byzProposalMsgs(proposer.idx, h, round, 0, blk, ps, victim.cs.state.ChainID) {
				victim.cs.handleMsg(m)
			}
			accepted := victim.cs.ProposalBlock != nil && victim.cs.ProposalBlockParts != nil && victim.cs.ProposalBlockParts.HasHeader(ps.Header())
			o.Stat(fmt.Sprintf("e1.%s.accepted=%v", name, accepted))
			if accepted {
				canonHeader := blk.MakePartSet(types.BlockPartSizeBytes).Header()
				o.Viol("noncanonical-proposal-block-accepted:"+name, fmt.Sprintf("%s height=%d round=%d: a correct node took a non-canonical encoding (%d bytes, canonical %d) of block %x as its proposal block; it will vote for part-set header %d:%x while every re-encoding node derives %d:%x (block sync can then never verify the commit)", desc, h, round, len(bz), len(canon), blk.Hash().Bytes()[:6], ps.Header().Total, ps.Header().Hash.Bytes()[:6], canonHeader.Total, canonHeader.Hash.Bytes()[:6]))
			}
			// control: the canonical encoding must still be accepted by another node
			for _, nd := range net.nodes {
				if nd != proposer && nd != victim && nd.cs.Height == h && nd.cs.Round == round && nd.cs.Proposal == nil {
					cps := types.NewPartSetFromData(canon, types.BlockPartSizeBytes)
					for _, m := range net.byzProposalMsgs(proposer.idx, h, round, 0, blk, cps, nd.cs.state.ChainID) {
						nd.cs.handleMsg(m)
					}
					if nd.cs.ProposalBlock == nil {
						o.Viol("canonical-proposal-block-refused", fmt.Sprintf("%s height=%d round=%d", desc, h, round))
					}
					o.Stat("e1.control-canonical-accepted")
					break
				}
			}
			o.Case(desc+name, true)
			if c < 2 {
				o.Sample(fmt.Sprintf("%s variant=%s accepted=%v", desc, name, accepted))
			}
		})
	}
}
