package consensus

// DIRECTED adversarial scenarios for C01 (agreement). The random and the round-structured
// schedulers (vfsim_test.go, vfattack_test.go) almost never build the multi-round situations on
// which the locking rules are decided (lock / re-lock / late polka / commit seen by one node).
// The scenarios below script them with the primitives of the simulator. Each one is a FAMILY: the
// case PRNG chooses the number of validators and their stakes, which validators play which role
// (roles are power groups: every member of a group is shown the same messages), which round
// numbers are used (noise rounds in between), and several variants.
//
// Only what a real adversary can do is used: messages are delayed / withheld / reordered (they
// stay in the delivery pool until the script or the final heal delivers them), and anything may be
// signed with the keys of the BYZANTINE validators (group Z, < 1/3 of the power). Correct nodes
// run the real code; they are never forced: no field of cs.* is written, and only timeouts that
// are pending in a node's ticker are fired (the latest one, as the real ticker does). Fields of
// cs.* are READ for the distribution counters (was the target situation reached?).
//
// Every scenario ends with heal(): everything is delivered, the reactor's catch-up gossip runs,
// timeouts fire only when nothing else moves; then TestVerifC01's standard end-of-case checks run
// (trace to the verified Lean checker, committed blocks compared across the correct nodes).
//
// vfDirS6 (stale lock after a double round skip) and vfDirS7 (commit forgotten after a round skip
// out of the commit step) are LIVENESS scenarios: they are not among the kinds TestVerifC01 draws
// (vfDirKinds) but are the directed prefixes of the C04 liveness search (c04_test.go, via
// vfDirPlay); VERIF_DIR=S6 / S7 runs them here (S6 with a heal of 45 rounds). VERIF_DEBUG=2
// additionally prints every state change during the heal.
//
// Replay of one case: the violation text names `seed=<shard seed> case=<c>`; run the harness
// binary with VERIF_SEED=<shard seed> VERIF_ONLY=<c> VERIF_DEBUG=1 (prints every round, the
// milestones and each node's height/round/step/lock/valid block). VERIF_DIR=S1..S5 forces that
// scenario for every case, VERIF_DIR=all makes every case directed, VERIF_DIR=none none.
// Counters (o.Stat): dir.kind.*, dir.role-mapping.* (group sizes), dir.<S>.critical-proposers.*
// (roles of the proposers of the critical rounds), dir.<S>.reached-* / missed-* (milestones: was
// the target situation built?), dir.<S>.A-* (what the victim did in the decisive round).

import (
	"fmt"
	"strings"

	cstypes "github.com/kardiachain/go-kardia/consensus/types"
	kproto "github.com/kardiachain/go-kardia/proto/kardiachain/types"
	"github.com/kardiachain/go-kardia/types"
)

// ---- configuration and role planning

// vfDirFeasible: can the validators be split into four non-empty groups, each with < 1/3 of the
// power? (Every scenario needs two different quorums that both contain the victim group A and
// the faulty group Z, hence four groups A, C, D, Z each below one third.)
func vfDirFeasible(pw []int64) bool {
	var tot int64
	for _, p := range pw {
		tot += p
	}
	n := len(pw)
	if n < 4 {
		return false
	}
	asg := make([]int, n)
	var rec func(i int) bool
	rec = func(i int) bool {
		if i == n {
			var s [4]int64
			var c [4]int
			for k, g := range asg {
				s[g] += pw[k]
				c[g]++
			}
			for g := 0; g < 4; g++ {
				if c[g] == 0 || 3*s[g] >= tot {
					return false
				}
			}
			return true
		}
		for g := 0; g < 4; g++ {
			asg[i] = g
			if rec(i + 1) {
				return true
			}
		}
		return false
	}
	return rec(0)
}

// vfDirConfig draws validator count and stakes (the generator of vfPickConfig) until a four-group
// split exists; falls back to four equal validators.
func vfDirConfig(r *vfRand) (int, []int64) {
	for try := 0; try < 30; try++ {
		n := r.Pick(4, 4, 5, 5, 6, 7, 7)
		stake := make([]int64, n)
		switch r.Intn(4) {
		case 0:
			for i := range stake {
				stake[i] = 15000000
			}
		case 1:
			for i := range stake {
				stake[i] = 15000000
			}
			stake[r.Intn(n)] = 15000000 + 3000000*int64(1+r.Intn(3))
		case 2:
			for i := range stake {
				stake[i] = 15000000 + 3000000*int64(r.Intn(4))
			}
		default:
			for i := range stake {
				stake[i] = 15000000 + int64(r.Intn(20))*1000000
			}
		}
		if vfDirFeasible(stake) {
			return n, stake
		}
	}
	return 4, []int64{15000000, 15000000, 15000000, 15000000}
}

// vfDirSpec: what a scenario needs from the proposer rotation. crit[k] lists the roles that may
// propose the k-th critical round, maxGap[k] the maximal number of noise rounds before it,
// differ lists pairs of critical rounds whose proposers must be different validators unless the
// later one is faulty (an honest proposer without a valid block would make the same block again).
type vfDirSpec struct {
	crit    []string
	maxGap  []int
	differ  [][2]int
	powerOK func(d *vfDir) bool // nil: every group below one third
	roles   string              // the groups used ("" = "ACDZ"); every one of them gets at least one validator
}

type vfDir struct {
	net       *vfNet
	o         *vfOut
	r         *vfRand
	kind      string
	tag       string // "seed=<shard seed> case=<c>" for violation texts
	h         uint64
	chainID   string
	role      map[int]byte // validator index -> 'A', 'C', 'D' (correct) or 'Z' (faulty)
	prop      []int        // prop[r] = validator index proposing round r at height h (prop[0] unused)
	rounds    []uint32     // the critical rounds chosen by the planner
	tot       int64
	junk      types.BlockID // a block id nobody will ever propose (noise votes of Z)
	dbg       bool
	dbg2      bool   // VERIF_DEBUG >= 2: every state change during the heal
	derail    string // first reason why the script left its intended path ("" = on track)
	preFailed bool   // the synchronous pre-height was not decided (never seen)
	cutoff    string // roles that are partitioned away: the stages deliver nothing to or from them
}

func (d *vfDir) logf(format string, a ...interface{}) {
	if d.dbg {
		fmt.Printf("DIR["+d.kind+"] "+format+"\n", a...)
	}
}

func (d *vfDir) is(idx int, roles string) bool { return strings.IndexByte(roles, d.role[idx]) >= 0 }

func (d *vfDir) roleString() string {
	var sb strings.Builder
	for i := range d.net.keys {
		sb.WriteByte(d.role[i])
	}
	return sb.String()
}

func (d *vfDir) group(roles string) []int {
	var out []int
	for i := range d.net.keys {
		if d.is(i, roles) {
			out = append(out, i)
		}
	}
	return out
}

func (d *vfDir) power(roles string) int64 {
	var s int64
	for _, i := range d.group(roles) {
		s += d.net.powers[i]
	}
	return s
}

// proposers computes who proposes rounds 1..n at the current height from a throwaway copy of
// the validator set of a node that has not yet started the height.
func (d *vfDir) proposers(n int) {
	vs := d.net.nodes[0].cs.Validators.Copy()
	d.prop = make([]int, n+1)
	for r := 1; r <= n; r++ {
		d.prop[r] = d.net.valIdx[vs.GetProposer().Address]
		vs.IncrementProposerPriority(1)
	}
}

// plan chooses the role of every validator and the critical rounds so that the proposers fit.
func (d *vfDir) plan(spec vfDirSpec) bool {
	n := len(d.net.keys)
	r := d.r
	for try := 0; try < 600; try++ {
		// roles: the first four of a random permutation get distinct roles, the others random ones
		perm := make([]int, n)
		for i := range perm {
			perm[i] = i
		}
		for i := n - 1; i > 0; i-- {
			j := r.Intn(i + 1)
			perm[i], perm[j] = perm[j], perm[i]
		}
		role := map[int]byte{}
		rs := spec.roles
		if rs == "" {
			rs = "ACDZ"
		}
		for k, i := range perm {
			if k < len(rs) {
				role[i] = rs[k]
			} else {
				role[i] = rs[r.Intn(len(rs))]
			}
		}
		d.role = role
		ok := true
		if spec.powerOK != nil {
			ok = spec.powerOK(d)
		} else {
			for _, g := range []string{"A", "C", "D", "Z"} {
				if 3*d.power(g) >= d.tot {
					ok = false
				}
			}
		}
		if !ok {
			continue
		}
		// rounds
		var rounds []uint32
		cur := 0
		for k := range spec.crit {
			var cand []int
			for g := 0; g <= spec.maxGap[k] && cur+1+g < len(d.prop); g++ {
				rd := cur + 1 + g
				p := d.prop[rd]
				if !d.is(p, spec.crit[k]) {
					continue
				}
				bad := false
				for _, pr := range spec.differ {
					if pr[1] == k && role[p] != 'Z' && d.prop[rounds[pr[0]]] == p {
						bad = true
					}
				}
				if !bad {
					cand = append(cand, rd)
				}
			}
			if len(cand) == 0 {
				ok = false
				break
			}
			pick := cand[0]
			if r.Chance(40) {
				pick = cand[r.Intn(len(cand))]
			}
			rounds = append(rounds, uint32(pick))
			cur = pick
		}
		if !ok {
			continue
		}
		d.rounds = rounds
		return true
	}
	return false
}

// turnByzantine: the validators of group Z stop being real nodes (they have signed nothing at
// the current height yet); from now on the adversary signs with their keys.
func (d *vfDir) turnByzantine() {
	net := d.net
	var keep []*vfNode
	for _, n := range net.nodes {
		if d.role[n.idx] == 'Z' {
			net.byz[n.idx] = true
			delete(net.nodeOf, n.idx)
			continue
		}
		keep = append(keep, n)
	}
	net.nodes = keep
	net.offered = nil
	// messages addressed by position are re-addressed: nothing is in flight at this point
	net.pool = nil
}

// ---- stage primitives

func (d *vfDir) active(n *vfNode) bool { return n.cs.Height == d.h }

// begin: time passes for every node that is still behind round rd (pending timeouts only).
func (d *vfDir) begin(rd uint32) {
	net := d.net
	for _, n := range net.nodes {
		for k := 0; k < 6 && d.active(n) && (n.cs.Round < rd || n.cs.Step == cstypes.RoundStepNewHeight); k++ {
			if !net.fireTimeout(n, true) {
				break
			}
			net.drain()
		}
	}
	net.drain()
	if d.dbg {
		d.logf("-- round %d (proposer %d/%c): %s", rd, d.prop[rd], d.role[d.prop[rd]], d.state())
	}
}

func (d *vfDir) state() string {
	var sb strings.Builder
	for _, n := range d.net.nodes {
		lk := "-"
		if n.cs.LockedBlock != nil {
			lk = fmt.Sprintf("%x@%d", n.cs.LockedBlock.Hash().Bytes()[:3], n.cs.LockedRound)
		}
		vb := "-"
		if n.cs.ValidBlock != nil {
			vb = fmt.Sprintf("%x@%d", n.cs.ValidBlock.Hash().Bytes()[:3], n.cs.ValidRound)
		}
		fmt.Fprintf(&sb, " [%c%d H%d R%d S%d L=%s V=%s]", d.role[n.idx], n.idx, n.cs.Height, n.cs.Round, n.cs.Step, lk, vb)
	}
	return sb.String()
}

// show delivers the pending messages of the given kinds ("proposal" includes the block parts)
// and round from validators of roles `from` to the nodes of roles `to`.
func (d *vfDir) show(kind string, rd uint32, to, from string) int {
	return d.showK(kind, rd, to, from, "*")
}

// showK: as show, for votes for the block `key` only ("" = nil, "*" = any).
func (d *vfDir) showK(kind string, rd uint32, to, from string, key string) int {
	net := d.net
	return net.deliverIf(func(p vfPending, c vfMsgClass) bool {
		if c.height != d.h || c.round != rd {
			return false
		}
		if vm, ok := p.mi.Msg.(*VoteMessage); ok && key != "*" && vfBlockKey(vm.Vote.BlockID) != key {
			return false
		}
		if kind == "proposal" {
			if c.kind != "proposal" && c.kind != "part" {
				return false
			}
		} else if c.kind != kind {
			return false
		}
		if d.cutoff != "" && (d.is(net.nodes[p.to].idx, d.cutoff) || d.is(p.from, d.cutoff)) {
			return false
		}
		return d.is(net.nodes[p.to].idx, to) && d.is(p.from, from)
	})
}

// tmo fires the pending timeout of every node of the roles that sits in round rd at `step`.
func (d *vfDir) tmo(rd uint32, roles string, step cstypes.RoundStepType) {
	for _, n := range d.net.nodes {
		if d.active(n) && d.is(n.idx, roles) && n.cs.Round == rd && n.cs.Step == step {
			d.net.fireTimeout(n, true)
			d.net.drain()
		}
	}
}

// proposal: the round's proposal (and block) reaches the nodes of roles `to`; everybody else who
// is still waiting for it (roles `tmoFor`) runs into the propose timeout.
func (d *vfDir) proposal(rd uint32, to, tmoFor string) {
	d.net.drain()
	d.show("proposal", rd, to, "ACDZ")
	d.net.observeProposals()
	d.tmo(rd, tmoFor, cstypes.RoundStepPropose)
}

type vfVis map[byte]string // role of the receiver -> roles whose votes it is shown

var vfVisAll = vfVis{'A': "ACDZ", 'C': "ACDZ", 'D': "ACDZ"}

func (d *vfDir) votes(kind string, rd uint32, vis vfVis) {
	for _, to := range []byte("ACD") {
		if vis[to] != "" {
			d.show(kind, rd, string(to), vis[to])
		}
	}
}

// prevotes: the round's prevotes are delivered according to vis, then whoever waits for more
// prevotes (+2/3 of anything, no polka) runs into the prevote timeout.
func (d *vfDir) prevotes(rd uint32, vis vfVis) {
	d.votes("prevote", rd, vis)
	d.tmo(rd, "ACD", cstypes.RoundStepPrevoteWait)
}

// precommits: delivery according to vis; a node that learnt a commit gets the block parts.
func (d *vfDir) precommits(rd uint32, vis vfVis) {
	d.votes("precommit", rd, vis)
	d.net.deliverIf(func(p vfPending, c vfMsgClass) bool {
		n := d.net.nodes[p.to]
		if d.cutoff != "" && d.is(n.idx, d.cutoff) {
			return false
		}
		return c.height == d.h && c.kind == "part" && d.active(n) && n.cs.Step == cstypes.RoundStepCommit
	})
}

// byzVote: every faulty validator signs one vote and sends it to every correct node (the copies
// stay in the pool until a stage shows them to their addressee - or the heal does).
func (d *vfDir) byzVote(typ kproto.SignedMsgType, rd uint32, id types.BlockID) {
	d.byzVoteFrom(d.group("Z"), typ, rd, id)
}

func (d *vfDir) byzVoteFrom(zs []int, typ kproto.SignedMsgType, rd uint32, id types.BlockID) {
	net := d.net
	for _, z := range zs {
		vi, ok := vfValIndex(net.nodes[0].cs, net.addrs[z])
		for _, n := range net.nodes {
			if d.active(n) {
				vi, ok = vfValIndex(n.cs, net.addrs[z])
				break
			}
		}
		if !ok {
			continue
		}
		v := net.signVote(z, d.h, rd, typ, id, d.chainID, vi)
		if v == nil {
			continue
		}
		net.record(v)
		m := msgInfo{&VoteMessage{v}, "byz"}
		net.remember(m)
		for p := range net.nodes {
			net.pool = append(net.pool, vfPending{p, m, z})
		}
		d.o.Stat("dir.byz-vote")
	}
}

// byzPropose: faulty validator z proposes blk in round rd with the given POL round, to everybody
// (delivery is decided by the proposal stage).
func (d *vfDir) byzPropose(z int, rd, polRound uint32, b *vfBlk) {
	net := d.net
	if b == nil {
		d.reached("block-known-to-the-adversary", false)
		return
	}
	for _, m := range net.byzProposalMsgs(z, d.h, rd, polRound, b.block, b.parts, d.chainID) {
		net.remember(m)
		for p := range net.nodes {
			net.pool = append(net.pool, vfPending{p, m, z})
		}
	}
	net.learnBlock(d.h, b.block, b.parts)
	d.o.Stat("dir.byz-proposal")
}

// byzProposeTo: as byzPropose, but the messages are addressed to the nodes of `roles` only
// (an equivocating proposer tells different blocks to different nodes).
func (d *vfDir) byzProposeTo(z int, rd, polRound uint32, b *vfBlk, roles string) {
	net := d.net
	for _, m := range net.byzProposalMsgs(z, d.h, rd, polRound, b.block, b.parts, d.chainID) {
		net.remember(m)
		for p, n := range net.nodes {
			if d.is(n.idx, roles) {
				net.pool = append(net.pool, vfPending{p, m, z})
			}
		}
	}
	net.learnBlock(d.h, b.block, b.parts)
	d.o.Stat("dir.byz-proposal")
}

// mkBlock: a valid block for the current height made by faulty validator z.
func (d *vfDir) mkBlock(z int, variant int) *vfBlk {
	for _, n := range d.net.nodes {
		if d.active(n) {
			if blk, ps := d.net.byzBlock(n, z, variant); blk != nil {
				return &vfBlk{blk, ps}
			}
		}
	}
	return nil
}

func vfBlkID(b *vfBlk) types.BlockID {
	return types.BlockID{Hash: b.block.Hash(), PartsHeader: b.parts.Header()}
}

// sent returns the block key validator idx voted for in (typ, rd) according to the recorded
// history ("" nil, "?" no vote).
func (d *vfDir) sent(idx int, typ kproto.SignedMsgType, rd uint32) string {
	out := "?"
	for _, e := range d.net.trace[d.h] {
		if e.sender == idx && e.typ == typ && e.round == rd {
			out = e.block
		}
	}
	return out
}

// allSent: every validator of the roles voted key in (typ, rd).
func (d *vfDir) allSent(roles string, typ kproto.SignedMsgType, rd uint32, key string) bool {
	g := d.group(roles)
	for _, i := range g {
		if d.sent(i, typ, rd) != key {
			return false
		}
	}
	return len(g) > 0
}

func (d *vfDir) known(key string) *vfBlk {
	d.net.observeProposals()
	return d.net.blocks[d.h][key]
}

func (d *vfDir) idOf(key string) types.BlockID {
	if b := d.known(key); b != nil {
		return vfBlkID(b)
	}
	return types.BlockID{}
}

// lockedOn: every node of the roles is (still at the height and) locked on key.
func (d *vfDir) lockedOn(roles string, key string) bool {
	for _, i := range d.group(roles) {
		n := d.net.nodeOf[i]
		if n == nil || !d.active(n) || n.cs.LockedBlock == nil {
			return false
		}
		if vfBlockKey(types.BlockID{Hash: n.cs.LockedBlock.Hash(), PartsHeader: n.cs.LockedBlockParts.Header()}) != key {
			return false
		}
	}
	return true
}

// seenPolkaAgainst: the first round in (lo, hi] for which some node of the roles holds +2/3
// prevotes for nil or a block other than key (0 = none). Read-only.
func (d *vfDir) seenPolkaAgainst(roles string, key string, lo, hi uint32) uint32 {
	for _, i := range d.group(roles) {
		n := d.net.nodeOf[i]
		if n == nil || !d.active(n) {
			continue
		}
		for q := lo + 1; q <= hi; q++ {
			if pv := n.cs.Votes.Prevotes(q); pv != nil {
				if id, ok := pv.TwoThirdsMajority(); ok && vfBlockKey(id) != key {
					return q
				}
			}
		}
	}
	return 0
}

func (d *vfDir) committedAll(roles string) bool {
	for _, i := range d.group(roles) {
		if n := d.net.nodeOf[i]; n == nil || n.bo.Height() < d.h {
			return false
		}
	}
	return true
}

func (d *vfDir) committedAny(roles string) bool {
	for _, i := range d.group(roles) {
		if n := d.net.nodeOf[i]; n != nil && n.bo.Height() >= d.h {
			return true
		}
	}
	return false
}

// reached counts a milestone of the scenario; a missed milestone derails the script (the
// remaining stages still run - nothing is forced - but the counters show it).
func (d *vfDir) reached(name string, ok bool) bool {
	if ok {
		d.o.Stat("dir." + d.kind + ".reached-" + name)
	} else {
		d.o.Stat("dir." + d.kind + ".missed-" + name)
		if d.derail == "" {
			d.derail = name
		}
	}
	d.logf("milestone %s: %v   %s", name, ok, d.state())
	return ok
}

// noise plays one inconclusive round: the proposal reaches nobody (its author prevotes it),
// the faulty validators prevote a block id nobody knows, every node is shown prevotes only as
// long as no polka (for a block or nil) completes at it, all precommit nil.
func (d *vfDir) noise(rd uint32) {
	net := d.net
	d.begin(rd)
	d.tmo(rd, "ACD", cstypes.RoundStepPropose)
	d.byzVote(kproto.PrevoteType, rd, d.junk)
	net.drain()
	for pos, n := range net.nodes {
		if !d.active(n) || n.cs.Round != rd {
			continue
		}
		sum := map[string]int64{}
		if own := d.sent(n.idx, kproto.PrevoteType, rd); own != "?" {
			sum[own] += net.powers[n.idx]
		}
		// faulty votes first, then the others in pool order
		for pass := 0; pass < 2; pass++ {
			net.deliverIf(func(p vfPending, c vfMsgClass) bool {
				if p.to != pos || c.height != d.h || c.round != rd || c.kind != "prevote" {
					return false
				}
				if d.cutoff != "" && (d.is(n.idx, d.cutoff) || d.is(p.from, d.cutoff)) {
					return false
				}
				if (pass == 0) != (d.role[p.from] == 'Z') {
					return false
				}
				k := vfBlockKey(p.mi.Msg.(*VoteMessage).Vote.BlockID)
				if 3*(sum[k]+net.powers[p.from]) > 2*d.tot {
					return false
				}
				sum[k] += net.powers[p.from]
				return true
			})
		}
	}
	d.tmo(rd, "ACD", cstypes.RoundStepPrevoteWait)
	d.byzVote(kproto.PrecommitType, rd, types.BlockID{})
	d.precommits(rd, vfVisAll)
	d.o.Stat("dir.noise-round")
}

// noiseUntil plays noise rounds from round `from` up to (excluding) round `to`.
func (d *vfDir) noiseUntil(from, to uint32) {
	for rd := from; rd < to; rd++ {
		d.noise(rd)
	}
}

// ---- the heal

func (d *vfDir) sig() string {
	var sb strings.Builder
	for _, n := range d.net.nodes {
		fmt.Fprintf(&sb, "%d/%d/%d/%d;", n.cs.Height, n.cs.Round, n.cs.Step, len(n.cs.internalMsgQueue))
	}
	return sb.String()
}

// fixpoint: everything in flight is delivered (oldest first) and the reactor's catch-up gossip
// runs for every node until nothing moves.
func (d *vfDir) fixpoint() {
	net := d.net
	for iter := 0; iter < 200; iter++ {
		moved := net.drain()
		for len(net.pool) > 0 {
			pm := net.pool[0]
			net.pool = net.pool[1:]
			before := ""
			if d.dbg2 {
				before = d.sig()
			}
			net.nodes[pm.to].cs.handleMsg(pm.mi)
			moved = true
			net.drain()
			if d.dbg2 && before != d.sig() {
				c := vfClassify(pm.mi.Msg)
				d.logf("  heal: %s h=%d r=%d from %d to node %d -> %s", c.kind, c.height, c.round, pm.from, net.nodes[pm.to].idx, d.state())
			}
		}
		s := d.sig()
		for pos := range net.nodes {
			before := ""
			if d.dbg2 {
				before = d.sig()
			}
			net.regossip(pos, true)
			net.drain()
			if d.dbg2 && before != d.sig() {
				d.logf("  heal: catch-up gossip for node %d -> %s", net.nodes[pos].idx, d.state())
			}
		}
		if !moved && len(net.pool) == 0 && s == d.sig() {
			return
		}
	}
}

// heal: the network becomes synchronous and the faulty validators fall silent; timeouts fire
// only when no message is left. Returns whether every correct node stored height `goal` within
// the bound.
func (d *vfDir) heal(goal uint64, maxIter int) bool {
	net := d.net
	net.parts = nil
	for it := 0; it < maxIter; it++ {
		d.fixpoint()
		done := true
		for _, n := range net.nodes {
			if n.bo.Height() < goal {
				done = false
			}
		}
		if done {
			d.o.Stat(fmt.Sprintf("dir.heal.iterations<=%d", (it/10+1)*10))
			return true
		}
		for _, n := range net.nodes {
			if n.bo.Height() < goal {
				net.fireTimeout(n, true)
				net.drain()
			}
		}
	}
	return false
}

// healRounds: as heal, but bounded by ROUNDS: runs until every correct node stored height goal
// or the slowest correct node still at that height has gone through `rounds` further rounds.
// Returns whether all decided and how many rounds the most advanced undecided node went through.
func (d *vfDir) healRounds(goal uint64, rounds int) (bool, int) {
	net := d.net
	net.parts = nil
	start := map[int]uint32{}
	for _, n := range net.nodes {
		start[n.idx] = n.cs.Round
	}
	ran := 0
	for it := 0; it < 8*rounds+40; it++ {
		d.fixpoint()
		done := true
		minRan := 1 << 30
		for _, n := range net.nodes {
			if n.bo.Height() < goal {
				done = false
				k := int(n.cs.Round) - int(start[n.idx])
				if k > ran {
					ran = k
				}
				if k < minRan {
					minRan = k
				}
			}
		}
		if done {
			return true, ran
		}
		if minRan >= rounds {
			return false, ran
		}
		for _, n := range net.nodes {
			if n.bo.Height() < goal {
				net.fireTimeout(n, true)
				net.drain()
			}
		}
	}
	return false, ran
}

// ---- building blocks shared by the scenarios

var (
	vfPv = kproto.PrevoteType
	vfPc = kproto.PrecommitType
)

func (d *vfDir) first(role string) int { return d.group(role)[0] }

func vfRealKey(k string) bool { return k != "" && k != "?" }

// lockAtAOnly plays round rd so that a block B gets a polka that ONLY group A sees: the
// proposal reaches A and C (D prevotes nil), Z prevotes B but shows it to A only. A locks B
// and precommits it, C and D precommit nil, the round fails. With alt != nil the (faulty)
// proposer equivocates: D is told the block alt instead and prevotes it, and Z tells D a prevote
// for alt as well. Returns B's key ("" if the round went another way).
func (d *vfDir) lockAtAOnly(rd uint32, variantB int, equivocate bool) (keyB string, alt *vfBlk) {
	d.begin(rd)
	z := d.prop[rd]
	toProp := "AC"
	// variant "nil-vote": everybody receives the proposal and prevotes B, Z prevotes nil in public;
	// A is shown the prevotes of all correct validators (a polka), C and D those of C, D and Z
	// only (+2/3 of anything, no polka) - possible when C and D together hold <= 2/3
	nilVote := !equivocate && 3*d.power("CD") <= 2*d.tot && d.r.Bool()
	if nilVote {
		toProp = "ACD"
		d.o.Stat("dir." + d.kind + ".r1-hidden-by-public-nil-vote")
	}
	if d.role[z] == 'Z' {
		b := d.mkBlock(z, variantB)
		if b == nil {
			d.reached("byz-block", false)
			return "", nil
		}
		if equivocate {
			if alt = d.mkBlock(z, variantB+1); alt == nil {
				d.reached("byz-block", false)
				return "", nil
			}
			d.byzProposeTo(z, rd, 0, b, "AC")
			d.byzProposeTo(z, rd, 0, alt, "D")
			toProp = "ACD"
			d.o.Stat("dir." + d.kind + ".equivocating-proposal")
		} else {
			d.byzPropose(z, rd, 0, b)
		}
	}
	d.proposal(rd, toProp, "ACD")
	keyB = d.sent(d.first("A"), vfPv, rd)
	wantD := ""
	if alt != nil {
		wantD = vfBlockKey(vfBlkID(alt))
	}
	if nilVote {
		wantD = keyB
	}
	if !d.reached("r1-prevotes", vfRealKey(keyB) && d.allSent("AC", vfPv, rd, keyB) && d.allSent("D", vfPv, rd, wantD)) {
		return "", alt
	}
	if nilVote {
		d.byzVote(vfPv, rd, types.BlockID{})
		d.prevotes(rd, vfVis{'A': "ACD", 'C': "CDZ", 'D': "CDZ"})
		if !d.reached("lock-at-A-only", d.lockedOn("A", keyB) && d.allSent("A", vfPc, rd, keyB) && d.allSent("CD", vfPc, rd, "")) {
			return "", alt
		}
		d.byzVote(vfPc, rd, types.BlockID{})
		d.precommits(rd, vfVisAll)
		return keyB, alt
	}
	d.byzVote(vfPv, rd, d.idOf(keyB))
	if alt != nil {
		d.byzVote(vfPv, rd, vfBlkID(alt)) // equivocating prevote, meant for D
		d.showK("prevote", rd, "D", "Z", wantD)
	}
	d.showK("prevote", rd, "A", "Z", keyB)
	d.prevotes(rd, vfVis{'A': "ACD", 'C': "ACD", 'D': "ACD"})
	if !d.reached("lock-at-A-only", d.lockedOn("A", keyB) && d.allSent("A", vfPc, rd, keyB) && d.allSent("CD", vfPc, rd, "")) {
		return "", alt
	}
	d.byzVote(vfPc, rd, types.BlockID{})
	d.precommits(rd, vfVisAll)
	return keyB, alt
}

// hiddenPolka plays round rd so that ANOTHER block B' (or nil) gets a polka without A: the
// round's proposal reaches everybody (A is locked and prevotes B), C and D prevote B', Z
// prevotes B' and shows it to D only (D locks B' and holds it as valid block); A and C see
// +2/3 of anything but no polka and precommit nil. With nilPolka nobody receives the proposal:
// C, D and Z prevote nil, Z's prevote is withheld from everybody. With zVotes=false Z stays
// silent: there is NO polka in this round. reuse != nil: the faulty proposer proposes that block.
func (d *vfDir) hiddenPolka(rd uint32, keyB string, nilPolka, zVotes bool, reuse *vfBlk) (keyB2 string, ok bool) {
	d.begin(rd)
	z := d.prop[rd]
	if nilPolka {
		d.proposal(rd, "", "ACD")
		// the proposer itself prevotes its own proposal: then this is no nil round for its group
		if !d.reached("r2-nil-prevotes", d.allSent("A", vfPv, rd, keyB) && d.allSent("CD", vfPv, rd, "")) {
			return "", false
		}
		if zVotes {
			d.byzVote(vfPv, rd, types.BlockID{})
		}
		d.prevotes(rd, vfVis{'A': "ACD", 'C': "ACD", 'D': "ACD"})
		if !d.reached("hidden-nil-polka", d.lockedOn("A", keyB) && d.allSent("ACD", vfPc, rd, "")) {
			return "", false
		}
		d.byzVote(vfPc, rd, types.BlockID{})
		d.precommits(rd, vfVisAll)
		return "", true
	}
	if d.role[z] == 'Z' {
		b := reuse
		if b == nil {
			b = d.mkBlock(z, 4)
		}
		if b == nil {
			d.reached("byz-block", false)
			return "", false
		}
		d.byzPropose(z, rd, 0, b)
	}
	d.proposal(rd, "ACD", "ACD")
	keyB2 = d.sent(d.first("C"), vfPv, rd)
	if !d.reached("r2-prevotes", vfRealKey(keyB2) && keyB2 != keyB && d.allSent("CD", vfPv, rd, keyB2) && d.allSent("A", vfPv, rd, keyB)) {
		return "", false
	}
	if zVotes {
		d.byzVote(vfPv, rd, d.idOf(keyB2))
		d.showK("prevote", rd, "D", "Z", keyB2)
	}
	d.prevotes(rd, vfVis{'A': "ACD", 'C': "ACD", 'D': "ACD"})
	if zVotes {
		if !d.reached("hidden-polka-at-D", d.lockedOn("D", keyB2) && d.allSent("D", vfPc, rd, keyB2) && d.allSent("AC", vfPc, rd, "") && d.lockedOn("A", keyB)) {
			return "", false
		}
	} else if !d.reached("no-polka-round", d.allSent("ACD", vfPc, rd, "") && d.lockedOn("A", keyB)) {
		return "", false
	}
	d.byzVote(vfPc, rd, types.BlockID{})
	d.precommits(rd, vfVisAll)
	return keyB2, true
}

// commitAtCOnly plays the vote part of round rd in which block keyB has (or gets) a polka at A
// and C: both precommit it, Z shows its precommit for it to C only, so C commits while A
// (and D, which precommitted nil because it saw no polka) see no decision.
func (d *vfDir) commitAtCOnly(rd uint32, keyB string) bool {
	d.byzVote(vfPv, rd, d.idOf(keyB))
	d.showK("prevote", rd, "AC", "Z", keyB)
	d.prevotes(rd, vfVis{'A': "ACD", 'C': "ACD", 'D': "ACD"})
	if !d.reached("polka-at-A-and-C", d.allSent("AC", vfPc, rd, keyB) && d.lockedOn("A", keyB) && d.allSent("D", vfPc, rd, "")) {
		return false
	}
	d.byzVote(vfPc, rd, d.idOf(keyB))
	d.precommits(rd, vfVis{'A': "ACD", 'C': "ACDZ", 'D': "ACD"})
	return d.reached("commit-at-C-only", d.committedAll("C") && !d.committedAny("AD"))
}

// lure plays round rd after C has committed: the block keyL (already proposed in this round by
// its honest author, or by the faulty proposer) is pushed by D and Z with all their votes; only
// A's lock stands between it and a second decision. Returns what A prevoted.
func (d *vfDir) lure(rd uint32, keyL string) string {
	id := d.junk
	if vfRealKey(keyL) {
		id = d.idOf(keyL)
	}
	d.byzVote(vfPv, rd, id)
	d.prevotes(rd, vfVis{'A': "ADZ", 'D': "ADZ"})
	d.byzVote(vfPc, rd, id)
	d.precommits(rd, vfVis{'A': "ADZ", 'D': "ADZ"})
	return d.sent(d.first("A"), vfPv, rd)
}

// verdictA counts how the victim group behaved in the decisive round.
func (d *vfDir) verdictA(rd uint32, keyB string) {
	v := d.sent(d.first("A"), vfPv, rd)
	switch {
	case v == keyB:
		d.o.Stat("dir." + d.kind + ".A-prevoted-its-lock")
	case v == "?":
		d.o.Stat("dir." + d.kind + ".A-did-not-prevote")
	default:
		d.o.Stat("dir." + d.kind + ".A-prevoted-AGAINST-its-lock")
	}
	if d.committedAny("A") {
		for _, i := range d.group("A") {
			if k := vfCommitted(d.net.nodeOf[i], d.h); k != "" && k != keyB {
				d.o.Stat("dir." + d.kind + ".A-committed-ANOTHER-block")
				return
			}
		}
	}
}

// ---- the scenarios

// vfDirS1 - re-lock, then a late polka of an INTERMEDIATE round.
// r1: B gets a polka that only A sees (A locks B@r1). r2: another block B' gets a polka of C, D, Z
// that only D sees (Z withholds its r2 prevote from A and C). r3: B is proposed again with POL
// round r1 (by A, whose valid block it is, or by Z); A, C, Z prevote it: A RE-LOCKS (its lock
// round must become r3) and precommits, C locks and precommits, Z shows its precommit to C only:
// C commits B. r4: Z's withheld r2 prevote reaches A (the r2 polka for B' completes at A, late),
// B' is proposed with POL round r2 (by D, whose valid block it is, or by Z) and D and Z vote for
// it. A correct A stays locked on B (lock round r3 > r2); an A whose lock round stayed at r1
// unlocks, prevotes B' and commits it with D and Z - against C.
// With equivocate (scenario S5) the proposer of r1 and r2 is faulty: in r1 it tells B to A and C
// and B' to D, and Z's prevotes equivocate likewise; in r2 it proposes B' again.
func vfDirS1(d *vfDir, equivocate bool) {
	r1, r2, r3, r4 := d.rounds[0], d.rounds[1], d.rounds[2], d.rounds[3]
	d.noiseUntil(1, r1)
	keyB, alt := d.lockAtAOnly(r1, 0, equivocate)
	if keyB == "" {
		return
	}
	d.noiseUntil(r1+1, r2)
	keyB2, ok := d.hiddenPolka(r2, keyB, false, true, alt)
	if !ok {
		return
	}
	d.noiseUntil(r2+1, r3)
	// r3: the re-proposal of B
	d.begin(r3)
	d.showK("prevote", r1, "C", "Z", keyB) // C learns the r1 polka the proposal refers to
	if z := d.prop[r3]; d.role[z] == 'Z' {
		d.byzPropose(z, r3, r1, d.known(keyB))
	}
	d.proposal(r3, "ACD", "ACD")
	if !d.reached("reproposal-prevotes", d.allSent("AC", vfPv, r3, keyB) && d.allSent("D", vfPv, r3, keyB2)) {
		return
	}
	if !d.commitAtCOnly(r3, keyB) {
		return
	}
	adv := true
	for _, i := range d.group("A") {
		if d.net.nodeOf[i].cs.LockedRound != r3 {
			adv = false
		}
	}
	if adv {
		d.o.Stat("dir." + d.kind + ".A-lock-round-advanced-on-relock")
	} else {
		d.o.Stat("dir." + d.kind + ".A-lock-round-NOT-advanced-on-relock")
	}
	d.noiseUntil(r3+1, r4)
	// r4: the late polka of r2 and the re-proposal of B'
	d.begin(r4)
	if !d.reached("A-in-last-round-still-locked", d.lockedOn("A", keyB) && d.lockedOn("D", keyB2)) {
		return
	}
	// the late prevote arrives before the proposal, or while A already holds the proposal and waits
	// for exactly this POL (addVote then enters prevote at once)
	proposalFirst := d.r.Bool()
	if z := d.prop[r4]; d.role[z] == 'Z' {
		d.byzPropose(z, r4, r2, d.known(keyB2))
	}
	if proposalFirst {
		d.net.drain()
		d.show("proposal", r4, "AD", "ACDZ")
		d.o.Stat("dir." + d.kind + ".late-polka-after-proposal")
	}
	got := d.showK("prevote", r2, "A", "Z", keyB2)
	d.reached("late-polka", got > 0)
	if d.lockedOn("A", keyB) {
		d.o.Stat("dir." + d.kind + ".A-kept-lock-after-late-polka")
	} else {
		d.o.Stat("dir." + d.kind + ".A-UNLOCKED-by-late-polka")
	}
	d.proposal(r4, "AD", "AD")
	d.lure(r4, keyB2)
	d.verdictA(r4, keyB)
}

// vfDirS2 - the unlock guard of addVote (unlock iff LockedRound < polka round <= Round).
// variant 0 (below, nil): in round rl nobody but D receives the proposal; A, C and Z prevote nil
// (a nil polka) but Z's prevote is withheld. In round rk > rl block B gets a polka at A and C, both
// lock and precommit, C commits with Z's precommit (shown to C only). In round rn > rk the
// withheld nil prevote of rl reaches A: a polka BELOW A's lock round completes late and must not
// unlock A; D and Z push a new block.
// variant 1 (below, block): the same with a polka for another block B' in r0 (A and D prevoted
// it before A locked B), later re-proposed by Z with POL round r0.
// variant 2 / 3 (above, block / nil): A locks B@r1 alone; in r2 > r1 a polka for B' (or nil) forms
// without A and is completed at A only in r3: r1 < r2 <= r3, A must unlock (counter), and the
// healed network must still decide.
func vfDirS2(d *vfDir, variant int) {
	null := types.BlockID{}
	d.o.Stat(fmt.Sprintf("dir.S2.variant-%d", variant))
	if variant >= 2 {
		r1, r2, r3 := d.rounds[0], d.rounds[1], d.rounds[2]
		d.noiseUntil(1, r1)
		keyB, _ := d.lockAtAOnly(r1, 0, false)
		if keyB == "" {
			return
		}
		d.noiseUntil(r1+1, r2)
		keyB2, ok := d.hiddenPolka(r2, keyB, variant == 3, true, nil)
		if !ok {
			return
		}
		d.noiseUntil(r2+1, r3)
		d.begin(r3)
		if !d.reached("A-still-locked-before-late-polka", d.lockedOn("A", keyB)) {
			return
		}
		got := d.showK("prevote", r2, "AC", "Z", keyB2)
		d.reached("late-higher-polka", got > 0)
		un := true
		for _, i := range d.group("A") {
			if d.net.nodeOf[i].cs.LockedBlock != nil {
				un = false
			}
		}
		if un {
			d.o.Stat("dir.S2.A-unlocked-by-higher-polka")
		} else {
			d.o.Stat("dir.S2.A-NOT-unlocked-by-higher-polka")
		}
		return
	}
	rl, rk, rn := d.rounds[0], d.rounds[1], d.rounds[2]
	d.noiseUntil(1, rl)
	// rl: the polka below the future lock round
	d.begin(rl)
	lowKey := ""
	if variant == 0 {
		if z := d.prop[rl]; d.role[z] == 'Z' {
			x := d.mkBlock(z, 0)
			if x == nil {
				d.reached("byz-block", false)
				return
			}
			d.byzProposeTo(z, rl, 0, x, "D")
		}
		d.proposal(rl, "D", "ACD")
		if !d.reached("low-round-prevotes", d.allSent("AC", vfPv, rl, "") && vfRealKey(d.sent(d.first("D"), vfPv, rl))) {
			return
		}
		d.byzVote(vfPv, rl, null) // withheld from everybody
	} else {
		if z := d.prop[rl]; d.role[z] == 'Z' {
			x := d.mkBlock(z, 0)
			if x == nil {
				d.reached("byz-block", false)
				return
			}
			d.byzProposeTo(z, rl, 0, x, "AD")
		}
		d.proposal(rl, "AD", "ACD")
		lowKey = d.sent(d.first("A"), vfPv, rl)
		if !d.reached("low-round-prevotes", vfRealKey(lowKey) && d.allSent("AD", vfPv, rl, lowKey) && d.allSent("C", vfPv, rl, "")) {
			return
		}
		d.byzVote(vfPv, rl, d.idOf(lowKey)) // withheld from everybody
	}
	d.prevotes(rl, vfVis{'A': "ACD", 'C': "ACD", 'D': "ACD"})
	if !d.reached("low-round-no-polka-seen", d.allSent("ACD", vfPc, rl, "")) {
		return
	}
	d.byzVote(vfPc, rl, null)
	d.precommits(rl, vfVisAll)
	d.noiseUntil(rl+1, rk)
	// rk: A and C lock B, C commits
	d.begin(rk)
	if z := d.prop[rk]; d.role[z] == 'Z' {
		b := d.mkBlock(z, 2)
		if b == nil {
			d.reached("byz-block", false)
			return
		}
		d.byzPropose(z, rk, 0, b)
	}
	d.proposal(rk, "AC", "ACD")
	keyB := d.sent(d.first("A"), vfPv, rk)
	if !d.reached("lock-round-prevotes", vfRealKey(keyB) && keyB != lowKey && d.allSent("AC", vfPv, rk, keyB) && d.allSent("D", vfPv, rk, "")) {
		return
	}
	if !d.commitAtCOnly(rk, keyB) {
		return
	}
	d.noiseUntil(rk+1, rn)
	// rn: the old polka completes at A
	d.begin(rn)
	if !d.reached("A-in-last-round-still-locked", d.lockedOn("A", keyB)) {
		return
	}
	got := d.showK("prevote", rl, "AD", "Z", lowKey)
	d.reached("late-lower-polka", got > 0)
	if d.lockedOn("A", keyB) {
		d.o.Stat("dir.S2.A-kept-lock-after-lower-polka")
	} else {
		d.o.Stat("dir.S2.A-UNLOCKED-by-lower-polka")
	}
	if z := d.prop[rn]; d.role[z] == 'Z' {
		if variant == 1 {
			d.byzPropose(z, rn, rl, d.known(lowKey))
		} else if b := d.mkBlock(z, 5); b != nil {
			d.byzPropose(z, rn, 0, b)
		}
	}
	d.proposal(rn, "AD", "AD")
	d.lure(rn, d.sent(d.first("D"), vfPv, rn))
	d.verdictA(rn, keyB)
}

// vfDirS3 - proposals that carry a POL round, offered to a locked node.
// A locks B@r1 alone; in r2 block B' gets a polka (C, D, Z) that A does not see. In r3 B' is
// proposed with POL round r2 (>= A's lock round, by D whose valid block it is, or by Z) and
// reaches A first:
// variant 0: A never sees the r2 polka: it must wait for it, and after the propose timeout
//
//	prevote its lock (oracle: a prevote against the lock without having RECEIVED a polka);
//
// variant 1: the missing r2 prevote arrives while A waits: A unlocks (r1 < r2 <= r3) and may
//
//	prevote B' (counter), the network decides B';
//
// variant 2: the faulty proposer LIES: there is no polka in r2 at all (Z did not vote) and it
//
//	proposes a new block with POL round r2: A must prevote its lock (otherwise the recorded
//	history violates the lock rule and the Lean checker rejects it).
func vfDirS3(d *vfDir, variant int) {
	r1, r2, r3 := d.rounds[0], d.rounds[1], d.rounds[2]
	z3 := d.prop[r3]
	if variant == 2 && d.role[z3] != 'Z' {
		variant = d.r.Intn(2)
	}
	d.o.Stat(fmt.Sprintf("dir.S3.variant-%d", variant))
	d.noiseUntil(1, r1)
	keyB, _ := d.lockAtAOnly(r1, 0, false)
	if keyB == "" {
		return
	}
	d.noiseUntil(r1+1, r2)
	keyB2, ok := d.hiddenPolka(r2, keyB, false, variant != 2, nil)
	if !ok {
		return
	}
	d.noiseUntil(r2+1, r3)
	d.begin(r3)
	keyP := keyB2
	if d.role[z3] == 'Z' {
		if variant == 2 {
			b := d.mkBlock(z3, 6)
			if b == nil {
				d.reached("byz-block", false)
				return
			}
			keyP = vfBlockKey(vfBlkID(b))
			d.byzPropose(z3, r3, r2, b)
		} else {
			d.byzPropose(z3, r3, r2, d.known(keyB2))
		}
	}
	d.net.drain()
	d.show("proposal", r3, "A", "ACDZ")
	waits := true
	for _, i := range d.group("A") {
		n := d.net.nodeOf[i]
		if n.cs.Round != r3 || n.cs.Step != cstypes.RoundStepPropose || n.cs.Proposal == nil || n.cs.Proposal.POLRound != r2 {
			waits = false
		}
	}
	if !d.reached("A-waits-for-the-POL", waits && d.lockedOn("A", keyB)) {
		return
	}
	if variant == 1 {
		got := d.showK("prevote", r2, "A", "Z", keyB2)
		d.reached("late-POL-prevote", got > 0)
		if d.allSent("A", vfPv, r3, keyB2) {
			d.o.Stat("dir.S3.A-unlocked-and-prevoted-the-POL-proposal")
		} else {
			d.o.Stat("dir.S3.A-did-NOT-prevote-the-POL-proposal")
		}
	} else {
		d.tmo(r3, "A", cstypes.RoundStepPropose)
		if d.allSent("A", vfPv, r3, keyB) {
			d.o.Stat("dir.S3.A-prevoted-its-lock-without-POL")
		} else if q := d.seenPolkaAgainst("A", keyB, r1, r3); q > 0 {
			// (cannot happen on this script's path: A was shown no polka; kept as a guard of the oracle)
			d.o.Stat("dir.S3.A-had-received-another-polka")
		} else {
			d.o.Stat("dir.S3.A-prevoted-AGAINST-its-lock-without-POL")
			d.o.Viol("directed-prevote-against-lock-without-received-polka", fmt.Sprintf("%s directed=S3 variant=%d roles=%s rounds=%v: validator group A precommitted its block in round %d, received no polka of a later round, and prevoted %.16q in round %d", d.tag, variant, d.roleString(), d.rounds, r1, d.sent(d.first("A"), vfPv, r3), r3))
		}
	}
	// the rest of the round: everybody else gets the proposal, D and Z vote for it
	d.proposal(r3, "CD", "CD")
	d.byzVote(vfPv, r3, d.idOf(keyP))
	d.prevotes(r3, vfVisAll)
	d.byzVote(vfPc, r3, d.idOf(keyP))
	d.precommits(r3, vfVisAll)
}

// vfDirS4 - commit-round confusion. Block B gets a polka in round r at A and C (variant: at D
// too); C sees +2/3 precommits (Z's precommit is shown to C only; when D is locked too Z
// equivocates: B to C, nil to A and D) and commits, the others see no decision and move on for
// several rounds, in which D and Z vote for whatever else is proposed: fresh blocks of honest
// proposers, fresh blocks of the faulty proposer with POL round 0, with a POL round in which no
// polka exists, or with a POL round >= the proposal's own round. Nothing but B may ever be
// decided: A's lock (and valid block) must keep B.
func vfDirS4(d *vfDir) {
	r := d.r
	r0 := d.rounds[0]
	dLocks := r.Chance(35) || d.role[d.prop[r0]] == 'D' // a proposer in D prevotes its own block anyway
	d.noiseUntil(1, r0)
	d.begin(r0)
	if z := d.prop[r0]; d.role[z] == 'Z' {
		b := d.mkBlock(z, 0)
		if b == nil {
			d.reached("byz-block", false)
			return
		}
		d.byzPropose(z, r0, 0, b)
	}
	keyB := ""
	if dLocks {
		d.o.Stat("dir.S4.D-locked-too")
		d.proposal(r0, "ACD", "ACD")
		keyB = d.sent(d.first("A"), vfPv, r0)
		if !d.reached("commit-round-prevotes", vfRealKey(keyB) && d.allSent("ACD", vfPv, r0, keyB)) {
			return
		}
		d.byzVote(vfPv, r0, d.idOf(keyB))
		d.prevotes(r0, vfVisAll)
		if !d.reached("polka-at-all", d.allSent("ACD", vfPc, r0, keyB)) {
			return
		}
		d.byzVote(vfPc, r0, d.idOf(keyB))
		d.byzVote(vfPc, r0, types.BlockID{})
		d.showK("precommit", r0, "AD", "Z", "")
		d.showK("precommit", r0, "C", "Z", keyB)
		d.precommits(r0, vfVis{'A': "AD", 'C': "ACD", 'D': "AD"})
		if !d.reached("commit-at-C-only", d.committedAll("C") && !d.committedAny("AD")) {
			return
		}
	} else {
		d.proposal(r0, "AC", "ACD")
		keyB = d.sent(d.first("A"), vfPv, r0)
		if !d.reached("commit-round-prevotes", vfRealKey(keyB) && d.allSent("AC", vfPv, r0, keyB) && d.allSent("D", vfPv, r0, "")) {
			return
		}
		if !d.commitAtCOnly(r0, keyB) {
			return
		}
	}
	k := 2 + r.Intn(3)
	var lures []*vfBlk
	for rd := r0 + 1; rd <= r0+uint32(k); rd++ {
		d.begin(rd)
		if !d.lockedOn("A", keyB) {
			d.reached("A-locked-in-pressure-round", false)
			return
		}
		if z := d.prop[rd]; d.role[z] == 'Z' {
			mode := r.Intn(5)
			switch {
			case mode == 0: // silent
			case mode == 4 && len(lures) > 0: // an earlier lure again, "justified" by its own round
				b := lures[r.Intn(len(lures))]
				d.byzPropose(z, rd, rd-1, b)
				d.o.Stat("dir.S4.lure-reproposal-fake-pol")
			default:
				b := d.mkBlock(z, 10+len(lures))
				if b == nil {
					break
				}
				pol := uint32(0)
				switch mode {
				case 2:
					pol = 1 + uint32(r.Intn(int(rd)-1)) // an earlier round: no polka for this block there
					d.o.Stat("dir.S4.lure-fake-pol-earlier-round")
				case 3:
					pol = rd + uint32(r.Intn(2)) // not below the proposal's own round
					d.o.Stat("dir.S4.lure-pol-not-below-round")
				default:
					d.o.Stat("dir.S4.lure-fresh-block")
				}
				lures = append(lures, b)
				d.byzPropose(z, rd, pol, b)
			}
		} else {
			d.o.Stat("dir.S4.honest-proposer-in-pressure-round")
		}
		d.proposal(rd, "AD", "AD")
		keyL := d.sent(d.first("D"), vfPv, rd)
		if keyL == keyB {
			keyL = "" // Z never helps B: junk votes
		}
		d.lure(rd, keyL)
		d.o.Stat("dir.S4.pressure-round")
		d.verdictA(rd, keyB)
		if d.committedAny("AD") {
			break
		}
	}
}

// vfDirS6 - stale lock after a double round skip (candidate liveness defect).
// r1: block X is proposed and prevoted by A, C and D; ONLY A sees the polka (variant 0: Z prevotes
// nil in public, A is shown the prevotes of A, C, D, the others those of C, D, Z; variant 1: D does
// not receive the proposal and Z shows its prevote for X to A only): A locks X@r1 and precommits
// it, C and D precommit nil. From now on A is cut off (nothing to or from A is delivered).
// r2: Y is proposed (by C, D or Z) and prevoted by C, D, Z: C and D lock Y@r2 and precommit it, Z
// precommits nil: no decision (C+D <= 2/3). r3: C and D prevote Y again (their lock), Z nil.
// Then A reconnects and the network hands it, in this order and before A's propose timeout of
// r2 fires, the r2 prevotes of C, D, Z (a polka for Y: A is still in round r1, so addVote's unlock
// test `LockedRound < vote.Round <= cs.Round` is false; +2/3-any: A skips to r2) and the r3 prevotes
// of C, D, Z (+2/3-any: A skips to r3) - A never prevoted or precommitted in r2. A now HOLDS the
// polka (r2, Y) but stays locked on (X, r1). Nothing else is scripted: the caller's synchronous
// heal / suffix decides whether the network (A + C + D > 2/3, Z silent) ever commits.
func vfDirS6(d *vfDir, variant int) {
	r1, r2, r3 := d.rounds[0], d.rounds[1], d.rounds[2]
	null := types.BlockID{}
	d.o.Stat(fmt.Sprintf("dir.S6.variant-%d", variant))
	d.noiseUntil(1, r1)
	// r1: A locks X alone
	d.begin(r1)
	toProp := "ACD"
	if variant == 1 {
		toProp = "AC"
	}
	if z := d.prop[r1]; d.role[z] == 'Z' {
		b := d.mkBlock(z, 0)
		if b == nil {
			d.reached("byz-block", false)
			return
		}
		d.byzPropose(z, r1, 0, b)
	}
	d.proposal(r1, toProp, "ACD")
	keyX := d.sent(d.first("A"), vfPv, r1)
	if variant == 1 {
		if !d.reached("r1-prevotes", vfRealKey(keyX) && d.allSent("AC", vfPv, r1, keyX) && d.allSent("D", vfPv, r1, "")) {
			return
		}
		d.byzVote(vfPv, r1, d.idOf(keyX))
		d.prevotes(r1, vfVis{'A': "ACDZ", 'C': "ACD", 'D': "ACD"})
	} else {
		if !d.reached("r1-prevotes", vfRealKey(keyX) && d.allSent("ACD", vfPv, r1, keyX)) {
			return
		}
		d.byzVote(vfPv, r1, null)
		d.prevotes(r1, vfVis{'A': "ACD", 'C': "CDZ", 'D': "CDZ"})
	}
	if !d.reached("A-locked-r1", d.lockedOn("A", keyX) && d.allSent("A", vfPc, r1, keyX) && d.allSent("CD", vfPc, r1, "") && !d.lockedOn("C", keyX) && !d.lockedOn("D", keyX)) {
		return
	}
	d.cutoff = "A"
	d.byzVote(vfPc, r1, null)
	d.precommits(r1, vfVisAll) // (A is cut off: C and D see the nil precommits of C, D, Z)
	d.noiseUntil(r1+1, r2)
	// r2: C and D lock Y
	d.begin(r2)
	if z := d.prop[r2]; d.role[z] == 'Z' {
		b := d.mkBlock(z, 2)
		if b == nil {
			d.reached("byz-block", false)
			return
		}
		d.byzPropose(z, r2, 0, b)
	}
	d.proposal(r2, "CD", "CD")
	keyY := d.sent(d.first("C"), vfPv, r2)
	if !d.reached("r2-prevotes", vfRealKey(keyY) && keyY != keyX && d.allSent("CD", vfPv, r2, keyY)) {
		return
	}
	// only as many faulty validators vote as the polka needs: with the last of these votes the
	// polka is EXACTLY complete, so that no further round-r2 prevote exists that could be added
	// to A's vote set later (any late r2 prevote arriving after the skip would run addVote's
	// unlock test again - and release the lock)
	var zMin []int
	sum := d.power("CD")
	for _, z := range d.group("Z") {
		if 3*sum > 2*d.tot {
			break
		}
		zMin = append(zMin, z)
		sum += d.net.powers[z]
	}
	d.byzVoteFrom(zMin, vfPv, r2, d.idOf(keyY))
	d.prevotes(r2, vfVisAll)
	lr := true
	for _, i := range d.group("CD") {
		if d.net.nodeOf[i].cs.LockedRound != r2 {
			lr = false
		}
	}
	if !d.reached("B-C-locked-r2", lr && d.lockedOn("C", keyY) && d.lockedOn("D", keyY) && d.allSent("CD", vfPc, r2, keyY)) {
		return
	}
	d.byzVoteFrom(zMin, vfPc, r2, null)
	d.precommits(r2, vfVisAll)
	if !d.reached("no-decision-in-r2", !d.committedAny("ACD")) {
		return
	}
	d.noiseUntil(r2+1, r3)
	// r3: C and D prevote their lock again
	d.begin(r3)
	d.proposal(r3, "CD", "CD")
	d.byzVoteFrom(zMin, vfPv, r3, null)
	if !d.reached("r3-prevotes", d.allSent("CD", vfPv, r3, keyY)) {
		return
	}
	// A reconnects: still in r1, locked on X, it has received nothing since its own precommit
	a0 := d.net.nodeOf[d.first("A")]
	if !d.reached("A-still-in-r1-locked", a0.cs.Round == r1 && d.lockedOn("A", keyX)) {
		return
	}
	d.cutoff = ""
	d.showK("prevote", r2, "A", "CD", keyY) // the correct validators' prevotes first (no quorum yet),
	d.showK("prevote", r2, "A", "Z", keyY)  // then the faulty ones': the last one completes polka and skip
	skip1 := true
	for _, i := range d.group("A") {
		if n := d.net.nodeOf[i]; n.cs.Round != r2 || n.cs.Step > cstypes.RoundStepPropose {
			skip1 = false
		}
	}
	d.reached("A-skipped-to-r2", skip1 && d.lockedOn("A", keyX))
	d.show("prevote", r3, "A", "CDZ")
	skip2 := true
	for _, i := range d.group("A") {
		if n := d.net.nodeOf[i]; n.cs.Round != r3 || d.sent(i, vfPv, r2) != "?" || d.sent(i, vfPc, r2) != "?" {
			skip2 = false
		}
	}
	if !d.reached("A-double-skip-without-round2-prevote", skip1 && skip2) {
		return
	}
	holds := true
	for _, i := range d.group("A") {
		n := d.net.nodeOf[i]
		id, ok := n.cs.Votes.Prevotes(r2).TwoThirdsMajority()
		if !ok || vfBlockKey(id) != keyY || n.cs.LockedRound != r1 {
			holds = false
		}
	}
	d.reached("A-holds-polka-r2-but-locked", holds && d.lockedOn("A", keyX))
}

// vfDirS7 - commit forgotten after a round skip out of the commit step (liveness).
// Round cr: block B is proposed to C and D but NOT to A (proposal and parts withheld); C, D and Z
// prevote B, A prevotes nil (variant bit 0: A sees the polka and precommits nil knowing the part
// set header, or sees no prevote quorum at all). C and D lock and precommit B, Z precommits B: A
// is shown the precommits of C, D, Z: +2/3 for B - A enters step Commit WITHOUT the block and
// waits for its parts. C (if the group exists; bit 5: it does not) sees the same and commits: it
// leaves the height. D must not see the decision yet: Z tells D a nil precommit (equivocation;
// bit 4, when C+D <= 2/3: Z's precommit is merely withheld from D and D sees those of A, C, D): D
// sees +2/3 of anything and moves on. Rounds cr+1.. (bit 3: one more): D prevotes B (its lock).
// Then A - cut off since its commit step - is shown votes of D and Z of the last of these rounds,
// BEFORE any part of B reaches A (bits 1-2, the trigger):
//
//	0 (and 3): the prevotes, D's for B and Z's for a block nobody knows: +2/3 of anything;
//	1: the precommits, all nil (no polka in that round): a +2/3 majority for NIL;
//	2: the precommits, all for B (Z prevoted B too, D re-locked): a +2/3 majority for B.
//
// The unfixed enterNewRound does not look at the step: A leaves the commit step, drops the part
// set header it waited for, keeps CommitRound, and (triggers 0, 1) nothing re-evaluates the commit;
// with trigger 2 the commit is entered again for the later round. Finally (bit 6) D is shown the
// decision of round cr and leaves the height too - otherwise a later round with a correct
// proposer may still decide B with A's help. With a guard in enterNewRound
// only, triggers 1 and 2 still run enterPrecommit for the later round from addVote: a second
// precommit is signed with the old round number and the commit step is left. The caller's heal /
// synchronous suffix must make every correct node store B, and no node may sign twice in a round.
func vfDirS7(d *vfDir, variant int) {
	cr := d.rounds[0]
	null := types.BlockID{}
	seePolka := variant&1 != 0
	trigger := (variant >> 1) & 3
	if trigger == 3 {
		trigger = 0
	}
	extra := uint32((variant >> 3) & 1)
	hasC := len(d.group("C")) > 0
	withhold := variant&16 != 0 && hasC && 3*d.power("CD") <= 2*d.tot
	optC := func(ok bool) bool { return !hasC || ok }
	d.o.Stat(fmt.Sprintf("dir.S7.A-sees-polka=%v", seePolka))
	d.o.Stat("dir.S7.trigger." + []string{"prevotes-any", "precommit-majority-nil", "precommit-majority-block"}[trigger])
	d.o.Stat(fmt.Sprintf("dir.S7.extra-rounds=%d", extra))
	d.o.Stat(fmt.Sprintf("dir.S7.group-C=%v", hasC))
	d.o.Stat(fmt.Sprintf("dir.S7.z-precommit-withheld-from-D=%v", withhold))
	d.noiseUntil(1, cr)
	d.begin(cr)
	if z := d.prop[cr]; d.role[z] == 'Z' {
		b := d.mkBlock(z, 0)
		if b == nil {
			d.reached("byz-block", false)
			return
		}
		d.byzProposeTo(z, cr, 0, b, "CD")
	}
	d.proposal(cr, "CD", "ACD") // A runs into its propose timeout and prevotes nil
	keyB := d.sent(d.first("D"), vfPv, cr)
	if !d.reached("cr-prevotes", vfRealKey(keyB) && d.allSent("D", vfPv, cr, keyB) && optC(d.allSent("C", vfPv, cr, keyB)) && d.allSent("A", vfPv, cr, "")) {
		return
	}
	d.byzVote(vfPv, cr, d.idOf(keyB))
	if seePolka {
		d.prevotes(cr, vfVisAll)
	} else {
		d.prevotes(cr, vfVis{'C': "ACDZ", 'D': "ACDZ"})
	}
	if !d.reached("C-D-precommit-B", d.allSent("D", vfPc, cr, keyB) && optC(d.allSent("C", vfPc, cr, keyB))) {
		return
	}
	d.byzVote(vfPc, cr, d.idOf(keyB))
	if !withhold {
		d.byzVote(vfPc, cr, null) // the equivocating nil precommit, meant for D
	}
	// A: +2/3 precommits for a block it does not have
	d.showK("precommit", cr, "A", "CDZ", keyB)
	inCommit := true
	for _, i := range d.group("A") {
		n := d.net.nodeOf[i]
		if n.cs.Height != d.h || n.cs.Step != cstypes.RoundStepCommit || n.cs.CommitRound != cr || n.cs.ProposalBlock != nil {
			inCommit = false
		}
	}
	if !d.reached("A-in-commit-step-without-block", inCommit) {
		return
	}
	aRound := d.net.nodeOf[d.first("A")].cs.Round
	// every other precommit of round cr that exists reaches A now, while it is in the commit step
	// (any precommit of that round ADDED after the skip would enter the commit again)
	d.show("precommit", cr, "A", "ACD")
	// C: decides and leaves
	if hasC {
		d.showK("precommit", cr, "C", "CDZ", keyB)
		if !d.reached("C-committed", d.committedAll("C")) {
			return
		}
	}
	// D: +2/3 of anything, no decision
	if withhold {
		d.show("precommit", cr, "D", "ACD")
	} else {
		d.showK("precommit", cr, "D", "Z", "")
		d.show("precommit", cr, "D", "AD")
	}
	if !d.reached("D-saw-no-decision", !d.committedAny("D")) {
		return
	}
	d.cutoff = "A"
	// the later round(s): D and Z only
	last := cr + 1 + extra
	for rd := cr + 1; rd <= last; rd++ {
		d.begin(rd)
		d.proposal(rd, "D", "D")
		if !d.reached("D-prevotes-its-lock", d.allSent("D", vfPv, rd, keyB)) {
			return
		}
		if rd == last && trigger == 2 {
			d.byzVote(vfPv, rd, d.idOf(keyB))
		} else {
			d.byzVote(vfPv, rd, d.junk)
		}
		if rd == last && trigger == 0 {
			break
		}
		d.prevotes(rd, vfVis{'D': "DZ"})
		if rd == last && trigger == 2 {
			if !d.reached("D-precommits-B-again", d.allSent("D", vfPc, rd, keyB)) {
				return
			}
			d.byzVote(vfPc, rd, d.idOf(keyB))
			break
		}
		if !d.reached("D-precommits-nil", d.allSent("D", vfPc, rd, "")) {
			return
		}
		d.byzVote(vfPc, rd, null)
		if rd == last {
			break
		}
		d.precommits(rd, vfVis{'D': "DZ"})
	}
	// A hears of the later round before any part of B
	d.cutoff = ""
	if trigger == 0 {
		d.show("prevote", last, "A", "DZ")
	} else {
		d.show("precommit", last, "A", "DZ")
	}
	skipped, stayed, again := true, true, true
	for _, i := range d.group("A") {
		n := d.net.nodeOf[i]
		if n.cs.Height != d.h {
			skipped, stayed, again = false, false, false
			continue
		}
		if n.cs.Step == cstypes.RoundStepCommit || n.cs.Round <= aRound {
			skipped = false
		}
		if n.cs.Step != cstypes.RoundStepCommit || n.cs.CommitRound != cr {
			stayed = false
		}
		if n.cs.Step != cstypes.RoundStepCommit || n.cs.CommitRound != last {
			again = false
		}
	}
	switch {
	case skipped:
		d.o.Stat("dir.S7.reached-A-round-skipped-out-of-commit-step")
	case stayed:
		d.o.Stat("dir.S7.reached-A-stayed-in-commit-step")
	case again:
		d.o.Stat("dir.S7.reached-A-entered-commit-again-for-the-later-round")
	default:
		d.reached("A-skipped-or-stayed", false)
	}
	if who := vfSignedTwice(d.net, d.h); who != "" {
		d.o.Stat("dir.S7.signed-twice-in-a-round")
	}
	d.logf("after the later round's votes: skipped=%v stayed=%v again=%v %s", skipped, stayed, again, d.state())
	// bit 6 (set in 3 of 4 cases): D now learns the decision of round cr and leaves the height, so
	// that A cannot be rescued by a later round deciding B with A's help: the majority claim of the
	// nodes that hold the +2/3 precommits (the reactor's VoteSetMaj23) lets D accept Z's precommit for
	// B although Z told D nil before
	if variant&64 == 0 || d.r.Bool() {
		d.o.Stat("dir.S7.D-leaves-after-the-skip")
		for pos, n := range d.net.nodes {
			if d.is(n.idx, "D") && d.active(n) {
				d.net.maj23Gossip(pos)
			}
		}
		d.showK("precommit", cr, "D", "CDZ", keyB)
		d.reached("D-committed-and-left", d.committedAll("D"))
	}
}

// vfSignedTwice: did a correct validator request two vote signatures for the same (height, round,
// type) at height h? Returns a description ("" = no). The recording PrivValidator logs every
// signature request of a node.
func vfSignedTwice(net *vfNet, h uint64) string {
	out := ""
	for _, nd := range net.nodes {
		seen := map[string]string{}
		for _, sr := range nd.pv.log {
			if sr.proposal || sr.h != h {
				continue
			}
			k := fmt.Sprintf("%d/%d", sr.r, sr.typ)
			v := sr.blockKey
			if v == "" {
				v = "nil"
			} else if len(v) > 8 {
				v = v[:8]
			}
			if prev, ok := seen[k]; ok {
				out += fmt.Sprintf(" [node%d signed two votes of type %d for height %d round %d: %s then %s]", nd.idx, sr.typ, h, sr.r, prev, v)
			}
			seen[k] = v
		}
	}
	return out
}

// ---- the driver

var vfDirKinds = []string{"S1", "S2", "S3", "S4", "S5"}

func vfDirSpecFor(kind string, variant int) vfDirSpec {
	switch kind {
	case "S1":
		return vfDirSpec{crit: []string{"ACZ", "CDZ", "AZ", "DZ"}, maxGap: []int{2, 3, 3, 3}, differ: [][2]int{{0, 1}}}
	case "S5":
		return vfDirSpec{crit: []string{"Z", "Z", "AZ", "DZ"}, maxGap: []int{7, 8, 4, 4}}
	case "S2":
		switch variant {
		case 0:
			return vfDirSpec{crit: []string{"DZ", "ACZ", "DZ"}, maxGap: []int{2, 3, 3}}
		case 1:
			return vfDirSpec{crit: []string{"ADZ", "ACZ", "Z"}, maxGap: []int{2, 3, 7}, differ: [][2]int{{0, 1}}}
		case 2:
			return vfDirSpec{crit: []string{"ACZ", "CDZ", "ACDZ"}, maxGap: []int{2, 3, 2}, differ: [][2]int{{0, 1}}}
		default:
			return vfDirSpec{crit: []string{"ACZ", "AZ", "ACDZ"}, maxGap: []int{2, 4, 2}}
		}
	case "S3":
		if variant == 2 {
			return vfDirSpec{crit: []string{"ACZ", "CDZ", "Z"}, maxGap: []int{2, 3, 7}, differ: [][2]int{{0, 1}}}
		}
		return vfDirSpec{crit: []string{"ACZ", "CDZ", "DZ"}, maxGap: []int{2, 3, 3}, differ: [][2]int{{0, 1}}}
	}
	if kind == "S6" {
		// A and Z below one third, C and D together at most two thirds (C+D must neither see a
		// polka among themselves in r1 nor commit alone in r2)
		pw := func(d *vfDir) bool {
			if variant == 1 && (3*d.power("C") >= d.tot || 3*d.power("D") >= d.tot) {
				return false
			}
			return len(d.group("C")) > 0 && len(d.group("D")) > 0 && 3*d.power("A") < d.tot && 3*d.power("Z") < d.tot && 3*d.power("CD") <= 2*d.tot
		}
		r1 := "ACDZ"
		if variant == 1 {
			r1 = "ACZ"
		}
		return vfDirSpec{crit: []string{r1, "CDZ", "CDZ"}, maxGap: []int{2, 1, 1}, differ: [][2]int{{0, 1}}, powerOK: pw}
	}
	if kind == "S7" {
		// D and Z together are a quorum of their own (they alone give A +2/3 of anything in the
		// later round), D alone is not (it must not decide on its own precommits), Z below one third;
		// bit 5 of the variant: without group C
		pw := func(d *vfDir) bool {
			return len(d.group("A")) > 0 && len(d.group("D")) > 0 && 3*d.power("Z") < d.tot && 3*d.power("DZ") > 2*d.tot && 3*d.power("D") <= 2*d.tot
		}
		roles := "ACDZ"
		if variant&32 != 0 {
			roles = "ADZ"
		}
		return vfDirSpec{crit: []string{"CDZ"}, maxGap: []int{2}, powerOK: pw, roles: roles}
	}
	return vfDirSpec{crit: []string{"ACDZ"}, maxGap: []int{2}}
}

// vfRunDirected builds a network for one directed case and plays scenario `kind`. All
// validators start as real nodes (optionally one synchronous height is decided first); the
// proposer rotation of the scenario's height is computed from a throwaway copy of the validator
// set, THEN roles are chosen so that the proposers of the critical rounds fit, and the validators
// of group Z become the adversary's. Returns the network, a description and whether the healed
// network decided within the bound.
func vfRunDirected(o *vfOut, r *vfRand, kind string, tag string) (net *vfNet, desc string, healed bool, err error) {
	d, desc, err := vfDirPlay(o, r, kind, tag)
	if err != nil || d == nil {
		return nil, desc, false, err
	}
	if d.preFailed {
		return d.net, desc, false, nil
	}
	d.logf("before heal: %s", d.state())
	n := len(d.net.keys)
	if d.kind == "S6" {
		// generous bound: at least 45 further rounds (three timeouts per round and node at most)
		var rounds int
		healed, rounds = d.healRounds(d.h, 45)
		o.Stat(fmt.Sprintf("dir.S6.heal-rounds<=%d", (rounds/10+1)*10))
		desc += fmt.Sprintf(" heal-rounds=%d decided=%v", rounds, healed)
	} else if d.kind == "S7" {
		healed = d.heal(d.h, 40*n+60)
		if d.committedAll("A") {
			o.Stat("dir.S7.A-committed")
		} else {
			o.Stat("dir.S7.A-NOT-committed")
		}
		desc += fmt.Sprintf(" decided=%v", healed)
	} else {
		healed = d.heal(d.h+uint64(r.Pick(0, 0, 1)), 40*n+60)
	}
	d.logf("after heal (%v): %s", healed, d.state())
	return d.net, desc, healed, nil
}

// vfDirPlay: everything of vfRunDirected up to (excluding) the heal; also used by the C04 harness,
// which runs its own synchronous suffix afterwards.
func vfDirPlay(o *vfOut, r *vfRand, kind string, tag string) (d *vfDir, desc string, err error) {
	n, stake := vfDirConfig(r)
	byz := map[int]bool{}
	net, err := vfNewNet(r, vfKeys(r, n), stake, byz)
	if err != nil {
		return nil, "", err
	}
	net.dropPct, net.dupPct = 0, 0
	d = &vfDir{net: net, o: o, r: r, kind: kind, tag: tag, dbg: vfEnvInt("VERIF_DEBUG", 0) > 0, dbg2: vfEnvInt("VERIF_DEBUG", 0) > 1}
	for _, p := range net.powers {
		d.tot += p
	}
	d.h = 1
	pre := r.Pick(0, 0, 1)
	if pre > 0 {
		// a synchronous height with every validator behaving correctly
		d.role = map[int]byte{}
		if !d.heal(uint64(pre), 60) {
			d.preFailed = true
			return d, tag + " kind=" + kind + " pre-height not decided", nil
		}
	}
	d.h = net.nodes[0].cs.Height
	for _, nd := range net.nodes {
		if nd.cs.Height != d.h || nd.cs.Step != cstypes.RoundStepNewHeight {
			o.Stat("dir.start-not-aligned")
		}
	}
	d.chainID = net.nodes[0].cs.state.ChainID
	d.proposers(40)
	variant := 0
	switch kind {
	case "S2":
		variant = r.Intn(4)
	case "S3":
		variant = r.Intn(3)
	}
	if kind == "S6" {
		variant = r.Intn(2)
	}
	if kind == "S7" {
		variant = r.Intn(128)
	}
	planned := vfDirFeasible(net.powers) && d.plan(vfDirSpecFor(kind, variant))
	if !planned && kind == "S7" {
		variant ^= 32 // with / without group C
		planned = vfDirFeasible(net.powers) && d.plan(vfDirSpecFor(kind, variant))
	}
	if planned && kind == "S2" && variant == 3 && 3*d.power("CD") > 2*d.tot {
		// C and D alone would show A a nil polka: use the block variant
		variant = 2
		planned = d.plan(vfDirSpecFor(kind, variant))
	}
	if !planned && kind != "S4" && kind != "S6" && kind != "S7" {
		o.Stat("dir." + kind + ".plan-failed")
		kind = "S4"
		d.kind = kind
		planned = vfDirFeasible(net.powers) && d.plan(vfDirSpecFor(kind, 0))
	}
	var roles []string
	if planned {
		d.turnByzantine()
		for i := range net.keys {
			roles = append(roles, string(d.role[i]))
		}
	}
	desc = fmt.Sprintf("%s directed=%s variant=%d n=%d stake=%v height=%d roles=%s rounds=%v proposers=%v", tag, kind, variant, n, stake, d.h, strings.Join(roles, ""), d.rounds, d.prop[1:13])
	d.logf("%s", desc)
	if !planned {
		o.Stat("dir.no-plan")
	} else {
		if jb := d.mkBlock(d.first("Z"), 99); jb != nil {
			d.junk = vfBlkID(jb)
		}
		o.Stat("dir.kind." + kind)
		o.Stat(fmt.Sprintf("dir.validators.%d", n))
		o.Stat(fmt.Sprintf("dir.faulty.%d", len(d.group("Z"))))
		o.Stat(fmt.Sprintf("dir.height.%d", d.h))
		sizes := fmt.Sprintf("A%d-C%d-D%d-Z%d", len(d.group("A")), len(d.group("C")), len(d.group("D")), len(d.group("Z")))
		o.Stat("dir.role-mapping." + sizes)
		o.Stat(fmt.Sprintf("dir.%s.last-critical-round<=%d", kind, (int(d.rounds[len(d.rounds)-1])+3)/4*4))
		var pr []string
		for _, rd := range d.rounds {
			pr = append(pr, string(d.role[d.prop[rd]]))
		}
		o.Stat("dir." + kind + ".critical-proposers." + strings.Join(pr, ""))
		switch kind {
		case "S1":
			vfDirS1(d, false)
		case "S5":
			vfDirS1(d, true)
		case "S2":
			vfDirS2(d, variant)
		case "S3":
			vfDirS3(d, variant)
		case "S6":
			vfDirS6(d, variant)
		case "S7":
			vfDirS7(d, variant)
		default:
			vfDirS4(d)
		}
		if d.derail == "" {
			o.Stat("dir." + kind + ".completed")
		} else {
			o.Stat("dir." + kind + ".derailed")
			desc += " derailed-at=" + d.derail
		}
	}
	return d, desc, nil
}
