package consensus

// C03 harness: ONE real ConsensusState (validator index `me`), built like mainchain/backend.go
// with memory databases, driven without goroutines (handleMsg / handleTimeout called directly,
// the ticker replaced by a recorder). The other validators are simulated: the harness holds
// their keys and signs real proposals / block parts / votes for them.
//
//   * every input is printed as an op line for the Lean model `cs` together with the actions
//     the node took (signatures requested, timeouts scheduled, commits) and the abstract
//     observation of its RoundState; the model must print the same line (tie T2);
//   * the ORACLE is independent of the model: the node's PrivValidator and block store are
//     wrapped, and every SignVote / SignProposal / SaveBlock is checked against the clauses of
//     property C03 using the node's vote sets at that moment.

import (
	"crypto/ecdsa"
	"fmt"
	"math/big"
	"os/signal"
	"strings"
	"syscall"
	"testing"
	"time"

	"github.com/kardiachain/go-kardia/configs"
	cstypes "github.com/kardiachain/go-kardia/consensus/types"
	"github.com/kardiachain/go-kardia/kai/kaidb/memorydb"
	"github.com/kardiachain/go-kardia/kai/state/cstate"
	cmn "github.com/kardiachain/go-kardia/lib/common"
	"github.com/kardiachain/go-kardia/lib/crypto"
	"github.com/kardiachain/go-kardia/lib/log"
	"github.com/kardiachain/go-kardia/lib/p2p"
	"github.com/kardiachain/go-kardia/mainchain/blockchain"
	"github.com/kardiachain/go-kardia/mainchain/genesis"
	"github.com/kardiachain/go-kardia/mainchain/staking"
	"github.com/kardiachain/go-kardia/mainchain/tx_pool"
	kproto "github.com/kardiachain/go-kardia/proto/kardiachain/types"
	"github.com/kardiachain/go-kardia/trie"
	"github.com/kardiachain/go-kardia/types"
	"github.com/kardiachain/go-kardia/types/evidence"
	ktime "github.com/kardiachain/go-kardia/types/time"
)

// ------------------------------------------------------------------ world (genesis + keys)

type vfWorld struct {
	keys []*ecdsa.PrivateKey
	gen  *genesis.Genesis
}

func vfKey(i int) *ecdsa.PrivateKey {
	k, err := crypto.ToECDSA(crypto.Keccak256([]byte(fmt.Sprintf("verif-c03-key-%d", i))))
	if err != nil {
		panic(err)
	}
	return k
}

// stakes are in units of 1e24 (the genesis "SelfDelegate" amounts)
func vfMkWorld(stakes []int) *vfWorld {
	w := &vfWorld{}
	initValue, _ := big.NewInt(0).SetString("1000000000000000000000000000", 10)
	accounts := map[string]*big.Int{}
	var vals []*genesis.GenesisValidator
	for i, s := range stakes {
		k := vfKey(i)
		w.keys = append(w.keys, k)
		addr := crypto.PubkeyToAddress(k.PublicKey)
		accounts[addr.Hex()] = initValue
		vals = append(vals, &genesis.GenesisValidator{Name: fmt.Sprintf("val%d-------------------------------------", i), Address: addr.Hex(),
			CommissionRate: "100000000000000000", MaxRate: "250000000000000000", MaxChangeRate: "50000000000000000",
			SelfDelegate: fmt.Sprintf("%d000000000000000000000000", s), StartWithGenesis: true})
	}
	configs.AddDefaultContract()
	contracts := make(map[string]string)
	for key, contract := range configs.GetContracts() {
		configs.LoadGenesisContract(key, contract.Address, contract.ByteCode, contract.ABI)
		if key != configs.StakingContractKey {
			contracts[contract.Address] = contract.ByteCode
		}
	}
	g := genesis.DefaulTestnetFullGenesisBlock(accounts, contracts)
	g.Validators = vals
	g.Timestamp = time.Unix(1700000000, 0)
	g.ChainID = "vfchain"
	w.gen = g
	return w
}

// ------------------------------------------------------------------ the node and its wrappers

type vfBlock struct {
	id     int
	block  *types.Block // nil for a made-up block id
	parts  *types.PartSet
	bid    types.BlockID
	okC    bool // valid by construction (at height `height`)
	height uint64
	dec    bool // decodable (passes Block.ValidateBasic)
	reason string
}

type vfPC struct {
	height uint64
	round  uint32
	key    string // BlockID key
}

type vfNode struct {
	t       *testing.T
	o       *vfOut
	w       *vfWorld
	cs      *ConsensusState
	inner   BaseBlockOperations
	mkCold  func() *cstate.BlockExecutor // fresh executor (empty cache) for validation cross-checks
	me      int
	meAddr  cmn.Address
	keyOf   []*ecdsa.PrivateKey // by validator index
	powers  []int64
	wait    bool
	ei      bool
	acts    []string
	pending []timeoutInfo
	own     []msgInfo
	// per case
	blocks   []*vfBlock
	byKey    map[string]int
	byHash   map[cmn.Hash]int
	byParts  map[cmn.Hash]int
	signed   map[string]string
	ownPC    []vfPC
	maxSigR  uint32
	sigH     uint64
	maxRound uint32
	nSigned  int
	halted   bool
	lines    []string
	caseH    uint64 // height the current case started at
	dirty    bool   // inputs were fed after the case's height was left: not in the `case` start state
	quiet    bool // oracle-only case: no op lines for the model
	created  int // id of the block createProposalBlock returned during the current input, or -1
}

type vfTicker struct{ n *vfNode }

func (m *vfTicker) Start() error             { return nil }
func (m *vfTicker) Stop() error              { return nil }
func (m *vfTicker) Chan() <-chan timeoutInfo { return nil }
func (m *vfTicker) SetLogger(log.Logger)     {}
func (m *vfTicker) ScheduleTimeout(ti timeoutInfo) {
	m.n.acts = append(m.n.acts, fmt.Sprintf("to:%d:%d:%d", ti.Height, ti.Round, ti.Step))
	m.n.pending = append(m.n.pending, ti)
}

type vfPV struct {
	types.PrivValidator
	n *vfNode
}

func (p *vfPV) SignVote(chainID string, v *kproto.Vote) error {
	p.n.onSignVote(v)
	return p.PrivValidator.SignVote(chainID, v)
}
func (p *vfPV) SignProposal(chainID string, pr *kproto.Proposal) error {
	p.n.onSignProposal(pr)
	return p.PrivValidator.SignProposal(chainID, pr)
}

type vfBO struct {
	BaseBlockOperations
	n *vfNode
}

func (b *vfBO) SaveBlock(block *types.Block, ps *types.PartSet, seen *types.Commit) {
	b.n.onCommit(block, ps)
	b.BaseBlockOperations.SaveBlock(block, ps, seen)
}
func (b *vfBO) CreateProposalBlock(height uint64, st cstate.LatestBlockState, addr cmn.Address, commit *types.Commit) (*types.Block, *types.PartSet) {
	blk, ps := b.BaseBlockOperations.CreateProposalBlock(height, st, addr, commit)
	if blk != nil {
		b.n.created = b.n.register(blk, ps, true, true, "own").id
	}
	return blk, ps
}

func vfMkNode(t *testing.T, o *vfOut, w *vfWorld, me int, wait, ei bool) *vfNode {
	db := memorydb.New()
	bc, err := blockchain.NewBlockChain(db, nil, w.gen)
	if err != nil {
		t.Fatal(err)
	}
	stateStore := cstate.NewStore(db)
	evPool, err := evidence.NewPool(stateStore, db, bc)
	if err != nil {
		t.Fatal(err)
	}
	txPool := tx_pool.NewTxPool(tx_pool.TxPoolConfig{GlobalSlots: 64, GlobalQueue: 64}, w.gen.Config, bc)
	st, _ := staking.NewSmcStakingUtil()
	logger := log.New()
	bo := blockchain.NewBlockOperations(logger, bc, txPool, evPool, st)
	blockExec := cstate.NewBlockExecutor(stateStore, logger, evPool, bo)
	state, err := stateStore.LoadStateFromDBOrGenesisDoc(w.gen)
	if err != nil {
		t.Fatal(err)
	}
	cfg := configs.TestConsensusConfig()
	cfg.IsSkipTimeoutCommit = false
	switch {
	case !wait:
		cfg.IsCreateEmptyBlocks = true
		cfg.CreateEmptyBlocksInterval = 0
	case ei:
		cfg.IsCreateEmptyBlocks = true
		cfg.CreateEmptyBlocksInterval = 50 * time.Millisecond
	default:
		cfg.IsCreateEmptyBlocks = false
		cfg.CreateEmptyBlocksInterval = 0
	}
	n := &vfNode{t: t, o: o, w: w, wait: wait, ei: ei}
	cs := NewConsensusState(logger, cfg, state, bo, blockExec, evPool)
	n.cs = cs
	n.inner = bo
	n.mkCold = func() *cstate.BlockExecutor { return cstate.NewBlockExecutor(stateStore, logger, evPool, bo) }
	// validator index -> key
	nv := cs.Validators.Size()
	n.keyOf = make([]*ecdsa.PrivateKey, nv)
	n.powers = make([]int64, nv)
	for i := 0; i < nv; i++ {
		addr, val := cs.Validators.GetByIndex(uint32(i))
		n.powers[i] = val.VotingPower
		for _, k := range w.keys {
			if crypto.PubkeyToAddress(k.PublicKey).Equal(addr) {
				n.keyOf[i] = k
			}
		}
		if n.keyOf[i] == nil {
			t.Fatal("validator without key")
		}
	}
	n.me = me
	n.meAddr = crypto.PubkeyToAddress(n.keyOf[me].PublicKey)
	cs.SetPrivValidator(&vfPV{PrivValidator: types.NewDefaultPrivValidator(n.keyOf[me]), n: n})
	cs.blockOperations = &vfBO{BaseBlockOperations: bo, n: n}
	eb := types.NewEventBus()
	eb.Start()
	cs.SetEventBus(eb)
	cs.timeoutTicker = &vfTicker{n: n}
	n.resetCase()
	cs.scheduleRound0(&cs.RoundState)
	n.acts = nil
	return n
}

func (n *vfNode) resetCase() {
	n.blocks = nil
	n.byKey = map[string]int{}
	n.byHash = map[cmn.Hash]int{}
	n.byParts = map[cmn.Hash]int{}
	n.signed = map[string]string{}
	n.ownPC = nil
	n.maxSigR = 0
	n.sigH = 0
	n.maxRound = 1
	n.nSigned = 0
	n.lines = nil
}

func (n *vfNode) total() int64 {
	var s int64
	for _, p := range n.powers {
		s += p
	}
	return s
}

// ------------------------------------------------------------------ block registry

func (n *vfNode) register(b *types.Block, ps *types.PartSet, okC, dec bool, reason string) *vfBlock {
	bid := types.BlockID{Hash: b.Hash(), PartsHeader: ps.Header()}
	if id, ok := n.byKey[bid.Key()]; ok {
		return n.blocks[id]
	}
	vb := &vfBlock{id: len(n.blocks), block: b, parts: ps, bid: bid, okC: okC, dec: dec, reason: reason, height: n.cs.Height}
	n.blocks = append(n.blocks, vb)
	n.byKey[bid.Key()] = vb.id
	n.byHash[bid.Hash] = vb.id
	n.byParts[bid.PartsHeader.Hash] = vb.id
	// cross-check the validity bit against the real validation (cold executor, own cache)
	if dec {
		err := n.mkCold().ValidateBlock(n.cs.state, b)
		if (err == nil) != okC {
			n.o.Viol("c03/validate-mismatch:"+reason, fmt.Sprintf("block built as valid=%v (%s) but ValidateBlock says %v", okC, reason, err))
		}
	}
	n.o.Stat("block:" + reason)
	return vb
}

// ok: is the block a valid extension of the node's chain now (blocks built for an earlier height are not)
func (vb *vfBlock) ok(n *vfNode) bool { return vb.okC && vb.height == n.cs.Height }

func (n *vfNode) registerFake(r *vfRand) *vfBlock {
	bid := types.BlockID{Hash: cmn.BytesToHash(r.Bytes(32)), PartsHeader: types.PartSetHeader{Total: 1, Hash: cmn.BytesToHash(r.Bytes(32))}}
	vb := &vfBlock{id: len(n.blocks), bid: bid, reason: "fake"}
	n.blocks = append(n.blocks, vb)
	n.byKey[bid.Key()] = vb.id
	n.byHash[bid.Hash] = vb.id
	n.byParts[bid.PartsHeader.Hash] = vb.id
	n.o.Stat("block:fake")
	return vb
}

func (n *vfNode) idOfBID(bid types.BlockID) string {
	if bid.IsZero() {
		return "-"
	}
	if id, ok := n.byKey[bid.Key()]; ok {
		return fmt.Sprint(id)
	}
	return "?"
}
func (n *vfNode) idOfBlock(b *types.Block) string {
	if b == nil {
		return "-"
	}
	if id, ok := n.byHash[b.Hash()]; ok {
		return fmt.Sprint(id)
	}
	return "?"
}

var vfKinds = []string{"apphash", "valhash", "nextvalhash", "lastblockid", "height", "time", "proposer", "lastcommit-sig", "lastcommit-few", "basic"}

// newBlock builds a block for the node's current height on behalf of a simulated proposer:
// kind "" = what an honest proposer would build, otherwise one invalidating change.
func (n *vfNode) newBlock(r *vfRand, kind string) *vfBlock {
	cs := n.cs
	var commit *types.Commit
	if cs.Height == cs.state.InitialHeight {
		commit = types.NewCommit(0, 0, types.BlockID{}, nil)
	} else {
		commit = cs.LastCommit.MakeCommit()
	}
	propIdx := r.Intn(len(n.keyOf))
	paddr := crypto.PubkeyToAddress(n.keyOf[propIdx].PublicKey)
	base, _ := n.inner.CreateProposalBlock(cs.Height, cs.state, paddr, commit)
	h := base.Header()
	ev := base.Evidence().Evidence
	okC := n.mkCold().ValidateBlock(cs.state, base) == nil
	if !okC {
		n.o.Stat("base-block-invalid")
	}
	dec := true
	if kind != "" && (cs.Height == cs.state.InitialHeight) && strings.HasPrefix(kind, "lastcommit") {
		kind = "apphash"
	}
	switch kind {
	case "":
	case "apphash":
		h.AppHash = cmn.BytesToHash(r.Bytes(32))
	case "valhash":
		h.ValidatorsHash = cmn.BytesToHash(r.Bytes(32))
	case "nextvalhash":
		h.NextValidatorsHash = cmn.BytesToHash(r.Bytes(32))
	case "lastblockid":
		h.LastBlockID = types.BlockID{Hash: cmn.BytesToHash(r.Bytes(32)), PartsHeader: types.PartSetHeader{Total: 1, Hash: cmn.BytesToHash(r.Bytes(32))}}
	case "height":
		if r.Bool() || h.Height <= 2 {
			h.Height++
		} else {
			h.Height--
		}
	case "time":
		h.Time = h.Time.Add(time.Duration(1+r.Intn(5)) * time.Second)
	case "proposer":
		h.ProposerAddress = cmn.BytesToAddress(r.Bytes(20))
	case "lastcommit-sig":
		sigs := append([]types.CommitSig{}, commit.Signatures...)
		for i := range sigs {
			if !sigs[i].Absent() {
				s := append([]byte{}, sigs[i].Signature...)
				s[5] ^= 0x40
				sigs[i].Signature = s
				break
			}
		}
		commit = types.NewCommit(commit.Height, commit.Round, commit.BlockID, sigs)
		h.LastCommitHash = cmn.Hash{}
	case "lastcommit-few":
		sigs := append([]types.CommitSig{}, commit.Signatures...)
		kept := false
		for i := range sigs {
			if !sigs[i].Absent() {
				if kept {
					sigs[i] = types.NewCommitSigAbsent()
				}
				kept = true
			}
		}
		commit = types.NewCommit(commit.Height, commit.Round, commit.BlockID, sigs)
		h.LastCommitHash = cmn.Hash{}
	case "lastcommit-id":
		commit = types.NewCommit(commit.Height, commit.Round,
			types.BlockID{Hash: cmn.BytesToHash(r.Bytes(32)), PartsHeader: commit.BlockID.PartsHeader}, commit.Signatures)
		h.LastCommitHash = cmn.Hash{}
	case "basic":
		h.LastCommitHash = cmn.BytesToHash(r.Bytes(32))
		dec = false
	}
	var b *types.Block
	if kind == "" {
		b = base
	} else {
		b = types.NewBlock(h, nil, commit, ev, trie.NewStackTrie(nil))
		okC = false
	}
	ps := b.MakePartSet(types.BlockPartSizeBytes)
	if ps.Total() != 1 {
		n.o.Stat("multipart-block")
	}
	reason := kind
	if reason == "" {
		reason = "good"
	}
	return n.register(b, ps, okC, dec, reason)
}

// ------------------------------------------------------------------ observation and feeding

func (n *vfNode) obs(added bool) string {
	cs := n.cs
	p := "-"
	if cs.Proposal != nil {
		p = fmt.Sprintf("%d:%d:%s", cs.Proposal.Round, cs.Proposal.POLRound, n.idOfBID(cs.Proposal.POLBlockID))
	}
	ps := "-"
	if cs.ProposalBlockParts != nil {
		id := "?"
		if v, ok := n.byParts[cs.ProposalBlockParts.Header().Hash]; ok {
			id = fmt.Sprint(v)
		}
		c := 0
		if cs.ProposalBlockParts.IsComplete() {
			c = 1
		}
		ps = fmt.Sprintf("%s:%d", id, c)
	}
	bi := func(b bool) int {
		if b {
			return 1
		}
		return 0
	}
	return fmt.Sprintf("H=%d R=%d S=%d L=%d:%s V=%d:%s P=%s B=%s PS=%s CR=%d T=%d A=%d",
		cs.Height, cs.Round, cs.Step, cs.LockedRound, n.idOfBlock(cs.LockedBlock), cs.ValidRound, n.idOfBlock(cs.ValidBlock),
		p, n.idOfBlock(cs.ProposalBlock), ps, cs.CommitRound, bi(cs.TriggeredTimeoutPrecommit), bi(added))
}

// feed runs one input on the real node and records the op line. `added` is evaluated after the call.
func (n *vfNode) feed(line string, f func(), added func() bool) {
	if n.halted {
		return
	}
	nb := len(n.blocks)
	n.acts = nil
	n.created = -1
	if n.cs.Height != n.caseH {
		n.dirty = true
	}
	lr0, lb0, r0 := n.cs.LockedRound, n.cs.LockedBlock, n.cs.Round
	var pv interface{}
	func() {
		defer func() { pv = recover() }()
		f()
	}()
	if n.created >= 0 {
		nb = n.created // the createBlock answer (a node without transactions rebuilds the same block)
	}
	line = fmt.Sprintf("%s nb=%d", line, nb)
	var out string
	if pv != nil {
		n.halted = true
		msg := fmt.Sprint(pv)
		if !strings.Contains(msg, "committed an invalid block") && !strings.Contains(msg, "Block validation failed") {
			n.o.Viol("c03/unexpected-panic", fmt.Sprintf("%v after %s", msg, line))
		}
		n.o.Stat("panic")
		out = strings.Join(append(n.acts, "panic"), " ")
	} else {
		a := false
		if added != nil {
			a = added()
		}
		out = strings.Join(append(n.acts, "|", n.obs(a)), " ")
	}
	if !n.quiet {
		n.o.Op("cs", line, out)
	}
	n.lines = append(n.lines, line)
	n.lockStats(lr0, lb0, r0)
	// collect what the node sent to itself
	for {
		select {
		case mi := <-n.cs.internalMsgQueue:
			n.own = append(n.own, mi)
			continue
		default:
		}
		break
	}
}

func (n *vfNode) lockStats(lr0 uint32, lb0 *types.Block, r0 uint32) {
	cs := n.cs
	switch {
	case lb0 == nil && cs.LockedBlock != nil:
		n.o.Stat("ev:lock")
	case lb0 != nil && cs.LockedBlock == nil && cs.Height == lb0.Height():
		n.o.Stat("ev:unlock")
	case lb0 != nil && cs.LockedBlock != nil && lr0 != cs.LockedRound:
		if lb0.Hash() == cs.LockedBlock.Hash() {
			n.o.Stat("ev:relock")
		} else {
			n.o.Stat("ev:lock-other")
		}
	}
	if cs.Round > r0+1 {
		n.o.Stat("ev:round-skip")
	}
}

// drainOwn feeds the node's own messages back to it, in order, as ordinary inputs.
func (n *vfNode) drainOwn(max int) {
	for len(n.own) > 0 && max != 0 && !n.halted {
		mi := n.own[0]
		n.own = n.own[1:]
		max--
		n.feedMsg(mi, 0)
	}
}

func vfPeerID(peer int) p2p.ID {
	if peer == 0 {
		return ""
	}
	return p2p.ID(fmt.Sprintf("p%d", peer))
}

// feedMsg describes a message as an op line and hands it to handleMsg.
func (n *vfNode) feedMsg(mi msgInfo, peer int) {
	mi.PeerID = vfPeerID(peer)
	switch m := mi.Msg.(type) {
	case *ProposalMessage:
		p := m.Proposal
		from, sig := n.proposalSigner(p)
		line := fmt.Sprintf("prop from=%d sig=%d h=%d r=%d pol=%d id=%s", from, sig, p.Height, p.Round, p.POLRound, n.idOfBID(p.POLBlockID))
		n.feed(line, func() { n.cs.handleMsg(mi) }, nil)
	case *BlockPartMessage:
		id := "?"
		ok, dec := 0, 0
		if v, found := n.byParts[cmn.BytesToHash(m.Part.Proof.ComputeRootHash())]; found {
			id = fmt.Sprint(v)
			if n.blocks[v].ok(n) {
				ok = 1
			}
			if n.blocks[v].dec {
				dec = 1
			}
		}
		line := fmt.Sprintf("block h=%d id=%s ok=%d dec=%d", m.Height, id, ok, dec)
		n.feed(line, func() { n.cs.handleMsg(mi) }, nil)
	case *VoteMessage:
		v := m.Vote
		n.feedVote(v, peer, n.voteSigOK(v))
	}
}

func (n *vfNode) proposalSigner(p *types.Proposal) (int, int) {
	sb := types.ProposalSignBytes(n.cs.state.ChainID, p.ToProto())
	for i, k := range n.keyOf {
		if types.VerifySignature(crypto.PubkeyToAddress(k.PublicKey), crypto.Keccak256(sb), p.Signature) {
			return i, 1
		}
	}
	return 0, 0
}

func (n *vfNode) voteSigOK(v *types.Vote) bool {
	if int(v.ValidatorIndex) >= len(n.keyOf) {
		return false
	}
	addr := crypto.PubkeyToAddress(n.keyOf[v.ValidatorIndex].PublicKey)
	return v.Verify(n.cs.state.ChainID, addr) == nil
}

func vfT(t kproto.SignedMsgType) string {
	if t == kproto.PrevoteType {
		return "pv"
	}
	return "pc"
}

func (n *vfNode) voteSet(t kproto.SignedMsgType, round uint32) *types.VoteSet {
	if t == kproto.PrevoteType {
		return n.cs.Votes.Prevotes(round)
	}
	return n.cs.Votes.Precommits(round)
}

func (n *vfNode) feedVote(v *types.Vote, peer int, sigok bool) {
	if v.Round > n.maxRound && v.Round < 1000 {
		n.maxRound = v.Round
	}
	s := 0
	if sigok {
		s = 1
	}
	line := fmt.Sprintf("vote peer=%d idx=%d t=%s h=%d r=%d tgt=%s sig=%d", peer, v.ValidatorIndex, vfT(v.Type), v.Height, v.Round, n.idOfBID(v.BlockID), s)
	had := false
	cur := v.Height == n.cs.Height
	if cur && int(v.ValidatorIndex) < len(n.keyOf) {
		if vs := n.voteSet(v.Type, v.Round); vs != nil {
			had = vs.GetByIndex(v.ValidatorIndex) != nil
		}
	}
	h0 := n.cs.Height
	n.feed(line, func() { n.cs.handleMsg(msgInfo{&VoteMessage{v}, vfPeerID(peer)}) }, func() bool {
		if !cur || had || int(v.ValidatorIndex) >= len(n.keyOf) {
			return false
		}
		if n.cs.Height != h0 {
			// the vote completed a commit and the vote sets were replaced; it was added
			return true
		}
		if vs := n.voteSet(v.Type, v.Round); vs != nil {
			return vs.GetByIndex(v.ValidatorIndex) != nil
		}
		return false
	})
}

// ------------------------------------------------------------------ the oracle (property C03, clause by clause)

// tallyFor: power of validators whose canonical vote in vs is exactly for bid (independent of VoteSet's own sums)
func (n *vfNode) tallyFor(vs *types.VoteSet, key string) int64 {
	if vs == nil {
		return 0
	}
	var s int64
	for i := range n.powers {
		if v := vs.GetByIndex(uint32(i)); v != nil && v.BlockID.Key() == key {
			s += n.powers[i]
		}
	}
	return s
}

// polkaOther: is there a value other than `key` with +2/3 prevotes in round r ?
func (n *vfNode) polkaOther(r uint32, key string) bool {
	vs := n.cs.Votes.Prevotes(r)
	if vs == nil {
		return false
	}
	sums := map[string]int64{}
	for i := range n.powers {
		if v := vs.GetByIndex(uint32(i)); v != nil {
			sums[v.BlockID.Key()] += n.powers[i]
		}
	}
	for k, s := range sums {
		if k != key && 3*s > 2*n.total() {
			return true
		}
	}
	return false
}

func (n *vfNode) onSignVote(pv *kproto.Vote) {
	bidp, err := types.BlockIDFromProto(&pv.BlockID)
	if err != nil {
		n.o.Viol("c03/sign-garbage", err.Error())
		return
	}
	v := &types.Vote{Type: pv.Type, Height: pv.Height, Round: pv.Round, BlockID: *bidp, ValidatorIndex: pv.ValidatorIndex}
	cs := n.cs
	n.nSigned++
	n.acts = append(n.acts, fmt.Sprintf("sv:%s:%d:%d:%s", vfT(v.Type), v.Height, v.Round, n.idOfBID(v.BlockID)))
	n.o.Stat("sign:" + vfT(v.Type) + map[bool]string{true: ":nil", false: ":block"}[v.BlockID.IsZero()])
	where := fmt.Sprintf("H=%d R=%d type=%s tgt=%s (node at %d/%d/%d); inputs: %s", v.Height, v.Round, vfT(v.Type), n.idOfBID(v.BlockID), cs.Height, cs.Round, cs.Step, n.tail())
	// (1) at most one vote per height, round, type
	k := fmt.Sprintf("%d/%d/%s", v.Height, v.Round, vfT(v.Type))
	if prev, dup := n.signed[k]; dup {
		n.o.Viol("c03/double-sign-vote", fmt.Sprintf("second signature request for %s: first %s, now %s; %s", k, prev, n.idOfBID(v.BlockID), where))
	}
	n.signed[k] = n.idOfBID(v.BlockID)
	if v.Height != cs.Height {
		n.o.Viol("c03/sign-wrong-height", where)
	}
	if v.Height != n.sigH {
		n.sigH, n.maxSigR = v.Height, 0
	}
	if v.Round < n.maxSigR {
		n.o.Viol("c03/sign-round-regress", where)
	}
	if v.Round > n.maxSigR {
		n.maxSigR = v.Round
	}
	if v.Type == kproto.PrevoteType && cs.LockedBlock != nil {
		if cs.ProposalBlock != nil && cs.ProposalBlock.Hash() != cs.LockedBlock.Hash() {
			n.o.Stat("ev:prevote-locked-against-proposal")
		} else {
			n.o.Stat("ev:prevote-locked")
		}
	}
	if v.Type == kproto.PrecommitType && v.BlockID.IsZero() && cs.ProposalBlock != nil {
		if bid, ok := cs.Votes.Prevotes(v.Round).TwoThirdsMajority(); ok && cs.ProposalBlock.HashesTo(bid.Hash) {
			n.o.Stat("ev:precommit-nil-on-polka-for-invalid-block")
		}
	}
	var vb *vfBlock
	if !v.BlockID.IsZero() {
		id, known := n.byKey[v.BlockID.Key()]
		if !known {
			n.o.Viol("c03/vote-unknown-block", where)
			return
		}
		vb = n.blocks[id]
		// (5) only valid extensions of its own chain
		if !vb.ok(n) {
			n.o.Viol("c03/vote-invalid-block:"+vb.reason, where)
		}
		held := cs.LockedBlock.HashesTo(v.BlockID.Hash) || cs.ProposalBlock.HashesTo(v.BlockID.Hash)
		if !held {
			n.o.Viol("c03/vote-without-block", where)
		} else if vb.block != nil {
			if err := n.mkCold().ValidateBlock(cs.state, vb.block); err != nil {
				n.o.Viol("c03/vote-block-fails-validation", fmt.Sprintf("%v; %s", err, where))
			}
		}
	}
	switch v.Type {
	case kproto.PrecommitType:
		if vb != nil {
			// (2) +2/3 prevotes for that block in that round, in its own vote set, and holding the block
			if s := n.tallyFor(cs.Votes.Prevotes(v.Round), v.BlockID.Key()); !(3*s > 2*n.total()) {
				n.o.Viol("c03/precommit-without-polka", fmt.Sprintf("prevote power for the block %d of %d; %s", s, n.total(), where))
			}
			if !cs.LockedBlock.HashesTo(v.BlockID.Hash) {
				n.o.Viol("c03/precommit-not-locked", where)
			}
			n.ownPC = append(n.ownPC, vfPC{v.Height, v.Round, v.BlockID.Key()})
		}
	case kproto.PrevoteType:
		// (3) lock rule
		for _, pc := range n.ownPC {
			if pc.height == v.Height && pc.round < v.Round && pc.key != v.BlockID.Key() {
				found := false
				for r := pc.round + 1; r <= v.Round; r++ {
					if n.polkaOther(r, pc.key) {
						found = true
						break
					}
				}
				if !found {
					n.o.Viol("c03/lock-rule", fmt.Sprintf("precommitted block %d at round %d, no +2/3 prevotes for anything else in rounds (%d,%d]; %s",
						n.byKey[pc.key], pc.round, pc.round, v.Round, where))
				}
			}
		}
	}
}

func (n *vfNode) onSignProposal(pp *kproto.Proposal) {
	bidp, err := types.BlockIDFromProto(&pp.BlockID)
	if err != nil {
		n.o.Viol("c03/sign-garbage", err.Error())
		return
	}
	p := &types.Proposal{Height: pp.Height, Round: pp.Round, POLRound: pp.PolRound, POLBlockID: *bidp}
	n.nSigned++
	n.acts = append(n.acts, fmt.Sprintf("sp:%d:%d:%d:%s", p.Height, p.Round, p.POLRound, n.idOfBID(p.POLBlockID)))
	n.o.Stat("sign:proposal")
	k := fmt.Sprintf("%d/%d/proposal", p.Height, p.Round)
	if prev, dup := n.signed[k]; dup {
		n.o.Viol("c03/double-sign-proposal", fmt.Sprintf("second proposal for %s: first %s, now %s; inputs: %s", k, prev, n.idOfBID(p.POLBlockID), n.tail()))
	}
	n.signed[k] = n.idOfBID(p.POLBlockID)
	if p.Height != n.cs.Height || p.Round != n.cs.Round {
		n.o.Viol("c03/proposal-wrong-round", fmt.Sprintf("%s while at %d/%d", k, n.cs.Height, n.cs.Round))
	}
}

func (n *vfNode) onCommit(b *types.Block, ps *types.PartSet) {
	cs := n.cs
	bid := types.BlockID{Hash: b.Hash(), PartsHeader: ps.Header()}
	n.acts = append(n.acts, fmt.Sprintf("cm:%d:%s", cs.Height, n.idOfBID(bid)))
	n.o.Stat("commit")
	where := fmt.Sprintf("H=%d block=%s; inputs: %s", cs.Height, n.idOfBID(bid), n.tail())
	// (4) +2/3 precommits for it in a single round of its vote set
	found := false
	for r := uint32(0); r <= n.maxRound+2; r++ {
		if s := n.tallyFor(cs.Votes.Precommits(r), bid.Key()); 3*s > 2*n.total() {
			found = true
		}
	}
	if !found {
		n.o.Viol("c03/commit-without-quorum", where)
	}
	if b.Height() != cs.Height {
		n.o.Viol("c03/commit-wrong-height", where)
	}
	id, known := n.byKey[bid.Key()]
	if !known {
		n.o.Viol("c03/commit-unknown-block", where)
		return
	}
	if !n.blocks[id].ok(n) {
		n.o.Viol("c03/commit-invalid-block:"+n.blocks[id].reason, where)
	}
	if err := n.mkCold().ValidateBlock(cs.state, b); err != nil {
		n.o.Viol("c03/commit-block-fails-validation", fmt.Sprintf("%v; %s", err, where))
	}
	if n.o.viols > 0 {
		n.o.w.Flush() // what follows a bad commit (ApplyBlock, Kill) may not return
	}
}

func (n *vfNode) tail() string {
	l := n.lines
	if len(l) > 14 {
		l = l[len(l)-14:]
	}
	return strings.Join(l, " ; ")
}

// ------------------------------------------------------------------ simulated validators

func (n *vfNode) mkVote(idx int, t kproto.SignedMsgType, h uint64, round uint32, bid types.BlockID) *types.Vote {
	k := n.keyOf[idx%len(n.keyOf)]
	v := &types.Vote{
		ValidatorAddress: crypto.PubkeyToAddress(k.PublicKey),
		ValidatorIndex:   uint32(idx),
		Height:           h,
		Round:            round,
		Timestamp:        ktime.Now(),
		Type:             t,
		BlockID:          bid,
	}
	pv := v.ToProto()
	if err := types.NewDefaultPrivValidator(k).SignVote(n.cs.state.ChainID, pv); err != nil {
		panic(err)
	}
	v.Signature = pv.Signature
	return v
}

func (n *vfNode) mkProposal(from int, h uint64, round, pol uint32, bid types.BlockID, good bool) *types.Proposal {
	p := types.NewProposal(h, round, pol, bid)
	pp := p.ToProto()
	if err := types.NewDefaultPrivValidator(n.keyOf[from]).SignProposal(n.cs.state.ChainID, pp); err != nil {
		panic(err)
	}
	p.Signature = pp.Signature
	if !good {
		s := append([]byte{}, p.Signature...)
		s[7] ^= 0x10
		p.Signature = s
	}
	return p
}

// proposer index of round r at the node's current height (independent of the node's own Validators object)
func (n *vfNode) proposers(st cstate.LatestBlockState, vals *types.ValidatorSet, rounds int) []int {
	vs := vals.Copy()
	out := make([]int, 0, rounds)
	for r := 1; r <= rounds; r++ {
		if r > 1 {
			vs.IncrementProposerPriority(1)
		}
		idx, _ := vs.GetByAddress(vs.GetProposer().Address)
		out = append(out, idx)
	}
	return out
}

const vfRounds = 48

func (n *vfNode) caseLine() string {
	cs := n.cs
	cur := n.proposers(cs.state, cs.state.Validators, vfRounds)
	// validators of the next height: updateState takes state.NextValidators as they are
	nx := cs.state.NextValidators.Copy()
	next := n.proposers(cs.state, nx, vfRounds)
	js := func(a []int) string {
		s := make([]string, len(a))
		for i, x := range a {
			s[i] = fmt.Sprint(x)
		}
		return strings.Join(s, ",")
	}
	pw := make([]string, len(n.powers))
	for i, p := range n.powers {
		pw[i] = fmt.Sprint(p)
	}
	b := func(x bool) int {
		if x {
			return 1
		}
		return 0
	}
	return fmt.Sprintf("case n=%d powers=%s me=%d h=%d wait=%d ei=%d props=%d:%s/%d:%s", len(n.powers), strings.Join(pw, ","), n.me, cs.Height,
		b(n.wait), b(n.ei), cs.Height, js(cur), cs.Height+1, js(next))
}

// others returns the simulated validators in random order
func (n *vfNode) others(r *vfRand) []int {
	var o []int
	for i := range n.keyOf {
		if i != n.me {
			o = append(o, i)
		}
	}
	for i := len(o) - 1; i > 0; i-- {
		j := r.Intn(i + 1)
		o[i], o[j] = o[j], o[i]
	}
	return o
}

func (n *vfNode) bidOf(id int) types.BlockID {
	if id < 0 {
		return types.BlockID{}
	}
	return n.blocks[id].bid
}

// ------------------------------------------------------------------ moves

type vfGen struct {
	n       *vfNode
	r       *vfRand
	history []func()
	delay   bool
	peerSeq int
}

func (g *vfGen) after() {
	if g.delay {
		if g.r.Chance(50) {
			g.n.drainOwn(1 + g.r.Intn(3))
		}
	} else {
		g.n.drainOwn(-1)
	}
}

func (g *vfGen) do(f func()) {
	if g.n.halted {
		return
	}
	f()
	g.history = append(g.history, f)
	g.after()
}

func (g *vfGen) peer() int { return 1 + g.r.Intn(3) }

func (g *vfGen) pickRound() uint32 {
	R := g.n.cs.Round
	switch g.r.Intn(20) {
	case 0:
		return 0
	case 1, 2:
		if R > 1 {
			return R - 1
		}
		return R
	case 3, 4:
		return R + 1
	case 5:
		return R + 2 + uint32(g.r.Intn(3))
	case 6:
		if g.n.cs.LockedRound > 0 {
			return g.n.cs.LockedRound
		}
		return R
	case 7:
		if R > 1 {
			return 1 + uint32(g.r.Intn(int(R)))
		}
		return R
	default:
		return R
	}
}

// pickTarget returns a block id (-1 = nil)
func (g *vfGen) pickTarget() int {
	n := g.n
	cs := n.cs
	known := func(b *types.Block) int {
		if b != nil {
			if id, ok := n.byHash[b.Hash()]; ok {
				return id
			}
		}
		return -2
	}
	switch g.r.Intn(12) {
	case 0, 1:
		return -1
	case 2:
		if id := known(cs.LockedBlock); id >= 0 {
			return id
		}
	case 3:
		if len(n.blocks) > 0 {
			return g.r.Intn(len(n.blocks))
		}
	case 4:
		if g.r.Chance(40) {
			return n.registerFake(g.r).id
		}
	case 5:
		if id := known(cs.ValidBlock); id >= 0 {
			return id
		}
	}
	if cs.Proposal != nil {
		if id, ok := n.byKey[cs.Proposal.POLBlockID.Key()]; ok {
			return id
		}
	}
	if id := known(cs.ProposalBlock); id >= 0 {
		return id
	}
	if len(n.blocks) > 0 {
		return g.r.Intn(len(n.blocks))
	}
	return -1
}

func (g *vfGen) mvTimeout() {
	n := g.n
	if len(n.pending) == 0 {
		return
	}
	ti := n.pending[len(n.pending)-1]
	if g.r.Chance(30) {
		ti = n.pending[g.r.Intn(len(n.pending))]
	}
	g.do(func() {
		n.feed(fmt.Sprintf("tmo h=%d r=%d s=%d", ti.Height, ti.Round, ti.Step), func() { n.cs.handleTimeout(ti, n.cs.RoundState) }, nil)
	})
	g.n.o.Stat("mv:timeout")
}

func (g *vfGen) mvProposal(kind string, withBlock bool) {
	n := g.n
	cs := n.cs
	h, round := cs.Height, cs.Round
	switch g.r.Intn(16) {
	case 0:
		round++
	case 1:
		if round > 1 {
			round--
		}
	case 2:
		h++
	}
	props := n.proposers(cs.state, cs.state.Validators, int(round)+1)
	from := props[0]
	if int(round) >= 1 && int(round) <= len(props) {
		from = props[round-1]
	}
	if g.r.Chance(8) {
		from = g.r.Intn(len(n.keyOf))
	}
	good := !g.r.Chance(7)
	var vb *vfBlock
	pol := uint32(0)
	if len(n.blocks) > 0 && g.r.Chance(30) {
		// re-propose something known, possibly with a POL round
		vb = n.blocks[g.r.Intn(len(n.blocks))]
		if g.r.Chance(70) {
			if round > 1 {
				pol = 1 + uint32(g.r.Intn(int(round)-1+1))
				if pol >= round && g.r.Chance(80) {
					pol = round - 1
				}
			}
			if cs.ValidRound > 0 && g.r.Chance(50) {
				pol = cs.ValidRound
			}
		}
	} else {
		vb = n.newBlock(g.r, kind)
		if g.r.Chance(6) {
			pol = g.pickRound()
		}
	}
	p := n.mkProposal(from, h, round, pol, vb.bid, good)
	peer := g.peer()
	g.do(func() { n.feedMsg(msgInfo{&ProposalMessage{p}, ""}, peer) })
	g.n.o.Stat("mv:proposal")
	if withBlock && vb.block != nil {
		g.mvBlock(vb.id)
	}
}

func (g *vfGen) mvBlock(id int) {
	n := g.n
	if id < 0 {
		// prefer the block the node is waiting for
		if n.cs.ProposalBlockParts != nil && g.r.Chance(75) {
			if v, ok := n.byParts[n.cs.ProposalBlockParts.Header().Hash]; ok {
				id = v
			}
		}
		if id < 0 {
			if len(n.blocks) == 0 {
				return
			}
			id = g.r.Intn(len(n.blocks))
		}
	}
	vb := n.blocks[id]
	if vb.block == nil || vb.parts.Total() != 1 {
		return
	}
	h := n.cs.Height
	if g.r.Chance(4) {
		h++
	}
	msg := &BlockPartMessage{Height: h, Round: n.cs.Round, Part: vb.parts.GetPart(0)}
	peer := g.peer()
	g.do(func() { n.feedMsg(msgInfo{msg, ""}, peer) })
	g.n.o.Stat("mv:block")
}

func (g *vfGen) mvVote(idx int, t kproto.SignedMsgType, h uint64, round uint32, target int, good bool, peer int) {
	n := g.n
	v := n.mkVote(idx, t, h, round, n.bidOf(target))
	if !good {
		switch g.r.Intn(3) {
		case 0:
			s := append([]byte{}, v.Signature...)
			s[3] ^= 0x08
			v.Signature = s
		case 1:
			v.ValidatorIndex = uint32((idx + 1) % len(n.keyOf)) // address of another validator
		default:
			v.ValidatorIndex = uint32(len(n.keyOf) + g.r.Intn(3))
		}
	}
	ok := good
	g.do(func() { n.feedVote(v, peer, ok && n.voteSigOK(v)) })
}

func (g *vfGen) mvSingleVote() {
	n := g.n
	o := n.others(g.r)
	idx := o[0]
	t := kproto.PrevoteType
	if g.r.Chance(40) {
		t = kproto.PrecommitType
	}
	h := n.cs.Height
	switch g.r.Intn(25) {
	case 0:
		h++
	case 1:
		if h > 1 {
			h--
		}
	}
	round := g.pickRound()
	if round == 0 && t == kproto.PrecommitType {
		round = n.cs.Round
	}
	g.mvVote(idx, t, h, round, g.pickTarget(), !g.r.Chance(8), g.peer())
	g.n.o.Stat("mv:vote")
}

// mvQuorum delivers votes of one type/round/target from several simulated validators
func (g *vfGen) mvQuorum(t kproto.SignedMsgType, round uint32, target int, all bool) {
	n := g.n
	o := n.others(g.r)
	cnt := len(o)
	if !all {
		// stop somewhere around the threshold
		cnt = 1 + g.r.Intn(len(o))
	}
	peer := g.peer()
	if round > n.cs.Round+1 {
		g.peerSeq++
		peer = 10 + g.peerSeq // a fresh peer has catch-up rounds left
	}
	h := n.cs.Height
	for i := 0; i < cnt && !n.halted && n.cs.Height == h; i++ {
		tg := target
		if g.r.Chance(5) {
			tg = g.pickTarget()
		}
		g.mvVote(o[i], t, h, round, tg, true, peer)
	}
	g.n.o.Stat("mv:quorum:" + vfT(t))
}

func (g *vfGen) mvReplay() {
	if len(g.history) == 0 {
		return
	}
	f := g.history[g.r.Intn(len(g.history))]
	if g.n.halted {
		return
	}
	f()
	g.after()
	g.n.o.Stat("mv:replay")
}

// lockedMove: moves that matter while the node is locked (lock rule, unlock, relock)
func (g *vfGen) lockedMove() {
	n := g.n
	cs := n.cs
	r := g.r
	lockedID := -1
	if id, ok := n.byHash[cs.LockedBlock.Hash()]; ok {
		lockedID = id
	}
	other := func() int {
		for try := 0; try < 4; try++ {
			if t := g.pickTarget(); t != lockedID {
				return t
			}
		}
		return -1
	}
	switch r.Intn(7) {
	case 6: // relock walk: two or more rounds past the lock round, a polka for the locked block in a
		// round whose proposal the node does not hold (it relocks after the prevote wait), then the
		// delayed polka for something else of a round strictly between the two, then a new round
		// with another proposal: the lock of the later round must hold
		for i := 0; i < 3 && cs.LockedBlock != nil && cs.Round < cs.LockedRound+2 && !n.halted; i++ {
			g.mvQuorum(kproto.PrecommitType, cs.Round, -1, true)
			g.mvTimeout()
		}
		if cs.LockedBlock == nil || cs.Round < cs.LockedRound+2 || n.halted {
			break
		}
		lr, h := cs.LockedRound, cs.Height
		g.mvQuorum(kproto.PrevoteType, cs.Round, lockedID, true)
		g.mvTimeout()
		if cs.Height != h || cs.Round < lr+2 {
			break
		}
		rr := lr + 1 + uint32(r.Intn(int(cs.Round-lr-1)))
		g.mvQuorum(kproto.PrevoteType, rr, other(), true)
		g.mvQuorum(kproto.PrecommitType, cs.Round, -1, true)
		g.mvTimeout()
		if cs.Height == h {
			g.mvProposal("", true)
		}
		g.n.o.Stat("mv:relock-walk")
	case 0: // leave the round: nil precommits, then the timeout
		g.mvQuorum(kproto.PrecommitType, cs.Round, -1, true)
		g.mvTimeout()
	case 1: // another (valid) proposal in this round
		g.mvProposal("", true)
	case 2: // polka for something else in the current round
		g.mvQuorum(kproto.PrevoteType, cs.Round, other(), true)
	case 3: // late polka for something else from the lock round or an earlier one
		rr := cs.LockedRound
		if r.Bool() && rr > 1 {
			rr--
		}
		g.mvQuorum(kproto.PrevoteType, rr, other(), true)
	case 4: // polka for the locked block
		g.mvQuorum(kproto.PrevoteType, cs.Round, lockedID, true)
	default:
		g.mvTimeout()
	}
	g.n.o.Stat("mv:locked")
}

func (g *vfGen) randomMove() {
	r := g.r
	if g.n.cs.LockedBlock != nil && r.Chance(45) {
		g.lockedMove()
		return
	}
	switch x := r.Intn(100); {
	case x < 24:
		g.mvTimeout()
	case x < 36:
		g.mvProposal("", r.Chance(85))
	case x < 44:
		g.mvProposal(vfKinds[r.Intn(len(vfKinds))], r.Chance(90))
	case x < 52:
		g.mvBlock(-1)
	case x < 70:
		g.mvQuorum(kproto.PrevoteType, g.pickRound(), g.pickTarget(), r.Chance(60))
	case x < 80:
		pr := g.pickRound()
		if pr == 0 {
			pr = g.n.cs.Round // no precommit quorum at round 0 (see notes/C03.md)
		}
		g.mvQuorum(kproto.PrecommitType, pr, g.pickTarget(), r.Chance(60))
	case x < 92:
		g.mvSingleVote()
	default:
		g.mvReplay()
	}
}

// finish drives the node to the next height with a commit for a valid block (the simulated
// validators hold more than 2/3 of the power). Returns false when that is impossible (halted
// node, or the node waits in Commit for a block that does not exist).
func (g *vfGen) finish() bool {
	n := g.n
	cs := n.cs
	h := cs.Height
	g.delay = false
	n.drainOwn(-1)
	for try := 0; try < 3 && !n.halted && cs.Height == h; try++ {
		if cs.Step == cstypes.RoundStepCommit {
			bid, ok := cs.Votes.Precommits(cs.CommitRound).TwoThirdsMajority()
			if !ok {
				return false
			}
			id, known := n.byKey[bid.Key()]
			if !known || n.blocks[id].block == nil || !n.blocks[id].dec {
				return false
			}
			g.mvBlockExact(id)
			continue
		}
		var vb *vfBlock
		for _, b := range n.blocks {
			if b.ok(n) && b.block != nil && g.r.Chance(50) {
				vb = b
			}
		}
		if vb == nil {
			vb = n.newBlock(g.r, "")
			if !vb.okC {
				return false
			}
		}
		round := n.maxRound + 1
		if cs.Round > round {
			round = cs.Round
		}
		g.peerSeq++
		peer := 10 + g.peerSeq
		for _, i := range n.others(g.r) {
			if n.halted || cs.Height != h || cs.Step == cstypes.RoundStepCommit {
				break
			}
			g.mvVote(i, kproto.PrecommitType, h, round, vb.id, true, peer)
		}
		if cs.Height == h && cs.Step == cstypes.RoundStepCommit {
			g.mvBlockExact(vb.id)
		}
	}
	return !n.halted && cs.Height == h+1
}

func (g *vfGen) mvBlockExact(id int) {
	n := g.n
	vb := n.blocks[id]
	msg := &BlockPartMessage{Height: n.cs.Height, Round: n.cs.Round, Part: vb.parts.GetPart(0)}
	g.do(func() { n.feedMsg(msgInfo{msg, ""}, 1) })
}

// sameHeaderVariant: block with the header of vb (same block hash) whose LastCommit names another
// block id. Commit.Hash covers the signatures only, so the header does not change (defect F8:
// BlockExecutor.ValidateBlock caches its verdict by header hash).
func (n *vfNode) sameHeaderVariant(r *vfRand, vb *vfBlock) *vfBlock {
	c := vb.block.LastCommit()
	commit := types.NewCommit(c.Height, c.Round,
		types.BlockID{Hash: cmn.BytesToHash(r.Bytes(32)), PartsHeader: c.BlockID.PartsHeader}, c.Signatures)
	b := types.NewBlock(vb.block.Header(), nil, commit, vb.block.Evidence().Evidence, trie.NewStackTrie(nil))
	ps := b.MakePartSet(types.BlockPartSizeBytes)
	return n.register(b, ps, false, true, "lastcommit-id")
}

// f8 is an oracle-only script (no op lines): a valid block is proposed and validated in round 1,
// nobody commits; in round 2 the proposer offers the same header with an altered LastCommit.
func (g *vfGen) f8() {
	n := g.n
	cs := n.cs
	props := n.proposers(cs.state, cs.state.Validators, 3)
	if cs.Height == cs.state.InitialHeight || props[0] == n.me || props[1] == n.me || len(n.pending) == 0 {
		return
	}
	n.o.Stat("f8-script")
	h := cs.Height
	fire := func() {
		ti := n.pending[len(n.pending)-1]
		g.do(func() {
			n.feed(fmt.Sprintf("tmo h=%d r=%d s=%d", ti.Height, ti.Round, ti.Step), func() { n.cs.handleTimeout(ti, n.cs.RoundState) }, nil)
		})
	}
	fire() // NewHeight -> round 1
	good := n.newBlock(g.r, "")
	if !good.okC || cs.Round != 1 {
		return
	}
	p1 := n.mkProposal(props[0], h, 1, 0, good.bid, true)
	g.do(func() { n.feedMsg(msgInfo{&ProposalMessage{p1}, ""}, 1) })
	g.mvBlockExact(good.id)
	for _, i := range n.others(g.r) {
		g.mvVote(i, kproto.PrevoteType, h, 1, -1, true, 1)
	}
	for _, i := range n.others(g.r) {
		g.mvVote(i, kproto.PrecommitType, h, 1, -1, true, 1)
	}
	fire() // PrecommitWait -> round 2
	if cs.Round != 2 || cs.Height != h || n.halted {
		return
	}
	bad := n.sameHeaderVariant(g.r, good)
	p2 := n.mkProposal(props[1], h, 2, 0, bad.bid, true)
	g.do(func() { n.feedMsg(msgInfo{&ProposalMessage{p2}, ""}, 1) })
	g.mvBlockExact(bad.id)
	for _, i := range n.others(g.r) {
		g.mvVote(i, kproto.PrevoteType, h, 2, bad.id, true, 1)
	}
	for _, i := range n.others(g.r) {
		if cs.Height != h || n.halted {
			break
		}
		g.mvVote(i, kproto.PrecommitType, h, 2, bad.id, true, 1)
	}
}

// ------------------------------------------------------------------ directed scripts (model-tied)

// fireLast delivers the most recently scheduled timeout
func (g *vfGen) fireLast() bool {
	n := g.n
	if len(n.pending) == 0 || n.halted {
		return false
	}
	ti := n.pending[len(n.pending)-1]
	g.do(func() {
		n.feed(fmt.Sprintf("tmo h=%d r=%d s=%d", ti.Height, ti.Round, ti.Step), func() { n.cs.handleTimeout(ti, n.cs.RoundState) }, nil)
	})
	return true
}

// quorumOf returns how many of the validators o (in this order) are needed so that their power,
// plus base, exceeds two thirds of the total
func (n *vfNode) quorumOf(o []int, base int64) int {
	sum := base
	for k, i := range o {
		sum += n.powers[i]
		if sum*3 > n.total()*2 {
			return k + 1
		}
	}
	return len(o) + 1
}

// f36: the unlock site of enterNewRound (stale lock after a round skip).  Proposal X in round 1 and
// enough prevotes for X: the node locks X@1 and precommits it.  Then, while the node is still in
// round 1, the complete prevote quorum of a later round r2 for another block Y (or nil): the vote
// that completes the polka is also the one that gives +2/3 any, so the node skips to r2 - the
// repaired enterNewRound releases the lock there (addVote's test needed vote.Round <= cs.Round).
// Then +2/3-any prevotes of r3 > r2 (skip again, the node never prevotes in r2) and the Propose
// timeout of r3: the repaired node prevotes nil, the old one its stale lock X.
func (g *vfGen) f36() bool {
	n := g.n
	cs := n.cs
	r := g.r
	h := cs.Height
	if !g.fireLast() || cs.Round != 1 || cs.Height != h || n.halted { // NewHeight -> round 1
		return false
	}
	props := n.proposers(cs.state, cs.state.Validators, 1)
	if props[0] == n.me {
		return false
	}
	x := n.newBlock(r, "")
	if !x.okC || x.block == nil {
		return false
	}
	p1 := n.mkProposal(props[0], h, 1, 0, x.bid, true)
	g.do(func() { n.feedMsg(msgInfo{&ProposalMessage{p1}, ""}, 1) })
	g.mvBlockExact(x.id) // the node prevotes X; its own vote is fed back
	o := n.others(r)
	for k, q := 0, n.quorumOf(o, n.powers[n.me]); k < q && k < len(o); k++ {
		g.mvVote(o[k], kproto.PrevoteType, h, 1, x.id, true, 1)
	}
	if cs.LockedBlock == nil || cs.LockedRound != 1 || cs.Round != 1 || cs.Height != h || n.halted {
		n.o.Stat("f36:no-lock")
		return false
	}
	// the polka of r2 while the node is in round 1
	r2 := uint32(2 + r.Intn(2))
	target := -1 // nil polka
	if r.Chance(70) {
		y := n.newBlock(r, "")
		target = y.id
	}
	g.peerSeq++
	peer := 10 + g.peerSeq
	o = n.others(r)
	for k, q := 0, n.quorumOf(o, 0); k < q && k < len(o); k++ {
		g.mvVote(o[k], kproto.PrevoteType, h, r2, target, true, peer)
	}
	if cs.Round != r2 || cs.Height != h || n.halted {
		n.o.Stat("f36:no-skip")
		return false
	}
	if cs.LockedBlock == nil {
		n.o.Stat("f36:released-at-skip")
	} else {
		n.o.Stat("f36:lock-kept-at-skip")
	}
	// +2/3 any of r3: skip again before the node prevotes in r2
	r3 := r2 + 1 + uint32(r.Intn(2))
	g.peerSeq++
	peer = 10 + g.peerSeq
	o = n.others(r)
	for k, q := 0, n.quorumOf(o, 0); k < q && k < len(o); k++ {
		tg := target
		if k == q-1 || r.Chance(30) {
			tg = -1
			if target == -1 {
				tg = x.id
			}
		}
		g.mvVote(o[k], kproto.PrevoteType, h, r3, tg, true, peer)
	}
	if cs.Round != r3 || cs.Height != h || n.halted {
		n.o.Stat("f36:no-second-skip")
		return false
	}
	g.fireLast() // Propose timeout of r3: the node prevotes
	if cs.LockedBlock == nil {
		n.o.Stat("f36:released")
	} else {
		n.o.Stat("f36:stale-lock")
	}
	return true
}

// f37: the commit step is absorbing.  +2/3 precommits for a block the node does not hold: it enters
// the commit step and waits for the block.  Then +2/3-any prevotes of a later round and / or a
// +2/3 nil-precommit majority of a later round (the two triggers that used to pull the node into a
// new round), then the block: the repaired node has stayed in the commit step and commits.
func (g *vfGen) f37() bool {
	n := g.n
	cs := n.cs
	r := g.r
	h := cs.Height
	if !g.fireLast() || cs.Round != 1 || cs.Height != h || n.halted { // NewHeight -> round 1
		return false
	}
	b := n.newBlock(r, "")
	if !b.okC || b.block == nil {
		return false
	}
	cr := uint32(1 + r.Intn(2))
	g.peerSeq++
	peer := 10 + g.peerSeq
	o := n.others(r)
	for k := 0; k < len(o) && cs.Step != cstypes.RoundStepCommit && cs.Height == h && !n.halted; k++ {
		g.mvVote(o[k], kproto.PrecommitType, h, cr, b.id, true, peer)
	}
	if cs.Step != cstypes.RoundStepCommit || cs.Height != h || n.halted {
		n.o.Stat("f37:no-commit-step")
		return false
	}
	kind := r.Intn(3)
	if kind != 1 { // +2/3 any prevotes of a later round
		pr := cs.Round + 1 + uint32(r.Intn(2))
		g.peerSeq++
		peer = 10 + g.peerSeq
		o = n.others(r)
		for k, q := 0, n.quorumOf(o, 0); k < q && k < len(o) && cs.Height == h && !n.halted; k++ {
			tg := -1
			if r.Chance(50) {
				tg = b.id
			}
			g.mvVote(o[k], kproto.PrevoteType, h, pr, tg, true, peer)
		}
	}
	if kind != 0 && cs.Height == h && !n.halted { // a +2/3 nil precommit majority of a later round
		pr := cs.Round + 1
		g.peerSeq++
		peer = 10 + g.peerSeq
		o = n.others(r)
		for k, q := 0, n.quorumOf(o, 0); k < q && k < len(o) && cs.Height == h && !n.halted; k++ {
			g.mvVote(o[k], kproto.PrecommitType, h, pr, -1, true, peer)
		}
	}
	if cs.Height != h || n.halted {
		return false
	}
	if cs.Step == cstypes.RoundStepCommit {
		n.o.Stat("f37:stayed")
	} else {
		n.o.Stat("f37:left-commit-step")
	}
	g.mvBlockExact(b.id)
	if cs.Height == h+1 {
		n.o.Stat("f37:committed")
	} else {
		n.o.Stat("f37:commit-forgotten")
	}
	return true
}

// ------------------------------------------------------------------ the test

func TestVerifC03(t *testing.T) {
	log.Root().SetHandler(log.DiscardHandler())
	// finalizeCommit answers an ApplyBlock error with cmn.Kill() (SIGTERM to the own process);
	// the check kills runaway shards with SIGKILL, so ignoring SIGTERM here is safe.
	signal.Ignore(syscall.SIGTERM)
	o := vfOpen()
	defer o.Close()
	seed := vfSeed()
	cases := vfN(100)
	worlds := []*vfWorld{vfMkWorld([]int{15, 15, 15, 15})}
	// second world (5 equal validators: +2/3 needs 4 of 5) for the directed scripts only
	world5 := vfMkWorld([]int{15, 15, 15, 15, 15})
	var n *vfNode
	age := 0
	for i := 0; i < cases; i++ {
		r := vfFork(seed, uint64(i))
		directed := ""
		switch i % 40 {
		case 7:
			directed = "f36"
		case 27:
			directed = "f37"
		}
		if directed != "" {
			// fresh node without transaction wait; not the proposer of round 1
			w := worlds[0]
			if r.Chance(35) {
				w = world5
			}
			me := r.Intn(len(w.keys))
			n = vfMkNode(t, o, w, me, false, false)
			if n.proposers(n.cs.state, n.cs.state.Validators, 1)[0] == n.me {
				n = vfMkNode(t, o, w, (me+1)%len(w.keys), false, false)
			}
			age = 0
			o.Stat("node-built")
		} else if n == nil || n.halted || n.dirty || age >= 30 {
			w := worlds[r.Intn(len(worlds))]
			wait, ei := false, false
			switch r.Intn(10) {
			case 0, 1:
				wait, ei = true, true
			case 2:
				wait, ei = true, false
			}
			n = vfMkNode(t, o, w, r.Intn(len(w.keys)), wait, ei)
			age = 0
			o.Stat("node-built")
		}
		age++
		n.resetCase()
		n.own = nil
		// only the NewHeight timeout of this height is still pending
		var keep []timeoutInfo
		for _, ti := range n.pending {
			if ti.Height == n.cs.Height {
				keep = append(keep, ti)
			}
		}
		n.pending = keep
		n.caseH = n.cs.Height
		cl := n.caseLine()
		n.lines = append(n.lines, cl)
		g := &vfGen{n: n, r: r, delay: r.Chance(25)}
		if i%40 == 17 {
			// oracle-only script for defect F8; the node is rebuilt afterwards
			n.quiet = true
			g.delay = false
			g.f8()
			n.halted = true
			o.Case(strings.Join(n.lines, "\n"), n.nSigned > 0)
			continue
		}
		o.Op("cs", cl, "| "+n.obs(false))
		h0 := n.cs.Height
		moves := 4 + r.Intn(36)
		if r.Chance(10) {
			moves = 60
		}
		if directed != "" {
			// model-tied directed prefix, then the usual walk; the node is rebuilt afterwards
			g.delay = false
			ok := false
			if directed == "f36" {
				ok = g.f36()
			} else {
				ok = g.f37()
			}
			if ok {
				o.Stat("directed:" + directed)
			} else {
				o.Stat("directed-aborted:" + directed)
			}
			moves = r.Intn(8)
			n.dirty = true
		}
		for m := 0; m < moves && !n.halted && n.cs.Height == h0 && n.cs.Round < 30 && n.maxRound < 36; m++ {
			g.randomMove()
		}
		if !n.halted && n.cs.Height == h0 {
			if g.finish() {
				o.Stat("finished-by-harness")
			} else {
				o.Stat("stuck")
				n.halted = true
			}
		} else if !n.halted {
			o.Stat("committed-in-walk")
			n.drainOwn(-1)
			if r.Chance(25) {
				// carry on into the next height for a few moves (the node is rebuilt afterwards)
				o.Stat("next-height-tail")
				h1 := n.cs.Height
				for m := 1 + r.Intn(8); m > 0 && !n.halted && n.cs.Height == h1; m-- {
					g.randomMove()
				}
				n.drainOwn(-1)
			}
		}
		o.Stat(fmt.Sprintf("rounds:%d", vfMin(int(n.maxSigR), 6)))
		o.Case(strings.Join(n.lines, "\n"), n.nSigned > 0)
		if i < 3 {
			o.Sample(strings.Join(n.lines, " ; "))
		}
	}
}

func vfMin(a, b int) int {
	if a < b {
		return a
	}
	return b
}
