package consensus

// C06 harness (b): block execution is deterministic.
//
// A network of REAL nodes (vfsim_test.go: real BlockChain, BlockOperations, BlockExecutor, tx pool,
// staking genesis), all correct, synchronous schedule.  For 2..4 heights the harness generates a
// batch of transactions — plain transfers, contract creations and calls (small hand-assembled
// bytecode: counters with logs, storage writes and deletes, revert, self-destruct, infinite loop),
// staking-contract calls that change validator powers (delegate / undelegateWithAmount), and
// failing / skipped transactions (nonce too low / too high, replayed transaction, insufficient
// balance, intrinsic gas too low, gas limit above what is left in the block) — which reach the
// block either through every node's tx pool (the proposer's real CreateProposalBlock picks them)
// or, to get transactions a pool would refuse, by replacing the transaction list of the block the
// real CreateProposalBlock built (header, last commit, evidence are the proposer's).
//
// Oracle (from the property text):
//   (i)  proposer path vs receiver path: every block a proposer builds is validated at once by
//        every other node (`proposer-block-rejected`), nobody prevotes nil, and after the height is
//        decided the application hash, stored BlockInfo (receipts with status / gas / logs / bloom,
//        gas used, rewards), the validators returned by CommitAndValidateBlockTxs and the resulting
//        LatestBlockState coincide on all nodes (`exec-differs-across-nodes`);
//   (ii) the same blocks are re-executed (SaveBlock + BlockExecutor.ApplyBlock) on FRESH chains
//        under several cache configurations (default = snapshots on; snapshots off; archive mode
//        TrieDirtyDisabled; preimages on; no clean cache + no prefetch), each >= 3 times in this
//        process (Go randomises every map instance), and must give the same digests
//        (`exec-differs-across-configs`).
// This is differential testing of the real code against itself; no Lean model is involved here.

import (
	"crypto/ecdsa"
	"encoding/binary"
	"fmt"
	"math/big"
	"sort"
	"strings"
	"testing"
	"time"

	"github.com/kardiachain/go-kardia/configs"
	"github.com/kardiachain/go-kardia/kai/kaidb"
	"github.com/kardiachain/go-kardia/kai/kaidb/memorydb"
	"github.com/kardiachain/go-kardia/kai/rawdb"
	"github.com/kardiachain/go-kardia/kai/state/cstate"
	"github.com/kardiachain/go-kardia/kvm"
	"github.com/kardiachain/go-kardia/kai/accounts/abi"
	"github.com/kardiachain/go-kardia/lib/common"
	"github.com/kardiachain/go-kardia/lib/crypto"
	"github.com/kardiachain/go-kardia/lib/log"
	"github.com/kardiachain/go-kardia/lib/rlp"
	"github.com/kardiachain/go-kardia/mainchain/blockchain"
	"github.com/kardiachain/go-kardia/mainchain/genesis"
	"github.com/kardiachain/go-kardia/mainchain/staking"
	stypes "github.com/kardiachain/go-kardia/mainchain/staking/types"
	"github.com/kardiachain/go-kardia/mainchain/tx_pool"
	kproto "github.com/kardiachain/go-kardia/proto/kardiachain/types"
	"github.com/kardiachain/go-kardia/trie"
	"github.com/kardiachain/go-kardia/types"
	"github.com/kardiachain/go-kardia/types/evidence"
)

// ---- a BlockOperations that records what execution returned and lets the harness choose the
// transactions of a proposed block

type c06Ret struct {
	vals string
	root common.Hash
	err  string
}

type c06BO struct {
	*blockchain.BlockOperations
	inject  func(height uint64) ([]*types.Transaction, bool)
	onBlock func(height uint64, blk *types.Block)
	ret     map[uint64][]c06Ret
}

func (b *c06BO) CreateProposalBlock(height uint64, st cstate.LatestBlockState, proposer common.Address, commit *types.Commit) (*types.Block, *types.PartSet) {
	blk, ps := b.BlockOperations.CreateProposalBlock(height, st, proposer, commit)
	if b.inject != nil {
		if txs, ok := b.inject(height); ok {
			blk = types.NewBlock(blk.Header(), txs, blk.LastCommit(), blk.Evidence().Evidence, trie.NewStackTrie(nil))
			ps = blk.MakePartSet(types.BlockPartSizeBytes)
		}
	}
	if b.onBlock != nil {
		b.onBlock(height, blk)
	}
	return blk, ps
}

func c06ValsText(vals []*types.Validator) string {
	// the order in which the application reports validators is part of what is compared
	parts := make([]string, len(vals))
	for i, v := range vals {
		parts[i] = fmt.Sprintf("%x:%d", v.Address[:4], v.VotingPower)
	}
	return strings.Join(parts, ",")
}

func (b *c06BO) CommitAndValidateBlockTxs(block *types.Block, lc stypes.LastCommitInfo, byz []stypes.Evidence) ([]*types.Validator, common.Hash, error) {
	vals, root, err := b.BlockOperations.CommitAndValidateBlockTxs(block, lc, byz)
	r := c06Ret{vals: c06ValsText(vals), root: root}
	if err != nil {
		r.err = err.Error()
	}
	b.ret[block.Height()] = append(b.ret[block.Height()], r)
	return vals, root, err
}

type c06Node struct {
	*vfNode
	wbo  *c06BO
	exec *cstate.BlockExecutor
	eb   *types.EventBus
}

// c06MkNode is vfMkNodeOnDB with a cache configuration and the recording BlockOperations.
func c06MkNode(g *genesis.Genesis, key *ecdsa.PrivateKey, idx int, db kaidb.Database, cc *blockchain.CacheConfig) (*c06Node, error) {
	bc, err := blockchain.NewBlockChain(db, cc, g)
	if err != nil {
		return nil, err
	}
	stateStore := cstate.NewStore(db)
	evPool, err := evidence.NewPool(stateStore, db, bc)
	if err != nil {
		return nil, err
	}
	txPool := tx_pool.NewTxPool(tx_pool.TxPoolConfig{GlobalSlots: 256, GlobalQueue: 256}, g.Config, bc)
	st, _ := staking.NewSmcStakingUtil()
	logger := log.New()
	bo := blockchain.NewBlockOperations(logger, bc, txPool, evPool, st)
	wbo := &c06BO{BlockOperations: bo, ret: map[uint64][]c06Ret{}}
	blockExec := cstate.NewBlockExecutor(stateStore, logger, evPool, wbo)
	state, err := stateStore.LoadStateFromDBOrGenesisDoc(g)
	if err != nil {
		return nil, err
	}
	cfg := configs.TestConsensusConfig()
	cfg.IsCreateEmptyBlocks = true
	cs := NewConsensusState(logger, cfg, state, wbo, blockExec, evPool)
	pv := &vfPV{PrivValidator: types.NewDefaultPrivValidator(key)}
	cs.SetPrivValidator(pv)
	eb := types.NewEventBus()
	eb.Start()
	cs.SetEventBus(eb)
	tk := &vfTicker{}
	cs.timeoutTicker = tk
	n := &vfNode{idx: idx, cs: cs, ticker: tk, bo: bo, bc: bc, db: db, pv: pv, evpool: evPool, store: stateStore, txpool: txPool}
	return &c06Node{vfNode: n, wbo: wbo, exec: blockExec, eb: eb}, nil
}

func (n *c06Node) close() {
	defer func() { recover() }()
	n.txpool.Stop()
	n.eb.Stop()
	n.bc.Stop()
}

// ---- digests

func c06SetText(vs *types.ValidatorSet) string {
	if vs == nil {
		return "nil"
	}
	var sb strings.Builder
	for _, v := range vs.Validators {
		fmt.Fprintf(&sb, "%x:%d:%d,", v.Address[:4], v.VotingPower, v.ProposerPriority)
	}
	p := "nil"
	if vs.Proposer != nil {
		p = fmt.Sprintf("%x", vs.Proposer.Address[:4])
	}
	return sb.String() + "P=" + p
}

func c06StateText(s cstate.LatestBlockState) string {
	return fmt.Sprintf("h=%d id=%s time=%d app=%x chg=%d next=[%s] vals=[%s] last=[%s] totaltx=%d",
		s.LastBlockHeight, vfBlockKey(s.LastBlockID), s.LastBlockTime.UnixNano(), s.AppHash[:], s.LastHeightValidatorsChanged,
		c06SetText(s.NextValidators), c06SetText(s.Validators), c06SetText(s.LastValidators), s.LastBlockTotalTx)
}

// the stored BlockInfo as written by WriteBlockInfo.  (rawdb.ReadBlockInfo cannot be used: it
// derives per-transaction fields and returns nil as soon as the block has a skipped transaction —
// receipt count != transaction count — or no transaction at all.)
func c06ReadInfo(db kaidb.Database, hash common.Hash, h uint64) *types.BlockInfo {
	key := append([]byte("i"), make([]byte, 8)...)
	binary.BigEndian.PutUint64(key[1:], h)
	key = append(key, hash.Bytes()...)
	data, _ := db.Get(key)
	if len(data) == 0 {
		return nil
	}
	bi := &types.BlockInfo{}
	if err := rlp.DecodeBytes(data, bi); err != nil {
		return nil
	}
	return bi
}

func c06InfoText(bi *types.BlockInfo) string {
	if bi == nil {
		return "no-blockinfo"
	}
	var sb strings.Builder
	rew := "nil"
	if bi.Rewards != nil {
		rew = bi.Rewards.String()
	}
	fmt.Fprintf(&sb, "gas=%d rewards=%s bloom=%x n=%d", bi.GasUsed, rew, crypto.Keccak256(bi.Bloom[:])[:6], len(bi.Receipts))
	for _, rc := range bi.Receipts {
		fmt.Fprintf(&sb, " {tx=%x st=%d cum=%d gas=%d ca=%x post=%x bloom=%x logs=", rc.TxHash[:4], rc.Status, rc.CumulativeGasUsed, rc.GasUsed,
			rc.ContractAddress[:4], rc.PostState, crypto.Keccak256(rc.Bloom[:])[:4])
		for _, l := range rc.Logs {
			fmt.Fprintf(&sb, "[%x", l.Address[:4])
			for _, t := range l.Topics {
				fmt.Fprintf(&sb, " %x", t[:])
			}
			fmt.Fprintf(&sb, " %x]", []byte(l.Data))
		}
		sb.WriteString("}")
	}
	return sb.String()
}

// digest of what node n computed for height h (after it applied the block); st = resulting state
func c06Digest(n *c06Node, h uint64, st cstate.LatestBlockState) map[string]string {
	d := map[string]string{}
	blk := n.bo.LoadBlock(h)
	if blk == nil {
		d["block"] = "missing"
		return d
	}
	d["block"] = fmt.Sprintf("%x ntx=%d", blk.Hash().Bytes(), len(blk.Transactions()))
	d["apphash"] = fmt.Sprintf("%x", rawdb.ReadAppHash(n.db, h).Bytes())
	d["blockinfo"] = c06InfoText(c06ReadInfo(n.db, blk.Hash(), h))
	rets := n.wbo.ret[h]
	if len(rets) == 0 {
		d["returned"] = "none"
	} else {
		r := rets[len(rets)-1]
		d["returned"] = fmt.Sprintf("calls=%d vals=%s root=%x err=%s", len(rets), r.vals, r.root.Bytes(), r.err)
	}
	d["state"] = c06StateText(st)
	// a few reads through the node's own state reader (snapshot / trie caches as configured)
	if sdb, err := n.bc.StateAt(h); err == nil {
		var sb strings.Builder
		for _, tx := range blk.Transactions() {
			if from, err := types.Sender(types.MakeSigner(n.bc.Config(), &h), tx); err == nil {
				fmt.Fprintf(&sb, "%x:n%d:b%s;", from[:3], sdb.GetNonce(from), sdb.GetBalance(from))
			}
			if to := tx.To(); to != nil {
				fmt.Fprintf(&sb, "%x:b%s:c%d:s%x;", to[:3], sdb.GetBalance(*to), len(sdb.GetCode(*to)), sdb.GetState(*to, common.Hash{}).Bytes()[28:])
			}
		}
		d["reads"] = sb.String()
	} else {
		d["reads"] = "state-unavailable: " + err.Error()
	}
	return d
}

func c06DiffKeys(a, b map[string]string) []string {
	var ks []string
	for k, v := range a {
		if b[k] != v {
			ks = append(ks, k)
		}
	}
	for k := range b {
		if _, ok := a[k]; !ok {
			ks = append(ks, k)
		}
	}
	sort.Strings(ks)
	return ks
}

func c06Short(s string) string {
	if len(s) > 260 {
		return s[:260] + "..."
	}
	return s
}

// ---- bytecode

// init code returning `runtime`; with ctorStore the constructor also writes slot 7
func c06Init(runtime []byte, ctorStore bool) []byte {
	var code []byte
	off := byte(11)
	if ctorStore {
		code = append(code, 0x60, 0x2a, 0x60, 0x07, 0x55) // sstore(7, 42)
		off += 5
	}
	code = append(code, 0x60, byte(len(runtime)), 0x80, 0x60, off, 0x60, 0x00, 0x39, 0x60, 0x00, 0xf3)
	return append(code, runtime...)
}

var c06Runtimes = [][]byte{
	// 0 counter: slot0++, log0(slot0)
	{0x60, 0x00, 0x54, 0x60, 0x01, 0x01, 0x80, 0x60, 0x00, 0x55, 0x60, 0x00, 0x52, 0x60, 0x20, 0x60, 0x00, 0xa0, 0x00},
	// 1 store: sstore(calldata[32:64], calldata[0:32]) (value 0 deletes), log1(topic = key)
	{0x60, 0x00, 0x35, 0x60, 0x20, 0x35, 0x55, 0x60, 0x20, 0x35, 0x60, 0x00, 0x60, 0x00, 0xa1, 0x00},
	// 2 revert
	{0x60, 0x00, 0x60, 0x00, 0xfd},
	// 3 selfdestruct(caller)
	{0x33, 0xff},
	// 4 infinite loop
	{0x5b, 0x60, 0x00, 0x56},
	// 5 four stores of calldata[0:32] at slots 1..4 and slot0 := caller
	{0x60, 0x00, 0x35, 0x60, 0x01, 0x55, 0x60, 0x00, 0x35, 0x60, 0x02, 0x55, 0x60, 0x00, 0x35, 0x60, 0x03, 0x55, 0x60, 0x00, 0x35, 0x60, 0x04, 0x55, 0x33, 0x60, 0x00, 0x55, 0x00},
	// 6 balance forwarder: send callvalue/2 to address in calldata[0:32] (CALL), store result in slot0
	{0x60, 0x00, 0x60, 0x00, 0x60, 0x00, 0x60, 0x00, 0x60, 0x02, 0x34, 0x04, 0x60, 0x00, 0x35, 0x61, 0xff, 0xff, 0xf1, 0x60, 0x00, 0x55, 0x00},
	// 7 poke and revert: CALL(address in calldata[0:32], value = callvalue), then REVERT: whatever the
	// inner call created or touched is rolled back by the journal
	{0x60, 0x00, 0x60, 0x00, 0x60, 0x00, 0x60, 0x00, 0x34, 0x60, 0x00, 0x35, 0x61, 0xff, 0xff, 0xf1, 0x50, 0x60, 0x00, 0x60, 0x00, 0xfd},
}

// ---- transaction generator

type c06Gen struct {
	r         *vfRand
	keys      []*ecdsa.PrivateKey
	addrs     []common.Address
	users     []common.Address
	contracts []common.Address
	valSmc    []common.Address
	valAbi    *abi.ABI
	signer    types.Signer
	nonce     map[int]uint64
	dStore    common.Address
	dKill     common.Address
	dPoke     common.Address
	made      []*types.Transaction
	kinds     map[string]int
}

func (g *c06Gen) sign(k int, tx *types.Transaction) *types.Transaction {
	s, err := types.SignTx(g.signer, tx, g.keys[k])
	if err != nil {
		panic(err)
	}
	return s
}

func c06Word(x uint64) []byte {
	b := make([]byte, 32)
	new(big.Int).SetUint64(x).FillBytes(b)
	return b
}

var c06KAI = new(big.Int).Exp(big.NewInt(10), big.NewInt(18), nil)

// one transaction; `invalid` allows the kinds a tx pool would refuse
func (g *c06Gen) one(invalid, stakingOK bool) *types.Transaction {
	r := g.r
	k := r.Intn(len(g.keys))
	price := big.NewInt(int64(1 + r.Intn(3)))
	nonce := g.nonce[k]
	use := func(kind string, tx *types.Transaction, consumes bool) *types.Transaction {
		if consumes {
			g.nonce[k] = nonce + 1
		}
		g.kinds[kind]++
		stx := g.sign(k, tx)
		g.made = append(g.made, stx)
		return stx
	}
	anyAddr := func() common.Address {
		switch r.Intn(3) {
		case 0:
			return g.addrs[r.Intn(len(g.addrs))]
		case 1:
			if len(g.contracts) > 0 {
				return g.contracts[r.Intn(len(g.contracts))]
			}
		}
		return g.users[r.Intn(len(g.users))]
	}
	x := r.Intn(100)
	switch {
	case x < 8:
		// a call of a precompiled contract (1..9), some with too little gas for it: the frame
		// runs out of gas and is reverted (0x03 is the journal's "touched then reverted" special
		// case: a dirty address without a state object)
		to := common.BytesToAddress([]byte{byte(r.Pick(3, 3, 3, 1, 2, 4, 5, 9))})
		data := r.Bytes(r.Pick(0, 0, 0, 1, 32, 64, 100))
		dgas := uint64(0)
		for _, c := range data {
			if c == 0 {
				dgas += 4
			} else {
				dgas += 68
			}
		}
		gas := 21000 + dgas + uint64(r.Pick(0, 50, 100, 599, 600, 720, 3000, 100000))
		val := big.NewInt(int64(r.Pick(0, 0, 0, 1)))
		return use(fmt.Sprintf("precompile.%d", to[19]), types.NewTransaction(nonce, to, val, gas, price, data), true)
	case x < 25:
		amt := new(big.Int).SetUint64(r.U64() >> uint(r.Intn(60)))
		return use("transfer", types.NewTransaction(nonce, anyAddr(), amt, 21000+uint64(r.Intn(3))*10000, price, nil), true)
	case x < 40:
		rt := r.Intn(len(c06Runtimes))
		code := c06Init(c06Runtimes[rt], r.Bool())
		gas := uint64(r.Pick(300000, 300000, 120000, 60000)) // the small ones run out of gas in the constructor / code deposit
		val := big.NewInt(int64(r.Pick(0, 0, 1000)))
		g.contracts = append(g.contracts, crypto.CreateAddress(g.addrs[k], nonce))
		return use(fmt.Sprintf("create.rt%d", rt), types.NewContractCreation(nonce, val, gas, price, code), true)
	case x < 65:
		if len(g.contracts) == 0 {
			return use("transfer", types.NewTransaction(nonce, anyAddr(), big.NewInt(1), 21000, price, nil), true)
		}
		to := g.contracts[r.Intn(len(g.contracts))]
		var data []byte
		switch r.Intn(4) {
		case 0:
			data = append(c06Word(uint64(r.Intn(3))), c06Word(uint64(r.Intn(4)))...) // value 0..2 (0 deletes) at key 0..3
		case 1:
			data = append(c06Word(r.U64()), c06Word(uint64(r.Intn(4)))...)
		case 2:
			data = common.LeftPadBytes(anyAddr().Bytes(), 32)
		}
		gas := uint64(r.Pick(200000, 200000, 100000, 45000, 25000))
		val := big.NewInt(int64(r.Pick(0, 0, 0, 500, 100000)))
		return use("call", types.NewTransaction(nonce, to, val, gas, price, data), true)
	case x < 80:
		if !stakingOK || len(g.valSmc) == 0 {
			return use("transfer", types.NewTransaction(nonce, anyAddr(), big.NewInt(7), 21000, price, nil), true)
		}
		v := r.Intn(len(g.valSmc))
		switch r.Intn(4) {
		case 0, 1: // delegate 1..4 million KAI: the validator's power grows
			data, _ := g.valAbi.Pack("delegate")
			amt := new(big.Int).Mul(big.NewInt(int64(1+r.Intn(4))*1000000), c06KAI)
			return use("staking.delegate", types.NewTransaction(nonce, g.valSmc[v], amt, 5000000, price, data), true)
		case 2: // undelegate part of what this key has (its own validator when v == k)
			data, _ := g.valAbi.Pack("undelegateWithAmount", new(big.Int).Mul(big.NewInt(int64(1+r.Intn(3))*1000000), c06KAI))
			return use("staking.undelegate-amount", types.NewTransaction(nonce, g.valSmc[v], big.NewInt(0), 5000000, price, data), true)
		default:
			data, _ := g.valAbi.Pack("undelegate")
			return use("staking.undelegate-all", types.NewTransaction(nonce, g.valSmc[v], big.NewInt(0), 5000000, price, data), true)
		}
	default:
		if !invalid {
			return use("transfer", types.NewTransaction(nonce, anyAddr(), big.NewInt(3), 21000, price, nil), true)
		}
		switch r.Intn(7) {
		case 0:
			if nonce > 0 {
				return use("bad.nonce-low", types.NewTransaction(nonce-1, anyAddr(), big.NewInt(1), 21000, price, nil), false)
			}
			fallthrough
		case 1:
			return use("bad.nonce-high", types.NewTransaction(nonce+1+uint64(r.Intn(3)), anyAddr(), big.NewInt(1), 21000, price, nil), false)
		case 2:
			huge, _ := new(big.Int).SetString("5000000000000000000000000000", 10)
			return use("bad.insufficient-funds", types.NewTransaction(nonce, anyAddr(), huge, 21000, price, nil), false)
		case 3:
			return use("bad.intrinsic-gas", types.NewTransaction(nonce, anyAddr(), big.NewInt(1), 20000, price, nil), false)
		case 4:
			return use("bad.gas-limit", types.NewTransaction(nonce, anyAddr(), big.NewInt(1), configs.BlockGasLimit-uint64(r.Intn(20000)), price, nil), false)
		case 5:
			if len(g.made) > 0 {
				g.kinds["bad.replayed"]++
				return g.made[r.Intn(len(g.made))]
			}
			fallthrough
		default: // a call whose value cannot be paid after the gas is bought
			bal, _ := new(big.Int).SetString("999999999999999999999999999", 10)
			return use("bad.value-after-gas", types.NewTransaction(nonce, anyAddr(), bal, 21000, price, nil), false)
		}
	}
}

// directed life cycles (in half of the cases), so that every run contains a storage slot that is
// written, deleted and written again in three successive blocks, and a contract that is created,
// self-destructed and its address funded again: the places where a stale cache / snapshot layer
// or a forgotten trie deletion would show.
func (g *c06Gen) directed(h uint64) []*types.Transaction {
	k := 0
	price := big.NewInt(1)
	var out []*types.Transaction
	add := func(kind string, tx *types.Transaction) {
		g.nonce[k]++
		g.kinds[kind]++
		stx := g.sign(k, tx)
		g.made = append(g.made, stx)
		out = append(out, stx)
	}
	set := func(v uint64) {
		add("directed.store", types.NewTransaction(g.nonce[k], g.dStore, big.NewInt(0), 200000, price, append(c06Word(v), c06Word(0)...)))
	}
	switch h {
	case 1:
		g.dStore = crypto.CreateAddress(g.addrs[k], g.nonce[k])
		add("directed.create", types.NewContractCreation(g.nonce[k], big.NewInt(0), 300000, price, c06Init(c06Runtimes[1], true)))
		g.dKill = crypto.CreateAddress(g.addrs[k], g.nonce[k])
		add("directed.create", types.NewContractCreation(g.nonce[k], big.NewInt(1000), 300000, price, c06Init(c06Runtimes[3], true)))
		g.dPoke = crypto.CreateAddress(g.addrs[k], g.nonce[k])
		add("directed.create", types.NewContractCreation(g.nonce[k], big.NewInt(0), 300000, price, c06Init(c06Runtimes[7], true)))
		g.contracts = append(g.contracts, g.dStore, g.dKill, g.dPoke)
		set(5)
	case 2:
		set(0)
		add("directed.selfdestruct", types.NewTransaction(g.nonce[k], g.dKill, big.NewInt(0), 100000, price, nil))
		// same block, later transaction: the dead address is re-created (value transfer) inside a frame
		// that is then reverted; the destruct mark of the earlier transaction must survive the revert
		add("directed.poke-dead-and-revert", types.NewTransaction(g.nonce[k], g.dPoke, big.NewInt(5), 200000, price, common.LeftPadBytes(g.dKill.Bytes(), 32)))
	case 3:
		set(7)
		add("directed.refund-dead", types.NewTransaction(g.nonce[k], g.dKill, big.NewInt(12345), 30000, price, nil))
	case 4:
		set(0)
	}
	return out
}

// ---- cache configurations for the re-execution

type c06Cfg struct {
	name string
	cc   *blockchain.CacheConfig
}

func c06Configs() []c06Cfg {
	return []c06Cfg{
		{"default", nil},
		{"nosnap", &blockchain.CacheConfig{TrieCleanLimit: 256, TrieDirtyLimit: 256, SnapshotLimit: 0}},
		{"archive", &blockchain.CacheConfig{TrieCleanLimit: 256, TrieDirtyLimit: 256, TrieDirtyDisabled: true, SnapshotLimit: 256, SnapshotWait: true}},
		{"preimages", &blockchain.CacheConfig{TrieCleanLimit: 256, TrieDirtyLimit: 256, SnapshotLimit: 256, SnapshotWait: true, Preimages: true}},
		{"cold", &blockchain.CacheConfig{TrieCleanLimit: 0, TrieCleanNoPrefetch: true, TrieDirtyLimit: 0, TrieDirtyDisabled: true, SnapshotLimit: 0, Preimages: true}},
	}
}

func TestVerifC06Exec(t *testing.T) {
	log.Root().SetHandler(log.DiscardHandler())
	o := vfOpen()
	defer o.Close()
	seed := vfSeed()
	cases := vfN(6)
	for c := 0; c < cases; c++ {
		if only := vfEnvInt("VERIF_ONLY", -1); only >= 0 && c != only {
			continue
		}
		r := vfFork(seed, uint64(c))
		desc := fmt.Sprintf("seed=%d case=%d", seed, c)
		vfGuard(o, "panic-in-execution", func() string { return desc }, func() { c06ExecCase(t, o, r, c, &desc) })
	}
}

func c06ExecCase(t *testing.T, o *vfOut, r *vfRand, c int, desc *string) {
	nval := r.Pick(4, 4, 5)
	stake := make([]int64, nval)
	for i := range stake {
		stake[i] = 15000000 + int64(r.Intn(4))*1000000
	}
	keys := vfKeys(r, nval)
	heights := 2 + r.Intn(3)
	if vfThorough() {
		heights = 3 + r.Intn(4)
	}
	galaxias := r.Chance(25)
	if galaxias {
		if heights < 4 {
			heights = 4
		}
		o.Stat("case.galaxias-fork-at-2")
		*desc += " galaxias@2"
	}
	*desc += fmt.Sprintf(" n=%d stake=%v heights=%d", nval, stake, heights)

	// ---- the network (all correct), with recording block operations
	net := &vfNet{r: r, keys: keys, byz: map[int]bool{}, valIdx: map[common.Address]int{}, nodeOf: map[int]*vfNode{},
		trace: map[uint64][]vfTraceEv{}, seenEv: map[uint64]map[string]bool{}, blocks: map[uint64]map[string]*vfBlk{},
		allMsgs: map[uint64][]msgInfo{}}
	net.g = vfMkGenesis(keys, stake)
	if galaxias {
		// the Galaxias hard fork at height 2: block 2 swaps the staking contracts' code, from block 3
		// on the proposer pre-executes the pool (newProposalBlock) and the chain-id signer is in force
		cfg := *net.g.Config
		fork := uint64(2)
		cfg.GalaxiasBlock = &fork
		net.g.Config = &cfg
	}
	var nodes []*c06Node
	defer func() {
		for _, n := range nodes {
			n.close()
		}
	}()
	netCfgs := c06Configs()
	for i, k := range keys {
		a := crypto.PubkeyToAddress(k.PublicKey)
		net.addrs = append(net.addrs, a)
		net.valIdx[a] = i
	}
	for i, k := range keys {
		// the live nodes run under different cache configurations too
		n, err := c06MkNode(net.g, k, i, memorydb.New(), netCfgs[i%len(netCfgs)].cc)
		if err != nil {
			t.Fatalf("node construction failed: %v", err)
		}
		nodes = append(nodes, n)
		net.nodes = append(net.nodes, n.vfNode)
		net.nodeOf[i] = n.vfNode
	}
	net.powers = make([]int64, len(keys))
	for _, v := range net.nodes[0].cs.Validators.Validators {
		net.powers[net.valIdx[v.Address]] = v.VotingPower
	}
	for _, n := range net.nodes {
		n.cs.scheduleRound0(&n.cs.RoundState)
	}

	// ---- generator
	g := &c06Gen{r: r, keys: keys, addrs: net.addrs, nonce: map[int]uint64{}, kinds: map[string]int{}}
	for i := 0; i < 5; i++ {
		g.users = append(g.users, common.BytesToAddress(crypto.Keccak256(r.Bytes(8))[:20]))
	}
	g.users = append(g.users, common.BytesToAddress([]byte{9})) // a precompile-range address
	if vu, err := staking.NewSmcValidatorUtil(); err == nil {
		g.valAbi = vu.Abi
		st, _ := staking.NewSmcStakingUtil()
		sdb, _ := nodes[0].bc.State()
		for _, a := range net.addrs {
			smc, err := st.GetValFromOwner(sdb, nodes[0].bc.CurrentBlock().Header(), nodes[0].bc, kvm.Config{}, a)
			if err != nil || smc == (common.Address{}) {
				g.valSmc = nil
				break
			}
			g.valSmc = append(g.valSmc, smc)
		}
	}

	// per height: the transaction list; injected or through the pools
	batches := map[uint64][]*types.Transaction{}
	injected := map[uint64]bool{}
	created := map[uint64][]*types.Block{}
	for _, n := range nodes {
		n := n
		n.wbo.inject = func(h uint64) ([]*types.Transaction, bool) {
			if injected[h] {
				return batches[h], true
			}
			return nil, false
		}
		n.wbo.onBlock = func(h uint64, blk *types.Block) {
			created[h] = append(created[h], blk)
			// receiver path, at once: every other node validates the proposer's block
			for _, m := range nodes {
				if m == n || m.cs.state.LastBlockHeight+1 != h {
					continue
				}
				if err := m.exec.ValidateBlock(m.cs.state, blk); err != nil {
					o.Viol("proposer-block-rejected", fmt.Sprintf("%s height=%d proposer=node%d validator=node%d error=%v", *desc, h, n.idx, m.idx, err))
				}
			}
		}
	}

	directed := r.Bool()
	if directed {
		o.Stat("case.directed-lifecycles")
	}
	digests := map[uint64]map[string]string{}
	for h := uint64(1); h <= uint64(heights); h++ {
		// ---- this height's transactions, from the head state every node has
		sdb, err := nodes[0].bc.State()
		if err != nil {
			o.Viol("head-state-unavailable", fmt.Sprintf("%s height=%d %v", *desc, h, err))
			return
		}
		for i, a := range net.addrs {
			g.nonce[i] = sdb.GetNonce(a)
		}
		g.signer = types.MakeSigner(net.g.Config, &h)
		injected[h] = r.Chance(65)
		ntx := r.Pick(0, 3, 6, 10, 16)
		var txs []*types.Transaction
		waitPool := func(n *c06Node) {
			// the pool follows the chain head asynchronously: give it a moment to reach this head
			for w := 0; w < 200 && n.txpool.Nonce(net.addrs[0]) < sdb.GetNonce(net.addrs[0]); w++ {
				time.Sleep(time.Millisecond)
			}
		}
		if !injected[h] {
			waitPool(nodes[0])
		}
		// in pool-fed heights a transaction the pool refuses is dropped (and its nonce given back),
		// so that the rest of the batch stays executable
		offer := func(tx *types.Transaction, undo func()) {
			if !injected[h] {
				if err := nodes[0].txpool.AddLocal(tx); err != nil {
					o.Stat("pool.refused: " + err.Error())
					undo()
					return
				}
			}
			txs = append(txs, tx)
		}
		if directed {
			for _, tx := range g.directed(h) {
				offer(tx, func() {})
			}
		}
		for i := 0; i < ntx; i++ {
			saved := map[int]uint64{}
			for k, v := range g.nonce {
				saved[k] = v
			}
			nm, nc := len(g.made), len(g.contracts)
			offer(g.one(injected[h], true), func() {
				g.nonce = saved
				g.made = g.made[:nm]
				g.contracts = g.contracts[:nc]
			})
		}
		if injected[h] && len(txs) > 1 && r.Chance(30) {
			// an out-of-order block: nonce gaps inside the block make later transactions fail
			i, j := r.Intn(len(txs)), r.Intn(len(txs))
			txs[i], txs[j] = txs[j], txs[i]
			g.kinds["block.swapped-pair"]++
		}
		batches[h] = txs
		if !injected[h] {
			for _, n := range nodes[1:] {
				waitPool(n)
				for _, tx := range txs {
					_ = n.txpool.AddLocal(tx)
				}
			}
			for _, n := range nodes {
				for w := 0; w < 50; w++ {
					if p, _ := n.txpool.Stats(); p >= len(txs) {
						break
					}
					time.Sleep(time.Millisecond)
				}
			}
			o.Stat("height.pool-fed")
		} else {
			o.Stat("height.injected")
		}

		// ---- run the height synchronously
		done := false
		for it := 0; it < 60 && !done; it++ {
			net.deliverToFixpoint()
			done = true
			for _, nd := range net.nodes {
				if nd.bo.Height() < h || nd.cs.state.LastBlockHeight < h {
					done = false
				}
			}
			if done {
				break
			}
			for _, nd := range net.nodes {
				if nd.bo.Height() < h {
					net.fireTimeout(nd, true)
					net.drain()
				}
			}
		}
		if !done {
			detail := ""
			for _, nd := range net.nodes {
				detail += fmt.Sprintf(" [node%d H=%d R=%d step=%d stored=%d applied=%d]", nd.idx, nd.cs.Height, nd.cs.Round, nd.cs.Step, nd.bo.Height(), nd.cs.state.LastBlockHeight)
			}
			o.Viol("height-not-decided", fmt.Sprintf("%s height=%d%s", *desc, h, detail))
			return
		}
		// nobody refused the proposal
		for _, nd := range net.nodes {
			for _, sr := range nd.pv.log {
				if !sr.proposal && sr.h == h && sr.typ == kproto.PrevoteType && sr.blockKey == "" {
					o.Viol("proposer-block-rejected", fmt.Sprintf("%s height=%d node%d prevoted nil in round %d (synchronous run, all validators correct)", *desc, h, nd.idx, sr.r))
				}
			}
		}
		// ---- (i) all nodes computed the same
		var ref map[string]string
		for i, n := range nodes {
			d := c06Digest(n, h, n.cs.state)
			if i == 0 {
				ref = d
				continue
			}
			if ks := c06DiffKeys(ref, d); len(ks) > 0 {
				k := ks[0]
				o.Viol("exec-differs-across-nodes", fmt.Sprintf("%s height=%d fields=%v node%d(%s) %s=%s node%d(%s) %s=%s", *desc, h, ks,
					nodes[0].idx, netCfgs[0].name, k, c06Short(ref[k]), n.idx, netCfgs[i%len(netCfgs)].name, k, c06Short(d[k])))
				return
			}
		}
		if strings.Contains(ref["returned"], "err=") && !strings.HasSuffix(ref["returned"], "err=") {
			o.Stat("height.exec-error")
		}
		digests[h] = ref
		blk := nodes[0].bo.LoadBlock(h)
		if vfEnvInt("VERIF_DEBUG", 0) > 0 {
			fmt.Printf("case %d height %d injected=%v batch=%d created=%d blocktxs=%d returned=%s\n", c, h, injected[h], len(txs), len(created[h]), len(blk.Transactions()), c06Short(ref["returned"]))
		}
		if bi := c06ReadInfo(nodes[0].db, blk.Hash(), h); bi != nil {
			o.StatN("tx.in-blocks", len(blk.Transactions()))
			o.StatN("tx.receipts", len(bi.Receipts))
			o.StatN("tx.skipped", len(blk.Transactions())-len(bi.Receipts))
			for _, rc := range bi.Receipts {
				if rc.Status == 0 {
					o.Stat("tx.receipt-failed")
				}
				if len(rc.Logs) > 0 {
					o.Stat("tx.receipt-with-logs")
				}
			}
		}
		if nodes[0].cs.state.LastHeightValidatorsChanged == h+2 {
			o.Stat("height.validator-set-changed")
		}
	}
	for k, v := range g.kinds {
		o.StatN("gen."+k, v)
	}

	// ---- (ii) the same blocks on fresh chains under every cache configuration, 3 times each
	type blkRec struct {
		blk  *types.Block
		seen *types.Commit
	}
	var chain []blkRec
	for h := uint64(1); h <= uint64(heights); h++ {
		chain = append(chain, blkRec{nodes[0].bo.LoadBlock(h), nodes[0].bo.LoadSeenCommit(h)})
	}
	for _, cfg := range c06Configs() {
		for rep := 0; rep < 3; rep++ {
			bad := func() bool {
				f, err := c06MkNode(net.g, keys[0], 0, memorydb.New(), cfg.cc)
				if err != nil {
					o.Viol("fresh-chain-construction-failed", fmt.Sprintf("%s config=%s %v", *desc, cfg.name, err))
					return true
				}
				defer f.close()
				st := f.cs.state
				for i, br := range chain {
					h := uint64(i + 1)
					ps := br.blk.MakePartSet(types.BlockPartSizeBytes)
					f.bo.SaveBlock(br.blk, ps, br.seen)
					ns, _, err := f.exec.ApplyBlock(st, types.BlockID{Hash: br.blk.Hash(), PartsHeader: ps.Header()}, br.blk)
					if err != nil {
						o.Viol("exec-differs-across-configs", fmt.Sprintf("%s height=%d config=%s run=%d ApplyBlock failed on a block the network committed: %v", *desc, h, cfg.name, rep, err))
						return true
					}
					st = ns
					d := c06Digest(f, h, st)
					if ks := c06DiffKeys(digests[h], d); len(ks) > 0 {
						k := ks[0]
						o.Viol("exec-differs-across-configs", fmt.Sprintf("%s height=%d config=%s run=%d fields=%v network %s=%s fresh %s=%s", *desc, h, cfg.name, rep, ks,
							k, c06Short(digests[h][k]), k, c06Short(d[k])))
						return true
					}
				}
				o.Stat("reexec." + cfg.name)
				return false
			}()
			if bad {
				return
			}
		}
	}
	o.Case(*desc, len(g.made) > 0)
	if c < 2 {
		o.Sample(fmt.Sprintf("%s txs=%d apphash(h=%d)=%s", *desc, len(g.made), heights, digests[uint64(heights)]["apphash"]))
	}
}
