package consensus

// C15 harness: the consensus write-ahead log (WALEncoder / WALDecoder / BaseWAL over an
// autofile.Group / SearchForEndHeight / repairWalFile) against the Lean model `wal`, plus the
// oracle written from the property statement:
//   * what is read back is what was written, in order, across file rotation;
//   * every truncation / bit flip / length edit / garbage suffix ends in EOF or a
//     DataCorruptionError after a prefix of the written messages: never another message, never a
//     panic, never a payload buffer above maxMsgSizeBytes;
//   * SearchForEndHeight finds a marker iff it was written and positions the reader after it;
//   * repairWalFile keeps exactly the longest valid prefix.
// Readers: "g" = autofile.GroupReader on real files, "f" = bytes.Buffer / *os.File,
// "b" = bytes.Reader (they differ in how a short read is reported; Decode uses Read, not ReadFull).

import (
	"bytes"
	"encoding/binary"
	"fmt"
	"hash/crc32"
	"io"
	"os"
	"path/filepath"
	"reflect"
	"runtime"
	"sort"
	"strings"
	"testing"
	"time"

	"github.com/gogo/protobuf/proto"
	cstypes "github.com/kardiachain/go-kardia/consensus/types"
	auto "github.com/kardiachain/go-kardia/lib/autofile"
	"github.com/kardiachain/go-kardia/lib/common"
	"github.com/kardiachain/go-kardia/lib/log"
	"github.com/kardiachain/go-kardia/lib/merkle"
	"github.com/kardiachain/go-kardia/lib/p2p"
	kcons "github.com/kardiachain/go-kardia/proto/kardiachain/consensus"
	kproto "github.com/kardiachain/go-kardia/proto/kardiachain/types"
	"github.com/kardiachain/go-kardia/types"
)

var c15Castagnoli = crc32.MakeTable(crc32.Castagnoli)

// set as soon as the decoder is seen to allocate beyond the limit: from then on the generators stop
// producing multi-gigabyte length fields (the violation is already recorded; do not exhaust memory)
var c15AllocBroken bool

// length-field values for edits
func c15EditLen(r *vfRand, old uint32) uint32 {
	nl := old
	for nl == old {
		nl = uint32(r.Pick(0, 1, int(old)-1, int(old)+1, int(old)*2, maxMsgSizeBytes, maxMsgSizeBytes+1, 0x7fffffff, 0xffffffff, r.Intn(1<<20)))
		if c15AllocBroken && nl > 2*maxMsgSizeBytes {
			nl = 2 * maxMsgSizeBytes
		}
	}
	return nl
}

// one probe with a moderately oversized length field, measured with MemStats
func c15AllocProbe(o *vfOut, id string, l uint32) {
	hdr := make([]byte, 8)
	binary.BigEndian.PutUint32(hdr[4:8], l)
	var ms0, ms1 runtime.MemStats
	runtime.ReadMemStats(&ms0)
	run := c15DecodeAll(bytes.NewReader(append(hdr, 1, 2, 3)))
	runtime.ReadMemStats(&ms1)
	if grown := ms1.TotalAlloc - ms0.TotalAlloc; grown > 4<<20 || run.maxLen > maxMsgSizeBytes {
		c15AllocBroken = true
		o.Viol("C15/alloc-above-limit", fmt.Sprintf("%s length field %d: decoder allocated %d bytes (largest read buffer %d)", id, l, grown, run.maxLen))
	}
}

// ---------------------------------------------------------------- generators

func c15Time(r *vfRand) time.Time {
	switch r.Intn(8) {
	case 0:
		return time.Unix(0, 0).UTC()
	case 1:
		return time.Time{}
	case 2:
		return time.Unix(int64(r.Intn(1<<31)), 0).UTC()
	default:
		return time.Unix(1500000000+int64(r.Intn(500000000)), int64(r.Intn(1000000000))).UTC()
	}
}

func c15U64(r *vfRand) uint64 {
	switch r.Intn(8) {
	case 0:
		return 0
	case 1:
		return 1
	case 2:
		return 1<<63 - 1
	case 3:
		return r.U64() >> 1
	default:
		return uint64(r.Intn(100000))
	}
}

func c15U32(r *vfRand) uint32 {
	switch r.Intn(6) {
	case 0:
		return 0
	case 1:
		return 1<<32 - 1
	case 2:
		return uint32(r.U64())
	default:
		return uint32(r.Intn(10))
	}
}

func c15BlockID(r *vfRand, allowZero bool) types.BlockID {
	if allowZero && r.Chance(30) {
		return types.BlockID{}
	}
	h := r.Bytes(32)
	h[0] |= 1
	ph := r.Bytes(32)
	ph[0] |= 1
	return types.BlockID{Hash: common.BytesToHash(h),
		PartsHeader: types.PartSetHeader{Total: 1 + uint32(r.Intn(40)), Hash: common.BytesToHash(ph)}}
}

func c15Peer(r *vfRand) p2p.ID {
	if r.Chance(40) {
		return "" // internal message
	}
	return p2p.ID(fmt.Sprintf("%x", r.Bytes(20)))
}

// kinds: 0 end-height (height given), 1 round state, 2 timeout, 3 vote, 4 proposal, 5 block part,
// 6 has-vote, 7 new-round-step
func c15GenMsg(r *vfRand, kind int, partMax int) WALMessage {
	switch kind {
	case 1:
		steps := []string{"RoundStepNewHeight", "RoundStepNewRound", "RoundStepPropose", "RoundStepPrevote",
			"RoundStepPrevoteWait", "RoundStepPrecommit", "RoundStepPrecommitWait", "RoundStepCommit", "", "x"}
		return types.EventDataRoundState{Height: c15U64(r), Round: c15U32(r), Step: steps[r.Intn(len(steps))]}
	case 2:
		d := time.Duration(r.Intn(4000)) * time.Millisecond
		if r.Chance(10) {
			d = time.Duration(int64(r.U64()))
		}
		return timeoutInfo{Duration: d, Height: c15U64(r), Round: c15U32(r), Step: cstypes.RoundStepType(r.Intn(256))}
	case 3:
		v := &types.Vote{
			ValidatorAddress: common.BytesToAddress(r.Bytes(20)),
			ValidatorIndex:   c15U32(r),
			Height:           c15U64(r),
			Round:            c15U32(r),
			Timestamp:        c15Time(r),
			Type:             kproto.SignedMsgType(r.Pick(1, 2)),
			BlockID:          c15BlockID(r, true),
			Signature:        r.Bytes(r.Pick(1, 64, 65)),
		}
		return msgInfo{Msg: &VoteMessage{Vote: v}, PeerID: c15Peer(r)}
	case 4:
		p := &types.Proposal{Height: c15U64(r), Round: c15U32(r), POLRound: c15U32(r), Timestamp: c15Time(r),
			POLBlockID: c15BlockID(r, false), Signature: r.Bytes(r.Pick(1, 64, 65))}
		return msgInfo{Msg: &ProposalMessage{Proposal: p}, PeerID: c15Peer(r)}
	case 5:
		n := r.Intn(partMax + 1)
		if partMax > 200 && r.Chance(15) {
			n = r.Pick(0, 1, 4087, 4088, 4096, 40950, 40960, 65536)
			if n > partMax {
				n = partMax
			}
		}
		var bz []byte
		if n > 0 {
			bz = r.Bytes(n)
			if r.Chance(25) { // a payload ending in zeros: the torn-tail case of a plain reader
				for k := len(bz) - 1 - r.Intn(len(bz)); k < len(bz); k++ {
					bz[k] = 0
				}
			}
		}
		var aunts [][]byte
		for k := r.Intn(3); k > 0; k-- {
			aunts = append(aunts, r.Bytes(merkle.Size))
		}
		part := &types.Part{Index: c15U32(r), Bytes: bz,
			Proof: merkle.SimpleProof{Total: c15U64(r), Index: c15U64(r), LeafHash: r.Bytes(merkle.Size), Aunts: aunts}}
		return msgInfo{Msg: &BlockPartMessage{Height: c15U64(r), Round: c15U32(r), Part: part}, PeerID: c15Peer(r)}
	case 6:
		return msgInfo{Msg: &HasVoteMessage{Height: c15U64(r), Round: c15U32(r),
			Type: kproto.SignedMsgType(r.Pick(1, 2)), Index: c15U32(r)}, PeerID: c15Peer(r)}
	case 7:
		return msgInfo{Msg: &NewRoundStepMessage{Height: c15U64(r), Round: c15U32(r), Step: cstypes.RoundStepType(1 + r.Intn(8)),
			SecondsSinceStartTime: uint64(r.Intn(100)), LastCommitRound: c15U32(r)}, PeerID: c15Peer(r)}
	}
	return EndHeightMessage{Height: int64(r.Intn(50))}
}

// ---------------------------------------------------------------- payloads and frames

// the bytes Encode frames (same real functions as the first half of WALEncoder.Encode)
func c15Payload(tm *TimedWALMessage) (bz []byte, err error) {
	defer func() {
		if x := recover(); x != nil {
			err = fmt.Errorf("panic: %v", x)
		}
	}()
	pb, err := WALToProto(tm.Msg)
	if err != nil {
		return nil, err
	}
	pv := kcons.TimedWALMessage{Time: tm.Time, Msg: pb}
	return proto.Marshal(&pv)
}

// what the real payload parser does with p: accepted?, class, re-serialisation
func c15Parse(p []byte) (ok bool, cls string, reser []byte, panicked string) {
	defer func() {
		if x := recover(); x != nil {
			ok = false
			panicked = fmt.Sprint(x)
		}
	}()
	var res kcons.TimedWALMessage
	if err := proto.Unmarshal(p, &res); err != nil {
		return false, "", nil, ""
	}
	m, err := WALFromProto(res.Msg)
	if err != nil {
		return false, "", nil, ""
	}
	cls = "O"
	if e, isEnd := m.(EndHeightMessage); isEnd {
		cls = fmt.Sprintf("E%d", e.Height)
	}
	reser, err = c15Payload(&TimedWALMessage{Time: res.Time, Msg: m})
	if err != nil {
		return true, cls, nil, "reser: " + err.Error()
	}
	return true, cls, reser, ""
}

// the harness's own framing (used to build foreign records and to split files)
func c15Frame(p []byte) []byte {
	b := make([]byte, 8+len(p))
	binary.BigEndian.PutUint32(b[0:4], crc32.Checksum(p, c15Castagnoli))
	binary.BigEndian.PutUint32(b[4:8], uint32(len(p)))
	copy(b[8:], p)
	return b
}

func c15Split(b []byte) (payloads [][]byte, whole bool) {
	for len(b) > 0 {
		if len(b) < 8 {
			return payloads, false
		}
		n := int(binary.BigEndian.Uint32(b[4:8]))
		if 8+n > len(b) {
			return payloads, false
		}
		payloads = append(payloads, b[8:8+n])
		b = b[8+n:]
	}
	return payloads, true
}

func c15Tag(p []byte) string {
	return fmt.Sprintf("%d.%08x", len(p), crc32.Checksum(p, c15Castagnoli))
}

// ---------------------------------------------------------------- running the real decoder

type c15SizeReader struct {
	r      io.Reader
	nread  int // reads since the last Decode call started
	alloc  int // largest payload buffer (third read of a Decode)
	maxLen int // largest buffer of any read
}

func (s *c15SizeReader) Read(p []byte) (int, error) {
	s.nread++
	if s.nread == 3 && len(p) > s.alloc {
		s.alloc = len(p)
	}
	if len(p) > s.maxLen {
		s.maxLen = len(p)
	}
	return s.r.Read(p)
}

type c15Run struct {
	msgs    []*TimedWALMessage
	verdict string
	alloc   int
	maxLen  int
	panic   string
}

func c15DecodeAll(rd io.Reader) (run c15Run) {
	sr := &c15SizeReader{r: rd}
	dec := NewWALDecoder(sr)
	defer func() {
		if x := recover(); x != nil {
			run.panic = fmt.Sprint(x)
			run.verdict = "panic"
		}
		run.alloc, run.maxLen = sr.alloc, sr.maxLen
	}()
	for {
		sr.nread = 0
		m, err := dec.Decode()
		if err == io.EOF {
			run.verdict = "eof"
			return
		}
		if IsDataCorruptionError(err) {
			run.verdict = "corrupt"
			return
		}
		if err != nil {
			run.verdict = "other-error"
			return
		}
		if m == nil {
			run.verdict = "nil-message"
			return
		}
		run.msgs = append(run.msgs, m)
		if len(run.msgs) > 1000000 {
			run.verdict = "endless"
			return
		}
	}
}

func (run *c15Run) tags() []string {
	out := make([]string, len(run.msgs))
	for i, m := range run.msgs {
		p, err := c15Payload(m)
		if err != nil {
			out[i] = "unencodable"
		} else {
			out[i] = c15Tag(p)
		}
	}
	return out
}

func c15Join(tags []string) string {
	if len(tags) == 0 {
		return "-"
	}
	return strings.Join(tags, ",")
}

func (run *c15Run) text() string { return c15Join(run.tags()) + " " + run.verdict }

func (run *c15Run) compact() string {
	v := "?"
	switch run.verdict {
	case "eof":
		v = "e"
	case "corrupt":
		v = "c"
	case "panic":
		v = "P"
	}
	return fmt.Sprintf("%d%s", len(run.msgs), v)
}

// ---------------------------------------------------------------- a case: payload table + oracle

type c15Case struct {
	o       *vfOut
	tab     map[string]bool
	written []*TimedWALMessage // what the log was written from
	pay     [][]byte           // their payloads
	ends    []int              // ends[i] = offset after record i in the flat log
	id      string
}

func c15NewCase(o *vfOut, id string) *c15Case {
	o.Op("wal", fmt.Sprintf("case max=%d", maxMsgSizeBytes), "ok")
	return &c15Case{o: o, tab: map[string]bool{}, id: id}
}

// register a payload that occurs inside a frame of this case: tells the model what the real parser does
func (c *c15Case) addPayload(p []byte) (accepted bool) {
	ok, cls, reser, pan := c15Parse(p)
	if pan != "" {
		c.o.Viol("C15/panic-in-payload-parse", fmt.Sprintf("%s payload=%s: %s", c.id, vfHex(p), pan))
	}
	if !ok || reser == nil {
		return false
	}
	if c.tab[string(p)] {
		return true
	}
	c.tab[string(p)] = true
	q := "="
	if !bytes.Equal(reser, p) {
		q = vfHex(reser)
		c.o.Stat("payload-noncanonical")
	}
	c.o.Op("wal", fmt.Sprintf("tab %s %s %s", vfHex(p), cls, q), "ok")
	return true
}

func c15SameMsg(a, b *TimedWALMessage) bool {
	return a.Time.Equal(b.Time) && reflect.DeepEqual(a.Msg, b.Msg)
}

// oracle: the decoded messages are a prefix of the written ones (content compared field by field)
func (c *c15Case) checkPrefix(run *c15Run, what string, atLeast int, exact int, wantVerdict string) {
	o := c.o
	if run.panic != "" {
		o.Viol("C15/panic-in-decode", fmt.Sprintf("%s %s: %s", c.id, what, run.panic))
		return
	}
	if run.maxLen > maxMsgSizeBytes {
		c15AllocBroken = true
		o.Viol("C15/alloc-above-limit", fmt.Sprintf("%s %s: read buffer of %d bytes > %d", c.id, what, run.maxLen, maxMsgSizeBytes))
	}
	if run.verdict != "eof" && run.verdict != "corrupt" {
		o.Viol("C15/unexpected-error-kind", fmt.Sprintf("%s %s: %s", c.id, what, run.verdict))
	}
	if len(run.msgs) > len(c.written) {
		o.Viol("C15/message-not-written", fmt.Sprintf("%s %s: %d messages decoded, %d written", c.id, what, len(run.msgs), len(c.written)))
		return
	}
	for i, m := range run.msgs {
		if !c15SameMsg(m, c.written[i]) {
			o.Viol("C15/different-message", fmt.Sprintf("%s %s: message %d decoded as %#v, written %#v", c.id, what, i, m.Msg, c.written[i].Msg))
			return
		}
	}
	if len(run.msgs) < atLeast {
		o.Viol("C15/intact-record-lost", fmt.Sprintf("%s %s: %d messages decoded, %d intact records precede the damage", c.id, what, len(run.msgs), atLeast))
	}
	if exact >= 0 && len(run.msgs) != exact {
		o.Viol("C15/damaged-record-accepted", fmt.Sprintf("%s %s: %d messages decoded, expected exactly %d", c.id, what, len(run.msgs), exact))
	}
	if wantVerdict != "" && run.verdict != wantVerdict {
		o.Viol("C15/wrong-verdict", fmt.Sprintf("%s %s: ended with %s, expected %s", c.id, what, run.verdict, wantVerdict))
	}
}

// number of records that end at or before offset t
func (c *c15Case) complete(t int) int {
	return sort.Search(len(c.ends), func(i int) bool { return c.ends[i] > t })
}

// index of the record containing byte offset off
func (c *c15Case) recordOf(off int) int {
	return sort.Search(len(c.ends), func(i int) bool { return c.ends[i] > off })
}

// ---------------------------------------------------------------- files on disk

type c15Disk struct {
	dir  string
	head string
	n    int // number of files (head included)
}

func c15Path(head string, i, n int) string {
	if i == n-1 {
		return head
	}
	return fmt.Sprintf("%s.%03d", head, i)
}

func c15NewDisk(base string, id int, n int) *c15Disk {
	dir := filepath.Join(base, fmt.Sprintf("c%d", id))
	if err := os.MkdirAll(dir, 0700); err != nil {
		panic(err)
	}
	return &c15Disk{dir: dir, head: filepath.Join(dir, "wal"), n: n}
}

func (d *c15Disk) write(files [][]byte) {
	for i, f := range files {
		if err := os.WriteFile(c15Path(d.head, i, d.n), f, 0600); err != nil {
			panic(err)
		}
	}
}

func (d *c15Disk) remove() { os.RemoveAll(d.dir) }

// cut the flat bytes v at the given offsets (clipped to len(v)) into d.n files
func c15Cut(v []byte, cuts []int) [][]byte {
	files := make([][]byte, 0, len(cuts)+1)
	prev := 0
	for _, c := range append(append([]int{}, cuts...), len(v)) {
		if c > len(v) {
			c = len(v)
		}
		if c < prev {
			c = prev
		}
		files = append(files, v[prev:c])
		prev = c
	}
	return files
}

func c15FilesHex(files [][]byte) string {
	parts := make([]string, len(files))
	for i, f := range files {
		parts[i] = vfHex(f)
	}
	return strings.Join(parts, "/")
}

func c15Quiet() log.Logger {
	l := log.New()
	l.SetHandler(log.DiscardHandler())
	return l
}

func c15OpenWAL(head string, opts ...func(*auto.Group)) *BaseWAL {
	wal, err := NewWAL(head, opts...)
	if err != nil {
		panic(err)
	}
	wal.SetLogger(c15Quiet())
	return wal
}

func c15CloseWAL(wal *BaseWAL) {
	wal.group.Close()
	wal.group.Head.Close()
}

func c15ReadGroup(wal *BaseWAL, index int) c15Run {
	gr, err := wal.group.NewReader(index)
	if err != nil {
		return c15Run{verdict: "open-error"}
	}
	defer gr.Close()
	return c15DecodeAll(gr)
}

func c15Search(o *vfOut, id string, wal *BaseWAL, h int64, ign bool) (string, *c15Run) {
	var rd io.ReadCloser
	var found bool
	var err error
	if vfGuard(o, "C15/panic-in-search", func() string { return fmt.Sprintf("%s height=%d ignore=%v", id, h, ign) }, func() {
		rd, found, err = wal.SearchForEndHeight(h, &WALSearchOptions{IgnoreDataCorruptionErrors: ign})
	}) {
		return "panic", nil
	}
	if err != nil {
		if rd != nil {
			rd.Close()
		}
		return "error", nil
	}
	if !found {
		if rd != nil {
			o.Viol("C15/search-reader-without-found", fmt.Sprintf("%s height=%d", id, h))
		}
		return "notfound", nil
	}
	if rd == nil {
		o.Viol("C15/search-found-without-reader", fmt.Sprintf("%s height=%d", id, h))
		return "found", nil
	}
	run := c15DecodeAll(rd)
	rd.Close()
	return "found " + run.text(), &run
}

// ---------------------------------------------------------------- compact exhaustive runs

func c15RLE(toks []string) string {
	var sb strings.Builder
	for i := 0; i < len(toks); {
		j := i
		for j < len(toks) && toks[j] == toks[i] {
			j++
		}
		if sb.Len() > 0 {
			sb.WriteByte(' ')
		}
		fmt.Fprintf(&sb, "%sx%d", toks[i], j-i)
		i = j
	}
	if sb.Len() == 0 {
		return "-"
	}
	return sb.String()
}

func c15Min(a, b int) int {
	if a < b {
		return a
	}
	return b
}

func c15Reader(kind string, v []byte) io.Reader {
	if kind == "b" {
		return bytes.NewReader(v)
	}
	return bytes.NewBuffer(append([]byte{}, v...))
}

// ---------------------------------------------------------------- the test

func TestVerifC15(t *testing.T) {
	o := vfOpen()
	defer o.Close()
	seed := vfSeed()
	n := vfN(40)
	base := ""
	if st, err := os.Stat("/dev/shm"); err == nil && st.IsDir() {
		base, _ = os.MkdirTemp("/dev/shm", "vfc15-")
	}
	if base == "" {
		base = t.TempDir()
	}
	defer os.RemoveAll(base)
	c15AllocProbe(o, "probe", maxMsgSizeBytes+1)
	c15AllocProbe(o, "probe", 24<<20)
	for i := 0; i < n; i++ {
		if c15AllocBroken {
			// the violation is recorded; feeding more damaged length fields to a decoder that
			// allocates whatever they say would only exhaust the machine's memory
			o.Stat("aborted-after-alloc-violation")
			break
		}
		r := vfFork(seed, uint64(i))
		switch {
		case i%8 == 7:
			c15Limits(o, r, i)
		case i%2 == 0:
			c15Small(o, r, i, base)
		default:
			c15Large(o, r, i, base)
		}
	}
}

// write the messages through the real encoder; returns the flat log
func (c *c15Case) encodeAll(msgs []*TimedWALMessage) []byte {
	o := c.o
	var log bytes.Buffer
	enc := NewWALEncoder(&log)
	for _, tm := range msgs {
		p, err := c15Payload(tm)
		if err != nil {
			o.Stat("gen-unencodable")
			continue
		}
		before := log.Len()
		var eerr error
		if vfGuard(o, "C15/panic-in-encode", func() string { return fmt.Sprintf("%s %#v", c.id, tm.Msg) }, func() { eerr = enc.Encode(tm) }) {
			continue
		}
		if eerr != nil {
			o.Op("wal", "enc "+vfHex(p), "toobig")
			o.Stat("encode-refused")
			if len(p) <= maxMsgSizeBytes {
				o.Viol("C15/encode-refused-within-limit", fmt.Sprintf("%s %d bytes: %v", c.id, len(p), eerr))
			}
			log.Truncate(before)
			continue
		}
		rec := log.Bytes()[before:]
		if !c.addPayload(p) {
			// written but not readable back (fails ValidateBasic on the way in): not part of the log
			o.Stat("gen-unreadable")
			log.Truncate(before)
			continue
		}
		// (a) bit-exact framing
		o.Op("wal", "enc "+vfHex(p), vfHex(rec))
		if !bytes.Equal(rec, c15Frame(p)) {
			o.Viol("C15/frame-not-crc-len-data", fmt.Sprintf("%s payload=%s record=%s", c.id, vfHex(p), vfHex(rec)))
		}
		c.written = append(c.written, tm)
		c.pay = append(c.pay, p)
		c.ends = append(c.ends, log.Len())
	}
	return append([]byte{}, log.Bytes()...)
}

func c15KindName(m WALMessage) string {
	switch x := m.(type) {
	case EndHeightMessage:
		return "endheight"
	case types.EventDataRoundState:
		return "roundstate"
	case timeoutInfo:
		return "timeout"
	case msgInfo:
		return strings.TrimPrefix(fmt.Sprintf("%T", x.Msg), "*consensus.")
	}
	return "?"
}

// small logs: every truncation offset and every single-bit flip, through all three readers
func c15Small(o *vfOut, r *vfRand, idx int, base string) {
	id := fmt.Sprintf("small#%d", idx)
	c := c15NewCase(o, id)
	var msgs []*TimedWALMessage
	h := int64(r.Intn(3))
	for k := 1 + r.Intn(5); k > 0; k-- {
		kind := r.Pick(0, 0, 1, 2, 2, 3, 4, 5, 6, 7)
		var m WALMessage
		if kind == 0 {
			m = EndHeightMessage{Height: h}
			h += 1 + int64(r.Intn(2))
		} else {
			m = c15GenMsg(r, kind, 40)
		}
		msgs = append(msgs, &TimedWALMessage{Time: c15Time(r), Msg: m})
	}
	flat := c.encodeAll(msgs)
	for len(flat) > 400 && len(c.written) > 1 { // keep the exhaustive part small
		k := len(c.written) - 1
		c.written, c.pay, c.ends = c.written[:k], c.pay[:k], c.ends[:k]
		flat = flat[:c.ends[k-1]]
	}
	if len(flat) > 400 || len(c.written) == 0 {
		o.Case(id, false)
		o.Stat("small-skipped")
		return
	}
	for _, tm := range c.written {
		o.Stat("kind-" + c15KindName(tm.Msg))
	}
	o.Case(string(flat), true)
	o.Sample(fmt.Sprintf("small log %d records %d bytes: %s", len(c.written), len(flat), vfHex(flat)))
	o.Stat(fmt.Sprintf("small-records-%d", len(c.written)))

	// files for the group reader: cuts at record boundaries (sometimes anywhere, sometimes empty files)
	nfiles := 1 + r.Intn(3)
	cuts := make([]int, 0, nfiles-1)
	aligned := true // every file starts at a record boundary (what rotation guarantees)
	for k := 0; k < nfiles-1; k++ {
		if r.Chance(85) {
			cuts = append(cuts, append([]int{0}, c.ends...)[r.Intn(len(c.ends)+1)])
		} else {
			cut := r.Intn(len(flat) + 1)
			cuts = append(cuts, cut)
			if cut != 0 && (c.complete(cut) == 0 || c.ends[c.complete(cut)-1] != cut) {
				aligned = false
				o.Stat("small-unaligned-files")
			}
		}
	}
	sort.Ints(cuts)
	disk := c15NewDisk(base, idx, nfiles)
	defer disk.remove()
	disk.write(c15Cut(flat, cuts))
	wal := c15OpenWAL(disk.head)
	defer c15CloseWAL(wal)

	readAll := func(kind string, v []byte) c15Run {
		if kind == "g" {
			disk.write(c15Cut(v, cuts))
			return c15ReadGroup(wal, 0)
		}
		return c15DecodeAll(c15Reader(kind, v))
	}

	for _, kind := range []string{"g", "f", "b"} {
		// (b) read back
		run := readAll(kind, flat)
		o.Op("wal", "dec "+kind+" "+vfHex(flat), run.text()+fmt.Sprintf(" a=%d", run.alloc))
		c.checkPrefix(&run, "read-back/"+kind, len(c.written), len(c.written), "eof")

		// (c1) every truncation offset
		toks := make([]string, 0, len(flat)+1)
		for tr := 0; tr <= len(flat); tr++ {
			run := readAll(kind, flat[:tr])
			toks = append(toks, run.compact())
			k := c.complete(tr)
			// a torn record may only "complete" through a plain reader's zero padding
			most := k
			if kind != "g" && k < len(c.ends) {
				prev := 0
				if k > 0 {
					prev = c.ends[k-1]
				}
				if tr > prev+8 && len(bytes.TrimRight(flat[tr:c.ends[k]], "\x00")) == 0 {
					most = k + 1
					o.Stat("trunc-zero-tail-completes")
				}
			}
			want := ""
			if k > 0 && tr == c.ends[k-1] || tr == 0 {
				want = "eof"
			}
			exact := -1
			if most == k {
				exact = k
			}
			c.checkPrefix(&run, fmt.Sprintf("truncate@%d/%s", tr, kind), k, exact, want)
			if len(run.msgs) > most {
				o.Viol("C15/torn-record-accepted", fmt.Sprintf("%s truncate@%d/%s: %d messages", id, tr, kind, len(run.msgs)))
			}
			o.Stat("trunc-" + kind + "-" + run.verdict)
			// F38: a tail torn 1-3 bytes into a record (inside the checksum field). C15's statement
			// allows end-of-log or corruption for a truncation, so no oracle clause here (C05 has
			// it); the model (KV/Model/Wal.lean, `b1 = []`) pins `corrupt` through the
			// correspondence of the truncall line below. Counted to show the inputs are generated.
			if k < len(c.ends) {
				prev := 0
				if k > 0 {
					prev = c.ends[k-1]
				}
				if d := tr - prev; d >= 1 && d <= 3 {
					o.Stat("trunc-" + kind + "-fragment-1to3-" + run.verdict)
				}
			}
		}
		o.Op("wal", "truncall "+kind+" "+vfHex(flat), c15RLE(toks))

		// (c2) every single-bit flip: the damaged record and everything after it must not be returned
		toks = toks[:0]
		v := append([]byte{}, flat...)
		for bit := 0; bit < 8*len(flat); bit++ {
			v[bit/8] ^= 1 << uint(7-bit%8)
			run := readAll(kind, v)
			v[bit/8] ^= 1 << uint(7-bit%8)
			toks = append(toks, run.compact())
			k := c.recordOf(bit / 8)
			c.checkPrefix(&run, fmt.Sprintf("flip-bit@%d/%s", bit, kind), k, k, "corrupt")
		}
		o.Op("wal", "flipall "+kind+" "+vfHex(flat), c15RLE(toks))
		o.StatN("bitflips-"+kind, 8*len(flat))
		o.StatN("truncations-"+kind, len(flat)+1)
	}
	disk.write(c15Cut(flat, cuts))

	// (d) search on the intact small log
	c.searchAll(r, wal, c15Cut(flat, cuts), aligned, 100)
	// (e) repair of a few damaged variants
	for k := 0; k < 6; k++ {
		c.repairOne(r, flat, base, idx*100+k)
	}
}

// heights of the end markers of the written log, and whether they are strictly increasing
func (c *c15Case) markers() (hs []int64, pos []int, increasing bool) {
	increasing = true
	for i, tm := range c.written {
		if e, ok := tm.Msg.(EndHeightMessage); ok {
			if len(hs) > 0 && e.Height <= hs[len(hs)-1] {
				increasing = false
			}
			hs = append(hs, e.Height)
			pos = append(pos, i)
		}
	}
	return
}

// SearchForEndHeight for present and absent heights; `intact` = the files hold exactly c.written
func (c *c15Case) searchAll(r *vfRand, wal *BaseWAL, files [][]byte, intact bool, maxCand int) {
	o := c.o
	hs, pos, inc := c.markers()
	cand := append([]int64{-1, 0, 1, 2, int64(r.Intn(60))}, hs...)
	if len(hs) > 0 {
		cand = append(cand, hs[len(hs)-1]+1, hs[0]-1)
	}
	fh := c15FilesHex(files)
	if len(fh) > 40000 && maxCand > 3 {
		maxCand = 3
	}
	for len(cand) > maxCand { // keep a random subset
		k := r.Intn(len(cand))
		cand = append(cand[:k], cand[k+1:]...)
	}
	for _, h := range cand {
		for _, ign := range []bool{false, true} {
			got, run := c15Search(o, c.id, wal, h, ign)
			o.Op("wal", fmt.Sprintf("search %d %d %s", h, map[bool]int{false: 0, true: 1}[ign], fh), got)
			o.Stat("search-" + strings.SplitN(got, " ", 2)[0])
			if !intact || !inc {
				continue
			}
			// oracle (writer invariant: increasing marker heights)
			at := -1
			for k, x := range hs {
				if x == h {
					at = pos[k]
				}
			}
			if (at >= 0) != (run != nil) {
				o.Viol("C15/search-iff", fmt.Sprintf("%s height=%d ignore=%v written=%v result=%s", c.id, h, ign, at >= 0, strings.SplitN(got, " ", 2)[0]))
				continue
			}
			if run == nil {
				continue
			}
			after := c.written[at+1:]
			if run.verdict != "eof" || len(run.msgs) != len(after) {
				o.Viol("C15/search-position", fmt.Sprintf("%s height=%d ignore=%v: reader yields %d messages then %s, %d follow the marker", c.id, h, ign, len(run.msgs), run.verdict, len(after)))
				continue
			}
			for k, m := range run.msgs {
				if !c15SameMsg(m, after[k]) {
					o.Viol("C15/search-position", fmt.Sprintf("%s height=%d ignore=%v: message %d after the marker differs", c.id, h, ign, k))
					break
				}
			}
		}
	}
}

// damage the flat log (one file), run repairWalFile, compare with the model and with the longest
// valid prefix computed from the known record boundaries
func (c *c15Case) repairOne(r *vfRand, flat []byte, base string, uid int) {
	o := c.o
	v := append([]byte{}, flat...)
	firstBad := len(v)
	how := r.Intn(6)
	switch {
	case how == 0 && len(v) > 0: // truncation
		firstBad = r.Intn(len(v) + 1)
		v = v[:firstBad]
	case how == 1 && len(v) > 0: // bit flip
		bit := r.Intn(8 * len(v))
		v[bit/8] ^= 1 << uint(bit%8)
		firstBad = bit / 8
	case how == 2 && len(v) > 0: // multi-byte damage
		firstBad = r.Intn(len(v))
		for k := firstBad; k < len(v) && k < firstBad+1+r.Intn(16); k++ {
			v[k] ^= byte(1 + r.Intn(255))
		}
	case how == 3 && len(c.ends) > 0: // length-field edit
		k := r.Intn(len(c.ends))
		start := 0
		if k > 0 {
			start = c.ends[k-1]
		}
		nl := c15EditLen(r, binary.BigEndian.Uint32(v[start+4:start+8]))
		binary.BigEndian.PutUint32(v[start+4:start+8], nl)
		firstBad = start + 4
	case how == 4: // garbage suffix
		v = append(v, r.Bytes(1+r.Intn(40))...)
	default: // intact
	}
	dir := filepath.Join(base, fmt.Sprintf("r%d", uid))
	os.MkdirAll(dir, 0700)
	defer os.RemoveAll(dir)
	src, dst := filepath.Join(dir, "wal.CORRUPTED"), filepath.Join(dir, "wal")
	os.WriteFile(src, v, 0600)
	var err error
	if vfGuard(o, "C15/panic-in-repair", func() string { return fmt.Sprintf("%s src=%s", c.id, vfHex(v)) }, func() { err = repairWalFile(src, dst) }) {
		return
	}
	out, _ := os.ReadFile(dst)
	res := "ok "
	if err != nil {
		res = "fail "
	}
	o.Op("wal", "repair "+vfHex(v), res+vfHex(out))
	o.Stat(fmt.Sprintf("repair-how-%d", how))
	// oracle: exactly the records that lie wholly before the first damaged byte ...
	k := c.complete(firstBad)
	if firstBad >= len(flat) {
		k = len(c.ends)
	}
	want := 0
	if k > 0 {
		want = c.ends[k-1]
	}
	// ... plus, for a truncation inside a payload whose lost tail was all zeros, that record (the
	// os.File reader leaves the buffer zero-filled and the checksum matches)
	alt := -1
	if how == 0 && k < len(c.ends) && firstBad > want+8 && len(bytes.TrimRight(flat[firstBad:c.ends[k]], "\x00")) == 0 {
		alt = c.ends[k]
	}
	if err != nil || !(bytes.Equal(out, flat[:want]) || (alt >= 0 && bytes.Equal(out, flat[:alt]))) {
		o.Viol("C15/repair-not-longest-valid-prefix", fmt.Sprintf("%s how=%d firstBad=%d err=%v: kept %d bytes, the valid prefix has %d; src=%s", c.id, how, firstBad, err, len(out), want, vfHex(v)))
	}
	// the repaired file reads back cleanly
	run := c15DecodeAll(bytes.NewReader(out))
	c.checkPrefix(&run, "repaired", 0, -1, "eof")
}

// large logs through a real BaseWAL with rotation; random damage; search; repair
func c15Large(o *vfOut, r *vfRand, idx int, base string) {
	id := fmt.Sprintf("large#%d", idx)
	c := c15NewCase(o, id)
	limit := int64(r.Pick(1, 50, 200, 500, 1000, 3000, 10000, 50000))
	started := idx%16 == 9
	disk := c15NewDisk(base, idx, 1)
	defer disk.remove()
	opts := []func(*auto.Group){auto.GroupHeadSizeLimit(limit)}
	if started {
		opts = append(opts, auto.GroupCheckDuration(time.Millisecond))
	}
	wal := c15OpenWAL(disk.head, opts...)
	closed := false
	defer func() {
		if !closed {
			c15CloseWAL(wal)
		}
	}()
	if started {
		if err := wal.Start(); err != nil { // writes #ENDHEIGHT 0 and starts the rotation ticker
			panic(err)
		}
	}
	partMax := r.Pick(100, 100, 100, 1000, 1000, 5000)
	if r.Chance(4) {
		partMax = 70000
	}
	nmsg := 3 + r.Intn(40)
	if partMax > 5000 {
		nmsg = 3 + r.Intn(8)
	}
	h := int64(r.Intn(2))
	nonMonotone := r.Chance(8)
	var sent []WALMessage
	if started {
		sent = append(sent, EndHeightMessage{Height: 0})
		h = 1
	}
	modelOps := []string{}
	rotated := 0
	t0 := time.Now().Add(-time.Minute) // generous: the check may run on a loaded machine
	for k := 0; k < nmsg; k++ {
		kind := r.Pick(0, 0, 1, 2, 3, 3, 3, 4, 5, 5, 6, 7)
		var m WALMessage
		if kind == 0 {
			m = EndHeightMessage{Height: h}
			h += 1 + int64(r.Intn(2))
			if nonMonotone && r.Chance(30) {
				h = int64(r.Intn(int(h) + 1))
			}
		} else {
			m = c15GenMsg(r, kind, partMax)
		}
		// only messages the decoder accepts again belong in a log (ValidateBasic on the way in)
		if p, err := c15Payload(&TimedWALMessage{Time: time.Unix(1, 0).UTC(), Msg: m}); err != nil {
			continue
		} else if ok, _, _, _ := c15Parse(p); !ok {
			o.Stat("gen-unreadable")
			continue
		}
		var err error
		sync := r.Chance(30)
		vfGuard(o, "C15/panic-in-write", func() string { return fmt.Sprintf("%s %#v", id, m) }, func() {
			if sync {
				err = wal.WriteSync(m)
			} else {
				err = wal.Write(m)
			}
		})
		if err != nil {
			o.Viol("C15/write-failed", fmt.Sprintf("%s %#v: %v", id, m, err))
			continue
		}
		sent = append(sent, m)
		modelOps = append(modelOps, "w")
		if started {
			if r.Chance(40) {
				time.Sleep(time.Duration(200+r.Intn(1500)) * time.Microsecond)
			}
			continue
		}
		// deterministic rotation: what checkHeadSizeLimit does, after a flush
		if r.Chance(60) {
			if err := wal.FlushAndSync(); err != nil {
				panic(err)
			}
			sz, _ := wal.group.Head.Size()
			if sz >= limit {
				wal.group.RotateFile()
				rotated++
			}
			modelOps = append(modelOps, fmt.Sprintf("c%d", rotated))
		}
	}
	if started {
		time.Sleep(3 * time.Millisecond)
		wal.Stop()
		wal.Wait()
		wal.group.Head.Close()
		closed = true
	} else if err := wal.FlushAndSync(); err != nil {
		panic(err)
	}
	t1 := time.Now().Add(time.Minute)

	// read the files back from disk
	ents, _ := os.ReadDir(disk.dir)
	nfiles := 1 // the head; RotateFile does not create a new one, so it may be missing = empty
	for _, e := range ents {
		if e.Name() != "wal" {
			nfiles++
		}
	}
	disk.n = nfiles
	files := make([][]byte, nfiles)
	var flat []byte
	for k := 0; k < nfiles; k++ {
		bz, err := os.ReadFile(c15Path(disk.head, k, nfiles))
		if err != nil && k == nfiles-1 && os.IsNotExist(err) {
			bz, err = []byte{}, nil
			o.Stat("large-head-missing")
		}
		if err != nil {
			o.Viol("C15/group-file-missing", fmt.Sprintf("%s file %d of %d: %v", id, k, nfiles, err))
			return
		}
		files[k] = bz
		// rotation never splits a record
		if _, whole := c15Split(bz); !whole {
			o.Viol("C15/rotation-splits-record", fmt.Sprintf("%s file %d of %d (%d bytes) does not end at a record boundary", id, k, nfiles, len(bz)))
		}
		flat = append(flat, bz...)
	}
	o.Stat(fmt.Sprintf("large-files-%d", c15Min(nfiles, 9)))
	if started {
		o.Stat("large-started")
	}
	pays, whole := c15Split(flat)
	if !whole || len(pays) != len(sent) {
		o.Viol("C15/log-not-the-written-records", fmt.Sprintf("%s: %d records on disk (whole=%v), %d written", id, len(pays), whole, len(sent)))
		return
	}
	// the payloads on disk are the written messages (time = a clock reading during the run)
	off := 0
	for k, p := range pays {
		var res kcons.TimedWALMessage
		var m WALMessage
		err := proto.Unmarshal(p, &res)
		if err == nil {
			m, err = WALFromProto(res.Msg)
		}
		if err != nil || !reflect.DeepEqual(m, sent[k]) || res.Time.Before(t0) || res.Time.After(t1) {
			o.Viol("C15/record-is-not-the-written-message", fmt.Sprintf("%s record %d: %v %#v, written %#v", id, k, err, m, sent[k]))
			return
		}
		c.addPayload(p)
		c.written = append(c.written, &TimedWALMessage{Time: res.Time, Msg: m})
		c.pay = append(c.pay, p)
		off += 8 + len(p)
		c.ends = append(c.ends, off)
		o.Stat("kind-" + c15KindName(m))
	}
	o.Case(fmt.Sprintf("%d/%d/%v", len(flat), nfiles, c15Tag(flat)), len(sent) > 1)
	// (a) bit-exact files against the writer model
	if !started {
		o.Op("wal", "gcase", "ok")
		pi := 0
		for _, op := range modelOps {
			if op == "w" {
				o.Op("wal", "gwrite "+vfHex(pays[pi]), "ok")
				pi++
			} else {
				o.Op("wal", fmt.Sprintf("gcheck %d", limit), op[1:])
			}
		}
	}
	// the real reader and the search need a group that knows the files
	if closed {
		wal = c15OpenWAL(disk.head)
		closed = false
	}
	if got := wal.group.MaxIndex() + 1; got != nfiles {
		o.Viol("C15/group-index", fmt.Sprintf("%s: maxIndex+1=%d, files=%d", id, got, nfiles))
	}
	// (b) read back across the files, from every file index
	for k := 0; k < nfiles; k++ {
		if k > 0 && k < nfiles-1 && !r.Chance(30) {
			continue
		}
		run := c15ReadGroup(wal, k)
		o.Op("wal", fmt.Sprintf("decg %d %s", k, c15FilesHex(files)), run.text())
		if k == 0 {
			c.checkPrefix(&run, "read-back/g", len(c.written), len(c.written), "eof")
		}
	}
	for _, kind := range []string{"f", "b"} {
		run := c15DecodeAll(c15Reader(kind, flat))
		o.Op("wal", "dec "+kind+" "+vfHex(flat), run.text()+fmt.Sprintf(" a=%d", run.alloc))
		c.checkPrefix(&run, "read-back/"+kind, len(c.written), len(c.written), "eof")
	}
	// (d) search on the intact log
	c.searchAll(r, wal, files, true, 12)

	// (c) random damage: multi-byte corruption, length edits, truncation, garbage / foreign records
	rounds := 6
	if len(flat) > 30000 {
		rounds = 2
	}
	for round := 0; round < rounds; round++ {
		v := append([]byte{}, flat...)
		firstBad := len(v)
		exactVerdict := ""
		how := r.Intn(7)
		switch {
		case how == 0 && len(v) > 0:
			firstBad = r.Intn(len(v))
			for k := firstBad; k < len(v) && k < firstBad+1+r.Intn(32); k++ {
				v[k] ^= byte(1 + r.Intn(255))
			}
			exactVerdict = "corrupt"
		case how == 1 && len(v) > 0:
			bit := r.Intn(8 * len(v))
			v[bit/8] ^= 1 << uint(bit%8)
			firstBad = bit / 8
			exactVerdict = "corrupt"
		case how == 2:
			k := r.Intn(len(c.ends))
			start := 0
			if k > 0 {
				start = c.ends[k-1]
			}
			nl := c15EditLen(r, binary.BigEndian.Uint32(v[start+4:start+8]))
			binary.BigEndian.PutUint32(v[start+4:start+8], nl)
			firstBad = start + 4
			exactVerdict = "corrupt"
		case how == 3 && len(v) > 0:
			firstBad = r.Intn(len(v) + 1)
			v = v[:firstBad]
		case how == 4: // garbage suffix
			g := r.Bytes(1 + r.Intn(64))
			if r.Chance(30) {
				g = make([]byte, 1+r.Intn(24)) // zeros (a preallocated tail)
			}
			v = append(v, g...)
		case how == 5: // a well-framed foreign record: valid checksum, payload not a WAL message / not canonical
			var p []byte
			switch r.Intn(3) {
			case 0:
				p = r.Bytes(1 + r.Intn(30))
			case 1:
				p = append(append([]byte{}, c.pay[r.Intn(len(c.pay))]...), 0x78, 0x01) // unknown field 15
			default:
				p = []byte{}
			}
			c.addPayload(p)
			v = append(v, c15Frame(p)...)
			o.Stat("foreign-record")
		default:
			// damage in an older file only (search with / without IgnoreDataCorruptionErrors)
			if nfiles > 1 && len(files[0]) > 0 {
				firstBad = r.Intn(len(files[0]))
				v[firstBad] ^= byte(1 + r.Intn(255))
				exactVerdict = "corrupt"
			}
		}
		// cut as the files were (damage does not move boundaries; a suffix lands in the head)
		cuts := make([]int, 0, nfiles-1)
		acc := 0
		for k := 0; k < nfiles-1; k++ {
			acc += len(files[k])
			cuts = append(cuts, acc)
		}
		dfiles := c15Cut(v, cuts)
		disk.write(dfiles)
		run := c15ReadGroup(wal, 0)
		o.Op("wal", fmt.Sprintf("decg 0 %s", c15FilesHex(dfiles)), run.text())
		o.Stat(fmt.Sprintf("damage-how-%d-%s", how, run.verdict))
		k := c.complete(firstBad)
		if firstBad >= len(flat) {
			k = len(c.ends)
		}
		if how <= 3 || how == 6 {
			exact := k
			c.checkPrefix(&run, fmt.Sprintf("damage-%d@%d/g", how, firstBad), k, exact, exactVerdict)
		} else {
			// suffix: all written messages first; anything further must be a record the harness framed
			if len(run.msgs) < len(c.written) {
				o.Viol("C15/intact-record-lost", fmt.Sprintf("%s suffix-%d: %d of %d messages", id, how, len(run.msgs), len(c.written)))
			} else {
				head := c15Run{msgs: run.msgs[:len(c.written)], verdict: run.verdict, maxLen: run.maxLen, panic: run.panic}
				c.checkPrefix(&head, fmt.Sprintf("suffix-%d/g", how), len(c.written), len(c.written), "")
				if how == 4 && len(run.msgs) > len(c.written) {
					o.Viol("C15/garbage-decoded-as-message", fmt.Sprintf("%s: %d extra messages from a random suffix", id, len(run.msgs)-len(c.written)))
				}
			}
		}
		for _, kind := range []string{"f", "b"} {
			if len(flat) > 30000 && kind == "b" {
				continue
			}
			run := c15DecodeAll(c15Reader(kind, v))
			o.Op("wal", "dec "+kind+" "+vfHex(v), run.text()+fmt.Sprintf(" a=%d", run.alloc))
			if how <= 2 || how == 6 {
				c.checkPrefix(&run, fmt.Sprintf("damage-%d@%d/%s", how, firstBad, kind), k, k, exactVerdict)
			}
		}
		c.searchAll(r, wal, dfiles, false, 3)
	}
	disk.write(files)
	// (e) repair
	if len(flat) < 200000 {
		for k := 0; k < 4; k++ {
			c.repairOne(r, flat, base, idx*100+k)
		}
	}
	if !started {
		o.Op("wal", "gfiles", c15FilesHex(files))
		_ = rotated
	}
}

// hand-made headers around the size limit: rejected before any allocation
func c15Limits(o *vfOut, r *vfRand, idx int) {
	id := fmt.Sprintf("limits#%d", idx)
	c := c15NewCase(o, id)
	p := []byte{}
	tm := &TimedWALMessage{Time: c15Time(r), Msg: EndHeightMessage{Height: int64(r.Intn(9))}}
	flat := c.encodeAll([]*TimedWALMessage{tm})
	lens := []uint32{maxMsgSizeBytes + 1, maxMsgSizeBytes, maxMsgSizeBytes - 1, 0xffffffff, 0x80000000, 0x7fffffff, 48 << 20, 2 * maxMsgSizeBytes, 0, 1, uint32(r.U64())}
	for _, l := range lens {
		if c15AllocBroken && l > 2*maxMsgSizeBytes {
			continue
		}
		hdr := make([]byte, 8)
		binary.BigEndian.PutUint32(hdr[0:4], uint32(r.U64()))
		binary.BigEndian.PutUint32(hdr[4:8], l)
		tail := r.Bytes(r.Intn(20))
		if r.Chance(30) {
			tail = nil
		}
		v := append(append(append([]byte{}, flat...), hdr...), tail...)
		for _, kind := range []string{"f", "b"} {
			var ms0, ms1 runtime.MemStats
			runtime.ReadMemStats(&ms0)
			run := c15DecodeAll(c15Reader(kind, v))
			runtime.ReadMemStats(&ms1)
			o.Op("wal", "dec "+kind+" "+vfHex(v), run.text()+fmt.Sprintf(" a=%d", run.alloc))
			c.checkPrefix(&run, fmt.Sprintf("limit-len-%d/%s", l, kind), 1, 1, "corrupt")
			grown := ms1.TotalAlloc - ms0.TotalAlloc
			if l > maxMsgSizeBytes && grown > 4<<20 {
				c15AllocBroken = true
				o.Viol("C15/alloc-above-limit", fmt.Sprintf("%s length field %d: decoder allocated %d bytes", id, l, grown))
			}
			if l > maxMsgSizeBytes && len(c.pay) == 1 && run.alloc != len(c.pay[0]) {
				o.Viol("C15/alloc-above-limit", fmt.Sprintf("%s length field %d: payload buffer of %d bytes requested", id, l, run.alloc))
			}
			o.Stat("limit-" + run.verdict)
		}
	}
	o.Case(id+vfHex(flat), true)
	// Encode refuses exactly what Decode would refuse: payloads of max-9 … max+1 bytes (a block
	// part sized to hit the target; rare, because each op line is 2 MB)
	if idx%64 == 7 {
		targets := []int{maxMsgSizeBytes - 9, maxMsgSizeBytes - 8, maxMsgSizeBytes - 7, maxMsgSizeBytes - 1, maxMsgSizeBytes, maxMsgSizeBytes + 1}
		first := r.Intn(len(targets))
		for _, target := range []int{targets[first], targets[(first+1+r.Intn(len(targets)-1))%len(targets)]} {
			nb := target - 100
			var btm *TimedWALMessage
			var bp []byte
			var err error
			fill := r.Bytes(maxMsgSizeBytes + 16)
			tstamp := c15Time(r)
			for try := 0; try < 6; try++ {
				big := msgInfo{Msg: &BlockPartMessage{Height: 1, Round: 0, Part: &types.Part{Index: 0, Bytes: fill[:nb],
					Proof: merkle.SimpleProof{LeafHash: fill[:32]}}}, PeerID: ""}
				btm = &TimedWALMessage{Time: tstamp, Msg: big}
				bp, err = c15Payload(btm)
				if err != nil || len(bp) == target {
					break
				}
				nb += target - len(bp)
			}
			if err != nil || len(bp) != target {
				o.Stat("encode-boundary-missed")
				continue
			}
			var out bytes.Buffer
			eerr := NewWALEncoder(&out).Encode(btm)
			res := "toobig"
			if eerr == nil {
				res = vfHex(out.Bytes())
			}
			o.Op("wal", "enc "+vfHex(bp), res)
			if (eerr == nil) != (len(bp) <= maxMsgSizeBytes) {
				o.Viol("C15/encode-size-limit", fmt.Sprintf("%s payload %d bytes, limit %d, err=%v", id, len(bp), maxMsgSizeBytes, eerr))
			}
			if eerr != nil && out.Len() != 0 {
				o.Viol("C15/encode-size-limit", fmt.Sprintf("%s refused record left %d bytes in the stream", id, out.Len()))
			}
			o.Stat(fmt.Sprintf("encode-boundary-max%+d", target-maxMsgSizeBytes))
			// the decoder's side of the same boundary: a full record of that size passes the length
			// check iff it is within the limit (its payload is then rejected later: the part is too
			// big for ValidateBasic) — visible in the size of the buffer it asks for
			if target >= maxMsgSizeBytes-1 {
				rec := c15Frame(bp)
				run := c15DecodeAll(bytes.NewReader(rec))
				o.Op("wal", "dec b "+vfHex(rec), run.text()+fmt.Sprintf(" a=%d", run.alloc))
				wantAlloc := target
				if target > maxMsgSizeBytes {
					wantAlloc = 0
				}
				if run.verdict != "corrupt" || len(run.msgs) != 0 || run.alloc != wantAlloc {
					o.Viol("C15/decode-size-limit", fmt.Sprintf("%s record with a %d byte payload: %d messages, %s, buffer %d (limit %d)", id, target, len(run.msgs), run.verdict, run.alloc, maxMsgSizeBytes))
				}
			}
		}
	}
	_ = p
}
