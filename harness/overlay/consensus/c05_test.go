package consensus

// C05 harness: crash recovery. A validator is run on a RECORDING database (every Put / Delete /
// Batch.Write is one durable event, atomic as a LevelDB batch is assumed to be) and the REAL WAL
// on real files (every Write / WriteSync / FlushAndSync is an event with the logical end offset of
// the log and the offset known to be fsynced). The node is driven through the real
// receiveRoutine, one message per call, so that the write-ahead discipline exercised is the one
// of the code, not of the harness. For EVERY prefix of the totally ordered event log the database
// image and the WAL file image (truncated at the synced offset / at the written offset / inside
// the next record) are rebuilt, the node objects are constructed as mainchain/backend.go does,
// recovery runs (the WAL part of OnStart), the node is driven on, and
//   (a) the Lean model `recovery` predicts (store height, head, consensus-state height, replay
//       verdict) - compared string-equal by the pipeline;
//   (b) the oracle checks the clauses of the property statement directly.

import (
	"bytes"
	"crypto/ecdsa"
	"encoding/binary"
	"fmt"
	"io/ioutil"
	"math/big"
	"os"
	"path/filepath"
	"sort"
	"strings"
	"testing"
	"time"

	"github.com/kardiachain/go-kardia/configs"
	cstypes "github.com/kardiachain/go-kardia/consensus/types"
	"github.com/kardiachain/go-kardia/kai/kaidb"
	"github.com/kardiachain/go-kardia/kai/kaidb/memorydb"
	"github.com/kardiachain/go-kardia/kai/rawdb"
	"github.com/kardiachain/go-kardia/kai/state/cstate"
	"github.com/kardiachain/go-kardia/lib/common"
	"github.com/kardiachain/go-kardia/lib/crypto"
	"github.com/kardiachain/go-kardia/lib/log"
	"github.com/kardiachain/go-kardia/mainchain/blockchain"
	"github.com/kardiachain/go-kardia/mainchain/genesis"
	"github.com/kardiachain/go-kardia/mainchain/staking"
	"github.com/kardiachain/go-kardia/mainchain/tx_pool"
	kproto "github.com/kardiachain/go-kardia/proto/kardiachain/types"
	"github.com/kardiachain/go-kardia/types"
	"github.com/kardiachain/go-kardia/types/evidence"
)

// ---------------------------------------------------------------- the event log

type c05Op struct {
	del  bool
	k, v []byte
}

// c05Ev is one durable event.
type c05Ev struct {
	db   bool
	ops  []c05Op // db event: the writes applied atomically
	kind string  // classification (see c05Classify / wal kinds)
	h    uint64  // height the event belongs to (0 = unknown / none)
	// wal events
	sync    bool  // the event makes everything written so far durable
	wEnd    int64 // logical end offset of the log after the event
	wSynced int64 // offset known durable after the event
	// observation state after the event
	nSigs int // length of the signature log
	nPub  int // number of own messages published (handed to handleMsg by receiveRoutine)
	fedH  uint64 // transactions scheduled for heights <= fedH have been submitted to the pool
	vtyp  kproto.SignedMsgType
	nRot  int // number of WAL group rotations so far
}

// c05Pub is one own message that was handed to handleMsg (= visible to the reactor, gossiped).
type c05Pub struct {
	proposal bool
	h        uint64
	r        uint32
	typ      kproto.SignedMsgType
	blockKey string
	polRound uint32
}

type c05Rec struct {
	evs     []c05Ev
	pub     []c05Pub
	pv      *vfPV
	off     bool // recording suspended
	wEnd    int64
	wSynced int64
	curH    func() uint64
	fedH    uint64
	rot     []int64 // logical offsets at which the WAL group was rotated (file boundaries)
}

func (rc *c05Rec) add(ev c05Ev) {
	if rc == nil || rc.off {
		return
	}
	ev.wEnd, ev.wSynced = rc.wEnd, rc.wSynced
	if rc.pv != nil {
		ev.nSigs = len(rc.pv.log)
	}
	ev.nPub = len(rc.pub)
	ev.fedH = rc.fedH
	ev.nRot = len(rc.rot)
	rc.evs = append(rc.evs, ev)
}

// ---------------------------------------------------------------- recording database

type c05DB struct {
	*memorydb.Database
	rc *c05Rec
}

func c05cp(b []byte) []byte { return append([]byte{}, b...) }

func (d *c05DB) Put(k, v []byte) error {
	op := c05Op{k: c05cp(k), v: c05cp(v)}
	kind, h := c05Classify([]c05Op{op})
	err := d.Database.Put(k, v)
	d.rc.add(c05Ev{db: true, ops: []c05Op{op}, kind: kind, h: h})
	return err
}
func (d *c05DB) Delete(k []byte) error {
	op := c05Op{del: true, k: c05cp(k)}
	kind, h := c05Classify([]c05Op{op})
	err := d.Database.Delete(k)
	d.rc.add(c05Ev{db: true, ops: []c05Op{op}, kind: kind, h: h})
	return err
}
func (d *c05DB) NewBatch() kaidb.Batch { return &c05Batch{Batch: d.Database.NewBatch(), d: d} }

type c05Batch struct {
	kaidb.Batch
	d   *c05DB
	ops []c05Op
}

func (b *c05Batch) Put(k, v []byte) error {
	b.ops = append(b.ops, c05Op{k: c05cp(k), v: c05cp(v)})
	return b.Batch.Put(k, v)
}
func (b *c05Batch) Delete(k []byte) error {
	b.ops = append(b.ops, c05Op{del: true, k: c05cp(k)})
	return b.Batch.Delete(k)
}
func (b *c05Batch) Write() error {
	err := b.Batch.Write()
	if len(b.ops) > 0 {
		kind, h := c05Classify(b.ops)
		b.d.rc.add(c05Ev{db: true, ops: b.ops, kind: kind, h: h})
	}
	b.ops = nil
	return err
}
func (b *c05Batch) Reset() { b.ops = nil; b.Batch.Reset() }

func c05HasPrefix(k []byte, p string, total int) bool {
	return len(k) == total && bytes.HasPrefix(k, []byte(p))
}

// c05Classify names a durable database write by the records it contains.
func c05Classify(ops []c05Op) (string, uint64) {
	var meta, seen, apph, head, cst, canon, trie, snap, gen, info, other int
	var h uint64
	for _, op := range ops {
		k := op.k
		switch {
		case c05HasPrefix(k, "m", 9):
			meta++
			h = binary.BigEndian.Uint64(k[1:])
		case c05HasPrefix(k, "sm", 10):
			seen++
		case c05HasPrefix(k, "ah", 10):
			apph++
			h = binary.BigEndian.Uint64(k[2:])
		case bytes.Equal(k, []byte("LastBlock")):
			head++
		case bytes.HasPrefix(k, []byte("ConsensusState")) && len(k) == len("ConsensusState")+8:
			cst++
			h = binary.BigEndian.Uint64(k[len("ConsensusState"):])
		case c05HasPrefix(k, "h", 10) && k[9] == 'n':
			canon++
			if h == 0 {
				h = binary.BigEndian.Uint64(k[1:9])
			}
		case c05HasPrefix(k, "i", 41):
			info++
		case len(k) == 32 || (len(k) == 33 && k[0] == 'c'):
			trie++
		case bytes.HasPrefix(k, []byte("Snapshot")) || c05HasPrefix(k, "a", 33) || c05HasPrefix(k, "o", 65):
			snap++
		case bytes.HasPrefix(k, []byte("kardia-")) || bytes.HasPrefix(k, []byte("DatabaseVersion")):
			gen++
		default:
			other++
		}
	}
	del := 0
	for _, op := range ops {
		if op.del {
			del++
		}
	}
	switch {
	case meta > 0 && seen > 0:
		return "blockBatch", h
	case cst > 0:
		return "cstateBatch", h
	case apph > 0:
		return "appBatch", h
	case head > 0 && len(ops) == 1:
		return "headPut", 0
	case head > 0:
		return "headBatch", h
	case del > 0 && del == len(ops):
		return "delete", h
	case trie > 0 && trie == len(ops):
		return "trieFlush", 0
	case snap > 0 && snap == len(ops):
		return "snapshot", 0
	case gen > 0:
		return "genesisCfg", 0
	case meta > 0:
		return "blockMeta", h
	}
	p := ops[0].k
	if len(p) > 10 {
		p = p[:10]
	}
	return fmt.Sprintf("other(%q,n=%d)", p, len(ops)), h
}

// ---------------------------------------------------------------- recording WAL (around the real one)

type c05WAL struct {
	*BaseWAL
	rc   *c05Rec
	cs   *ConsensusState
	path string
	base int64        // bytes in the rotated files wal.000 … (the log is the concatenation of all files)
	plan []c05RotPoint // rotate the group right after these records (reference runs of the rotation family)
}

// c05RotPoint: rotate right after the WAL record of this kind / height / vote type has been
// written - what autofile's checkHeadSizeLimit (own goroutine, any moment between two writes)
// does when the head has reached the size limit.
type c05RotPoint struct {
	kind string
	h    uint64
	vtyp kproto.SignedMsgType
	done bool
}

func (p c05RotPoint) String() string {
	s := fmt.Sprintf("%s%d", p.kind, p.h)
	if p.kind == "walOwnVote" {
		if p.vtyp == kproto.PrecommitType {
			s = fmt.Sprintf("precommit%d", p.h)
		} else {
			s = fmt.Sprintf("prevote%d", p.h)
		}
	}
	return s
}

// logicalEnd: offset in the concatenation of all files of the group. The head is looked at with
// os.Stat (Head.Size() would create an absent head file).
func (w *c05WAL) logicalEnd() int64 {
	var sz int64
	if fi, err := os.Stat(w.path); err == nil {
		sz = fi.Size()
	}
	return w.base + sz + int64(w.BaseWAL.group.Buffered())
}

// rotate = Group.RotateFile(): flush, fsync, close the head, rename it to wal.NNN; no new head
// is created until the next write reaches the file.
func (w *c05WAL) rotate() {
	end := w.logicalEnd()
	if end == w.base {
		return // empty head: RotateFile would fail on the rename
	}
	w.BaseWAL.group.RotateFile()
	w.base = end
	if w.rc != nil && !w.rc.off {
		w.rc.wEnd, w.rc.wSynced = end, end
		w.rc.rot = append(w.rc.rot, end)
		w.rc.add(c05Ev{kind: "walRotate", sync: true})
	}
}

// c05WalFiles: the rotated files of a group (in order) and the head path.
func c05WalFiles(head string) []string {
	var out []string
	for i := 0; ; i++ {
		p := fmt.Sprintf("%v.%03d", head, i)
		if _, err := os.Stat(p); err != nil {
			break
		}
		out = append(out, p)
	}
	return out
}

// c05ReadWal: the whole log = concatenation of the rotated files and the head.
func c05ReadWal(head string) []byte {
	var all []byte
	for _, p := range append(c05WalFiles(head), head) {
		b, _ := ioutil.ReadFile(p)
		all = append(all, b...)
	}
	return all
}

func c05WalKind(msg WALMessage) (string, uint64, *c05Pub) {
	switch m := msg.(type) {
	case EndHeightMessage:
		return "walEnd", uint64(m.Height), nil
	case types.EventDataRoundState:
		return "walStep", m.Height, nil
	case timeoutInfo:
		return "walTimeout", m.Height, nil
	case msgInfo:
		who := "Peer"
		if m.PeerID == "" {
			who = "Own"
		}
		switch x := m.Msg.(type) {
		case *ProposalMessage:
			var p *c05Pub
			if m.PeerID == "" {
				p = &c05Pub{proposal: true, h: x.Proposal.Height, r: x.Proposal.Round, blockKey: vfBlockKey(x.Proposal.POLBlockID), polRound: x.Proposal.POLRound}
			}
			return "wal" + who + "Proposal", x.Proposal.Height, p
		case *BlockPartMessage:
			return "wal" + who + "Part", x.Height, nil
		case *VoteMessage:
			var p *c05Pub
			if m.PeerID == "" {
				p = &c05Pub{h: x.Vote.Height, r: x.Vote.Round, typ: x.Vote.Type, blockKey: vfBlockKey(x.Vote.BlockID)}
			}
			return "wal" + who + "Vote", x.Vote.Height, p
		}
	}
	return "walOther", 0, nil
}

func (w *c05WAL) note(msg WALMessage, sync bool) {
	if w.cs != nil {
		w.cs.nSteps = 1 << 20 // make receiveRoutine(1) return after this message
	}
	if w.rc == nil || w.rc.off {
		return
	}
	kind, h, pub := c05WalKind(msg)
	w.rc.wEnd = w.logicalEnd()
	if sync && w.BaseWAL.group.Buffered() > 0 {
		sync = false // WriteSync returned with data still in the write buffer: nothing reached the file
	}
	if sync {
		w.rc.wSynced = w.rc.wEnd
	}
	if pub != nil {
		w.rc.pub = append(w.rc.pub, *pub)
	}
	ev := c05Ev{kind: kind, h: h, sync: sync}
	if pub != nil {
		ev.vtyp = pub.typ
	}
	w.rc.add(ev)
	for i := range w.plan {
		pt := &w.plan[i]
		if !pt.done && pt.kind == kind && pt.h == h && (kind != "walOwnVote" || pt.vtyp == ev.vtyp) {
			pt.done = true
			w.rotate()
		}
	}
}

func (w *c05WAL) Write(msg WALMessage) error {
	err := w.BaseWAL.Write(msg)
	w.note(msg, false)
	return err
}
func (w *c05WAL) WriteSync(msg WALMessage) error {
	err := w.BaseWAL.WriteSync(msg)
	w.note(msg, true)
	return err
}
func (w *c05WAL) FlushAndSync() error {
	err := w.BaseWAL.FlushAndSync()
	if w.rc != nil && !w.rc.off {
		w.rc.wEnd = w.logicalEnd()
		if w.rc.wSynced != w.rc.wEnd {
			w.rc.wSynced = w.rc.wEnd
			w.rc.add(c05Ev{kind: "walFlush", sync: true})
		}
	}
	return err
}

// ---------------------------------------------------------------- the node

type c05Ticker struct {
	pending []timeoutInfo
	tock    chan timeoutInfo
}

func (m *c05Ticker) Start() error                   { return nil }
func (m *c05Ticker) Stop() error                    { return nil }
func (m *c05Ticker) Chan() <-chan timeoutInfo       { return m.tock }
func (m *c05Ticker) ScheduleTimeout(ti timeoutInfo) { m.pending = append(m.pending, ti) }
func (m *c05Ticker) SetLogger(log.Logger)           {}

type c05Node struct {
	g      *genesis.Genesis
	key    *ecdsa.PrivateKey
	db     *c05DB
	bc     *blockchain.BlockChain
	bo     *blockchain.BlockOperations
	cs     *ConsensusState
	tk     *c05Ticker
	pv     *vfPV
	wal    *c05WAL
	txpool *tx_pool.TxPool
	store  cstate.Store
	evpool *evidence.Pool
	inbox  []msgInfo // peer messages waiting (multi-validator scenario)
	fed    map[uint64]bool
	root   string
	// the pool state object and block store height seen at the last settle
	poolState interface{}
	settledAt uint64
}

func c05Cache(flush bool) *blockchain.CacheConfig {
	if flush {
		return &blockchain.CacheConfig{TrieDirtyDisabled: true, TrieCleanLimit: 16}
	}
	return nil // defaultCacheConfig: keep recent state in memory
}

// c05Build constructs the node objects in the order mainchain/backend.go does.
func c05Build(g *genesis.Genesis, key *ecdsa.PrivateKey, db *c05DB, flush bool, root string, pv *vfPV) (n *c05Node, err error) {
	defer func() {
		if r := recover(); r != nil {
			n, err = nil, fmt.Errorf("panic: %v", r)
		}
	}()
	bc, e := blockchain.NewBlockChain(db, c05Cache(flush), g)
	if e != nil {
		return nil, e
	}
	stateStore := cstate.NewStore(db)
	evPool, e := evidence.NewPool(stateStore, db, bc)
	if e != nil {
		return nil, e
	}
	txPool := tx_pool.NewTxPool(tx_pool.TxPoolConfig{GlobalSlots: 64, GlobalQueue: 64, AccountSlots: 16, AccountQueue: 64}, g.Config, bc)
	st, _ := staking.NewSmcStakingUtil()
	logger := log.New()
	bo := blockchain.NewBlockOperations(logger, bc, txPool, evPool, st)
	blockExec := cstate.NewBlockExecutor(stateStore, logger, evPool, bo)
	state, e := stateStore.LoadStateFromDBOrGenesisDoc(g)
	if e != nil {
		return nil, e
	}
	cfg := configs.TestConsensusConfig()
	cfg.IsCreateEmptyBlocks = true
	cfg.RootDir = root
	cs := NewConsensusState(logger, cfg, state, bo, blockExec, evPool)
	if pv == nil {
		pv = &vfPV{PrivValidator: types.NewDefaultPrivValidator(key)}
	}
	cs.SetPrivValidator(pv)
	eb := types.NewEventBus()
	eb.Start()
	cs.SetEventBus(eb)
	tk := &c05Ticker{tock: make(chan timeoutInfo, 1)}
	cs.timeoutTicker = tk
	n = &c05Node{g: g, key: key, db: db, bc: bc, bo: bo, cs: cs, tk: tk, pv: pv, txpool: txPool, store: stateStore, evpool: evPool, fed: map[uint64]bool{}, root: root}
	n.poolState, n.settledAt = txPool.State(), bo.Height()
	return n, nil
}

// openWAL is OnStart's loadWalFile, with the recording wrapper put around the real WAL.
func (n *c05Node) openWAL() error {
	wal, err := n.cs.OpenWAL(n.cs.config.WalFile())
	if err != nil {
		return err
	}
	bw := wal.(*BaseWAL)
	n.wal = &c05WAL{BaseWAL: bw, rc: n.db.rc, cs: n.cs, path: n.cs.config.WalFile()}
	for _, p := range c05WalFiles(n.wal.path) {
		if fi, err := os.Stat(p); err == nil {
			n.wal.base += fi.Size()
		}
	}
	if n.db.rc != nil && !n.db.rc.off {
		// the #ENDHEIGHT 0 record written by BaseWAL.OnStart into an empty file
		end := n.wal.logicalEnd()
		if end != n.db.rc.wEnd {
			n.db.rc.wEnd, n.db.rc.wSynced = end, end
			n.db.rc.add(c05Ev{kind: "walEnd", h: 0, sync: true})
		}
	}
	n.cs.wal = n.wal
	return nil
}

func (n *c05Node) stop() {
	defer func() { recover() }()
	if n.wal != nil {
		n.wal.BaseWAL.Stop()
	}
	n.txpool.Stop()
}

func (n *c05Node) dead() bool {
	select {
	case <-n.cs.done:
		return true
	default:
		return false
	}
}

// step lets the real receiveRoutine process exactly one input; false if nothing was pending.
func (n *c05Node) step() bool {
	cs := n.cs
	if n.dead() {
		return false
	}
	cs.nSteps = 0
	switch {
	case len(cs.internalMsgQueue) > 0:
	case len(n.inbox) > 0:
		cs.peerMsgQueue <- n.inbox[0]
		n.inbox = n.inbox[1:]
	case len(n.tk.pending) > 0:
		p := n.tk.pending
		sort.SliceStable(p, func(a, b int) bool {
			return CompareHRS(p[a].Height, p[a].Round, p[a].Step, p[b].Height, p[b].Round, p[b].Step) < 0
		})
		ti := p[len(p)-1]
		n.tk.pending = nil
		n.tk.tock <- ti
	default:
		return false
	}
	cs.receiveRoutine(1)
	return true
}

// ---------------------------------------------------------------- scenario

type c05Scenario struct {
	name    string
	flush   bool
	heights int               // heights whose events are enumerated
	extra   int               // further heights of the reference run
	txs     map[uint64][]*types.Transaction
	g       *genesis.Genesis
	key     *ecdsa.PrivateKey
	rotate  []c05RotPoint // rotation family: where the WAL group is rotated
}

func c05FutureGenesis(keys []*ecdsa.PrivateKey, stake []int64) *genesis.Genesis {
	g := vfMkGenesis(keys, stake)
	// block and vote times are max(now, previous block time + iota): with a genesis time in the
	// future every time stamp is a function of the chain, so block hashes are reproducible
	g.Timestamp = time.Unix(4102444800, 0)
	return g
}

func c05MkTxs(g *genesis.Genesis, key *ecdsa.PrivateKey, plan map[uint64]int) map[uint64][]*types.Transaction {
	one := uint64(1)
	signer := types.MakeSigner(g.Config, &one)
	out := map[uint64][]*types.Transaction{}
	var hs []uint64
	for h := range plan {
		hs = append(hs, h)
	}
	sort.Slice(hs, func(a, b int) bool { return hs[a] < hs[b] })
	nonce := uint64(0)
	for _, h := range hs {
		for i := 0; i < plan[h]; i++ {
			to := common.BytesToAddress([]byte{0xC0, 0x05, byte(h), byte(i)})
			tx, err := types.SignTx(signer, types.NewTransaction(nonce, to, big.NewInt(int64(1000+h*10)+int64(i)), 100000, big.NewInt(1000000000), nil), key)
			if err != nil {
				panic(err)
			}
			nonce++
			out[h] = append(out[h], tx)
		}
	}
	return out
}

// feed puts the transactions scheduled for height h into the pool and waits until they are pending.
func (n *c05Node) feed(sc *c05Scenario, h uint64) {
	if n.fed[h] {
		return
	}
	n.fed[h] = true
	if n.db.rc != nil && h > n.db.rc.fedH {
		n.db.rc.fedH = h
	}
	txs := sc.txs[h]
	if len(txs) == 0 {
		return
	}
	accepted := 0
	for i, e := range n.txpool.AddRemotesSync(txs) {
		if e == nil {
			accepted++
		} else if vfEnvInt("VERIF_DEBUG", 0) > 1 {
			fmt.Printf("feed h=%d tx %d: %v\n", h, i, e)
		}
	}
	// the pool promotes asynchronously: wait until the accepted transactions are pending - or
	// queued, when an earlier nonce is missing (pool-lost policy): those never become pending
	for i := 0; i < 4000; i++ {
		pend, queued := n.txpool.Stats()
		if pend+queued >= accepted {
			break
		}
		time.Sleep(500 * time.Microsecond)
	}
}

// settle waits for the pool's asynchronous reset after a new head: every ChainHeadEvent makes the
// pool install a fresh state object, so the pointer changes exactly when the reset has run.
func (n *c05Node) settle() {
	if n.bo.Height() != n.settledAt {
		for i := 0; i < 1600 && n.txpool.State() == n.poolState; i++ {
			time.Sleep(500 * time.Microsecond)
		}
	}
	n.poolState = n.txpool.State()
	n.settledAt = n.bo.Height()
}

// run drives the node until the block store has reached `until` (or nothing moves / it died).
func (n *c05Node) run(sc *c05Scenario, until uint64, maxSteps int) {
	for i := 0; i < maxSteps && n.bo.Height() < until && !n.dead(); i++ {
		if n.cs.Step == cstypes.RoundStepNewHeight && len(n.cs.internalMsgQueue) == 0 && !n.fed[n.cs.Height] {
			n.settle()
			n.feed(sc, n.cs.Height)
		}
		if !n.step() {
			return
		}
	}
}

func c05Dump(rc *c05Rec) {
	for i, ev := range rc.evs {
		if ev.db {
			fmt.Printf("%4d DB  %-14s h=%d ops=%d sigs=%d pub=%d\n", i, ev.kind, ev.h, len(ev.ops), ev.nSigs, ev.nPub)
		} else {
			fmt.Printf("%4d WAL %-14s h=%d sync=%v end=%d synced=%d sigs=%d pub=%d\n", i, ev.kind, ev.h, ev.sync, ev.wEnd, ev.wSynced, ev.nSigs, ev.nPub)
		}
	}
}

// ---------------------------------------------------------------- reference run

type c05Ref struct {
	sc     *c05Scenario
	rc     *c05Rec
	wal    []byte            // the complete log file of the reference run
	blocks map[uint64]string // height -> block key of the reference chain
	top    uint64
	lastEv int // events [0,lastEv) are enumerated
	genEnd int // events [0,genEnd) belong to the very first start (genesis set-up, WAL creation)
}

func c05Reference(t *testing.T, sc *c05Scenario) *c05Ref {
	root := t.TempDir()
	rc := &c05Rec{}
	db := &c05DB{Database: memorydb.New(), rc: rc}
	n, err := c05Build(sc.g, sc.key, db, sc.flush, root, nil)
	if err != nil {
		t.Fatalf("reference node: %v", err)
	}
	rc.pv = n.pv
	rc.curH = func() uint64 { return n.cs.Height }
	if err := n.openWAL(); err != nil {
		t.Fatal(err)
	}
	ref := &c05Ref{sc: sc, rc: rc, blocks: map[uint64]string{}}
	ref.genEnd = len(rc.evs)
	n.wal.plan = append([]c05RotPoint{}, sc.rotate...)
	n.cs.scheduleRound0(&n.cs.RoundState)
	n.run(sc, uint64(sc.heights), 5000)
	// finish the step that follows the last enumerated commit (its newStep record)
	ref.lastEv = len(rc.evs)
	n.run(sc, uint64(sc.heights+sc.extra), 5000)
	if n.dead() || n.bo.Height() < uint64(sc.heights+sc.extra) {
		t.Fatalf("reference run stopped at height %d (dead=%v)", n.bo.Height(), n.dead())
	}
	ref.top = n.bo.Height()
	for h := uint64(1); h <= ref.top; h++ {
		ref.blocks[h] = vfCommitted2(n.bo, h)
	}
	n.stop()
	ref.wal = c05ReadWal(n.cs.config.WalFile())
	if len(rc.rot) != len(sc.rotate) {
		t.Fatalf("scenario %s: %d of %d planned WAL rotations happened", sc.name, len(rc.rot), len(sc.rotate))
	}
	if int64(len(ref.wal)) < rc.wSynced {
		t.Fatalf("scenario %s: WAL files hold %d bytes, %d were synced", sc.name, len(ref.wal), rc.wSynced)
	}
	if vfEnvInt("VERIF_DEBUG", 0) > 0 {
		fmt.Printf("scenario %s flush=%v: %d events (%d enumerated), wal %d bytes\n", sc.name, sc.flush, len(rc.evs), ref.lastEv, len(ref.wal))
		c05Dump(rc)
	}
	return ref
}

func vfCommitted2(bo *blockchain.BlockOperations, h uint64) string {
	meta := bo.LoadBlockMeta(h)
	if meta == nil {
		return ""
	}
	return vfBlockKey(meta.BlockID)
}

// ---------------------------------------------------------------- crash images

type c05Image struct {
	ops      [][]c05Op // database writes in order
	wal      []byte    // the log (all files concatenated)
	rot      []int64   // file boundaries: wal[0:rot[0]] = wal.000, …, the rest is the head
	rotated  bool      // image of the rotation family (class carries +wal-rotated…)
	pub      []c05Pub          // own messages published before the crash
	commit   map[uint64]string // blocks committed (saved) before the crash
	top      uint64            // highest committed height before the crash
	fedH     uint64            // transactions scheduled for heights <= fedH had been submitted
	class    string
	desc     string
	tokens   []string // the image in the model's vocabulary
	done     uint64   // highest height whose commit was completely applied (consensus state saved)
	first    bool     // the crash interrupted the very first start (genesis set-up)
	headMark uint64   // height of the head marker on disk
	nest     int      // > 0: also enumerate a second crash during the recovery from this image
	second   bool     // image of a second crash (nested enumeration)
	afterTorn bool    // second crash of the family "torn tail -> run on -> second crash"
	tornNest bool     // first-crash torn image from which that family is enumerated
}

func (img *c05Image) mkdb(rc *c05Rec) *c05DB {
	m := memorydb.New()
	for _, ops := range img.ops {
		for _, op := range ops {
			if op.del {
				m.Delete(op.k)
			} else {
				m.Put(op.k, op.v)
			}
		}
	}
	return &c05DB{Database: m, rc: rc}
}

func c05Coarse(kind string) string {
	if strings.HasPrefix(kind, "other(") {
		return "other"
	}
	return kind
}

// c05Milestone maps an event to a milestone name ("" = not a milestone). Own votes are told apart
// by their type.
func c05Milestone(ev c05Ev) string {
	switch ev.kind {
	case "walOwnProposal":
		return "proposal"
	case "walOwnPart":
		return "part"
	case "walOwnVote":
		if ev.vtyp == kproto.PrecommitType {
			return "precommit"
		}
		return "prevote"
	case "blockBatch", "walEnd", "appBatch", "trieFlush", "headBatch", "cstateBatch":
		return ev.kind
	case "walStep", "walTimeout", "walFlush", "walRotate":
		return ""
	}
	if ev.db {
		return c05Coarse(ev.kind)
	}
	return ""
}

// c05Class names the crash point: the last milestone reached and the next one that was not.
func c05Class(evs []c05Ev, k, genEnd int, flush bool) string {
	if k < genEnd {
		return c05Mode(flush) + "/during-first-start"
	}
	a, b := "start", "end"
	for i := k - 1; i >= genEnd; i-- {
		if m := c05Milestone(evs[i]); m != "" {
			a = m
			break
		}
	}
	for i := k; i < len(evs); i++ {
		if m := c05Milestone(evs[i]); m != "" {
			b = m
			break
		}
	}
	return c05Mode(flush) + "/after-" + a + "-before-" + b
}

// ---------------------------------------------------------------- restart and oracle

type c05Result struct {
	startErr  string
	store     uint64
	head      uint64
	stateH    uint64
	csH       uint64
	verdict   string
	replayErr string
	stateBlk  string  // block id in the loaded consensus state
	after     uint64  // block store height after the WAL catch-up
	repairedAt int    // > 0: OnStart repaired the WAL; events [0,repairedAt) precede the repair
	rc        *c05Rec // the recovery's own durable events
	node      *c05Node
	walPath   string
}

func c05Verdict(err error) string {
	switch {
	case err == nil:
		return "ok"
	case strings.Contains(err.Error(), "wal should not contain #ENDHEIGHT"):
		return "refused-endheight-present"
	case strings.Contains(err.Error(), "WAL does not contain #ENDHEIGHT"):
		return "no-marker-for-previous-height"
	case IsDataCorruptionError(err):
		return "corrupt"
	}
	return "error"
}

// c05Recover builds the node on the image and runs the WAL part of OnStart.
func c05Recover(t *testing.T, sc *c05Scenario, img *c05Image, refeed bool) *c05Result {
	res := &c05Result{}
	root := t.TempDir()
	walFile := filepath.Join(root, "cs.wal", "wal")
	os.MkdirAll(filepath.Dir(walFile), 0700)
	if img.wal != nil {
		from := int64(0)
		for i, r := range img.rot {
			if err := ioutil.WriteFile(fmt.Sprintf("%v.%03d", walFile, i), img.wal[from:r], 0600); err != nil {
				t.Fatal(err)
			}
			from = r
		}
		// after a rotation no head exists until a later record has reached the file
		if len(img.rot) == 0 || from < int64(len(img.wal)) {
			if err := ioutil.WriteFile(walFile, img.wal[from:], 0600); err != nil {
				t.Fatal(err)
			}
		}
	}
	res.walPath = walFile
	rc := &c05Rec{wEnd: int64(len(img.wal)), wSynced: int64(len(img.wal)), fedH: img.fedH}
	res.rc = rc
	db := img.mkdb(rc)
	n, err := c05Build(sc.g, sc.key, db, sc.flush, root, nil)
	if err != nil {
		res.startErr = err.Error()
		return res
	}
	rc.pv = n.pv
	res.node = n
	res.store, res.head, res.stateH, res.csH = n.bo.Height(), n.bc.CurrentBlock().Height(), n.cs.state.LastBlockHeight, n.cs.Height
	res.stateBlk = vfBlockKey(n.cs.state.LastBlockID)
	for h := uint64(1); h <= img.fedH; h++ {
		n.fed[h] = true // submitted before the crash: gone with the process
	}
	if refeed {
		// "same inputs": the transactions of the height being resumed are in the pool again
		// when the node (re)creates its proposal, as they were for the twin
		for h := res.csH; h <= img.fedH; h++ {
			n.fed[h] = false
		}
		n.feed(sc, res.csH)
	}
	// OnStart: loadWalFile, catchupReplay, repair once on corruption
	func() {
		defer func() {
			if r := recover(); r != nil {
				res.startErr = fmt.Sprintf("panic in WAL catch-up: %v", r)
			}
		}()
		if err := n.openWAL(); err != nil {
			res.startErr = "open WAL: " + err.Error()
			return
		}
		repairAttempted := false
		for {
			err := n.cs.catchupReplay(n.cs.Height)
			res.verdict = c05Verdict(err)
			if err != nil {
				res.replayErr = err.Error()
			}
			if err == nil || !IsDataCorruptionError(err) {
				break
			}
			if repairAttempted {
				res.startErr = "WAL still corrupt after repair: " + err.Error()
				return
			}
			n.wal.BaseWAL.Stop()
			repairAttempted = true
			corrupted := walFile + ".CORRUPTED"
			data, _ := ioutil.ReadFile(walFile)
			ioutil.WriteFile(corrupted, data, 0600)
			if err := repairWalFile(corrupted, walFile); err != nil {
				res.startErr = "WAL repair failed: " + err.Error()
				return
			}
			// the repaired head starts a new offset space: offsets recorded from here on are
			// positions in (rotated files ++ repaired head); crash points before this moment
			// (a crash inside the repair itself) are not enumerated
			rc.off = true
			if err := n.openWAL(); err != nil {
				res.startErr = "reopen WAL: " + err.Error()
				return
			}
			rc.off = false
			rc.wEnd = n.wal.logicalEnd()
			rc.wSynced = rc.wEnd
			res.repairedAt = len(rc.evs)
			res.verdict = "repaired-"
		}
		if repairAttempted && !strings.HasPrefix(res.verdict, "repaired-") {
			res.verdict = "repaired-" + res.verdict
		}
	}()
	res.after = n.bo.Height()
	return res
}

type c05Viols struct {
	o    *vfOut
	seen map[string]bool
	n    int
}

func (v *c05Viols) add(sig, detail string) {
	v.n++
	v.o.Stat("viol." + sig)
	if v.seen[sig] {
		return
	}
	v.seen[sig] = true
	v.o.Viol(sig, detail)
}

// c05Check recovers from the image, drives the node on and applies the oracle. It returns the
// recovery result (for the second-crash enumeration).
func c05Check(t *testing.T, o *vfOut, vs *c05Viols, ref *c05Ref, img *c05Image, refeed bool, model bool) *c05Result {
	sc := ref.sc
	violsBefore := vs.n
	res := c05Recover(t, sc, img, refeed)
	class := img.class
	pol := "same-inputs"
	if !refeed {
		pol = "pool-lost"
	}
	desc := func() string {
		return fmt.Sprintf("scenario=%s mode=%s policy=%s crash=%s committed-before-crash=%d restart: store=%d head=%d state=%d consensus-height=%d replay=%s(%s)",
			sc.name, c05Mode(sc.flush), pol, img.desc, img.top, res.store, res.head, res.stateH, res.csH, res.verdict, res.replayErr)
	}
	if res.node != nil {
		defer res.node.stop()
	}
	if res.startErr != "" {
		vs.add("c05/startup-failed:"+class, desc()+" error: "+res.startErr)
		return res
	}
	n := res.node
	if res.head < img.headMark {
		// start-up moved the head back: the state of the head block had not reached disk
		w := ""
		if i := strings.Index(class, "+wal-"); i >= 0 {
			w = class[i:]
		}
		class = c05Mode(sc.flush) + "/head-rewound-state-not-on-disk" + w
	}
	if model {
		o.Op("recovery", img.modelOp(sc), fmt.Sprintf("store=%d head=%d state=%d replay=%s after=%d", res.store, res.head, res.stateH, c05ModelVerdict(res.verdict), res.after))
	}
	// root causes, named first: later damage in the same run is attributed to them
	cause := ""
	if res.verdict == "refused-endheight-present" {
		cause = "-after-replay-refused"
		vs.add("c05/replay-refused-endheight-present:"+class, desc())
	} else if !strings.HasSuffix(res.verdict, "ok") {
		cause = "-after-replay-error"
		vs.add("c05/replay-error:"+class, desc())
	}
	// the stores agree on ONE prefix of the committed chain
	if res.stateH != res.head {
		if res.stateH == 0 && rawdb.ReadConsensusStateHeight(n.db, res.head) == nil {
			cause = "-after-genesis-state-substituted"
			vs.add("c05/genesis-state-substituted:"+class, desc())
		} else {
			vs.add("c05/state-head-disagree:"+class, desc())
		}
	}
	if res.store != res.head {
		vs.add("c05/store-head-disagree:"+class, desc())
	}
	if res.head > img.top {
		vs.add("c05/head-beyond-committed:"+class, desc())
	}
	for h := uint64(1); h <= res.head; h++ {
		if got := vfCommitted2(n.bo, h); got != img.commit[h] {
			vs.add("c05/recovered-chain-not-prefix:"+class, fmt.Sprintf("%s height=%d stored=%.12s committed=%.12s", desc(), h, got, img.commit[h]))
			break
		}
	}
	if res.stateH > 0 && res.stateH <= img.top && res.stateBlk != img.commit[res.stateH] {
		vs.add("c05/state-on-other-block:"+class, desc())
	}
	if sc.flush && res.head+1 < img.top {
		vs.add("c05/flush-mode-lost-committed-blocks"+cause+":"+class, desc())
	}
	// the catch-up restores what the node had published for the height it resumes: every own vote
	// handed to handleMsg before the crash is in the vote set again (checked when the replay was
	// accepted and the stores are consistent; otherwise the root cause above is the finding)
	if cause == "" && strings.HasSuffix(res.verdict, "ok") {
		addr := n.pv.GetAddress()
		for _, p := range img.pub {
			if p.proposal || p.h != n.cs.Height {
				continue
			}
			set := n.cs.Votes.Prevotes(p.r)
			if p.typ == kproto.PrecommitType {
				set = n.cs.Votes.Precommits(p.r)
			}
			var got *types.Vote
			if set != nil {
				got = set.GetByAddress(addr)
			}
			if got == nil || vfBlockKey(got.BlockID) != p.blockKey {
				have := "none"
				if got != nil {
					have = vfBlockKey(got.BlockID)
				}
				vs.add("c05/published-vote-not-restored:"+class, fmt.Sprintf("%s height=%d round=%d type=%v published=%.12s in-vote-set-after-catch-up=%.12s", desc(), p.h, p.r, p.typ, p.blockKey, have))
			}
		}
	}
	// drive on: two more heights than had been committed
	target := img.top + 2
	if target > ref.top {
		target = ref.top
	}
	var panicked interface{}
	func() {
		defer func() { panicked = recover() }()
		n.cs.scheduleRound0(&n.cs.RoundState)
		n.run(sc, target, 3000)
	}()
	if panicked != nil {
		vs.add("c05/panic-after-restart"+cause+":"+class, fmt.Sprintf("%s panic: %.300v", desc(), panicked))
	} else if n.dead() {
		vs.add("c05/consensus-failure-after-restart"+cause+":"+class, desc()+fmt.Sprintf(" stopped at height %d round %d", n.cs.Height, n.cs.Round))
	} else if n.bo.Height() < target {
		vs.add("c05/no-progress-after-restart"+cause+":"+class, desc()+fmt.Sprintf(" stuck at store=%d consensus %d/%d/%v, wanted %d", n.bo.Height(), n.cs.Height, n.cs.Round, n.cs.Step, target))
	}
	// signatures after the restart against what had been PUBLISHED before the crash
	for _, sg := range n.pv.log {
		for _, p := range img.pub {
			if p.proposal != sg.proposal || p.h != sg.h || p.r != sg.r {
				continue
			}
			if sg.proposal {
				// second-crash images: the proposal/twin clauses are not applied (the block the
				// FIRST recovery proposed was observed to depend on tx-pool timing on a loaded
				// machine; unresolved, see notes/C05.md) - votes and stores are checked
				// rotation family: F7 (second proposal under the pool-lost policy) is a property of
				// the policy, examined by the single-file family; the vote clause stays on
				// torn-tail family: on under the same-inputs policy, off under pool-lost (F7)
				if (!img.second || (img.afterTorn && refeed)) && !img.rotated && (p.blockKey != sg.blockKey || p.polRound != sg.polRound) {
					vs.add("c05/second-proposal"+cause+":"+class, fmt.Sprintf("%s height=%d round=%d published=%.12s re-signed=%.12s", desc(), sg.h, sg.r, p.blockKey, sg.blockKey))
				}
			} else if p.typ == sg.typ && p.blockKey != sg.blockKey {
				vs.add("c05/conflicting-vote"+cause+":"+class, fmt.Sprintf("%s height=%d round=%d type=%v published=%.12s signed-after-restart=%.12s", desc(), sg.h, sg.r, sg.typ, p.blockKey, sg.blockKey))
			}
		}
	}
	// a committed height is never decided differently; flush mode: nothing lost, twin continuation
	for h := uint64(1); h <= n.bo.Height() && h <= ref.top; h++ {
		got := vfCommitted2(n.bo, h)
		if h <= img.top {
			if got != img.commit[h] {
				vs.add("c05/committed-height-redecided"+cause+":"+class, fmt.Sprintf("%s height=%d committed=%.12s now=%.12s", desc(), h, img.commit[h], got))
			}
		} else if sc.flush && refeed && (!img.second || img.afterTorn) && got != ref.blocks[h] {
			vs.add("c05/twin-divergence"+cause+":"+class, fmt.Sprintf("%s height=%d twin=%.12s crashed-node=%.12s", desc(), h, ref.blocks[h], got))
		}
	}
	// the chain the node ends with is linked and its head/state agree
	if panicked == nil && !n.dead() {
		if hd := n.bc.CurrentBlock().Height(); hd != n.bo.Height() || n.cs.state.LastBlockHeight != hd {
			vs.add("c05/stores-disagree-after-continuation"+cause+":"+class, fmt.Sprintf("%s now store=%d head=%d state=%d", desc(), n.bo.Height(), hd, n.cs.state.LastBlockHeight))
		}
	}
	o.Stat("restart." + c05Mode(sc.flush) + "." + pol + ".replay-" + res.verdict)
	o.Stat("class." + class)
	// second crash: only from recoveries that were themselves clean (damage of a known-bad first
	// crash would only propagate)
	if img.nest > 0 && vs.n == violsBefore && panicked == nil && !n.dead() && !res.rc.off && res.repairedAt == 0 && len(res.rc.evs) > 0 {
		c05SecondCrash(t, o, vs, ref, img, res, false)
	}
	// torn tail -> run on -> second crash: the first recovery must have been clean
	if img.tornNest && refeed {
		if vs.n == violsBefore && panicked == nil && !n.dead() && !res.rc.off && len(res.rc.evs) > res.repairedAt {
			c05SecondCrash(t, o, vs, ref, img, res, true)
		} else {
			o.Stat("torn-second.first-recovery-not-clean")
		}
	}
	return res
}

// c05SecondCrash: the node crashes again during (or after) its recovery - prefixes of the recovery
// run's own durable-event log, WAL cut at the synced offset.
//
// afterTorn = the family "torn tail -> run on -> second crash": the first image had a torn last
// record; only crash points after OnStart's repair are taken (quick: right after each of the
// second life's first own proposal / part / prevote / precommit, its first #ENDHEIGHT-complete
// commit, and two more; thorough: all), outside the tail of a commit (F14/F19 phases); the second
// restart is checked under both transaction policies with class suffix +second-crash-after-torn.
func c05SecondCrash(t *testing.T, o *vfOut, vs *c05Viols, ref *c05Ref, img *c05Image, res *c05Result, afterTorn bool) {
	n := res.node
	evs := res.rc.evs
	blocks := map[uint64]string{}
	for h := uint64(1); h <= n.bo.Height(); h++ {
		blocks[h] = vfCommitted2(n.bo, h)
	}
	n.stop()
	wal := c05ReadWal(res.walPath)
	limit := len(evs)
	if limit > 60 && !afterTorn {
		limit = 60
	}
	from := 1
	pick := map[int]bool{}
	if afterTorn {
		from = res.repairedAt + 1
		// quick tier: a handful of second-crash points
		seen := map[string]bool{}
		extra := 0
		for j := from; j <= limit; j++ {
			m := c05Milestone(evs[j-1])
			switch {
			case m == "proposal" || m == "part" || m == "prevote" || m == "precommit" || m == "cstateBatch":
				if !seen[m] {
					seen[m] = true
					pick[j] = true
				}
			case m == "" && !evs[j-1].db && extra < 2 && seen["prevote"]:
				extra++ // a buffered record behind an own vote
				pick[j] = true
			}
		}
	}
	for j := from; j <= limit; j++ {
		if afterTorn {
			if !vfThorough() && !pick[j] {
				continue
			}
			if c05InCommitTail(evs, j) {
				o.Stat("torn-second.skipped-commit-tail")
				continue
			}
		}
		im2 := &c05Image{second: true, afterTorn: afterTorn, rot: img.rot, commit: map[uint64]string{}, top: img.top, done: img.done, headMark: img.headMark, fedH: evs[j-1].fedH}
		for h, b := range img.commit {
			im2.commit[h] = b
		}
		im2.ops = append(im2.ops, img.ops...)
		for i := 0; i < j; i++ {
			if !evs[i].db {
				continue
			}
			im2.ops = append(im2.ops, evs[i].ops)
			switch evs[i].kind {
			case "blockBatch":
				if evs[i].h > 0 {
					im2.commit[evs[i].h] = blocks[evs[i].h]
					if evs[i].h > im2.top {
						im2.top = evs[i].h
					}
				}
			case "headBatch", "headPut":
				if evs[i].kind == "headBatch" {
					im2.headMark = evs[i].h
				} else {
					im2.headMark = res.head // the head-state repair rewrote the marker
				}
			case "cstateBatch":
				if evs[i].h > im2.done {
					im2.done = evs[i].h
				}
			}
		}
		wl := evs[j-1].wSynced
		if wl > int64(len(wal)) {
			wl = int64(len(wal))
		}
		im2.wal = append([]byte{}, wal[:wl]...)
		im2.pub = append(append([]c05Pub{}, img.pub...), res.rc.pub[:evs[j-1].nPub]...)
		im2.class = c05Class(evs, j, 0, ref.sc.flush)
		if !afterTorn {
			im2.desc = fmt.Sprintf("SECOND crash at prefix=%d/%d(%s) of the recovery from [%s] wal=synced@%d", j, len(evs), im2.class, img.desc, wl)
			c05Check(t, o, vs, ref, im2, true, false)
			o.Case("2nd/"+im2.desc, true)
			o.Stat("second-crash")
			continue
		}
		im2.class += "+second-crash-after-torn"
		im2.desc = fmt.Sprintf("SECOND crash at prefix=%d/%d(%s) of the life that followed the recovery (verdict %s, repair at event %d) from [%s] wal=synced@%d of %d", j, len(evs), im2.class, res.verdict, res.repairedAt, img.desc, wl, len(wal))
		c05Check(t, o, vs, ref, im2, true, false)
		o.Case("torn2nd/"+im2.desc+"/same", true)
		o.Stat("torn-second.images")
		lost := false
		for h := uint64(1); h <= im2.fedH; h++ {
			if len(ref.sc.txs[h]) > 0 {
				lost = true
			}
		}
		if lost {
			c05Check(t, o, vs, ref, im2, false, false)
			o.Case("torn2nd/"+im2.desc+"/lost", true)
		}
	}
}

func c05Mode(flush bool) string {
	if flush {
		return "flush"
	}
	return "mem"
}

func c05ModelVerdict(v string) string {
	switch v {
	case "ok", "repaired-ok":
		return "ok"
	case "refused-endheight-present", "repaired-refused-endheight-present":
		return "refused"
	case "no-marker-for-previous-height":
		return "nomarker"
	}
	return "error"
}

// modelOp describes the crash point to the Lean model: mode and, per kind, how many durable
// events of that kind are in the image (the model turns this into a prefix of ITS event list and
// answers "bad-prefix" if the counts are not a prefix of the order it knows).
func (img *c05Image) modelOp(sc *c05Scenario) string {
	return "rec mode=" + c05Mode(sc.flush) + " evs=" + strings.Join(img.tokens, ",")
}

var c05Tok = map[string]string{"blockBatch": "B", "walEnd": "E", "appBatch": "A", "trieFlush": "T", "headBatch": "H", "cstateBatch": "C"}

// c05Tokens translates the events of a prefix into the model's vocabulary. WAL records count only
// if they lie completely inside the WAL image (walLen bytes).
func c05Tokens(evs []c05Ev, k int, genEnd int, walLen int64) []string {
	toks := []string{}
	cur := uint64(0) // height whose commit is in flight (for trie flushes, which carry no height)
	precommit := map[uint64]int{}
	for i := 0; i < k; i++ {
		ev := evs[i]
		if i < genEnd && !(ev.kind == "walEnd" && !ev.db) {
			continue
		}
		if !ev.db {
			if ev.wEnd > walLen {
				continue
			}
			switch ev.kind {
			case "walEnd":
				toks = append(toks, fmt.Sprintf("E%d", ev.h))
			case "walOwnVote":
				precommit[ev.h]++
				if precommit[ev.h] == 2 {
					toks = append(toks, fmt.Sprintf("V%d", ev.h))
				}
			}
			continue
		}
		switch ev.kind {
		case "blockBatch", "appBatch", "headBatch", "cstateBatch":
			if ev.kind == "blockBatch" {
				cur = ev.h
			}
			toks = append(toks, fmt.Sprintf("%s%d", c05Tok[ev.kind], ev.h))
		case "trieFlush":
			toks = append(toks, fmt.Sprintf("T%d", cur))
		default:
			toks = append(toks, "X:"+c05Coarse(ev.kind))
		}
	}
	return toks
}

// c05Order is the durable-event order of the run in the model's vocabulary (Model 2 events only).
func c05Order(evs []c05Ev, from, to int) string {
	var out []string
	cur := uint64(0)
	for i := from; i < to; i++ {
		ev := evs[i]
		switch {
		case !ev.db && ev.kind == "walEnd":
			out = append(out, fmt.Sprintf("E%d", ev.h))
		case !ev.db:
		case ev.kind == "trieFlush":
			out = append(out, fmt.Sprintf("T%d", cur))
		case c05Tok[ev.kind] != "":
			if ev.kind == "blockBatch" {
				cur = ev.h
			}
			out = append(out, fmt.Sprintf("%s%d", c05Tok[ev.kind], ev.h))
		default:
			out = append(out, "X:"+c05Coarse(ev.kind))
		}
	}
	return strings.Join(out, ",")
}

// c05MkImage builds the crash image for prefix k of the reference log with the WAL cut at walLen.
func c05MkImage(ref *c05Ref, k int, walLen int64, variant string) *c05Image {
	evs := ref.rc.evs
	img := &c05Image{commit: map[uint64]string{}}
	for i := 0; i < k; i++ {
		if evs[i].db {
			img.ops = append(img.ops, evs[i].ops)
			if evs[i].kind == "headBatch" {
				img.headMark = evs[i].h
			}
			if evs[i].kind == "cstateBatch" && evs[i].h > img.done {
				img.done = evs[i].h
			}
			if evs[i].kind == "blockBatch" && evs[i].h > 0 {
				img.commit[evs[i].h] = ref.blocks[evs[i].h]
				if evs[i].h > img.top {
					img.top = evs[i].h
				}
			}
		}
	}
	if walLen > int64(len(ref.wal)) {
		walLen = int64(len(ref.wal))
	}
	if walLen >= 0 && k > 0 {
		img.wal = append([]byte{}, ref.wal[:walLen]...)
	}
	if k > 0 {
		img.pub = append([]c05Pub{}, ref.rc.pub[:evs[k-1].nPub]...)
		img.fedH = evs[k-1].fedH
		img.rot = append([]int64{}, ref.rc.rot[:evs[k-1].nRot]...)
	}
	img.class = c05Class(evs, k, ref.genEnd, ref.sc.flush)
	img.first = k < ref.genEnd
	if n := len(img.rot); n > 0 {
		// the group was rotated before the crash: own classes, so that no matcher written for
		// the single-file log applies
		img.rotated = true
		if walLen <= img.rot[n-1] {
			img.class += "+wal-rotated-empty-head" // nothing reached the new head: absent at restart
		} else {
			img.class += "+wal-rotated"
		}
	}
	if variant != "synced" {
		img.class += "+wal-" + variant
	}
	img.desc = fmt.Sprintf("prefix=%d/%d(%s) wal=%s@%d", k, len(evs), img.class, variant, walLen)
	if variant == "torn" {
		var boundary int64
		for i := range evs {
			if !evs[i].db && evs[i].wEnd <= walLen && evs[i].wEnd > boundary {
				boundary = evs[i].wEnd
			}
		}
		img.desc += fmt.Sprintf("(%d bytes of the next record)", walLen-boundary)
	}
	if img.rotated {
		img.desc += fmt.Sprintf(" files-end-at=%v", img.rot)
	}
	img.tokens = c05Tokens(evs, k, ref.genEnd, walLen)
	return img
}

func TestVerifC05(t *testing.T) {
	log.Root().SetHandler(log.DiscardHandler())
	if vfEnvInt("VERIF_DEBUG", 0) > 2 {
		log.Root().SetHandler(log.LvlFilterHandler(log.LvlError, log.StreamHandler(os.Stdout, log.TerminalFormat(false))))
	}
	o := vfOpen()
	defer o.Close()
	vs := &c05Viols{o: o, seen: map[string]bool{}}
	seed := vfSeed()
	shards := uint64(vfEnvInt("VERIF_SHARDS", 1))
	shard := seed % 1000 % shards
	r := vfFork(seed/1000, 5)
	keys := vfKeys(r, 1)
	g := c05FutureGenesis(keys, []int64{15000000})
	only := vfEnvInt("VERIF_ONLY", -1)
	fam := os.Getenv("VERIF_FAMILY") // dev switch: "base" / "rot" run one family only
	for _, flush := range []bool{true, false} {
		if fam == "rot" {
			break
		}
		sc := &c05Scenario{name: "single", flush: flush, heights: 4, extra: 2, g: g, key: keys[0]}
		sc.txs = c05MkTxs(g, keys[0], map[uint64]int{2: 2, 4: 1, 5: 1})
		ref := c05Reference(t, sc)
		evs := ref.rc.evs
		if shard == 0 {
			o.Op("recovery", fmt.Sprintf("order mode=%s heights=%d", c05Mode(flush), ref.top), c05Order(evs, ref.genEnd, len(evs)))
		}
		// roots of the family "torn tail -> run on -> second crash" (chosen over ALL prefixes, so
		// that the choice does not depend on the shard): torn images outside the F14/F19 phases
		// and outside F34; quick tier: per crash class the first one inside height 2 and the
		// first one inside height 4 (the heights with transactions)
		tornRoot := map[int]bool{}
		if flush {
			taken := map[string]bool{}
			for k := ref.genEnd; k <= ref.lastEv; k++ {
				if k == 0 || c05InCommitTail(evs, k) || c05CatchupCommits(evs, k) {
					continue
				}
				if _, recLen := c05NextRecord(evs, k); recLen < 12 {
					continue // no record to tear at this crash point
				}
				var done uint64
				for i := 0; i < k; i++ {
					if evs[i].db && evs[i].kind == "cstateBatch" && evs[i].h > done {
						done = evs[i].h
					}
				}
				key := fmt.Sprintf("%s@%d", c05Class(evs, k, ref.genEnd, flush), done+1)
				if vfThorough() || ((done+1 == 2 || done+1 == 4) && !taken[key]) {
					taken[key] = true
					tornRoot[k] = true
				}
			}
		}
		for k := 0; k <= ref.lastEv; k++ {
			if uint64(k)%shards != shard || (only >= 0 && k != only) {
				continue
			}
			var synced, end int64
			if k > 0 {
				synced, end = evs[k-1].wSynced, evs[k-1].wEnd
			}
			type variant struct {
				name string
				len  int64
			}
			vars := []variant{{"synced", synced}}
			if end != synced {
				vars = append(vars, variant{"unsynced-tail-kept", end})
				vars = append(vars, variant{"torn", synced + 1 + int64(r.Intn(int(end-synced-1)))})
			} else if k < len(evs) && !evs[k].db && evs[k].wEnd > end+1 && (vfThorough() || k%3 == 0) {
				// the crash interrupts the next WAL write: part of its record is on disk
				vars = append(vars, variant{"torn", end + 1 + int64(r.Intn(int(evs[k].wEnd-end-1)))})
			}
			for _, v := range vars {
				img := c05MkImage(ref, k, v.len, v.name)
				if vfThorough() && v.name == "synced" && k >= ref.genEnd {
					img.nest = 1
				}
				// family "torn tail -> run on -> second crash" (flush mode): from torn images
				// outside the F14/F19 phases and outside F34 (a torn tail whose catch-up commits)

				c05Check(t, o, vs, ref, img, true, k >= ref.genEnd && v.name != "torn")
				o.Case(fmt.Sprintf("%s/%v/%d/%s/same", sc.name, flush, k, v.name), k > 0)
				// the pool-lost policy differs only if transactions submitted before the crash
				// are not yet part of the recovered chain
				lost := false
				for h := uint64(1); h <= img.fedH; h++ {
					if len(sc.txs[h]) > 0 {
						lost = true
					}
				}
				if lost {
					c05Check(t, o, vs, ref, img, false, false)
					o.Case(fmt.Sprintf("%s/%v/%d/%s/lost", sc.name, flush, k, v.name), true)
				}
			}
			// family "torn tail -> run on -> second crash": dedicated first-crash images. The
			// record after the last durable byte is cut inside its length field (5 bytes) and
			// inside its body (>= 8 bytes): both are reported corrupt by the decoder, OnStart
			// repairs. Fragments of 1..3 bytes (inside the checksum field) are NOT detected by the
			// code as found (see notes/C05.md, candidate finding): enumerated only with
			// VERIF_C05_SHORT_TORN=1.
			if tornRoot[k] {
				start, recLen := c05NextRecord(evs, k)
				frags := []int64{5, 8 + int64(r.Intn(int(recLen-9)))}
				if vfEnvInt("VERIF_C05_SHORT_TORN", 0) > 0 {
					frags = append(frags, 1, 2, 3)
				}
				for _, f := range frags {
					img := c05MkImage(ref, k, start+f, "torn")
					img.tornNest = true
					c05Check(t, o, vs, ref, img, true, false)
					o.Case(fmt.Sprintf("%s/%v/%d/torn-root/%d", sc.name, flush, k, f), true)
					o.Stat(fmt.Sprintf("torn-second.roots.fragment-%d-bytes", map[bool]int64{true: f, false: 8}[f < 8]))
				}
			}
		}
	}
	// ---- WAL rotation family (flush mode): the group is rotated at chosen moments; crash points
	// after the rotation with nothing / a few records in the new head.
	rotPlans := [][]c05RotPoint{
		{{kind: "walEnd", h: 1}},  // between heights, right after #ENDHEIGHT 1
		{{kind: "walEnd", h: 3}},  // right after #ENDHEIGHT 3
		{{kind: "walTimeout", h: 3}}, // between heights, after the first records of height 3
		{{kind: "walOwnVote", h: 2, vtyp: kproto.PrevoteType}},   // mid-height, after the own prevote
		{{kind: "walOwnVote", h: 2, vtyp: kproto.PrecommitType}}, // after the own precommit
		{{kind: "walOwnVote", h: 4, vtyp: kproto.PrevoteType}},
		{{kind: "walOwnProposal", h: 3}}, // splits the records of height 3 across files
		{{kind: "walEnd", h: 1}, {kind: "walOwnVote", h: 2, vtyp: kproto.PrevoteType}},          // wal.000, wal.001
		{{kind: "walOwnProposal", h: 2}, {kind: "walOwnVote", h: 4, vtyp: kproto.PrecommitType}}, // two rotations, both mid-height
	}
	for si, plan := range rotPlans {
		if fam == "base" {
			break
		}
		var names []string
		for _, pt := range plan {
			names = append(names, pt.String())
		}
		sc := &c05Scenario{name: "rotate-after-" + strings.Join(names, "+"), flush: true, heights: 4, extra: 2, g: g, key: keys[0], rotate: plan}
		sc.txs = c05MkTxs(g, keys[0], map[uint64]int{2: 2, 4: 1, 5: 1})
		ref := c05Reference(t, sc)
		evs := ref.rc.evs
		for ri, e := range evs {
			if e.kind != "walRotate" {
				continue
			}
			taken := 0
			for k := ri + 1; k <= ref.lastEv; k++ {
				if evs[k-1].nRot != e.nRot {
					break // the next rotation has its own window
				}
				// crash points inside the tail of a commit (after #ENDHEIGHT h, before the
				// consensus state of h) are the F14/F19 phases whatever the files look like
				if c05InCommitTail(evs, k) {
					o.Stat("rotation.skipped-commit-tail")
					continue
				}
				taken++
				if !vfThorough() && taken > 9 {
					break
				}
				if uint64(si*5+k)%shards != shard || (only >= 0 && k != only) {
					continue
				}
				synced, end := evs[k-1].wSynced, evs[k-1].wEnd
				type variant struct {
					name string
					len  int64
				}
				vars := []variant{{"synced", synced}}
				// a torn tail whose catch-up commits the height is F34 whatever the files look like
				tornOK := !c05CatchupCommits(evs, k)
				if end != synced {
					vars = append(vars, variant{"unsynced-tail-kept", end})
					if tornOK {
						vars = append(vars, variant{"torn", synced + 1 + int64(r.Intn(int(end-synced-1)))})
					}
				} else if tornOK && k < len(evs) && !evs[k].db && evs[k].wEnd > end+1 && (vfThorough() || k%2 == 0) {
					vars = append(vars, variant{"torn", end + 1 + int64(r.Intn(int(evs[k].wEnd-end-1)))})
				}
				for _, v := range vars {
					img := c05MkImage(ref, k, v.len, v.name)
					c05Check(t, o, vs, ref, img, true, v.name != "torn")
					o.Case(fmt.Sprintf("%s/%d/%s/same", sc.name, k, v.name), true)
					o.Stat("rotation." + img.class[strings.Index(img.class, "+wal-rotated"):])
					lost := false
					for h := uint64(1); h <= img.fedH; h++ {
						if len(sc.txs[h]) > 0 {
							lost = true
						}
					}
					if lost {
						c05Check(t, o, vs, ref, img, false, false)
						o.Case(fmt.Sprintf("%s/%d/%s/lost", sc.name, k, v.name), true)
					}
				}
			}
		}
	}
	_ = crypto.Keccak256
}

// c05NextRecord: where the first WAL record that is not durable at crash point k starts (the
// synced offset) and how long it is (0 = there is none: the next event is a database write).
func c05NextRecord(evs []c05Ev, k int) (start, length int64) {
	if k == 0 {
		return 0, 0
	}
	start = evs[k-1].wSynced
	for i := 0; i < len(evs); i++ {
		if !evs[i].db && evs[i].kind != "walRotate" && evs[i].kind != "walFlush" && evs[i].wEnd > start {
			if i >= k && evs[k-1].wEnd == start && i != k {
				return start, 0 // the next event is not this WAL write
			}
			return start, evs[i].wEnd - start
		}
	}
	return start, 0
}

// c05InCommitTail: prefix k ends after `#ENDHEIGHT h` and before the consensus state of h is saved.
func c05InCommitTail(evs []c05Ev, k int) bool {
	var ended, done uint64
	for i := 0; i < k; i++ {
		switch {
		case !evs[i].db && evs[i].kind == "walEnd" && evs[i].h > ended:
			ended = evs[i].h
		case evs[i].db && evs[i].kind == "cstateBatch" && evs[i].h > done:
			done = evs[i].h
		}
	}
	return ended > done
}

// c05CatchupCommits: the own precommit of the height in flight is logged but its end marker is
// not: the WAL catch-up will commit the height (the situation of F34 when the tail is torn).
func c05CatchupCommits(evs []c05Ev, k int) bool {
	var ended, pre uint64
	for i := 0; i < k; i++ {
		if evs[i].db {
			continue
		}
		switch {
		case evs[i].kind == "walEnd" && evs[i].h > ended:
			ended = evs[i].h
		case evs[i].kind == "walOwnVote" && evs[i].vtyp == kproto.PrecommitType && evs[i].h > pre:
			pre = evs[i].h
		}
	}
	return pre > ended
}
