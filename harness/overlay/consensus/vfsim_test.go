package consensus

// Network simulator shared by the C01 / C04 / C05 / C19 harnesses: N validators, the correct
// ones are REAL ConsensusState objects built exactly as mainchain/backend.go builds them (own
// memory DB, real BlockChain, BlockOperations, BlockExecutor, evidence pool, tx pool, genesis with
// N staking validators); the TimeoutTicker is a recording stub and nothing runs in goroutines: the
// scheduler drains internalMsgQueue, delivers / drops / duplicates / reorders messages and fires
// timeouts under the control of one PRNG, and an adversary holds the keys of the faulty validators.

import (
	"crypto/ecdsa"
	"fmt"
	"math/big"
	"sort"
	"time"

	"github.com/kardiachain/go-kardia/configs"
	cstypes "github.com/kardiachain/go-kardia/consensus/types"
	"github.com/kardiachain/go-kardia/kai/kaidb"
	"github.com/kardiachain/go-kardia/kai/kaidb/memorydb"
	"github.com/kardiachain/go-kardia/kai/state/cstate"
	"github.com/kardiachain/go-kardia/lib/common"
	"github.com/kardiachain/go-kardia/lib/crypto"
	"github.com/kardiachain/go-kardia/lib/log"
	"github.com/kardiachain/go-kardia/lib/p2p"
	"github.com/kardiachain/go-kardia/mainchain/blockchain"
	"github.com/kardiachain/go-kardia/mainchain/genesis"
	"github.com/kardiachain/go-kardia/mainchain/staking"
	"github.com/kardiachain/go-kardia/mainchain/tx_pool"
	kproto "github.com/kardiachain/go-kardia/proto/kardiachain/types"
	"github.com/kardiachain/go-kardia/trie"
	"github.com/kardiachain/go-kardia/types"
	"github.com/kardiachain/go-kardia/types/evidence"
)

type vfTicker struct{ pending []timeoutInfo }

func (m *vfTicker) Start() error                   { return nil }
func (m *vfTicker) Stop() error                    { return nil }
func (m *vfTicker) Chan() <-chan timeoutInfo       { return nil }
func (m *vfTicker) ScheduleTimeout(ti timeoutInfo) { m.pending = append(m.pending, ti) }
func (m *vfTicker) SetLogger(log.Logger)           {}

// vfSigRec is one signature request made by a correct validator.
type vfSigRec struct {
	proposal bool
	h        uint64
	r        uint32
	typ      kproto.SignedMsgType
	blockKey string // "" for nil
	polRound uint32
}

// vfPV wraps the real signer and records every signature request.
type vfPV struct {
	types.PrivValidator
	log []vfSigRec
}

func (p *vfPV) SignVote(chainID string, v *kproto.Vote) error {
	key := ""
	if hh := common.BytesToHash(v.BlockID.Hash); len(v.BlockID.Hash) > 0 && !hh.IsZero() {
		key = fmt.Sprintf("%x:%d:%x", v.BlockID.Hash, v.BlockID.PartSetHeader.Total, v.BlockID.PartSetHeader.Hash)
	}
	p.log = append(p.log, vfSigRec{h: v.Height, r: v.Round, typ: v.Type, blockKey: key})
	return p.PrivValidator.SignVote(chainID, v)
}
func (p *vfPV) SignProposal(chainID string, pr *kproto.Proposal) error {
	key := fmt.Sprintf("%x:%d:%x", pr.BlockID.Hash, pr.BlockID.PartSetHeader.Total, pr.BlockID.PartSetHeader.Hash)
	p.log = append(p.log, vfSigRec{proposal: true, h: pr.Height, r: pr.Round, blockKey: key, polRound: pr.PolRound})
	return p.PrivValidator.SignProposal(chainID, pr)
}

type vfNode struct {
	idx    int // index in net.keys
	cs     *ConsensusState
	ticker *vfTicker
	bo     *blockchain.BlockOperations
	bc     *blockchain.BlockChain
	db     kaidb.Database
	pv     *vfPV
	evpool *evidence.Pool
	store  cstate.Store
	txpool *tx_pool.TxPool
}

var vfGenesisCounter int

// vfMkGenesis builds a genesis with one staking validator per key; selfDelegate[i] is in KAI units.
func vfMkGenesis(keys []*ecdsa.PrivateKey, selfDelegate []int64) *genesis.Genesis {
	initValue, _ := big.NewInt(0).SetString("1000000000000000000000000000", 10)
	accounts := map[string]*big.Int{}
	var vals []*genesis.GenesisValidator
	for i, k := range keys {
		addr := crypto.PubkeyToAddress(k.PublicKey)
		accounts[addr.Hex()] = initValue
		sd := new(big.Int).Mul(big.NewInt(selfDelegate[i]), new(big.Int).Exp(big.NewInt(10), big.NewInt(18), nil))
		vals = append(vals, &genesis.GenesisValidator{Name: fmt.Sprintf("val%d-------------------------------------", i), Address: addr.Hex(),
			CommissionRate: "100000000000000000", MaxRate: "250000000000000000", MaxChangeRate: "50000000000000000",
			SelfDelegate: sd.String(), StartWithGenesis: true})
	}
	configs.AddDefaultContract()
	contracts := make(map[string]string)
	for key, contract := range configs.GetContracts() {
		configs.LoadGenesisContract(key, contract.Address, contract.ByteCode, contract.ABI)
		if key != configs.StakingContractKey {
			contracts[contract.Address] = contract.ByteCode
		}
	}
	g := genesis.DefaulTestnetFullGenesisBlock(accounts, contracts)
	g.Validators = vals
	g.Timestamp = time.Unix(1700000000, 0)
	g.ChainID = "simchain"
	return g
}

// vfMkNodeOnDB builds the node objects on an existing database (used for restarts too).
func vfMkNodeOnDB(g *genesis.Genesis, key *ecdsa.PrivateKey, idx int, db kaidb.Database) (*vfNode, error) {
	bc, err := blockchain.NewBlockChain(db, nil, g)
	if err != nil {
		return nil, err
	}
	stateStore := cstate.NewStore(db)
	evPool, err := evidence.NewPool(stateStore, db, bc)
	if err != nil {
		return nil, err
	}
	txPool := tx_pool.NewTxPool(tx_pool.TxPoolConfig{GlobalSlots: 64, GlobalQueue: 64}, g.Config, bc)
	st, _ := staking.NewSmcStakingUtil()
	logger := log.New()
	bo := blockchain.NewBlockOperations(logger, bc, txPool, evPool, st)
	blockExec := cstate.NewBlockExecutor(stateStore, logger, evPool, bo)
	state, err := stateStore.LoadStateFromDBOrGenesisDoc(g)
	if err != nil {
		return nil, err
	}
	cfg := configs.TestConsensusConfig()
	cfg.IsCreateEmptyBlocks = true
	cs := NewConsensusState(logger, cfg, state, bo, blockExec, evPool)
	pv := &vfPV{PrivValidator: types.NewDefaultPrivValidator(key)}
	cs.SetPrivValidator(pv)
	eb := types.NewEventBus()
	eb.Start()
	cs.SetEventBus(eb)
	tk := &vfTicker{}
	cs.timeoutTicker = tk
	return &vfNode{idx: idx, cs: cs, ticker: tk, bo: bo, bc: bc, db: db, pv: pv, evpool: evPool, store: stateStore, txpool: txPool}, nil
}

func vfMkNode(g *genesis.Genesis, key *ecdsa.PrivateKey, idx int) (*vfNode, error) {
	return vfMkNodeOnDB(g, key, idx, memorydb.New())
}

// ---- the network

type vfPending struct {
	to   int // position in net.nodes
	mi   msgInfo
	from int // validator index of the sender (-1 unknown)
}

// vfTraceEv is one "send" event of the abstract protocol (C01's model).
type vfTraceEv struct {
	sender int
	typ    kproto.SignedMsgType
	round  uint32
	block  string // "" nil
}

type vfNet struct {
	r       *vfRand
	g       *genesis.Genesis
	keys    []*ecdsa.PrivateKey
	addrs   []common.Address
	valIdx  map[common.Address]int // address -> index in keys
	byz     map[int]bool
	nodes   []*vfNode       // the correct validators
	nodeOf  map[int]*vfNode // validator index -> node
	pool    []vfPending
	trace   map[uint64][]vfTraceEv        // per height
	seenEv  map[uint64]map[string]bool    // dedup of byzantine events
	blocks  map[uint64]map[string]*vfBlk  // height -> blockKey -> block known to the adversary
	allMsgs map[uint64][]msgInfo          // every message ever sent at a height (for the reactor's catch-up role)
	powers  []int64                       // by validator index (from the real validator set)
	dropPct int
	dupPct  int
	offered map[int]map[uint64]int
	blockOrder map[uint64][]string
	withheld []vfPending // Byzantine votes not yet shown to their addressee
	parts   [][]int // current partition (groups of validator indices); nil = none
}

type vfBlk struct {
	block *types.Block
	parts *types.PartSet
}

func vfBlockKey(id types.BlockID) string {
	if id.IsZero() {
		return ""
	}
	return fmt.Sprintf("%x:%d:%x", id.Hash.Bytes(), id.PartsHeader.Total, id.PartsHeader.Hash.Bytes())
}

func vfNewNet(r *vfRand, keys []*ecdsa.PrivateKey, selfDelegate []int64, byz map[int]bool) (*vfNet, error) {
	net := &vfNet{r: r, keys: keys, byz: byz, valIdx: map[common.Address]int{}, nodeOf: map[int]*vfNode{},
		trace: map[uint64][]vfTraceEv{}, seenEv: map[uint64]map[string]bool{}, blocks: map[uint64]map[string]*vfBlk{},
		allMsgs: map[uint64][]msgInfo{}}
	net.g = vfMkGenesis(keys, selfDelegate)
	for i, k := range keys {
		a := crypto.PubkeyToAddress(k.PublicKey)
		net.addrs = append(net.addrs, a)
		net.valIdx[a] = i
	}
	for i, k := range keys {
		if byz[i] {
			continue
		}
		n, err := vfMkNode(net.g, k, i)
		if err != nil {
			return nil, err
		}
		net.nodes = append(net.nodes, n)
		net.nodeOf[i] = n
	}
	vs := net.nodes[0].cs.Validators
	net.powers = make([]int64, len(keys))
	for _, v := range vs.Validators {
		net.powers[net.valIdx[v.Address]] = v.VotingPower
	}
	for _, n := range net.nodes {
		n.cs.scheduleRound0(&n.cs.RoundState)
	}
	return net, nil
}

func (net *vfNet) sameSide(a, b int) bool {
	if net.parts == nil {
		return true
	}
	for _, g := range net.parts {
		ina, inb := false, false
		for _, x := range g {
			if x == a {
				ina = true
			}
			if x == b {
				inb = true
			}
		}
		if ina || inb {
			return ina && inb
		}
	}
	return true
}

// record logs a vote as a send event of the abstract trace (first time it is seen).
func (net *vfNet) record(v *types.Vote) {
	idx, ok := net.valIdx[v.ValidatorAddress]
	if !ok {
		return
	}
	key := fmt.Sprintf("%d/%d/%d/%s", idx, v.Type, v.Round, vfBlockKey(v.BlockID))
	if net.seenEv[v.Height] == nil {
		net.seenEv[v.Height] = map[string]bool{}
	}
	if net.seenEv[v.Height][key] {
		return
	}
	net.seenEv[v.Height][key] = true
	net.trace[v.Height] = append(net.trace[v.Height], vfTraceEv{idx, v.Type, v.Round, vfBlockKey(v.BlockID)})
}

func vfMsgHeight(m Message) uint64 {
	switch x := m.(type) {
	case *VoteMessage:
		return x.Vote.Height
	case *ProposalMessage:
		return x.Proposal.Height
	case *BlockPartMessage:
		return x.Height
	}
	return 0
}

// drain processes the internal queue of every correct node: the node handles its own message,
// and the message is put into the delivery pool for every other correct node.
func (net *vfNet) drain() bool {
	progressed := false
	for pos, n := range net.nodes {
		for {
			select {
			case mi := <-n.cs.internalMsgQueue:
				progressed = true
				if vm, ok := mi.Msg.(*VoteMessage); ok {
					net.record(vm.Vote)
				}
				net.remember(mi)
				n.cs.handleMsg(mi)
				for j := range net.nodes {
					if j == pos {
						continue
					}
					if net.r.Intn(100) < net.dropPct {
						continue
					}
					net.pool = append(net.pool, vfPending{j, msgInfo{mi.Msg, "peer"}, n.idx})
					if net.r.Intn(100) < net.dupPct {
						net.pool = append(net.pool, vfPending{j, msgInfo{mi.Msg, "peer2"}, n.idx})
					}
				}
				continue
			default:
			}
			break
		}
	}
	return progressed
}

func (net *vfNet) remember(mi msgInfo) {
	h := vfMsgHeight(mi.Msg)
	net.allMsgs[h] = append(net.allMsgs[h], msgInfo{mi.Msg, "peer"})
	if pm, ok := mi.Msg.(*ProposalMessage); ok {
		_ = pm
	}
}

// regossip plays the reactor's catch-up role for one node: everything ever sent at the node's
// current height is offered to it again (votes, proposals, block parts), twice, so that a commit
// learnt in the first pass can be completed with the parts in the second.
func (net *vfNet) regossip(pos int, full bool) {
	n := net.nodes[pos]
	if net.offered == nil {
		net.offered = map[int]map[uint64]int{}
	}
	if net.offered[pos] == nil {
		net.offered[pos] = map[uint64]int{}
	}
	passes := 1
	if full {
		passes = 2
		net.maj23Gossip(pos)
	}
	for pass := 0; pass < passes; pass++ {
		h := n.cs.Height
		msgs := net.allMsgs[h]
		from := net.offered[pos][h]
		if full {
			from = 0
		}
		for _, mi := range msgs[from:] {
			if n.cs.Height != h {
				break
			}
			n.cs.handleMsg(mi)
		}
		if n.cs.Height == h {
			net.offered[pos][h] = len(msgs)
		}
	}
}

// maj23Gossip plays the role of the reactor's queryMaj23Routine + VoteSetMaj23 handling for one
// node: every +2/3 majority another correct node has seen at this node's height (prevotes of any
// round, and the commit of a height the other node has already stored) is claimed to it, so that
// votes which conflict with what an equivocating validator told this node can still be added.
func (net *vfNet) maj23Gossip(pos int) {
	n := net.nodes[pos]
	h := n.cs.Height
	for j, m := range net.nodes {
		if j == pos {
			continue
		}
		peer := p2p.ID(fmt.Sprintf("node%d", m.idx))
		if m.cs.Height == h {
			for r := uint32(1); r <= m.cs.Round; r++ {
				if pv := m.cs.Votes.Prevotes(r); pv != nil {
					if id, ok := pv.TwoThirdsMajority(); ok {
						_ = n.cs.Votes.SetPeerMaj23(r, kproto.PrevoteType, peer, id)
					}
				}
				if pc := m.cs.Votes.Precommits(r); pc != nil {
					if id, ok := pc.TwoThirdsMajority(); ok {
						_ = n.cs.Votes.SetPeerMaj23(r, kproto.PrecommitType, peer, id)
					}
				}
			}
		} else if m.bo.Height() >= h {
			if c := m.bo.LoadSeenCommit(h); c != nil {
				_ = n.cs.Votes.SetPeerMaj23(c.Round, kproto.PrecommitType, peer, c.BlockID)
			}
		}
	}
}

// deliverOne delivers one random deliverable message from the pool; false if none is deliverable.
func (net *vfNet) deliverOne() bool {
	if len(net.pool) == 0 {
		return false
	}
	for try := 0; try < 8; try++ {
		k := net.r.Intn(len(net.pool))
		pm := net.pool[k]
		if pm.from >= 0 && !net.sameSide(pm.from, net.nodes[pm.to].idx) {
			continue
		}
		net.pool[k] = net.pool[len(net.pool)-1]
		net.pool = net.pool[:len(net.pool)-1]
		net.nodes[pm.to].cs.handleMsg(pm.mi)
		return true
	}
	return false
}

// fireTimeout fires one pending timeout of node n (random one, or the latest when latest=true).
func (net *vfNet) fireTimeout(n *vfNode, latest bool) bool {
	if len(n.ticker.pending) == 0 {
		return false
	}
	k := net.r.Intn(len(n.ticker.pending))
	if latest {
		sort.SliceStable(n.ticker.pending, func(a, b int) bool {
			pa, pb := n.ticker.pending[a], n.ticker.pending[b]
			return CompareHRS(pa.Height, pa.Round, pa.Step, pb.Height, pb.Round, pb.Step) < 0
		})
		k = len(n.ticker.pending) - 1
		ti := n.ticker.pending[k]
		n.ticker.pending = nil
		n.cs.handleTimeout(ti, n.cs.RoundState)
		return true
	}
	ti := n.ticker.pending[k]
	n.ticker.pending = append(n.ticker.pending[:k], n.ticker.pending[k+1:]...)
	n.cs.handleTimeout(ti, n.cs.RoundState)
	return true
}

// ---- the adversary

func (net *vfNet) signVote(idx int, h uint64, r uint32, typ kproto.SignedMsgType, id types.BlockID, chainID string, valIndex uint32) *types.Vote {
	v := &types.Vote{ValidatorAddress: net.addrs[idx], ValidatorIndex: valIndex, Height: h, Round: r,
		Timestamp: time.Unix(1700000000+int64(h)*10+int64(r), 0), Type: typ, BlockID: id}
	pv := types.NewDefaultPrivValidator(net.keys[idx])
	p := v.ToProto()
	if err := pv.SignVote(chainID, p); err != nil {
		return nil
	}
	v.Signature = p.Signature
	return v
}

// knownBlocks returns the block ids at height h known to the adversary (seen in proposals).
func (net *vfNet) knownIDs(h uint64) []types.BlockID {
	// in the order the adversary learnt them: block hashes depend on wall-clock vote time stamps,
	// so any order derived from the hashes would make a (seed, case) pair irreproducible
	var ids []types.BlockID
	for _, k := range net.blockOrder[h] {
		b := net.blocks[h][k]
		ids = append(ids, types.BlockID{Hash: b.block.Hash(), PartsHeader: b.parts.Header()})
	}
	return ids
}

func (net *vfNet) learnBlock(h uint64, blk *types.Block, ps *types.PartSet) types.BlockID {
	id := types.BlockID{Hash: blk.Hash(), PartsHeader: ps.Header()}
	if net.blocks[h] == nil {
		net.blocks[h] = map[string]*vfBlk{}
	}
	k := vfBlockKey(id)
	if _, ok := net.blocks[h][k]; !ok {
		if net.blockOrder == nil {
			net.blockOrder = map[uint64][]string{}
		}
		net.blockOrder[h] = append(net.blockOrder[h], k)
	}
	net.blocks[h][k] = &vfBlk{blk, ps}
	return id
}

// observeProposals lets the adversary learn the blocks correct proposers publish.
func (net *vfNet) observeProposals() {
	for _, n := range net.nodes {
		if n.cs.ProposalBlock != nil && n.cs.ProposalBlockParts != nil && n.cs.ProposalBlockParts.IsComplete() {
			net.learnBlock(n.cs.Height, n.cs.ProposalBlock, n.cs.ProposalBlockParts)
		}
	}
}

// byzBlock makes a valid block for height h (as seen by node via) proposed by validator idx;
// variant > 0 yields a different but equally valid block (another gas limit).
func (net *vfNet) byzBlock(via *vfNode, idx int, variant int) (blk *types.Block, ps *types.PartSet) {
	defer func() {
		if recover() != nil {
			blk, ps = nil, nil
		}
	}()
	cs := via.cs
	var commit *types.Commit
	if cs.Height == cs.state.InitialHeight {
		commit = types.NewCommit(0, 0, types.BlockID{}, nil)
	} else if cs.LastCommit != nil && cs.LastCommit.HasTwoThirdsMajority() {
		commit = cs.LastCommit.MakeCommit()
	} else {
		return nil, nil
	}
	b, _ := via.bo.CreateProposalBlock(cs.Height, cs.state, net.addrs[idx], commit)
	if b == nil {
		return nil, nil
	}
	if variant > 0 {
		h := b.Header()
		h.GasLimit = h.GasLimit - uint64(variant)
		b = types.NewBlock(h, b.Transactions(), b.LastCommit(), b.Evidence().Evidence, trie.NewStackTrie(nil))
	}
	return b, b.MakePartSet(types.BlockPartSizeBytes)
}

func (net *vfNet) byzProposalMsgs(idx int, h uint64, r uint32, polRound uint32, blk *types.Block, ps *types.PartSet, chainID string) []msgInfo {
	id := types.BlockID{Hash: blk.Hash(), PartsHeader: ps.Header()}
	prop := types.NewProposal(h, r, polRound, id)
	prop.Timestamp = time.Unix(1700000000+int64(h)*10+int64(r), 0)
	p := prop.ToProto()
	pv := types.NewDefaultPrivValidator(net.keys[idx])
	if err := pv.SignProposal(chainID, p); err != nil {
		return nil
	}
	prop.Signature = p.Signature
	out := []msgInfo{{&ProposalMessage{prop}, "byz"}}
	for i := 0; i < int(ps.Total()); i++ {
		out = append(out, msgInfo{&BlockPartMessage{h, r, ps.GetPart(i)}, "byz"})
	}
	return out
}

// valIndexAt returns the index of validator idx in the node's current validator set.
func vfValIndex(cs *ConsensusState, addr common.Address) (uint32, bool) {
	i, v := cs.Validators.GetByAddress(addr)
	if v == nil {
		return 0, false
	}
	return uint32(i), true
}

// byzAct performs one random Byzantine action against node target.
func (net *vfNet) byzAct(o *vfOut) {
	var byzIdx []int
	for i := range net.keys {
		if net.byz[i] {
			byzIdx = append(byzIdx, i)
		}
	}
	if len(byzIdx) == 0 {
		return
	}
	b := byzIdx[net.r.Intn(len(byzIdx))]
	tpos := net.r.Intn(len(net.nodes))
	t := net.nodes[tpos]
	cs := t.cs
	h := cs.Height
	chainID := cs.state.ChainID
	vi, ok := vfValIndex(cs, net.addrs[b])
	if !ok {
		return
	}
	net.observeProposals()
	switch net.r.Intn(10) {
	case 0, 1: // (equivocating) proposal when it is our turn at the target's round
		if cs.Validators.GetProposer() != nil && cs.Validators.GetProposer().Address.Equal(net.addrs[b]) && cs.Step <= cstypes.RoundStepPropose {
			variant := net.r.Intn(3)
			blk, ps := net.byzBlock(t, b, variant)
			if blk == nil {
				return
			}
			net.learnBlock(h, blk, ps)
			msgs := net.byzProposalMsgs(b, h, cs.Round, 0, blk, ps, chainID)
			// to the target, and with some probability the same proposal to others
			for pos := range net.nodes {
				if pos == tpos || net.r.Chance(40) {
					for _, m := range msgs {
						net.pool = append(net.pool, vfPending{pos, m, b})
						net.remember(m)
					}
				}
			}
			o.Stat("byz.proposal")
		}
	case 2: // replay a correct validator's vote under the other vote type (signature kept)
		msgs := net.allMsgs[h]
		if len(msgs) == 0 {
			return
		}
		for try := 0; try < 10; try++ {
			vm, ok := msgs[net.r.Intn(len(msgs))].Msg.(*VoteMessage)
			if !ok || net.byz[net.valIdx[vm.Vote.ValidatorAddress]] {
				continue
			}
			cp := *vm.Vote
			if cp.Type == kproto.PrevoteType {
				cp.Type = kproto.PrecommitType
			} else {
				cp.Type = kproto.PrevoteType
			}
			m := msgInfo{&VoteMessage{&cp}, "byz"}
			for pos := range net.nodes {
				if pos == tpos || net.r.Chance(50) {
					net.pool = append(net.pool, vfPending{pos, m, b})
				}
			}
			o.Stat("byz.relabel")
			return
		}
	default: // a vote: any type, a round near the target's, any known block or nil
		typ := kproto.PrevoteType
		if net.r.Bool() {
			typ = kproto.PrecommitType
		}
		round := cs.Round
		switch net.r.Intn(6) {
		case 0:
			if round > 1 {
				round--
			}
		case 1:
			round++
		}
		ids := net.knownIDs(h)
		var id types.BlockID
		if len(ids) > 0 && net.r.Chance(80) {
			id = ids[net.r.Intn(len(ids))]
		}
		v := net.signVote(b, h, round, typ, id, chainID, vi)
		if v == nil {
			return
		}
		net.record(v)
		m := msgInfo{&VoteMessage{v}, "byz"}
		net.remember(m)
		for pos := range net.nodes {
			if pos == tpos || net.r.Chance(50) {
				net.pool = append(net.pool, vfPending{pos, m, b})
			}
		}
		o.Stat("byz.vote")
	}
}

// committed returns the block key node n stored at height h ("" if none).
func vfCommitted(n *vfNode, h uint64) string {
	if n.bo.Height() < h {
		return ""
	}
	meta := n.bo.LoadBlockMeta(h)
	if meta == nil {
		return ""
	}
	return vfBlockKey(meta.BlockID)
}

var _ = cstypes.RoundStepCommit
