package types

// C11 harness: "signatures bind signer and full content of votes, proposals and transactions".
//
// Correspondence (model `signbytes`): bit-exact sign bytes of votes/proposals, signing-hash
// preimages of transactions, deriveChainId / isProtectedV / SignatureValues / the range checks of
// Sender and crypto.ValidateSignatureValues.
// Oracle (from the property, independent of the model): sign with a fresh key, verification must
// succeed and return the signer; every single-field mutation must fail or recover somebody else;
// cross-chain replay, high-s twins, out-of-range r/s/V and random signature strings are rejected
// without a panic.

import (
	"bytes"
	"crypto/ecdsa"
	"fmt"
	"math/big"
	"testing"
	"time"

	"github.com/kardiachain/go-kardia/configs"
	"github.com/kardiachain/go-kardia/lib/common"
	"github.com/kardiachain/go-kardia/lib/crypto"
	"github.com/kardiachain/go-kardia/lib/rlp"
	kproto "github.com/kardiachain/go-kardia/proto/kardiachain/types"
)

const c11Model = "signbytes"

// Findings that fire on a large share of the cases (F22, F23) are reported a few times per run
// and counted afterwards, so that they cannot crowd other violations out of the record file.
var c11Reported = map[string]int{}

func c11ViolCapped(o *vfOut, sig, detail string) {
	c11Reported[sig]++
	o.Stat("finding." + sig)
	if c11Reported[sig] <= 3 {
		o.Viol(sig, detail)
	}
}

// the curve order, written down here from SEC 2 (not read from the code under test)
var c11N, _ = new(big.Int).SetString("fffffffffffffffffffffffffffffffebaaedce6af48a03bbfd25e8cd0364141", 16)
var c11HalfN = new(big.Int).Rsh(c11N, 1)

// ---------------------------------------------------------------- generators

func c11Chain(r *vfRand) string {
	switch r.Intn(10) {
	case 0:
		return ""
	case 1:
		return "kai"
	case 2:
		return "test-chain-id"
	case 3:
		return string(r.Bytes(r.Pick(127, 128, 129, 300)))
	case 4:
		return string([]byte{byte(r.Intn(256))})
	case 5:
		return string(bytes.Repeat([]byte{0}, 1+r.Intn(3)))
	default:
		return string(r.Bytes(1 + r.Intn(24)))
	}
}

func c11U64(r *vfRand) uint64 {
	switch r.Intn(12) {
	case 0:
		return 0
	case 1:
		return 1
	case 2:
		return uint64(r.Pick(127, 128, 129, 16383, 16384))
	case 3:
		return 1 << 32
	case 4:
		return 1<<63 - 1
	case 5:
		return 1 << 63
	case 6:
		return ^uint64(0)
	case 7:
		return uint64(r.Intn(1000))
	default:
		return r.U64() >> uint(r.Intn(64))
	}
}

func c11U32(r *vfRand) uint32 {
	switch r.Intn(10) {
	case 0, 1:
		return 0
	case 2:
		return 1
	case 3:
		return uint32(r.Pick(127, 128, 16383, 16384))
	case 4:
		return 1<<31 - 1
	case 5:
		return 1 << 31
	case 6:
		return ^uint32(0)
	default:
		return uint32(r.U64() >> uint(32+r.Intn(32)))
	}
}

func c11Type(r *vfRand, valid bool) kproto.SignedMsgType {
	if valid || r.Chance(60) {
		return kproto.SignedMsgType(1 + r.Intn(2))
	}
	switch r.Intn(7) {
	case 0:
		return 0
	case 1:
		return 32
	case 2:
		return -1
	case 3:
		return 3
	case 4:
		return 1<<31 - 1
	case 5:
		return -1 << 31
	default:
		return kproto.SignedMsgType(int32(r.U64()))
	}
}

const c11MinSec = int64(-62135596800)
const c11MaxSec = int64(253402300800)

func c11Time(r *vfRand, valid bool) time.Time {
	var s int64
	switch r.Intn(12) {
	case 0:
		s = 0
	case 1:
		s = 1
	case 2:
		s = -1
	case 3:
		s = c11MinSec
	case 4:
		s = c11MaxSec - 1
	case 5:
		s = 1600000000 + int64(r.Intn(400000000))
	case 6:
		s = -int64(r.U64() % uint64(-c11MinSec))
	case 7:
		s = int64(r.U64() % uint64(c11MaxSec))
	case 8:
		s = int64(r.Pick(127, 128, 16383, 16384, 1<<31-1, 1<<31))
	case 9:
		if valid {
			s = 4102444800 // 2100-01-01
		} else {
			if r.Bool() {
				s = c11MaxSec + int64(r.Pick(0, 1, 1000)) // just outside above
			} else {
				s = c11MinSec - 1 - int64(r.Intn(1000))
			}
		}
	case 10:
		if valid {
			s = 253402300799
		} else {
			s = int64(r.U64()) // anywhere in int64, almost always out of range
		}
	default:
		s = int64(r.Intn(1 << 20))
	}
	var ns int64
	switch r.Intn(5) {
	case 0:
		ns = 0
	case 1:
		ns = 1
	case 2:
		ns = 999999999
	case 3:
		ns = int64(r.Pick(127, 128, 16384))
	default:
		ns = int64(r.Intn(1000000000))
	}
	return time.Unix(s, ns).UTC()
}

func c11Hash(r *vfRand) common.Hash {
	var h common.Hash
	switch r.Intn(6) {
	case 0:
	case 1:
		h[31] = 1
	case 2:
		h[0] = byte(1 + r.Intn(255))
	default:
		copy(h[:], r.Bytes(32))
	}
	return h
}

func c11BlockID(r *vfRand) BlockID {
	switch r.Intn(8) {
	case 0, 1:
		return BlockID{}
	case 2:
		return BlockID{Hash: c11Hash(r)}
	case 3:
		return BlockID{PartsHeader: PartSetHeader{Total: c11U32(r)}}
	case 4:
		return BlockID{PartsHeader: PartSetHeader{Hash: c11Hash(r)}}
	default:
		return BlockID{Hash: c11Hash(r), PartsHeader: PartSetHeader{Total: c11U32(r), Hash: c11Hash(r)}}
	}
}

// raw proto-level block id (hash fields of any length): differential only
func c11RawBytes(r *vfRand) []byte {
	switch r.Intn(8) {
	case 0:
		return nil
	case 1:
		return []byte{}
	case 2:
		return make([]byte, r.Pick(1, 31, 32, 33, 40))
	case 3:
		b := make([]byte, r.Pick(33, 40, 64))
		b[0] = 1 // non-zero only in the part cropped by BytesToHash
		return b
	case 4:
		b := make([]byte, r.Pick(1, 20, 32, 33))
		b[len(b)-1] = byte(1 + r.Intn(255))
		return b
	default:
		return r.Bytes(r.Pick(1, 20, 32, 32, 32, 33, 64))
	}
}

func c11BidOp(b kproto.BlockID) string {
	return fmt.Sprintf("bh=%s bt=%d bp=%s", vfHex(b.Hash), b.PartSetHeader.Total, vfHex(b.PartSetHeader.Hash))
}

func c11VoteOp(chain string, v *kproto.Vote) string {
	return fmt.Sprintf("votebytes chain=%s type=%d h=%d r=%d %s s=%d n=%d", vfHex([]byte(chain)), int32(v.Type),
		v.Height, v.Round, c11BidOp(v.BlockID), v.Timestamp.Unix(), v.Timestamp.Nanosecond())
}

func c11PropOp(chain string, p *kproto.Proposal) string {
	return fmt.Sprintf("proposalbytes chain=%s h=%d r=%d pol=%d %s s=%d n=%d", vfHex([]byte(chain)),
		p.Height, p.Round, p.PolRound, c11BidOp(p.BlockID), p.Timestamp.Unix(), p.Timestamp.Nanosecond())
}

// real sign bytes or "err" when the function panics (marshal error)
func c11Bytes(f func() []byte) (out string) {
	defer func() {
		if recover() != nil {
			out = "err"
		}
	}()
	return vfHex(f())
}

func c11Key() (*ecdsa.PrivateKey, common.Address) {
	k, err := crypto.GenerateKey()
	if err != nil {
		panic(err)
	}
	return k, crypto.PubkeyToAddress(k.PublicKey)
}

func c11FlipHash(r *vfRand, h common.Hash) common.Hash {
	h[r.Intn(32)] ^= byte(1 << uint(r.Intn(8)))
	return h
}

func c11OtherChain(r *vfRand, c string) string {
	for {
		var d string
		switch r.Intn(5) {
		case 0:
			d = c + string([]byte{byte(r.Intn(256))})
		case 1:
			if len(c) > 0 {
				d = c[:len(c)-1]
			} else {
				d = "x"
			}
		case 2:
			if len(c) > 0 {
				b := []byte(c)
				b[r.Intn(len(b))] ^= byte(1 << uint(r.Intn(8)))
				d = string(b)
			} else {
				d = "\x00"
			}
		case 3:
			d = ""
		default:
			d = c11Chain(r)
		}
		if d != c {
			return d
		}
	}
}

func c11OtherU64(r *vfRand, x uint64) uint64 {
	for {
		var y uint64
		switch r.Intn(5) {
		case 0:
			y = x + 1
		case 1:
			y = x - 1
		case 2:
			y = x ^ (1 << uint(r.Intn(64)))
		case 3:
			y = 0
		default:
			y = c11U64(r)
		}
		if y != x {
			return y
		}
	}
}

func c11OtherU32(r *vfRand, x uint32) uint32 {
	for {
		var y uint32
		switch r.Intn(5) {
		case 0:
			y = x + 1
		case 1:
			y = x - 1
		case 2:
			y = x ^ (1 << uint(r.Intn(32)))
		case 3:
			y = 0
		default:
			y = c11U32(r)
		}
		if y != x {
			return y
		}
	}
}

// ---------------------------------------------------------------- votes

func c11VoteDiff(o *vfOut, r *vfRand) {
	// proto-level input straight into VoteSignBytes (arbitrary hash lengths, any type, any time)
	pb := &kproto.Vote{Type: c11Type(r, false), Height: c11U64(r), Round: c11U32(r), Timestamp: c11Time(r, r.Chance(40))}
	if r.Chance(50) {
		pb.BlockID = kproto.BlockID{Hash: c11RawBytes(r), PartSetHeader: kproto.PartSetHeader{Total: c11U32(r) * uint32(r.Intn(2)), Hash: c11RawBytes(r)}}
	} else {
		b := c11BlockID(r)
		pb.BlockID = b.ToProto()
	}
	chain := c11Chain(r)
	op := c11VoteOp(chain, pb)
	real := c11Bytes(func() []byte { return VoteSignBytes(chain, pb) })
	o.Op(c11Model, op, real)
	o.Stat("vote.diff")
	if real == "err" {
		o.Stat("vote.diff.marshal-error")
	}
	o.Case(op, real != "err")
}

type c11VoteMut struct {
	name string
	f    func(v *Vote, chain *string, addr *common.Address)
}

func c11VoteOracle(o *vfOut, r *vfRand) {
	key, addr := c11Key()
	_, other := c11Key()
	var pv PrivValidator
	if r.Bool() {
		pv = NewDefaultPrivValidator(key)
	} else {
		pv = NewMockPVWithParams(key, false, false)
	}
	chain := c11Chain(r)
	vote := &Vote{ValidatorAddress: addr, ValidatorIndex: c11U32(r), Height: c11U64(r), Round: c11U32(r),
		Timestamp: c11Time(r, true), Type: c11Type(r, r.Chance(85)), BlockID: c11BlockID(r)}
	pb := vote.ToProto()
	op := c11VoteOp(chain, pb)
	real := c11Bytes(func() []byte { return VoteSignBytes(chain, pb) })
	o.Op(c11Model, op, real)
	o.Case(op, real != "err")
	if real == "err" {
		o.Viol("c11-vote-signbytes-panic", op)
		return
	}
	var serr error
	if vfGuard(o, "c11-vote-sign-panic", func() string { return op }, func() { serr = pv.SignVote(chain, pb) }) {
		return
	}
	if serr != nil {
		o.Viol("c11-vote-sign-error", serr.Error()+" "+op)
		return
	}
	vote.Signature = pb.Signature
	var verr error
	if vfGuard(o, "c11-vote-verify-panic", func() string { return op }, func() { verr = vote.Verify(chain, addr) }) {
		return
	}
	if verr != nil {
		o.Viol("c11-vote-sign-verify", "freshly signed vote rejected: "+verr.Error()+" "+op)
		return
	}
	o.Stat("vote.signed")
	o.Sample(op + " -> " + real)
	muts := []c11VoteMut{
		{"chain", func(v *Vote, c *string, a *common.Address) { *c = c11OtherChain(r, *c) }},
		{"type", func(v *Vote, c *string, a *common.Address) {
			if v.Type == 1 || v.Type == 2 {
				if r.Chance(70) {
					v.Type = 3 - v.Type
					return
				}
			}
			for {
				t := c11Type(r, false)
				if t != v.Type {
					v.Type = t
					return
				}
			}
		}},
		{"height", func(v *Vote, c *string, a *common.Address) { v.Height = c11OtherU64(r, v.Height) }},
		{"round", func(v *Vote, c *string, a *common.Address) { v.Round = c11OtherU32(r, v.Round) }},
		{"block-hash", func(v *Vote, c *string, a *common.Address) { v.BlockID.Hash = c11FlipHash(r, v.BlockID.Hash) }},
		{"parts-total", func(v *Vote, c *string, a *common.Address) {
			v.BlockID.PartsHeader.Total = c11OtherU32(r, v.BlockID.PartsHeader.Total)
		}},
		{"parts-hash", func(v *Vote, c *string, a *common.Address) {
			v.BlockID.PartsHeader.Hash = c11FlipHash(r, v.BlockID.PartsHeader.Hash)
		}},
		{"block-nil", func(v *Vote, c *string, a *common.Address) {
			if v.BlockID.IsZero() {
				v.BlockID = BlockID{Hash: c11FlipHash(r, common.Hash{}), PartsHeader: PartSetHeader{Total: 1, Hash: c11FlipHash(r, common.Hash{})}}
			} else {
				v.BlockID = BlockID{}
			}
		}},
		{"time-sec", func(v *Vote, c *string, a *common.Address) {
			d := time.Duration(1+r.Intn(3)) * time.Second
			if v.Timestamp.Unix() >= c11MaxSec-4 || (r.Bool() && v.Timestamp.Unix() > c11MinSec+4) {
				d = -d
			}
			v.Timestamp = v.Timestamp.Add(d)
		}},
		{"time-nano", func(v *Vote, c *string, a *common.Address) {
			ns := v.Timestamp.Nanosecond()
			n2 := r.Intn(1000000000)
			if r.Bool() {
				n2 = (ns + 1) % 1000000000
			}
			if n2 == ns {
				n2 = (ns + 7) % 1000000000
			}
			v.Timestamp = time.Unix(v.Timestamp.Unix(), int64(n2)).UTC()
		}},
		// presented under another signer: the vote names the signer, the verifier expects somebody else
		{"signer-expected", func(v *Vote, c *string, a *common.Address) { *a = other }},
		// the vote names somebody else, the verifier expects the real signer
		{"signer-named", func(v *Vote, c *string, a *common.Address) { v.ValidatorAddress = other }},
		// both say "other": only the recovered address can tell
		{"signer-both", func(v *Vote, c *string, a *common.Address) { v.ValidatorAddress = other; *a = other }},
	}
	for _, m := range muts {
		v2 := vote.Copy()
		c2, a2 := chain, addr
		m.f(v2, &c2, &a2)
		var err error
		if vfGuard(o, "c11-vote-verify-panic", func() string { return "mutation " + m.name + " of " + op }, func() { err = v2.Verify(c2, a2) }) {
			continue
		}
		o.Stat("vote.mut." + m.name)
		if err == nil {
			o.Viol("c11-vote-mut-"+m.name, fmt.Sprintf("signature still accepted after changing %s: %s => %s", m.name, op, c11VoteOp(c2, v2.ToProto())))
		}
	}
	// the signature of a vote must not verify as a proposal with the same coordinates
	prop := &Proposal{Height: vote.Height, Round: vote.Round, POLRound: 0, Timestamp: vote.Timestamp, POLBlockID: vote.BlockID}
	ok := false
	vfGuard(o, "c11-proposal-verify-panic", func() string { return op }, func() {
		ok = VerifySignature(addr, crypto.Keccak256(ProposalSignBytes(chain, prop.ToProto())), vote.Signature)
	})
	if ok {
		o.Viol("c11-vote-as-proposal", op)
	}
	// the free function must compare the recovered address
	digest := crypto.Keccak256(VoteSignBytes(chain, pb))
	if !VerifySignature(addr, digest, vote.Signature) {
		o.Viol("c11-verifysignature-rejects-signer", op)
	}
	if VerifySignature(other, digest, vote.Signature) {
		o.Viol("c11-verifysignature-other-address", op)
	}
	if crypto.VerifySignature(other, digest, vote.Signature) {
		o.Viol("c11-crypto-verifysignature-other-address", op)
	}
	d2 := append([]byte{}, digest...)
	d2[r.Intn(32)] ^= byte(1 << uint(r.Intn(8)))
	if VerifySignature(addr, d2, vote.Signature) {
		o.Viol("c11-verifysignature-other-digest", op)
	}
}

// ---------------------------------------------------------------- proposals

func c11PropDiff(o *vfOut, r *vfRand) {
	pb := &kproto.Proposal{Type: c11Type(r, false), Height: c11U64(r), Round: c11U32(r), PolRound: c11U32(r), Timestamp: c11Time(r, r.Chance(40))}
	if r.Chance(50) {
		pb.BlockID = kproto.BlockID{Hash: c11RawBytes(r), PartSetHeader: kproto.PartSetHeader{Total: c11U32(r) * uint32(r.Intn(2)), Hash: c11RawBytes(r)}}
	} else {
		b := c11BlockID(r)
		pb.BlockID = b.ToProto()
	}
	chain := c11Chain(r)
	op := c11PropOp(chain, pb)
	real := c11Bytes(func() []byte { return ProposalSignBytes(chain, pb) })
	o.Op(c11Model, op, real)
	o.Stat("proposal.diff")
	o.Case(op, real != "err")
}

type c11PropMut struct {
	name string
	f    func(p *Proposal, chain *string, addr *common.Address)
}

func c11PropVerify(chain string, addr common.Address, p *Proposal) bool {
	// what consensus/state.go defaultSetProposal does
	return VerifySignature(addr, crypto.Keccak256(ProposalSignBytes(chain, p.ToProto())), p.Signature)
}

func c11PropOracle(o *vfOut, r *vfRand) {
	key, addr := c11Key()
	_, other := c11Key()
	var pv PrivValidator
	if r.Bool() {
		pv = NewDefaultPrivValidator(key)
	} else {
		pv = NewMockPVWithParams(key, false, false)
	}
	chain := c11Chain(r)
	prop := &Proposal{Height: c11U64(r), Round: c11U32(r), POLRound: c11U32(r), Timestamp: c11Time(r, true), POLBlockID: c11BlockID(r)}
	pb := prop.ToProto()
	op := c11PropOp(chain, pb)
	real := c11Bytes(func() []byte { return ProposalSignBytes(chain, pb) })
	o.Op(c11Model, op, real)
	o.Case(op, real != "err")
	if real == "err" {
		o.Viol("c11-proposal-signbytes-panic", op)
		return
	}
	var serr error
	if vfGuard(o, "c11-proposal-sign-panic", func() string { return op }, func() { serr = pv.SignProposal(chain, pb) }) {
		return
	}
	if serr != nil {
		o.Viol("c11-proposal-sign-error", serr.Error()+" "+op)
		return
	}
	prop.Signature = pb.Signature
	ok := false
	if vfGuard(o, "c11-proposal-verify-panic", func() string { return op }, func() { ok = c11PropVerify(chain, addr, prop) }) {
		return
	}
	if !ok {
		o.Viol("c11-proposal-sign-verify", "freshly signed proposal rejected: "+op)
		return
	}
	o.Stat("proposal.signed")
	o.Sample(op + " -> " + real)
	muts := []c11PropMut{
		{"chain", func(p *Proposal, c *string, a *common.Address) { *c = c11OtherChain(r, *c) }},
		{"height", func(p *Proposal, c *string, a *common.Address) { p.Height = c11OtherU64(r, p.Height) }},
		{"round", func(p *Proposal, c *string, a *common.Address) { p.Round = c11OtherU32(r, p.Round) }},
		{"pol-round", func(p *Proposal, c *string, a *common.Address) { p.POLRound = c11OtherU32(r, p.POLRound) }},
		{"block-hash", func(p *Proposal, c *string, a *common.Address) { p.POLBlockID.Hash = c11FlipHash(r, p.POLBlockID.Hash) }},
		{"parts-total", func(p *Proposal, c *string, a *common.Address) {
			p.POLBlockID.PartsHeader.Total = c11OtherU32(r, p.POLBlockID.PartsHeader.Total)
		}},
		{"parts-hash", func(p *Proposal, c *string, a *common.Address) {
			p.POLBlockID.PartsHeader.Hash = c11FlipHash(r, p.POLBlockID.PartsHeader.Hash)
		}},
		{"block-nil", func(p *Proposal, c *string, a *common.Address) {
			if p.POLBlockID.IsZero() {
				p.POLBlockID = BlockID{Hash: c11FlipHash(r, common.Hash{}), PartsHeader: PartSetHeader{Total: 1, Hash: c11FlipHash(r, common.Hash{})}}
			} else {
				p.POLBlockID = BlockID{}
			}
		}},
		{"time-sec", func(p *Proposal, c *string, a *common.Address) {
			d := time.Duration(1+r.Intn(3)) * time.Second
			if p.Timestamp.Unix() >= c11MaxSec-4 || (r.Bool() && p.Timestamp.Unix() > c11MinSec+4) {
				d = -d
			}
			p.Timestamp = p.Timestamp.Add(d)
		}},
		{"time-nano", func(p *Proposal, c *string, a *common.Address) {
			ns := p.Timestamp.Nanosecond()
			n2 := (ns + 1 + r.Intn(999999998)) % 1000000000
			p.Timestamp = time.Unix(p.Timestamp.Unix(), int64(n2)).UTC()
		}},
		{"signer", func(p *Proposal, c *string, a *common.Address) { *a = other }},
	}
	for _, m := range muts {
		p2 := *prop
		c2, a2 := chain, addr
		m.f(&p2, &c2, &a2)
		acc := false
		if vfGuard(o, "c11-proposal-verify-panic", func() string { return "mutation " + m.name + " of " + op }, func() { acc = c11PropVerify(c2, a2, &p2) }) {
			continue
		}
		o.Stat("proposal.mut." + m.name)
		if acc {
			o.Viol("c11-proposal-mut-"+m.name, fmt.Sprintf("signature still accepted after changing %s: %s => %s", m.name, op, c11PropOp(c2, p2.ToProto())))
		}
	}
	// a proposal signature must not verify as a vote of either type with the same coordinates
	for _, ty := range []kproto.SignedMsgType{1, 2, 32} {
		v := &Vote{ValidatorAddress: addr, Height: prop.Height, Round: prop.Round, Timestamp: prop.Timestamp, Type: ty, BlockID: prop.POLBlockID, Signature: prop.Signature}
		var err error = fmt.Errorf("panic")
		vfGuard(o, "c11-vote-verify-panic", func() string { return op }, func() { err = v.Verify(chain, addr) })
		if err == nil {
			o.Viol("c11-proposal-as-vote", fmt.Sprintf("type %d: %s", ty, op))
		}
	}
}

// ---------------------------------------------------------------- transactions

func c11Big(r *vfRand) *big.Int {
	switch r.Intn(8) {
	case 0:
		return new(big.Int)
	case 1:
		return big.NewInt(1)
	case 2:
		return big.NewInt(int64(r.Pick(127, 128, 255, 256)))
	case 3:
		return new(big.Int).Sub(new(big.Int).Lsh(big.NewInt(1), 256), big.NewInt(1))
	case 4:
		return new(big.Int).SetUint64(r.U64())
	default:
		return new(big.Int).SetBytes(r.Bytes(1 + r.Intn(32)))
	}
}

func c11Data(r *vfRand) []byte {
	switch r.Intn(9) {
	case 0, 1:
		return nil
	case 2:
		return []byte{byte(r.Pick(0, 1, 0x7f, 0x80, 0xff))}
	case 3:
		return r.Bytes(r.Pick(54, 55, 56, 57))
	case 4:
		return r.Bytes(r.Pick(255, 256, 300))
	default:
		return r.Bytes(1 + r.Intn(70))
	}
}

func c11GenTx(r *vfRand) *Transaction {
	var to *common.Address
	switch r.Intn(5) {
	case 0:
	case 1:
		to = &common.Address{}
	default:
		a := common.BytesToAddress(r.Bytes(20))
		to = &a
	}
	return newTransaction(c11U64(r), to, c11Big(r), c11U64(r), c11Big(r), c11Data(r))
}

// chain id for a ChainIDSigner (never 0 here)
func c11ChainID(r *vfRand) *big.Int {
	switch r.Intn(10) {
	case 0:
		return big.NewInt(1)
	case 1:
		return big.NewInt(int64(r.Pick(2, 24, 69, 110, 111)))
	case 2:
		return big.NewInt(1<<63 - 1)
	case 3:
		return new(big.Int).SetUint64(1 << 63)
	case 4:
		return new(big.Int).SetUint64(^uint64(0))
	case 5:
		return new(big.Int).Lsh(big.NewInt(1), 64)
	case 6:
		return new(big.Int).Add(new(big.Int).SetBytes(r.Bytes(9+r.Intn(8))), big.NewInt(1))
	case 7:
		return new(big.Int).SetUint64((^uint64(0) - 35) / 2) // V close to 2^64
	default:
		return new(big.Int).SetUint64(1 + r.U64()>>uint(1+r.Intn(62)))
	}
}

func c11SignerTok(s Signer) string {
	if c, ok := s.(ChainIDSigner); ok {
		return c.chainId.String()
	}
	return "-"
}

func c11ToTok(a *common.Address) string {
	if a == nil {
		return "nil"
	}
	return vfHex(a[:])
}

// the preimage of the signing hash, rebuilt the way the signer does it
func c11Preimage(s Signer, tx *Transaction) []byte {
	var fields []interface{}
	if c, ok := s.(ChainIDSigner); ok {
		fields = []interface{}{tx.Nonce(), tx.GasPrice(), tx.Gas(), tx.To(), tx.Value(), tx.Data(), c.chainId, uint(0), uint(0)}
	} else {
		fields = []interface{}{tx.data.AccountNonce, tx.data.Price, tx.data.GasLimit, tx.data.Recipient, tx.data.Amount, tx.data.Payload}
	}
	b, err := rlp.EncodeToBytes(fields)
	if err != nil {
		panic(err)
	}
	return b
}

func c11TxOp(s Signer, tx *Transaction) string {
	return fmt.Sprintf("txpreimage chain=%s nonce=%d price=%s gas=%d to=%s value=%s data=%s", c11SignerTok(s),
		tx.data.AccountNonce, tx.data.Price.String(), tx.data.GasLimit, c11ToTok(tx.data.Recipient), tx.data.Amount.String(), vfHex(tx.data.Payload))
}

// copy of a transaction with the same signature values and no caches
func c11CopyTx(tx *Transaction) *Transaction {
	d := tx.data
	d.Price = new(big.Int).Set(tx.data.Price)
	d.Amount = new(big.Int).Set(tx.data.Amount)
	d.Payload = append([]byte{}, tx.data.Payload...)
	if tx.data.Recipient != nil {
		a := *tx.data.Recipient
		d.Recipient = &a
	}
	d.V, d.R, d.S = new(big.Int).Set(tx.data.V), new(big.Int).Set(tx.data.R), new(big.Int).Set(tx.data.S)
	return &Transaction{data: d}
}

func c11Sender(o *vfOut, s Signer, tx *Transaction, what string) (a common.Address, err error) {
	err = fmt.Errorf("panic")
	vfGuard(o, "c11-sender-panic", func() string { return what }, func() { a, err = Sender(s, tx) })
	return
}

func c11OtherBig(r *vfRand, x *big.Int) *big.Int {
	for {
		var y *big.Int
		switch r.Intn(4) {
		case 0:
			y = new(big.Int).Add(x, big.NewInt(1))
		case 1:
			y = new(big.Int).Sub(x, big.NewInt(1))
		case 2:
			y = new(big.Int).Xor(x, new(big.Int).Lsh(big.NewInt(1), uint(r.Intn(256))))
		default:
			y = c11Big(r)
		}
		if y.Sign() >= 0 && y.Cmp(x) != 0 {
			return y
		}
	}
}

type c11TxMut struct {
	name string
	f    func(tx *Transaction)
}

func c11TxOracle(o *vfOut, r *vfRand) {
	key, addr := c11Key()
	tx := c11GenTx(r)
	var signer Signer
	protected := r.Chance(70)
	if protected {
		signer = NewChainIDSigner(c11ChainID(r))
	} else {
		signer = HomesteadSigner{}
	}
	op := c11TxOp(signer, tx)
	pre := c11Preimage(signer, tx)
	o.Op(c11Model, op, vfHex(pre))
	o.Case(op, true)
	h := signer.Hash(tx)
	if !bytes.Equal(crypto.Keccak256(pre), h[:]) {
		o.Viol("c11-tx-hash-preimage", "signer.Hash(tx) is not keccak(rlp(field list)): "+op)
	}
	// --- the repository's own signing entry point
	{
		var stx *Transaction
		var err error = fmt.Errorf("panic")
		vfGuard(o, "c11-signtx-panic", func() string { return op }, func() { stx, err = SignTx(signer, tx, key) })
		if err != nil {
			o.Viol("c11-signtx-error", err.Error()+" "+op)
		} else {
			from, err := c11Sender(o, signer, stx, op)
			o.Stat("tx.signtx")
			if err != nil || from != addr {
				c11ViolCapped(o, "c11-signtx-sender-mismatch", fmt.Sprintf("Sender(signer, SignTx(signer, tx, key)) = %x, %v; key address %x; signer chain %s", from[:4], err, addr[:4], c11SignerTok(signer)))
				// consequence: what was signed is the chain-less homestead hash, so the
				// signature is a valid unprotected transaction on every chain
				if protected {
					for rec := int64(0); rec < 2; rec++ {
						cp := c11CopyTx(stx)
						cp.data.V = big.NewInt(27 + rec)
						oc := NewChainIDSigner(new(big.Int).Add(signer.ChainID(), big.NewInt(1)))
						if f2, e2 := c11Sender(o, oc, cp, op); e2 == nil && f2 == addr {
							c11ViolCapped(o, "c11-signtx-chainid-not-signed", "signature made by SignTx for chain "+c11SignerTok(signer)+" is accepted as the signer's transaction on chain "+c11SignerTok(oc)+" (V relabelled 27/28)")
						}
					}
				}
			}
		}
	}
	// --- sign the signer's hash (what SignTx is documented to do)
	sig, err := crypto.Sign(h[:], key)
	if err != nil {
		o.Viol("c11-crypto-sign-error", err.Error())
		return
	}
	stx, err := tx.WithSignature(signer, sig)
	if err != nil {
		o.Viol("c11-withsignature-error", err.Error())
		return
	}
	from, err := c11Sender(o, signer, stx, op)
	if err != nil || from != addr {
		o.Viol("c11-tx-sign-recover", fmt.Sprintf("signed signer.Hash, Sender = %x, %v, want %x: %s", from[:4], err, addr[:4], op))
		return
	}
	o.Stat("tx.signed")
	if protected {
		o.Stat("tx.signed.protected")
	}
	o.Sample(op + " V=" + stx.data.V.String())
	c11SenderDiff(o, signer, stx)
	// the same transaction under the chain-id signer when it is unprotected (accepted by design:
	// ChainIDSigner.Sender falls back to Homestead), recorded as a distribution fact only
	if !protected {
		if f2, e2 := c11Sender(o, NewChainIDSigner(c11ChainID(r)), c11CopyTx(stx), op); e2 == nil && f2 == addr {
			o.Stat("tx.unprotected-accepted-by-chainid-signer")
		}
	}
	// --- single-field mutations keep (V, R, S)
	muts := []c11TxMut{
		{"nonce", func(t *Transaction) { t.data.AccountNonce = c11OtherU64(r, t.data.AccountNonce) }},
		{"price", func(t *Transaction) { t.data.Price = c11OtherBig(r, t.data.Price) }},
		{"gas", func(t *Transaction) { t.data.GasLimit = c11OtherU64(r, t.data.GasLimit) }},
		{"to", func(t *Transaction) {
			if t.data.Recipient == nil {
				t.data.Recipient = &common.Address{}
				if r.Bool() {
					a := common.BytesToAddress(r.Bytes(20))
					t.data.Recipient = &a
				}
			} else if r.Chance(25) {
				t.data.Recipient = nil
			} else {
				a := *t.data.Recipient
				a[r.Intn(20)] ^= byte(1 << uint(r.Intn(8)))
				t.data.Recipient = &a
			}
		}},
		{"value", func(t *Transaction) { t.data.Amount = c11OtherBig(r, t.data.Amount) }},
		{"data", func(t *Transaction) {
			p := t.data.Payload
			switch {
			case len(p) == 0:
				t.data.Payload = []byte{byte(r.Pick(0, 0x80, 1))}
			case r.Chance(30):
				t.data.Payload = p[:len(p)-1]
			case r.Chance(30):
				t.data.Payload = append(p, byte(r.Intn(256)))
			default:
				p[r.Intn(len(p))] ^= byte(1 << uint(r.Intn(8)))
			}
		}},
	}
	for _, m := range muts {
		t2 := c11CopyTx(stx)
		m.f(t2)
		f2, e2 := c11Sender(o, signer, t2, "mutation "+m.name+" of "+op)
		o.Stat("tx.mut." + m.name)
		if e2 == nil && f2 == addr {
			o.Viol("c11-tx-mut-"+m.name, fmt.Sprintf("same sender recovered after changing %s: %s => %s", m.name, op, c11TxOp(signer, t2)))
		}
	}
	// --- other chains
	if protected {
		c := signer.ChainID()
		// c+27 / c+28: there V - 2*c2 - 8 is -27 / -28, which recoverPlain (BitLen and Uint64 of the
		// absolute value) would take for a valid recovery id if the chain id check did not come first
		for _, c2 := range []*big.Int{new(big.Int).Add(c, big.NewInt(1)), new(big.Int).Sub(c, big.NewInt(1)), c11ChainID(r), new(big.Int),
			new(big.Int).Add(c, big.NewInt(27)), new(big.Int).Add(c, big.NewInt(28))} {
			if c2.Cmp(c) == 0 {
				continue
			}
			t2 := c11CopyTx(stx)
			f2, e2 := c11Sender(o, NewChainIDSigner(c2), t2, op)
			o.Stat("tx.crosschain")
			if e2 == nil {
				o.Viol("c11-tx-crosschain-accepted", fmt.Sprintf("transaction signed for chain %s accepted under chain %s (sender %x, signer %x)", c, c2, f2[:4], addr[:4]))
			} else if e2 != ErrInvalidChainId {
				o.Stat("tx.crosschain.other-error")
			}
			c11SenderDiff(o, NewChainIDSigner(c2), t2)
			// the same OBJECT, after its sender was resolved (and cached) under its own chain id: the
			// cache must not answer for a signer of another chain
			t4 := c11CopyTx(stx)
			if f4, e4 := c11Sender(o, signer, t4, op); e4 == nil && f4 == addr {
				f5, e5 := c11Sender(o, NewChainIDSigner(c2), t4, op)
				o.Stat("tx.crosschain.cached-object")
				if e5 == nil {
					o.Viol("c11-tx-crosschain-accepted-from-sender-cache", fmt.Sprintf("transaction signed for chain %s, sender cached under that chain, then accepted under chain %s (sender %x)", c, c2, f5[:4]))
				}
				// and back: the genuine signer still gets the genuine sender
				if f6, e6 := c11Sender(o, signer, t4, op); e6 != nil || f6 != addr {
					o.Viol("c11-tx-sender-cache-poisoned", fmt.Sprintf("after a query under chain %s the genuine chain %s signer gets %x, %v", c2, c, f6[:4], e6))
				}
			}
			// relabel V for the other chain: passes the chain check, must recover somebody else
			t3 := c11CopyTx(stx)
			t3.data.V = new(big.Int).Add(t3.data.V, new(big.Int).Lsh(new(big.Int).Sub(c2, c), 1))
			if c2.Sign() != 0 {
				f3, e3 := c11Sender(o, NewChainIDSigner(c2), t3, op)
				if e3 == nil && f3 == addr {
					o.Viol("c11-tx-chainid-not-hashed", fmt.Sprintf("V relabelled from chain %s to %s and the signer is still recovered", c, c2))
				}
			}
		}
		t2 := c11CopyTx(stx)
		if f2, e2 := c11Sender(o, HomesteadSigner{}, t2, op); e2 == nil && f2 == addr {
			o.Viol("c11-tx-protected-under-homestead", op)
		}
		c11SenderDiff(o, HomesteadSigner{}, t2)
	}
	// --- malleability and malformed values
	recid := uint(sig[64])
	R, S := new(big.Int).SetBytes(sig[:32]), new(big.Int).SetBytes(sig[32:64])
	vFor := func(rec uint) *big.Int {
		_, _, v, _ := signer.SignatureValues(tx, append(make([]byte, 64), byte(rec)))
		return v
	}
	type bad struct {
		name    string
		v, r, s *big.Int
	}
	one := big.NewInt(1)
	bads := []bad{
		{"high-s", vFor(recid ^ 1), R, new(big.Int).Sub(c11N, S)},
		{"high-s-same-v", vFor(recid), R, new(big.Int).Sub(c11N, S)},
		{"r-zero", vFor(recid), new(big.Int), S},
		{"s-zero", vFor(recid), R, new(big.Int)},
		{"r-N", vFor(recid), c11N, S},
		{"r-N+1", vFor(recid), new(big.Int).Add(c11N, one), S},
		{"s-N", vFor(recid), R, c11N},
		{"s-N+1", vFor(recid), R, new(big.Int).Add(c11N, one)},
		{"s-halfN+1", vFor(recid), R, new(big.Int).Add(c11HalfN, one)},
		{"r-plus-N", vFor(recid), new(big.Int).Add(R, c11N), S},
		{"s-plus-N", vFor(recid), R, new(big.Int).Add(S, c11N)},
		{"v+2", new(big.Int).Add(vFor(recid), big.NewInt(2)), R, S},
		{"v-2", new(big.Int).Sub(vFor(recid), big.NewInt(2)), R, S},
		{"v+256", new(big.Int).Add(vFor(recid), big.NewInt(256)), R, S},
		{"v-zero", new(big.Int), R, S},
		{"v-recid", big.NewInt(int64(recid)), R, S},
	}
	for _, b := range bads {
		if b.v.Sign() < 0 {
			continue
		}
		t2 := c11CopyTx(stx)
		t2.data.V, t2.data.R, t2.data.S = b.v, b.r, b.s
		f2, e2 := c11Sender(o, signer, t2, "bad "+b.name+" "+op)
		o.Stat("tx.bad." + b.name)
		if e2 == nil && (f2 == addr || b.name[0] != 'v') {
			// r/s out of range must be rejected outright; a different V may at most recover somebody else
			o.Viol("c11-tx-bad-"+b.name, fmt.Sprintf("Sender accepted V=%s R=%s S=%s (sender %x, signer %x) chain %s", b.v, b.r, b.s, f2[:4], addr[:4], c11SignerTok(signer)))
		}
		c11SenderDiff(o, signer, t2)
	}
	if crypto.ValidateSignatureValues(byte(recid^1), R, new(big.Int).Sub(c11N, S), true) {
		o.Viol("c11-sigvalues-high-s", "ValidateSignatureValues(homestead) accepts s > N/2")
	}
}

// differential on the checks of Sender: classification (and, when an address comes back, which
// hash and recovery id it was recovered with)
func c11SenderDiff(o *vfOut, s Signer, tx *Transaction) {
	t2 := c11CopyTx(tx)
	args := fmt.Sprintf("chain=%s v=%s r=%s s=%s", c11SignerTok(s), t2.data.V, t2.data.R, t2.data.S)
	from, err := c11Sender(o, s, t2, "sender "+args)
	switch {
	case err == ErrInvalidChainId:
		o.Op(c11Model, "sender "+args, "chainid-err")
		o.Stat("sender.chainid-err")
	case err == ErrInvalidSig:
		o.Op(c11Model, "sender "+args, "sig-err")
		o.Stat("sender.sig-err")
	case err != nil:
		o.Op(c11Model, "senderclass "+args, "pass")
		o.Stat("sender.curve-err")
	default:
		// which (hash, recid) gives this address?
		found := ""
		rb, sb := t2.data.R.Bytes(), t2.data.S.Bytes()
		if len(rb) <= 32 && len(sb) <= 32 {
			sig := make([]byte, 65)
			copy(sig[32-len(rb):32], rb)
			copy(sig[64-len(sb):64], sb)
			kinds := []Signer{HomesteadSigner{}}
			if _, ok := s.(ChainIDSigner); ok {
				kinds = append(kinds, s)
			}
			for _, k := range kinds {
				pre := c11Preimage(k, t2)
				for rec := 0; rec < 2; rec++ {
					sig[64] = byte(rec)
					pub, e := crypto.Ecrecover(crypto.Keccak256(pre), sig)
					if e == nil && len(pub) == 65 && bytes.Equal(crypto.Keccak256(pub[1:])[12:], from[:]) {
						kt := "h"
						if c, ok := k.(ChainIDSigner); ok {
							kt = "c" + c.chainId.String()
						}
						found = fmt.Sprintf("recover %s %d", kt, rec)
					}
				}
			}
		}
		if found == "" {
			o.Viol("c11-sender-unexplained-address", "Sender returned an address that no (hash, recid) explains: "+args)
			return
		}
		o.Op(c11Model, "sender "+args, found)
		o.Stat("sender.recover")
	}
}

// ---------------------------------------------------------------- signature values and junk

func c11Scalar(r *vfRand) *big.Int {
	one := big.NewInt(1)
	switch r.Intn(14) {
	case 0:
		return new(big.Int)
	case 1:
		return big.NewInt(1)
	case 2:
		return new(big.Int).Sub(c11N, one)
	case 3:
		return new(big.Int).Set(c11N)
	case 4:
		return new(big.Int).Add(c11N, one)
	case 5:
		return new(big.Int).Set(c11HalfN)
	case 6:
		return new(big.Int).Add(c11HalfN, one)
	case 7:
		return new(big.Int).Sub(c11HalfN, one)
	case 8:
		return new(big.Int).Sub(new(big.Int).Lsh(one, 256), one)
	case 9:
		return new(big.Int).Lsh(one, 256)
	case 10:
		return new(big.Int).SetBytes(r.Bytes(1 + r.Intn(31)))
	default:
		return new(big.Int).SetBytes(r.Bytes(32))
	}
}

func c11VVal(r *vfRand) *big.Int {
	switch r.Intn(10) {
	case 0:
		return big.NewInt(int64(r.Pick(27, 28)))
	case 1:
		return big.NewInt(int64(r.Intn(40)))
	case 2:
		return big.NewInt(int64(r.Intn(300)))
	case 3:
		return new(big.Int).SetUint64(^uint64(0) - uint64(r.Intn(3)))
	case 4:
		return new(big.Int).Add(new(big.Int).Lsh(big.NewInt(1), 64), big.NewInt(int64(r.Intn(40))))
	case 5:
		return new(big.Int).SetBytes(r.Bytes(9 + r.Intn(10)))
	case 6:
		c := c11ChainID(r)
		return new(big.Int).Add(new(big.Int).Lsh(c, 1), big.NewInt(int64(35+r.Intn(2))))
	default:
		return new(big.Int).SetUint64(r.U64() >> uint(r.Intn(64)))
	}
}

func c11SigValues(o *vfOut, r *vfRand) {
	// ValidateSignatureValues: differential + the ranges of the property
	for k := 0; k < 4; k++ {
		v := byte(r.Pick(0, 1, 0, 1, 2, 3, 4, 27, 28, 255))
		R, S := c11Scalar(r), c11Scalar(r)
		hs := r.Chance(75)
		got := false
		args := fmt.Sprintf("v=%d r=%s s=%s hs=%d", v, R, S, map[bool]int{false: 0, true: 1}[hs])
		if vfGuard(o, "c11-sigvalues-panic", func() string { return args }, func() { got = crypto.ValidateSignatureValues(v, R, S, hs) }) {
			continue
		}
		o.Op(c11Model, "sigvalues "+args, map[bool]string{false: "0", true: "1"}[got])
		sMax := c11HalfN
		if !hs {
			sMax = new(big.Int).Sub(c11N, big.NewInt(1))
		}
		want := R.Sign() > 0 && R.Cmp(c11N) < 0 && S.Sign() > 0 && S.Cmp(sMax) <= 0 && (v == 0 || v == 1)
		if got != want {
			o.Viol("c11-sigvalues-range", fmt.Sprintf("ValidateSignatureValues(%s) = %v, the stated ranges say %v", args, got, want))
		}
		o.Stat(fmt.Sprintf("sigvalues.%v", got))
	}
	// deriveChainId / isProtectedV
	for k := 0; k < 3; k++ {
		V := c11VVal(r)
		o.Op(c11Model, "derivechainid v="+V.String(), deriveChainId(V).String())
		o.Op(c11Model, "protected v="+V.String(), map[bool]string{false: "0", true: "1"}[isProtectedV(V)])
	}
	// SignatureValues: V stored for a recovery byte (byte arithmetic wraps)
	{
		var s Signer = HomesteadSigner{}
		switch r.Intn(4) {
		case 0:
		case 1:
			s = NewChainIDSigner(new(big.Int))
		default:
			s = NewChainIDSigner(c11ChainID(r))
		}
		rec := byte(r.Pick(0, 1, 0, 1, 2, 27, 220, 221, 228, 229, 255, r.Intn(256)))
		sig := append(r.Bytes(64), rec)
		var V *big.Int
		if !vfGuard(o, "c11-signaturevalues-panic", func() string { return "" }, func() { _, _, V, _ = s.SignatureValues(nil, sig) }) {
			o.Op(c11Model, fmt.Sprintf("sigv chain=%s recid=%d", c11SignerTok(s), rec), V.String())
		}
	}
	// Sender on arbitrary (V, R, S): never a panic; accepted only inside the stated ranges
	for k := 0; k < 3; k++ {
		tx := c11GenTx(r)
		var s Signer = HomesteadSigner{}
		if r.Chance(70) {
			s = NewChainIDSigner(c11ChainID(r))
		}
		tx.data.V, tx.data.R, tx.data.S = c11VVal(r), c11Scalar(r), c11Scalar(r)
		if c, ok := s.(ChainIDSigner); ok && r.Chance(60) {
			tx.data.V = new(big.Int).Add(c.chainIdMul, big.NewInt(int64(35+r.Pick(0, 1, 0, 1, 2, -1))))
		} else if r.Chance(40) {
			tx.data.V = big.NewInt(int64(27 + r.Pick(0, 1, 0, 1, 2, -1)))
		}
		if r.Chance(50) { // plausible r, s so that the curve operation is reached
			tx.data.R = new(big.Int).SetBytes(r.Bytes(32))
			tx.data.S = new(big.Int).Rsh(new(big.Int).SetBytes(r.Bytes(32)), 1)
		}
		_, err := c11Sender(o, s, c11CopyTx(tx), "junk")
		if err == nil {
			R, S := tx.data.R, tx.data.S
			if !(R.Sign() > 0 && R.Cmp(c11N) < 0 && S.Sign() > 0 && S.Cmp(c11HalfN) <= 0) {
				o.Viol("c11-tx-malformed-accepted", fmt.Sprintf("Sender accepted V=%s R=%s S=%s", tx.data.V, R, S))
			}
			o.Stat("junk.sender-ok")
		}
		c11SenderDiff(o, s, tx)
	}
	// random 65-byte strings as signatures: no panic anywhere, never the expected address
	{
		_, addr := c11Key()
		sig := r.Bytes(65)
		switch r.Intn(4) {
		case 0:
			sig[64] = byte(r.Intn(2))
		case 1:
			sig[64] = byte(r.Intn(8))
		case 2:
			copy(sig[:32], make([]byte, 32))
			sig[64] = byte(r.Intn(2))
		}
		digest := r.Bytes(32)
		det := func() string { return "sig=" + vfHex(sig) + " digest=" + vfHex(digest) }
		ok := false
		vfGuard(o, "c11-verifysignature-panic", det, func() { ok = VerifySignature(addr, digest, sig) })
		if ok {
			o.Viol("c11-random-signature-accepted", det())
		}
		vfGuard(o, "c11-crypto-verifysignature-panic", det, func() { ok = crypto.VerifySignature(addr, digest, sig) })
		vfGuard(o, "c11-ecrecover-panic", det, func() { crypto.Ecrecover(digest, sig) })
		v := &Vote{ValidatorAddress: addr, Height: 1, Type: 1, Timestamp: time.Unix(1, 0), Signature: sig}
		var err error
		vfGuard(o, "c11-vote-verify-panic", det, func() { err = v.Verify("c", addr) })
		if err == nil {
			o.Viol("c11-random-signature-accepted", "Vote.Verify "+det())
		}
		tx := c11GenTx(r)
		var s Signer = HomesteadSigner{}
		if r.Bool() {
			s = NewChainIDSigner(c11ChainID(r))
		}
		var stx *Transaction
		vfGuard(o, "c11-withsignature-panic", det, func() { stx, _ = tx.WithSignature(s, sig) })
		if stx != nil {
			from, e := c11Sender(o, s, stx, det())
			if e == nil {
				R, S := stx.data.R, stx.data.S
				// the recovery id is judged on the V that SignatureValues stored, not on the input byte:
				// `sig[64] + 27` / `sig[64] + 35` are byte additions and wrap (as upstream), so e.g.
				// recid 247 under chain id 1 is stored as V = 28, a well-formed legacy signature
				// (thorough tier, seed 2: reported as malformed-accepted by the first version of this clause)
				V := stx.data.V
				okV := V.Cmp(big.NewInt(27)) == 0 || V.Cmp(big.NewInt(28)) == 0
				if c, isC := s.(ChainIDSigner); isC && !okV {
					d := new(big.Int).Sub(V, c.chainIdMul)
					okV = d.Cmp(big.NewInt(35)) == 0 || d.Cmp(big.NewInt(36)) == 0
				}
				if !(R.Sign() > 0 && R.Cmp(c11N) < 0 && S.Sign() > 0 && S.Cmp(c11HalfN) <= 0 && okV) {
					o.Viol("c11-tx-malformed-accepted", det()+" V="+V.String())
				}
				if from == addr {
					o.Viol("c11-random-signature-accepted", "Sender "+det())
				}
			}
			c11SenderDiff(o, s, stx)
		}
		o.Stat("junk.sig65")
	}
	// a non-empty signature shorter than 65 bytes passes Vote/Proposal.ValidateBasic; verification
	// must reject it, not panic
	{
		_, addr := c11Key()
		n := r.Pick(1, 2, 32, 63, 64)
		sig := r.Bytes(n)
		v := &Vote{ValidatorAddress: addr, Height: 1, Type: 1, Timestamp: time.Unix(1, 0), BlockID: BlockID{}, Signature: sig}
		if v.ValidateBasic() == nil {
			func() {
				defer func() {
					if e := recover(); e != nil {
						c11ViolCapped(o, "c11-short-signature-panic", fmt.Sprintf("panic: %v; Vote.Verify with a %d-byte signature (passes ValidateBasic)", e, n))
					}
				}()
				if v.Verify("c", addr) == nil {
					o.Viol("c11-random-signature-accepted", "short signature")
				}
			}()
			o.Stat("junk.short-sig")
		}
		sig2 := r.Bytes(r.Pick(66, 96, 130))
		v2 := &Vote{ValidatorAddress: addr, Height: 1, Type: 1, Timestamp: time.Unix(1, 0), Signature: sig2}
		var err error
		vfGuard(o, "c11-long-signature-panic", func() string { return fmt.Sprintf("%d bytes", len(sig2)) }, func() { err = v2.Verify("c", addr) })
		if err == nil {
			o.Viol("c11-random-signature-accepted", "long signature")
		}
	}
	o.Case(fmt.Sprintf("sigvalues-%d", r.U64()), true)
}

// ---------------------------------------------------------------- entry point

// c11SignerChoice: WHICH signer the node uses decides whether the chain id is bound at all. For a
// configuration (chain id, Galaxias switch block or none) and block numbers around the switch:
// MakeSigner gives the chain-id signer exactly from the switch block on, that signer refuses a
// transaction signed for another chain and recovers the sender of one signed for this chain;
// LatestSigner / LatestSignerForChainID likewise.
func c11SignerChoice(o *vfOut, r *vfRand) {
	key, addr := c11Key()
	chain := big.NewInt(int64(1 + r.Intn(1000)))
	other := new(big.Int).Add(chain, big.NewInt(int64(1+r.Intn(5))))
	var g *uint64
	if !r.Chance(25) {
		x := uint64(r.Intn(50))
		g = &x
	}
	cfg := &configs.ChainConfig{ChainID: chain, GalaxiasBlock: g}
	mk := func(sg Signer) *Transaction { // a fresh object every time: Sender caches per transaction
		to := common.BytesToAddress([]byte{7})
		tx, err := SignTx(sg, NewTransaction(3, to, big.NewInt(5), 21000, big.NewInt(1), []byte{1, 2}), key)
		if err != nil {
			return nil
		}
		return tx
	}
	desc := func(bn *uint64) string {
		gs, bs := "none", "nil"
		if g != nil {
			gs = fmt.Sprint(*g)
		}
		if bn != nil {
			bs = fmt.Sprint(*bn)
		}
		return fmt.Sprintf("chain=%v galaxias=%s block=%s", chain, gs, bs)
	}
	check := func(sg Signer, active bool, what string) {
		cid, isCID := sg.(ChainIDSigner)
		if isCID != active {
			o.Viol("c11-signer-choice", fmt.Sprintf("%s: chain-id signer=%v, expected %v", what, isCID, active))
			return
		}
		if !active {
			if _, isH := sg.(HomesteadSigner); !isH {
				o.Viol("c11-signer-choice", fmt.Sprintf("%s: %T instead of the Homestead signer", what, sg))
			}
			if tx := mk(HomesteadSigner{}); tx != nil {
				if from, err := Sender(sg, tx); err != nil || from != addr {
					o.Viol("c11-signer-choice", fmt.Sprintf("%s: unprotected transaction not recovered: %v %v", what, from, err))
				}
			}
			return
		}
		if cid.ChainID().Cmp(chain) != 0 {
			o.Viol("c11-signer-choice", fmt.Sprintf("%s: signer for chain %v", what, cid.ChainID()))
		}
		if tx := mk(NewChainIDSigner(chain)); tx != nil {
			if from, err := Sender(sg, tx); err != nil || from != addr {
				o.Viol("c11-signer-choice", fmt.Sprintf("%s: transaction signed for this chain not recovered: %v %v", what, from, err))
			}
		}
		if tx := mk(NewChainIDSigner(other)); tx != nil {
			if from, err := Sender(sg, tx); err == nil {
				o.Viol("c11-tx-replay-across-chains", fmt.Sprintf("%s: a transaction signed for chain %v is accepted (sender %x)", what, other, from[:4]))
			}
		}
	}
	vfGuard(o, "c11-signer-choice-panic", func() string { return desc(nil) }, func() {
		bns := []uint64{0, 1, 49, 50, 1 << 40}
		if g != nil {
			bns = append(bns, *g, *g+1)
			if *g > 0 {
				bns = append(bns, *g-1)
			}
		}
		for _, bn := range bns {
			b := bn
			check(MakeSigner(cfg, &b), g != nil && bn >= *g, "MakeSigner "+desc(&b))
		}
		check(MakeSigner(cfg, nil), false, "MakeSigner "+desc(nil))
		check(LatestSigner(cfg), g != nil, "LatestSigner "+desc(nil))
		check(LatestSigner(&configs.ChainConfig{GalaxiasBlock: g}), false, "LatestSigner without chain id "+desc(nil))
		check(LatestSignerForChainID(chain), true, "LatestSignerForChainID "+desc(nil))
		check(LatestSignerForChainID(nil), false, "LatestSignerForChainID(nil)")
	})
	o.Stat("signer-choice")
	o.Case("signer-choice:"+desc(nil), true)
}

// c11WireForms: a signed vote / proposal / transaction keeps its signer and content across the
// wire form (ToProto -> FromProto, RLP, the transaction list of a block)
func c11WireForms(o *vfOut, r *vfRand) {
	key, addr := c11Key()
	chain := c11Chain(r)
	pv := NewDefaultPrivValidator(key)
	vfGuard(o, "c11-wire-forms-panic", func() string { return "proposal" }, func() {
		bid := c11BlockID(r)
		if !bid.IsComplete() || bid.ValidateBasic() != nil {
			bid = BlockID{Hash: c11FlipHash(r, common.Hash{}), PartsHeader: PartSetHeader{Total: 1 + uint32(r.Intn(5)), Hash: c11FlipHash(r, common.Hash{})}}
		}
		round := c11U32(r) % 1000
		pol := uint32(0)
		if round > 1 && r.Bool() {
			pol = 1 + uint32(r.Intn(int(round)-1))
		}
		prop := NewProposal(1+c11U64(r)%(1<<40), round, pol, bid)
		pb := prop.ToProto()
		before := ProposalSignBytes(chain, pb)
		if err := pv.SignProposal(chain, pb); err != nil {
			return
		}
		prop.Signature = pb.Signature
		back, err := ProposalFromProto(prop.ToProto())
		if err != nil {
			o.Viol("c11-proposal-wire-roundtrip", fmt.Sprintf("ProposalFromProto(ToProto()) of a signed proposal fails: %v (h=%d r=%d pol=%d)", err, prop.Height, prop.Round, prop.POLRound))
			return
		}
		if !bytes.Equal(ProposalSignBytes(chain, back.ToProto()), before) || !c11PropVerify(chain, addr, back) {
			o.Viol("c11-proposal-wire-roundtrip", fmt.Sprintf("the proposal read back signs other bytes or no longer verifies (h=%d r=%d pol=%d)", prop.Height, prop.Round, prop.POLRound))
		}
		o.Stat("wire.proposal")
	})
	vfGuard(o, "c11-wire-forms-panic", func() string { return "transactions" }, func() {
		sg := Signer(HomesteadSigner{})
		if r.Bool() {
			sg = NewChainIDSigner(big.NewInt(int64(1 + r.Intn(1000))))
		}
		var txs Transactions
		for k := 1 + r.Intn(3); k > 0; k-- {
			to := common.BytesToAddress(r.Bytes(20))
			var tx *Transaction
			if r.Chance(25) {
				tx = NewContractCreation(c11U64(r), new(big.Int).SetBytes(r.Bytes(r.Intn(12))), c11U64(r), new(big.Int).SetBytes(r.Bytes(r.Intn(8))), r.Bytes(r.Intn(40)))
			} else {
				tx = NewTransaction(c11U64(r), to, new(big.Int).SetBytes(r.Bytes(r.Intn(12))), c11U64(r), new(big.Int).SetBytes(r.Bytes(r.Intn(8))), r.Bytes(r.Intn(40)))
			}
			stx, err := SignTx(sg, tx, key)
			if err != nil {
				return
			}
			txs = append(txs, stx)
		}
		// the block's wire form carries the list as data; what comes back must be the same signed transactions
		pbd := txs.ToProto()
		back, err := DataFromProto(&pbd)
		if err != nil {
			o.Viol("c11-tx-wire-roundtrip", "DataFromProto(ToProto()) fails: "+err.Error())
			return
		}
		if len(back) != len(txs) {
			o.Viol("c11-tx-wire-roundtrip", fmt.Sprintf("%d transactions went in, %d came back", len(txs), len(back)))
			return
		}
		for i := range txs {
			from, err := Sender(sg, back[i])
			if back[i].Hash() != txs[i].Hash() || err != nil || from != addr {
				o.Viol("c11-tx-wire-roundtrip", fmt.Sprintf("transaction %d: hash %x -> %x, sender %x err %v", i, txs[i].Hash(), back[i].Hash(), from[:4], err))
			}
		}
		o.Stat("wire.txs")
	})
	o.Case("wire-forms:"+chain, true)
}

func TestVerifC11(t *testing.T) {
	o := vfOpen()
	defer o.Close()
	n := vfN(400)
	for i := 0; i < n; i++ {
		r := vfFork(vfSeed(), uint64(i))
		switch i % 8 {
		case 0:
			c11VoteDiff(o, r)
		case 1, 2:
			c11VoteOracle(o, r)
		case 3:
			c11PropDiff(o, r)
		case 4:
			c11PropOracle(o, r)
		case 5, 6:
			c11TxOracle(o, r)
		default:
			if i%16 == 15 {
				c11SignerChoice(o, r)
				c11WireForms(o, r)
			} else {
				c11SigValues(o, r)
			}
		}
	}
}
