package types

// C12 harness: random validator-set histories on the real ValidatorSet, compared op by op with
// the Lean model `valset`, plus the property oracle (window, centring, argmax proposer, turn
// counts, no starvation, all-or-nothing / order-independent / exactly-rejecting updates, equality
// with an independent big.Int transcription of the proposer-selection specification).

import (
	"fmt"
	"math"
	"math/big"
	"sort"
	"strings"
	"testing"

	"github.com/kardiachain/go-kardia/lib/common"
)

const c12Model = "valset"

// ---- small fixed address universe; index 0 is the zero address (quirk: see notes/C12.md)
var c12Addrs = func() []common.Address {
	mk := func(first byte, mid byte, last byte) common.Address {
		var a common.Address
		a[0] = first
		a[10] = mid
		a[19] = last
		return a
	}
	return []common.Address{
		mk(0, 0, 0), mk(0, 0, 1), mk(0, 0, 2), mk(0, 0, 0xff), mk(0, 1, 0), mk(1, 0, 0),
		mk(2, 0, 0), mk(0xff, 0xff, 0xff), mk(0, 0, 0x80), mk(0x80, 0, 0), mk(0, 1, 1), mk(0x7f, 0, 3),
	}
}()

func c12AddrText(a common.Address) string { return new(big.Int).SetBytes(a[:]).String() }

// ---- snapshots (values only) and the big.Int specification

type c12V struct {
	addr common.Address
	w, p *big.Int
}

func c12Snap(vs *ValidatorSet) []c12V {
	out := make([]c12V, len(vs.Validators))
	for i, v := range vs.Validators {
		out[i] = c12V{v.Address, big.NewInt(v.VotingPower), big.NewInt(v.ProposerPriority)}
	}
	return out
}

func c12CopyVals(vals []c12V) []c12V {
	out := make([]c12V, len(vals))
	for i, v := range vals {
		out[i] = c12V{v.addr, new(big.Int).Set(v.w), new(big.Int).Set(v.p)}
	}
	return out
}

func c12ShowVals(vals []c12V) string {
	if len(vals) == 0 {
		return "-"
	}
	parts := make([]string, len(vals))
	for i, v := range vals {
		parts[i] = fmt.Sprintf("%s:%s:%s", c12AddrText(v.addr), v.w, v.p)
	}
	return strings.Join(parts, ",")
}

func c12PropText(vs *ValidatorSet) string {
	if vs.Proposer == nil {
		return "nil"
	}
	return c12AddrText(vs.Proposer.Address)
}

func c12ShowSet(vs *ValidatorSet) string {
	return fmt.Sprintf("T=%d P=%s V=%s", vs.totalVotingPower, c12PropText(vs), c12ShowVals(c12Snap(vs)))
}

func c12ShowChanges(cs []*Validator) string {
	if len(cs) == 0 {
		return "-"
	}
	parts := make([]string, len(cs))
	for i, v := range cs {
		parts[i] = fmt.Sprintf("%s:%d:%d", c12AddrText(v.Address), v.VotingPower, v.ProposerPriority)
	}
	return strings.Join(parts, ",")
}

func c12Total(vals []c12V) *big.Int {
	t := new(big.Int)
	for _, v := range vals {
		t.Add(t, v.w)
	}
	return t
}

func c12Spread(vals []c12V) (*big.Int, *big.Int, *big.Int) {
	mx := new(big.Int).Set(vals[0].p)
	mn := new(big.Int).Set(vals[0].p)
	for _, v := range vals {
		if v.p.Cmp(mx) > 0 {
			mx.Set(v.p)
		}
		if v.p.Cmp(mn) < 0 {
			mn.Set(v.p)
		}
	}
	return new(big.Int).Sub(mx, mn), mx, mn
}

func c12Sum(vals []c12V) *big.Int {
	s := new(big.Int)
	for _, v := range vals {
		s.Add(s, v.p)
	}
	return s
}

// specification: scale into the window D (divide toward zero by ceil(diff/D))
func c12SpecRescale(vals []c12V, D *big.Int) {
	if D.Sign() <= 0 || len(vals) == 0 {
		return
	}
	diff, _, _ := c12Spread(vals)
	if diff.Cmp(D) > 0 {
		ratio := new(big.Int).Add(diff, D)
		ratio.Sub(ratio, big.NewInt(1))
		ratio.Div(ratio, D)
		for _, v := range vals {
			v.p.Quo(v.p, ratio)
		}
	}
}

// specification: centre (subtract the floor of the average)
func c12SpecCentre(vals []c12V) {
	if len(vals) == 0 {
		return
	}
	avg := c12Sum(vals)
	avg.Div(avg, big.NewInt(int64(len(vals)))) // Euclidean = floor for a positive divisor
	for _, v := range vals {
		v.p.Sub(v.p, avg)
	}
}

func c12Less(a, b common.Address) bool { return strings.Compare(string(a[:]), string(b[:])) < 0 }

// specification: one round; returns the index of the proposer
func c12SpecStep(vals []c12V, T *big.Int) int {
	best := -1
	for i, v := range vals {
		v.p.Add(v.p, v.w)
		if best < 0 || v.p.Cmp(vals[best].p) > 0 || (v.p.Cmp(vals[best].p) == 0 && c12Less(v.addr, vals[best].addr)) {
			best = i
		}
	}
	vals[best].p.Sub(vals[best].p, T)
	return best
}

// specification of IncrementProposerPriority(k): k single rounds, each preceded by the
// normalisation (scale into the window 2T, centre) - so that k rounds in one call are k calls of
// one round (C12-P1)
func c12SpecIncrement(vals []c12V, k int) (prop common.Address) {
	T := c12Total(vals)
	D := new(big.Int).Mul(big.NewInt(2), T)
	for i := 0; i < k; i++ {
		c12SpecRescale(vals, D)
		c12SpecCentre(vals)
		prop = vals[c12SpecStep(vals, T)].addr
	}
	return prop
}

func c12EqVals(a, b []c12V) bool {
	if len(a) != len(b) {
		return false
	}
	for i := range a {
		if a[i].addr != b[i].addr || a[i].w.Cmp(b[i].w) != 0 || a[i].p.Cmp(b[i].p) != 0 {
			return false
		}
	}
	return true
}

var c12Cap = big.NewInt(MaxTotalVotingPower)

// specification of a change set: which error (coarse) and which result
//   "" ok; "invalid" (duplicate / negative / above cap / zero address quirk); "zero" (power 0 where
//   removals are not allowed); "unknown"; "overflow"; "empty"
func c12SpecUpdate(old []c12V, changes []*Validator, allowDeletes bool) (string, []c12V) {
	if len(changes) == 0 {
		return "", c12CopyVals(old)
	}
	seen := map[common.Address]bool{}
	invalid := false
	for _, c := range changes {
		if seen[c.Address] || c.VotingPower < 0 || c.VotingPower > MaxTotalVotingPower {
			invalid = true
		}
		seen[c.Address] = true
		if c.Address == (common.Address{}) { // quirk of the code: prevAddr starts as the zero address
			invalid = true
		}
	}
	if invalid {
		return "invalid", nil
	}
	cur := map[common.Address]c12V{}
	for _, v := range old {
		cur[v.addr] = v
	}
	hasDel := false
	for _, c := range changes {
		if c.VotingPower == 0 {
			hasDel = true
		}
	}
	if hasDel && !allowDeletes {
		return "zero", nil
	}
	for _, c := range changes {
		if c.VotingPower == 0 {
			if _, ok := cur[c.Address]; !ok {
				return "unknown", nil
			}
		}
	}
	// resulting membership and total
	res := map[common.Address]c12V{}
	for a, v := range cur {
		res[a] = c12V{a, new(big.Int).Set(v.w), new(big.Int).Set(v.p)}
	}
	removed := new(big.Int)
	for _, c := range changes {
		if c.VotingPower == 0 {
			removed.Add(removed, cur[c.Address].w)
			delete(res, c.Address)
		}
	}
	newTotal := new(big.Int)
	for _, c := range changes {
		if c.VotingPower > 0 {
			if v, ok := res[c.Address]; ok {
				v.w.SetInt64(c.VotingPower)
			} else {
				res[c.Address] = c12V{c.Address, big.NewInt(c.VotingPower), nil}
			}
		}
	}
	for _, v := range res {
		newTotal.Add(newTotal, v.w)
	}
	if newTotal.Cmp(c12Cap) > 0 {
		return "overflow", nil
	}
	if len(res) == 0 {
		return "empty", nil
	}
	// newcomers start at -(U + U/8), U = total after the updates and before the removals
	U := new(big.Int).Add(newTotal, removed)
	pen := new(big.Int).Rsh(U, 3)
	pen.Add(pen, U)
	pen.Neg(pen)
	out := make([]c12V, 0, len(res))
	for _, v := range res {
		if v.p == nil {
			v.p = new(big.Int).Set(pen)
		}
		out = append(out, v)
	}
	// scale and centre are order independent; do them on the address order
	sort.Slice(out, func(i, j int) bool { return c12Less(out[i].addr, out[j].addr) })
	c12SpecRescale(out, new(big.Int).Mul(big.NewInt(2), newTotal))
	c12SpecCentre(out)
	sort.Slice(out, func(i, j int) bool {
		if c := out[i].w.Cmp(out[j].w); c != 0 {
			return c > 0
		}
		return c12Less(out[i].addr, out[j].addr)
	})
	return "", out
}

// ---- classification of the real code's errors

func c12ErrClass(err error) string {
	if err == nil {
		return ""
	}
	s := err.Error()
	switch {
	case err == ErrTotalVotingPowerOverflow:
		return "overflow"
	case strings.HasPrefix(s, "duplicate entry"):
		return "dup"
	case strings.HasPrefix(s, "voting power can't be negative"):
		return "neg"
	case strings.HasPrefix(s, "to prevent clipping/overflow"):
		return "cap"
	case strings.HasPrefix(s, "cannot process validators with voting power 0"):
		return "zero"
	case strings.HasPrefix(s, "failed to find validator"):
		return "unknown"
	case strings.HasPrefix(s, "applying the validator changes would result in empty set"):
		return "empty"
	}
	return "other"
}

func c12Coarse(class string) string {
	switch class {
	case "dup", "neg", "cap":
		return "invalid"
	}
	return class
}

func c12Try(f func()) (panicked bool, msg string) {
	defer func() {
		if r := recover(); r != nil {
			panicked = true
			msg = fmt.Sprint(r)
		}
	}()
	f()
	return
}

// ---- deep equality of two real sets (values, order, proposer address, cached total)
func c12SameSet(a, b *ValidatorSet) bool { return c12ShowSet(a) == c12ShowSet(b) }

// ---- generators

type c12Gen struct {
	r      *vfRand
	regime int
}

func (g *c12Gen) power(n int) int64 {
	r := g.r
	capv := int64(MaxTotalVotingPower)
	switch g.regime {
	case 0: // tiny: many ties
		return int64(1 + r.Intn(3))
	case 1: // small
		return int64(1 + r.Intn(1000))
	case 2: // mixed scales
		switch r.Intn(4) {
		case 0:
			return 1
		case 1:
			return int64(1 + r.Intn(100))
		case 2:
			return int64(1) << 40
		default:
			return (int64(1) << 40) + int64(r.Intn(5)) - 2
		}
	case 3: // cap / n each (total at or just below the cap)
		return capv/int64(n) - int64(r.Intn(3))
	case 4: // one near the cap, the rest tiny
		if r.Intn(n) == 0 {
			return capv - int64(n) - int64(r.Intn(4))
		}
		return 1
	default: // arbitrary 60-bit
		return int64(r.U64()>>uint(4+r.Intn(58))) + 1
	}
}

func (g *c12Gen) prioNoise() int64 {
	switch g.r.Intn(5) {
	case 0:
		return int64(g.r.U64())
	case 1:
		return -int64(g.r.Intn(1000))
	default:
		return 0
	}
}

func (g *c12Gen) addr(allowZero bool) common.Address {
	if allowZero && g.r.Intn(60) == 0 {
		return c12Addrs[0]
	}
	return c12Addrs[1+g.r.Intn(len(c12Addrs)-1)]
}

func (g *c12Gen) initial() []*Validator {
	r := g.r
	n := 1 + r.Intn(8)
	perm := make([]int, len(c12Addrs)-1)
	for i := range perm {
		perm[i] = i + 1
	}
	for i := len(perm) - 1; i > 0; i-- {
		j := r.Intn(i + 1)
		perm[i], perm[j] = perm[j], perm[i]
	}
	vals := make([]*Validator, n)
	for i := 0; i < n; i++ {
		vals[i] = &Validator{Address: c12Addrs[perm[i]], VotingPower: g.power(n), ProposerPriority: g.prioNoise()}
	}
	// occasional defects
	switch r.Intn(40) {
	case 0:
		vals[r.Intn(n)].VotingPower = 0
	case 1:
		vals[r.Intn(n)].VotingPower = -int64(1 + r.Intn(5))
	case 2:
		vals = append(vals, &Validator{Address: vals[r.Intn(n)].Address, VotingPower: g.power(n)})
	case 3:
		vals[r.Intn(n)].VotingPower = MaxTotalVotingPower + int64(r.Intn(3))
	case 4:
		vals[r.Intn(n)].Address = c12Addrs[0]
	case 5:
		vals = append(vals, &Validator{Address: g.addr(false), VotingPower: MaxTotalVotingPower - int64(r.Intn(3))})
	}
	return vals
}

// change set relative to the current members
func (g *c12Gen) changes(vs *ValidatorSet) []*Validator {
	r := g.r
	n := len(vs.Validators)
	var cs []*Validator
	used := map[common.Address]bool{}
	member := map[common.Address]bool{}
	for _, v := range vs.Validators {
		member[v.Address] = true
	}
	add := func(a common.Address, p int64) {
		cs = append(cs, &Validator{Address: a, VotingPower: p, ProposerPriority: g.prioNoise()})
		used[a] = true
	}
	room := MaxTotalVotingPower - vs.totalVotingPower
	k := 1 + r.Intn(4)
	for i := 0; i < k; i++ {
		switch r.Intn(10) {
		case 0, 1, 2: // change the power of a member
			if n > 0 {
				v := vs.Validators[r.Intn(n)]
				if !used[v.Address] {
					p := g.power(n + 1)
					if r.Chance(70) && p-v.VotingPower > room {
						p = 1 + int64(r.Intn(3))
					}
					add(v.Address, p)
				}
			}
		case 3, 4, 5: // add a newcomer
			a := g.addr(true)
			if !used[a] && !member[a] {
				p := g.power(n + 1)
				if r.Chance(80) && p > room {
					p = 1 + int64(r.Intn(3))
					if p > room {
						continue
					}
				}
				room -= p
				add(a, p)
			}
		case 6, 7: // remove a member
			if n > 0 {
				v := vs.Validators[r.Intn(n)]
				if !used[v.Address] {
					add(v.Address, 0)
				}
			}
		case 8: // big drop / big rise of everybody (the F1 witness family)
			for _, v := range vs.Validators {
				if !used[v.Address] && r.Chance(80) {
					add(v.Address, 1+int64(r.Intn(2)))
				}
			}
		}
	}
	// invalid entries
	switch r.Intn(28) {
	case 0: // duplicate
		if len(cs) > 0 {
			c := cs[r.Intn(len(cs))]
			cs = append(cs, &Validator{Address: c.Address, VotingPower: int64(r.Pick(0, 1, 5, -1))})
		}
	case 1: // negative
		add(g.addr(false), -int64(1+r.Intn(9)))
	case 2: // above the cap
		add(g.addr(false), MaxTotalVotingPower+1+int64(r.Intn(2)))
	case 3: // removal of an unknown validator
		for tries := 0; tries < 5; tries++ {
			a := g.addr(false)
			if !member[a] && !used[a] {
				add(a, 0)
				break
			}
		}
	case 4: // remove everybody
		cs = cs[:0]
		used = map[common.Address]bool{}
		for _, v := range vs.Validators {
			add(v.Address, 0)
		}
		if r.Chance(30) { // ... but add one newcomer: allowed
			a := g.addr(false)
			if !member[a] {
				add(a, g.power(1))
			}
		}
	case 5: // total above the cap
		a := g.addr(false)
		if !used[a] {
			p := MaxTotalVotingPower - vs.totalVotingPower + int64(r.Intn(3))
			if member[a] {
				p = MaxTotalVotingPower
			}
			if p > 0 {
				add(a, p)
			}
		}
	case 6: // exactly reaching the cap, removal + addition in one set (ordering argument of verifyUpdates)
		if n > 1 {
			v := vs.Validators[r.Intn(n)]
			a := g.addr(false)
			if !used[v.Address] && !used[a] && !member[a] {
				add(v.Address, 0)
				add(a, MaxTotalVotingPower-vs.totalVotingPower+v.VotingPower-int64(r.Intn(2)))
			}
		}
	case 7: // empty change list
		if r.Chance(50) {
			cs = nil
		}
	case 8, 9: // many near-cap entries in ONE set: the true total is far above the cap and, from 9
		// entries on, above 2^63 - every int64 running sum that is not checked step by step wraps
		cs = cs[:0]
		used = map[common.Address]bool{}
		k := r.Pick(3, 8, 9, 10, 12, 16, 17)
		for tries := 0; len(cs) < k && tries < 200; tries++ {
			a := g.addr(false)
			if used[a] {
				continue
			}
			add(a, MaxTotalVotingPower-int64(r.Pick(0, 0, 1, 2, 1000)))
		}
	}
	// shuffle
	for i := len(cs) - 1; i > 0; i-- {
		j := r.Intn(i + 1)
		cs[i], cs[j] = cs[j], cs[i]
	}
	return cs
}

func c12B(b bool) int {
	if b {
		return 1
	}
	return 0
}

func c12Edge(r *vfRand) int64 {
	switch r.Intn(9) {
	case 0:
		return math.MaxInt64 - int64(r.Intn(3))
	case 1:
		return math.MinInt64 + int64(r.Intn(3))
	case 2:
		return int64(r.Intn(5)) - 2
	case 3:
		return int64(1) << 62
	case 4:
		return -(int64(1) << 62)
	case 5:
		return MaxTotalVotingPower * int64(r.Pick(1, 2, 4, 7, -1, -3, -8))
	default:
		return int64(r.U64())
	}
}

func c12CopyChanges(cs []*Validator) []*Validator {
	out := make([]*Validator, len(cs))
	for i, c := range cs {
		out[i] = &Validator{Address: c.Address, VotingPower: c.VotingPower, ProposerPriority: c.ProposerPriority}
	}
	return out
}

// ---- oracle pieces (on real objects; arithmetic in big.Int)

// after any successful IncrementProposerPriority: centred sum, proposer is the arg-max of the
// last round with the address tie-break, the proposer pointer is a member
func c12CheckAfterInc(o *vfOut, vs *ValidatorSet, k int64, ctx func() string) {
	vals := c12Snap(vs)
	n := int64(len(vals))
	sum := c12Sum(vals)
	if sum.Sign() < 0 || sum.Cmp(big.NewInt(n)) >= 0 {
		o.Viol("not-centred-after-increment", fmt.Sprintf("sum=%s n=%d %s", sum, n, ctx()))
	}
	if vs.Proposer == nil {
		o.Viol("proposer-nil-after-increment", ctx())
		return
	}
	T := c12Total(vals)
	found := false
	var px c12V
	for i, v := range vs.Validators {
		if v == vs.Proposer {
			found = true
			px = vals[i]
		}
	}
	if !found {
		o.Viol("proposer-not-a-member", ctx())
		return
	}
	// before paying, the proposer had px.p + T; it must beat everybody else
	before := new(big.Int).Add(px.p, T)
	for _, v := range vals {
		if v.addr == px.addr {
			continue
		}
		c := before.Cmp(v.p)
		if c < 0 || (c == 0 && !c12Less(px.addr, v.addr)) {
			o.Viol("proposer-not-argmax", fmt.Sprintf("proposer=%s prio+T=%s other=%s:%s %s", c12AddrText(px.addr), before, c12AddrText(v.addr), v.p, ctx()))
			break
		}
	}
	if k >= 1 {
		// window: 2T re-established before EVERY round (also inside a k-round call), one round widens
		// it by at most maxPower-minPower
		diff, _, _ := c12Spread(vals)
		wmax, wmin := new(big.Int).Set(vals[0].w), new(big.Int).Set(vals[0].w)
		for _, v := range vals {
			if v.w.Cmp(wmax) > 0 {
				wmax.Set(v.w)
			}
			if v.w.Cmp(wmin) < 0 {
				wmin.Set(v.w)
			}
		}
		bound := new(big.Int).Mul(big.NewInt(2), T)
		bound.Add(bound, wmax).Sub(bound, wmin)
		if diff.Cmp(bound) > 0 {
			o.Viol("window-exceeded-after-increment", fmt.Sprintf("max-min=%s 2T+wmax-wmin=%s %s", diff, bound, ctx()))
		}
	}
}

// round skipping (C12-P1): a node that jumps k rounds calls IncrementProposerPriority(k) on a copy,
// a node that enters every round calls IncrementProposerPriority(1) k times; both must hold the
// same priorities and the same proposer, whatever the set
func c12CheckRoundSkip(o *vfOut, vs *ValidatorSet, k int64, ctx func() string) {
	if len(vs.Validators) == 0 || k < 2 {
		return
	}
	skip, step := vs.Copy(), vs.Copy()
	if p, msg := c12Try(func() { skip.IncrementProposerPriority(k) }); p {
		o.Viol("panic-increment", msg+" (round-skip check) "+ctx())
		return
	}
	if p, msg := c12Try(func() {
		for i := int64(0); i < k; i++ {
			step.IncrementProposerPriority(1)
		}
	}); p {
		o.Viol("panic-increment", msg+" (round-skip check) "+ctx())
		return
	}
	o.Stat("roundskip.checked")
	if skip.Proposer == nil || step.Proposer == nil {
		return // reported by c12CheckAfterInc
	}
	detail := func() string {
		return fmt.Sprintf("skip-to-round-%d proposer=%s ; round-by-round proposer=%s ; from %s ; skip -> %s ; round-by-round -> %s ; %s",
			k, c12PropText(skip), c12PropText(step), c12ShowSet(vs), c12ShowSet(skip), c12ShowSet(step), ctx())
	}
	if skip.Proposer.Address != step.Proposer.Address {
		o.Viol("round-skip-proposer-differs", detail())
	} else if !c12EqVals(c12Snap(skip), c12Snap(step)) {
		o.Viol("round-skip-priorities-differ", detail())
	}
}

// directed regression case for C12-P1: genesis {1:2, 2:6, 3:10}; block 1 removes validator 2 and
// adds validator 4 with power 1.  NewValidatorSet / CopyIncrementProposerPriority(1) /
// UpdateWithChangeSet / IncrementProposerPriority(1) are exactly the calls of MakeGenesisState and
// updateState; the resulting set (priorities 4, 11, -15; T = 13; spread 26 = 2T) is cs.Validators
// two heights later, where a node entering round 1 then round 2 and a node skipping to round 2
// must agree (before the fix: proposers 3 and 1).
func c12Directed(o *vfOut) {
	var hist []string
	ctx := func() string { return "directed C12-P1 history: " + strings.Join(hist, " ; ") }
	op := func(line, real string) {
		hist = append(hist, line)
		o.Op(c12Model, line, real)
	}
	defer func() {
		if rec := recover(); rec != nil {
			o.Viol("panic-in-case", fmt.Sprintf("%v %s", rec, ctx()))
		}
		o.Case("directed-c12p1", true)
	}()
	a1, a2, a3, a4 := c12Addrs[1], c12Addrs[2], c12Addrs[3], c12Addrs[4] // increasing addresses
	gen := []*Validator{NewValidator(a1, 2), NewValidator(a2, 6), NewValidator(a3, 10)}
	op("case", "ok")
	vs := NewValidatorSet(c12CopyChanges(gen)) // state.Validators
	op("new "+c12ShowChanges(gen), "ok "+c12ShowSet(vs))
	next := vs.CopyIncrementProposerPriority(1) // state.NextValidators
	op("cinc 1", c12ShowSet(next))
	vs = next
	op("swap", c12ShowSet(vs))
	ups := []*Validator{NewValidator(a2, 0), NewValidator(a4, 1)}
	line := "upd " + c12ShowChanges(ups)
	if err := vs.UpdateWithChangeSet(c12CopyChanges(ups)); err != nil {
		o.Viol("update-rejection-rule", fmt.Sprintf("got=%q want=\"\" %s", c12ErrClass(err), ctx()))
		op(line, "err "+c12ErrClass(err)+" "+c12ShowSet(vs))
		return
	}
	op(line, "ok "+c12ShowSet(vs))
	vs.IncrementProposerPriority(1) // updateState
	op("inc 1", c12ShowSet(vs))
	c12CheckAfterInc(o, vs, 1, ctx)
	for k := int64(2); k <= 5; k++ {
		c12CheckRoundSkip(o, vs, k, ctx)
	}
	// the same through the model: skip to round 2 on a copy, then rounds 1 and 2 one by one
	skip := vs.CopyIncrementProposerPriority(2)
	op("cinc 2", c12ShowSet(skip))
	c12CheckAfterInc(o, skip, 2, ctx)
	vs.IncrementProposerPriority(1)
	op("inc 1", c12ShowSet(vs))
	vs.IncrementProposerPriority(1)
	op("inc 1", c12ShowSet(vs))
	if !c12SameSet(vs, skip) {
		o.Viol("round-skip-proposer-differs", fmt.Sprintf("skip-to-round-2 proposer=%s ; round-by-round proposer=%s ; skip -> %s ; round-by-round -> %s ; %s",
			c12PropText(skip), c12PropText(vs), c12ShowSet(skip), c12ShowSet(vs), ctx()))
	}
	o.Stat("directed.c12p1")
}

// the two normalisation steps on copies of the real object
func c12CheckNormalise(o *vfOut, vs *ValidatorSet, ctx func() string) {
	if len(vs.Validators) == 0 {
		return
	}
	c := vs.Copy()
	T := c12Total(c12Snap(c))
	if !T.IsInt64() || T.Int64() > MaxTotalVotingPower {
		return
	}
	if p, msg := c12Try(func() { c.RescalePriorities(PriorityWindowSizeFactor * T.Int64()) }); p {
		o.Viol("panic-rescale", msg+" "+ctx())
		return
	}
	vals := c12Snap(c)
	diff, _, _ := c12Spread(vals)
	if diff.Cmp(new(big.Int).Mul(big.NewInt(2), T)) > 0 {
		o.Viol("window-exceeded-after-rescale", fmt.Sprintf("max-min=%s 2T=%s %s", diff, new(big.Int).Mul(big.NewInt(2), T), ctx()))
	}
	// computeMaxMinPriorityDiff is max - min
	var d int64
	if p, msg := c12Try(func() { d = computeMaxMinPriorityDiff(c) }); p {
		o.Viol("panic-maxmindiff", msg+" "+ctx())
	} else if big.NewInt(d).Cmp(diff) != 0 {
		o.Viol("maxmindiff-wrong", fmt.Sprintf("got=%d want=%s %s", d, diff, ctx()))
	}
	if p, msg := c12Try(func() { c.shiftByAvgProposerPriority() }); p {
		o.Viol("panic-shift", msg+" "+ctx())
		return
	}
	sum := c12Sum(c12Snap(c))
	if sum.Sign() < 0 || sum.Cmp(big.NewInt(int64(len(vals)))) >= 0 {
		o.Viol("not-centred-after-shift", fmt.Sprintf("sum=%s n=%d %s", sum, len(vals), ctx()))
	}
}

// long static stretch on a copy: one IncrementProposerPriority(1) per block, as updateState does
func c12CheckFairness(o *vfOut, vs *ValidatorSet, rounds int, ctx func() string) {
	c := vs.Copy()
	n := len(c.Validators)
	if n == 0 {
		return
	}
	T := c12Total(c12Snap(c))
	twoT := new(big.Int).Mul(big.NewInt(2), T)
	// warm-up: bring the set into its normal form (first call may rescale/centre)
	if p, msg := c12Try(func() { c.IncrementProposerPriority(1) }); p {
		o.Viol("panic-increment", msg+" "+ctx())
		return
	}
	start := c12Snap(c)
	turns := map[common.Address]int64{}
	rescaled := false
	maxGap := map[common.Address]int{}
	last := map[common.Address]int{}
	for i := 0; i < rounds; i++ {
		if d, _, _ := c12Spread(c12Snap(c)); d.Cmp(twoT) > 0 {
			rescaled = true
		}
		if p, msg := c12Try(func() { c.IncrementProposerPriority(1) }); p {
			o.Viol("panic-increment", msg+" "+ctx())
			return
		}
		a := c.Proposer.Address
		turns[a]++
		if g := i - last[a]; g > maxGap[a] {
			maxGap[a] = g
		}
		last[a] = i + 1
	}
	end := c12Snap(c)
	endBy := map[common.Address]*big.Int{}
	for _, v := range end {
		endBy[v.addr] = v.p
	}
	if rescaled {
		o.Stat("fair.stretch-with-rescale")
	} else {
		o.Stat("fair.stretch-static")
	}
	L := big.NewInt(int64(rounds))
	for _, v := range start {
		// accounting: T*turns = L*w - (prio_end - prio_start)   (no rescale, shifts are 0 once centred)
		lhs := new(big.Int).Mul(T, big.NewInt(turns[v.addr]))
		lw := new(big.Int).Mul(L, v.w)
		rhs := new(big.Int).Sub(lw, new(big.Int).Sub(endBy[v.addr], v.p))
		if !rescaled && lhs.Cmp(rhs) != 0 {
			o.Viol("accounting-identity", fmt.Sprintf("addr=%s T*turns=%s L*w-dprio=%s %s", c12AddrText(v.addr), lhs, rhs, ctx()))
			return
		}
		// proportional share: |T*turns - L*w| <= 6T (priorities live in a 3T window around 0)
		dev := new(big.Int).Sub(lhs, lw)
		dev.Abs(dev)
		bound := new(big.Int).Mul(big.NewInt(6), T)
		if rescaled {
			bound.Mul(bound, big.NewInt(4))
		}
		if dev.Cmp(bound) > 0 {
			o.Viol("unfair-turn-count", fmt.Sprintf("addr=%s power=%s T=%s rounds=%d turns=%d %s", c12AddrText(v.addr), v.w, T, rounds, turns[v.addr], ctx()))
			return
		}
	}
}

// after a change: every validator whose share makes it feasible proposes within the bound
// L*w <= 2nT + n  (notes/C12.md), checked on a copy with one round per block
func c12CheckNoStarvation(o *vfOut, vs *ValidatorSet, ctx func() string) {
	c := vs.Copy()
	n := int64(len(c.Validators))
	if n == 0 {
		return
	}
	T := c12Total(c12Snap(c))
	limit := int64(0)
	wait := map[common.Address]int64{}
	for _, v := range c.Validators {
		b := new(big.Int).Mul(big.NewInt(2*n), T)
		b.Add(b, big.NewInt(n))
		b.Div(b, big.NewInt(v.VotingPower))
		b.Add(b, big.NewInt(1))
		if b.IsInt64() && b.Int64() <= 3000 {
			wait[v.Address] = b.Int64()
			if b.Int64() > limit {
				limit = b.Int64()
			}
		}
	}
	if len(wait) == 0 {
		return
	}
	o.Stat("starvation.checked")
	proposed := map[common.Address]bool{}
	for i := int64(1); i <= limit; i++ {
		if p, msg := c12Try(func() { c.IncrementProposerPriority(1) }); p {
			o.Viol("panic-increment", msg+" "+ctx())
			return
		}
		proposed[c.Proposer.Address] = true
		for a, b := range wait {
			if i >= b && !proposed[a] {
				o.Viol("starved-after-change", fmt.Sprintf("addr=%s has not proposed after %d rounds (bound %d) %s", c12AddrText(a), i, b, ctx()))
				return
			}
		}
	}
}

// ---- one update on the real set with the full oracle; returns the op output
func c12DoUpdate(o *vfOut, g *c12Gen, vs *ValidatorSet, cs []*Validator, allowDeletes bool, ctx func() string) (string, bool) {
	before := vs.Copy()
	beforeTxt := c12ShowSet(vs)
	beforePtrs := append([]*Validator{}, vs.Validators...)
	beforeProp := vs.Proposer
	csIn := c12CopyChanges(cs)
	var err error
	if p, msg := c12Try(func() { err = vs.updateWithChangeSet(cs, allowDeletes) }); p {
		o.Viol("panic-update", msg+" "+ctx())
		return "panic", false
	}
	class := c12ErrClass(err)
	if class == "other" {
		o.Viol("update-unclassified-error", err.Error()+" "+ctx())
	}
	// the caller's change list is not modified
	if c12ShowChanges(cs) != c12ShowChanges(csIn) {
		o.Viol("update-modified-input", ctx())
	}
	// exact rejection rule and result, from the specification
	wantClass, wantVals := c12SpecUpdate(c12Snap(before), csIn, allowDeletes)
	if c12Coarse(class) != wantClass {
		o.Viol("update-rejection-rule", fmt.Sprintf("got=%q want=%q %s", class, wantClass, ctx()))
	}
	if err != nil {
		o.Stat("upd.err." + class)
		// all-or-nothing: bit-identical set (same validator objects in the same order)
		same := c12ShowSet(vs) == beforeTxt && vs.Proposer == beforeProp && len(vs.Validators) == len(beforePtrs)
		if same {
			for i := range beforePtrs {
				if vs.Validators[i] != beforePtrs[i] {
					same = false
				}
			}
		}
		if !same {
			o.Viol("update-not-atomic", fmt.Sprintf("error %q changed the set: before %s after %s %s", class, beforeTxt, c12ShowSet(vs), ctx()))
		}
	} else {
		o.Stat("upd.ok")
		got := c12Snap(vs)
		if wantClass == "" && !c12EqVals(got, wantVals) {
			o.Viol("update-differs-from-spec", fmt.Sprintf("got=%s want=%s %s", c12ShowVals(got), c12ShowVals(wantVals), ctx()))
		}
		if len(cs) > 0 {
			// window and centring hold right after an update
			n := int64(len(got))
			T := c12Total(got)
			if big.NewInt(vs.totalVotingPower).Cmp(T) != 0 || T.Cmp(c12Cap) > 0 {
				o.Viol("update-total-wrong", fmt.Sprintf("cached=%d sum=%s %s", vs.totalVotingPower, T, ctx()))
			}
			diff, _, _ := c12Spread(got)
			if diff.Cmp(new(big.Int).Mul(big.NewInt(2), T)) > 0 {
				o.Viol("window-exceeded-after-update", fmt.Sprintf("max-min=%s T=%s %s", diff, T, ctx()))
			}
			sum := c12Sum(got)
			if sum.Sign() < 0 || sum.Cmp(big.NewInt(n)) >= 0 {
				o.Viol("not-centred-after-update", fmt.Sprintf("sum=%s n=%d %s", sum, n, ctx()))
			}
		}
	}
	// order independence: the same changes shuffled, on a copy of the old set
	if len(cs) > 1 {
		sh := c12CopyChanges(csIn)
		for i := len(sh) - 1; i > 0; i-- {
			j := g.r.Intn(i + 1)
			sh[i], sh[j] = sh[j], sh[i]
		}
		c2 := before.Copy()
		var err2 error
		if p, msg := c12Try(func() { err2 = c2.updateWithChangeSet(sh, allowDeletes) }); p {
			o.Viol("panic-update", msg+" (shuffled) "+ctx())
		} else if (err2 == nil) != (err == nil) || c12Coarse(c12ErrClass(err2)) != c12Coarse(class) {
			o.Viol("update-order-dependent", fmt.Sprintf("err=%v shuffled err=%v order=%s %s", err, err2, c12ShowChanges(sh), ctx()))
		} else if err == nil && !c12SameSet(vs, c2) {
			o.Viol("update-order-dependent", fmt.Sprintf("result %s shuffled %s order=%s %s", c12ShowSet(vs), c12ShowSet(c2), c12ShowChanges(sh), ctx()))
		}
	}
	if err != nil {
		return "err " + class, false
	}
	return "ok " + c12ShowSet(vs), true
}

func TestVerifC12(t *testing.T) {
	o := vfOpen()
	defer o.Close()
	seed := vfSeed()
	n := vfN(300)
	c12Directed(o)
	for i := 0; i < n; i++ {
		c12Case(o, vfFork(seed, uint64(i)), i)
	}
}

func c12Case(o *vfOut, r *vfRand, idx int) {
	g := &c12Gen{r: r, regime: r.Intn(6)}
	var hist []string
	ctx := func() string {
		h := hist
		if len(h) > 14 {
			h = h[len(h)-14:]
		}
		return "history: " + strings.Join(h, " ; ")
	}
	op := func(line, real string) {
		hist = append(hist, line)
		o.Op(c12Model, line, real)
	}
	op("case", "ok")
	defer func() { // a panic of the harness itself (only on a broken tree) is a finding, not a crash
		if rec := recover(); rec != nil {
			o.Viol("panic-in-case", fmt.Sprintf("%v %s", rec, ctx()))
			o.Case(strings.Join(hist, ";"), true)
		}
	}()

	// ---- construction
	var vs *ValidatorSet
	init := g.initial()
	raw := r.Chance(12)
	{
		tmp := &ValidatorSet{}
		line := "new " + c12ShowChanges(init)
		if raw {
			line = "raw " + c12ShowChanges(init)
		}
		hist = append(hist, line)
		out, ok := c12DoUpdate(o, g, tmp, init, false, ctx)
		hist = hist[:len(hist)-1]
		// NewValidatorSet panics exactly when the change set is rejected
		var nvs *ValidatorSet
		p, _ := c12Try(func() { nvs = NewValidatorSet(c12CopyChanges(init)) })
		if p == ok {
			o.Viol("new-panic-mismatch", fmt.Sprintf("panicked=%v updateWithChangeSet ok=%v %s", p, ok, line))
		}
		if !ok {
			op(line, out)
			o.Stat("new.rejected")
			o.Case(line, true)
			return
		}
		if raw || nvs == nil {
			vs = tmp
			op(line, out)
		} else {
			vs = nvs
			op(line, "ok "+c12ShowSet(vs))
			c12CheckAfterInc(o, vs, 1, ctx)
		}
	}
	o.Stat(fmt.Sprintf("regime.%d", g.regime))
	o.Stat(fmt.Sprintf("size.%d", len(vs.Validators)))
	var alt *ValidatorSet = &ValidatorSet{}
	nops := 6 + r.Intn(16)
	changed := false
	for j := 0; j < nops; j++ {
		if len(vs.Validators) > 0 && r.Chance(25) {
			c12CheckRoundSkip(o, vs, int64(2+r.Intn(4)), ctx)
		}
		c := r.Intn(100)
		if (idx%500 == 7 || idx%50 == 9) && j == 2 {
			c = 0
		}
		switch {
		case c < 40: // IncrementProposerPriority
			k := int64(r.Pick(1, 1, 1, 1, 2, 3, 4, 5, 100))
			if r.Intn(50) == 0 {
				k = int64(r.Pick(0, -1))
			}
			if idx%500 == 7 && j == 2 {
				k = 100000
				if len(vs.Validators) <= 3 {
					k = 1000000
				}
			} else if idx%50 == 9 && j == 2 {
				k = 10000
			}
			line := fmt.Sprintf("inc %d", k)
			spec := k >= 1 && k <= 100
			if spec {
				line += " spec"
			}
			pre := c12Snap(vs)
			if k >= 1 {
				c12CheckNormalise(o, vs, ctx)
			}
			hist = append(hist, line)
			p, msg := c12Try(func() { vs.IncrementProposerPriority(k) })
			hist = hist[:len(hist)-1]
			if p {
				if k >= 1 {
					o.Viol("panic-increment", msg+" "+line+" "+ctx())
				}
				op(line, "panic "+c12ShowSet(vs))
				o.Stat("inc.panic")
				break
			}
			if k < 1 {
				o.Viol("increment-nonpositive-accepted", ctx())
			}
			out := c12ShowSet(vs)
			if spec {
				sp := c12CopyVals(pre)
				prop := c12SpecIncrement(sp, int(k))
				if c12EqVals(sp, c12Snap(vs)) && vs.Proposer != nil && vs.Proposer.Address == prop &&
					big.NewInt(vs.totalVotingPower).Cmp(c12Total(pre)) == 0 {
					out += " S=1"
				} else {
					out += " S=0"
					hist = append(hist, line)
					o.Viol("increment-differs-from-spec", fmt.Sprintf("got=%s spec=%s prop=%s %s", c12ShowSet(vs), c12ShowVals(sp), c12AddrText(prop), ctx()))
					hist = hist[:len(hist)-1]
				}
			}
			op(line, out)
			c12CheckAfterInc(o, vs, k, ctx)
			o.Stat(fmt.Sprintf("inc.k=%d", k))
		case c < 72: // UpdateWithChangeSet
			cs := g.changes(vs)
			line := "upd " + c12ShowChanges(cs)
			hist = append(hist, line)
			out, ok := c12DoUpdate(o, g, vs, cs, true, ctx)
			hist = hist[:len(hist)-1]
			if !ok && out != "panic" {
				out += " " + c12ShowSet(vs)
			}
			op(line, out)
			if ok && len(cs) > 0 {
				changed = true
				if r.Chance(35) {
					c12CheckNoStarvation(o, vs, ctx)
				}
			}
		case c < 80: // GetProposer
			var pr *Validator
			if p, msg := c12Try(func() { pr = vs.GetProposer() }); p {
				o.Viol("panic-getproposer", msg+" "+ctx())
				break
			}
			txt := "nil"
			if pr != nil {
				txt = c12AddrText(pr.Address)
				if pr == vs.Proposer {
					o.Viol("getproposer-returns-alias", ctx())
				}
			}
			op("prop", txt+" "+c12ShowSet(vs))
		case c < 86: // Copy
			alt = vs.Copy()
			op("copy", c12ShowSet(alt))
			// independence: rounds on the copy do not touch the original
			before := c12ShowSet(vs)
			cc := vs.Copy()
			c12Try(func() { cc.IncrementProposerPriority(3) })
			if c12ShowSet(vs) != before {
				o.Viol("copy-shares-state", ctx())
			}
		case c < 92: // CopyIncrementProposerPriority
			k := int64(r.Pick(1, 2, 3, 5, 100))
			before := c12ShowSet(vs)
			var cp *ValidatorSet
			if p, msg := c12Try(func() { cp = vs.CopyIncrementProposerPriority(k) }); p {
				o.Viol("panic-increment", msg+" "+ctx())
				op(fmt.Sprintf("cinc %d", k), "panic")
				break
			}
			if c12ShowSet(vs) != before {
				o.Viol("copyincrement-changed-original", ctx())
			}
			alt = cp
			op(fmt.Sprintf("cinc %d", k), c12ShowSet(alt))
			c12CheckAfterInc(o, alt, k, ctx)
		case c < 96: // continue with the copy
			vs, alt = alt, vs
			op("swap", c12ShowSet(vs))
			if len(vs.Validators) == 0 {
				// an empty register: every operation panics or is a no-op; restore
				vs, alt = alt, vs
				op("swap", c12ShowSet(vs))
			}
		default:
			var d int64
			if p, _ := c12Try(func() { d = computeMaxMinPriorityDiff(vs) }); p {
				op("diff", "panic")
			} else {
				op("diff", fmt.Sprint(d))
				if diff, _, _ := c12Spread(c12Snap(vs)); big.NewInt(d).Cmp(diff) != 0 {
					o.Viol("maxmindiff-wrong", fmt.Sprintf("got=%d want=%s %s", d, diff, ctx()))
				}
			}
		}
	}
	// ---- the arithmetic kernels on boundary values
	for j := 0; j < 3; j++ {
		a, b := c12Edge(r), c12Edge(r)
		v1, o1 := safeAdd(a, b)
		op(fmt.Sprintf("k safeAdd %d %d", a, b), fmt.Sprintf("%d %d", v1, c12B(o1)))
		v2, o2 := safeSub(a, b)
		op(fmt.Sprintf("k safeSub %d %d", a, b), fmt.Sprintf("%d %d", v2, c12B(o2)))
		ac, sc := safeAddClip(a, b), safeSubClip(a, b)
		op(fmt.Sprintf("k safeAddClip %d %d", a, b), fmt.Sprint(ac))
		op(fmt.Sprintf("k safeSubClip %d %d", a, b), fmt.Sprint(sc))
		// oracle: clipping = clamp of the exact result
		clamp := func(x *big.Int) int64 {
			if !x.IsInt64() {
				if x.Sign() < 0 {
					return math.MinInt64
				}
				return math.MaxInt64
			}
			return x.Int64()
		}
		if want := clamp(new(big.Int).Add(big.NewInt(a), big.NewInt(b))); ac != want {
			o.Viol("safeAddClip-wrong", fmt.Sprintf("a=%d b=%d got=%d want=%d", a, b, ac, want))
		}
		if want := clamp(new(big.Int).Sub(big.NewInt(a), big.NewInt(b))); sc != want {
			o.Viol("safeSubClip-wrong", fmt.Sprintf("a=%d b=%d got=%d want=%d", a, b, sc, want))
		}
	}
	// ---- long static stretch on a copy
	if len(vs.Validators) > 0 && r.Chance(40) {
		c12CheckFairness(o, vs, r.Pick(200, 500, 1500), ctx)
	}
	if changed {
		o.Stat("case.with-change")
	}
	o.Case(strings.Join(hist, ";"), len(hist) > 3)
	if idx < 3 {
		o.Sample(strings.Join(hist, " ; "))
	}
}
