package evidence

// C19 harness, part (a): predicate and pool differential + oracle.
//
// A small universe of REAL keys signs REAL votes; evidence is built from all kinds of vote pairs
// and from single-field mutations of valid evidence, and offered to a REAL Pool (memory evidence
// DB; the state store and the block store are in-test stubs that answer Load / LoadValidators /
// LoadBlockMeta from the harness's chain, whose validator sets and powers change with the height)
// through ValidateBasic, VerifyDuplicateVote, AddEvidence, CheckEvidence (alone, duplicated inside
// the list, after commit), AddEvidenceFromConsensus, Update (chain progress past the expiry window
// in both dimensions), PendingEvidence and a pool rebuilt from its database.  Every call is also
// sent to the Lean model (`kvdrv evidence`) and the answers must be string-equal.
//
// The ORACLE does not use the model: every vote carries its provenance (which key signed exactly
// which content for which chain), so "real double-sign by a member with the stated power, not
// expired, not committed" is decided from ground truth; the harness keeps its own record of what
// was committed by its simulated blocks and of what entered the pending table.

import (
	"bytes"
	"crypto/ecdsa"
	"encoding/binary"
	"encoding/hex"
	"errors"
	"fmt"
	"sort"
	"strings"
	"testing"
	"time"

	"github.com/kardiachain/go-kardia/kai/kaidb/memorydb"
	"github.com/kardiachain/go-kardia/kai/state/cstate"
	"github.com/kardiachain/go-kardia/lib/common"
	"github.com/kardiachain/go-kardia/lib/crypto"
	"github.com/kardiachain/go-kardia/lib/log"
	"github.com/kardiachain/go-kardia/mainchain/genesis"
	kproto "github.com/kardiachain/go-kardia/proto/kardiachain/types"
	"github.com/kardiachain/go-kardia/types"
)

const (
	vf19Chain      = "c19-chain"
	vf19OtherChain = "c19-other"
	vf19T0         = int64(1700000000)
)

// ---- universe: keys, block ids

var (
	vf19Keys   []*ecdsa.PrivateKey
	vf19Addrs  []common.Address
	vf19BIDs   []types.BlockID // 0 = nil, 1..3 complete, 4 = incomplete (hash without parts)
	vf19BRank  []int           // rank of vf19BIDs[i] in the order of BlockID.Key()
	vf19SigMem = map[string][]byte{}
)

func vf19Init() {
	if vf19Keys != nil {
		return
	}
	for i := 0; len(vf19Keys) < 5; i++ {
		k, err := crypto.ToECDSA(crypto.Keccak256([]byte(fmt.Sprintf("c19-key-%d", i))))
		if err != nil {
			continue
		}
		vf19Keys = append(vf19Keys, k)
		vf19Addrs = append(vf19Addrs, crypto.PubkeyToAddress(k.PublicKey))
	}
	mk := func(s string, total uint32, p string) types.BlockID {
		return types.BlockID{Hash: common.BytesToHash(crypto.Keccak256([]byte(s))),
			PartsHeader: types.PartSetHeader{Total: total, Hash: common.BytesToHash(crypto.Keccak256([]byte(p)))}}
	}
	vf19BIDs = []types.BlockID{{}, mk("blockA", 1, "pA"), mk("blockB", 1, "pB"), mk("blockA", 2, "pA"),
		{Hash: common.BytesToHash(crypto.Keccak256([]byte("blockC")))}}
	idx := []int{0, 1, 2, 3, 4}
	sort.Slice(idx, func(a, b int) bool {
		return strings.Compare(vf19BIDs[idx[a]].Key(), vf19BIDs[idx[b]].Key()) < 0
	})
	vf19BRank = make([]int, len(vf19BIDs))
	for rank, i := range idx {
		vf19BRank[i] = rank
	}
}

// ---- votes with provenance

type vf19Vote struct {
	v *types.Vote
	// present fields, in universe terms
	bid int // index in vf19BIDs
	// provenance: what was signed, by whom (-1: garbage bytes, -2: empty)
	signer  int
	sChain  int // 1 = vf19Chain, 2 = vf19OtherChain
	sH      uint64
	sR      uint32
	sT      int
	sB      int
	sTs     int64
	addrIdx int // whose address the vote names
}

func vf19Time(sec int64) time.Time { return time.Unix(sec, 0).UTC() }

func vf19Sign(key int, chain int, h uint64, r uint32, typ int, bid int, ts int64) []byte {
	ck := fmt.Sprintf("%d/%d/%d/%d/%d/%d/%d", key, chain, h, r, typ, bid, ts)
	if s, ok := vf19SigMem[ck]; ok {
		return s
	}
	cid := vf19Chain
	if chain == 2 {
		cid = vf19OtherChain
	}
	v := &types.Vote{Type: kproto.SignedMsgType(typ), Height: h, Round: r, BlockID: vf19BIDs[bid], Timestamp: vf19Time(ts)}
	p := v.ToProto()
	if err := types.NewDefaultPrivValidator(vf19Keys[key]).SignVote(cid, p); err != nil {
		panic(err)
	}
	vf19SigMem[ck] = p.Signature
	return p.Signature
}

// vf19MkVote: an honest vote of validator `key` (address, signature and content agree).
func vf19MkVote(key int, h uint64, r uint32, typ int, bid int, ts int64) *vf19Vote {
	v := &types.Vote{ValidatorAddress: vf19Addrs[key], ValidatorIndex: uint32(key), Height: h, Round: r,
		Type: kproto.SignedMsgType(typ), BlockID: vf19BIDs[bid], Timestamp: vf19Time(ts),
		Signature: vf19Sign(key, 1, h, r, typ, bid, ts)}
	return &vf19Vote{v: v, bid: bid, signer: key, sChain: 1, sH: h, sR: r, sT: typ, sB: bid, sTs: ts, addrIdx: key}
}

func (x *vf19Vote) clone() *vf19Vote {
	c := *x
	vv := *x.v
	vv.Signature = append([]byte(nil), x.v.Signature...)
	c.v = &vv
	return &c
}

// authentic: the named validator's key signed exactly the present content for `chain`.
func (x *vf19Vote) authentic() bool {
	return x.signer >= 0 && x.signer == x.addrIdx && x.sChain == 1 && x.sH == x.v.Height && x.sR == x.v.Round &&
		x.sT == int(x.v.Type) && x.sB == x.bid && x.sTs == x.v.Timestamp.Unix()
}

func (x *vf19Vote) enc() string {
	if x == nil {
		return "nil"
	}
	sig := ""
	switch {
	case x.signer == -2:
		sig = "e"
	case x.signer == -1:
		sig = "g"
	default:
		sig = fmt.Sprintf("s/%d/%d/%d/%d/%d/%d/%d", x.signer+1, x.sChain, x.sH, x.sR, x.sT, vf19BRank[x.sB], x.sTs*1e9)
	}
	ok := 1
	if x.bid == 4 {
		ok = 0
	}
	return fmt.Sprintf("%d,%d,%d,%d,%d,%d,%d,%d,%s", x.v.Height, x.v.Round, int(x.v.Type), vf19BRank[x.bid],
		x.v.Timestamp.Unix()*1e9, x.addrIdx+1, x.v.ValidatorIndex, ok, sig)
}

// ---- the harness's chain (what the stub stores answer from)

type vf19Chn struct {
	head   uint64
	times  map[uint64]int64           // header time (unix seconds); absent = no block meta
	vals   map[uint64]map[int]int64   // validators entitled to sign height h: key index -> power; absent = no record
	params kproto.EvidenceParams
}

func (c *vf19Chn) valSet(h uint64) *types.ValidatorSet {
	m, ok := c.vals[h]
	if !ok {
		return nil
	}
	var vs []*types.Validator
	for k := 0; k < len(vf19Keys); k++ {
		if p, ok := m[k]; ok {
			vs = append(vs, types.NewValidator(vf19Addrs[k], p))
		}
	}
	return types.NewValidatorSet(vs)
}

func vf19EncSet(m map[int]int64) string {
	var parts []string
	for k := 0; k < len(vf19Keys); k++ {
		if p, ok := m[k]; ok {
			parts = append(parts, fmt.Sprintf("%d:%d", k+1, p))
		}
	}
	if len(parts) == 0 {
		return "-"
	}
	return strings.Join(parts, ",")
}

func (c *vf19Chn) state() cstate.LatestBlockState {
	return cstate.LatestBlockState{ChainID: vf19Chain, InitialHeight: 1, LastBlockHeight: c.head,
		LastBlockTime: vf19Time(c.times[c.head]), ConsensusParams: kproto.ConsensusParams{Evidence: c.params}}
}

type vf19Store struct{ c *vf19Chn }

func (s *vf19Store) LoadStateFromDBOrGenesisDoc(*genesis.Genesis) (cstate.LatestBlockState, error) {
	return s.c.state(), nil
}
func (s *vf19Store) Load() cstate.LatestBlockState { return s.c.state() }
func (s *vf19Store) Save(cstate.LatestBlockState)  {}
func (s *vf19Store) LoadValidators(h uint64) (*types.ValidatorSet, error) {
	vs := s.c.valSet(h)
	if vs == nil {
		return nil, errors.New("c19-stub: no validator set record")
	}
	return vs, nil
}
func (s *vf19Store) LoadConsensusParams(uint64) (kproto.ConsensusParams, error) {
	return kproto.ConsensusParams{Evidence: s.c.params}, nil
}
func (s *vf19Store) PruneState(uint64, uint64) (uint64, uint64, uint64) { return 0, 0, 0 }

type vf19Blocks struct{ c *vf19Chn }

func (b *vf19Blocks) LoadBlockMeta(h uint64) *types.BlockMeta {
	t, ok := b.c.times[h]
	if !ok {
		return nil
	}
	return &types.BlockMeta{Header: &types.Header{Height: h, Time: vf19Time(t)}}
}
func (b *vf19Blocks) LoadBlockCommit(uint64) *types.Commit { return nil }

// ---- evidence with provenance

type vf19Ev struct {
	id     int
	ev     *types.DuplicateVoteEvidence
	a, b   *vf19Vote
	desc   string
	hash   common.Hash
	key    string // "height:hash48" as the model prints it
	sz     int
	viaCon bool // entered the pool through AddEvidenceFromConsensus at least once
}

func vf19Hash48(h common.Hash) uint64 {
	b := h.Bytes()
	return binary.BigEndian.Uint64(append([]byte{0, 0}, b[:6]...))
}

func vf19KeyOf(height uint64, h common.Hash) string { return fmt.Sprintf("%d:%d", height, vf19Hash48(h)) }

func vf19Finish(e *vf19Ev) {
	e.hash = e.ev.Hash()
	e.key = vf19KeyOf(e.ev.Height(), e.hash)
	pb, err := types.EvidenceToProto(e.ev)
	if err != nil {
		panic(err)
	}
	l := kproto.EvidenceData{Evidence: []kproto.Evidence{*pb}}
	e.sz = l.Size()
}

func (e *vf19Ev) encDef() string {
	return fmt.Sprintf("ev %d hash=%d sz=%d time=%d tot=%d pow=%d a=%s b=%s", e.id, vf19Hash48(e.hash), e.sz,
		e.ev.Timestamp.UnixNano(), e.ev.TotalVotingPower, e.ev.ValidatorPower, e.a.enc(), e.b.enc())
}

// real: ground truth "two differently-targeted votes for the same height, round and type, both
// validly signed by one validator that belonged to the validator set of that height with the
// stated power" (+ stated total); returns "" or the clause that fails.
func (e *vf19Ev) real(c *vf19Chn) string {
	a, b := e.a, e.b
	if a.addrIdx != b.addrIdx {
		return "votes name different validators"
	}
	if a.v.Height != b.v.Height || a.v.Round != b.v.Round || a.v.Type != b.v.Type {
		return "height/round/type differ"
	}
	if a.bid == b.bid {
		return "same block id"
	}
	if !a.authentic() {
		return "vote A not signed by the named validator over its present content"
	}
	if !b.authentic() {
		return "vote B not signed by the named validator over its present content"
	}
	m, ok := c.vals[a.v.Height]
	if !ok {
		return "no validator set known for the height"
	}
	p, ok := m[a.addrIdx]
	if !ok {
		return "not a validator at the evidence height"
	}
	if p != e.ev.ValidatorPower {
		return "stated validator power wrong"
	}
	var tot int64
	for _, q := range m {
		tot += q
	}
	if tot != e.ev.TotalVotingPower {
		return "stated total power wrong"
	}
	return ""
}

// expired by the statement's rule at chain state (head, time): BOTH ages exceed their maximum.
func vf19Expired(c *vf19Chn, evHeight uint64, evTimeSec int64) bool {
	ageBlocks := int64(c.head) - int64(evHeight)
	ageDur := time.Duration(c.times[c.head]-evTimeSec) * time.Second
	return ageBlocks > c.params.MaxAgeNumBlocks && ageDur > c.params.MaxAgeDuration
}

// ---- canonical observation of the real pool

func vf19Classify(err error) string {
	if err == nil {
		return "ok"
	}
	msg := err.Error()
	var inv *types.ErrEvidenceInvalid
	if errors.As(err, &inv) && inv.Reason != nil {
		msg = inv.Reason.Error()
	}
	for _, p := range [][2]string{
		{"don't have header", "noheader"}, {"different time to the block", "badtime"}, {"is too old", "expired"},
		{"c19-stub: no validator set", "novals"}, {"was not a validator", "notvalidator"},
		{"h/r/s does not match", "hrs"}, {"validator addresses do not match", "addr"},
		{"block IDs are the same", "sameblock"}, {"validator power from evidence", "power"},
		{"total voting power from the evidence", "total"}, {"verifying VoteA", "sigA"}, {"verifying VoteB", "sigB"},
		{"already committed", "committed"}, {"duplicate evidence", "duplicate"}} {
		if strings.Contains(msg, p[0]) {
			return "err:" + p[1]
		}
	}
	return "err:other:" + msg
}

func vf19Pending(p *Pool) []string {
	l, _, err := p.listEvidence([]byte(baseKeyPending), -1)
	if err != nil {
		return []string{"list-error:" + err.Error()}
	}
	var out []string
	for _, ev := range l {
		out = append(out, vf19KeyOf(ev.Height(), ev.Hash()))
	}
	return out
}

func vf19Committed(p *Pool) []string {
	var out []string
	it := p.evidenceDB.NewIterator([]byte(baseKeyCommitted), nil)
	for it.Next() {
		k := strings.TrimPrefix(string(it.Key()), baseKeyCommitted)
		parts := strings.SplitN(k, "/", 2)
		if len(parts) != 2 || len(parts[0]) != 16 {
			out = append(out, "badkey:"+k)
			continue
		}
		hb, err1 := hex.DecodeString(parts[0])
		hs, err2 := hex.DecodeString(parts[1])
		if err1 != nil || err2 != nil || len(hs) != 32 {
			out = append(out, "badkey:"+k)
			continue
		}
		out = append(out, vf19KeyOf(binary.BigEndian.Uint64(hb), common.BytesToHash(hs)))
	}
	return out
}

func vf19J(xs []string) string {
	if len(xs) == 0 {
		return "-"
	}
	return strings.Join(xs, ",")
}

func vf19Show(p *Pool) string { return "P=" + vf19J(vf19Pending(p)) + " C=" + vf19J(vf19Committed(p)) }

func vf19Has(xs []string, k string) bool {
	for _, x := range xs {
		if x == k {
			return true
		}
	}
	return false
}

// ---- evidence generation

// vf19Valid builds a correct evidence for validator key at height h (votes ordered by block key).
func vf19Valid(c *vf19Chn, key int, h uint64, r uint32, typ int, b1, b2 int) *vf19Ev {
	if vf19BRank[b1] > vf19BRank[b2] {
		b1, b2 = b2, b1
	}
	ts := vf19T0 + int64(h)*10 + int64(r)
	a, b := vf19MkVote(key, h, r, typ, b1, ts), vf19MkVote(key, h, r, typ, b2, ts+1)
	var tot int64
	for _, q := range c.vals[h] {
		tot += q
	}
	e := &vf19Ev{a: a, b: b, desc: "valid"}
	e.ev = &types.DuplicateVoteEvidence{VoteA: a.v, VoteB: b.v, TotalVotingPower: tot, ValidatorPower: c.vals[h][key],
		Timestamp: vf19Time(c.times[h])}
	return e
}

var vf19Mutations = []string{"sig-by-other-validator-A", "sig-by-other-validator-B", "sig-garbage-A", "sig-garbage-B",
	"same-block-twice", "height-differs", "round-differs", "type-differs", "type-relabelled-after-signing-A",
	"type-relabelled-after-signing-B", "relabelled-prevote-precommit-pair", "power-wrong", "total-wrong", "time-wrong",
	"not-member-at-height", "order-swapped", "other-chain-A", "vote-timestamp-changed-B", "address-B-other-validator",
	"validator-index-changed", "block-id-changed-after-signing-B", "sig-empty-A", "incomplete-block-id-B",
	"both-by-outsider", "height-relabelled-both", "nil-block-vs-block"}

// vf19Mutate applies one named single-field mutation to a copy of a valid evidence.
func vf19Mutate(c *vf19Chn, base *vf19Ev, m string, r *vfRand) *vf19Ev {
	a, b := base.a.clone(), base.b.clone()
	e := &vf19Ev{a: a, b: b, desc: m}
	ev := *base.ev
	other := (a.addrIdx + 1 + r.Intn(2)) % 3
	resign := func(x *vf19Vote, key int, chain int) {
		x.v.Signature = vf19Sign(key, chain, x.v.Height, x.v.Round, int(x.v.Type), x.bid, x.v.Timestamp.Unix())
		x.signer, x.sChain, x.sH, x.sR, x.sT, x.sB, x.sTs = key, chain, x.v.Height, x.v.Round, int(x.v.Type), x.bid, x.v.Timestamp.Unix()
	}
	flip := func(t kproto.SignedMsgType) kproto.SignedMsgType {
		if t == kproto.PrevoteType {
			return kproto.PrecommitType
		}
		return kproto.PrevoteType
	}
	switch m {
	case "sig-by-other-validator-A":
		resign(a, other, 1)
	case "sig-by-other-validator-B":
		resign(b, other, 1)
	case "sig-garbage-A":
		a.v.Signature[5+r.Intn(50)] ^= byte(1 + r.Intn(255))
		a.signer = -1
	case "sig-garbage-B":
		b.v.Signature[5+r.Intn(50)] ^= byte(1 + r.Intn(255))
		b.signer = -1
	case "sig-empty-A":
		a.v.Signature = nil
		a.signer = -2
	case "same-block-twice":
		b.v.BlockID, b.bid = a.v.BlockID, a.bid
		resign(b, b.addrIdx, 1)
	case "height-differs":
		b.v.Height++
		resign(b, b.addrIdx, 1)
	case "round-differs":
		b.v.Round++
		resign(b, b.addrIdx, 1)
	case "type-differs":
		b.v.Type = flip(b.v.Type)
		resign(b, b.addrIdx, 1)
	case "type-relabelled-after-signing-A":
		a.v.Type = flip(a.v.Type)
	case "type-relabelled-after-signing-B":
		b.v.Type = flip(b.v.Type)
	case "relabelled-prevote-precommit-pair":
		// an honest validator's prevote for one block and precommit for another (legal across
		// rounds is not needed here: same round, the point is the relabelling) shown as two
		// votes of one type: B was signed as the other type
		b.v.Type = flip(b.v.Type)
		resign(b, b.addrIdx, 1)
		b.v.Type = a.v.Type
	case "power-wrong":
		ev.ValidatorPower += int64(r.Pick(1, -1, 5))
	case "total-wrong":
		ev.TotalVotingPower += int64(r.Pick(1, -1, 5))
	case "time-wrong":
		// whole seconds and sub-second shifts (the evidence hash covers the full timestamp)
		ev.Timestamp = ev.Timestamp.Add([]time.Duration{time.Second, -time.Second, 10 * time.Second, -10 * time.Second, 1, -1, time.Millisecond, 999999999}[r.Intn(8)])
	case "not-member-at-height":
		// signed correctly by a key that is not in the set of that height (key 3 joins late, key 4 never)
		k := 3 + r.Intn(2)
		for _, x := range []*vf19Vote{a, b} {
			x.addrIdx = k
			x.v.ValidatorAddress = vf19Addrs[k]
			resign(x, k, 1)
		}
	case "both-by-outsider":
		for _, x := range []*vf19Vote{a, b} {
			resign(x, 4, 1)
		}
	case "order-swapped":
		e.a, e.b = b, a
	case "other-chain-A":
		resign(a, a.addrIdx, 2)
	case "vote-timestamp-changed-B":
		b.v.Timestamp = b.v.Timestamp.Add(time.Second)
	case "address-B-other-validator":
		b.addrIdx = other
		b.v.ValidatorAddress = vf19Addrs[other]
		resign(b, other, 1)
	case "validator-index-changed":
		a.v.ValidatorIndex += 7
	case "block-id-changed-after-signing-B":
		for nb := 0; nb < 4; nb++ {
			if nb != b.bid && nb != a.bid {
				b.v.BlockID, b.bid = vf19BIDs[nb], nb
				break
			}
		}
	case "incomplete-block-id-B":
		b.v.BlockID, b.bid = vf19BIDs[4], 4
		resign(b, b.addrIdx, 1)
	case "height-relabelled-both":
		a.v.Height++
		b.v.Height++
	case "nil-block-vs-block":
		nb := 0
		if b.bid == 0 {
			a.v.BlockID, a.bid = vf19BIDs[1], 1
			resign(a, a.addrIdx, 1)
		} else {
			a.v.BlockID, a.bid = vf19BIDs[nb], nb
			resign(a, a.addrIdx, 1)
		}
		if vf19BRank[e.a.bid] > vf19BRank[e.b.bid] {
			e.a, e.b = e.b, e.a
		}
	}
	ev.VoteA, ev.VoteB = e.a.v, e.b.v
	e.ev = &ev
	return e
}

func vf19BasicClass(err error) string {
	if err == nil {
		return "ok"
	}
	s := err.Error()
	switch {
	case strings.Contains(s, "one or both of the votes are empty"), strings.Contains(s, "empty duplicate vote evidence"):
		return "nil"
	case strings.Contains(s, "invalid VoteA"):
		return "badA"
	case strings.Contains(s, "invalid VoteB"):
		return "badB"
	case strings.Contains(s, "invalid order"):
		return "order"
	}
	return "other:" + s
}

// ---- the test

func TestVerifC19(t *testing.T) {
	log.Root().SetHandler(log.DiscardHandler())
	vf19Init()
	o := vfOpen()
	defer o.Close()
	seed := vfSeed()
	cases := vfN(200)
	for ci := 0; ci < cases; ci++ {
		if only := vfEnvInt("VERIF_ONLY", -1); only >= 0 && ci != only {
			continue
		}
		r := vfFork(seed, uint64(ci))
		vf19Case(o, r, fmt.Sprintf("seed=%d case=%d", seed, ci))
	}
}

type vf19Run struct {
	o        *vfOut
	r        *vfRand
	desc     string
	c        *vf19Chn
	pool     *Pool
	db       *memorydb.Database
	evs      []*vf19Ev
	byKey    map[string]*vf19Ev
	commitAt map[string]uint64 // ground truth: key -> height of the simulated block that committed it
	readded  map[string]bool   // key re-entered pending through AddEvidenceFromConsensus after its commit
	tracked  map[string]*vf19Ev // evidence seen in the pending table and not yet committed / expired
	log      []string
}

func (x *vf19Run) op(line, real string) {
	x.o.Op("evidence", line, real)
	x.log = append(x.log, line+" => "+real)
}

func (x *vf19Run) tail() string {
	n := len(x.log)
	if n > 14 {
		return strings.Join(x.log[n-14:], " | ")
	}
	return strings.Join(x.log, " | ")
}

func (x *vf19Run) register(e *vf19Ev) *vf19Ev {
	vf19Finish(e)
	if prev, ok := x.byKey[e.key]; ok {
		if prev.hash != e.hash {
			return nil // 48-bit prefix collision: not usable with this model encoding
		}
		return prev
	}
	e.id = len(x.evs) + 1
	x.evs = append(x.evs, e)
	x.byKey[e.key] = e
	x.op(e.encDef(), "ok")
	return e
}

func (x *vf19Run) addBlock(h uint64, tsec int64, hasTime bool, vals map[int]int64) {
	tm := "none"
	if hasTime {
		x.c.times[h] = tsec
		tm = fmt.Sprint(tsec * 1e9)
	}
	vs := "none"
	if vals != nil {
		x.c.vals[h] = vals
		vs = vf19EncSet(vals)
	}
	x.op(fmt.Sprintf("block h=%d t=%s vals=%s", h, tm, vs), "ok")
}

// valsFor: membership and powers as a function of the height (keys 0..2 always, key 3 joins at
// `join`, key 1 changes power at `bump`).
func vf19ValsFor(h, join, bump uint64) map[int]int64 {
	m := map[int]int64{0: 10, 1: 20, 2: 30}
	if h >= bump {
		m[1] = 25
	}
	if h >= join {
		m[3] = 15
	}
	return m
}

// observe: after every pool operation, the "pending until committed or expired" clause.
func (x *vf19Run) observe(what string) {
	pend := vf19Pending(x.pool)
	for _, k := range pend {
		if e, ok := x.byKey[k]; ok {
			if _, done := x.commitAt[k]; !done || x.readded[k] {
				x.tracked[k] = e
			}
		}
	}
	for k, e := range x.tracked {
		if vf19Has(pend, k) {
			continue
		}
		if _, done := x.commitAt[k]; done {
			delete(x.tracked, k)
			continue
		}
		if vf19Expired(x.c, e.ev.Height(), e.ev.Timestamp.Unix()) {
			delete(x.tracked, k)
			x.o.Stat("pending.expired-and-dropped")
			continue
		}
		x.o.Viol("pending-evidence-lost", fmt.Sprintf("%s after %s: evidence %s (%s) was pending, is neither committed nor expired (head=%d evHeight=%d maxBlocks=%d ageSec=%d maxDur=%v) and is no longer offered; ops: %s",
			x.desc, what, k, e.desc, x.c.head, e.ev.Height(), x.c.params.MaxAgeNumBlocks, x.c.times[x.c.head]-e.ev.Timestamp.Unix(), x.c.params.MaxAgeDuration, x.tail()))
		delete(x.tracked, k)
	}
	// committed evidence must not stay on offer (unless consensus put it back: latent, reported where it is accepted)
	for _, k := range pend {
		if _, done := x.commitAt[k]; done && !x.readded[k] {
			x.o.Viol("committed-evidence-still-pending", fmt.Sprintf("%s after %s: %s was committed in block %d and is still offered by PendingEvidence; ops: %s", x.desc, what, k, x.commitAt[k], x.tail()))
		}
	}
}

// accepted: oracle for one evidence the pool has just accepted on `path`.
// wasPending: it was in the pending table before the call (fast path / nothing re-verified).
func (x *vf19Run) accepted(e *vf19Ev, path string, wasPending bool) {
	x.o.Stat("accepted." + path + "." + e.desc)
	if why := e.real(x.c); why != "" {
		x.o.Viol("accepted-forged-evidence", fmt.Sprintf("%s %s accepted evidence #%d (%s) that is not a real double-sign: %s; ops: %s", x.desc, path, e.id, e.desc, why, x.tail()))
		return
	}
	bt, okT := x.c.times[e.ev.Height()]
	timeOK := okT && bt*1e9 == e.ev.Timestamp.UnixNano()
	if !timeOK {
		if e.viaCon && wasPending {
			// entered through AddEvidenceFromConsensus, which by contract is not verified; the time
			// equation is the clause consensus does not guarantee (F9, reported by the network part)
			x.o.Stat("accepted.fast-path.consensus-evidence-with-other-time")
		} else {
			x.o.Viol("accepted-evidence-with-wrong-time", fmt.Sprintf("%s %s accepted evidence #%d (%s) whose time %d ns is not the time of block %d (%d s, known=%v); ops: %s", x.desc, path, e.id, e.desc, e.ev.Timestamp.UnixNano(), e.ev.Height(), bt, okT, x.tail()))
		}
	}
	if vf19Expired(x.c, e.ev.Height(), e.ev.Timestamp.Unix()) {
		if wasPending {
			x.o.Viol("accepted-expired-evidence:still-pending-not-yet-pruned", fmt.Sprintf("%s %s accepted evidence #%d (%s) of height %d from the pending table without an expiry test although it is expired at head %d (age %d blocks > %d, %d s > %v); pruning lags (pruningHeight=%d pruningTime=%d); ops: %s",
				x.desc, path, e.id, e.desc, e.ev.Height(), x.c.head, int64(x.c.head)-int64(e.ev.Height()), x.c.params.MaxAgeNumBlocks, x.c.times[x.c.head]-e.ev.Timestamp.Unix(), x.c.params.MaxAgeDuration, x.pool.pruningHeight, x.pool.pruningTime.Unix(), x.tail()))
		} else {
			x.o.Viol("accepted-expired-evidence", fmt.Sprintf("%s %s verified and accepted evidence #%d (%s) of height %d that is expired at head %d; ops: %s", x.desc, path, e.id, e.desc, e.ev.Height(), x.c.head, x.tail()))
		}
	}
	if at, done := x.commitAt[e.key]; done {
		if x.readded[e.key] && wasPending {
			x.o.Viol("committed-evidence-accepted-again:readded-by-consensus", fmt.Sprintf("%s %s accepted evidence #%d (%s) from the pending table although block %d committed it: AddEvidenceFromConsensus put it back without a committed check; ops: %s", x.desc, path, e.id, e.desc, at, x.tail()))
		} else {
			x.o.Viol("committed-evidence-accepted-again", fmt.Sprintf("%s %s accepted evidence #%d (%s) although block %d committed it; ops: %s", x.desc, path, e.id, e.desc, at, x.tail()))
		}
	}
}

func vf19Case(o *vfOut, r *vfRand, desc string) {
	c := &vf19Chn{times: map[uint64]int64{}, vals: map[uint64]map[int]int64{}}
	c.params = kproto.EvidenceParams{MaxAgeNumBlocks: int64(r.Pick(0, 1, 2, 3, 5, 1000)), MaxAgeDuration: time.Duration(r.Pick(0, 5, 10, 25, 3600)) * time.Second, MaxBytes: 1048576}
	x := &vf19Run{o: o, r: r, desc: desc, c: c, byKey: map[string]*vf19Ev{}, commitAt: map[string]uint64{}, readded: map[string]bool{}, tracked: map[string]*vf19Ev{}}
	h0 := uint64(3 + r.Intn(6))
	join, bump := uint64(2+r.Intn(6)), uint64(2+r.Intn(6))
	step := int64(r.Pick(1, 5, 10, 10, 30)) // seconds between blocks
	c.head = h0
	tm := vf19T0
	gap := uint64(0)
	if r.Chance(10) {
		gap = uint64(1 + r.Intn(int(h0-1))) // a height whose block meta / validator record is missing
	}
	x.op(fmt.Sprintf("case chain=1 maxb=%d maxd=%d h=%d t=%d", c.params.MaxAgeNumBlocks, int64(c.params.MaxAgeDuration), h0, (vf19T0+step*int64(h0))*1e9), "ok")
	for h := uint64(1); h <= h0; h++ {
		tm = vf19T0 + step*int64(h)
		if h == gap {
			if r.Bool() {
				x.addBlock(h, tm, false, vf19ValsFor(h, join, bump))
			} else {
				x.addBlock(h, tm, true, nil)
			}
			continue
		}
		x.addBlock(h, tm, true, vf19ValsFor(h, join, bump))
	}
	x.db = memorydb.New()
	var err error
	x.pool, err = NewPool(&vf19Store{c}, x.db, &vf19Blocks{c})
	if err != nil {
		o.Viol("newpool-failed", desc+" "+err.Error())
		return
	}
	x.pool.SetLogger(log.New())

	// ---- the evidence universe of this case
	nBase := 2 + r.Intn(3)
	var bases []*vf19Ev
	for i := 0; i < nBase; i++ {
		h := uint64(1 + r.Intn(int(h0)))
		if r.Chance(35) {
			// the last decided height, the height being decided (what consensus sees), rarely beyond
			h = h0 + uint64(r.Pick(0, 0, 1, 1, 1, 2))
			c2 := vf19ValsFor(h, join, bump)
			if _, ok := c.vals[h]; !ok && r.Chance(90) {
				x.addBlock(h, 0, false, c2)
			}
		}
		if _, ok := c.vals[h]; !ok {
			continue
		}
		key := r.Intn(3)
		if r.Chance(20) && h >= join {
			key = 3
		}
		b1 := r.Intn(4)
		b2 := (b1 + 1 + r.Intn(3)) % 4
		e := vf19Valid(c, key, h, uint32(1+r.Intn(2)), 1+r.Intn(2), b1, b2)
		if _, ok := c.times[h]; !ok {
			e.ev.Timestamp = vf19Time(vf19T0 + step*int64(h))
		}
		bases = append(bases, e)
	}
	if len(bases) == 0 {
		o.Case(desc, false)
		return
	}
	var offer []*vf19Ev
	muts := map[string]bool{}
	for _, b := range bases {
		if e := x.register(b); e != nil {
			offer = append(offer, e)
		}
	}
	nm := 3 + r.Intn(6)
	for i := 0; i < nm; i++ {
		m := vf19Mutations[r.Intn(len(vf19Mutations))]
		muts[m] = true
		e := vf19Mutate(c, bases[r.Intn(len(bases))], m, r)
		if e = x.register(e); e != nil {
			offer = append(offer, e)
		}
	}

	// ---- predicate differential + oracle: ValidateBasic, VerifyDuplicateVote on every evidence,
	//      against the set of its own height and against the set of another height
	for _, e := range offer {
		bc := vf19BasicClass(e.ev.ValidateBasic())
		x.op(fmt.Sprintf("vbasic a=%s b=%s", e.a.enc(), e.b.enc()), bc)
		for _, hh := range []uint64{e.ev.Height(), h0} {
			m, ok := c.vals[hh]
			if !ok {
				continue
			}
			var verr error
			vfGuard(o, "panic-in-VerifyDuplicateVote", func() string { return desc + " " + e.desc }, func() {
				verr = VerifyDuplicateVote(e.ev, vf19Chain, c.valSet(hh))
			})
			cls := strings.TrimPrefix(vf19Classify(verr), "err:")
			x.op(fmt.Sprintf("vdup %d chain=1 vals=%s", e.id, vf19EncSet(m)), cls)
			if verr == nil && hh == e.ev.Height() {
				if why := e.real(c); why != "" {
					o.Viol("verify-accepts-forged-evidence", fmt.Sprintf("%s VerifyDuplicateVote accepted evidence #%d (%s): %s", desc, e.id, e.desc, why))
				}
			}
			o.Stat("vdup." + cls)
		}
	}
	// nil votes (ValidateBasic only: the pool is never handed such evidence, decoding refuses it)
	if r.Chance(30) {
		e := offer[r.Intn(len(offer))]
		ev := *e.ev
		as, bs := e.a.enc(), e.b.enc()
		if r.Bool() {
			ev.VoteA, as = nil, "nil"
		} else {
			ev.VoteB, bs = nil, "nil"
		}
		x.op(fmt.Sprintf("vbasic a=%s b=%s", as, bs), vf19BasicClass(ev.ValidateBasic()))
	}
	// NewDuplicateVoteEvidence on pairs of votes
	for i := 0; i < 2; i++ {
		e := offer[r.Intn(len(offer))]
		v1, v2 := e.a, e.b
		if r.Bool() {
			v1, v2 = v2, v1
		}
		m := c.vals[e.ev.Height()]
		if m == nil {
			continue
		}
		got := types.NewDuplicateVoteEvidence(v1.v, v2.v, vf19Time(0), c.valSet(e.ev.Height()))
		out := "nil"
		if got != nil {
			ord := "21"
			if got.VoteA == v1.v {
				ord = "12"
			}
			if v1.v.BlockID.Key() == v2.v.BlockID.Key() {
				ord = "21" // equal keys: the code takes the else branch
			}
			out = fmt.Sprintf("ord=%s tot=%d pow=%d", ord, got.TotalVotingPower, got.ValidatorPower)
			// independent of the model: what a correct node builds from two conflicting votes of one
			// validator must be acceptable everywhere (ValidateBasic is what every decoder runs), and
			// must not depend on which of the two votes it saw first
			genuinePair := v1.v != nil && v2.v != nil && !v1.v.BlockID.Equal(v2.v.BlockID) && v1.v.Height == v2.v.Height &&
				v1.v.Round == v2.v.Round && v1.v.Type == v2.v.Type && v1.v.ValidatorAddress.Equal(v2.v.ValidatorAddress) &&
				v1.v.ValidateBasic() == nil && v2.v.ValidateBasic() == nil
			if genuinePair {
				if err := got.ValidateBasic(); err != nil {
					o.Viol("produced-evidence-invalid", fmt.Sprintf("NewDuplicateVoteEvidence(a=%s, b=%s) fails its own ValidateBasic: %v", v1.enc(), v2.enc(), err))
				}
				if rev := types.NewDuplicateVoteEvidence(v2.v, v1.v, vf19Time(0), c.valSet(e.ev.Height())); rev == nil || !bytes.Equal(rev.Hash().Bytes(), got.Hash().Bytes()) {
					o.Viol("produced-evidence-depends-on-arrival-order", fmt.Sprintf("a=%s b=%s", v1.enc(), v2.enc()))
				}
				o.Stat("newdve.genuine-pair")
			}
		}
		x.op(fmt.Sprintf("newdve a=%s b=%s vals=%s", v1.enc(), v2.enc(), vf19EncSet(m)), out)
	}

	// ---- pool operations
	nops := 12 + r.Intn(20)
	if vfThorough() {
		nops += r.Intn(30)
	}
	// the pool is only ever handed evidence that passed ValidateBasic (decodeMsg / Block.ValidateBasic
	// / DuplicateVoteEvidenceFromProto refuse the rest before the pool sees it)
	var poolOffer []*vf19Ev
	for _, e := range offer {
		if e.ev.ValidateBasic() == nil {
			poolOffer = append(poolOffer, e)
		}
	}
	if len(poolOffer) == 0 {
		o.Case(desc, false)
		return
	}
	pick := func() *vf19Ev { return poolOffer[r.Intn(len(poolOffer))] }
	for s := 0; s < nops; s++ {
		before := vf19Pending(x.pool)
		switch k := r.Intn(100); {
		case k < 25: // AddEvidence (a peer's evidence)
			e := pick()
			var aerr error
			if vfGuard(o, "panic-in-AddEvidence", func() string { return desc + " " + e.desc + " " + x.tail() }, func() { aerr = x.pool.AddEvidence(e.ev) }) {
				return
			}
			x.op(fmt.Sprintf("add %d", e.id), vf19Classify(aerr)+" "+vf19Show(x.pool))
			if aerr == nil && !vf19Has(before, e.key) && vf19Has(vf19Pending(x.pool), e.key) {
				x.accepted(e, "AddEvidence", false)
			}
			o.Stat("add." + strings.SplitN(vf19Classify(aerr), ":other", 2)[0])
			x.observe("AddEvidence")
		case k < 37: // AddEvidenceFromConsensus: evidence consensus would build (two authentic conflicting
			// votes of a member, powers from the set); its time is consensus's own estimate (F9: may
			// differ from the block time). Off contract (5%): anything, also committed evidence.
			e := pick()
			off := r.Chance(5)
			if !off {
				// consensus at height head+1 sees votes of head+1 and late precommits of head
				if e.real(c) != "" || e.ev.Height() < c.head || e.ev.Height() > c.head+1 {
					continue
				}
				// ... and stamps evidence about the height being decided with the median of its LastCommit,
				// which is never before the last block's time (BFT time is monotonic).  (isExpired subtracts
				// heights as uint64: evidence ABOVE the state height with an old time stamp counts as expired
				// - a quirk the model has too; consensus cannot produce such evidence.)
				if e.ev.Height() > c.head && e.ev.Timestamp.Unix() < c.times[c.head]+2 {
					continue
				}
				if _, done := x.commitAt[e.key]; done {
					continue
				}
				if r.Chance(30) {
					ev := *e.ev
					ev.Timestamp = ev.Timestamp.Add(time.Duration(r.Pick(1, 2, -1)) * time.Second)
					ne := &vf19Ev{a: e.a, b: e.b, ev: &ev, desc: "consensus-time-differs"}
					if ne = x.register(ne); ne == nil {
						continue
					}
					if !vf19Has(offerKeys(poolOffer), ne.key) {
						poolOffer = append(poolOffer, ne)
					}
					e = ne
					if _, done := x.commitAt[e.key]; done {
						continue
					}
				}
			} else if _, done := x.commitAt[e.key]; !done {
				// the oracle's subject is what the pool ACCEPTS on its verifying paths; evidence that
				// (trusted) consensus could not have built - forged, or about a height it is not deciding
				// (the thorough tier once handed over VALID evidence two heights above the state here,
				// which isExpired's uint64 age then pruned: a false `pending-evidence-lost`) - is outside
				// the statement: keep to the re-add of committed evidence
				continue
			}
			var aerr error
			if vfGuard(o, "panic-in-AddEvidenceFromConsensus", func() string { return desc + " " + e.desc }, func() { aerr = x.pool.AddEvidenceFromConsensus(e.ev) }) {
				return
			}
			e.viaCon = true
			if _, done := x.commitAt[e.key]; done {
				x.readded[e.key] = true
				o.Stat("cons.off-contract-readd-of-committed")
			}
			x.op(fmt.Sprintf("cons %d", e.id), vf19Classify(aerr)+" "+vf19Show(x.pool))
			o.Stat("cons")
			x.observe("AddEvidenceFromConsensus")
		case k < 52: // CheckEvidence on an arbitrary list (a proposed block being validated)
			n := r.Pick(1, 1, 2, 2, 3)
			var l []*vf19Ev
			for i := 0; i < n; i++ {
				if len(l) > 0 && r.Chance(25) {
					l = append(l, l[r.Intn(len(l))]) // duplicate inside the list
				} else {
					l = append(l, pick())
				}
			}
			x.check(l, before, "CheckEvidence")
		case k < 80: // a block: proposer's PendingEvidence (or an arbitrary list), validated, committed
			var l []*vf19Ev
			if r.Chance(70) {
				max := int64(r.Pick(-1, -1, 2000, 900, 450, 100))
				evl, size := x.pool.PendingEvidence(max)
				var ks []string
				for _, ev := range evl {
					k := vf19KeyOf(ev.Height(), ev.Hash())
					ks = append(ks, k)
					if e, ok := x.byKey[k]; ok {
						l = append(l, e)
					}
				}
				x.op(fmt.Sprintf("pending max=%d", max), fmt.Sprintf("%s size=%d", vf19J(ks), size))
				// "proposed until committed": everything pending is offered, size permitting
				if max == -1 && len(ks) != len(before) {
					o.Viol("pending-evidence-not-offered", fmt.Sprintf("%s PendingEvidence(-1) returned %d of %d pending; ops: %s", desc, len(ks), len(before), x.tail()))
				}
				if r.Chance(50) && len(l) > 1 {
					l = l[:1+r.Intn(len(l))]
				}
			} else {
				for i := r.Intn(3); i > 0; i-- {
					l = append(l, pick())
				}
			}
			okBlock := len(l) == 0 || x.check(l, before, "CheckEvidence(block)")
			if !okBlock {
				l = nil // the block is refused; an empty block is decided instead
				if r.Bool() {
					break
				}
			}
			nh := c.head + 1
			dt := step
			if r.Chance(25) {
				dt = int64(r.Pick(1, 6, 11, 26, 100, 4000)) // jumps past the duration window
			}
			nt := c.times[c.head] + dt
			if r.Chance(70) {
				// evidence about the height being decided carries consensus's estimate of this block's
				// time; most of the time the block agrees with it
				for _, e := range poolOffer {
					if e.ev.Height() == nh && e.ev.Timestamp.Unix() > c.times[c.head] {
						nt = e.ev.Timestamp.Unix()
						break
					}
				}
			}
			if _, ok := c.vals[nh]; ok {
				x.addBlock(nh, nt, true, nil)
			} else {
				x.addBlock(nh, nt, true, vf19ValsFor(nh, join, bump))
			}
			c.head = nh
			var evl types.EvidenceList
			var ids []string
			for _, e := range l {
				evl = append(evl, e.ev)
				ids = append(ids, fmt.Sprint(e.id))
			}
			var res string
			func() {
				defer func() {
					if rec := recover(); rec != nil {
						res = "panic"
					}
				}()
				x.pool.Update(c.state(), evl)
				res = "ok"
			}()
			for _, e := range l {
				if _, done := x.commitAt[e.key]; !done {
					x.commitAt[e.key] = nh
				}
				delete(x.readded, e.key)
			}
			x.op(fmt.Sprintf("update h=%d t=%d evs=%s", nh, nt*1e9, vf19J(ids)), res+" "+vf19Show(x.pool))
			o.Stat("update")
			if len(l) > 0 {
				o.Stat("update.with-evidence")
			}
			x.observe("Update")
		case k < 84: // Update that does not advance (sanity panic)
			var res string
			func() {
				defer func() {
					if rec := recover(); rec != nil {
						res = "panic"
					}
				}()
				x.pool.Update(c.state(), nil)
				res = "ok"
			}()
			x.op(fmt.Sprintf("update h=%d t=%d evs=-", c.head, c.times[c.head]*1e9), res+" "+vf19Show(x.pool))
		case k < 92: // restart: the pool is rebuilt from its database
			np, err := NewPool(&vf19Store{c}, x.db, &vf19Blocks{c})
			if err != nil {
				o.Viol("newpool-failed", desc+" "+err.Error())
				return
			}
			np.SetLogger(log.New())
			x.pool = np
			x.op(fmt.Sprintf("restart h=%d t=%d", c.head, c.times[c.head]*1e9), "ok "+vf19Show(x.pool))
			o.Stat("restart")
			x.observe("restart")
		default:
			max := int64(r.Pick(-1, 0, 100, 450, 900, 1400, 5000))
			evl, size := x.pool.PendingEvidence(max)
			var ks []string
			for _, ev := range evl {
				ks = append(ks, vf19KeyOf(ev.Height(), ev.Hash()))
			}
			x.op(fmt.Sprintf("pending max=%d", max), fmt.Sprintf("%s size=%d", vf19J(ks), size))
			// size permitting: a returned list is a prefix of the pending table; it is complete when the cap allows
			var tot int64
			for _, k := range before {
				if e, ok := x.byKey[k]; ok {
					tot += int64(e.sz)
				}
			}
			if (max == -1 || max >= tot) && len(ks) != len(before) {
				o.Viol("pending-evidence-not-offered", fmt.Sprintf("%s PendingEvidence(%d) returned %d of %d pending (total size %d); ops: %s", desc, max, len(ks), len(before), tot, x.tail()))
			}
		}
	}
	var ms []string
	for m := range muts {
		ms = append(ms, m)
	}
	sort.Strings(ms)
	key := fmt.Sprintf("%v/%d/%d/%d/%d/%v/%d", c.params, h0, join, bump, step, ms, nops)
	o.Case(key+"/"+fmt.Sprint(len(x.commitAt)), len(x.log) > 20)
	if r.Chance(1) {
		o.Sample(desc + " " + x.tail())
	}
}

func offerKeys(l []*vf19Ev) []string {
	var ks []string
	for _, e := range l {
		ks = append(ks, e.key)
	}
	return ks
}

// check runs CheckEvidence on l (as validateBlock does for a proposed block) and applies the oracle;
// returns whether the list was accepted.
func (x *vf19Run) check(l []*vf19Ev, before []string, path string) bool {
	var evl types.EvidenceList
	var ids []string
	for _, e := range l {
		evl = append(evl, e.ev)
		ids = append(ids, fmt.Sprint(e.id))
	}
	var cerr error
	if vfGuard(x.o, "panic-in-CheckEvidence", func() string { return x.desc + " " + x.tail() }, func() { cerr = x.pool.CheckEvidence(evl) }) {
		return false
	}
	cls := vf19Classify(cerr)
	x.op("check "+vf19J(ids), cls+" "+vf19Show(x.pool))
	x.o.Stat("check." + strings.SplitN(cls, ":other", 2)[0])
	if cerr == nil {
		seen := map[common.Hash]bool{}
		for _, e := range l {
			if seen[e.hash] {
				x.o.Viol("block-repeats-evidence", fmt.Sprintf("%s %s accepted a list that contains evidence #%d (%s) twice; ops: %s", x.desc, path, e.id, e.desc, x.tail()))
			}
			seen[e.hash] = true
			x.accepted(e, path, vf19Has(before, e.key))
		}
	} else {
		// whatever was added to pending before the failing entry was verified: same oracle
		now := vf19Pending(x.pool)
		for _, e := range l {
			if !vf19Has(before, e.key) && vf19Has(now, e.key) {
				x.accepted(e, path+"(partial)", false)
				before = append(before, e.key)
			}
		}
	}
	x.observe(path)
	return cerr == nil
}
