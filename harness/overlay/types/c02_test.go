package types

// C02 harness: differential of types.VoteSet / VoteSet.MakeCommit / ValidatorSet.VerifyCommit against
// the Lean model `voteset`, plus the property oracle: an independent tally (validator -> block ids
// for which a valid vote was offered, validity decided by the harness itself with go-ethereum's
// secp256k1 recovery) that recomputes what may be reported as a +2/3 majority / accepted commit.
//
// Real keys, real signing code (crypto.Sign over Keccak(VoteSignBytes)), real VoteSet.

import (
	"bytes"
	"crypto/ecdsa"
	"errors"
	"fmt"
	"math/big"
	"regexp"
	"strings"
	"testing"
	"time"

	gethcrypto "github.com/ethereum/go-ethereum/crypto"
	"github.com/kardiachain/go-kardia/lib/common"
	"github.com/kardiachain/go-kardia/lib/crypto"
	"github.com/kardiachain/go-kardia/lib/p2p"
	kproto "github.com/kardiachain/go-kardia/proto/kardiachain/types"
)

const c02Model = "voteset"
const c02Chain = "c02-chain"

var c02Keys []*ecdsa.PrivateKey // 0..7 validators, 8..9 outsiders

func c02InitKeys() {
	if c02Keys != nil {
		return
	}
	for i := 0; i < 10; i++ {
		k, err := crypto.ToECDSA(crypto.Keccak256([]byte(fmt.Sprintf("verif-c02-key-%d", i))))
		if err != nil {
			panic(err)
		}
		c02Keys = append(c02Keys, k)
	}
}

// ---- tiny universes

func c02Hash(id int) common.Hash {
	var h common.Hash
	if id != 0 {
		h[0] = 0xC2
		h[31] = byte(id)
	}
	return h
}

func c02HashID(h common.Hash) int {
	if h.IsZero() {
		return 0
	}
	for id := 1; id < 8; id++ {
		if h == c02Hash(id) {
			return id
		}
	}
	return 99
}

func c02Bid(hash int, total uint32, phash int) BlockID {
	return BlockID{Hash: c02Hash(hash), PartsHeader: PartSetHeader{Total: total, Hash: c02Hash(phash)}}
}

func c02BidText(b BlockID) string {
	return fmt.Sprintf("%d.%d.%d", c02HashID(b.Hash), b.PartsHeader.Total, c02HashID(b.PartsHeader.Hash))
}

func c02Time(id int) time.Time {
	if id == 0 {
		return time.Time{}
	}
	return time.Unix(1600000000+int64(id), 0).UTC()
}

func c02TimeID(t time.Time) int {
	if t.IsZero() {
		return 0
	}
	d := t.Unix() - 1600000000
	if d >= 1 && d < 90 {
		return int(d)
	}
	return 99
}

// ---- independent signature check (go-ethereum's libsecp256k1 binding, not lib/crypto)

func c02Recovers(addr common.Address, chainID string, v *Vote) bool {
	if len(v.Signature) != 65 {
		return false
	}
	// btcec's RecoverCompact (behind lib/crypto.SigToPub) masks the "compressed key" bit 4 of the
	// recovery byte: both encodings carry the same (r, s, recid) and are the same signature for the
	// purpose of this property.
	sig := append([]byte{}, v.Signature...)
	sig[64] &^= 4
	hash := gethcrypto.Keccak256(VoteSignBytes(chainID, v.ToProto()))
	pub, err := gethcrypto.Ecrecover(hash, sig)
	if err != nil || len(pub) != 65 {
		return false
	}
	var a common.Address
	copy(a[:], gethcrypto.Keccak256(pub[1:])[12:])
	return a == addr
}

func c02Sign(key *ecdsa.PrivateKey, chainID string, v *Vote) {
	sig, err := crypto.Sign(crypto.Keccak256(VoteSignBytes(chainID, v.ToProto())), key)
	if err != nil {
		panic(err)
	}
	v.Signature = sig
}

// ---- one case

type c02Case struct {
	o      *vfOut
	r      *vfRand
	height uint64
	round  uint32
	typ    kproto.SignedMsgType
	n      int
	vals   *ValidatorSet
	keys   []*ecdsa.PrivateKey
	addrID map[common.Address]int
	power  []int64
	total  int64
	vs     *VoteSet
	sigID  map[string]int
	sent   []*Vote
	blocks []BlockID // the case's block universe, blocks[0] is the favourite
	// oracle state (independent tally)
	validFor   []map[BlockID]bool
	firstValid []*BlockID
	halfSeen   bool
	madeCommit *Commit
	ops        int
	desc       strings.Builder
}

func (c *c02Case) sig(b []byte) int {
	if len(b) == 0 {
		return 0
	}
	k := string(b)
	if id, ok := c.sigID[k]; ok {
		return id
	}
	id := len(c.sigID) + 1
	c.sigID[k] = id
	return id
}

func (c *c02Case) addr(a common.Address) int {
	if a.Equal(common.Address{}) {
		return 0
	}
	if id, ok := c.addrID[a]; ok {
		return id
	}
	return 99
}

func (c *c02Case) op(line, real string) {
	c.o.Op(c02Model, line, real)
	c.ops++
	if c.desc.Len() < 380 {
		c.desc.WriteString(line + " => " + real + " | ")
	}
}

func c02Powers(r *vfRand, n int) []int64 {
	p := make([]int64, n)
	switch r.Intn(8) {
	case 0:
		for i := range p {
			p[i] = 1
		}
	case 1:
		q := int64(r.Pick(10, 7, 1000, 3))
		for i := range p {
			p[i] = q
		}
	case 2: // skewed
		for i := range p {
			p[i] = int64(1 + r.Intn(3))
		}
		big := int64(0)
		for _, x := range p[1:] {
			big += x
		}
		switch r.Intn(4) {
		case 0:
			p[0] = 2 * big // exactly 2/3 of the total
		case 1:
			p[0] = 2*big + 1
		case 2:
			if big > 0 {
				p[0] = 2*big - 1
			}
		default:
			p[0] = 100
		}
		if p[0] <= 0 {
			p[0] = 1
		}
	case 3, 4: // total with a chosen residue mod 3
		var sum int64
		for i := range p {
			p[i] = int64(1 + r.Intn(10))
			sum += p[i]
		}
		want := int64(r.Intn(3))
		for sum%3 != want {
			p[n-1]++
			sum++
		}
	case 5: // total at / just below the cap
		rem := MaxTotalVotingPower - int64(r.Intn(4))
		for i := 0; i < n-1; i++ {
			var x int64
			if r.Bool() {
				x = rem / int64(n-i)
			} else {
				x = int64(1 + r.Intn(5))
			}
			p[i] = x
			rem -= x
		}
		p[n-1] = rem
	case 6:
		for i := range p {
			p[i] = int64(1 + r.Intn(100))
		}
	default: // large equal powers: 3*power overflows int64
		q := MaxTotalVotingPower / int64(n)
		for i := range p {
			p[i] = q - int64(r.Intn(2))
		}
	}
	return p
}

func c02NewCase(o *vfOut, r *vfRand) *c02Case {
	c := &c02Case{o: o, r: r, sigID: map[string]int{}, addrID: map[common.Address]int{}}
	c.n = 1 + r.Intn(8)
	if r.Chance(35) {
		c.n = r.Pick(3, 4, 4, 6, 7)
	}
	c.height = uint64(r.Pick(1, 2, 5, 1000000))
	c.round = uint32(r.Pick(0, 1, 2, 7))
	c.typ = kproto.PrecommitType
	if r.Chance(25) {
		c.typ = kproto.PrevoteType
	}
	pw := c02Powers(r, c.n)
	vl := make([]*Validator, c.n)
	byAddr := map[common.Address]*ecdsa.PrivateKey{}
	for i := 0; i < c.n; i++ {
		a := crypto.PubkeyToAddress(c02Keys[i].PublicKey)
		vl[i] = NewValidator(a, pw[i])
		byAddr[a] = c02Keys[i]
	}
	c.vals = NewValidatorSet(vl)
	c.keys = make([]*ecdsa.PrivateKey, c.n)
	c.power = make([]int64, c.n)
	pws := make([]string, c.n)
	for i, v := range c.vals.Validators {
		c.keys[i] = byAddr[v.Address]
		c.addrID[v.Address] = i + 1
		c.power[i] = v.VotingPower
		c.total += v.VotingPower
		pws[i] = fmt.Sprint(v.VotingPower)
	}
	c.validFor = make([]map[BlockID]bool, c.n)
	for i := range c.validFor {
		c.validFor[i] = map[BlockID]bool{}
	}
	c.firstValid = make([]*BlockID, c.n)
	// block universe: A, A with another total (F17), A with another parts hash, B, nil
	c.blocks = []BlockID{c02Bid(1, 1, 3), c02Bid(1, 2, 3), c02Bid(2, 1, 4), c02Bid(1, 1, 4), {}}
	c.vs = NewVoteSet(c02Chain, c.height, c.round, c.typ, c.vals)
	if c.vals.TotalVotingPower() != c.total {
		o.Viol("total-voting-power", fmt.Sprintf("set reports %d, validators sum to %d", c.vals.TotalVotingPower(), c.total))
	}
	q := new(big.Int).Mul(big.NewInt(c.total), big.NewInt(2))
	q.Quo(q, big.NewInt(3)).Add(q, big.NewInt(1))
	c.op(fmt.Sprintf("case h=%d r=%d t=%d pw=%s", c.height, c.round, int(c.typ), strings.Join(pws, ",")),
		fmt.Sprintf("ok n=%d total=%d q=%s", c.n, c.total, q.String()))
	return c
}

// more3 reports 3*sum(power[i] : in(i)) > 2*total without overflow
func (c *c02Case) more3(in func(i int) bool) (bool, *big.Int) {
	s := new(big.Int)
	for i := 0; i < c.n; i++ {
		if in(i) {
			s.Add(s, big.NewInt(c.power[i]))
		}
	}
	l := new(big.Int).Mul(s, big.NewInt(3))
	rr := new(big.Int).Mul(big.NewInt(c.total), big.NewInt(2))
	return l.Cmp(rr) > 0, s
}

func (c *c02Case) pickBlock() BlockID {
	r := c.r
	switch {
	case r.Chance(62):
		return c.blocks[0]
	case r.Chance(3): // neither zero nor complete
		c.o.Stat("vote.half-block-id")
		if r.Bool() {
			return c02Bid(1, 0, 0)
		}
		return c02Bid(0, 1, 3)
	default:
		return c.blocks[r.Intn(len(c.blocks))]
	}
}

func (c *c02Case) voteLine(v *Vote, ok bool) string {
	b := 0
	if ok {
		b = 1
	}
	return fmt.Sprintf("vote i=%d a=%d h=%d r=%d t=%d b=%s ts=%d s=%d ok=%d", v.ValidatorIndex, c.addr(v.ValidatorAddress),
		v.Height, v.Round, int(v.Type), c02BidText(v.BlockID), c02TimeID(v.Timestamp), c.sig(v.Signature), b)
}

func c02AddErr(err error) string {
	if err == nil {
		return "-"
	}
	if _, ok := err.(*ErrVoteConflictingVotes); ok {
		return "conflict"
	}
	switch {
	case errors.Is(err, ErrVoteNil):
		return "nil"
	case errors.Is(err, ErrVoteInvalidValidatorIndex):
		return "index"
	case errors.Is(err, ErrVoteInvalidValidatorAddress):
		return "address"
	case errors.Is(err, ErrVoteUnexpectedStep):
		return "step"
	case errors.Is(err, ErrVoteNonDeterministicSignature):
		return "nondet"
	case errors.Is(err, ErrVoteInvalidSignature):
		return "badsig"
	}
	return "other"
}

func (c *c02Case) summary() string {
	m := "-"
	if c.vs.maj23 != nil {
		m = c02BidText(*c.vs.maj23)
	}
	return fmt.Sprintf("sum=%d maj=%s", c.vs.sum, m)
}

// offer gives a vote to the real VoteSet, records the op, updates the independent tally and checks
// the soundness clauses that can change with a vote.
func (c *c02Case) offer(v *Vote, expectSig int, kind string) {
	o := c.o
	o.Stat("op.vote." + kind)
	if v == nil {
		var added bool
		var err error
		if vfGuard(o, "panic-addvote-nil", func() string { return "nil vote" }, func() { added, err = c.vs.AddVote(nil) }) {
			return
		}
		c.op("vote nil", fmt.Sprintf("added=%d err=%s %s", c02b(added), c02AddErr(err), c.summary()))
		return
	}
	sigOK := c02Recovers(v.ValidatorAddress, c02Chain, v)
	if expectSig >= 0 && (expectSig == 1) != sigOK {
		o.Viol("sigok-crosscheck", fmt.Sprintf("kind=%s: by construction the signature should verify=%v, independent recovery says %v (%s)",
			kind, expectSig == 1, sigOK, c.voteLine(v, sigOK)))
	}
	line := c.voteLine(v, sigOK)
	var added bool
	var err error
	panicked := false
	func() {
		defer func() {
			if rec := recover(); rec != nil {
				panicked = true
				if len(v.Signature) < 65 && strings.Contains(fmt.Sprint(rec), "index out of range") {
					o.Viol("panic-short-signature", fmt.Sprintf("AddVote panics on a %d-byte signature: %v", len(v.Signature), rec))
				} else {
					o.Viol("panic-addvote", fmt.Sprintf("%v; %s", rec, line))
				}
			}
		}()
		added, err = c.vs.AddVote(v)
	}()
	if panicked {
		return
	}
	c.sent = append(c.sent, v)
	ec := c02AddErr(err)
	c.op(line, fmt.Sprintf("added=%d err=%s %s", c02b(added), ec, c.summary()))
	o.Stat("vote.result." + ec + fmt.Sprintf(".added%d", c02b(added)))
	// ---- independent validity (from the property statement)
	idx := int(v.ValidatorIndex)
	valid := v.Height == c.height && v.Round == c.round && v.Type == c.typ && idx < c.n &&
		v.ValidatorAddress == c.vals.Validators[idx].Address && sigOK
	if added && !valid {
		o.Viol("invalid-vote-added", line)
	}
	if valid {
		if !v.BlockID.IsZero() && !v.BlockID.IsComplete() {
			c.halfSeen = true
		}
		first := len(c.validFor[idx]) == 0
		c.validFor[idx][v.BlockID] = true
		if first {
			b := v.BlockID
			c.firstValid[idx] = &b
			if !added || err != nil {
				o.Viol("first-valid-vote-rejected", fmt.Sprintf("%s -> added=%v err=%v", line, added, err))
			}
		}
	}
	c.checkMaj("after-vote")
}

func c02b(b bool) int {
	if b {
		return 1
	}
	return 0
}

// checkMaj: whatever is reported as +2/3 must be backed by distinct validators with valid votes for
// exactly that block id; first votes above 2/3 must produce a majority.
func (c *c02Case) checkMaj(when string) {
	o := c.o
	maj, ok := c.vs.TwoThirdsMajority()
	if ok != c.vs.HasTwoThirdsMajority() {
		o.Viol("maj23-accessors-disagree", when)
	}
	if ok {
		good, s := c.more3(func(i int) bool { return c.validFor[i][maj] })
		if !good {
			o.Viol("maj23-unsound", fmt.Sprintf("%s: majority reported for %s but valid votes for exactly that id hold %s of %d (n=%d powers=%v)",
				when, c02BidText(maj), s, c.total, c.n, c.power))
		}
	} else if !maj.IsZero() {
		o.Viol("maj23-nonzero-without-majority", c02BidText(maj))
	}
	// completeness: first valid votes
	seen := map[BlockID]bool{}
	for i := 0; i < c.n; i++ {
		if c.firstValid[i] == nil || seen[*c.firstValid[i]] {
			continue
		}
		b := *c.firstValid[i]
		seen[b] = true
		good, s := c.more3(func(j int) bool { return c.firstValid[j] != nil && *c.firstValid[j] == b })
		if good {
			if !ok {
				o.Viol("maj23-incomplete", fmt.Sprintf("%s: first valid votes for %s hold %s of %d but no majority is reported (powers=%v)",
					when, c02BidText(b), s, c.total, c.power))
			} else if maj != b {
				// another id can only have got there first through conflicting votes; it must itself be sound (checked above)
				o.Stat("maj23.other-than-first-vote-majority")
			}
		}
	}
}

func (c *c02Case) query() {
	o := c.o
	o.Stat("op.query")
	vs := c.vs
	maj, ok := vs.TwoThirdsMajority()
	m := "-"
	if ok {
		m = c02BidText(maj)
	}
	ba := vs.BitArray()
	bits := make([]byte, c.n)
	votes := make([]string, c.n)
	voters := func(i int) bool { return len(c.validFor[i]) > 0 }
	for i := 0; i < c.n; i++ {
		bits[i] = '0'
		if ba.GetIndex(i) {
			bits[i] = '1'
		}
		v := vs.GetByIndex(uint32(i))
		if v == nil {
			votes[i] = "-"
		} else {
			votes[i] = fmt.Sprintf("%s/%d", c02BidText(v.BlockID), c.sig(v.Signature))
			if int(v.ValidatorIndex) != i || !c.validFor[i][v.BlockID] {
				o.Viol("stored-vote-not-valid", fmt.Sprintf("index %d holds %v", i, v))
			}
		}
		if (v != nil) != voters(i) || ba.GetIndex(i) != voters(i) {
			o.Viol("voters-mismatch", fmt.Sprintf("index %d: vote stored=%v bit=%v, valid vote offered=%v", i, v != nil, ba.GetIndex(i), voters(i)))
		}
	}
	anyReal, allReal := vs.HasTwoThirdsAny(), vs.HasAll()
	anyWant, s := c.more3(voters)
	if anyReal != anyWant {
		o.Viol("any23-wrong", fmt.Sprintf("HasTwoThirdsAny=%v but validators with a valid vote hold %s of %d (powers=%v)", anyReal, s, c.total, c.power))
	}
	allWant := true
	for i := 0; i < c.n; i++ {
		allWant = allWant && voters(i)
	}
	if allReal != allWant {
		o.Viol("hasall-wrong", fmt.Sprintf("HasAll=%v, every validator voted=%v", allReal, allWant))
	}
	c.checkMaj("query")
	if ok {
		o.Stat("query.with-majority")
	}
	if anyReal && !ok {
		o.Stat("query.any-without-majority")
	}
	c.op("q", fmt.Sprintf("maj=%s has=%d any=%d all=%d sum=%d bits=%s votes=%s", m, c02b(vs.HasTwoThirdsMajority()), c02b(anyReal), c02b(allReal),
		vs.sum, string(bits), strings.Join(votes, ",")))
	// per block
	b := c.blocks[c.r.Intn(len(c.blocks))]
	bb := vs.BitArrayByBlockID(b)
	if bb == nil {
		c.op("qb b="+c02BidText(b), "nil")
	} else {
		bv := vs.votesByBlock[b.Key()]
		bs := make([]byte, c.n)
		vt := make([]string, c.n)
		for i := 0; i < c.n; i++ {
			bs[i] = '0'
			if bb.GetIndex(i) {
				bs[i] = '1'
			}
			vt[i] = "-"
			if v := bv.votes[i]; v != nil {
				vt[i] = fmt.Sprintf("%s/%d", c02BidText(v.BlockID), c.sig(v.Signature))
				if v.BlockID != b {
					o.Viol("block-bucket-holds-other-block", fmt.Sprintf("bucket %s holds a vote for %s", c02BidText(b), c02BidText(v.BlockID)))
				}
			}
		}
		c.op("qb b="+c02BidText(b), fmt.Sprintf("bits=%s sum=%d peer=%d votes=%s", string(bs), bv.sum, c02b(bv.peerMaj23), strings.Join(vt, ",")))
	}
	i := c.r.Intn(c.n)
	if v := vs.GetByIndex(uint32(i)); v == nil {
		c.op(fmt.Sprintf("get i=%d", i), "-")
	} else {
		c.op(fmt.Sprintf("get i=%d", i), fmt.Sprintf("i=%d a=%d h=%d r=%d t=%d b=%s ts=%d s=%d", v.ValidatorIndex, c.addr(v.ValidatorAddress),
			v.Height, v.Round, int(v.Type), c02BidText(v.BlockID), c02TimeID(v.Timestamp), c.sig(v.Signature)))
	}
}

func (c *c02Case) peer() {
	p := 1 + c.r.Intn(3)
	b := c.blocks[c.r.Intn(len(c.blocks))]
	if c.r.Chance(50) {
		b = c.blocks[c.r.Intn(2)]
	}
	var err error
	if vfGuard(c.o, "panic-setpeermaj23", func() string { return c02BidText(b) }, func() {
		err = c.vs.SetPeerMaj23(p2p.ID(fmt.Sprintf("p%d", p)), b)
	}) {
		return
	}
	res := "ok"
	if err != nil {
		res = "conflict"
	}
	c.o.Stat("op.peer." + res)
	c.op(fmt.Sprintf("peer p=%d b=%s", p, c02BidText(b)), res)
	c.checkMaj("after-peer")
}

// ---- commits

func (c *c02Case) commitText(cm *Commit) string {
	if cm == nil {
		return "nil"
	}
	sigs := make([]string, len(cm.Signatures))
	for i, s := range cm.Signatures {
		sigs[i] = fmt.Sprintf("%d/%d/%d/%d", int(s.BlockIDFlag), c.addr(s.ValidatorAddress), c02TimeID(s.Timestamp), c.sig(s.Signature))
	}
	st := strings.Join(sigs, ",")
	if len(sigs) == 0 {
		st = "-"
	}
	return fmt.Sprintf("%d;%d;%s;%s", cm.Height, cm.Round, c02BidText(cm.BlockID), st)
}

var c02reCS = regexp.MustCompile(`wrong CommitSig #(\d+): (.*)`)
var c02reWS = regexp.MustCompile(`wrong signature \(#(\d+)\)`)

func c02VerifyErr(err error) string {
	if err == nil {
		return "ok"
	}
	var ne ErrNotEnoughVotingPowerSigned
	if errors.As(err, &ne) {
		return fmt.Sprintf("err=power:%d:%d", ne.Got, ne.Needed)
	}
	if _, ok := err.(ErrInvalidCommitSignatures); ok {
		return "err=size"
	}
	if _, ok := err.(ErrInvalidCommitHeight); ok {
		return "err=height"
	}
	if errors.Is(err, ErrNilCommit) {
		return "err=nilcommit"
	}
	s := err.Error()
	if m := c02reCS.FindStringSubmatch(s); m != nil {
		switch {
		case strings.Contains(m[2], "unknown BlockIDFlag"):
			return "err=badflag:" + m[1]
		case strings.Contains(m[2], "is present"):
			return "err=absentdata:" + m[1]
		case strings.Contains(m[2], "signature is missing"):
			return "err=sigmissing:" + m[1]
		}
		return "err=other"
	}
	if m := c02reWS.FindStringSubmatch(s); m != nil {
		return "err=wrongsig:" + m[1]
	}
	switch {
	case strings.Contains(s, "Commit cannot be for nil block"):
		return "err=nilblock"
	case strings.Contains(s, "no signatures in commit"):
		return "err=nosigs"
	case strings.Contains(s, "wrong block id"):
		return "err=blockid"
	}
	return "err=other"
}

// verify runs the real VerifyCommit, records the op with the per-index signature bits, and checks
// an accepted commit against the independent verifier.
func (c *c02Case) verify(bid BlockID, h uint64, cm *Commit, kind string) (accepted bool) {
	o := c.o
	o.Stat("op.verify." + kind)
	oks := "-"
	short := false
	if cm != nil && len(cm.Signatures) > 0 {
		bs := make([]byte, len(cm.Signatures))
		for i, s := range cm.Signatures {
			bs[i] = '0'
			if !s.Absent() && len(s.Signature) < 65 { // the empty signature gets that far only at height 0
				short = true
			}
			if i < c.n && (s.BlockIDFlag == BlockIDFlagCommit || s.BlockIDFlag == BlockIDFlagNil || s.BlockIDFlag == BlockIDFlagAbsent) {
				v := &Vote{Type: kproto.PrecommitType, Height: cm.Height, Round: cm.Round, Timestamp: s.Timestamp,
					ValidatorAddress: s.ValidatorAddress, ValidatorIndex: uint32(i), Signature: s.Signature}
				if s.BlockIDFlag == BlockIDFlagCommit {
					v.BlockID = cm.BlockID
				}
				if c02Recovers(c.vals.Validators[i].Address, c02Chain, v) {
					bs[i] = '1'
				}
			}
		}
		oks = string(bs)
	}
	line := fmt.Sprintf("verify b=%s h=%d c=%s oks=%s", c02BidText(bid), h, c.commitText(cm), oks)
	var err error
	res := ""
	shortPanic := false
	func() {
		defer func() {
			if rec := recover(); rec != nil {
				res = "panic"
				if short && strings.Contains(fmt.Sprint(rec), "index out of range") {
					shortPanic = true
					o.Viol("panic-short-signature", fmt.Sprintf("VerifyCommit panics on a commit signature shorter than 65 bytes: %v", rec))
				} else if cm != nil && cm.Height >= 1 {
					o.Viol("panic-verifycommit", fmt.Sprintf("%v; %s", rec, line))
				}
			}
		}()
		err = c.vals.VerifyCommit(c02Chain, bid, h, cm)
		res = c02VerifyErr(err)
	}()
	if shortPanic {
		return false // outside the model (sv is total): signature recovery indexed sig[64] (F23, fixed in 4ce699c)
	}
	c.op(line, res)
	o.Stat("verify.result." + strings.SplitN(res, ":", 2)[0])
	if res != "ok" {
		return false
	}
	// ---- independent verifier
	why := ""
	switch {
	case cm == nil:
		why = "nil commit"
	case len(cm.Signatures) != c.n:
		why = "wrong size"
	case cm.Height != h:
		why = "wrong height"
	case cm.BlockID != bid:
		why = "wrong block id"
	}
	if why == "" {
		good, s := c.more3(func(i int) bool {
			cs := cm.Signatures[i]
			v := &Vote{Type: kproto.PrecommitType, Height: h, Round: cm.Round, Timestamp: cs.Timestamp, BlockID: bid, Signature: cs.Signature}
			signedExactly := (cs.BlockIDFlag == BlockIDFlagCommit) || (cs.BlockIDFlag == BlockIDFlagNil && bid.IsZero())
			return signedExactly && c02Recovers(c.vals.Validators[i].Address, c02Chain, v)
		})
		if !good {
			why = fmt.Sprintf("valid precommit signatures for exactly %s at %d/%d hold %s of %d", c02BidText(bid), h, cm.Round, s, c.total)
		}
	}
	if why != "" {
		o.Viol("verifycommit-unsound", fmt.Sprintf("accepted although %s: %s (powers=%v)", why, line, c.power))
	}
	return true
}

func (c *c02Case) makeCommit() {
	o := c.o
	o.Stat("op.mkcommit")
	var cm *Commit
	res := "panic"
	func() {
		defer func() { recover() }()
		cm = c.vs.MakeCommit()
		res = "ok"
	}()
	maj, has := c.vs.TwoThirdsMajority()
	if cm == nil {
		c.op("mkcommit", "panic")
		if has && c.typ == kproto.PrecommitType && !c.halfSeen {
			o.Viol("makecommit-panics", fmt.Sprintf("majority for %s, well-formed votes only", c02BidText(maj)))
		}
		return
	}
	_ = res
	ct := c.commitText(cm)
	c.op("mkcommit", fmt.Sprintf("ok b=%s h=%d r=%d sigs=%s", c02BidText(cm.BlockID), cm.Height, cm.Round, ct[strings.LastIndex(ct, ";")+1:]))
	c.madeCommit = cm
	o.Stat("mkcommit.ok")
	if cm.BlockID != maj || cm.Height != c.height || cm.Round != c.round || len(cm.Signatures) != c.n {
		o.Viol("makecommit-header", c.commitText(cm))
	}
	for i, s := range cm.Signatures {
		if s.ForBlock() && !c.validFor[i][maj] {
			o.Viol("makecommit-keeps-other-vote", fmt.Sprintf("index %d is flagged for the block but offered no valid vote for %s", i, c02BidText(maj)))
		}
	}
	acc := c.verify(maj, c.height, cm, "made")
	if !acc && !maj.IsZero() {
		o.Viol("commit-roundtrip", fmt.Sprintf("MakeCommit's commit for %s is rejected by VerifyCommit (powers=%v, %s)", c02BidText(maj), c.power, c.commitText(cm)))
	}
	if !acc || maj.IsZero() {
		return
	}
	// the same certificate in its other forms: wire form and back, the vote set a restarted node
	// rebuilds from it (CommitToVoteSet: LastCommit), its bit array and per-index votes
	c.guardForm("commit-proto-roundtrip", func() string {
		back, err := CommitFromProto(cm.ToProto())
		if err != nil {
			return "CommitFromProto(ToProto()) fails: " + err.Error()
		}
		if back.Hash() != cm.Hash() || c.commitText(back) != c.commitText(cm) {
			return "the commit changes across ToProto/CommitFromProto: " + c.commitText(back)
		}
		if err := c.vals.VerifyCommit(c02Chain, maj, c.height, back); err != nil {
			return "rejected after the round trip: " + err.Error()
		}
		return ""
	})
	c.guardForm("commit-to-voteset", func() string {
		vs := CommitToVoteSet(c02Chain, cm, c.vals)
		m2, ok := vs.TwoThirdsMajority()
		if !ok || m2 != maj {
			return fmt.Sprintf("the vote set rebuilt from the commit has majority %s/%v", c02BidText(m2), ok)
		}
		if !vs.IsCommit() {
			return "the rebuilt vote set is not a commit"
		}
		again := vs.MakeCommit()
		if again.Hash() != cm.Hash() {
			return "MakeCommit of the rebuilt vote set is another commit: " + c.commitText(again)
		}
		ba := cm.BitArray()
		for i, sg := range cm.Signatures {
			if ba.GetIndex(i) != !sg.Absent() {
				return fmt.Sprintf("BitArray bit %d = %v, signature absent = %v", i, ba.GetIndex(i), sg.Absent())
			}
			v := cm.GetByIndex(uint32(i))
			if sg.Absent() {
				continue
			}
			if v == nil || v.ValidatorIndex != uint32(i) || v.ValidatorAddress != c.vals.Validators[i].Address || v.Height != c.height || v.Round != c.round ||
				v.Type != kproto.PrecommitType || (sg.ForBlock() && v.BlockID != maj) || (!sg.ForBlock() && !v.BlockID.IsZero()) {
				return fmt.Sprintf("GetByIndex(%d) is not the vote that was cast: %v", i, v)
			}
			if by := vs.GetByIndex(uint32(i)); by == nil || !bytes.Equal(by.Signature, sg.Signature) {
				return fmt.Sprintf("the rebuilt vote set holds another vote at index %d", i)
			}
		}
		return ""
	})
	o.Stat("mkcommit.forms")
}

// guardForm runs one derived-form oracle under recover
func (c *c02Case) guardForm(sig string, f func() string) {
	msg := ""
	func() {
		defer func() {
			if r := recover(); r != nil {
				msg = fmt.Sprintf("panic: %v", r)
			}
		}()
		msg = f()
	}()
	if msg != "" {
		c.o.Viol(sig, fmt.Sprintf("%s (powers=%v, %s)", msg, c.power, c.commitText(c.madeCommit)))
	}
}

// handCommit builds a commit directly from validly signed precommits (no VoteSet involved).
func (c *c02Case) handCommit(bid BlockID, round uint32, voters func(i int) int) *Commit {
	sigs := make([]CommitSig, c.n)
	for i := 0; i < c.n; i++ {
		w := voters(i)
		switch w {
		case 0:
			sigs[i] = NewCommitSigAbsent()
		case 1, 2:
			v := &Vote{Type: kproto.PrecommitType, Height: c.height, Round: round, Timestamp: c02Time(1 + c.r.Intn(3)),
				ValidatorAddress: c.vals.Validators[i].Address, ValidatorIndex: uint32(i)}
			fl := BlockIDFlagNil
			if w == 1 {
				v.BlockID = bid
				fl = BlockIDFlagCommit
			}
			c02Sign(c.keys[i], c02Chain, v)
			sigs[i] = CommitSig{BlockIDFlag: fl, ValidatorAddress: v.ValidatorAddress, Timestamp: v.Timestamp, Signature: v.Signature}
		}
	}
	return NewCommit(c.height, round, bid, sigs)
}

func c02CopyCommit(cm *Commit) *Commit {
	sigs := make([]CommitSig, len(cm.Signatures))
	for i, s := range cm.Signatures {
		sigs[i] = s
		sigs[i].Signature = append([]byte{}, s.Signature...)
		if len(s.Signature) == 0 {
			sigs[i].Signature = nil
		}
	}
	return NewCommit(cm.Height, cm.Round, cm.BlockID, sigs)
}

func (c *c02Case) mutatedVerify() {
	r := c.r
	var base *Commit
	bid := c.blocks[0]
	if c.madeCommit != nil && r.Chance(60) {
		base = c02CopyCommit(c.madeCommit)
		bid = base.BlockID
	} else {
		mode := r.Intn(4)
		thr := r.Intn(c.n + 1)
		perm := r.Intn(c.n)
		base = c.handCommit(bid, c.round, func(i int) int {
			j := (i + perm) % c.n
			switch mode {
			case 0:
				return 1
			case 1:
				if j < thr {
					return 1
				}
				return 0
			case 2:
				if j < thr {
					return 1
				}
				return 2
			}
			return r.Intn(3)
		})
	}
	h := base.Height
	kind := "plain"
	nm := r.Pick(0, 1, 1, 1, 2)
	for k := 0; k < nm; k++ {
		i := r.Intn(len(base.Signatures))
		j := r.Intn(len(base.Signatures))
		m := r.Intn(17)
		kind = fmt.Sprintf("mut%d", m)
		switch m {
		case 0: // commit -> nil flag (signature no longer matches)
			base.Signatures[i].BlockIDFlag = BlockIDFlagNil
		case 1:
			base.Signatures[i].BlockIDFlag = BlockIDFlagCommit
		case 2: // absent but data kept
			base.Signatures[i].BlockIDFlag = BlockIDFlagAbsent
		case 3:
			base.Signatures[i] = NewCommitSigAbsent()
		case 4:
			base.Signatures[i].BlockIDFlag = BlockIDFlag(r.Pick(0, 4, 9))
		case 5: // dropped signature
			base.Signatures = base.Signatures[:len(base.Signatures)-1]
			if len(base.Signatures) == 0 {
				c.verify(bid, h, base, kind)
				return
			}
		case 6: // extra signature
			base.Signatures = append(base.Signatures, base.Signatures[i])
		case 7:
			base.Height += uint64(r.Pick(1, 2))
		case 8:
			h += uint64(r.Pick(1, 2))
		case 9:
			base.Round++
		case 10: // another block id in the commit / asked for another one
			if r.Bool() {
				base.BlockID = c.blocks[1+r.Intn(3)]
			} else {
				bid = c.blocks[1+r.Intn(3)]
			}
		case 11: // both changed: the signatures are for the original block
			nb := c.blocks[1+r.Intn(3)]
			base.BlockID, bid = nb, nb
		case 12: // signature moved to another index
			if r.Bool() {
				base.Signatures[i], base.Signatures[j] = base.Signatures[j], base.Signatures[i]
			} else {
				base.Signatures[j] = base.Signatures[i]
			}
		case 13: // corrupted signature
			if len(base.Signatures[i].Signature) > 0 {
				base.Signatures[i].Signature[r.Intn(len(base.Signatures[i].Signature))] ^= byte(1 << uint(r.Intn(8)))
			}
		case 14: // missing / short signature
			if r.Chance(70) {
				base.Signatures[i].Signature = nil
			} else if len(base.Signatures[i].Signature) > 0 {
				base.Signatures[i].Signature = base.Signatures[i].Signature[:r.Pick(1, 32, 64)]
				c.o.Stat("verify.short-signature")
			}
		case 15: // a prevote signature offered as a precommit (F2), or a precommit for another block
			v := &Vote{Type: kproto.PrevoteType, Height: base.Height, Round: base.Round, Timestamp: c02Time(2), BlockID: base.BlockID,
				ValidatorAddress: c.vals.Validators[i%c.n].Address, ValidatorIndex: uint32(i % c.n)}
			if r.Bool() {
				v.Type = kproto.PrecommitType
				v.BlockID = c.blocks[1]
			}
			c02Sign(c.keys[i%c.n], c02Chain, v)
			base.Signatures[i] = CommitSig{BlockIDFlag: BlockIDFlagCommit, ValidatorAddress: v.ValidatorAddress, Timestamp: v.Timestamp, Signature: v.Signature}
		case 16: // timestamp changed / signed for another chain
			if r.Bool() {
				base.Signatures[i].Timestamp = c02Time(7)
			} else if i < c.n {
				v := &Vote{Type: kproto.PrecommitType, Height: base.Height, Round: base.Round, Timestamp: c02Time(2), BlockID: base.BlockID,
					ValidatorAddress: c.vals.Validators[i].Address, ValidatorIndex: uint32(i)}
				c02Sign(c.keys[i], "other-chain", v)
				base.Signatures[i] = CommitSig{BlockIDFlag: BlockIDFlagCommit, ValidatorAddress: v.ValidatorAddress, Timestamp: v.Timestamp, Signature: v.Signature}
			}
		}
	}
	if r.Chance(2) {
		c.verify(bid, h, nil, "nil")
		return
	}
	if r.Chance(3) { // height 0: Commit.ValidateBasic checks nothing
		base.Height, h = 0, 0
		kind = "height0"
	}
	if c.verify(bid, h, base, kind) {
		c.o.Stat("verify.accepted." + kind)
	}
}

// ---- vote generation

func (c *c02Case) newVote(idx int, b BlockID, ts int) *Vote {
	v := &Vote{Type: c.typ, Height: c.height, Round: c.round, Timestamp: c02Time(ts), BlockID: b,
		ValidatorAddress: c.vals.Validators[idx].Address, ValidatorIndex: uint32(idx)}
	c02Sign(c.keys[idx], c02Chain, v)
	return v
}

func (c *c02Case) voted(i int) bool { return len(c.validFor[i]) > 0 }

func (c *c02Case) pickUnvoted() int {
	start := c.r.Intn(c.n)
	for k := 0; k < c.n; k++ {
		i := (start + k) % c.n
		if !c.voted(i) {
			return i
		}
	}
	return start
}

func (c *c02Case) pickVoted() (int, bool) {
	start := c.r.Intn(c.n)
	for k := 0; k < c.n; k++ {
		i := (start + k) % c.n
		if c.voted(i) {
			return i, true
		}
	}
	return 0, false
}

func (c *c02Case) otherBlock(i int) BlockID {
	for k := 0; k < 8; k++ {
		b := c.blocks[c.r.Intn(len(c.blocks))]
		if !c.validFor[i][b] {
			return b
		}
	}
	return c02Bid(2, 2, 4)
}

func (c *c02Case) voteOp() {
	r := c.r
	switch k := r.Intn(100); {
	case k < 44: // valid vote, preferably from a validator that has not voted
		i := c.pickUnvoted()
		if r.Chance(15) {
			i = r.Intn(c.n)
		}
		c.offer(c.newVote(i, c.pickBlock(), 1+r.Intn(3)), 1, "valid")
	case k < 50: // duplicate
		if len(c.sent) > 0 {
			v := c.sent[r.Intn(len(c.sent))]
			c.offer(v.Copy(), -1, "duplicate")
		}
	case k < 55: // same block, second signature (other timestamp or malleated s)
		if i, ok := c.pickVoted(); ok {
			for b := range c.validFor[i] {
				if r.Bool() {
					c.offer(c.newVote(i, b, 4+r.Intn(3)), 1, "second-signature")
				} else {
					v := c.newVote(i, b, 1+r.Intn(3))
					c02Malleate(v)
					c.offer(v, -1, "malleated-signature")
				}
				break
			}
		}
	case k < 68: // conflicting vote (before or after the quorum, possibly for a peer-claimed block)
		if i, ok := c.pickVoted(); ok {
			c.offer(c.newVote(i, c.otherBlock(i), 1+r.Intn(3)), 1, "conflicting")
		}
	case k < 71: // wrong index
		i := r.Intn(c.n)
		v := c.newVote(i, c.pickBlock(), 1)
		if r.Bool() {
			v.ValidatorIndex = uint32(c.n + r.Intn(3))
		} else if c.n > 1 {
			v.ValidatorIndex = uint32((i + 1) % c.n) // another validator's slot, own address and key
		}
		c.offer(v, 1, "wrong-index")
	case k < 75: // wrong address
		i := r.Intn(c.n)
		v := &Vote{Type: c.typ, Height: c.height, Round: c.round, Timestamp: c02Time(1), BlockID: c.pickBlock(), ValidatorIndex: uint32(i)}
		switch r.Intn(3) {
		case 0: // outsider signs with its own address
			v.ValidatorAddress = crypto.PubkeyToAddress(c02Keys[8].PublicKey)
			c02Sign(c02Keys[8], c02Chain, v)
			c.offer(v, 1, "wrong-address-outsider")
		case 1:
			c02Sign(c.keys[i], c02Chain, v)
			c.offer(v, 0, "empty-address")
		default: // right address, outsider's (or another validator's) key
			v.ValidatorAddress = c.vals.Validators[i].Address
			key := c02Keys[9]
			if c.n > 1 && r.Bool() {
				key = c.keys[(i+1)%c.n]
			}
			c02Sign(key, c02Chain, v)
			c.offer(v, 0, "wrong-key")
		}
	case k < 84: // wrong height / round / type / chain id (validly signed for what it says)
		i := c.pickUnvoted()
		v := &Vote{Type: c.typ, Height: c.height, Round: c.round, Timestamp: c02Time(1), BlockID: c.pickBlock(),
			ValidatorAddress: c.vals.Validators[i].Address, ValidatorIndex: uint32(i)}
		chain := c02Chain
		exp := 1
		kind := ""
		switch r.Intn(6) {
		case 0:
			v.Height += uint64(r.Pick(1, 2))
			kind = "wrong-height"
		case 1:
			v.Round++
			kind = "wrong-round"
		case 2:
			v.Type = kproto.PrevoteType + kproto.PrecommitType - c.typ
			kind = "wrong-type"
		case 3:
			chain, exp, kind = "other-chain", 0, "wrong-chain"
		case 4: // relabelled after signing: the other type's signature (F2)
			v.Type = kproto.PrevoteType + kproto.PrecommitType - c.typ
			c02Sign(c.keys[i], c02Chain, v)
			v.Type = c.typ
			c.offer(v, 0, "relabelled-type")
			return
		default: // block id changed after signing (incl. only the part-set total)
			c02Sign(c.keys[i], c02Chain, v)
			if v.BlockID == c.blocks[1] {
				v.BlockID = c.blocks[0]
			} else {
				v.BlockID = c.blocks[1]
			}
			c.offer(v, 0, "relabelled-block")
			return
		}
		c02Sign(c.keys[i], chain, v)
		c.offer(v, exp, kind)
	case k < 93: // corrupted signature
		i := c.pickUnvoted()
		if r.Chance(30) {
			i = r.Intn(c.n)
		}
		v := c.newVote(i, c.pickBlock(), 1+r.Intn(3))
		switch r.Intn(8) {
		case 0:
			v.Signature = nil
			c.offer(v, 0, "empty-signature")
		case 1:
			v.Signature = v.Signature[:r.Pick(1, 32, 64)]
			c.offer(v, 0, "short-signature")
		case 2:
			v.Signature = append(v.Signature, 0)
			c.offer(v, -1, "long-signature")
		default:
			v.Signature[r.Intn(65)] ^= byte(1 << uint(r.Intn(8)))
			c.offer(v, -1, "flipped-signature")
		}
	case k < 95:
		c.offer(nil, -1, "nil")
	default: // timestamp changed after signing
		i := c.pickUnvoted()
		v := c.newVote(i, c.pickBlock(), 1)
		v.Timestamp = c02Time(9)
		c.offer(v, 0, "relabelled-time")
	}
}

var c02N, _ = new(big.Int).SetString("fffffffffffffffffffffffffffffffebaaedce6af48a03bbfd25e8cd0364141", 16)

// c02Malleate turns (r,s,v) into the other valid signature (r, N-s, v^1) of the same message.
func c02Malleate(v *Vote) {
	s := new(big.Int).SetBytes(v.Signature[32:64])
	s.Sub(c02N, s)
	sb := s.Bytes()
	out := append([]byte{}, v.Signature...)
	for i := 32; i < 64; i++ {
		out[i] = 0
	}
	copy(out[64-len(sb):64], sb)
	out[64] ^= 1
	v.Signature = out
}

func TestVerifC02(t *testing.T) {
	c02InitKeys()
	o := vfOpen()
	defer o.Close()
	seed := vfSeed()
	n := vfN(300)
	for ci := 0; ci < n; ci++ {
		r := vfFork(seed, uint64(ci))
		c := c02NewCase(o, r)
		nops := 8 + r.Intn(73)
		wQuery, wPeer, wCommit := 8, 6, 8
		for k := 0; k < nops; k++ {
			switch x := r.Intn(100); {
			case x < wQuery:
				c.query()
			case x < wQuery+wPeer:
				c.peer()
			case x < wQuery+wPeer+wCommit:
				if r.Chance(45) {
					c.makeCommit()
				} else {
					c.mutatedVerify()
				}
			default:
				c.voteOp()
			}
		}
		// end of case: full query, commit round trip
		c.query()
		c.makeCommit()
		c.mutatedVerify()
		_, has := c.vs.TwoThirdsMajority()
		key := c.desc.String()
		o.Case(key, has || c.vs.HasTwoThirdsAny())
		if has {
			o.Stat("case.with-majority")
		}
		o.Stat(fmt.Sprintf("case.total-mod3.%d", c.total%3))
		if c.total > MaxTotalVotingPower-8 {
			o.Stat("case.total-at-cap")
		}
		o.Stat(fmt.Sprintf("case.validators.%d", c.n))
		if ci < 2 {
			o.Sample(key)
		}
	}
}
