package types

// C13 harness (part 1): differential of lib/merkle (tree, proofs, verification) and of
// types.PartSet (NewPartSetFromData, NewPartSetFromHeader, AddPart, IsComplete, GetReader)
// against the Lean model `partset`, plus the property oracle written from the statement:
//   * the proofs made for a list verify; a proof that verifies for (index, total=len) shows the
//     item at that index;
//   * a part set that reports itself complete yields exactly the original bytes;
//   * a part that does not belong at its index is never stored, and cannot prevent the genuine
//     part from being added later;
//   * any arrival order with duplicates and bogus parts in between reassembles the data.
// The block-level clauses (hash binding, validation, encodings) are in
// kai/state/cstate/c13_test.go.

import (
	"bytes"
	"fmt"
	"io/ioutil"
	"strings"
	"testing"

	"github.com/kardiachain/go-kardia/lib/common"
	"github.com/kardiachain/go-kardia/lib/merkle"
)

const vfcModel = "partset"

func vfcItems(items [][]byte) string {
	if len(items) == 0 {
		return ""
	}
	s := make([]string, len(items))
	for i, it := range items {
		s[i] = vfHex(it)
	}
	return " " + strings.Join(s, " ")
}

func vfcHexList(l [][]byte) string {
	if len(l) == 0 {
		return "-"
	}
	s := make([]string, len(l))
	for i, it := range l {
		s[i] = vfHex(it)
	}
	return strings.Join(s, ",")
}

func vfcProofText(p *merkle.SimpleProof) string {
	return fmt.Sprintf("%d:%d:%s:%s", p.Total, p.Index, vfHex(p.LeafHash), vfcHexList(p.Aunts))
}

func vfcProofKV(p *merkle.SimpleProof, t, i string) string {
	return fmt.Sprintf("%s=%d %s=%d lh=%s aunts=%s", t, p.Total, i, p.Index, vfHex(p.LeafHash), vfcHexList(p.Aunts))
}

func vfcCopyProof(p *merkle.SimpleProof) *merkle.SimpleProof {
	q := &merkle.SimpleProof{Total: p.Total, Index: p.Index, LeafHash: append([]byte{}, p.LeafHash...)}
	for _, a := range p.Aunts {
		q.Aunts = append(q.Aunts, append([]byte{}, a...))
	}
	return q
}

func vfcCopyPart(p *Part) *Part {
	return &Part{Index: p.Index, Bytes: append([]byte{}, p.Bytes...), Proof: *vfcCopyProof(&p.Proof)}
}

func vfcVerify(p *merkle.SimpleProof, root, leaf []byte) string {
	err := p.Verify(root, leaf)
	switch {
	case err == nil:
		return "ok"
	case strings.HasPrefix(err.Error(), "invalid leaf hash"):
		return "bad-leaf"
	case strings.HasPrefix(err.Error(), "invalid root hash"):
		return "bad-root"
	}
	return "other:" + err.Error()
}

// vfcMutProof returns a perturbed copy of p and the name of the perturbation.
func vfcMutProof(r *vfRand, p *merkle.SimpleProof, others []*merkle.SimpleProof) (*merkle.SimpleProof, string) {
	q := vfcCopyProof(p)
	switch r.Intn(12) {
	case 0:
		q.Index = uint64(r.Intn(int(q.Total) + 2))
		return q, "index"
	case 1:
		q.Total = uint64(r.Intn(int(q.Total) + 3))
		return q, "total"
	case 2:
		if q.Total > 0 {
			q.Total--
		}
		return q, "total-1"
	case 3:
		q.Total++
		return q, "total+1"
	case 4:
		if len(q.Aunts) >= 2 {
			i, j := r.Intn(len(q.Aunts)), r.Intn(len(q.Aunts))
			q.Aunts[i], q.Aunts[j] = q.Aunts[j], q.Aunts[i]
		}
		return q, "aunts-swapped"
	case 5:
		if len(q.Aunts) > 0 {
			k := r.Intn(len(q.Aunts))
			q.Aunts = append(q.Aunts[:k:k], q.Aunts[k+1:]...)
		}
		return q, "aunt-dropped"
	case 6:
		k := r.Intn(len(q.Aunts) + 1)
		extra := r.Bytes(32)
		if len(q.Aunts) > 0 && r.Bool() {
			extra = append([]byte{}, q.Aunts[r.Intn(len(q.Aunts))]...)
		}
		na := append([][]byte{}, q.Aunts[:k]...)
		na = append(na, extra)
		q.Aunts = append(na, q.Aunts[k:]...)
		return q, "aunt-added"
	case 7:
		if len(q.Aunts) > 0 {
			a := q.Aunts[r.Intn(len(q.Aunts))]
			a[r.Intn(len(a))] ^= byte(1 << uint(r.Intn(8)))
		}
		return q, "aunt-flipped"
	case 8:
		q.LeafHash[r.Intn(len(q.LeafHash))] ^= byte(1 << uint(r.Intn(8)))
		return q, "leafhash-flipped"
	case 9:
		if len(others) > 0 {
			o := others[r.Intn(len(others))]
			q.Aunts = vfcCopyProof(o).Aunts
		}
		return q, "aunts-of-other"
	case 10:
		if len(others) > 0 {
			o := others[r.Intn(len(others))]
			q.LeafHash = append([]byte{}, o.LeafHash...)
		}
		return q, "leafhash-of-other"
	default:
		if len(q.Aunts) > 0 {
			q.Aunts = q.Aunts[:r.Intn(len(q.Aunts))]
		}
		return q, "aunts-truncated"
	}
}

func vfcGenItems(r *vfRand) [][]byte {
	n := r.Pick(0, 1, 1, 2, 2, 3, 3, 4, 5, 6, 7, 8, 9, 12, 13, 16, 17, 31, 33)
	if r.Chance(30) {
		n = r.Intn(14)
	}
	tiny := r.Chance(25)
	items := make([][]byte, n)
	for i := range items {
		if tiny {
			items[i] = [][]byte{{}, {0}, {1}, {0, 1}}[r.Intn(4)]
		} else {
			items[i] = r.Bytes(r.Pick(0, 1, 2, 31, 32, 33, 40, 64, 65))
		}
	}
	return items
}

// ---- (a) Merkle tree
func vfcMerkleCase(o *vfOut, r *vfRand) string {
	items := vfcGenItems(r)
	n := len(items)
	root := merkle.SimpleHashFromByteSlices(items)
	o.Op(vfcModel, "root"+vfcItems(items), vfHex(root))
	o.Stat(fmt.Sprintf("merkle.items.%02d", n))
	var proofs []*merkle.SimpleProof
	var root2 []byte
	panicked := false
	func() {
		defer func() {
			if e := recover(); e != nil {
				panicked = true
			}
		}()
		root2, proofs = merkle.SimpleProofsFromByteSlices(items)
	}()
	if panicked {
		o.Op(vfcModel, "proofs"+vfcItems(items), "panic")
		o.Stat("merkle.proofs.panic")
		if n != 0 {
			o.Viol("merkle-proofs-panic", fmt.Sprintf("n=%d", n))
		}
		return fmt.Sprintf("m:%d:%x", n, root)
	}
	ptxt := make([]string, len(proofs))
	for i, p := range proofs {
		ptxt[i] = vfcProofText(p)
	}
	o.Op(vfcModel, "proofs"+vfcItems(items), vfHex(root2)+" "+strings.Join(ptxt, " "))
	if !bytes.Equal(root, root2) {
		o.Viol("merkle-two-roots", fmt.Sprintf("n=%d %x %x", n, root, root2))
	}
	// proof_complete (oracle): every generated proof verifies for its own item
	for i, p := range proofs {
		if p.Total != uint64(n) || p.Index != uint64(i) {
			o.Viol("merkle-proof-index-total", fmt.Sprintf("n=%d i=%d proof=%s", n, i, vfcProofText(p)))
		}
		if err := p.Verify(root, items[i]); err != nil {
			o.Viol("merkle-genuine-proof-rejected", fmt.Sprintf("n=%d i=%d err=%v", n, i, err))
		}
		if err := p.ValidateBasic(); err != nil {
			o.Viol("merkle-genuine-proof-invalid", fmt.Sprintf("n=%d i=%d err=%v", n, i, err))
		}
	}
	if n == 0 {
		return "m:0"
	}
	// a few exact verifications through the model, then perturbed ones
	for k := 0; k < 2; k++ {
		i := r.Intn(n)
		p := proofs[i]
		o.Op(vfcModel, fmt.Sprintf("verify root=%s %s leaf=%s", vfHex(root), vfcProofKV(p, "total", "index"), vfHex(items[i])), vfcVerify(p, root, items[i]))
	}
	for k := 0; k < 6; k++ {
		i := r.Intn(n)
		q, kind := vfcMutProof(r, proofs[i], proofs)
		leaf := items[i]
		if r.Chance(25) {
			leaf = items[r.Intn(n)]
			kind += "+leaf-of-other"
		} else if r.Chance(10) {
			leaf = append(append([]byte{}, leaf...), byte(r.Intn(256)))
			kind += "+leaf-extended"
		}
		rt := root
		if r.Chance(5) {
			rt = nil // Verify against an empty root (bytes.Equal(nil, []) quirk)
			kind += "+empty-root"
		}
		var res string
		vfGuard(o, "panic-verify", func() string { return vfcProofText(q) }, func() {
			res = vfcVerify(q, rt, leaf)
			c := q.ComputeRootHash()
			ctxt := "nil"
			if c != nil {
				ctxt = vfHex(c)
			}
			o.Op(vfcModel, "compute "+vfcProofKV(q, "total", "index"), ctxt)
		})
		o.Op(vfcModel, fmt.Sprintf("verify root=%s %s leaf=%s", vfHex(rt), vfcProofKV(q, "total", "index"), vfHex(leaf)), res)
		o.Stat("merkle.verify." + res)
		o.Stat("merkle.mut." + kind + "." + res)
		// proof_sound (oracle): accepted for (index, total = n) against the true root => the leaf
		// is the item at that index
		if res == "ok" && rt != nil && q.Total == uint64(n) {
			if q.Index >= uint64(n) || !bytes.Equal(items[q.Index], leaf) {
				o.Viol("merkle-proof-unsound", fmt.Sprintf("n=%d kind=%s proof=%s leaf=%x", n, kind, vfcProofText(q), leaf))
			}
		}
	}
	return fmt.Sprintf("m:%d:%x", n, root)
}

// ---- (b) part sets

func vfcAddVerdict(added bool, err error) string {
	switch {
	case added && err == nil:
		return "added"
	case !added && err == nil:
		return "present"
	case !added && err == ErrPartSetUnexpectedIndex:
		return "unexpected-index"
	case !added && err == ErrPartSetInvalidProof:
		return "invalid-proof"
	}
	return fmt.Sprintf("other:%v:%v", added, err)
}

func vfcAddOp(p *Part) string {
	return fmt.Sprintf("add index=%d bytes=%s %s", p.Index, vfHex(p.Bytes), vfcProofKV(&p.Proof, "ptotal", "pindex"))
}

func vfcReadAll(ps *PartSet) (res string, data []byte) {
	defer func() {
		if e := recover(); e != nil {
			msg := fmt.Sprint(e)
			switch {
			case strings.Contains(msg, "incomplete PartSet"):
				res = "panic-incomplete"
			case strings.Contains(msg, "index out of range"):
				res = "panic-index"
			case strings.Contains(msg, "nil pointer"):
				res = "panic-nil"
			default:
				res = "panic-other:" + msg
			}
		}
	}()
	b, err := ioutil.ReadAll(ps.GetReader())
	if err != nil {
		return "read-error:" + err.Error(), nil
	}
	return "ok " + vfHex(b), b
}

func vfcGenData(r *vfRand, big bool) (data []byte, size uint32) {
	if big {
		size = BlockPartSizeBytes
		np := 1 + r.Intn(3)
		if vfThorough() {
			np = 1 + r.Intn(6)
		}
		l := (np-1)*int(size) + r.Pick(1, 2, int(size)-1, int(size), 1+r.Intn(int(size)))
		return r.Bytes(l), size
	}
	size = uint32(r.Pick(1, 1, 2, 3, 7, 7, 64, 64, 100))
	np := r.Pick(0, 1, 1, 2, 2, 3, 3, 4, 5, 6, 7, 8, 9, 12, 13, 14, 16, 17)
	if np == 0 {
		return []byte{}, size
	}
	last := 1 + r.Intn(int(size))
	if r.Chance(35) {
		last = int(size)
	}
	l := (np-1)*int(size) + last
	if r.Chance(15) { // tiny universe: equal parts, equal leaves
		return bytes.Repeat([]byte{byte(r.Intn(2))}, l), size
	}
	return r.Bytes(l), size
}

func vfcPartSetCase(o *vfOut, r *vfRand, big bool) string {
	data, size := vfcGenData(r, big)
	var full *PartSet
	panicked := false
	func() {
		defer func() {
			if e := recover(); e != nil {
				panicked = true
			}
		}()
		full = NewPartSetFromData(data, size)
	}()
	newOp := fmt.Sprintf("newdata size=%d data=%s", size, vfHex(data))
	if panicked {
		o.Op(vfcModel, newOp, "panic")
		o.Stat("partset.newdata.panic")
		if len(data) != 0 {
			o.Viol("partset-newdata-panic", fmt.Sprintf("len=%d size=%d", len(data), size))
		}
		return "p:empty"
	}
	total := int(full.Total())
	o.Op(vfcModel, newOp, fmt.Sprintf("%d %s", total, vfHex(full.Hash().Bytes())))
	o.Stat(fmt.Sprintf("partset.parts.%02d", total))
	if big {
		o.Stat("partset.size65536")
	}
	// statement: part count = ceil(len/size), every part full except the last, which is 1..size
	if total != (len(data)+int(size)-1)/int(size) {
		o.Viol("partset-part-count", fmt.Sprintf("len=%d size=%d total=%d", len(data), size, total))
	}
	genuine := make([]*Part, total)
	for i := 0; i < total; i++ {
		p := full.GetPart(i)
		genuine[i] = vfcCopyPart(p)
		want := int(size)
		if i == total-1 {
			want = len(data) - (total-1)*int(size)
		}
		if len(p.Bytes) != want || int(p.Index) != i {
			o.Viol("partset-part-shape", fmt.Sprintf("len=%d size=%d i=%d partlen=%d index=%d", len(data), size, i, len(p.Bytes), p.Index))
		}
		if !big || i == total-1 {
			o.Op(vfcModel, fmt.Sprintf("getpart i=%d", i), fmt.Sprintf("%d %s %s", p.Index, vfHex(p.Bytes), vfcProofText(&p.Proof)))
		}
	}
	if !big {
		parts := make([][]byte, total)
		for i := range parts {
			parts[i] = genuine[i].Bytes
		}
		o.Op(vfcModel, fmt.Sprintf("split size=%d data=%s", size, vfHex(data)), vfcHexList(parts))
	}
	if !full.IsComplete() {
		o.Viol("partset-full-not-complete", fmt.Sprintf("len=%d size=%d", len(data), size))
	}
	res, got := vfcReadAll(full)
	o.Op(vfcModel, "read", res)
	if !bytes.Equal(got, data) {
		o.Viol("partset-full-reader-differs", fmt.Sprintf("len=%d size=%d got=%d bytes", len(data), size, len(got)))
	}

	// another part set with the same number of parts (source of foreign parts)
	other := NewPartSetFromData(r.Bytes(len(data)), size)

	// the receiving side
	hdr := full.Header()
	ps := NewPartSetFromHeader(hdr)
	o.Op(vfcModel, fmt.Sprintf("newhdr total=%d hash=%s", hdr.Total, vfHex(hdr.Hash.Bytes())), "ok")

	stored := make([]bool, total)
	nstored := 0
	offer := func(p *Part, kind string, isGenuine bool) {
		p = vfcCopyPart(p)
		op := vfcAddOp(p)
		var verdict string
		if vfGuard(o, "panic-addpart", func() string { return kind }, func() {
			added, err := ps.AddPart(p)
			verdict = vfcAddVerdict(added, err)
		}) {
			return
		}
		cpl := 0
		if ps.IsComplete() {
			cpl = 1
		}
		o.Op(vfcModel, op, fmt.Sprintf("%s %d %d", verdict, ps.Count(), cpl))
		o.Stat("partset.add." + kind + "." + verdict)
		idx := int(p.Index)
		belongs := idx < total && bytes.Equal(p.Bytes, genuine[idx].Bytes)
		if verdict == "added" {
			if !belongs {
				o.Viol("bogus-part-accepted:"+kind, fmt.Sprintf("total=%d size=%d index=%d proof=%d/%d", total, size, idx, p.Proof.Index, p.Proof.Total))
			} else {
				if stored[idx] {
					o.Viol("filled-slot-overwritten", fmt.Sprintf("total=%d index=%d kind=%s", total, idx, kind))
				}
				stored[idx] = true
				nstored++
			}
		}
		if isGenuine {
			// genuine_always_addable: accepted, or refused only because it is already there
			if verdict != "added" && !(verdict == "present" && stored[idx]) {
				o.Viol("genuine-part-refused", fmt.Sprintf("total=%d size=%d index=%d verdict=%s stored=%v", total, size, idx, verdict, stored[idx]))
			}
		}
		if int(ps.Count()) != nstored {
			o.Viol("partset-count-wrong", fmt.Sprintf("total=%d count=%d distinct genuine stored=%d after %s", total, ps.Count(), nstored, kind))
		}
		if ps.IsComplete() != (nstored == total) {
			o.Viol("partset-complete-wrong", fmt.Sprintf("total=%d stored=%d complete=%v after %s", total, nstored, ps.IsComplete(), kind))
		}
		if ps.IsComplete() {
			// partset_exact: complete => exactly the committed data
			_, b := vfcReadAll(ps)
			if !bytes.Equal(b, data) {
				o.Viol("complete-partset-wrong-bytes", fmt.Sprintf("total=%d size=%d len=%d got=%d after %s", total, size, len(data), len(b), kind))
			}
		}
	}
	bogus := func() {
		i := r.Intn(total)
		g := genuine[i]
		p := vfcCopyPart(g)
		kind := ""
		switch r.Intn(15) {
		case 0: // wrong index, proof untouched
			p.Index = uint32(r.Intn(total + 1))
			kind = "moved"
		case 1: // another leaf's bytes and proof offered at index i (F3)
			j := r.Intn(total)
			p = vfcCopyPart(genuine[j])
			p.Index = uint32(i)
			kind = "other-leaf"
		case 2: // another leaf's bytes and aunts, proof index rewritten to i
			j := r.Intn(total)
			p = vfcCopyPart(genuine[j])
			p.Index = uint32(i)
			p.Proof.Index = uint64(i)
			kind = "other-leaf-reindexed"
		case 3:
			p.Proof.Total = uint64(r.Pick(total-1, total+1, total*2, 0, 1))
			kind = "wrong-total"
		case 4:
			if len(p.Bytes) > 0 {
				p.Bytes = p.Bytes[:r.Intn(len(p.Bytes))]
			}
			kind = "truncated"
		case 5:
			p.Bytes = append(p.Bytes, byte(r.Intn(256)))
			kind = "extended"
		case 6:
			if len(p.Bytes) > 0 {
				p.Bytes[r.Intn(len(p.Bytes))] ^= byte(1 << uint(r.Intn(8)))
			}
			kind = "flipped"
		case 7:
			q, k := vfcMutProof(r, &p.Proof, nil)
			p.Proof = *q
			kind = "proof-" + k
		case 8: // part of another part set with the same shape
			p = vfcCopyPart(other.GetPart(i))
			kind = "foreign"
		case 9: // foreign bytes under the genuine proof
			p.Bytes = append([]byte{}, other.GetPart(i).Bytes...)
			kind = "foreign-bytes"
		case 10:
			p.Index = uint32(total + r.Intn(3))
			p.Proof.Index = uint64(p.Index)
			kind = "index-out-of-range"
		case 11: // bogus bytes with a matching leaf hash but the genuine aunts
			p.Bytes = r.Bytes(1 + r.Intn(int(size)))
			p.Proof.LeafHash = merkle.SimpleHashFromByteSlices([][]byte{p.Bytes})
			kind = "rehashed-leaf"
		default:
			// tree-size aliasing (F3): look for (index', total') ≠ (i, total) under which the
			// genuine leaf hash and aunts of part i still hash to the root, e.g. leaf 2 of a
			// 3-leaf tree is leaf 1 of a 2-leaf tree; offer part i's bytes at index'.
			kind = "total-aliasing"
			p.Proof.Total = uint64(total + 1)
			root := full.Hash().Bytes()
		search:
			for t2 := 1; t2 <= 2*total+2; t2++ {
				for i2 := 0; i2 < t2 && i2 < total; i2++ {
					if t2 == total && i2 == i {
						continue
					}
					q := vfcCopyProof(&g.Proof)
					q.Total, q.Index = uint64(t2), uint64(i2)
					if bytes.Equal(q.ComputeRootHash(), root) {
						p.Index = uint32(i2)
						p.Proof = *q
						kind = "total-aliasing-found"
						break search
					}
				}
			}
		}
		offer(p, kind, false)
		if r.Chance(40) && int(p.Index) < total {
			// "cannot prevent the genuine part from being added later"
			offer(genuine[p.Index], "genuine-after-bogus", true)
		}
	}

	// schedule: a permutation of the genuine parts with duplicates and bogus parts in between;
	// sometimes cut short
	order := make([]int, total)
	for i := range order {
		order[i] = i
	}
	for i := total - 1; i > 0; i-- {
		j := r.Intn(i + 1)
		order[i], order[j] = order[j], order[i]
	}
	cut := total
	if r.Chance(15) {
		cut = r.Intn(total + 1)
	}
	nb := 0
	maxBogus := 12
	if big {
		maxBogus = 2
	}
	for k, i := range order[:cut] {
		for r.Chance(45) && nb < maxBogus {
			bogus()
			nb++
		}
		offer(genuine[i], "genuine", true)
		if r.Chance(25) && !big {
			offer(genuine[order[r.Intn(k+1)]], "duplicate", true)
		}
	}
	for r.Chance(50) && nb < maxBogus+2 {
		bogus()
		nb++
	}
	// end of schedule
	cpl := "0"
	if ps.IsComplete() {
		cpl = "1"
	}
	o.Op(vfcModel, "complete", cpl)
	res, got = vfcReadAll(ps)
	o.Op(vfcModel, "read", res)
	allOffered := cut == total
	if allOffered {
		o.Stat("partset.schedule.full")
		if !ps.IsComplete() {
			o.Viol("incomplete-after-all-genuine", fmt.Sprintf("total=%d size=%d count=%d", total, size, ps.Count()))
		} else if !bytes.Equal(got, data) {
			o.Viol("reassembled-differs", fmt.Sprintf("total=%d size=%d len=%d got=%d", total, size, len(data), len(got)))
		}
		if hdr2 := ps.Header(); !hdr2.Equals(hdr) {
			o.Viol("partset-header-changed", fmt.Sprintf("%v %v", hdr, hdr2))
		}
	} else {
		o.Stat("partset.schedule.cut")
	}
	return fmt.Sprintf("p:%d:%d:%x:%d", len(data), size, full.Hash().Bytes()[:8], nb)
}

// vfcUnevenCase: what a Byzantine proposer can send — a part set whose parts do NOT all have the
// same size (the header only commits to the Merkle root of the leaves, whatever their lengths).
// Every part carries a valid proof, so all are added; the reassembled bytes must be exactly the
// concatenation of the leaves the root commits to (seeded change C13_d: a reader that places part
// i at offset i * len(part 0)).
func vfcUnevenCase(o *vfOut, r *vfRand) string {
	n := 2 + r.Intn(5)
	leaves := make([][]byte, n)
	var want []byte
	for i := range leaves {
		leaves[i] = r.Bytes(r.Pick(1, 2, 7, 32, 33, 64, 100, 1+r.Intn(200)))
		want = append(want, leaves[i]...)
	}
	root, proofs := merkle.SimpleProofsFromByteSlices(leaves)
	hdr := PartSetHeader{Total: uint32(n), Hash: common.BytesToHash(root)}
	ps := NewPartSetFromHeader(hdr)
	o.Op(vfcModel, fmt.Sprintf("newhdr total=%d hash=%s", hdr.Total, vfHex(hdr.Hash.Bytes())), "ok")
	order := make([]int, n)
	for i := range order {
		order[i] = i
	}
	for i := n - 1; i > 0; i-- {
		j := r.Intn(i + 1)
		order[i], order[j] = order[j], order[i]
	}
	for _, i := range order {
		p := &Part{Index: uint32(i), Bytes: append([]byte{}, leaves[i]...), Proof: *proofs[i]}
		op := vfcAddOp(p)
		verdict := "panic"
		if vfGuard(o, "panic-addpart", func() string { return "uneven" }, func() {
			added, err := ps.AddPart(vfcCopyPart(p))
			verdict = vfcAddVerdict(added, err)
		}) {
			return "u:panic"
		}
		cpl := 0
		if ps.IsComplete() {
			cpl = 1
		}
		o.Op(vfcModel, op, fmt.Sprintf("%s %d %d", verdict, ps.Count(), cpl))
		if verdict != "added" {
			o.Viol("genuine-part-refused:uneven", fmt.Sprintf("total=%d index=%d len=%d verdict=%s", n, i, len(leaves[i]), verdict))
		}
	}
	cpl := "0"
	if ps.IsComplete() {
		cpl = "1"
	}
	o.Op(vfcModel, "complete", cpl)
	res, got := vfcReadAll(ps)
	o.Op(vfcModel, "read", res)
	if !ps.IsComplete() {
		o.Viol("incomplete-after-all-genuine", fmt.Sprintf("uneven total=%d", n))
	} else if !bytes.Equal(got, want) {
		o.Viol("reassembled-differs", fmt.Sprintf("uneven part sizes: total=%d committed %d bytes, reader gave %d bytes (equal to the committed concatenation: false)", n, len(want), len(got)))
	}
	o.Stat("partset.uneven")
	return fmt.Sprintf("u:%d:%x", n, root[:6])
}

func TestVerifC13(t *testing.T) {
	o := vfOpen()
	defer o.Close()
	seed := vfSeed()
	n := vfN(400)
	_ = common.Hash{}
	for i := 0; i < n; i++ {
		r := vfFork(seed, uint64(i))
		o.Op(vfcModel, "case", "ok")
		var key string
		nontrivial := true
		switch {
		case i%3 == 0:
			key = vfcMerkleCase(o, r)
			nontrivial = key != "m:0"
		case i%97 == 1:
			key = vfcPartSetCase(o, r, true)
		case i%11 == 4:
			key = vfcUnevenCase(o, r)
		default:
			key = vfcPartSetCase(o, r, false)
			nontrivial = key != "p:empty"
		}
		o.Case(key, nontrivial)
		if i < 4 {
			o.Sample(key)
		}
	}
}
