package types

// C16 harness, typed part: "transactions, receipts and accounts keep their hashes across
// encode/decode". Generated transactions (all field sizes incl. zero values, contract creation,
// 256-bit amounts, arbitrary V/R/S), receipts (status or post-state, logs with 0..4 topics),
// storage receipts, block infos, logs and state accounts (full and slim form) are encoded with the
// types' own EncodeRLP methods; every encoding is compared with the Lean RLP model (op `enc` on the
// item tree spelled out field by field) and with go-ethereum's encoder on the same field list,
// decoded back with the types' DecodeRLP, compared field by field, re-encoded and hashed. Mutated
// encodings must not panic the typed decoders, and whatever they accept must re-encode to itself.

import (
	"bytes"
	"fmt"
	"math/big"
	"strings"
	"testing"

	gethrlp "github.com/ethereum/go-ethereum/rlp"

	"github.com/kardiachain/go-kardia/lib/common"
	"github.com/kardiachain/go-kardia/lib/crypto"
	"github.com/kardiachain/go-kardia/lib/rlp"
)

const c16tModel = "rlp"

func c16tU(n uint64) []byte { return new(big.Int).SetUint64(n).Bytes() }
func c16tB(b *big.Int) []byte {
	if b == nil {
		return nil
	}
	return b.Bytes()
}
func c16tText(v interface{}) string {
	switch x := v.(type) {
	case []byte:
		return "s" + vfHex(x)
	case []interface{}:
		parts := make([]string, len(x))
		for i, e := range x {
			parts[i] = c16tText(e)
		}
		return "[" + strings.Join(parts, ",") + "]"
	}
	return "?"
}

func c16tBig(r *vfRand) *big.Int {
	switch r.Intn(6) {
	case 0:
		return new(big.Int)
	case 1:
		return big.NewInt(int64(r.Pick(1, 127, 128, 255, 256)))
	case 2:
		return new(big.Int).SetBytes(r.Bytes(32))
	case 3:
		return new(big.Int).Sub(new(big.Int).Lsh(big.NewInt(1), 256), big.NewInt(1))
	default:
		return new(big.Int).SetBytes(r.Bytes(1 + r.Intn(20)))
	}
}
func c16tU64(r *vfRand) uint64 {
	switch r.Intn(5) {
	case 0:
		return 0
	case 1:
		return uint64(r.Pick(1, 127, 128, 255, 256, 65535))
	case 2:
		return ^uint64(0) >> uint(r.Intn(3))
	default:
		return r.U64() >> uint(r.Intn(64))
	}
}
func c16tPayload(r *vfRand) []byte {
	switch r.Intn(6) {
	case 0:
		return []byte{}
	case 1:
		return []byte{byte(r.Pick(0, 1, 0x7f, 0x80, 0xff))}
	case 2:
		return r.Bytes(r.Pick(55, 56, 57, 255, 256, 1000))
	default:
		return r.Bytes(r.Intn(80))
	}
}

func c16tLog(r *vfRand) (*Log, interface{}) {
	l := &Log{Address: common.BytesToAddress(r.Bytes(20)), Topics: []common.Hash{}, Data: c16tPayload(r)}
	var tops []interface{}
	for k := r.Intn(5); k > 0; k-- {
		h := common.BytesToHash(r.Bytes(32))
		if r.Chance(10) {
			h = common.Hash{}
		}
		l.Topics = append(l.Topics, h)
		tops = append(tops, h.Bytes())
	}
	if tops == nil {
		tops = []interface{}{}
	}
	return l, []interface{}{l.Address.Bytes(), tops, []byte(l.Data)}
}

func c16tSameLogs(a, b []*Log) bool {
	if len(a) != len(b) {
		return false
	}
	for i := range a {
		if a[i].Address != b[i].Address || !bytes.Equal(a[i].Data, b[i].Data) || len(a[i].Topics) != len(b[i].Topics) {
			return false
		}
		for j := range a[i].Topics {
			if a[i].Topics[j] != b[i].Topics[j] {
				return false
			}
		}
	}
	return true
}

func c16tMutate(r *vfRand, b []byte) []byte {
	c := append([]byte{}, b...)
	switch r.Intn(7) {
	case 0:
		if len(c) > 0 {
			c = c[:r.Intn(len(c))]
		}
	case 1:
		c = append(c, r.Bytes(1+r.Intn(3))...)
	case 2, 3:
		if len(c) > 0 {
			c[r.Intn(len(c))] ^= byte(1 << uint(r.Intn(8)))
		}
	case 4:
		if len(c) > 0 {
			c[r.Intn(len(c))] = byte(r.Pick(0, 0x80, 0x81, 0xb8, 0xc0, 0xf8))
		}
	case 5: // insert a zero byte (leading zeros in integers)
		i := r.Intn(len(c) + 1)
		c = append(c[:i], append([]byte{0}, c[i:]...)...)
	default:
		if len(c) > 2 {
			i := r.Intn(len(c) - 1)
			c = append(c[:i], c[i+1:]...)
		}
	}
	return c
}

func TestVerifC16Types(t *testing.T) {
	o := vfOpen()
	defer o.Close()
	seed := vfSeed()
	n := vfN(400)
	enc := func(what string, v interface{}) []byte {
		var out []byte
		vfGuard(o, "panic-encode", func() string { return what }, func() {
			b, err := rlp.EncodeToBytes(v)
			if err != nil {
				o.Viol("encode-error", what+": "+err.Error())
				return
			}
			out = b
		})
		return out
	}
	// reference: the Lean model (op enc on the item tree) and geth on the same tree
	ref := func(what string, item interface{}, got []byte) {
		o.Op(c16tModel, "enc "+c16tText(item), vfHex(got))
		if g, err := gethrlp.EncodeToBytes(item); err != nil || !bytes.Equal(g, got) {
			o.Viol("encode-differs-from-reference", fmt.Sprintf("%s: kardia=%x geth=%x (%v)", what, got, g, err))
		}
	}
	for i := 0; i < n; i++ {
		r := vfFork(seed, uint64(i))
		// ---------------- transaction
		{
			d := txdata{AccountNonce: c16tU64(r), Price: c16tBig(r), GasLimit: c16tU64(r), Amount: c16tBig(r),
				Payload: c16tPayload(r), V: c16tBig(r), R: c16tBig(r), S: c16tBig(r)}
			var to []byte
			if !r.Chance(25) {
				a := common.BytesToAddress(r.Bytes(20))
				if r.Chance(10) {
					a = common.Address{}
				}
				d.Recipient = &a
				to = a.Bytes()
			} else {
				to = []byte{}
				o.Stat("tx.creation")
			}
			tx := &Transaction{data: d}
			item := []interface{}{c16tU(d.AccountNonce), c16tB(d.Price), c16tU(d.GasLimit), to, c16tB(d.Amount), []byte(d.Payload), c16tB(d.V), c16tB(d.R), c16tB(d.S)}
			b := enc("tx", tx)
			if b != nil {
				ref("tx", item, b)
				h0 := tx.Hash()
				if h0 != crypto.Keccak256Hash(b) {
					o.Viol("tx-hash-not-hash-of-encoding", fmt.Sprintf("enc=%x hash=%x", b, h0))
				}
				if mb, _ := tx.MarshalBinary(); !bytes.Equal(mb, b) {
					o.Viol("tx-marshalbinary-differs", fmt.Sprintf("enc=%x marshal=%x", b, mb))
				}
				vfGuard(o, "panic-decode", func() string { return "tx " + vfHex(b) }, func() {
					var back Transaction
					if err := rlp.DecodeBytes(b, &back); err != nil {
						o.Viol("roundtrip-tx", fmt.Sprintf("decoding its own encoding %x fails: %v", b, err))
						return
					}
					bd := back.data
					same := bd.AccountNonce == d.AccountNonce && bd.Price.Cmp(d.Price) == 0 && bd.GasLimit == d.GasLimit &&
						bd.Amount.Cmp(d.Amount) == 0 && bytes.Equal(bd.Payload, d.Payload) && bd.V.Cmp(d.V) == 0 && bd.R.Cmp(d.R) == 0 && bd.S.Cmp(d.S) == 0 &&
						(bd.Recipient == nil) == (d.Recipient == nil) && (d.Recipient == nil || *bd.Recipient == *d.Recipient)
					if !same {
						o.Viol("roundtrip-tx", fmt.Sprintf("%x decodes to other fields: %+v", b, bd))
					}
					if back.Hash() != h0 {
						o.Viol("tx-hash-changes-across-roundtrip", fmt.Sprintf("enc=%x before=%x after=%x", b, h0, back.Hash()))
					}
					if re := enc("tx", &back); !bytes.Equal(re, b) {
						o.Viol("roundtrip-tx", fmt.Sprintf("re-encoding differs: %x -> %x", b, re))
					}
					if int(back.Size()) != len(b) {
						o.Viol("tx-size-wrong", fmt.Sprintf("Size()=%d len(enc)=%d enc=%x", int(back.Size()), len(b), b))
					}
				})
				// a list of transactions by DeriveSha-style access
				txs := Transactions{tx}
				if g := txs.GetRlp(0); !bytes.Equal(g, b) {
					o.Viol("txs-getrlp-differs", fmt.Sprintf("%x vs %x", g, b))
				}
				m := c16tMutate(r, b)
				vfGuard(o, "panic-decode", func() string { return "tx " + vfHex(m) }, func() {
					var back Transaction
					if err := rlp.DecodeBytes(m, &back); err == nil {
						o.Stat("tx.mutated-accepted")
						if re := enc("tx", &back); !bytes.Equal(re, m) {
							o.Viol("noncanonical-accepted", fmt.Sprintf("tx: input=%x reencoded=%x", m, re))
						}
						if back.Hash() != crypto.Keccak256Hash(m) {
							o.Viol("tx-hash-not-hash-of-encoding", fmt.Sprintf("accepted input=%x hash=%x", m, back.Hash()))
						}
					} else {
						o.Stat("tx.mutated-rejected")
					}
				})
			}
			o.Stat("tx")
		}
		// ---------------- receipt (consensus form, storage form, block info)
		{
			rc := &Receipt{CumulativeGasUsed: c16tU64(r), Logs: []*Log{}}
			var status []byte
			switch r.Intn(3) {
			case 0:
				rc.Status, status = ReceiptStatusFailed, []byte{}
			case 1:
				rc.Status, status = ReceiptStatusSuccessful, []byte{1}
			default:
				rc.PostState = r.Bytes(32)
				status = rc.PostState
			}
			var logItems []interface{}
			for k := r.Intn(4); k > 0; k-- {
				l, it := c16tLog(r)
				rc.Logs = append(rc.Logs, l)
				logItems = append(logItems, it)
			}
			if logItems == nil {
				logItems = []interface{}{}
			}
			if r.Chance(70) {
				rc.Bloom = BytesToBloom(LogsBloom(rc.Logs))
			} else {
				rc.Bloom = BytesToBloom(r.Bytes(256))
			}
			rc.TxHash = common.BytesToHash(r.Bytes(32))
			rc.ContractAddress = common.BytesToAddress(r.Bytes(20))
			rc.GasUsed = c16tU64(r)
			item := []interface{}{status, c16tU(rc.CumulativeGasUsed), rc.Bloom.Bytes(), logItems}
			b := enc("receipt", rc)
			if b != nil {
				ref("receipt", item, b)
				if g := (Receipts{rc}).GetRlp(0); !bytes.Equal(g, b) {
					o.Viol("receipts-getrlp-differs", fmt.Sprintf("%x vs %x", g, b))
				}
				vfGuard(o, "panic-decode", func() string { return "receipt " + vfHex(b) }, func() {
					var back Receipt
					if err := rlp.DecodeBytes(b, &back); err != nil {
						o.Viol("roundtrip-receipt", fmt.Sprintf("decoding its own encoding %x fails: %v", b, err))
						return
					}
					if back.Status != rc.Status && len(rc.PostState) == 0 || !bytes.Equal(back.PostState, rc.PostState) ||
						back.CumulativeGasUsed != rc.CumulativeGasUsed || back.Bloom != rc.Bloom || !c16tSameLogs(back.Logs, rc.Logs) {
						o.Viol("roundtrip-receipt", fmt.Sprintf("%x decodes to other consensus fields", b))
					}
					if re := enc("receipt", &back); !bytes.Equal(re, b) {
						o.Viol("roundtrip-receipt", fmt.Sprintf("re-encoding differs: %x -> %x", b, re))
					}
				})
				m := c16tMutate(r, b)
				vfGuard(o, "panic-decode", func() string { return "receipt " + vfHex(m) }, func() {
					var back Receipt
					if err := rlp.DecodeBytes(m, &back); err == nil {
						o.Stat("receipt.mutated-accepted")
						if re := enc("receipt", &back); !bytes.Equal(re, m) {
							o.Viol("noncanonical-accepted", fmt.Sprintf("receipt: input=%x reencoded=%x", m, re))
						}
					}
				})
			}
			// storage form: all content fields
			sitem := []interface{}{status, c16tU(rc.CumulativeGasUsed), rc.Bloom.Bytes(), rc.TxHash.Bytes(), rc.ContractAddress.Bytes(), logItems, c16tU(rc.GasUsed)}
			sb := enc("receipt-storage", (*ReceiptForStorage)(rc))
			if sb != nil {
				ref("receipt-storage", sitem, sb)
				vfGuard(o, "panic-decode", func() string { return "receipt-storage " + vfHex(sb) }, func() {
					var back ReceiptForStorage
					if err := rlp.DecodeBytes(sb, &back); err != nil {
						o.Viol("roundtrip-receipt-storage", fmt.Sprintf("decoding its own encoding %x fails: %v", sb, err))
						return
					}
					if back.Status != rc.Status && len(rc.PostState) == 0 || !bytes.Equal(back.PostState, rc.PostState) ||
						back.CumulativeGasUsed != rc.CumulativeGasUsed || back.Bloom != rc.Bloom || !c16tSameLogs(back.Logs, rc.Logs) ||
						back.TxHash != rc.TxHash || back.ContractAddress != rc.ContractAddress || back.GasUsed != rc.GasUsed {
						o.Viol("roundtrip-receipt-storage", fmt.Sprintf("%x decodes to other fields", sb))
					}
					// the consensus encoding (hence the receipt root) survives storage
					if re := enc("receipt", (*Receipt)(&back)); !bytes.Equal(re, b) {
						o.Viol("receipt-consensus-encoding-changes-across-storage", fmt.Sprintf("%x -> %x", b, re))
					}
				})
				ms := c16tMutate(r, sb)
				vfGuard(o, "panic-decode", func() string { return "receipt-storage " + vfHex(ms) }, func() {
					var back ReceiptForStorage
					_ = rlp.DecodeBytes(ms, &back)
				})
			}
			// block info
			bi := &BlockInfo{GasUsed: c16tU64(r), Rewards: c16tBig(r), Receipts: Receipts{rc}, Bloom: rc.Bloom}
			if r.Chance(30) {
				bi.Receipts = Receipts{}
			}
			bb := enc("blockinfo", bi)
			if bb != nil {
				ritems := []interface{}{}
				for range bi.Receipts {
					ritems = append(ritems, sitem)
				}
				ref("blockinfo", []interface{}{c16tU(bi.GasUsed), c16tB(bi.Rewards), ritems, bi.Bloom.Bytes()}, bb)
				vfGuard(o, "panic-decode", func() string { return "blockinfo " + vfHex(bb) }, func() {
					var back BlockInfo
					if err := rlp.DecodeBytes(bb, &back); err != nil {
						o.Viol("roundtrip-blockinfo", fmt.Sprintf("decoding its own encoding %x fails: %v", bb, err))
						return
					}
					if back.GasUsed != bi.GasUsed || back.Rewards.Cmp(bi.Rewards) != 0 || back.Bloom != bi.Bloom || len(back.Receipts) != len(bi.Receipts) {
						o.Viol("roundtrip-blockinfo", fmt.Sprintf("%x decodes to other fields", bb))
					}
					if re := enc("blockinfo", &back); !bytes.Equal(re, bb) {
						o.Viol("roundtrip-blockinfo", fmt.Sprintf("re-encoding differs: %x -> %x", bb, re))
					}
				})
				mb := c16tMutate(r, bb)
				vfGuard(o, "panic-decode", func() string { return "blockinfo " + vfHex(mb) }, func() {
					var back BlockInfo
					_ = rlp.DecodeBytes(mb, &back)
				})
			}
			o.Stat("receipt")
		}
		// ---------------- state account, full and slim
		{
			acc := StateAccount{Nonce: c16tU64(r), Balance: c16tBig(r), Root: common.BytesToHash(r.Bytes(32)), CodeHash: r.Bytes(32)}
			if r.Chance(40) {
				acc.Root = EmptyRootHash
			}
			if r.Chance(40) {
				acc.CodeHash = EmptyCodeHash[:]
			}
			b := enc("account", &acc)
			if b != nil {
				ref("account", []interface{}{c16tU(acc.Nonce), c16tB(acc.Balance), acc.Root.Bytes(), []byte(acc.CodeHash)}, b)
				vfGuard(o, "panic-decode", func() string { return "account " + vfHex(b) }, func() {
					var back StateAccount
					if err := rlp.DecodeBytes(b, &back); err != nil {
						o.Viol("roundtrip-account", fmt.Sprintf("decoding its own encoding %x fails: %v", b, err))
						return
					}
					if back.Nonce != acc.Nonce || back.Balance.Cmp(acc.Balance) != 0 || back.Root != acc.Root || !bytes.Equal(back.CodeHash, acc.CodeHash) {
						o.Viol("roundtrip-account", fmt.Sprintf("%x decodes to other fields: %+v", b, back))
					}
				})
				// slim form and back: the full encoding (hence the leaf hash in the state trie) is unchanged
				vfGuard(o, "panic-slim", func() string { return "account " + vfHex(b) }, func() {
					slim := SlimAccountRLP(acc)
					full, err := FullAccountRLP(slim)
					if err != nil || !bytes.Equal(full, b) {
						o.Viol("account-encoding-changes-across-slim-form", fmt.Sprintf("full=%x slim=%x back=%x err=%v", b, slim, full, err))
					}
					sr, sc := []byte{}, []byte{}
					if acc.Root != EmptyRootHash {
						sr = acc.Root.Bytes()
					}
					if !bytes.Equal(acc.CodeHash, EmptyCodeHash[:]) {
						sc = acc.CodeHash
					}
					ref("slim-account", []interface{}{c16tU(acc.Nonce), c16tB(acc.Balance), sr, sc}, slim)
					ms := c16tMutate(r, slim)
					_, _ = FullAccount(ms)
				})
				m := c16tMutate(r, b)
				vfGuard(o, "panic-decode", func() string { return "account " + vfHex(m) }, func() {
					var back StateAccount
					if err := rlp.DecodeBytes(m, &back); err == nil {
						o.Stat("account.mutated-accepted")
						if re := enc("account", &back); !bytes.Equal(re, m) {
							o.Viol("noncanonical-accepted", fmt.Sprintf("account: input=%x reencoded=%x", m, re))
						}
					}
				})
			}
			o.Stat("account")
		}
		o.Case(fmt.Sprintf("typed:%d:%d", seed, i), true)
	}
}
